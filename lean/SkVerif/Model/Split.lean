/-
Model of sktime/forecasting/model_selection/_split.py on integer positions:
SlidingWindowSplitter, ExpandingWindowSplitter, SingleWindowSplitter, CutoffSplitter
(`split`, `get_cutoffs`, `get_n_splits`) and `temporal_train_test_split`.
Import-free.  Follows the code's algorithm (`_split`, `_get_start`, `_get_end`,
`_check_window_lengths`, `_split_windows`, the `>= 0` filter in `split`).
-/
import SkVerif.Model.Range
import SkVerif.Model.FH
namespace SkVerif.Split
open SkVerif

inductive Err | value | type | index | key
  deriving DecidableEq, Repr

abbrev Fold := List Int × List Int

def fhMax (fh : List Int) : Int := fh.getLast?.getD 0
def fhMin (fh : List Int) : Int := fh.head?.getD 0
/-- `fh.is_all_out_of_sample()` / `fh.is_all_in_sample()` for a relative horizon -/
def allOut (fh : List Int) : Bool := fh.all (fun v => decide (v > 0))
def allIn (fh : List Int) : Bool := fh.all (fun v => decide (v ≤ 0))

/-- `_check_fh`: `check_fh(fh, enforce_relative=True)` on a list/array of ints -/
def checkFh (raw : List Int) : Except Err (List Int) :=
  match FH.checkFh (FH.mk (.ints raw) true) true with
  | .ok fh => .ok fh.vals
  | .error .type => .error .type
  | .error _ => .error .value

/-- `_get_end(y, fh)` -/
def getEnd (n : Int) (fh : List Int) : Int :=
  if allIn fh then n + 1 else n - fhMax fh + 1

/-- `BaseWindowSplitter._get_start(fh)` -/
def getStart (fh : List Int) (wl step : Int) (iw : Option Int) (sww : Bool) : Int :=
  let start : Int := if sww then (match iw with | some i => i + step | none => wl) else 0
  if !allOut fh then
    let m : Int := ((fhMin fh).natAbs : Int)
    if m ≥ start then m + 1 else start
  else start

inductive Kind | sliding | expanding
  deriving DecidableEq, Repr

/-- `_split_windows` of the two window splitters -/
def windows (k : Kind) (start end_ step wl : Int) (fh : List Int) : List Fold :=
  (pyRange start end_ step).map (fun sp =>
    (match k with
      | .sliding => arange (sp - wl) sp
      | .expanding => arange (start - wl) sp,
     fh.map (fun h => sp + h - 1)))

/-- validation shared by `_split` (all failures are ValueError) -/
def validate (n : Int) (fhRaw : List Int) (wl step : Int) (iw : Option Int) : Except Err (List Int) := do
  if step < 1 then throw .value
  if wl < 1 then throw .value
  match iw with
  | some i => if i < 1 then throw .value
  | none => pure ()
  let fh ← checkFh fhRaw
  if wl + fhMax fh > n then throw .value
  match iw with
  | some i => if i + fhMax fh > n then throw .value
  | none => pure ()
  pure fh

/-- `BaseWindowSplitter._split(y)` (unfiltered) -/
def windowSplitRaw (k : Kind) (n : Int) (fhRaw : List Int) (wl step : Int) (iw : Option Int)
    (sww : Bool) : Except Err (List Fold) := do
  let fh ← validate n fhRaw wl step iw
  let initial : List Fold ← match iw with
    | none => pure []
    | some i =>
      if !sww then throw .value
      else if i ≤ wl then throw .value
      else
        let m : Int := ((fhMin fh).natAbs : Int)
        let initialStart : Int := if !allOut fh && decide (m ≥ i) then m - i + 1 else 0
        let initialEnd := initialStart + i
        pure [(arange initialStart initialEnd, fh.map (fun h => initialEnd + h - 1))]
  let start := getStart fh wl step iw sww
  let end_ := getEnd n fh
  pure (initial ++ windows k start end_ step wl fh)

def nonneg (l : List Int) : List Int := l.filter (fun v => decide (v ≥ 0))

/-- `BaseSplitter.split(y)`: drops negative positions -/
def filterFolds (fs : List Fold) : List Fold := fs.map (fun f => (nonneg f.1, nonneg f.2))

def windowSplit (k : Kind) (n : Int) (fhRaw : List Int) (wl step : Int) (iw : Option Int)
    (sww : Bool) : Except Err (List Fold) :=
  (windowSplitRaw k n fhRaw wl step iw sww).map filterFolds

/-- `BaseWindowSplitter.get_cutoffs(y)` (note: runs only the fh and step checks) -/
def windowCutoffs (n : Int) (fhRaw : List Int) (wl step : Int) (iw : Option Int) (sww : Bool) :
    Except Err (List Int) := do
  let fh ← checkFh fhRaw
  if step < 1 then throw .value
  let start := match iw with
    | some i => i
    | none => getStart fh wl step iw sww
  pure ((pyRange start (getEnd n fh) step).map (· - 1))

def windowNSplits (n : Int) (fhRaw : List Int) (wl step : Int) (iw : Option Int) (sww : Bool) :
    Except Err Nat := (windowCutoffs n fhRaw wl step iw sww).map List.length

/-- `SingleWindowSplitter._split` (unfiltered) -/
def singleSplitRaw (n : Int) (fhRaw : List Int) (wl : Option Int) : Except Err (List Fold) := do
  match wl with
  | some w => if w < 1 then throw .value
  | none => pure ()
  let fh ← checkFh fhRaw
  match wl with
  | some w => if w + fhMax fh > n then throw .value    -- `_check_window_lengths` (repaired code)
  | none => pure ()
  let end_ := getEnd n fh - 1
  let start := match wl with | none => 0 | some w => end_ - w
  pure [(arange start end_, fh.map (fun h => end_ + h - 1))]

def singleSplit (n : Int) (fhRaw : List Int) (wl : Option Int) : Except Err (List Fold) :=
  (singleSplitRaw n fhRaw wl).map filterFolds

def singleCutoffs (n : Int) (fhRaw : List Int) : Except Err (List Int) := do
  let fh ← checkFh fhRaw
  pure [getEnd n fh - 2]

def listMax (l : List Int) : Int := l.foldl max (l.head?.getD 0)

/-- `CutoffSplitter._split` (unfiltered).  `strictBound = true` is the repaired feasibility
check `max(cutoffs) + max(fh) >= len(y)`; the original code used `>` (see known findings). -/
def cutoffSplitRaw (n : Int) (cutoffs : List Int) (fhRaw : List Int) (wl : Int) : Except Err (List Fold) := do
  if cutoffs.isEmpty then throw .value
  let cs := sortInts cutoffs
  if listMax cs ≥ n then throw .value
  let fh ← checkFh fhRaw
  if listMax cs + listMax fh ≥ n then throw .value
  if wl < 1 then throw .value
  pure (cs.map (fun c => ((arange (c - wl) c).map (· + 1), fh.map (fun h => c + h))))

def cutoffSplit (n : Int) (cutoffs : List Int) (fhRaw : List Int) (wl : Int) : Except Err (List Fold) :=
  (cutoffSplitRaw n cutoffs fhRaw wl).map filterFolds

def cutoffCutoffs (cutoffs : List Int) : Except Err (List Int) :=
  if cutoffs.isEmpty then .error .value else .ok (sortInts cutoffs)

/-- `_split_by_fh` on positions `0..n-1` (labels = positions + origin handled by the harness).
Relative horizon: train = first `n - max` positions, test = `(n - max) + (h - 1)`.  Python's
`index[:-m]` / `index[-m:]` for `m > n` clamp. -/
def ttsByFhRel (n : Int) (fhRaw : List Int) : Except Err Fold := do
  let fh ← match FH.checkFh (FH.mk (.ints fhRaw) true) false with
    | .ok fh => pure fh.vals
    | .error .type => throw Err.type
    | .error _ => throw Err.value
  if !allOut fh then throw .value
  let m := fhMax fh
  let k := if m ≥ n then 0 else n - m        -- length of index[:-m]
  let base := if m ≥ n then 0 else n - m      -- first position of index[-m:]
  -- `test[steps]`: a step beyond the test stretch is an IndexError
  if fh.any (fun h => decide (base + (h - 1) ≥ n)) then throw .index
  pure (arange 0 k, fh.map (fun h => base + (h - 1)))

/-- absolute horizon (labels = positions): train = positions `< min`, test = the horizon -/
def ttsByFhAbs (n : Int) (fhRaw : List Int) : Except Err Fold := do
  let fh ← match FH.checkFh (FH.mk (.ints fhRaw) false) false with
    | .ok fh => pure fh.vals
    | .error .type => throw Err.type
    | .error _ => throw Err.value
  let mn := fhMin fh
  -- `y.loc[idx]`: a label that is not in the index is a KeyError
  if fh.any (fun h => decide (h < 0 ∨ h ≥ n)) then throw .key
  pure ((arange 0 n).filter (fun i => decide (i < mn)), fh)

/-- size argument of sklearn's `train_test_split`: absent, an int, or a fraction -/
inductive Size | none | int (k : Int) | frac (q : Rat)
  deriving Repr

/-- last step of sklearn's `_validate_shuffle_split` + the unshuffled split -/
def ttsFinish (n nTrain nTest : Int) : Except Err Fold :=
  if nTrain + nTest > n then .error .value
  else if nTrain = 0 then .error .value
  else .ok (arange 0 nTrain, arange nTrain (nTrain + nTest))

def sizeBad (n : Int) (s : Size) : Bool :=
  match s with
  | .none => false
  | .int k => decide (k ≥ n) || decide (k ≤ 0)
  | .frac q => decide (q ≤ 0) || decide (q ≥ 1)

def sizeSumBad (test train : Size) : Bool :=
  match test, train with
  | .frac a, .frac b => decide (a + b > 1)
  | _, _ => false

/-- sklearn `_validate_shuffle_split` + unshuffled split (modelled as sklearn's) -/
def ttsBySize (n : Int) (test train : Size) : Except Err Fold :=
  if n < 1 then .error .value
  else if sizeBad n test || sizeBad n train || sizeSumBad test train then .error .value
  else
    let test' : Size := match test, train with
      | .none, .none => .frac (1 / 4)
      | t, _ => t
    let nTest? : Option Int := match test' with
      | .none => none
      | .int k => some k
      | .frac q => some (q * n).ceil
    let nTrain? : Option Int := match train with
      | .none => none
      | .int k => some k
      | .frac q => some (q * n).floor
    let nTrain := match nTrain?, nTest? with
      | some a, _ => a
      | none, some b => n - b
      | none, none => 0
    let nTest := match nTest?, nTrain? with
      | some b, _ => b
      | none, some a => n - a
      | none, none => 0
    ttsFinish n nTrain nTest

end SkVerif.Split
