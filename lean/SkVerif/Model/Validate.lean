/-
Model of sktime's input validation (sktime/utils/validation/{series,forecasting,__init__}.py) and of
the order in which each forecasting entry point runs it, over input *descriptors*.
Import-free.  An entry point's outcome is `rej` (ValueError / TypeError / NotImplementedError —
the property allows any of the three, so they are one class) or `ok`, plus the estimator's
`is_fitted` afterwards where there is an estimator.
-/
import SkVerif.Model.FH
import SkVerif.Model.Split
namespace SkVerif.Val
open SkVerif

/-- what was passed as `y` -/
inductive YKind
  | ok        -- pd.Series, sorted integer index
  | dupidx    -- sorted but with a repeated label (`is_monotonic` is non-strict: accepted)
  | gapped    -- pd.Series, sorted integer index with a gap (irregular spacing): a valid target
  | unsorted | empty
  | frame1 | frame2          -- pd.DataFrame (any DataFrame is "not univariate")
  | array | array2d          -- np.ndarray
  | list | none              -- other containers
  | floatidx                 -- index type not among the supported ones
  deriving DecidableEq, Repr

structure YDesc where
  kind : YKind
  n : Nat
  deriving DecidableEq, Repr

/-- what was passed as `X`, relative to a valid `y` -/
inductive XKind
  | none | ok | shifted | shorter | unsorted | array
  | interior                 -- same length, same first and last label, one inner label differs
  | first | last             -- same length, only the first / only the last label differs
  | longer                   -- one more row at the end
  deriving DecidableEq, Repr

/-- an "integer-like" setting: window_length, step_length, sp, initial_window -/
inductive IntLike
  | int (v : Int) | float | str | bool | none
  deriving DecidableEq, Repr

/-- a horizon argument -/
inductive FhTok
  | none | rel (vs : List Int) | abs (vs : List Int) | dup | empty | frac | str | float
  deriving DecidableEq, Repr

abbrev R := Except Unit      -- `.error ()` = rejected with one of the three allowed exception kinds

def rej {α} : R α := .error ()

/-- `check_time_index(index, allow_empty)` -/
def checkTimeIndex (k : YKind) (allowEmpty : Bool) : R Unit :=
  match k with
  | .floatidx => rej                         -- NotImplementedError: unsupported index type
  | .unsorted => rej                         -- ValueError: not monotonic
  | .empty => if allowEmpty then pure () else rej
  | _ => pure ()

/-- `check_series(Z, enforce_univariate, allow_empty, allow_numpy)` -/
def checkSeries (k : YKind) (enforceUnivariate allowEmpty allowNumpy : Bool) : R Unit :=
  match k with
  | .list | .none => rej                                      -- TypeError: not Series/DataFrame/ndarray
  | .array => if allowNumpy then pure () else rej
  | .array2d => if !allowNumpy then rej else if enforceUnivariate then rej else pure ()
  | .frame1 | .frame2 => if enforceUnivariate then rej else pure ()   -- index of these descriptors is fine
  | k => checkTimeIndex k allowEmpty

/-- `check_y(y, allow_empty)` -/
def checkY (k : YKind) (allowEmpty : Bool) : R Unit := checkSeries k true allowEmpty false

/-- `check_X(X)` followed by `check_equal_time_index(y, X)` for a `y` that passed `check_y` -/
def checkXAgainst (x : XKind) : R Unit :=
  match x with
  | .none | .ok => pure ()
  | .array => rej                    -- TypeError (allow_numpy=False)
  | .unsorted => rej                 -- X's own index is not monotonic
  | .shifted | .shorter => rej       -- indices differ
  | .interior | .first | .last | .longer => rej    -- `Index.equals` compares every label

/-- `check_y_X(y, X, allow_empty)` -/
def checkYX (k : YKind) (x : XKind) (allowEmpty : Bool) : R Unit := do
  checkY k allowEmpty
  checkXAgainst x

/-- `is_int(x)`: an int (or np.integer) that is not a bool -/
def isInt : IntLike → Option Int
  | .int v => some v
  | _ => none

/-- `check_window_length` / `check_step_length` / `check_sp`: None passes through, otherwise a
non-bool integer ≥ 1 is required -/
def checkPosInt (x : IntLike) : R (Option Int) :=
  match x with
  | .none => pure none
  | .int v => if v < 1 then rej else pure (some v)
  | _ => rej

/-- the raw horizon values a token stands for -/
def fhRaw : FhTok → Option (FH.Raw × Bool)
  | .none => none
  | .rel vs => some (.ints vs, true)
  | .abs vs => some (.ints vs, false)
  | .dup => some (.ints [1, 2, 2], true)
  | .empty => some (.ints [], true)
  | .frac => some (.fractional, true)
  | .str | .float => some (.unsupported, true)

/-- `check_fh(fh, enforce_relative)` on a given (non-None) horizon -/
def checkFh (t : FhTok) (enforceRelative : Bool) : R FH.FH :=
  match fhRaw t with
  | none => rej
  | some (raw, rel) =>
    match FH.checkFh (FH.mk raw rel) enforceRelative with
    | .ok f => pure f
    | .error _ => rej

structure Outcome where
  ok : Bool
  fitted : Option Bool        -- `none` = the entry point has no estimator
  deriving DecidableEq, Repr

def finish (r : R Unit) (hasEst : Bool) : Outcome :=
  match r with
  | .ok _ => ⟨true, if hasEst then some true else none⟩
  | .error _ => ⟨false, if hasEst then some false else none⟩

/-! ### NaiveForecaster -/

inductive Strategy | last | mean | drift | unknown
  deriving DecidableEq, Repr

/-- `self.sp == 1` as Python evaluates it (`True == 1`) -/
def spIsOne : IntLike → Bool
  | .int 1 => true
  | .bool => true
  | _ => false

/-- the parameter checks and window-length resolution of `NaiveForecaster.fit` -/
def naiveWindow (st : Strategy) (sp wl : IntLike) (n : Nat) : R Int := do
  let w : Int ← match st with
    | .last =>
      if spIsOne sp then pure 1
      else do
        match ← checkPosInt sp with
        | some v => pure v
        | none => rej                        -- sp=None: `None > len(y)` raises TypeError
    | .mean => do
      -- `if self.window_length is not None and self.sp != 1: if self.window_length < self.sp: raise`
      match wl, spIsOne sp with
      | .none, _ => pure ()
      | _, true => pure ()
      | .int a, false =>
        (match sp with
          | .int b => if a < b then rej else pure ()
          | .float => pure ()               -- numeric comparison succeeds or not; check_sp rejects next
          | _ => rej)                        -- int < str / None: TypeError
      | .float, false => (match sp with | .int _ | .float => pure () | _ => rej)
      | .bool, false => (match sp with | .int _ | .float => pure () | _ => rej)
      | .str, false => (match sp with | .str => pure () | _ => rej)
      let w ← checkPosInt wl
      let _ ← checkPosInt sp
      match w with
      | some v => pure v
      | none => pure n
    | .drift => do
      let w ← checkPosInt wl
      match w with
      | some v => if v = 1 then rej else pure v
      | none => pure n
    | .unknown => rej
  if w > n then rej else pure w

/-- `NaiveForecaster(strategy, sp, window_length).fit(y, X, fh)` -/
def naiveFit (y : YDesc) (x : XKind) (fh : FhTok) (st : Strategy) (sp wl : IntLike) : Outcome :=
  finish (do
    checkYX y.kind x false
    match fh with
    | .none => pure ()
    | t => do let _ ← checkFh t false; pure ()
    let _ ← naiveWindow st sp wl y.n
    pure ()) true

/-- `predict(fh)` on a NaiveForecaster fitted with horizon `fitFh` (valid or none) -/
def naivePredict (fitFh fh : FhTok) : Outcome :=
  let r : R Unit := match fh with
    | .none => (match fitFh with | .none => rej | _ => pure ())
    | t => do let _ ← checkFh t false; pure ()
  ⟨r.isOk, some true⟩

/-- `update(y, X, update_params=False)` on a fitted forecaster -/
def naiveUpdate (y : YKind) (x : XKind) : Outcome :=
  ⟨(checkYX y x true).isOk, some true⟩

/-! ### horizon-dependent forecaster (direct reduction) -/

def requiredFit (fh : FhTok) : Outcome :=
  finish (match fh with
    | .none => rej
    | t => do let _ ← checkFh t false; pure ()) true

/-- predict with horizon `fh` after a fit with `fitFh` (both valid or `none` at predict) -/
def requiredPredict (fitFh fh : FhTok) : Outcome :=
  let r : R Unit := match fh with
    | .none => pure ()
    | t => do
      let f ← checkFh t false
      let g ← checkFh fitFh false
      if f.rel == g.rel && f.vals == g.vals then pure () else rej    -- repaired code compares the kind too
  ⟨r.isOk, some true⟩

/-! ### splitters -/

inductive SplitKind | sliding | expanding | single | cutoff
  deriving DecidableEq, Repr
inductive CutTok | ok | empty | list | beyond
  deriving DecidableEq, Repr

def splitFhVals (t : FhTok) : R (List Int) := do
  let f ← checkFh t true
  pure f.vals

def ofSplit {α} (r : Except Split.Err α) : R α :=
  match r with
  | .ok a => pure a
  | .error _ => rej

def splitEntry (k : SplitKind) (y : YDesc) (fh : FhTok) (wl step iw : IntLike) (sww : Bool) (cut : CutTok) : Outcome :=
  finish (do
    checkTimeIndex y.kind false
    let n : Int := y.n
    match k with
    | .sliding | .expanding => do
      let s ← checkPosInt step
      let w ← checkPosInt wl
      let i ← checkPosInt iw
      let fhv ← splitFhVals fh
      match s, w with
      | some s, some w =>
        let _ ← ofSplit (Split.windowSplit (if k == .sliding then .sliding else .expanding) n fhv w s
                  (if k == .sliding then i else none) sww)
        pure ()
      | _, _ => rej                           -- None window/step: `None + int` TypeError
    | .single => do
      let w ← checkPosInt wl
      let fhv ← splitFhVals fh
      let _ ← ofSplit (Split.singleSplit n fhv w)
      pure ()
    | .cutoff => do
      match cut with
      | .empty | .list | .beyond => rej
      | .ok =>
        let fhv ← splitFhVals fh
        let w ← checkPosInt wl
        match w with
        | some w =>
          let _ ← ofSplit (Split.cutoffSplit n [max 0 (n - 4)] fhv w)
          pure ()
        | none => rej) false

/-! ### temporal_train_test_split -/

def ttsEntry (y : YDesc) (x : XKind) (fh : FhTok) (test train : IntLike) : Outcome :=
  finish (match fh with
    | .none => do
      -- by sizes: sklearn's array splitter; only the sizes are validated
      let sz (t : IntLike) : R Split.Size := match t with
        | .none => pure .none
        | .int v => pure (.int v)
        | _ => rej
      let te ← sz test
      let tr ← sz train
      let _ ← ofSplit (Split.ttsBySize y.n te tr)
      pure ()
    | t => do
      if test != .none || train != .none then rej
      checkSeries y.kind false false false
      checkXAgainst x
      let f ← checkFh t false
      if f.rel then
        let _ ← ofSplit (Split.ttsByFhRel y.n f.vals)
        pure ()
      else
        let _ ← ofSplit (Split.ttsByFhAbs y.n f.vals)
        pure ()) false

/-! ### evaluate, tuning -/

inductive CvTok | ok | nosww | notcv | none deriving DecidableEq, Repr
inductive ScoreTok | none | ok | notcallable deriving DecidableEq, Repr
inductive GridTok | ok | scalar | emptylist | unknown deriving DecidableEq, Repr

def evaluateEntry (y : YDesc) (x : XKind) (cv : CvTok) (sc : ScoreTok) (strategyOk : Bool) : Outcome :=
  finish (do
    if !strategyOk then rej
    match cv with
    | .notcv | .none => rej                   -- check_cv: not a BaseSplitter
    | .nosww => rej                           -- enforce_start_with_window
    | .ok => pure ()
    if sc == .notcallable then rej
    checkYX y.kind x false) false

def gridSearchEntry (y : YDesc) (x : XKind) (cv : CvTok) (sc : ScoreTok) (g : GridTok) (fh : FhTok)
    (strategyOk : Bool := true) : Outcome :=
  finish (do
    checkYX y.kind x false
    if !strategyOk then rej                   -- reaches evaluate(): _check_strategy (exact names only)
    match cv with
    | .notcv | .none => rej
    | .nosww => rej                           -- reaches evaluate(), which enforces start_with_window
    | .ok => pure ()
    if sc == .notcallable then rej
    if g != .ok then rej
    match fh with
    | .none => pure ()
    | t => do let _ ← checkFh t false; pure ()) true

/-! ### reduction -/

inductive RedStrategy | direct | recursive | multioutput | dirrec | unknown
  deriving DecidableEq, Repr

def reduceEntry (y : YDesc) (x : XKind) (fh : FhTok) (st : RedStrategy) (wl step : IntLike) (scitypeOk : Bool) : Outcome :=
  finish (do
    if st == .unknown then rej               -- make_reduction: _check_strategy
    if !scitypeOk then rej
    checkYX y.kind x false
    if st == .dirrec && x != .none then rej    -- NotImplementedError: no exogenous variables for dirrec
    let f ← match fh with
      | .none => if st == .recursive then pure none else rej
      | t => do let f ← checkFh t false; pure (some f)
    let _ ← checkPosInt step                  -- _Reducer.fit: check_step_length (None passes through)
    let w ← checkPosInt wl
    match w with
    | none => rej                             -- `None + fh_max`: TypeError
    | some w =>
      let fhMax : Int := match st, f with
        | .recursive, _ => 1
        | _, some f => Split.fhMax f.vals
        | _, none => 1
      -- all strategies need out-of-sample steps
      match f with
      | some f => if f.vals.any (fun v => decide (v ≤ 0)) then rej
      | none => pure ()
      if w + fhMax ≥ y.n then rej else pure ()) true

/-! ### composites -/

inductive CompKind | ensemble | pipeline | multiplexer | stacking deriving DecidableEq, Repr
inductive Shape
  | ok | dupnames | dunder | clash | none | emptylist | tuple | notforecaster | alldropped
  | lastnotforecaster | badtransformer | forecasterinmiddle | unknownname | noneselected
  deriving DecidableEq, Repr

def compositeEntry (k : CompKind) (sh : Shape) (y : YDesc) (fh : FhTok) (aggOk : Bool) (predict : Bool) : Outcome :=
  let fitR : R Unit := do
    -- `fit` validates the composite's structure first
    if sh != .ok then rej
    match k with
    | .pipeline => checkY y.kind false          -- fit: check_y(y) after _check_steps
    | _ => checkYX y.kind .none false           -- _set_y_X
    match k, fh with
    | .stacking, .none => rej                     -- horizon required in fit
    | _, .none => pure ()
    | _, t => do let _ ← checkFh t false; pure ()
  match fitR with
  | .error _ => ⟨false, some false⟩
  | .ok _ =>
    if predict then
      -- ensemble: aggfunc is validated at predict; a missing horizon is rejected there too
      if !aggOk then ⟨false, some true⟩
      else if fh == .none then ⟨false, some true⟩
      else ⟨true, some true⟩
    else ⟨true, some true⟩

/-! ### horizon constructor / check_fh -/

def fhEntry (viaCtor : Bool) (fh : FhTok) (relIsBool : Bool) (rel : Bool) (enf : Bool) : Outcome :=
  finish (if viaCtor then
      match fh with
      | .none => rej                           -- ForecastingHorizon(None): TypeError
      | t => match fhRaw t with
        | none => rej
        | some (raw, _) => (match FH.mk raw rel relIsBool with | .ok _ => pure () | .error _ => rej)
    else do let _ ← checkFh fh enf; pure ()) false

/-! ### Static table: validation helpers called by each entry point, in source order

Read from the source when the model was written (harness/extract/entrychecks.py re-reads it on every
run and the check compares).  The check sequences above were written from these lists. -/
def entryChecks : List (String × String) := [
  ("check_series@series.py", "_check_is_univariate,check_time_index"),
  ("check_time_index@series.py", "-"),
  ("check_equal_time_index@series.py", "check_time_index,check_time_index"),
  ("check_y_X@forecasting.py", "check_y,check_X,check_equal_time_index"),
  ("check_y@forecasting.py", "check_series"),
  ("check_X@forecasting.py", "check_series"),
  ("check_fh@forecasting.py", "-"),
  ("check_step_length@forecasting.py", "is_int"),
  ("check_sp@forecasting.py", "is_int,is_int"),
  ("check_cv@forecasting.py", "-"),
  ("check_window_length@__init__.py", "is_int"),
  ("_SktimeForecaster._set_y_X@_sktime.py", "check_y_X"),
  ("_SktimeForecaster._update_y_X@_sktime.py", "check_y_X"),
  ("_SktimeForecaster.predict@_sktime.py", "check_is_fitted,_set_fh"),
  ("_SktimeForecaster.update@_sktime.py", "check_is_fitted,_update_y_X"),
  ("_SktimeForecaster.update_predict@_sktime.py", "check_is_fitted,check_y,check_cv"),
  ("_SktimeForecaster.update_predict_single@_sktime.py", "check_is_fitted,_set_fh"),
  ("_BaseWindowForecaster.update_predict@_sktime.py", "check_is_fitted,check_cv"),
  ("_OptionalForecastingHorizonMixin._set_fh@_sktime.py", "check_fh"),
  ("_RequiredForecastingHorizonMixin._set_fh@_sktime.py", "check_fh"),
  ("NaiveForecaster.fit@naive.py", "_set_y_X,_set_fh,check_sp,check_window_length,check_sp,check_window_length"),
  ("BaseSplitter.split@_split.py", "_check_y"),
  ("BaseWindowSplitter._split@_split.py", "check_step_length,check_window_length,check_window_length,_check_fh,_check_window_lengths"),
  ("CutoffSplitter._split@_split.py", "check_cutoffs,_check_fh,check_window_length"),
  ("SingleWindowSplitter._split@_split.py", "check_window_length,_check_fh,_check_window_lengths"),
  ("temporal_train_test_split@_split.py", "-"),
  ("_split_by_fh@_split.py", "check_series,check_series,check_equal_time_index,check_fh"),
  ("evaluate@_functions.py", "_check_strategy,check_cv,check_scoring,check_y_X"),
  ("BaseGridSearch.fit@_tune.py", "check_y_X,check_cv,check_scoring"),
  ("_Reducer.fit@_reduce.py", "_set_y_X,_set_fh,check_step_length,check_window_length"),
  ("make_reduction@_reduce.py", "_check_strategy,_check_scitype"),
  ("_sliding_window_transform@_reduce.py", "check_window_length,_check_fh"),
  ("EnsembleForecaster.fit@_ensemble.py", "_set_y_X,_set_fh,_check_forecasters"),
  ("TransformedTargetForecaster.fit@_pipeline.py", "_check_steps,_set_y_X,_set_fh,check_y"),
  ("MultiplexForecaster.fit@_multiplexer.py", "_set_y_X,_set_fh,_check_forecasters,_check_fit_params"),
  ("StackingForecaster.fit@_stack.py", "_set_y_X,_set_fh,_check_forecasters,_check_final_regressor"),
  ("_HeterogenousEnsembleForecaster._check_forecasters@_meta.py", "_check_names")
]

def entryChecksOf (k : String) : Option String := (entryChecks.find? (·.1 == k)).map (·.2)

end SkVerif.Val
