/-
Which options the statsmodels-backed forecasters of C11 hand to the wrapped statsmodels model
(sktime/forecasting/exp_smoothing.py `_fit_forecaster`, ets.py `_fit_forecaster` (auto=False), theta.py `fit`).
Option values are opaque atoms (canonical strings: `None`, `T`/`F`, names, numbers, `[a|b]` lists); the model says
WHICH constructor / fit keyword receives WHICH parameter.  Import-free.
-/
namespace SkVerif.Adapter

abbrev Args := List (String × String)

def get (p : Args) (k : String) : String := ((p.find? (fun kv => kv.1 == k)).map (·.2)).getD "None"

/-- `ExponentialSmoothing._fit_forecaster`: `_ExponentialSmoothing(y, trend=self.trend, …, seasonal_periods=self.sp, …)` -/
def esCtor (p : Args) : Args :=
  [("trend", get p "trend"), ("damped_trend", get p "damped_trend"), ("seasonal", get p "seasonal"),
   ("seasonal_periods", get p "sp"), ("use_boxcox", get p "use_boxcox"), ("initial_level", get p "initial_level"),
   ("initial_trend", get p "initial_trend"), ("initial_seasonal", get p "initial_seasonal"),
   ("initialization_method", get p "initialization_method")]

/-- `.fit()` is called without arguments -/
def esFit (_p : Args) : Args := []

/-- `AutoETS._fit_forecaster` with `auto=False` -/
def etsCtor (p : Args) : Args :=
  [("error", get p "error"), ("trend", get p "trend"), ("damped_trend", get p "damped_trend"),
   ("seasonal", get p "seasonal"), ("seasonal_periods", get p "sp"),
   ("initialization_method", get p "initialization_method"), ("initial_level", get p "initial_level"),
   ("initial_trend", get p "initial_trend"), ("initial_seasonal", get p "initial_seasonal"),
   ("bounds", get p "bounds"), ("dates", get p "dates"), ("freq", get p "freq"), ("missing", get p "missing")]

def etsFit (p : Args) : Args :=
  [("start_params", get p "start_params"), ("maxiter", get p "maxiter"), ("full_output", get p "full_output"),
   ("disp", get p "disp"), ("callback", get p "callback"), ("return_params", get p "return_params")]

/-- `ThetaForecaster(initial_level, deseasonalize=False, sp)`: simple exponential smoothing; the initialisation is
"known" exactly when an initial level is given (`self.initial_level is not None`, since 636f889) -/
def thetaCtor (p : Args) : Args :=
  let lvl := get p "initial_level"
  [("trend", "None"), ("damped_trend", "F"), ("seasonal", "None"), ("seasonal_periods", get p "sp"),
   ("use_boxcox", "None"), ("initial_level", lvl), ("initial_trend", "None"), ("initial_seasonal", "None"),
   ("initialization_method", if lvl == "None" then "estimated" else "known")]

/-- the ORIGINAL code (before 636f889) decided by truthiness: `"known" if self.initial_level else "estimated"` -/
def thetaCtorOrig (p : Args) : Args :=
  let lvl := get p "initial_level"
  [("trend", "None"), ("damped_trend", "F"), ("seasonal", "None"), ("seasonal_periods", get p "sp"),
   ("use_boxcox", "None"), ("initial_level", lvl), ("initial_trend", "None"), ("initial_seasonal", "None"),
   ("initialization_method", if lvl == "None" || lvl == "0" then "estimated" else "known")]

/-- statsmodels' `ExponentialSmoothing` constructor raises ValueError when an initial level is passed although the
initialisation is to be estimated (probed: "initialization method is estimated but initial_level has been set") -/
def smRejects (ctor : Args) : Bool :=
  get ctor "initialization_method" == "estimated" && get ctor "initial_level" != "None"

def showArgs (a : Args) : String :=
  if a.isEmpty then "-" else ";".intercalate (a.map (fun kv => kv.1 ++ ":" ++ kv.2))

def parseArgs (s : String) : Option Args :=
  if s == "-" then some []
  else (s.splitOn ";").mapM (fun t => match t.splitOn ":" with
    | [k, v] => some (k, v)
    | _ => none)

end SkVerif.Adapter
