/-
Model for C04 (scikit-learn protocol: parameters, clone, fitted state).  Import-free.

Layer A  (static tables, regenerated from /repo's source by harness/extract/classtable.py)
  * `ClassEntry` : one class = MRO, `__init__` (parameters + body as `Stmt`s), every method as a
    list of `Event`s in evaluation order, class attributes, which `get_params/set_params` it defines.
  * `flatten`    : the constructor of a class as a list of primitive attribute writes, obtained by
    following `super().__init__(…)` / `Base.__init__(self, …)` through the MRO and substituting the
    forwarded arguments (expressions are over the parameters of the OUTERMOST class).
  * `runPrims`   : concrete semantics of that list over an attribute store, for ANY interpretation of
    constants, derived expressions, branch outcomes and un-understood statements (`Interp`).
  * `absOf`      : abstract interpretation (what attribute `a` definitely holds afterwards).
  * `inlineMethod` : the effects of calling a method, following `self.m()`, properties and
    `super().m()` through the MRO (each method entered once); `guardScan` decides whether a
    fitted-state check comes before the first use of fitted state; `runEffects` is the concrete
    semantics on an unfitted / fitted object for ANY oracle.
  * `summarize`  : everything the check wants to know about one class, as one decidable value.

Layer B  (parameter trees; follows sklearn `BaseEstimator.get_params/set_params`, `clone` and
          sktime `_HeterogenousMetaEstimator._get_params/_set_params/_replace_estimator/_check_names`)
  * `Val` : atom | estimator (class, impl, fitted, parameters) | list of (name, estimator) pairs.
  * `getVal`, `setVal`, `cloneVal`, `checkNames`.
  Keys `a__b__c` are paths `[a,b,c]` (sklearn splits at the first `__`).
-/
namespace SkVerif.Params

/-! ## Layer A : tables -/

inductive Expr (N : Type) where
  | param (p : N)            -- the value of constructor parameter `p`, unchanged
  | lit (b : Bool)           -- literal `False` / `True`
  | const (id : Nat)         -- an expression that does not depend on the parameters
  | derived (id : Nat)       -- an expression that depends on parameters / self
  | dflt (c : N) (p : N)     -- default value of parameter `p` of class `c`
  deriving DecidableEq, Repr

inductive Stmt (N : Type) where
  | assign (attr : N) (e : Expr N) (cond : Bool)
  | superCall (target : Option N) (pos : List (Expr N)) (kw : List (N × Expr N)) (star : Bool) (cond : Bool)
  | raiseIf (explicit : Bool)   -- explicit = a `raise` / `assert` statement; otherwise a computation that may fail
  | other
  | pure
  deriving Repr

inductive Event (N : Type) where
  | check (cond : Bool)
  | use (a : N)
  | write (a : N)
  | callSelf (m : N)
  | callSuper (m : N)
  | escape
  | raise (cond : Bool) (state : Bool)
  | ret (cond : Bool) (retSelf : Bool)
  deriving Repr

inductive ParamsImpl (N : Type) where
  | inherit | viaMeta (attr : N) | abstr | custom
  deriving DecidableEq, Repr

structure Init (N : Type) where
  params : List (N × Bool)     -- (name, has default)
  varargs : Bool               -- *args or **kwargs in the signature
  body : List (Stmt N)
  deriving Repr

structure Method (N : Type) where
  name : N
  isProp : Bool
  events : List (Event N)
  deriving Repr

structure ClassEntry (N : Type) where
  name : N
  external : Bool
  extPositional : List N       -- (external classes) names of the leading positional parameters
  extKnown : Bool              -- (external classes) `extNames` lists every attribute the class provides
  extNames : List N
  mro : List N
  init : Option (Init N)
  methods : List (Method N)
  classAttrs : List N
  getImpl : ParamsImpl N
  setImpl : ParamsImpl N
  hooks : Bool                 -- defines __setattr__/__getattr__/…
  deriving Repr

abbrev Table (N : Type) := List (ClassEntry N)

section TableOps
variable {N : Type} [DecidableEq N]

def findClass (tbl : Table N) (k : N) : Option (ClassEntry N) :=
  match tbl with
  | [] => none
  | c :: rest => if c.name = k then some c else findClass rest k

/-- first class of the chain that has a constructor of its own (or lies outside the package),
together with the rest of the chain after it -/
def findInit (tbl : Table N) : List N → Option (ClassEntry N × List N)
  | [] => none
  | k :: rest =>
    match findClass tbl k with
    | none => findInit tbl rest
    | some c => if c.external || c.init.isSome then some (c, rest) else findInit tbl rest

def assocGet {V : Type} (k : N) : List (N × V) → Option V
  | [] => none
  | (k', v) :: rest => if k' = k then some v else assocGet k rest

/-- `setattr`: replace the binding or append a new one -/
def assocSet {V : Type} (k : N) (v : V) : List (N × V) → List (N × V)
  | [] => [(k, v)]
  | (k', v') :: rest => if k' = k then (k', v) :: rest else (k', v') :: assocSet k v rest

/-- Python argument binding: positional arguments to the parameters in order, then keywords;
missing parameters take their default; anything else is a `TypeError` (`none`). -/
def bindArgs (cls : N) (ini : Init N) (pos : List (Expr N)) (kw : List (N × Expr N)) :
    Option (List (N × Expr N)) :=
  let rec go (ps : List (N × Bool)) (pos : List (Expr N)) (acc : List (N × Expr N)) :
      Option (List (N × Expr N)) :=
    match ps with
    | [] => if pos.isEmpty || ini.varargs then some acc.reverse else none
    | (p, hasDef) :: ps' =>
      match pos with
      | e :: pos' => if (assocGet p kw).isSome then none else go ps' pos' ((p, e) :: acc)
      | [] =>
        match assocGet p kw with
        | some e => go ps' [] ((p, e) :: acc)
        | none => if hasDef then go ps' [] ((p, .dflt cls p) :: acc) else none
  -- with *args / **kwargs in the signature surplus arguments are swallowed (they are not parameters)
  if ini.varargs || kw.all (fun kv => (assocGet kv.1 ini.params).isSome) then go ini.params pos []
  else none

def substExpr (env : List (N × Expr N)) : Expr N → Expr N
  | .param p => (assocGet p env).getD (.derived 0)
  | e => e

inductive Prim (N : Type) where
  | write (a : N) (e : Expr N) (cond : Bool)
  | raise (always : Bool) (explicit : Bool)
  | havoc
  deriving DecidableEq, Repr

/-- positional arguments of a constructor outside the package: stored under the known names -/
def bindExternal (names : List N) (pos : List (Expr N)) (cond : Bool) : List (Prim N) :=
  match names, pos with
  | _, [] => []
  | [], _ :: _ => [.havoc]
  | n :: ns, e :: es => Prim.write n e cond :: bindExternal ns es cond

/-- The constructor reached through `chain`, called with `pos`/`kw`, as primitive writes. -/
def flatten (tbl : Table N) : Nat → List N → List (Expr N) → List (N × Expr N) → Bool → List (Prim N)
  | 0, _, _, _, _ => [.havoc]
  | fuel + 1, chain, pos, kw, cond =>
    match findInit tbl chain with
    | none => if pos.isEmpty && kw.isEmpty then [] else [.raise true true]
    | some (c, rest) =>
      if c.external then
        -- a class outside the package: assumed to follow the sklearn convention for keywords
        bindExternal c.extPositional pos cond ++ kw.map (fun (k, e) => Prim.write k e cond)
      else
        match c.init with
        | none => []
        | some ini =>
          match bindArgs c.name ini pos kw with
          | none => [.raise true true]
          | some env =>
            ini.body.flatMap fun st =>
              match st with
              | .assign a e cnd => [Prim.write a (substExpr env e) (cond || cnd)]
              | .superCall tgt p k star cnd =>
                if star then [.havoc]
                else
                  let chain' := match tgt with
                    | none => rest
                    | some t => match findClass tbl t with
                      | some tc => tc.mro
                      | none => [t]
                  flatten tbl fuel chain' (p.map (substExpr env)) (k.map fun (n, e) => (n, substExpr env e))
                    (cond || cnd)
              | .raiseIf ex => [.raise false ex]
              | .other => [.havoc]
              | .pure => []

/-- parameters of a class = parameters of the first `__init__` along its MRO -/
def ctorParams (tbl : Table N) (cls : N) : List N :=
  match findClass tbl cls with
  | none => []
  | some c =>
    match findInit tbl c.mro with
    | some (ic, _) => match ic.init with
      | some ini => ini.params.map (·.1)
      | none => []
    | none => []

def ctorVarargs (tbl : Table N) (cls : N) : Bool :=
  match findClass tbl cls with
  | none => false
  | some c =>
    match findInit tbl c.mro with
    | some (ic, _) => match ic.init with
      | some ini => ini.varargs
      | none => false
    | none => false

def ctorFuel : Nat := 64

/-- the constructor of `cls` applied to its own parameters -/
def ctorPrims (tbl : Table N) (cls : N) : List (Prim N) :=
  match findClass tbl cls with
  | none => [.havoc]
  | some c => flatten tbl ctorFuel c.mro [] ((ctorParams tbl cls).map fun p => (p, .param p)) false

/-! ### concrete semantics of a primitive list -/

structure Interp (N V : Type) where
  ofBool : Bool → V
  cv : Nat → V
  dv : Nat → (N → V) → V
  dfl : N → N → V
  choice : Nat → Bool
  havoc : Nat → List (N × V) → List (N × V)

def evalExpr {V : Type} (I : Interp N V) (args : N → V) : Expr N → V
  | .param p => args p
  | .lit b => I.ofBool b
  | .const i => I.cv i
  | .derived i => I.dv i args
  | .dflt c p => I.dfl c p

/-- run the primitives from statement counter `i`; `none` = the constructor raised -/
def runPrims {V : Type} (I : Interp N V) (args : N → V) : Nat → List (Prim N) → List (N × V) → Option (List (N × V))
  | _, [], s => some s
  | i, .write a e c :: rest, s =>
    if c && !I.choice i then runPrims I args (i + 1) rest s
    else runPrims I args (i + 1) rest (assocSet a (evalExpr I args e) s)
  | i, .raise always _ :: rest, s =>
    if always || I.choice i then none else runPrims I args (i + 1) rest s
  | i, .havoc :: rest, s => runPrims I args (i + 1) rest (I.havoc i s)

/-- `cls(**args)` : the attribute store of the new object -/
def construct {V : Type} (tbl : Table N) (I : Interp N V) (cls : N) (args : N → V) : Option (List (N × V)) :=
  runPrims I args 0 (ctorPrims tbl cls) []

/-! ### abstract interpretation of a primitive list -/

inductive AbsVal (N : Type) where
  | absent | is (e : Expr N) | unknown
  deriving DecidableEq, Repr

def absStep (a : N) : AbsVal N → Prim N → AbsVal N
  | st, .write b e c =>
    if b = a then (if c then (if st = .is e then st else .unknown) else .is e) else st
  | _, .havoc => .unknown
  | st, .raise _ _ => st

def absFrom (a : N) (st : AbsVal N) (ps : List (Prim N)) : AbsVal N := ps.foldl (absStep a) st
def absOf (a : N) (ps : List (Prim N)) : AbsVal N := absFrom a .absent ps

/-- what an abstract value says about a concrete store -/
def AbsRel {V : Type} (I : Interp N V) (args : N → V) (a : N) : AbsVal N → List (N × V) → Prop
  | .absent, s => assocGet a s = none
  | .is e, s => assocGet a s = some (evalExpr I args e)
  | .unknown, _ => True

def mayRaise (ps : List (Prim N)) : Bool :=
  ps.any fun | .raise _ _ => true | _ => false

/-- the constructor contains a `raise` / `assert`, or a call that cannot succeed -/
def validates (ps : List (Prim N)) : Bool :=
  ps.any fun | .raise _ ex => ex | _ => false

inductive PStatus where
  | stored | missing | unknown
  deriving DecidableEq, Repr

def pstatus (ps : List (Prim N)) (p : N) : PStatus :=
  match absOf p ps with
  | .is e => if e = .param p then .stored else .unknown
  | .absent => .missing
  | .unknown => .unknown

/-! ### methods: inlining, guard scan, fit writes -/

def findMethod (ms : List (Method N)) (m : N) : Option (Method N) :=
  match ms with
  | [] => none
  | x :: rest => if x.name = m then some x else findMethod rest m

inductive MRes (N : Type) where
  | found (k : N) (mm : Method N) (rest : List N)   -- defining class, method, rest of the chain
  | external                                        -- a class outside the package comes first: it may define it
  | none

/-- first class in `chain` defining `m` -/
def resolveMethod (tbl : Table N) : List N → N → MRes N
  | [], _ => .none
  | k :: rest, m =>
    match findClass tbl k with
    | none => resolveMethod tbl rest m
    | some c =>
      if c.external then
        (if c.extKnown && !c.extNames.contains m then resolveMethod tbl rest m else .external)
      else match findMethod c.methods m with
        | some mm => .found k mm rest
        | none => resolveMethod tbl rest m

inductive Eff (N : Type) where
  | check (cond : Bool)
  | use (a : N)                 -- read of an instance attribute that is not a parameter / class attribute
  | write (a : N)
  | unknown                     -- self escapes / a method outside the table is called
  | raise (cond : Bool) (state : Bool)
  | ret (cond : Bool) (retSelf : Bool)     -- return from the TOP-LEVEL method
  deriving DecidableEq, Repr

structure Frame (N : Type) where
  chain : List N               -- MRO after the class defining the running method (for `super()`)
  evs : List (Event N)
  cond : Bool                  -- everything in this frame is conditional
  top : Bool

def classAttrsOf (tbl : Table N) (mro : List N) : List N :=
  mro.flatMap fun k => match findClass tbl k with
    | some c => c.classAttrs
    | none => []

/-- Stack machine that inlines calls; each (class, method) is entered at most once. -/
def inlineRun (tbl : Table N) (mro : List N) (safe : List N) :
    Nat → List (N × N) → List (Frame N) → List (Eff N) → List (Eff N)
  | 0, _, _, acc => (Eff.unknown :: acc).reverse
  | _ + 1, _, [], acc => acc.reverse
  | fuel + 1, seen, fr :: stack, acc =>
    match fr.evs with
    | [] => inlineRun tbl mro safe fuel seen stack acc
    | ev :: evs =>
      let fr' : Frame N := { fr with evs := evs }
      let enter (target : MRes N) (unresolvedSafe : Bool) :=
        match target with
        | .found k mm rest =>
          if seen.contains (k, mm.name) then inlineRun tbl mro safe fuel seen (fr' :: stack) acc
          else inlineRun tbl mro safe fuel ((k, mm.name) :: seen)
                 ({ chain := rest, evs := mm.events, cond := fr.cond, top := false } :: fr' :: stack) acc
        | _ =>
          if unresolvedSafe then inlineRun tbl mro safe fuel seen (fr' :: stack) acc
          else inlineRun tbl mro safe fuel seen (fr' :: stack) (Eff.unknown :: acc)
      match ev with
      | .check c => inlineRun tbl mro safe fuel seen (fr' :: stack) (Eff.check (c || fr.cond) :: acc)
      | .write a => inlineRun tbl mro safe fuel seen (fr' :: stack) (Eff.write a :: acc)
      | .escape => inlineRun tbl mro safe fuel seen (fr' :: stack) (Eff.unknown :: acc)
      | .raise c s => inlineRun tbl mro safe fuel seen (fr' :: stack) (Eff.raise (c || fr.cond) s :: acc)
      | .ret c rs =>
        if fr.top then inlineRun tbl mro safe fuel seen (fr' :: stack) (Eff.ret (c || fr.cond) rs :: acc)
        else if c then inlineRun tbl mro safe fuel seen ({ fr' with cond := true } :: stack) acc
        else inlineRun tbl mro safe fuel seen stack acc
      | .use a =>
        match resolveMethod tbl mro a with
        | .found k mm rest =>
          if mm.isProp then enter (.found k mm rest) false
          else inlineRun tbl mro safe fuel seen (fr' :: stack) acc      -- a bound method object
        | _ =>
          if safe.contains a then inlineRun tbl mro safe fuel seen (fr' :: stack) acc
          else inlineRun tbl mro safe fuel seen (fr' :: stack) (Eff.use a :: acc)
      | .callSelf m => enter (resolveMethod tbl mro m) (safe.contains m)
      | .callSuper m => enter (resolveMethod tbl fr.chain m) false

def inlineFuel : Nat := 6000

/-- effects of `obj.m(...)` for an object of class `cls`; `none` if no class of the MRO defines `m` -/
def inlineMethod (tbl : Table N) (fitAttr : N) (cls : N) (m : N) : Option (List (Eff N)) :=
  match findClass tbl cls with
  | none => none
  | some c =>
    match resolveMethod tbl c.mro m with
    | .none => none
    | .external => none
    | .found k mm rest =>
      let safe := fitAttr :: (ctorParams tbl cls ++ classAttrsOf tbl c.mro)
      some (inlineRun tbl c.mro safe inlineFuel [(k, mm.name)]
        [{ chain := rest, evs := mm.events, cond := false, top := true }] [])

/-- a fitted-state check is reached before anything that depends on fitted state -/
def guardScan : List (Eff N) → Bool
  | [] => false
  | .check c :: rest => if c then guardScan rest else true
  | .use _ :: _ => false
  | .write _ :: rest => guardScan rest
  | .unknown :: _ => false
  | .raise c s :: rest => if !c || s then false else guardScan rest
  | .ret _ _ :: _ => false

inductive Outcome where
  | notFitted | otherError | returned
  deriving DecidableEq, Repr

/-- Running the effects on an object whose fitted flag is `fitted`, for an arbitrary oracle
(`choice i` = does the i-th conditional happen / does the i-th use of missing state fail). -/
def runEffects (fitted : Bool) (choice : Nat → Bool) : Nat → List (Eff N) → Outcome
  | _, [] => .returned
  | i, .check c :: rest =>
    if c && !choice i then runEffects fitted choice (i + 1) rest
    else if fitted then runEffects fitted choice (i + 1) rest else .notFitted
  | i, .use _ :: rest =>
    if !fitted && choice i then .otherError else runEffects fitted choice (i + 1) rest
  | i, .write _ :: rest => runEffects fitted choice (i + 1) rest
  | i, .unknown :: rest => if choice i then .otherError else runEffects fitted choice (i + 1) rest
  | i, .raise c s :: rest =>
    if !c then .otherError
    else if s then (if choice i then .otherError else runEffects fitted choice (i + 1) rest)
    else runEffects fitted choice (i + 1) rest        -- input validation: the inputs are valid
  | i, .ret c _ :: rest => if c && !choice i then runEffects fitted choice (i + 1) rest else .returned

def effWrites : List (Eff N) → List N
  | [] => []
  | .write a :: rest => a :: effWrites rest
  | _ :: rest => effWrites rest

/-- the method raises unconditionally before doing anything else (an abstract method) -/
def effAbstract : List (Eff N) → Bool
  | .raise c _ :: _ => !c
  | _ => false

def effUnknown (es : List (Eff N)) : Bool := es.any fun | .unknown => true | _ => false

/-- `fit` as a store transformer: every `write a` stores an arbitrary value, `unknown` is arbitrary -/
def runFit {V : Type} (val : Nat → V) (hav : Nat → List (N × V) → List (N × V)) :
    Nat → List (Eff N) → List (N × V) → List (N × V)
  | _, [], s => s
  | i, .write a :: rest, s => runFit val hav (i + 1) rest (assocSet a (val i) s)
  | i, .unknown :: rest, s => runFit val hav (i + 1) rest (hav i s)
  | i, _ :: rest, s => runFit val hav (i + 1) rest s

/-! ### per-class summary (the table obligation) -/

inductive GStatus where
  | absent | guarded | unguarded
  deriving DecidableEq, Repr

inductive Impl (N : Type) where
  | plain
  | viaMeta (attr : N) (store : N)     -- `_get_params(attr)`; `getattr(self, attr)` reads parameter `store`
  | abstr
  | custom
  deriving DecidableEq, Repr

/-- which get_params / set_params implementation the MRO provides -/
def resolveImpl (tbl : Table N) (sel : ClassEntry N → ParamsImpl N) (params : List N) : List N → Impl N
  | [] => .plain
  | k :: rest =>
    match findClass tbl k with
    | none => resolveImpl tbl sel params rest
    | some c =>
      match sel c with
      | .inherit => resolveImpl tbl sel params rest
      | .viaMeta a => .viaMeta a a
      | .abstr => .abstr
      | .custom => .custom

/-- `attr` may be a read-only view (property) of a parameter: follow a getter that reads one attribute -/
def metaStore (tbl : Table N) (mro : List N) (params : List N) (attr : N) : N :=
  if params.contains attr then attr
  else match resolveMethod tbl mro attr with
    | .found _ mm _ =>
      match mm.events.filterMap (fun | Event.use a => some a | _ => none) with
      | [a] => a
      | _ => attr
    | _ => attr

def fixStore (tbl : Table N) (mro : List N) (params : List N) : Impl N → Impl N
  | .viaMeta a _ => .viaMeta a (metaStore tbl mro params a)
  | i => i

structure Summary (N : Type) where
  params : List N
  ctor : List PStatus            -- one per parameter, same order
  mayRaise : Bool
  validates : Bool               -- an explicit raise / assert in the constructor chain
  varargs : Bool                 -- the signature swallows arguments that get_params cannot return
  freshUnfitted : Bool
  getImpl : Impl N
  setImpl : Impl N
  guards : List GStatus          -- one per apply-type method, in the order given
  fitWrites : List N             -- parameters possibly assigned by fit
  fitUnknown : Bool
  fitSetsFitted : Bool
  fitAbstract : Bool             -- no `fit`, or `fit` raises unconditionally (abstract base class)
  hooks : Bool
  deriving DecidableEq, Repr

def summarize (tbl : Table N) (fitAttr fitName : N) (applyMethods : List N) (cls : N) : Summary N :=
  let params := ctorParams tbl cls
  let prims := ctorPrims tbl cls
  let mro := match findClass tbl cls with | some c => c.mro | none => []
  let fitEffs := (inlineMethod tbl fitAttr cls fitName).getD []
  { params := params
    ctor := params.map (pstatus prims)
    mayRaise := mayRaise prims
    validates := validates prims
    varargs := ctorVarargs tbl cls
    freshUnfitted := absOf fitAttr prims = .is (.lit false)
    getImpl := fixStore tbl mro params (resolveImpl tbl (·.getImpl) params mro)
    setImpl := fixStore tbl mro params (resolveImpl tbl (·.setImpl) params mro)
    guards := applyMethods.map fun m =>
      match inlineMethod tbl fitAttr cls m with
      | none => .absent
      | some es => if effAbstract es then .absent else if guardScan es then .guarded else .unguarded
    fitWrites := params.filter fun p => (effWrites fitEffs).contains p
    fitUnknown := effUnknown fitEffs
    fitSetsFitted := (effWrites fitEffs).contains fitAttr
    fitAbstract := match inlineMethod tbl fitAttr cls fitName with
      | none => true
      | some es => effAbstract es
    hooks := mro.any fun k => match findClass tbl k with | some c => c.hooks | none => false }

end TableOps

/-! ## Layer B : parameter trees -/

mutual
inductive Val (N : Type) where
  | atom (id : Nat)
  | est (id : Nat) (cls : N) (impl : Impl N) (fitted : Bool) (ps : PList N)
  | named (items : PList N)
inductive PList (N : Type) where
  | nil
  | cons (k : N) (v : Val N) (tl : PList N)
end

inductive Err where
  | value | attr | type | notFitted
  deriving DecidableEq, Repr

abbrev Path (N : Type) := List N

section Trees
variable {N : Type} [DecidableEq N]

def PList.lookup (k : N) : PList N → Option (Val N)
  | .nil => none
  | .cons k' v tl => if k' = k then some v else tl.lookup k

/-- dict semantics (`out.update(pairs)`): the last binding wins -/
def PList.lookupLast (k : N) : PList N → Option (Val N)
  | .nil => none
  | .cons k' v tl =>
    match tl.lookupLast k with
    | some w => some w
    | none => if k' = k then some v else none

def PList.keys : PList N → List N
  | .nil => []
  | .cons k _ tl => k :: tl.keys

/-- replace the value of the first binding of `k` (no-op when absent) -/
def PList.replace (k : N) (v : Val N) : PList N → PList N
  | .nil => .nil
  | .cons k' v' tl => if k' = k then .cons k' v tl else .cons k' v' (tl.replace k v)

def PList.length : PList N → Nat
  | .nil => 0
  | .cons _ _ tl => tl.length + 1

def pre (k : N) (l : List (Path N × Val N)) : List (Path N × Val N) := l.map fun kv => (k :: kv.1, kv.2)

/-! ### get_params -/
mutual
/-- `v.get_params(deep)`; objects without `get_params` have none -/
def getVal (deep : Bool) : Val N → List (Path N × Val N)
  | .atom _ => []
  | .named _ => []
  | .est _ _ impl _ ps =>
    match impl with
    | .viaMeta _ store => getPList deep ps ++ (if deep then compsOfPList store ps else [])
    | _ => getPList deep ps
/-- sklearn `BaseEstimator.get_params` over the parameters -/
def getPList (deep : Bool) : PList N → List (Path N × Val N)
  | .nil => []
  | .cons k v tl => (if deep then nestedOf k v else []) ++ ([k], v) :: getPList deep tl
/-- `key__sub` entries of a parameter value that has `get_params` -/
def nestedOf (k : N) : Val N → List (Path N × Val N)
  | .est i c impl f ps => pre k (getVal true (.est i c impl f ps))
  | _ => []
/-- sktime `_get_params`: entries contributed by the named components stored under `store` -/
def compsOfPList (store : N) : PList N → List (Path N × Val N)
  | .nil => []
  | .cons k v tl => if k = store then compsOfVal v else compsOfPList store tl
def compsOfVal : Val N → List (Path N × Val N)
  | .named items => itemsTop items ++ itemsNested items
  | _ => []
def itemsTop : PList N → List (Path N × Val N)
  | .nil => []
  | .cons k v tl => ([k], v) :: itemsTop tl
def itemsNested : PList N → List (Path N × Val N)
  | .nil => []
  | .cons k v tl => nestedOf k v ++ itemsNested tl
end

/-- dictionary lookup in a `get_params` result (later entries override earlier ones) -/
def dictGet (p : Path N) : List (Path N × Val N) → Option (Val N)
  | [] => none
  | (q, v) :: rest =>
    match dictGet p rest with
    | some w => some w
    | none => if q = p then some v else none

/-! ### clone -/
mutual
/-- sklearn `clone(v, safe=False)` for classes whose constructor stores its arguments -/
def cloneVal : Val N → Val N
  | .atom i => .atom i
  | .est i c impl _ ps => .est i c impl false (clonePList ps)
  | .named items => .named (clonePList items)
def clonePList : PList N → PList N
  | .nil => .nil
  | .cons k v tl => .cons k (cloneVal v) (clonePList tl)
end

/-! ### fitted state -/
def Val.isFitted : Val N → Bool
  | .est _ _ _ f _ => f
  | _ => false

mutual
def anyFitted : Val N → Bool
  | .atom _ => false
  | .est _ _ _ f ps => f || anyFittedP ps
  | .named items => anyFittedP items
def anyFittedP : PList N → Bool
  | .nil => false
  | .cons _ v tl => anyFitted v || anyFittedP tl
end

mutual
/-- forget fitted flags (what "equal parameters" compares) -/
def eraseFitted : Val N → Val N
  | .atom i => .atom i
  | .est i c impl _ ps => .est i c impl false (eraseFittedP ps)
  | .named items => .named (eraseFittedP items)
def eraseFittedP : PList N → PList N
  | .nil => .nil
  | .cons k v tl => .cons k (eraseFitted v) (eraseFittedP tl)
end

/-- `fit`: returns the same object with the flag set; parameters untouched (classes with `FitWrites = ∅`) -/
def fitVal : Val N → Val N
  | .est i c impl _ ps => .est i c impl true ps
  | v => v

/-- an apply-type method with a guard at the top -/
def applyGuarded : Val N → Except Err Unit
  | .est _ _ _ f _ => if f then .ok () else .error .notFitted
  | _ => .error .attr

/-! ### set_params -/

def componentNames (store : N) (ps : PList N) : List N :=
  match ps.lookup store with
  | some (.named items) => items.keys
  | _ => []

/-- sktime `_replace_estimator`: first item with that name -/
def replaceComponent (store name : N) (new : Val N) (ps : PList N) : PList N :=
  match ps.lookup store with
  | some (.named items) => ps.replace store (.named (items.replace name new))
  | _ => ps

def isBare (n : N) (kv : Path N × Val N) : Bool := kv.1 = [n]

/-- is this keyword a bare component name? -/
def isCompKey (names : List N) (kv : Path N × Val N) : Bool :=
  match kv.1 with
  | [n] => names.contains n
  | _ => false

/-- step 1 of sktime `_set_params`: `if attr in params: setattr(self, attr, params.pop(attr))` -/
def metaStep1 (attr store : N) (ps : PList N) (kvs : List (Path N × Val N)) : PList N × List (Path N × Val N) :=
  match dictGet [attr] kvs with
  | some v => (ps.replace store v, kvs.filter fun kv => !isBare attr kv)
  | none => (ps, kvs)

/-- step 2: `for name in list(params): if "__" not in name and name in names: _replace_estimator(...)` -/
def metaStep2 (store : N) (ps : PList N) (kvs : List (Path N × Val N)) : PList N × List (Path N × Val N) :=
  let names := componentNames store ps
  (kvs.foldl (fun acc kv =>
      match kv.1 with
      | [n] => if names.contains n then replaceComponent store n kv.2 acc else acc
      | _ => acc) ps,
   kvs.filter fun kv => !isCompKey names kv)

/-- steps 1 and 2; returns the remaining keyword arguments -/
def metaPre (attr store : N) (ps : PList N) (kvs : List (Path N × Val N)) : PList N × List (Path N × Val N) :=
  let r := metaStep1 attr store ps kvs
  metaStep2 store r.1 r.2

/-- last keyword wins (a Python dict has one value per key) -/
def dedupKw (kvs : List (Path N × Val N)) : List (Path N × Val N) :=
  kvs.foldr (fun kv acc => if acc.any (fun kv' => kv'.1 = kv.1) then acc else kv :: acc) []

def groupOf (k : N) (kvs : List (Path N × Val N)) : List (Path N × Val N) :=
  kvs.filterMap fun kv =>
    match kv.1 with
    | h :: t => if h = k ∧ t ≠ [] then some (t, kv.2) else none
    | [] => none

/-- apply `f` to every value, stopping at the first error -/
def PList.mapM (f : N → Val N → Except Err (Val N)) : PList N → Except Err (PList N)
  | .nil => .ok .nil
  | .cons k v tl =>
    match f k v with
    | .error e => .error e
    | .ok v' =>
      match tl.mapM f with
      | .error e => .error e
      | .ok tl' => .ok (.cons k v' tl')

/-- the same, but only for the LAST binding of each key (a dict built from the pairs) -/
def PList.mapLastM (f : N → Val N → Except Err (Val N)) : PList N → Except Err (PList N)
  | .nil => .ok .nil
  | .cons k v tl =>
    match (if tl.keys.contains k then .ok v else f k v) with
    | .error e => .error e
    | .ok v' =>
      match tl.mapLastM f with
      | .error e => .error e
      | .ok tl' => .ok (.cons k v' tl')

/-- some keyword's first component is neither a parameter nor a component name -/
def invalidKey (ps : PList N) (comps : List N) (kvs : List (Path N × Val N)) : Bool :=
  kvs.any fun kv =>
    match kv.1 with
    | [] => true
    | h :: _ => !(ps.keys.contains h || comps.contains h)

/-- `setattr(self, key, value)` for every key without `__` -/
def setBare (ps : PList N) (kvs : List (Path N × Val N)) : PList N :=
  kvs.foldl (fun acc kv =>
    match kv.1 with
    | [k] => acc.replace k kv.2
    | _ => acc) ps

/-- `v.set_params(**kvs)`.  Fuel bounds the nesting depth only.
plain: sklearn `BaseEstimator.set_params` (validity of every key, `setattr` for bare keys, then
`valid_params[key].set_params(**sub)` per prefix, applied to the possibly NEW value);
meta: sktime `_set_params` = whole list, component replacement, then the plain algorithm with the
component names valid as prefixes (a component shadows a parameter of the same name). -/
def setVal : Nat → Val N → List (Path N × Val N) → Except Err (Val N)
  | 0, _, _ => .error .type
  | _ + 1, .atom _, _ => .error .attr
  | _ + 1, .named _, _ => .error .attr
  | fuel + 1, .est i c impl f ps, kvs0 =>
    let kvs := dedupKw kvs0
    let core (ps : PList N) (comps : List N) (store : Option N) (kvs : List (Path N × Val N)) :
        Except Err (PList N) :=
      if invalidKey ps comps kvs then .error .value
      else
        match (setBare ps kvs).mapM (fun k v =>
            let g := groupOf k kvs
            if g.isEmpty || comps.contains k then .ok v else setVal fuel v g) with
        | .error e => .error e
        | .ok ps2 =>
          match store with
          | none => .ok ps2
          | some st =>
            -- `valid_params[name]` are the component objects present BEFORE this call's `setattr`s
            match ps.lookup st with
            | some (.named items) =>
              match items.mapLastM (fun k v =>
                  let g := groupOf k kvs
                  if g.isEmpty then .ok v else setVal fuel v g) with
              | .error e => .error e
              | .ok items' =>
                -- if the list itself was replaced in this call the updated components are orphans
                if kvs.any (isBare st) then .ok ps2 else .ok (ps2.replace st (.named items'))
            | _ => .ok ps2
    match impl with
    | .abstr => .error .type
    | .custom => .error .type
    | .plain =>
      if kvs.isEmpty then .ok (.est i c impl f ps)
      else match core ps [] none kvs with
        | .error e => .error e
        | .ok ps' => .ok (.est i c impl f ps')
    | .viaMeta attr store =>
      let r := metaPre attr store ps kvs
      if r.2.isEmpty then .ok (.est i c impl f r.1)
      else match core r.1 (componentNames store r.1) (some store) r.2 with
        | .error e => .error e
        | .ok ps' => .ok (.est i c impl f ps')

def hasDup : List N → Bool
  | [] => false
  | x :: xs => xs.contains x || hasDup xs

/-- sktime `_check_names` : `dunder n` = the name contains `__` -/
def checkNames (dunder : N → Bool) (names : List N) (params : List N) : Except Err Unit :=
  if hasDup names then .error .value
  else if names.any params.contains then .error .value
  else if names.any dunder then .error .value
  else .ok ()

end Trees

end SkVerif.Params
