/-
Object history for the elementary forecasters of C11: ONE estimator object that is constructed, fitted (and used),
re-parameterised with `set_params` and fitted again.  The model keeps the attributes a later call can read, INCLUDING
the ones a later `fit` does not overwrite (a stale `sp_` survives a refit with `strategy="drift"` or
`strategy="last", sp=1`; `window_length_`, `_y`, the cutoff and the trend pipeline are rebuilt by every fit).
`predict` returns no new object: it reads the state only (the stored horizon it overwrites is always passed anew here).
Import-free apart from the C11 models.
-/
import SkVerif.Model.Naive
import SkVerif.Model.Trend
namespace SkVerif.History
open SkVerif SkVerif.Naive

/-- a `NaiveForecaster` object -/
structure NObj where
  st : Strategy            -- constructor parameters (what `set_params` rewrites)
  sp : Int
  wl : Option Int
  wl_ : Nat                -- `window_length_`
  sp_ : Nat                -- `sp_` (only assigned by the `last`/sp≠1 and `mean` branches of `fit`)
  y : List Val             -- `_y`
  origin : Int
  fitted : Bool
  deriving Repr

def NObj.new (st : Strategy) (sp : Int) (wl : Option Int) : NObj :=
  { st, sp, wl, wl_ := 0, sp_ := 0, y := [], origin := 0, fitted := false }

/-- `set_params(strategy=…, sp=…, window_length=…)`: fitted attributes are untouched -/
def NObj.setParams (o : NObj) (st : Strategy) (sp : Int) (wl : Option Int) : NObj := { o with st, sp, wl }

/-- `fit(y)`.  A rejected fit is modelled as leaving the object as it was (what it has already written —
`_y`, possibly `window_length_` — is overwritten by the next successful fit before anything reads it). -/
def NObj.fit (o : NObj) (y : List Val) (origin : Int) : Except Err NObj :=
  match fitWindow o.st o.sp o.wl y.length with
  | .error e => .error e
  | .ok w =>
    let assignsSp := (o.st == .last && o.sp != 1) || o.st == .mean
    .ok { o with y, origin, wl_ := w, sp_ := if assignsSp then o.sp.toNat else o.sp_, fitted := true }

/-- a fit whose rejection is swallowed by the caller (the earlier life of the object) -/
def NObj.fitOrKeep (o : NObj) (y : List Val) (origin : Int) : NObj :=
  match o.fit y origin with
  | .ok b => b
  | .error _ => o

/-- the period `_predict_last_window` works with: `self.sp == 1` is tested on the parameter, otherwise `self.sp_` -/
def NObj.spEff (o : NObj) : Nat := if o.sp = 1 then 1 else o.sp_

/-- `predict(fh)` on a fitted object -/
def NObj.predict (o : NObj) (raw : FH.Raw) (rel : Bool) : Except Err (List (Int × Val)) := do
  let fh ← liftFH (FH.checkFh (FH.mk raw rel) false)
  let cutoff : Int := o.origin + (o.y.length : Int) - 1
  let r ← liftFH (FH.toRelative fh (some cutoff))
  let ins := r.vals.filter (fun v => decide (v ≤ 0))
  let oos := r.vals.filter (fun v => decide (v > 0))
  if ins.isEmpty then predictOut o.st o.spEff o.wl_ o.y o.origin oos
  else if oos.isEmpty then predictInSample o.st o.spEff o.wl_ o.y o.origin ins
  else do
    let a ← predictInSample o.st o.spEff o.wl_ o.y o.origin ins
    let b ← predictOut o.st o.spEff o.wl_ o.y o.origin oos
    pure (a ++ b)

/-- history: construct with `p0`, fit on `y0` (a rejected first fit leaves the object as constructed), `set_params(p)`,
fit on `y`, predict -/
def naiveHistory (st0 : Strategy) (sp0 : Int) (wl0 : Option Int) (y0 : List Val) (o0 : Int)
    (st : Strategy) (sp : Int) (wl : Option Int) (y : List Val) (origin : Int) (raw : FH.Raw) (rel : Bool) :
    Except Err (List (Int × Val)) :=
  match (((NObj.new st0 sp0 wl0).fitOrKeep y0 o0).setParams st sp wl).fit y origin with
  | .error e => .error e
  | .ok c => c.predict raw rel

/-! ### PolynomialTrendForecaster -/

/-- a `PolynomialTrendForecaster` object: parameters, and the pipeline `regressor_` as assembled by the last fit -/
structure TObj where
  degree : Nat
  bias : Bool
  pipe : Option (Nat × Bool)      -- (degree, include_bias) of `regressor_`; `none` before the first fit
  y : List Val                    -- the data seen by the last fit
  origin : Int                    -- first time point of that data = `_fit_start` (stored by fit since ea521a6; the C11
                                  -- histories contain no `update`, so it is also `_y.index[0]`)
  deriving Repr

def TObj.new (degree : Nat) (bias : Bool) : TObj := { degree, bias, pipe := none, y := [], origin := 0 }
def TObj.setParams (o : TObj) (degree : Nat) (bias : Bool) : TObj := { o with degree, bias }

/-- `fit(y)`: the pipeline is assembled anew from the CURRENT parameters by every fit -/
def TObj.fit (o : TObj) (y : List Val) (origin : Int) : Except Err TObj :=
  if y.length = 0 then .error .value
  else match Trend.checkPoly o.degree o.bias with
    | .error e => .error e
    | .ok _ => if y.any (·.isNone) then .error .value
               else .ok { o with pipe := some (o.degree, o.bias), y, origin }

def TObj.fitOrKeep (o : TObj) (y : List Val) (origin : Int) : TObj :=
  match o.fit y origin with
  | .ok b => b
  | .error _ => o

/-- `predict(fh)` with the default regressor, pipeline degree ≤ 1 -/
def TObj.predict (o : TObj) (raw : FH.Raw) (rel : Bool) : Except Err (List (Int × Val)) :=
  match o.pipe with
  | none => .error .value
  | some (d, b) => Trend.fitPredict d b o.y o.origin raw rel

/-- what a recording regressor placed in the pipeline receives -/
def TObj.designs (o : TObj) (raw : FH.Raw) (rel : Bool) :
    Except Err (List (List Int) × List (List Int) × List Int) :=
  match o.pipe with
  | none => .error .value
  | some (d, b) => Trend.designs d b o.y.length o.origin raw rel

def trendHistory (d0 : Nat) (b0 : Bool) (y0 : List Val) (o0 : Int) (d : Nat) (b : Bool) (y : List Val) (origin : Int) :
    Except Err TObj :=
  (((TObj.new d0 b0).fitOrKeep y0 o0).setParams d b).fit y origin

end SkVerif.History

/-! ### several objects alive at once

A world is a family of objects addressed by an identifier; every call names the object it is made on.  In the model a
call reads and writes only the object it names: the forecasters keep no class-level or module-level state
(`fit` creates its regressor / statsmodels model / window bookkeeping anew from the object's own parameters). -/
namespace SkVerif.World

/-- calls on one object: `S` state, `Op` call, `Out` what the caller gets back -/
structure Machine (S Op Out : Type) where
  step : S → Op → S × Out

variable {S Op Out : Type}

/-- run calls on ONE object, collecting the answers -/
def runLocal (m : Machine S Op Out) : S → List Op → S × List Out
  | s, [] => (s, [])
  | s, op :: ops =>
    let (s', o) := m.step s op
    let (s'', os) := runLocal m s' ops
    (s'', o :: os)

/-- run addressed calls on a world of objects; answers are tagged with the object they came from -/
def run (m : Machine S Op Out) : (Nat → S) → List (Nat × Op) → (Nat → S) × List (Nat × Out)
  | w, [] => (w, [])
  | w, (i, op) :: ops =>
    let (s', o) := m.step (w i) op
    let (w', os) := run m (fun j => if j = i then s' else w j) ops
    (w', (i, o) :: os)

end SkVerif.World

namespace SkVerif.History
open SkVerif SkVerif.Naive

/-- the calls made on a `NaiveForecaster` object -/
inductive NOp
  | setParams (st : Strategy) (sp : Int) (wl : Option Int)
  | fit (y : List Val) (origin : Int)
  | predict (raw : FH.Raw) (rel : Bool)

/-- one call: a rejected fit leaves the object as it was; `predict` on an object that was never fitted raises -/
def naiveMachine : World.Machine NObj NOp (Except Err (List (Int × Val))) where
  step o op :=
    match op with
    | .setParams st sp wl => (o.setParams st sp wl, .ok [])
    | .fit y origin =>
      match o.fit y origin with
      | .ok o' => (o', .ok [])
      | .error e => (o, .error e)
    | .predict raw rel => (o, if o.fitted then o.predict raw rel else .error .value)

/-- the calls made on a `PolynomialTrendForecaster` object -/
inductive TOp
  | setParams (degree : Nat) (bias : Bool)
  | fit (y : List Val) (origin : Int)
  | predict (raw : FH.Raw) (rel : Bool)

def trendMachine : World.Machine TObj TOp (Except Err (List (Int × Val))) where
  step o op :=
    match op with
    | .setParams d b => (o.setParams d b, .ok [])
    | .fit y origin =>
      match o.fit y origin with
      | .ok o' => (o', .ok [])
      | .error e => (o, .error e)
    | .predict raw rel => (o, o.predict raw rel)

end SkVerif.History
