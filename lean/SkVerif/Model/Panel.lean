/-
Executable model of sktime/utils/data_processing.py (panel container conversions),
sktime/utils/validation/panel.py (check_X) — property C15.  Imports only the shared structural sort (Model/Sort.lean).

Representations (pandas / numpy objects by their positional meaning on nested lists):

* `Arr3 α`      3-D numpy array  `X[i][j][t]`  (instance, column, time), rectangular
* `Nested ν α`  nested DataFrame, column-major like pandas: list of `(name, column)`,
                a column is the list of its cells (one per instance); a cell is a pd.Series,
                a np.ndarray or a primitive.  Row index = RangeIndex, cell time index = RangeIndex;
                the `name` attribute of a cell's Series is irrelevant to every converter.
* `MI ν α`      multi-index DataFrame: level names, column names, rows `((instance, time), values)`
* `Long ν α`    long table: names of the three id columns, rows `(instance, time, variable, value)`
* `Tab2 α`      2-D table: optional column labels (none = numpy array), rows

`ν` is the type of column names (`NameOps` gives the operations pandas/python perform on names:
sort order used by `pivot`, the default name `var_i`, the integer label `0` that
`pd.DataFrame(pd.Series(..))` assigns, and `str()`); `α` is the value type (conversions never
inspect values, so everything is polymorphic in it).

The functions follow the code's algorithm: loops become maps/folds, `df[name] = col` is
`setCol` (replace when the label exists, append otherwise), `np.stack` checks equal shapes,
`reshape` is `chunks`, `swapaxes(1,2)` is a per-instance transpose, `flatten` is `flatten`,
`unstack` of a full product index is reshape + per-instance transpose, `melt` stacks the value
columns in column order, `pivot` sorts the distinct keys / variables and looks every cell up.
-/
import SkVerif.Model.Sort
namespace SkVerif.Panel

inductive Err where
  | value | type | key | assert | unmodelled
  deriving DecidableEq, Repr

/-- operations python / pandas perform on column names -/
structure NameOps (ν : Type) where
  lt   : ν → ν → Bool      -- sort order of `pivot`
  dflt : Nat → ν           -- `f"var_{i}"`
  zero : ν                 -- the integer label 0
  sh   : ν → String        -- `str(name)`

inductive Cell (α : Type) where
  | ser (vs : List α)       -- pd.Series (default time index)
  | arr (vs : List α)       -- np.ndarray
  | prim (v : α)            -- primitive
  deriving DecidableEq, Repr

def Cell.isNested {α} : Cell α → Bool
  | .prim _ => false
  | _ => true

def Cell.vals? {α} : Cell α → Option (List α)
  | .ser v => some v
  | .arr v => some v
  | .prim _ => none

/-- the array a cell holds; a primitive is not an array (`np.stack` / `np.array(list)` then fail) -/
def Cell.valsE {α} (c : Cell α) : Except Err (List α) :=
  match c.vals? with
  | some v => pure v
  | none => throw Err.value

abbrev Arr3 (α : Type) := List (List (List α))

structure Nested (ν α : Type) where
  cols : List (ν × List (Cell α))
  deriving DecidableEq, Repr

structure MI (ν α : Type) where
  inst : String
  time : String
  names : List ν
  rows : List ((Int × Int) × List α)
  deriving DecidableEq, Repr

structure Long (ν α : Type) where
  inst : String
  time : String
  dim : String
  rows : List (Int × Int × ν × α)
  deriving DecidableEq, Repr

structure Tab2 (α : Type) where
  names : Option (List String)
  rows : List (List α)
  deriving DecidableEq, Repr

/-! ### array primitives -/

/-- transpose of a matrix whose rows all have length `w` (explicit width, so that a matrix with
no rows still has a well-defined transpose) -/
def transposeW {β} (w : Nat) : List (List β) → List (List β)
  | [] => List.replicate w []
  | r :: rs => List.zipWith List.cons r (transposeW w rs)

/-- `reshape(m, k)` of a flat buffer: `m` consecutive chunks of length `k` -/
def chunks {β} : Nat → Nat → List β → List (List β)
  | 0, _, _ => []
  | m + 1, k, l => l.take k :: chunks m k (l.drop k)

/-- `reshape(a, b, c)` -/
def reshape3 {β} (a b c : Nat) (l : List β) : List (List (List β)) :=
  (chunks a (b * c) l).map (chunks b c)

/-- `swapaxes(1, 2)` of an `a × b × c` array -/
def swap12 {β} (c : Nat) (x : List (List (List β))) : List (List (List β)) :=
  x.map (transposeW c)

def allEq {β} [DecidableEq β] : List β → Bool
  | [] => true
  | a :: l => l.all (fun b => decide (b = a))

/-- shape of a 3-D array with at least one instance and one column -/
def nInst {α} (X : Arr3 α) : Nat := X.length
def nCols {α} (X : Arr3 α) : Nat := (X.headD []).length
def nTime {α} (X : Arr3 α) : Nat := ((X.headD []).headD []).length

/-! ### DataFrame primitives -/

/-- `df[name] = col` -/
def setCol {ν γ} [DecidableEq ν] : List (ν × γ) → ν → γ → List (ν × γ)
  | [], name, col => [(name, col)]
  | (k, v) :: rest, name, col =>
    if k = name then (k, col) :: rest else (k, v) :: setCol rest name col

/-- `df = DataFrame(); for j, name in enumerate(names): df[name] = mk j` -/
def buildCols {ν γ} [DecidableEq ν] (names : List ν) (mk : Nat → γ) : List (ν × γ) :=
  names.zipIdx.foldl (fun df p => setCol df p.1 (mk p.2)) []

def defaultNames {ν} (ops : NameOps ν) (c : Nat) : List ν := (List.range c).map ops.dflt

def mkCell {α} (asNumpy : Bool) (vs : List α) : Cell α := if asNumpy then .arr vs else .ser vs

def Nested.names {ν α} (N : Nested ν α) : List ν := N.cols.map (·.1)
def Nested.nRows {ν α} (N : Nested ν α) : Nat :=
  match N.cols with
  | [] => 0
  | (_, col) :: _ => col.length
/-- the frame read row by row (`X.iloc[i, :]`) -/
def Nested.rows {ν α} (N : Nested ν α) : List (List (Cell α)) :=
  transposeW N.nRows (N.cols.map (·.2))

/-! ### nestedness predicates -/

/-- `are_columns_nested`: per column, does any cell hold a Series / array -/
def areColumnsNested {ν α} (N : Nested ν α) : List Bool :=
  N.cols.map (fun p => p.2.any Cell.isNested)

/-- `is_nested_dataframe` (for a DataFrame argument) -/
def isNestedDataframe {ν α} (N : Nested ν α) : Bool := (areColumnsNested N).any id

/-! ### nested <-> 3-D array -/

/-- `from_3d_numpy_to_nested(X, column_names, cells_as_numpy)` -/
def from3dToNested {ν α} [DecidableEq ν] (ops : NameOps ν) (X : Arr3 α)
    (columnNames : Option (List ν)) (asNumpy : Bool) : Except Err (Nested ν α) := do
  let c := nCols X
  let names ← match columnNames with
    | none => pure (defaultNames ops c)
    | some ns => if ns.length = c then pure ns else throw Err.value
  pure ⟨buildCols names (fun j => X.map (fun inst => mkCell asNumpy (inst.getD j [])))⟩

/-- `np.stack(row)` over the cells of one instance: every cell an array, all of one length -/
def stackRow {α} (row : List (Cell α)) : Except Err (List (List α)) := do
  let vs ← row.mapM Cell.valsE
  if allEq (vs.map List.length) then pure vs else throw Err.value

/-- `from_multi_index_to_3d_numpy(X, instance_index, time_index)` -/
def levelVals {ν α} (M : MI ν α) (name : String) : Except Err (List Int) :=
  if M.inst = M.time then throw Err.value   -- pandas: "The name occurs multiple times"
  else if name = M.inst then pure (M.rows.map (·.1.1))
  else if name = M.time then pure (M.rows.map (·.1.2))
  else throw Err.key

/-- the entries of a column (or the rows of a frame) that sit in rows of instance `id`, in the order given
(`_series.xs(id, level=instance)`) -/
def xsCol {β : Type} (lv : List Int) (id : Int) (col : List β) : List β :=
  ((lv.zip col).filter (fun q => q.1 == id)).map (·.2)

/-- `X.iloc[np.argsort(pd.factorize(level)[0], kind="stable")]`: the rows brought together per instance,
instances in order of first appearance, the rows of an instance in the order given (since fix 319b294) -/
def groupRows {β : Type} (lv : List Int) (rows : List β) : List β :=
  (lv.eraseDups.map (fun id => xsCol lv id rows)).flatten

def fromMITo3d {ν α} (M : MI ν α) (instArg timeArg : Option String) : Except Err (Arr3 α) := do
  match instArg, timeArg with
  | some i, some t =>
    let lvI ← levelVals M i
    let lvT ← levelVals M t
    let n := lvI.eraseDups.length                    -- len(X.groupby(level=instance_index))
    let T := lvT.eraseDups.length
    let c := M.names.length
    let flat := (groupRows lvI (M.rows.map (·.2))).flatten   -- grouped per instance, then X.values (row-major)
    if flat.length = n * T * c then
      pure (swap12 c (reshape3 n T c flat))          -- .reshape(n, T, c).swapaxes(1, 2)
    else throw Err.value
  | _, _ => throw Err.value

/-- series of one cell inside `from_nested_to_multi_index`: `T` is the length of the instance's
time index after `pd.concat(axis=1)`; primitives of a non-nested column are forward-filled.
Anything that would leave a NaN in the frame is outside the modelled domain. -/
def cellSeries {α} (T : Nat) (colNested : Bool) : Cell α → Except Err (List α)
  | .ser vs => if vs.length = T then pure vs else throw Err.unmodelled
  | .arr vs => if vs.length = T then pure vs else throw Err.unmodelled
  | .prim v =>
    if colNested then throw Err.unmodelled
    else pure (List.replicate T v)

def cellLen {α} : Cell α → Nat
  | .ser vs => vs.length
  | .arr vs => vs.length
  | .prim _ => 1

/-- rows of one instance: `pd.concat(series, axis=1)` = time × column table, keyed `(i, t)` -/
def instanceRows {α} (mask : List Bool) (i : Nat) (row : List (Cell α)) :
    Except Err (List ((Int × Int) × List α)) := do
  let T := (row.map cellLen).foldl max 0
  let series ← (row.zip mask).mapM (fun p => cellSeries T p.2 p.1)
  pure ((transposeW T series).zipIdx.map (fun p => (((i : Int), (p.2 : Int)), p.1)))

/-- `from_nested_to_multi_index(X, instance_index, time_index)` -/
def fromNestedToMI {ν α} (N : Nested ν α) (instArg timeArg : Option String) :
    Except Err (MI ν α) := do
  if !isNestedDataframe N then throw Err.value
  let mask := areColumnsNested N
  let blocks ← N.rows.zipIdx.mapM (fun p => instanceRows mask p.2 p.1)
  pure ⟨instArg.getD "instance", timeArg.getD "timepoints", N.names, blocks.flatten⟩

/-- `from_nested_to_3d_numpy(X)` -/
def fromNestedTo3d {ν α} (N : Nested ν α) : Except Err (Arr3 α) := do
  if !isNestedDataframe N then throw Err.value
  if (areColumnsNested N).all id then
    let rows ← N.rows.mapM stackRow                         -- .apply(lambda row: np.stack(row), axis=1)
    if allEq (rows.map (fun r => (r.headD []).length)) then  -- outer np.stack: equal shapes
      pure rows
    else throw Err.value
  else
    let M ← fromNestedToMI N none none
    fromMITo3d M (some "instance") (some "timepoints")

/-! ### 3-D array / nested <-> multi-index -/

/-- `from_3d_numpy_to_multi_index(X, instance_index, time_index, column_names)`:
flatten, index by the product `instances × columns × timepoints`, unstack the column level. -/
def from3dToMI {ν α} (ops : NameOps ν) (X : Arr3 α) (instArg timeArg : Option String)
    (columnNames : Option (List ν)) : Except Err (MI ν α) := do
  let n := nInst X
  let c := nCols X
  let t := nTime X
  let flat := X.flatten.flatten                      -- X.flatten()
  let Y := reshape3 n c t flat                       -- values addressed by (i, j, t)
  let rows := (Y.zipIdx.map (fun p =>
      (transposeW t p.1).zipIdx.map (fun q => (((p.2 : Int), (q.2 : Int)), q.1)))).flatten
  let names ← match columnNames with
    | none => pure (defaultNames ops c)
    | some ns => if ns.length = c then pure ns else throw Err.value
  pure ⟨instArg.getD "instances", timeArg.getD "timepoints", names, rows⟩

/-- `from_multi_index_to_nested(X, instance_index, cells_as_numpy)` -/
def fromMIToNested {ν α} [DecidableEq ν] (M : MI ν α) (instArg : Option String)
    (asNumpy : Bool) : Except Err (Nested ν α) := do
  match instArg with
  | none => throw Err.value
  | some i =>
    let lv ← levelVals M i
    let ids := lv.eraseDups                                   -- .unique()
    let colsT := transposeW M.names.length (M.rows.map (·.2)) -- the frame column by column
    let df := (M.names.zip colsT).foldl (fun df p =>
      setCol df p.1 (ids.map (fun id =>                      -- _series.xs(id, level=instance_index)
        mkCell asNumpy (((lv.zip p.2).filter (fun q => q.1 == id)).map (·.2))))) []
    -- assert (x_nested.columns == X.columns).all()
    if (df.map (·.1)).length ≠ M.names.length then throw Err.value
    else if df.map (·.1) ≠ M.names then throw Err.assert
    else pure ⟨df⟩

/-! ### nested frames with a non-default row index

The instance identifiers of a nested frame are its row labels.  `from_nested_to_multi_index` walks
`X.index.unique()` in row order and reads `X.loc[label]`, so for pairwise distinct labels the result
is the frame converted by position with label `labels[p]` in place of position `p`.  Every other
converter ignores the row labels of its input and returns a fresh RangeIndex. -/

def relabelInstances {β : Type} (labels : List Int) (rows : List ((Int × Int) × β)) :
    List ((Int × Int) × β) :=
  rows.map (fun r => ((labels.getD r.1.1.toNat r.1.1, r.1.2), r.2))

/-- `from_nested_to_multi_index` on a frame whose row index is `labels` -/
def fromNestedToMIIx {ν α} (labels : List Int) (N : Nested ν α) (instArg timeArg : Option String) :
    Except Err (MI ν α) := do
  let M ← fromNestedToMI N instArg timeArg
  pure { M with rows := relabelInstances labels M.rows }

/-! ### nested frames whose Series cells carry a non-default time index

`from_nested_to_multi_index` puts the cells of one instance side by side (`pd.concat(axis=1)`, all cells
of the panel share one time index `tl`): the rows of the instance are the cells' readings IN CELL ORDER and
are keyed by the cells' own time labels, whatever their order.  The model keeps positions in its nested
frame, so the labelled result is the positional result with label `tl[q]` in place of position `q`. -/

def relabelTimes {β : Type} (tl : List Int) (rows : List ((Int × Int) × β)) :
    List ((Int × Int) × β) :=
  rows.map (fun r => ((r.1.1, tl.getD r.1.2.toNat r.1.2), r.2))

/-- `from_nested_to_multi_index` on a frame whose cells carry the time index `tl` (and whose row index
is `labels`, when given) -/
def fromNestedToMITx {ν α} (labels : Option (List Int)) (tl : List Int) (N : Nested ν α)
    (instArg timeArg : Option String) : Except Err (MI ν α) := do
  let M ← match labels with
    | some ls => fromNestedToMIIx ls N instArg timeArg
    | none => fromNestedToMI N instArg timeArg
  pure { M with rows := relabelTimes tl M.rows }

/-! ### nested <-> long -/

/-- `df.melt(id_vars=<index levels>, var_name=…)`: the value columns stacked one after the other in
column order, each paired with the row keys.  Entries are `((key, variable), value)`. -/
def melt {κ ν α : Type} (names : List ν) (rows : List (κ × List α)) : List ((κ × ν) × α) :=
  let keys := rows.map (·.1)
  let colsT := transposeW names.length (rows.map (·.2))      -- the frame column by column
  ((names.zip colsT).map (fun p => (keys.zip p.2).map (fun q => ((q.1, p.1), q.2)))).flatten

/-- `from_nested_to_long(X, instance_column_name, time_column_name, dimension_column_name)`.
`reserved` are the names that collide with `reset_index` / `melt` (`"index"`, `"time_index"`,
`"value"`), given as a predicate on names. -/
def fromNestedToLong {ν α} (reserved : ν → Bool) (N : Nested ν α)
    (instArg timeArg dimArg : Option String) : Except Err (Long ν α) := do
  let M ← fromNestedToMI N (some "index") (some "time_index")
  if M.names.any reserved then throw Err.value
  let rows := (melt M.names M.rows).map (fun e => (e.1.1.1, e.1.1.2, e.1.2, e.2))
  pure ⟨instArg.getD "index", timeArg.getD "time_index", dimArg.getD "column", rows⟩

/-- `from_nested_to_long` on a frame whose row index is `labels` -/
def fromNestedToLongIx {ν α} (reserved : ν → Bool) (labels : List Int) (N : Nested ν α)
    (instArg timeArg dimArg : Option String) : Except Err (Long ν α) := do
  let M ← fromNestedToMIIx labels N (some "index") (some "time_index")
  if M.names.any reserved then throw Err.value
  let rows := (melt M.names M.rows).map (fun e => (e.1.1.1, e.1.1.2, e.1.2, e.2))
  pure ⟨instArg.getD "index", timeArg.getD "time_index", dimArg.getD "column", rows⟩

/-- `from_nested_to_long` on a frame whose cells carry the time index `tl` -/
def fromNestedToLongTx {ν α} (reserved : ν → Bool) (labels : Option (List Int)) (tl : List Int)
    (N : Nested ν α) (instArg timeArg dimArg : Option String) : Except Err (Long ν α) := do
  let M ← fromNestedToMITx labels tl N (some "index") (some "time_index")
  if M.names.any reserved then throw Err.value
  let rows := (melt M.names M.rows).map (fun e => (e.1.1.1, e.1.1.2, e.1.2, e.2))
  pure ⟨instArg.getD "index", timeArg.getD "time_index", dimArg.getD "column", rows⟩

def keyLe (a b : Int × Int) : Bool := decide (a.1 < b.1) || (decide (a.1 = b.1) && decide (a.2 ≤ b.2))

/-- sorted distinct values -/
def sortDistinct {β} [BEq β] (le : β → β → Bool) (l : List β) : List β := isortBy le l.eraseDups

/-- one cell of the pivot table: the entry for `(key, variable)`; a missing entry would be NaN
(outside the modelled domain) -/
def cellOf {κ ν α : Type} [DecidableEq κ] [DecidableEq ν] (ents : List ((κ × ν) × α)) (k : κ) (d : ν) :
    Except Err α :=
  match ents.lookup (k, d) with
  | some v => pure v
  | none => throw Err.unmodelled

/-- one row of the pivot table -/
def pivotRow {κ ν α : Type} [DecidableEq κ] [DecidableEq ν] (ents : List ((κ × ν) × α)) (dims : List ν)
    (k : κ) : Except Err (κ × List α) := do
  let vals ← dims.mapM (cellOf ents k)
  pure (k, vals)

/-- `X_long.pivot(index=[inst, time], columns=dim, values="value")` on the entries
`((key, variable), value)`: sorted distinct keys × sorted distinct variables, each cell looked
up; duplicate entries are rejected by pandas. -/
def pivotE {κ ν α : Type} [DecidableEq κ] [DecidableEq ν] (kle : κ → κ → Bool) (lt : ν → ν → Bool)
    (ents : List ((κ × ν) × α)) : Except Err (List ν × List (κ × List α)) := do
  if ¬ (ents.map (·.1)).Nodup then throw Err.value
  let keys := sortDistinct kle (ents.map (·.1.1))
  let dims := sortDistinct (fun a b => !lt b a) (ents.map (·.1.2))
  let table ← keys.mapM (pivotRow ents dims)
  pure (dims, table)

def pivot {ν α} [DecidableEq ν] (lt : ν → ν → Bool) (rows : List (Int × Int × ν × α)) :
    Except Err (List ν × List ((Int × Int) × List α)) :=
  pivotE keyLe lt (rows.map (fun r => (((r.1, r.2.1), r.2.2.1), r.2.2.2)))

/-- `from_long_to_nested(X_long, instance_column_name, time_column_name, dimension_column_name,
value_column_name="value", column_names)` -/
def fromLongToNested {ν α} [DecidableEq ν] (ops : NameOps ν) (L : Long ν α)
    (instArg timeArg dimArg : String) (columnNames : Option (List ν)) :
    Except Err (Nested ν α) := do
  let colNames := [L.inst, L.time, L.dim, "value"]
  if ¬ (instArg ∈ colNames ∧ timeArg ∈ colNames ∧ dimArg ∈ colNames) then throw Err.key
  -- the id columns may be named in either role; any other assignment of columns is not modelled
  let rows ←
    if instArg = L.inst ∧ timeArg = L.time ∧ dimArg = L.dim then pure L.rows
    else if instArg = L.time ∧ timeArg = L.inst ∧ dimArg = L.dim then
      pure (L.rows.map (fun r => (r.2.1, r.1, r.2.2)))
    else throw Err.unmodelled
  let (dims, table) ← pivot ops.lt rows
  let N ← fromMIToNested ⟨instArg, timeArg, dims, table⟩ (some instArg) false
  -- pivot labelled the columns with the variables' identifiers: kept unless names are given
  match columnNames with
  | none => pure N
  | some ns =>
    if ns.length = N.cols.length then pure ⟨ns.zip (N.cols.map (·.2))⟩   -- X_nested.columns = names
    else throw Err.value

/-! ### 2-D tables -/

/-- one column as an `(n, t)` matrix: `np.array(X.iloc[:, i].tolist())` -/
def colMatrix {α} (col : List (Cell α)) : Except Err (List (List α)) := do
  let vs ← col.mapM Cell.valsE
  if allEq (vs.map List.length) then pure vs else throw Err.value

/-- `from_nested_to_2d_array(X, return_numpy)` -/
def fromNestedTo2d {ν α} (ops : NameOps ν) (N : Nested ν α) (returnNumpy : Bool) :
    Except Err (Tab2 α) := do
  if N.cols.isEmpty then throw Err.value
  let mats ← N.cols.mapM (fun p => colMatrix p.2)
  let rows := (transposeW N.nRows mats).map List.flatten      -- np.hstack
  if returnNumpy then pure ⟨none, rows⟩
  else
    let labels := ((N.cols.zip mats).map (fun p =>
      (List.range ((p.2.headD []).length)).map (fun k => ops.sh p.1.1 ++ "__" ++ toString k))).flatten
    pure ⟨some labels, rows⟩

/-- `from_3d_numpy_to_2d_array(X)` = `X.reshape(n, -1)` -/
def from3dTo2d {α} (X : Arr3 α) : Tab2 α := ⟨none, X.map List.flatten⟩

/-- `from_2d_array_to_nested(X, columns=…, cells_as_numpy=…)`: one column, each row a cell -/
def from2dToNested {ν α} (ops : NameOps ν) (T : Tab2 α) (columns : Option (List ν))
    (asNumpy : Bool) : Except Err (Nested ν α) := do
  let col := T.rows.map (fun r => mkCell asNumpy r)
  match columns with
  | none => pure ⟨[(ops.zero, col)]⟩
  | some [name] => pure ⟨[(name, col)]⟩
  | some _ => throw Err.value

/-! ### check_X -/

inductive XIn (ν α : Type) where
  | arr3 (x : Arr3 α)
  | arrOther            -- numpy array with ndim ≠ 3
  | frame (x : Nested ν α)
  | other               -- neither DataFrame nor ndarray
  deriving Repr

inductive XOut (ν α : Type) where
  | arr3 (x : Arr3 α)
  | frame (x : Nested ν α)
  deriving Repr

/-- `check_X(X, enforce_univariate, enforce_min_instances, enforce_min_columns, coerce_to_numpy,
coerce_to_pandas)` -/
def checkX {ν α} [DecidableEq ν] (ops : NameOps ν) (X : XIn ν α) (univariate : Bool)
    (minInst minCols : Nat) (toNumpy toPandas : Bool) : Except Err (XOut ν α) := do
  if toPandas && toNumpy then throw Err.value
  let X' : XOut ν α ← match X with
    | .other => throw Err.value
    | .arrOther => throw Err.value
    | .arr3 x => if toPandas then (do let N ← from3dToNested ops x none false; pure (XOut.frame N))
                 else pure (XOut.arr3 x)
    | .frame N => pure (XOut.frame N)
  let nc := match X' with | .arr3 x => nCols x | .frame N => N.cols.length
  let ni := match X' with | .arr3 x => nInst x | .frame N => N.nRows
  if nc < minCols then throw Err.value
  if univariate && nc > 1 then throw Err.value
  if minInst > 0 && ni < minInst then throw Err.value
  match X' with
  | .arr3 x => pure (.arr3 x)
  | .frame N =>
    if !isNestedDataframe N then throw Err.value
    if toNumpy then (do let x ← fromNestedTo3d N; pure (.arr3 x)) else pure (.frame N)

/-! ### conversion paths -/

inductive Rep (ν α : Type) where
  | arr3 (x : Arr3 α)
  | nested (x : Nested ν α)
  | mi (x : MI ν α)
  | long (x : Long ν α)
  | tab2 (x : Tab2 α)
  deriving Repr

inductive Hop (ν : Type) where
  | n3
  | a3n (names : Option (List ν)) (asNumpy : Bool)
  | a3m (inst time : Option String) (names : Option (List ν))
  | m3 (inst time : Option String)
  | nm (inst time : Option String)
  | mn (inst : Option String) (asNumpy : Bool)
  | nl (inst time dim : Option String)
  | ln (inst time dim : String) (names : Option (List ν))
  | n2 (returnNumpy : Bool)
  | a32
  | t2n (columns : Option (List ν)) (asNumpy : Bool)
  deriving Repr

/-- apply one converter; a converter applied to the wrong kind of container is outside the model -/
def applyHop {ν α} [DecidableEq ν] (ops : NameOps ν) (reserved : ν → Bool) :
    Hop ν → Rep ν α → Except Err (Rep ν α)
  | .n3, .nested N => Rep.arr3 <$> fromNestedTo3d N
  | .a3n names k, .arr3 X => Rep.nested <$> from3dToNested ops X names k
  | .a3m i t names, .arr3 X => Rep.mi <$> from3dToMI ops X i t names
  | .m3 i t, .mi M => Rep.arr3 <$> fromMITo3d M i t
  | .nm i t, .nested N => Rep.mi <$> fromNestedToMI N i t
  | .mn i k, .mi M => Rep.nested <$> fromMIToNested M i k
  | .nl i t d, .nested N => Rep.long <$> fromNestedToLong reserved N i t d
  | .ln i t d names, .long L => Rep.nested <$> fromLongToNested ops L i t d names
  | .n2 rn, .nested N => Rep.tab2 <$> fromNestedTo2d ops N rn
  | .a32, .arr3 X => pure (Rep.tab2 (from3dTo2d X))
  | .t2n cols k, .tab2 T => Rep.nested <$> from2dToNested ops T cols k
  | _, _ => throw Err.unmodelled

def applyPath {ν α} [DecidableEq ν] (ops : NameOps ν) (reserved : ν → Bool) :
    List (Hop ν) → Rep ν α → Except Err (Rep ν α)
  | [], r => pure r
  | h :: hs, r => applyHop ops reserved h r >>= applyPath ops reserved hs

end SkVerif.Panel

/-! ### the concrete name type used by the driver: python `str` or `int` labels -/
namespace SkVerif.Panel

inductive Name where
  | i (v : Int)
  | s (v : String)
  deriving DecidableEq, Repr

/-- pandas' sort order of labels (ints before strings, as `safe_sort` does for mixed labels) -/
def Name.lt : Name → Name → Bool
  | .i a, .i b => decide (a < b)
  | .i _, .s _ => true
  | .s _, .i _ => false
  | .s a, .s b => decide (a < b)

def Name.sh : Name → String
  | .i a => toString a
  | .s a => a

def nameOps : NameOps Name :=
  { lt := Name.lt, dflt := fun k => .s ("var_" ++ toString k), zero := .i 0, sh := Name.sh }

/-- labels that collide with the id / value columns `from_nested_to_long` creates -/
def reservedName : Name → Bool
  | .s a => a == "index" || a == "time_index" || a == "value"
  | .i _ => false

end SkVerif.Panel
