/-
Executable model of sktime/forecasting/naive.py (NaiveForecaster.fit, _predict_last_window) and of the
parts of sktime/forecasting/base/_sktime.py it runs through (_BaseWindowForecaster._predict,
_predict_fixed_cutoff, _predict_in_sample → CutoffSplitter(fh=1) → _predict_moving_cutoff →
update(update_params=False) → _get_last_window), for a series with contiguous integer labels
`origin, origin+1, …`.  Import-free apart from the shared horizon model.

Values are `Option Rat`, `none` = NaN.  The model follows the code as it is after the fixes ab76aa2 (seasonal
`mean`: the window is padded with NaN at the FRONT up to a multiple of `sp`, by the number of observations actually
in the window, and reshaped to `(-1, sp)`) and 3f305b4 (drift: slope divided by `len(last_window) - 1`; a window
with a single observation gives 0.0/0 = NaN).
-/
import SkVerif.Model.FH
namespace SkVerif.Naive
open SkVerif

abbrev Val := Option Rat

inductive Err | value | index | key | type
  deriving DecidableEq, Repr

inductive Strategy | last | mean | drift | other
  deriving DecidableEq, Repr

/-! ### numpy helpers -/

/-- `np.nanmean` of a 1-D array: NaN for an empty / all-NaN slice -/
def nanmean (l : List Val) : Val :=
  let v := l.filterMap id
  if v.isEmpty then none else some (v.sum / (v.length : Rat))

/-- `np.all(np.isnan(w))` (true for the empty array) -/
def allNaN (w : List Val) : Bool := w.all (·.isNone)

/-- `int(np.ceil(a / b))` for `a ≥ 0`, `b > 0` -/
def ceilDiv (a : Int) (b : Nat) : Nat := ((a + (b : Int) - 1) / (b : Int)).toNat

/-- `arr[i]` for one integer `i` of an integer-array index: negative wraps, out of bounds raises -/
def npGet {α} (l : List α) (i : Int) : Except Err α :=
  let j := if i < 0 then i + (l.length : Int) else i
  if j < 0 then .error .index
  else match l[j.toNat]? with
    | some v => .ok v
    | none => .error .index

/-- apply a function that may raise to every element, left to right (first failure wins) -/
def mapE {α β} (f : α → Except Err β) : List α → Except Err (List β)
  | [] => .ok []
  | a :: l =>
    match f a with
    | .error e => .error e
    | .ok b =>
      match mapE f l with
      | .error e => .error e
      | .ok bs => .ok (b :: bs)

/-- `np.tile(l, reps)` -/
def tile {α} (l : List α) (reps : Nat) : List α := (List.replicate reps l).flatten

/-- `if fh[-1] > sp: l = np.tile(l, int(np.ceil(fh[-1] / sp)))` -/
def tileIfNeeded {α} (sp : Nat) (fhLast : Int) (l : List α) : List α :=
  if fhLast > (sp : Int) then tile l (ceilDiv fhLast sp) else l

/-- column `k` of `arr.reshape(rows, sp)` -/
def column (arr : List Val) (rows sp k : Nat) : List Val :=
  (List.range rows).map (fun r => (arr[r * sp + k]?).getD none)

/-! ### `NaiveForecaster.fit`: validation and window-length resolution -/

/-- the strategy branches of `fit`: validation and the raw `window_length_` -/
def resolveWindow (st : Strategy) (sp : Int) (wl : Option Int) (n : Nat) : Except Err Int :=
  match st with
  | .last =>
    if sp = 1 then .ok 1
    else if sp < 1 then .error .value                          -- check_sp
    else .ok sp
  | .mean =>
    match wl with
    | some w =>
      if sp ≠ 1 ∧ w < sp then .error .value                    -- window_length < sp
      else if w < 1 then .error .value                         -- check_window_length
      else if sp < 1 then .error .value                        -- check_sp
      else .ok w
    | none => if sp < 1 then .error .value else .ok (n : Int)
  | .drift =>
    match wl with
    | some w =>
      if w < 1 then .error .value                              -- check_window_length
      else if w = 1 then .error .value                         -- "must be greater than one"
      else .ok w
    | none => .ok (n : Int)
  | .other => .error .value                                    -- unknown strategy

/-- returns `window_length_`; `n = len(y)`; `sp`, `wl` as passed to the constructor -/
def fitWindow (st : Strategy) (sp : Int) (wl : Option Int) (n : Nat) : Except Err Nat :=
  if n = 0 then .error .value                                  -- check_y(allow_empty=False)
  else match resolveWindow st sp wl n with
    | .error e => .error e
    | .ok w =>
      if w > (n : Int) then .error .value                      -- larger than the training series
      else .ok w.toNat

/-! ### `_predict_last_window` -/

/-- `w` = last window (any length), `wl` = `window_length_`, `sp` = `sp_` (≥ 1), `fh` = relative steps
(sorted, non-empty: `fh[-1]` is the largest). -/
def predictLastWindow (st : Strategy) (sp wl : Nat) (w : List Val) (fh : List Int) :
    Except Err (List Val) :=
  let fhLast := fh.getLast?.getD 0
  if allNaN w || w.isEmpty then .ok (fh.map (fun _ => none))    -- _predict_nan
  else match st with
  | .last =>
    if sp = 1 then .ok (fh.map (fun _ => w.getLast?.getD none)) -- np.repeat(last_window[-1], len(fh))
    else
      let w' := tileIfNeeded sp fhLast w
      mapE (fun h => npGet w' (h - 1)) fh                       -- last_window[fh.to_indexer(cutoff)]
  | .mean =>
    if sp = 1 then .ok (fh.map (fun _ => nanmean w))
    else
      let rem := w.length % sp                                  -- len(last_window) % sp_
      let pad := if rem > 0 then sp - rem else 0
      let padded := List.replicate pad none ++ w                -- np.hstack([full(pad, nan), last_window])
      let rows := padded.length / sp                            -- reshape(-1, sp_)
      let cols := (List.range sp).map (fun k => nanmean (column padded rows sp k))
      let cols' := tileIfNeeded sp fhLast cols
      mapE (fun h => npGet cols' (h - 1)) fh
  | .drift =>
    if wl ≠ 1 then
      match w.head?, w.getLast? with
      | some (some a), some (some b) =>
        if w.length = 1 then .ok (fh.map (fun _ => none))       -- 0.0 / 0 = nan (numpy float division)
        else
          let slope := (b - a) / ((((w.length : Int) - 1 : Int)) : Rat)   -- len(last_window) - 1
          .ok (fh.map (fun h => some (b + (((h - 1 + 1 : Int)) : Rat) * slope)))
      | _, _ => .error .value                                   -- first/last of the window missing
    else .ok (fh.map (fun _ => none))                           -- method returns None → Series of NaN
  | .other => .error .value

/-! ### `_get_last_window`: label slicing `.loc[cutoff - wl + 1 : cutoff]` on contiguous labels -/

/-- `y.loc[a:b]` for a series whose labels are `origin, origin+1, …, origin+len-1` (both ends inclusive) -/
def locSlice (y : List Val) (origin a b : Int) : List Val :=
  let lo := if a < origin then origin else a
  let hi := if b > origin + (y.length : Int) - 1 then origin + (y.length : Int) - 1 else b
  if hi < lo then [] else (y.drop (lo - origin).toNat).take (hi - lo + 1).toNat

def lastWindow (y : List Val) (origin : Int) (wl : Nat) (cutoff : Int) : List Val :=
  locSlice y origin (cutoff - (wl : Int) + 1) cutoff

/-! ### `_predict_in_sample` → `_predict_moving_cutoff` -/

/-- the loop over `cv.split(y)`: state = current cutoff label.  `q` = positional cutoff; the training
window positions are `arange(q - wl, q) + 1` filtered `≥ 0`; an empty batch leaves the cutoff alone. -/
def inSampleGo (st : Strategy) (sp wl : Nat) (y : List Val) (origin : Int) :
    List Int → Int → Except Err (List (Int × Val))
  | [], _ => .ok []
  | q :: qs, cut =>
    let cut' := if q < 0 then cut else origin + q              -- y_new.index[-1] when y_new non-empty
    match predictLastWindow st sp wl (lastWindow y origin wl cut') [1] with
    | .error e => .error e
    | .ok v =>
      match inSampleGo st sp wl y origin qs cut' with
      | .error e => .error e
      | .ok rest => .ok ((cut' + 1, v.headD none) :: rest)

/-- `steps` = relative in-sample steps (≤ 0) -/
def predictInSample (st : Strategy) (sp wl : Nat) (y : List Val) (origin : Int) (steps : List Int) :
    Except Err (List (Int × Val)) :=
  let n : Int := y.length
  let cs := sortInts (steps.map (fun s => s + n - 2))          -- check_cutoffs: np.sort
  match cs.getLast? with
  | none => .error .value                                       -- empty cutoffs
  | some mx =>
    if mx ≥ n then .error .value
    else if mx + 1 ≥ n then .error .value                       -- CutoffSplitter feasibility (fh = 1)
    else inSampleGo st sp wl y origin cs (origin - 1)           -- cutoff set to y.index[0] - 1

/-! ### `fit(y).predict(fh)` -/

def liftFH {α} : Except FH.Err α → Except Err α
  | .ok a => .ok a
  | .error .type => .error .type
  | .error .value => .error .value
  | .error .index => .error .index

def predictOut (st : Strategy) (sp wl : Nat) (y : List Val) (origin : Int) (steps : List Int) :
    Except Err (List (Int × Val)) := do
  let cutoff : Int := origin + (y.length : Int) - 1
  let vs ← predictLastWindow st sp wl (lastWindow y origin wl cutoff) steps
  pure ((steps.map (cutoff + ·)).zip vs)

/-- `NaiveForecaster(strategy, window_length, sp).fit(y).predict(fh)` -/
def fitPredict (st : Strategy) (sp : Int) (wl : Option Int) (y : List Val) (origin : Int)
    (raw : FH.Raw) (rel : Bool) : Except Err (List (Int × Val)) := do
  let w ← fitWindow st sp wl y.length
  let fh ← liftFH (FH.checkFh (FH.mk raw rel) false)
  let cutoff : Int := origin + (y.length : Int) - 1
  let r ← liftFH (FH.toRelative fh (some cutoff))
  let ins := r.vals.filter (fun v => decide (v ≤ 0))
  let oos := r.vals.filter (fun v => decide (v > 0))
  let spn := sp.toNat
  if ins.isEmpty then predictOut st spn w y origin oos
  else if oos.isEmpty then predictInSample st spn w y origin ins
  else do
    let a ← predictInSample st spn w y origin ins
    let b ← predictOut st spn w y origin oos
    pure (a ++ b)

end SkVerif.Naive
