/-
C14: panel-shaped closed-form transformers of sktime 0.6.0, part 1.
  sktime/transformations/panel/padder.py      PaddingTransformer  (fit, _create_pad, transform)
  sktime/transformations/panel/truncation.py  TruncationTransformer (fit, transform)
  sktime/transformations/panel/reduce.py      Tabularizer.transform
  sktime/transformations/panel/compose.py     ColumnConcatenator.transform
  sktime/utils/data_processing.py             from_nested_to_2d_array, from_2d_array_to_nested
  sktime/utils/validation/panel.py            check_X

A panel is instances × columns × time: `List (List (List Rat))`; cells may have unequal length.
The model follows the code's algorithm (loops → maps/folds, array mutation → returned value) and
returns `Except Err _` exactly where the code raises.  Import-free.
-/
import SkVerif.Model.Range
namespace SkVerif.C14

/-- panel with values of type `α` (`Rat`; `Option Rat` where NaN can occur, e.g. a NaN fill value) -/
abbrev PanelOf (α : Type) := List (List (List α))
abbrev Cell := List Rat
abbrev Inst := List Cell
abbrev Panel := List Inst

/-- kinds of exception the code raises (canonical tokens of harness/common.py) -/
inductive Err | value | type | index | attr | notimpl | other
  deriving DecidableEq, Repr

/- How the caller stored the cells (nested frame with pd.Series cells, nested frame with np.ndarray
cells, 3-D array) makes no difference to any transformer modelled here (since the fix
"padding, truncation and interpolation accept nested frames with ndarray cells"): the harness varies
the container, the model is the same. -/

/-- `check_X`: at least one instance, at least one column (`X.shape`). -/
def checkX {α : Type} (X : PanelOf α) : Except Err Unit :=
  match X with
  | [] => .error .value
  | inst :: _ => if inst.length = 0 then .error .value else .ok ()

/-- Python `max(map(f, xs))` over a non-empty list of naturals (0 for the empty list, which
`check_X` excludes). -/
def listMax : List Nat → Nat
  | [] => 0
  | a :: l => l.foldl max a

def listMin : List Nat → Nat
  | [] => 0
  | a :: l => l.foldl min a

/-- `_get_max_length(arr)`: max over instances of max over the cells of the instance -/
def maxLength {α : Type} (X : PanelOf α) : Nat := listMax (X.map (fun inst => listMax (inst.map List.length)))

/-- `TruncationTransformer.get_min_length(arr)` -/
def minLength {α : Type} (X : PanelOf α) : Nat := listMin (X.map (fun inst => listMin (inst.map List.length)))

/-! ### PaddingTransformer -/

/-- `fit`: `pad_length_` -/
def padFit {α : Type} (padLength : Option Int) (X : PanelOf α) : Except Err Int := do
  checkX X
  match padLength with
  | none => pure (maxLength X : Int)
  | some p => pure p

/-- `_create_pad`: `out = np.full(L, fill, float); out[:len(series)] = np.asarray(series)`; the values
are only moved, so the model is generic in the value type (the driver uses `Option Rat`: a NaN fill value
and NaN observations are values like any other; integer cells are cast to float, the same numbers) -/
def createPad {α : Type} (L : Nat) (fill : α) (c : List α) : List α :=
  c ++ (List.replicate L fill).drop c.length

/-- `transform` given the fitted `pad_length_` -/
def padTransform {α : Type} (L : Int) (fill : α) (X : PanelOf α) : Except Err (PanelOf α) := do
  checkX X
  if (maxLength X : Int) > L then .error .value
  else pure (X.map (fun inst => inst.map (createPad L.toNat fill)))

/-- `PaddingTransformer(pad_length, fill_value).fit(Xfit).transform(X)` -/
def pad {α : Type} (padLength : Option Int) (fill : α) (Xfit X : PanelOf α) : Except Err (PanelOf α) := do
  let L ← padFit padLength Xfit
  padTransform L fill X

/-! ### TruncationTransformer -/

def truncFit (lower : Option Int) (X : Panel) : Except Err Int := do
  checkX X
  match lower with
  | none => pure (minLength X : Int)
  | some l => pure l

/-- one positional index of `series.iloc[idxs]` (negative positions count from the end) -/
def ilocOne (c : Cell) (i : Int) : Except Err Rat :=
  let n : Int := c.length
  if 0 ≤ i ∧ i < n then .ok (c.getD i.toNat 0)
  else if -n ≤ i ∧ i < 0 then .ok (c.getD (i + n).toNat 0)
  else .error .index

/-- `series.iloc[idxs]` for an integer array -/
def ilocList (c : Cell) (idxs : List Int) : Except Err Cell := idxs.mapM (ilocOne c)

/-- `np.arange(lower_)` / `np.arange(lower_, upper)` -/
def truncIdxs (lo : Int) (upper : Option Int) : List Int :=
  match upper with
  | none => arange 0 lo
  | some u => arange lo u

def truncTransform (lo : Int) (upper : Option Int) (X : Panel) : Except Err Panel := do
  checkX X
  if (minLength X : Int) < lo then .error .value
  else X.mapM (fun inst => inst.mapM (fun c => ilocList c (truncIdxs lo upper)))

/-- `TruncationTransformer(lower, upper).fit(Xfit).transform(X)` -/
def truncate (lower upper : Option Int) (Xfit X : Panel) : Except Err Panel := do
  let lo ← truncFit lower Xfit
  truncTransform lo upper X

/-! ### Tabularizer / ColumnConcatenator -/

/-- column `j` as the list of its cells, one per instance: `X.iloc[:, j].tolist()` -/
def column (X : Panel) (j : Nat) : List Cell := X.map (fun inst => inst.getD j [])

def nColumns (X : Panel) : Nat := match X with | [] => 0 | inst :: _ => inst.length

/-- `np.array(list_of_cells)` is 2-D only if all cells have the same length -/
def rectangular (col : List Cell) : Bool :=
  match col with
  | [] => true
  | c :: cs => cs.all (fun d => d.length == c.length)

/-- `np.hstack(blocks)`: row `i` is the concatenation of row `i` of every block -/
def hstack (blocks : List (List Cell)) (nRows : Nat) : List (List Rat) :=
  (List.range nRows).map (fun i => (blocks.map (fun b => b.getD i [])).flatten)

/-- `from_nested_to_2d_array(X)` (values) -/
def nestedTo2d (X : Panel) : Except Err (List (List Rat)) :=
  let cols := (List.range (nColumns X)).map (column X)
  if cols.all rectangular then .ok (hstack cols X.length) else .error .value

/-- `Tabularizer().fit(..).transform(X)`; a 3-D array is reshaped `(n, -1)`, the same thing -/
def tabularize (X : Panel) : Except Err (List (List Rat)) := do
  checkX X
  nestedTo2d X

/-- `from_2d_array_to_nested`: one column, row `i` becomes one cell -/
def nestRows (rows : List (List Rat)) : Panel := rows.map (fun r => [r])

/-- `ColumnConcatenator().fit(..).transform(X)` -/
def columnConcat (X : Panel) : Except Err Panel := do
  let rows ← tabularize X
  pure (nestRows rows)

end SkVerif.C14
