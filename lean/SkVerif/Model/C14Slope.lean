/-
C14: SlopeTransformer (sktime/transformations/panel/slope.py): `transform`, `_split_time_series`,
`_get_gradients_of_lines`, `_get_gradient`, `_check_parameters`.

The gradient `(w + sqrt(w² + r²)) / r` is irrational; the model returns the exact pair `(w, r)` and the
driver prints, per segment, `sign(r)` and `2w/r`: for `m = (w + sqrt(w²+r²))/r` one has `m − 1/m = 2w/r`
and `sign m = sign r`, and `m ↦ m − 1/m` is injective on each sign class, so the harness compares
`(sign m, m − 1/m)` of the real result with these exact rationals (DESIGN 4.2, no float in Lean).
The segment bounds `int(j·avg)` are taken in exact arithmetic (`avg = n / k`).  Import-free.
-/
import SkVerif.Model.C14PAA
namespace SkVerif.C14

/-- `_split_time_series` with exact `beginning = j · n/k`: segment `j` is `X[int(j·n/k) : int((j+1)·n/k)]` -/
def slopeSegments (k : Nat) (xs : List Rat) : List (List Rat) :=
  let n := xs.length
  (List.range k).map (fun j => (xs.drop (j * n / k)).take ((j + 1) * n / k - j * n / k))

/-- `_get_gradient`: `w = Σ(y−ȳ)² − Σ(x−x̄)²`, `r = 2 Σ(x−x̄)(y−ȳ)` with `x = 1 … len` -/
def slopeWR (ys : List Rat) : Rat × Rat :=
  let n : Rat := ys.length
  let xs : List Rat := (List.range ys.length).map (fun (i : Nat) => (i : Rat) + 1)
  let mx := xs.sum / n
  let my := ys.sum / n
  let syy := (ys.map (fun y => (y - my) * (y - my))).sum
  let sxx := (xs.map (fun x => (x - mx) * (x - mx))).sum
  let sxy := (List.zipWith (fun x y => (x - mx) * (y - my)) xs ys).sum
  (syy - sxx, 2 * sxy)

/-- `_check_parameters(n_timepoints)` -/
def slopeCheck (k : IntParam) (n : Nat) : Except Err Nat :=
  match k with
  | .notInt => .error .type
  | .int v => if v ≤ 0 then .error .value else if v > (n : Int) then .error .value else .ok v.toNat

/-- `SlopeTransformer(num_intervals).fit(..).transform(X)`: per cell the `(w, r)` of each of its segments;
every column is tabularised on its own (equal-length series within a column) -/
def slopeTransform (k : IntParam) (X : Panel) : Except Err (List (List (List (Rat × Rat)))) := do
  checkX X
  let n := ((X.head?.bind List.head?).getD []).length
  let k ← slopeCheck k n
  let cols ← (List.range (nColumns X)).mapM (fun j =>
    let col := column X j
    if ¬ rectangular col then .error .value
    else col.mapM (fun c => (slopeSegments k c).mapM (fun seg =>
      -- `statistics.mean` of an empty segment (a later column shorter than num_intervals) raises StatisticsError
      if seg.isEmpty then Except.error Err.value else Except.ok (slopeWR seg))))
  pure ((List.range X.length).map (fun i => cols.map (fun col => col.getD i [])))

end SkVerif.C14
