/-
C14: PAA (sktime/transformations/panel/dictionary_based/_paa.py), `transform`,
`_perform_paa_along_dim`, `_check_parameters`.  The running-sum loop over fractional frames is
modelled literally (a fold whose state is the loop's local variables), in exact rationals.
Import-free.
-/
import SkVerif.Model.C14Panel
namespace SkVerif.C14

/-- local variables of the inner loop of `_perform_paa_along_dim` -/
structure PaaSt where
  frames : List Rat      -- `frames`
  cur : Nat              -- `current_frame`
  size : Rat             -- `current_frame_size`
  sum : Rat              -- `frame_sum`
  deriving Repr

/-- one iteration `for n in range(num_atts)` with `x = series[n]`, `fl = frame_length` -/
def paaStep (fl : Rat) (st : PaaSt) (x : Rat) : PaaSt :=
  let remaining := fl - st.size
  let sum1 := if remaining > 1 then st.sum + x else st.sum + remaining * x
  let size1 := if remaining > 1 then st.size + 1 else st.size + remaining
  if size1 = fl then
    { frames := st.frames ++ [sum1 / fl], cur := st.cur + 1,
      sum := (1 - remaining) * x, size := 1 - remaining }
  else { st with sum := sum1, size := size1 }

def paaInit : PaaSt := { frames := [], cur := 0, size := 0, sum := 0 }

/-- PAA of one series into `k` frames (`frame_length = num_atts / num_intervals`), including the
"last frame lost" repair after the loop -/
def paaSeries (k : Nat) (xs : List Rat) : List Rat :=
  let fl : Rat := (xs.length : Rat) / (k : Rat)
  let st := xs.foldl (paaStep fl) paaInit
  if st.cur + 1 = k then st.frames ++ [st.sum / fl] else st.frames

/-- what the caller passed as `num_intervals` -/
inductive IntParam | int (v : Int) | notInt
  deriving Repr

/-- `_check_parameters(num_atts)` -/
def paaCheck (k : IntParam) (numAtts : Nat) : Except Err Nat :=
  match k with
  | .notInt => .error .type
  | .int v => if v ≤ 0 then .error .value else if v > (numAtts : Int) then .error .value else .ok v.toNat

/-- `PAA(num_intervals).fit(..).transform(X)`: `num_atts` is read from the first cell only; every
column is tabularised on its own (so a column must be equal-length) and reduced series by series -/
def paa (k : IntParam) (X : Panel) : Except Err Panel := do
  checkX X
  let numAtts := ((X.head?.bind List.head?).getD []).length
  let k ← paaCheck k numAtts
  let cols ← (List.range (nColumns X)).mapM (fun j =>
    let col := column X j
    if rectangular col then .ok (col.map (paaSeries k)) else .error .value)
  -- `pd.concat(dataFrames, axis=1)`: instance i gets cell i of every column
  pure ((List.range X.length).map (fun i => cols.map (fun col => col.getD i [])))

end SkVerif.C14
