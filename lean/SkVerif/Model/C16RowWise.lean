/-
C16  Fitted panel estimators treat instances independently and ignore the container.

Executable model of the *generic shapes* sktime 0.6.0 uses to apply a fitted panel estimator
(transformations/panel/*.py, classification/**, regression/**) — not of any particular estimator:

* a panel is the list of its instances; an instance is a list of columns, a column a list of values;
* row loops (`for i in range(n): out.append(f(X[i]))`, `out[i] = f(X[i])`, comprehensions,
  `Series.apply`, `Parallel(delayed(f)(X, i) for i in range(n))`), possibly raising for an instance,
  possibly behind a batch guard (`max(len) > pad_length_ -> raise`);
* ensembles: every member maps the *whole batch*, the member outputs are stacked member-major and
  combined along the member axis (`np.sum(y_probas, axis=0)`, `np.average(..., axis=0)`), or
  accumulated in a loop over members (`sums[i, cls(preds[i])] += w`);
* pipelines: steps applied one after the other, then the final estimator;
* `check_X` (utils/validation/panel.py): guards + coercion between the two containers, which does
  not touch the underlying instances.

Import-free apart from the shared structural sort.
-/
import SkVerif.Model.Sort
namespace SkVerif.C16

inductive Err | value | type | other | key
  deriving DecidableEq, Repr

/-! ## Positional selection of instances (`X[idx]`, `X.iloc[idx]`) -/

/-- rows at the positions `idx`, in the order of `idx` (a permutation when `idx` is a permutation of
`range n`, a sub-selection when it is a sub-list, a single instance when it is `[i]`; positions may
repeat).  Out-of-range positions select nothing (the harness never sends them). -/
def select {α : Type} (idx : List Nat) (X : List α) : List α := idx.filterMap (fun i => X[i]?)

/-- `idx` lists every position of a panel of `n` instances exactly once -/
def IsPermOf (idx : List Nat) (n : Nat) : Prop := idx.Perm (List.range n)

/-! ## Row loops -/

/-- comprehension / `apply`: `[f(x) for x in X]` -/
def mapRows {α β : Type} (f : α → β) (X : List α) : List β := X.map f

/-- `out = []; for x in X: out.append(f(x))` -/
def loopAppend {α β : Type} (f : α → β) (X : List α) : List β := X.foldl (fun acc x => acc ++ [f x]) []

/-- `out = zeros(n); for i in range(n): out[i] = f(X[i])` -/
def loopIndex {α β : Type} (f : α → β) (X : List α) : List β :=
  (List.range X.length).filterMap (fun i => (X[i]?).map f)

/-- a row loop whose body may raise: the first failing instance aborts the call -/
def mapRowsE {ε α β : Type} (f : α → Except ε β) (X : List α) : Except ε (List β) := X.mapM f

def listMax : List Nat → Nat
  | [] => 0
  | a :: l => max a (listMax l)

/-- the minimum of a non-empty list (`0` for the empty one, which `check_X` never lets through) -/
def listMin : List Nat → Nat
  | [] => 0
  | [a] => a
  | a :: l => min a (listMin l)

/-- PaddingTransformer.transform: the longest series *of the batch* is compared with the fitted
length, then every instance is padded on its own -/
def guardMaxThenMap {α β : Type} (len : α → Nat) (bound : Nat) (f : α → β) (X : List α) : Except Err (List β) :=
  if listMax (X.map len) > bound then .error .value else .ok (X.map f)

/-- TruncationTransformer.transform: the shortest series of the batch against the fitted bound -/
def guardMinThenMap {α β : Type} (len : α → Nat) (bound : Nat) (f : α → β) (X : List α) : Except Err (List β) :=
  if listMin (X.map len) < bound then .error .value else .ok (X.map f)

/-! ## Ensembles of members that each map the whole batch -/

/-- rows of a member-major table: row `i` collects entry `i` of every member's output -/
def transposeN {β : Type} (n : Nat) (tbl : List (List β)) : List (List β) :=
  (List.range n).map (fun i => tbl.filterMap (fun col => col[i]?))

/-- `np.sum([m(X) for m in members], axis=0)`-style aggregation: every member maps the batch,
the stacked outputs are combined along the member axis -/
def ensembleBatch {α β γ : Type} (members : List (List α → List β)) (agg : List β → γ) (X : List α) : List γ :=
  (transposeN X.length (members.map (fun m => m X))).map agg

/-- one step of the accumulation loop `for i in range(n): sums[i] = upd(sums[i], n, preds[i])` -/
def accumStep {β γ : Type} (upd : γ → β → γ) (sums : List γ) (preds : List β) : List γ :=
  (List.range sums.length).filterMap (fun i =>
    (sums[i]?).map (fun s => ((preds[i]?).map (upd s)).getD s))

/-- BOSS / cBOSS / TDE / ROCKET `predict_proba`: `sums = init per instance; for (n, clf) in
enumerate(members): preds = clf.predict(X); for i: sums[i] = upd n sums[i] preds[i]` -/
def accumBatch {α β γ : Type} (members : List (List α → List β)) (upd : Nat → γ → β → γ) (init : γ)
    (X : List α) : List γ :=
  (members.zipIdx.foldl (fun sums (m, n) => accumStep (upd n) sums (m X)) (X.map (fun _ => init)))

/-- the per-instance reading of the same loop -/
def accumOne {α β γ : Type} (fs : List (α → β)) (upd : Nat → γ → β → γ) (init : γ) (x : α) : γ :=
  fs.zipIdx.foldl (fun s (f, n) => upd n s (f x)) init


/-! ## Label prediction with random tie-breaking (BOSS / cBOSS / TDE / CIF / DrCIF / ROCKET `predict`) -/

/-- positions attaining the maximum of a probability row (`np.flatnonzero(prob == prob.max())`) -/
def argmaxSet (p : List Rat) : List Nat :=
  match p with
  | [] => []
  | a :: t =>
    let m := t.foldl (fun acc x => if acc < x then x else acc) a
    (List.range p.length).filter (fun i => p.getD i 0 == m)

/-- `[classes[rng.choice(flatnonzero(prob == prob.max()))] for prob in predict_proba(X)]`: ONE random
stream is consumed instance after instance; `draws i` is the i-th draw of that stream -/
def predictTie (draws : Nat → Nat) (P : List (List Rat)) : List Nat :=
  P.zipIdx.map (fun (p, i) => let t := argmaxSet p; t.getD (draws i % t.length) 0)

/-- first maximum (`np.argmax`), the tie rule of TSF / RISE / STSF / column ensembles -/
def predictFirstMax (P : List (List Rat)) : List Nat := P.map (fun p => (argmaxSet p).headD 0)

/-- rows whose prediction depends on the random stream are masked in the correspondence -/
def maskTies {α : Type} (ties : List Nat) (mask : α) (B : List α) : List α :=
  B.zipIdx.map (fun (b, i) => if ties.contains i then mask else b)


/-! ## Output container of a feature union (Tabularizer follows the input container; repaired in bec276b) -/

inductive OutKind | frame | array
  deriving DecidableEq, Repr

/-- what a member of a feature union returns: always a DataFrame, or — `Tabularizer.transform`,
`if isinstance(X, pd.DataFrame): from_nested_to_2d_array(X) else: from_3d_numpy_to_2d_array(X)` — a
DataFrame for nested input and an ndarray for 3-D array input -/
inductive MemberOut | alwaysFrame | followsInput
  deriving DecidableEq, Repr

def MemberOut.kind (asArr : Bool) : MemberOut → OutKind
  | .alwaysFrame => .frame
  | .followsInput => if asArr then .array else .frame

/-- ORIGINAL `FeatureUnion._hstack` (before /repo bec276b): `pd.concat(Xs, axis=1)` as soon as one output
is a DataFrame (which raises TypeError when another one is an ndarray), `np.hstack` otherwise -/
def unionHstackOriginal (kinds : List OutKind) : Except Err Unit :=
  if kinds.contains .frame && kinds.contains .array then .error .type else .ok ()

def unionAcceptsOriginal (members : List MemberOut) (asArr : Bool) : Except Err Unit :=
  unionHstackOriginal (members.map (MemberOut.kind asArr))

/-- `FeatureUnion._hstack` as it is now: when one output is a DataFrame every output is first turned into
a DataFrame (`X.reset_index(drop=True)` / `pd.DataFrame(X)`), then `pd.concat`; `np.hstack` otherwise -/
def unionHstack (kinds : List OutKind) : Except Err Unit :=
  let kinds' := if kinds.contains .frame then kinds.map (fun _ => OutKind.frame) else kinds
  if kinds'.contains .frame && kinds'.contains .array then .error .type else .ok ()

def unionAccepts (members : List MemberOut) (asArr : Bool) : Except Err Unit :=
  unionHstack (members.map (MemberOut.kind asArr))


/-! ## `pd.concat([A, B], axis=1)` matches rows by index LABEL (feature unions; repaired in bec276b) -/

def lookupLabel {β : Type} (l : Int) : List (Int × β) → Option β
  | [] => none
  | (k, v) :: t => if k == l then some v else lookupLabel l t

def nodupLabels : List Int → Bool
  | [] => true
  | a :: t => !t.contains a && nodupLabels t

/-- equal label lists: the frames are glued side by side in order; otherwise both must have unique
labels (else pandas raises InvalidIndexError) and the result is indexed by A's labels followed by the
labels only B has, a missing side being `none` (NaN) -/
def concat2 {β : Type} (A B : List (Int × β)) : Except Err (List (Option β × Option β)) :=
  let la := A.map (·.1)
  let lb := B.map (·.1)
  if la == lb then .ok (List.zipWith (fun a b => (some a.2, some b.2)) A B)
  else if !(nodupLabels la && nodupLabels lb) then .error .other
  else .ok ((la ++ lb.filter (fun l => !la.contains l)).map (fun l => (lookupLabel l A, lookupLabel l B)))

/-- fresh labels `0..n-1` (a transformer that builds a new DataFrame) -/
def freshFrom {β : Type} (k : Nat) : List β → List (Int × β)
  | [] => []
  | r :: t => ((k : Int), r) :: freshFrom (k + 1) t

def freshLabels {β : Type} (rows : List β) : List (Int × β) := freshFrom 0 rows

/-- ORIGINAL code (before /repo bec276b): `FeatureUnion([("a", A), ("b", B)]).transform(X)` where A returns
a frame with fresh labels and B keeps the labels of X (SeriesToPrimitivesRowTransformer next to
Tabularizer); the outputs go to `pd.concat` as they are -/
def unionFreshKeptOriginal {α β : Type} (fa fb : α → β) (labels : List Int) (X : List α) :
    Except Err (List (Option β × Option β)) :=
  concat2 (freshLabels (X.map fa)) (labels.zip (X.map fb))

/-- `X.reset_index(drop=True)` -/
def resetIndex {β : Type} (F : List (Int × β)) : List (Int × β) := freshLabels (F.map (·.2))

/-- the same union as the code is now: every member output is re-labelled 0..n-1 before `pd.concat` -/
def unionFreshKept {α β : Type} (fa fb : α → β) (labels : List Int) (X : List α) :
    Except Err (List (Option β × Option β)) :=
  concat2 (resetIndex (freshLabels (X.map fa))) (resetIndex (labels.zip (X.map fb)))


/-! ## Cells read by label (DerivativeSlopeTransformer, repaired in 54be566) and integer-typed cells
(SlopeTransformer, repaired in 5cad45f) -/

def lookupCell (labels : List Int) (vals : List Rat) (l : Int) : Except Err Rat :=
  match labels, vals with
  | k :: ls, v :: vs => if k == l then .ok v else lookupCell ls vs l
  | _, _ => .error .key

/-- `((x[i] - x[i-1]) + (x[i+1] - x[i-1]) / 2) / 2` with `x[...]` supplied by `get` -/
def derAt (get : Int → Except Err Rat) (i : Int) : Except Err Rat := do
  let a ← get (i - 1)
  let b ← get i
  let c ← get (i + 1)
  pure (((b - a) + (c - a) / 2) / 2)

/-- ORIGINAL `DerivativeSlopeTransformer.row_wise_get_der.get_der(x)` (before /repo 54be566): `x` is the cell
Series and `x[i]` looks the LABEL `i` up in its index (`for i in range(1, len(x) - 1)`); the first and last
value are repeated.  Still the meaning of `x[i]` on a Series whose labels are `labels`. -/
def getDerByLabel (labels : List Int) (vals : List Rat) : Except Err (List Rat) := do
  let der ← (List.range (vals.length - 2)).mapM (fun (k : Nat) => derAt (lookupCell labels vals) (Int.ofNat k + 1))
  pure ((der.head?.toList ++ der) ++ der.getLast?.toList)

/-- positional access `x.iloc[i]` / `arr[i]` for `0 ≤ i < len` -/
def cellAt (vals : List Rat) (i : Int) : Except Err Rat :=
  if i < 0 then .error .key else match vals[i.toNat]? with | some v => .ok v | none => .error .key

/-- the same formula on positions (what a 3-D array of the same numbers gets) -/
def getDerByPosition (vals : List Rat) : Except Err (List Rat) := do
  let der ← (List.range (vals.length - 2)).mapM (fun (k : Nat) => derAt (cellAt vals) (Int.ofNat k + 1))
  pure ((der.head?.toList ++ der) ++ der.getLast?.toList)

/-- the default index `k, k+1, …` of a cell Series -/
def labelsFrom (k : Int) : Nat → List Int
  | 0 => []
  | n + 1 => k :: labelsFrom (k + 1) n

/-- `get_der` as it is now: `x = np.asarray(x)` first, so `x[i]` reads position `i` whatever index the cell
Series carried (an array is "labelled" 0..n-1) -/
def getDer (_labels : List Int) (vals : List Rat) : Except Err (List Rat) :=
  getDerByLabel (labelsFrom 0 vals.length) vals

/-- `statistics.mean(Y)` hands the mean back in the type of the data: for numpy integers the exact mean is
truncated towards zero (`np.int32(Fraction(3, 2)) == 1`); `SlopeTransformer._get_gradient` uses it -/
def meanAsStored (intTyped : Bool) (ys : List Rat) : Rat :=
  let m := ys.sum / (ys.length : Rat)
  if intTyped then ((if m < 0 then -((-m).floor) else m.floor : Int) : Rat) else m

/-- `SlopeTransformer._get_gradient` as it is now: `Y = [float(y) for y in Y]` before `statistics.mean(Y)`,
so the data handed to `statistics.mean` are floats whatever dtype stored them -/
def slopeMean (_intTyped : Bool) (ys : List Rat) : Rat := meanAsStored false ys

/-! ## Pipelines -/

/-- `Pipeline([...steps..., final])` at apply time: `Xt = step.transform(Xt)` in order, then the
final estimator's method -/
def pipeline {α β : Type} (steps : List (List α → List α)) (final : List α → List β) (X : List α) : List β :=
  final (steps.foldl (fun acc t => t acc) X)

/-! ## Row-wise maps -/

/-- a batch function that maps every instance on its own -/
def IsRowWise {α β : Type} (F : List α → List β) : Prop := ∃ f : α → β, ∀ X, F X = X.map f

/-! ## Containers and `check_X` -/

abbrev Inst := List (List Rat)

/-- what a caller can hand to a panel estimator -/
inductive XIn
  | nested (rows : List Inst)      -- nested DataFrame: one row per instance, one cell per column
  | arr3 (rows : List Inst)        -- 3-D array (instances, columns, time points)
  | arr2                           -- an array that is not 3-D
  | flat (n : Nat)                 -- a DataFrame with primitives in its cells, `n` rows
  | other                          -- anything else
  deriving Repr

def XIn.instances : XIn → List Inst
  | .nested r => r
  | .arr3 r => r
  | _ => []

/-- the same container holding the instances at positions `idx` (`X.iloc[idx]`, `X[idx]`) -/
def XIn.select (idx : List Nat) : XIn → XIn
  | .nested r => .nested (C16.select idx r)
  | .arr3 r => .arr3 (C16.select idx r)
  | x => x

/-- `X.shape[1]` -/
def nColumns (rows : List Inst) : Nat := (rows.headD []).length

/-- equal number of columns everywhere and equal length of all series: what a 3-D array can hold -/
def rectangular (rows : List Inst) : Bool :=
  let c := nColumns rows
  let l := ((rows.headD []).headD []).length
  rows.all (fun inst => inst.length == c && inst.all (fun s => s.length == l))

structure CheckCfg where
  univariate : Bool := false
  toNumpy : Bool := false
  toPandas : Bool := false
  minInstances : Nat := 1
  minColumns : Nat := 1

/-- `check_X`: the guards in the order of the code; every rejection is a `ValueError`.  The result
keeps the caller's instances and only changes the container tag. -/
def checkX (cfg : CheckCfg) (X : XIn) : Except Err XIn :=
  if cfg.toPandas && cfg.toNumpy then .error .value else
  match X with
  | .other => .error .value
  | .arr2 => .error .value
  | .flat _ => .error .value      -- too few rows, or "must be a nested DataFrame": ValueError either way
  | .arr3 rows =>
      if nColumns rows < cfg.minColumns then .error .value
      else if cfg.univariate && nColumns rows > 1 then .error .value
      else if rows.length < cfg.minInstances then .error .value
      else .ok (if cfg.toPandas then .nested rows else .arr3 rows)
  | .nested rows =>
      if nColumns rows < cfg.minColumns then .error .value
      else if cfg.univariate && nColumns rows > 1 then .error .value
      else if rows.length < cfg.minInstances then .error .value
      else if cfg.toNumpy then (if rectangular rows then .ok (.arr3 rows) else .error .value)
      else .ok (.nested rows)

/-- a fitted estimator's apply method: validate / coerce, then the row loop -/
def applyFitted {β : Type} (cfg : CheckCfg) (f : Inst → β) (X : XIn) : Except Err (List β) :=
  (checkX cfg X).map (fun X' => X'.instances.map f)

/-- `fit`: validate / coerce, then learn a per-instance map from the instances and the targets -/
def fitThenApply {β υ : Type} (cfgFit cfgApply : CheckCfg) (learn : List Inst → υ → (Inst → β)) (Xfit : XIn) (y : υ)
    (X : XIn) : Except Err (List β) := do
  let Xf ← checkX cfgFit Xfit
  applyFitted cfgApply (learn Xf.instances y) X

/-! ## Shapes read off the source by the static classifier (harness `ast` walk) -/

inductive Shape
  | rows (k : Nat)                  -- loop / apply / comprehension / axis≥1 vectorised op over instances
  | guarded (s : Shape)             -- a batch statistic used only to decide whether to raise
  | comp (s t : Shape)              -- `t` applied to the output of `s` (delegation, pipelines)
  | agg (k : Nat) (s t : Shape)     -- per-row combination of the outputs of two members
  | stat (k : Nat)                  -- each output row also depends on a statistic of the whole batch
  | sortInst (k : Nat)              -- instances are processed / returned in sorted order
  | dictByValue (k : Nat)           -- output rebuilt from a dict keyed by instance values
  | unknown (k : Nat)               -- anything else that mixes the instance axis
  deriving Repr

def Shape.rowWise : Shape → Bool
  | .rows _ => true
  | .guarded s => s.rowWise
  | .comp s t => s.rowWise && t.rowWise
  | .agg _ s t => s.rowWise && t.rowWise
  | _ => false

/-- interpretation of the leaves -/
structure Env (V : Type) where
  f : Nat → V → V                   -- per-instance functions
  g : Nat → V → V → V               -- member combination
  st : Nat → List V → V → V         -- row combined with the whole batch
  key : Nat → V → Nat               -- sort / dict key
  h : Nat → List V → List V         -- arbitrary batch function

/-- keep the first row of every key (a dict keyed by value, read back in insertion order) -/
def dedupBy {V : Type} (key : V → Nat) : List Nat → List V → List V
  | _, [] => []
  | seen, x :: l => if seen.contains (key x) then dedupBy key seen l else x :: dedupBy key (key x :: seen) l

def Shape.denote {V : Type} (env : Env V) : Shape → List V → List V
  | .rows k, X => X.map (env.f k)
  | .guarded s, X => s.denote env X
  | .comp s t, X => t.denote env (s.denote env X)
  | .agg k s t, X => List.zipWith (env.g k) (s.denote env X) (t.denote env X)
  | .stat k, X => X.map (env.st k X)
  | .sortInst k, X => (isortBy (fun a b => decide (env.key k a ≤ env.key k b)) X).map (env.f k)
  | .dictByValue k, X => (dedupBy (env.key k) [] X).map (env.f k)
  | .unknown k, X => env.h k X

end SkVerif.C16
