/-
C12: what "applying an estimator is pure" means for the executable models.

* `Machine`: any estimator seen from the outside once it is fitted: a state, what of that state
  a later apply-type call can depend on (`observe`), and `apply : state → method → argument →
  state × result`.  The code CAN write to `self` inside an apply-type method (the model allows
  it: `apply` returns a new state); `WellBehaved` is the one-step condition "such writes are not
  observable by any later call".  The global statements (any interleaving, any repetition) are
  proved from that one-step condition in Props/C12.
* the forecaster state machine of Model/Forecaster.lean as such a machine (`observe` = everything
  except the stored horizon; `predict(fh)` may store the horizon).
* a small transformer machine `TCore` (fit / transform / inverse_transform as functions of the
  fitted state) and its `Machine`.
* `Effect`: how an apply-type method treats the CALLER's object.  `copies` = works on a copy / a
  new object (what the property asks); `returnsArgMutated` = works on the caller's object and
  returns it (`HampelFilter.transform`: `Z.iloc[j] = …` on the object `check_series` handed
  back); `writesResultIntoArg` = assigns the result column-wise into the caller's frame
  (`Imputer(method="random" | "drift" | "forecaster")` and `HampelFilter` on a DataFrame: `Z[col] = …`); `replacesIndex` = `y.index = …` on
  the caller's Series (`_coerce_int_to_range_index` in the statsmodels adapters' `fit`).
  `effectOf` is the table of the places where /repo's code uses one of the latter: it is EMPTY since the
  fix commits b0033b3 / c56874f / 6cfe0ff; `effectOfOriginal` records what it was.
Import-free apart from the shared models.
-/
import SkVerif.Model.Cores
import SkVerif.Model.SeriesTransform
namespace SkVerif.P12
open SkVerif SkVerif.Fc

-- ---------------------------------------------------------------------------------------------
-- generic machine

structure Machine (σ ω μ α ρ : Type) where
  observe : σ → ω
  apply : σ → μ → α → σ × ρ

namespace Machine
variable {σ ω μ α ρ : Type}

/-- one-step condition: an apply-type call does not change the observation, and its result is a
function of the observation (and of the call) only -/
structure WellBehaved (M : Machine σ ω μ α ρ) : Prop where
  keeps : ∀ s m a, M.observe (M.apply s m a).1 = M.observe s
  reads : ∀ s s' m a, M.observe s = M.observe s' → (M.apply s m a).2 = (M.apply s' m a).2

/-- a sequence of apply-type calls on one object; results in order -/
def runCalls (M : Machine σ ω μ α ρ) : σ → List (μ × α) → σ × List ρ
  | s, [] => (s, [])
  | s, c :: cs =>
    let r := M.apply s c.1 c.2
    let rs := runCalls M r.1 cs
    (rs.1, r.2 :: rs.2)

end Machine

-- ---------------------------------------------------------------------------------------------
-- the forecaster machine

/-- everything a later `predict` can depend on, except the stored horizon -/
structure Observation where
  fitted : Bool
  y : Series
  cutoff : Option Int
  wlen : Int
  deriving DecidableEq, Repr

def observe (s : FState) : Observation := ⟨s.fitted, s.y, s.cutoff, s.wlen⟩

/-- a sequence of `predict` calls (each with an explicit horizon or with none) -/
def predicts (core : Core) (mode : FhMode) : FState → List (Option FhArg) → FState × List Out
  | s, [] => (s, [])
  | s, a :: as =>
    let r := predict core mode s a
    let rs := predicts core mode r.1 as
    (rs.1, r.2 :: rs.2)

/-- the training windows `update_predict(y, cv)` feeds one after the other (positions into `y`) -/
def upWindows (s : FState) (y : Series) (cv : Option CvSpec) : List (List Int) :=
  match cvSpecOf s cv with
  | .error _ => []
  | .ok c =>
    match Split.windowSplit c.kind y.length c.fh c.wl c.step c.iw c.sww with
    | .error _ => []
    | .ok folds => folds.map (·.1)

/-- `predict(fh)` with an explicit horizon, optional-horizon mixin, as a `Machine` -/
def fcMachine (core : Core) : Machine FState Observation Unit FhArg Out where
  observe := observe
  apply s _ a := predict core .optional s (some a)

/-- the same with the required-horizon mixin and any argument: the observation is the whole state -/
def fcMachineReq (core : Core) : Machine FState FState Unit (Option FhArg) Out where
  observe := id
  apply s _ a := predict core .required s a

-- ---------------------------------------------------------------------------------------------
-- a small transformer machine

inductive TErr | notFitted | value | type | other
  deriving DecidableEq, Repr

/-- `inspect` = reading a fitted attribute out (a tuner's cv_results_ / best_params_ / best_score_) -/
inductive Method | transform | inverse | predict | predictProba | inspect
  deriving DecidableEq, Repr

/-- a concrete transformer / classifier / regressor: `P` parameters (random_state included, n_jobs
not: scheduling is not a parameter of the function computed), `D` training data, `σ` fitted
state, `α` argument, `ρ` result -/
structure TCore (P D σ α ρ : Type) where
  fit : P → D → Except TErr σ
  app : σ → Method → α → Except TErr ρ

structure TState (P σ : Type) where
  params : P
  fitted : Option σ := none

inductive TOp (D α : Type)
  | fit (d : D)
  | call (m : Method) (a : α)

inductive TOut (ρ : Type)
  | done
  | res (r : ρ)
  | err (e : TErr)

def tstep {P D σ α ρ : Type} (core : TCore P D σ α ρ) (s : TState P σ) : TOp D α → TState P σ × TOut ρ
  | .fit d =>
    match core.fit s.params d with
    | .ok st => ({ s with fitted := some st }, .done)
    | .error e => (s, .err e)
  | .call m a =>
    match s.fitted with
    | none => (s, .err .notFitted)
    | some st =>
      match core.app st m a with
      | .ok r => (s, .res r)
      | .error e => (s, .err e)

def trun {P D σ α ρ : Type} (core : TCore P D σ α ρ) : TState P σ → List (TOp D α) → TState P σ × List (TOut ρ)
  | s, [] => (s, [])
  | s, op :: ops =>
    let r := tstep core s op
    let rs := trun core r.1 ops
    (rs.1, r.2 :: rs.2)

/-- apply-type calls of the transformer machine as a `Machine` (observation = the whole state) -/
def tMachine {P D σ α ρ : Type} (core : TCore P D σ α ρ) :
    Machine (TState P σ) (TState P σ) Method α (TOut ρ) where
  observe := id
  apply s m a := tstep core s (.call m a)

/-- the aimed mutation "cache the result on `self` inside `transform`": the first result is kept and
handed out again whatever the argument -/
def cachingMachine {α ρ : Type} (f : α → ρ) : Machine (Option ρ) Unit Unit α ρ where
  observe _ := ()
  apply s _ a :=
    match s with
    | some r => (some r, r)
    | none => (some (f a), f a)

-- ---------------------------------------------------------------------------------------------
-- the caller's object

inductive Effect | copies | returnsArgMutated | writesResultIntoArg | replacesIndex
  deriving DecidableEq, Repr

/-- the components of a pandas argument the snapshot distinguishes -/
structure ArgSnap (V : Type) where
  values : V
  labels : List Int
  rangeIndex : Bool          -- the index object is a RangeIndex (else Int64Index)
  deriving DecidableEq, Repr

/-- the caller's object after the call, given what the call returned (`result`) -/
def callerAfter {V : Type} (e : Effect) (arg : ArgSnap V) (result : V) : ArgSnap V :=
  match e with
  | .copies => arg
  | .returnsArgMutated => { arg with values := result }
  | .writesResultIntoArg => { arg with values := result }
  | .replacesIndex => { arg with rangeIndex := true }

/-- where /repo's code does NOT work on a copy (estimator, method, container).  The table is EMPTY:
the three groups of sites that used to be listed here (HampelFilter.transform, Imputer(method =
random | drift | forecaster).transform on a DataFrame, the statsmodels adapters' fit) were repaired by
/repo commits b0033b3, c56874f, 6cfe0ff and now work on copies. -/
def effectOf (_estimator _method _container : String) : Effect := .copies

/-- ALL the arguments of one call (`fit(y, X, fh)`, `predict(fh, X)`, `fit(X, y)`, `transform(Z, X)`): each with the
name of its container and its snapshot; the caller's objects after the call.  An exogenous frame handed to a
forecaster, or the labels handed to a panel estimator, is the caller's data just as the first argument is. -/
def callerAfterAll {V : Type} (estimator method : String) (args : List (String × ArgSnap V)) (result : V) :
    List (String × ArgSnap V) :=
  args.map (fun a => (a.1, callerAfter (effectOf estimator method a.1) a.2 result))

/-- the same under an arbitrary table of effects (used to show that a site that writes through ANY of the
arguments is visible in the comparison) -/
def callerAfterAllWith {V : Type} (tbl : String → Effect) (args : List (String × ArgSnap V)) (result : V) :
    List (String × ArgSnap V) :=
  args.map (fun a => (a.1, callerAfter (tbl a.1) a.2 result))

/-- the table as it stood for the ORIGINAL code (before b0033b3 / c56874f / 6cfe0ff); kept only so that
the historical negation (`Props/C12: original_code_hampel_mutated_caller`) stays machine-checked -/
def effectOfOriginal (estimator method container : String) : Effect :=
  if (estimator == "HampelFilter" || estimator == "HampelFilter:bool")
      && (method == "transform" || method == "fit_transform") then
    (if container == "Series" then .returnsArgMutated else .writesResultIntoArg)
  else if (estimator == "Imputer:random" || estimator == "Imputer:drift" || estimator == "Imputer:forecaster")
      && (method == "transform" || method == "fit_transform")
      && container == "DataFrame" then .writesResultIntoArg
  else if (estimator == "ExponentialSmoothing" || estimator == "ThetaForecaster" || estimator == "AutoETS")
      && method == "fit" && container == "Series" then .replacesIndex
  else .copies

/-- `HampelFilter(window_length, n_sigma, k).transform(z)` on a Series: the value returned and the
caller's series afterwards.  `transform` copies its input first (`Z = Z.copy()`), so `_hampel_filter`'s
in-place writes land in the copy: the caller's series is the input. -/
def hampelInPlace (cfg : ST.HampelCfg) (z : ST.Series) : Except ST.Err (ST.Series × ST.Series) :=
  (ST.hampel cfg z).map (fun r => (r, z))

/-- the ORIGINAL code (before b0033b3): the filter ran on the caller's object and returned it -/
def hampelInPlaceOriginal (cfg : ST.HampelCfg) (z : ST.Series) : Except ST.Err (ST.Series × ST.Series) :=
  (ST.hampel cfg z).map (fun r => (r, r))

end SkVerif.P12
