/-
Python string primitives used by sktime/utils/data_io.py, over `Str = List Char` (ASCII part of
`str.strip`, `str.lower`; `split`, `join`, `replace("?", "NaN")`, `startswith`, `in`, file lines).
Import-free.  The definitions are structurally recursive (so that theorems go by induction); for each
one whose recursion depth would be the length of a whole file, a tail-recursive twin is given together
with a PROVED `@[csimp]` equation, so the driver executes the twin (no stack overflow on 1.6 MB files)
while every theorem is about the simple definition.
-/
namespace SkVerif.TsFile

abbrev Str := List Char

/-! ### Python string primitives (ASCII) -/

def isSpace (c : Char) : Bool :=
  c = ' ' || c = '\t' || c = '\n' || c = '\r' || c = '\x0b' || c = '\x0c'

def lowerChar : Char → Char
  | 'A' => 'a' | 'B' => 'b' | 'C' => 'c' | 'D' => 'd' | 'E' => 'e' | 'F' => 'f' | 'G' => 'g'
  | 'H' => 'h' | 'I' => 'i' | 'J' => 'j' | 'K' => 'k' | 'L' => 'l' | 'M' => 'm' | 'N' => 'n'
  | 'O' => 'o' | 'P' => 'p' | 'Q' => 'q' | 'R' => 'r' | 'S' => 's' | 'T' => 't' | 'U' => 'u'
  | 'V' => 'v' | 'W' => 'w' | 'X' => 'x' | 'Y' => 'y' | 'Z' => 'z' | c => c

/-- `s.lower()` -/
def lower (s : Str) : Str := s.map lowerChar

/-- `s.lstrip()` -/
def lstrip : Str → Str
  | [] => []
  | c :: cs => if isSpace c then lstrip cs else c :: cs

/-- `s.rstrip()` -/
def rstrip : Str → Str
  | [] => []
  | c :: cs => if rstrip cs = [] ∧ isSpace c then [] else c :: rstrip cs

/-- `s.strip()` -/
def strip (s : Str) : Str := rstrip (lstrip s)

/-- prepend a character to the first piece -/
def consHead (c : Char) : List Str → List Str
  | [] => [[c]]
  | h :: t => (c :: h) :: t

/-- `s.split(sep)` for a one-character separator (never returns the empty list) -/
def splitOn (sep : Char) : Str → List Str
  | [] => [[]]
  | c :: cs => if c = sep then [] :: splitOn sep cs else consHead c (splitOn sep cs)

/-- `sep.join(parts)` -/
def join (sep : Str) : List Str → Str
  | [] => []
  | [x] => x
  | x :: y :: r => x ++ sep ++ join sep (y :: r)

/-- `s.replace("?", "NaN")` -/
def replaceQ : Str → Str
  | [] => []
  | c :: cs => if c = '?' then 'N' :: 'a' :: 'N' :: replaceQ cs else c :: replaceQ cs

/-- `s.startswith(p)` -/
def startsWith (p s : Str) : Bool := p.isPrefixOf s

/-- `p in s` -/
def contains (p : Str) : Str → Bool
  | [] => p.isEmpty
  | c :: cs => p.isPrefixOf (c :: cs) || contains p cs

/-- text of a file given its lines (each terminated by a newline) -/
def unlines : List Str → Str
  | [] => []
  | l :: ls => l ++ '\n' :: unlines ls


/-! ### tail-recursive twins (compiler only; proved equal) -/

def splitOnGo (sep : Char) : Str → Str → List Str → List Str
  | [], cur, acc => (cur.reverse :: acc).reverse
  | c :: cs, cur, acc =>
    if c = sep then splitOnGo sep cs [] (cur.reverse :: acc) else splitOnGo sep cs (c :: cur) acc
def splitOnTR (sep : Char) (s : Str) : List Str := splitOnGo sep s [] []
def prependHead (p : Str) : List Str → List Str
  | [] => [p]
  | h :: t => (p ++ h) :: t

theorem splitOn_ne_nil (sep : Char) (s : Str) : splitOn sep s ≠ [] := by
  induction s with
  | nil => simp [splitOn]
  | cons c cs ih =>
    simp only [splitOn]; split
    · simp
    · cases h : splitOn sep cs <;> simp [consHead]

theorem splitOnGo_eq (sep : Char) (s cur : Str) (acc : List Str) :
    splitOnGo sep s cur acc = acc.reverse ++ prependHead cur.reverse (splitOn sep s) := by
  induction s generalizing cur acc with
  | nil => simp [splitOnGo, splitOn, prependHead]
  | cons c cs ih =>
    simp only [splitOnGo, splitOn]
    split
    · rw [ih]
      cases h : splitOn sep cs with
      | nil => exact absurd h (splitOn_ne_nil sep cs)
      | cons a b => simp [prependHead]
    · rw [ih]
      cases h : splitOn sep cs with
      | nil => exact absurd h (splitOn_ne_nil sep cs)
      | cons a b => simp [prependHead, consHead]

@[csimp] theorem splitOn_eq_TR : @splitOn = @splitOnTR := by
  funext sep s
  simp only [splitOnTR, splitOnGo_eq]
  cases h : splitOn sep s with
  | nil => exact absurd h (splitOn_ne_nil sep s)
  | cons a b => simp [prependHead]

def replaceQTR (s : Str) : Str := s.flatMap (fun c => if c = '?' then ['N', 'a', 'N'] else [c])
@[csimp] theorem replaceQ_eq_TR : @replaceQ = @replaceQTR := by
  funext s
  induction s with
  | nil => simp [replaceQ, replaceQTR]
  | cons c cs ih =>
    simp only [replaceQ, replaceQTR, List.flatMap_cons] at *
    split <;> simp [ih]

def unlinesTR (ls : List Str) : Str := ls.flatMap (fun l => l ++ ['\n'])
@[csimp] theorem unlines_eq_TR : @unlines = @unlinesTR := by
  funext ls
  induction ls with
  | nil => simp [unlines, unlinesTR]
  | cons l ls ih => simp [unlines, unlinesTR, List.flatMap_cons] at *; exact ih

def rstripTR (s : Str) : Str := (s.reverse.dropWhile isSpace).reverse

theorem dropWhile_snoc (p : Char → Bool) (l : Str) (c : Char) :
    (l ++ [c]).dropWhile p = if l.dropWhile p = [] then (if p c then [] else [c]) else l.dropWhile p ++ [c] := by
  induction l with
  | nil => simp [List.dropWhile]; split <;> simp_all
  | cons a l ih =>
    by_cases hp : p a = true
    · simp only [List.cons_append, List.dropWhile_cons, hp, if_true]; exact ih
    · simp [hp]

@[csimp] theorem rstrip_eq_TR : @rstrip = @rstripTR := by
  funext s
  induction s with
  | nil => simp [rstrip, rstripTR]
  | cons c cs ih =>
    simp only [rstrip, rstripTR, List.reverse_cons, dropWhile_snoc] at *
    rw [ih]
    by_cases h : List.dropWhile isSpace cs.reverse = []
    · simp [h]; split <;> simp_all
    · simp [h]

/-! ### file lines -/

/-- lines of a text file as Python's file iteration yields them (without the terminator):
a final piece after the last newline is a line only if it is non-empty. -/
def dropLastEmpty : List Str → List Str
  | [] => []
  | [x] => if x = [] then [] else [x]
  | x :: y :: r => x :: dropLastEmpty (y :: r)

def lines (text : Str) : List Str := dropLastEmpty (splitOn '\n' text)

end SkVerif.TsFile
