/-
Model of sktime's series-to-series transformers that offer `inverse_transform`, and of the
positional window access inside `HampelFilter` (property C13).  Import-free.

Follows the code's algorithm (mutation → returned state; a call that raises half-way returns the
state as the code leaves it, plus the error):

* `sktime/utils/validation/series.py`        `check_series` / `check_time_index`  → `checkSeries`
* `transformations/series/detrend/_deseasonalize.py`
      `Deseasonalizer` / `ConditionalDeseasonalizer` `fit`, `_align_seasonal` (`shift`, `np.roll`,
      `np.resize`), `_transform`, `_inverse_transform`, `update`               → `Des`, `des*`
* `transformations/series/detrend/_detrend.py` `Detrender` around a clone of
      `PolynomialTrendForecaster` (`forecasting/trend.py`, `forecasting/base/_sktime.py`:
      `_set_y_X`, `_update_y_X` = `combine_first`, `update` refits through `self.fh`)  → `Det`, `det*`
* `transformations/series/boxcox.py` (`BoxCoxTransformer`, `LogTransformer`) and
  `transformations/series/adapt.py` (`TabularToSeriesAdaptor`): the library function
      (scipy `boxcox`/`inv_boxcox`, `np.log`/`np.exp`, the fitted sklearn transformer) is an
      UNINTERPRETED parameter `f : List Val → List Val` carried by the operation      → `Col`, `col*`
* `transformations/series/compose.py` `OptionalPassthrough`                     → `TState.pass`
* `transformations/base.py` `BaseTransformer.fit` / `fit_transform`             → `Op.fitTransform`
* `transformations/series/outlier_detection.py` `_hampel_filter` (windows read and results
      written by position, each window seeing the previous writes)              → `hampel`

Values are `Option Rat`: `none` = NaN / ±inf (anything non-finite).  The seasonal component
(statsmodels), the result of the seasonality test and whether the library's own fitting routine
succeeded are data supplied with the `fit` operation (`FitData`).
-/
namespace SkVerif.ST

inductive Err | value | type | notimpl | notfitted | attr | key | other | nodata
  deriving DecidableEq, Repr

abbrev Val := Option Rat
abbrev Series := List (Int × Val)

def labels (z : Series) : List Int := z.map (·.1)
def values (z : Series) : List Val := z.map (·.2)

/-- What the caller passes as `Z`. -/
inductive Input
  | series (z : Series)     -- pd.Series with an integer (Int64 / Range) index
  | notSeries               -- a list, a scalar, ...            → TypeError
  | floatIndex              -- pd.Series with a Float64Index    → NotImplementedError

/-- `index.is_monotonic` (non-strict) -/
def sortedLE : List Int → Bool
  | a :: b :: l => decide (a ≤ b) && sortedLE (b :: l)
  | _ => true

/-- `check_series(Z, allow_empty=…)` (+ `check_time_index`) -/
def checkSeries (allowEmpty : Bool) : Input → Except Err Series
  | .notSeries => .error .type
  | .floatIndex => .error .notimpl
  | .series z =>
    if !sortedLE (labels z) then .error .value
    else if z.isEmpty && !allowEmpty then .error .value
    else .ok z

-- ---------------------------------------------------------------------------------------------
-- element arithmetic (`none` = non-finite)
def vsub (a : Val) (s : Rat) : Val := a.map (· - s)
def vadd (a : Val) (s : Rat) : Val := a.map (· + s)
def vmul (a : Val) (s : Rat) : Val := a.map (· * s)
def vdiv (a : Val) (s : Rat) : Val := if s = 0 then none else a.map (· / s)

/-- result of a state-changing call / of an apply-type call -/
inductive Out
  | ok                      -- `fit` / `update` returned self
  | err (e : Err)
  | ser (z : Series)
  deriving DecidableEq

/-- data that come from library code at `fit` time -/
structure FitData where
  seasonal : Option (List Rat) := none   -- `seasonal_decompose(z, period=sp, model=…).seasonal[:sp]`
  isSeasonal : Option Bool := none       -- result of the seasonality test (`none`: it raised / non-bool)
  fitErr : Option Err := none            -- the library's own fitting routine raised (Box-Cox optimiser, sklearn fit)

-- ---------------------------------------------------------------------------------------------
-- Deseasonalizer / ConditionalDeseasonalizer

structure Des where
  sp : Nat
  mult : Bool                           -- model="multiplicative"
  cond : Bool                           -- ConditionalDeseasonalizer
  y0 : Option Int := none               -- `self._y_index[0]`
  seasonal : Option (List Rat) := none  -- `self.seasonal_`
  fitted : Bool := false

/-- `np.roll(a, shift)` for `shift ≥ 0`: `concatenate((a[-shift:], a[:-shift]))` after `shift %= n` -/
def roll (a : List Rat) (shift : Nat) : List Rat :=
  if a.length = 0 then a
  else a.drop (a.length - shift % a.length) ++ a.take (a.length - shift % a.length)

def repeatList {α} : Nat → List α → List α
  | 0, _ => []
  | k + 1, a => a ++ repeatList k a

/-- `np.resize(a, m)`: `concatenate((a,) * ceil(m / n))[:m]` -/
def resize (a : List Rat) (m : Nat) : List Rat :=
  if a.length = 0 then [] else (repeatList ((m + a.length - 1) / a.length) a).take m

/-- `_align_seasonal(y)`: `shift = -(y.index[0] - self._y_index[0]) % self.sp`;
    `np.resize(np.roll(self.seasonal_, shift=shift), y.shape[0])` -/
def alignSeasonal (sp : Nat) (seasonal : List Rat) (y0 : Int) (z : Series) : List Rat :=
  match z with
  | [] => []
  | (t, _) :: _ =>
    let shift := ((-(t - y0)) % (sp : Int)).toNat
    resize (roll seasonal shift) z.length

/-- `_transform` / `_inverse_transform`: `y - seasonal`, `y / seasonal`, `y + seasonal`, `y * seasonal` -/
def desOp (mult inv : Bool) : Val → Rat → Val :=
  match mult, inv with
  | false, false => vsub
  | false, true => vadd
  | true, false => vdiv
  | true, true => vmul

def desApply (mult inv : Bool) (z : Series) (s : List Rat) : Series :=
  List.zipWith (fun (p : Int × Val) c => (p.1, desOp mult inv p.2 c)) z s

def allFinite (z : Series) : Bool := (values z).all (·.isSome)
def allPositive (z : Series) : Bool :=
  (values z).all (fun v => match v with | some x => decide (0 < x) | none => false)

/-- the checks `statsmodels.seasonal_decompose` performs before computing anything -/
def decompOk (sp : Nat) (mult : Bool) (z : Series) : Bool :=
  allFinite z && (!mult || allPositive z) && decide (2 * sp ≤ z.length)

/-- the decomposition step of `fit`; `_set_y_index` happens only AFTER it succeeded
(repo commit 1ad9b8f), so a failing fit leaves the object untouched -/
def desDecompose (s : Des) (z : Series) (d : FitData) : Des × Out :=
  if !decompOk s.sp s.mult z then (s, .err .value)
  else match d.seasonal with
    | none => (s, .err .nodata)
    | some seas => ({ s with seasonal := some seas, y0 := (labels z).head?, fitted := true }, .ok)

/-- `fit` -/
def desFit (s : Des) (inp : Input) (d : FitData) : Des × Out :=
  match checkSeries false inp with
  | .error e => (s, .err e)
  | .ok z =>
    if s.cond then
      match d.isSeasonal with
      | none => (s, .err .value)
      | some true => desDecompose s z d
      | some false =>
        ({ s with seasonal := some (List.replicate s.sp (if s.mult then 1 else 0)),
                  y0 := (labels z).head?, fitted := true }, .ok)
    else desDecompose s z d

/-- `update`: validates the batch; the phase reference `_y_index` stays at the training start
(repo commit 1ad9b8f) -/
def desUpdate (s : Des) (inp : Input) : Des × Out :=
  if !s.fitted then (s, .err .notfitted)
  else match checkSeries false inp with
    | .error e => (s, .err e)
    | .ok _ => (s, .ok)

def desTransform (s : Des) (inv : Bool) (inp : Input) : Des × Out :=
  if !s.fitted then (s, .err .notfitted)
  else match checkSeries false inp with
    | .error e => (s, .err e)
    | .ok z =>
      match s.seasonal, s.y0 with
      | some seas, some y0 => (s, .ser (desApply s.mult inv z (alignSeasonal s.sp seas y0 z)))
      | _, _ => (s, .err .attr)

-- ---------------------------------------------------------------------------------------------
-- Detrender around a clone of PolynomialTrendForecaster

/-- a regression on positions: `reg degree trainingValues x` = prediction at integer position `x`
of the model fitted on `(0, v₀), (1, v₁), …`.  Abstract in the theorems; `polyReg` in the driver. -/
abbrev Reg := Nat → List Rat → Int → Rat

def sumRat (l : List Rat) : Rat := l.foldl (· + ·) 0

/-- least squares polynomial of degree 0 / 1 on `x = 0..n-1` (sklearn `LinearRegression` on
`PolynomialFeatures`; for a single point the minimum-norm solution has slope 0, which is what
`den = 0 → b = 0` gives because `x / 0 = 0` in `Rat`) -/
def polyReg : Reg := fun degree ys x =>
  let n : Rat := (ys.length : Nat)
  let sy := sumRat ys
  if degree = 0 then sy / n
  else
    let xs : List Rat := (List.range ys.length).map (fun (i : Nat) => ((i : Nat) : Rat))
    let sx := sumRat xs
    let sxx := sumRat (xs.map (fun x => x * x))
    let sxy := sumRat (List.zipWith (· * ·) xs ys)
    let den := n * sxx - sx * sx
    let b := (n * sxy - sx * sy) / den
    let a := (sy - b * sx) / n
    a + b * (x : Rat)

/-- the fitted clone `forecaster_` -/
structure Fc where
  y : Series                    -- `_y`
  fhSet : Bool                  -- `_fh is not None`
  train : Option (List Rat)     -- values the regression pipeline was last fitted on (`none`: re-created, not fitted)
  origin : Option Int           -- `_fit_start`: first time point of the data seen in the last `fit` = origin of the
                                --   regression's time axis (repo commit ea521a6; before it `_y.index[0]` was read at predict time)

structure Det where
  degree : Nat
  fc : Option Fc := none        -- `forecaster_`
  fitted : Bool := false

/-- `n_timepoints = last - first + 1` must equal `len(y)` and `y` must be NaN-free, else sklearn raises -/
def regFitOk (y : Series) : Bool :=
  (match y.head?, y.getLast? with
    | some a, some b => decide (b.1 - a.1 + 1 = (y.length : Int))
    | _, _ => false) && allFinite y

def someVals (y : Series) : List Rat := (values y).map (fun v => v.getD 0)

/-- insert one observation of the new batch into the remembered series (`combine_first`:
the new value wins unless it is NaN) -/
def insertObs (t : Int) (v : Val) : Series → Series
  | [] => [(t, v)]
  | (t', v') :: r =>
    if t < t' then (t, v) :: (t', v') :: r
    else if t = t' then (t', v.orElse (fun _ => v')) :: r
    else (t', v') :: insertObs t v r

/-- `new.combine_first(old)` for batches with strictly increasing labels -/
def combineFirst (new old : Series) : Series := new.foldl (fun acc p => insertObs p.1 p.2 acc) old

/-- first label of a series (`y.index[0]`) -/
def firstLabel (y : Series) : Option Int := (labels y).head?

def detFit (s : Det) (inp : Input) : Det × Out :=
  match checkSeries false inp with
  | .error e => (s, .err e)
  | .ok z =>
    if !regFitOk z then (s, .err .value)
    else ({ s with fc := some ⟨z, false, some (someVals z), firstLabel z⟩, fitted := true }, .ok)

/-- `forecaster_.predict(ForecastingHorizon(z.index, is_relative=False))` then `z ∓ z_pred`.
The horizon is stored (`_set_fh`) before `_predict` can fail. -/
def detApply (reg : Reg) (s : Det) (inv : Bool) (inp : Input) : Det × Out :=
  if !s.fitted then (s, .err .notfitted)
  else match checkSeries false inp with
    | .error e => (s, .err e)
    | .ok z =>
      match s.fc with
      | none => (s, .err .attr)
      | some fc =>
        if !decide (labels z).Nodup then (s, .err .value)
        else
          let s' := { s with fc := some { fc with fhSet := true } }
          match fc.train, fc.origin with
          | some tv, some o =>
            (s', .ser (z.map (fun p =>
              (p.1, (if inv then vadd else vsub) p.2 (reg s.degree tv (p.1 - o))))))
          | _, _ => (s', .err .notfitted)

/-- `Detrender.update`: `check_is_fitted()` first (repo commit b2363ba), then
`forecaster_.update(z, update_params=…)`: `_update_y_X`, then `self.fit(self._y, self._X, self.fh)`
where `self.fh` raises if no horizon was ever set; the refit re-creates the pipeline and moves the origin of
the time axis to the first remembered time point before fitting the pipeline.  Without a refit the origin stays. -/
def detUpdate (s : Det) (inp : Input) (updParams : Bool) : Det × Out :=
  if !s.fitted then (s, .err .notfitted)
  else match checkSeries true inp with
  | .error e => (s, .err e)
  | .ok z =>
    match s.fc with
    | none => (s, .err .attr)
    | some fc =>
      let y' := if z.isEmpty then fc.y else combineFirst z fc.y
      if !updParams then ({ s with fc := some { fc with y := y' } }, .ok)
      else if !fc.fhSet then ({ s with fc := some { fc with y := y' } }, .err .value)
      else if regFitOk y' then
        ({ s with fc := some { fc with y := y', train := some (someVals y'), origin := firstLabel y' } }, .ok)
      else ({ s with fc := some { fc with y := y', train := none, origin := firstLabel y' } }, .err .value)

-- ---------------------------------------------------------------------------------------------
-- column-wise transformers around an uninterpreted library function

inductive ColKind
  | boxcox | log
  | adaptor (hasInv : Bool)     -- TabularToSeriesAdaptor; does the wrapped transformer have inverse_transform
  deriving DecidableEq, Repr

structure Col where
  kind : ColKind
  fitted : Bool := false

def colFit (s : Col) (inp : Input) (d : FitData) : Col × Out :=
  match s.kind with
  | .log => ({ s with fitted := true }, .ok)          -- BaseTransformer.fit: no validation at all
  | _ =>
    match checkSeries false inp with
    | .error e => (s, .err e)
    | .ok _ =>
      match d.fitErr with
      | some e => (s, .err e)
      | none => ({ s with fitted := true }, .ok)

/-- `pd.Series(f(z.to_numpy()), index=z.index)` -/
def colApply (s : Col) (f : List Val → List Val) (inp : Input) : Col × Out :=
  if !s.fitted then (s, .err .notfitted)
  else match checkSeries false inp with
    | .error e => (s, .err e)
    | .ok z =>
      let out := f (values z)
      if out.length ≠ z.length then (s, .err .nodata)
      else (s, .ser ((labels z).zip out))

def colHasInverse : ColKind → Bool
  | .adaptor h => h
  | _ => true

-- ---------------------------------------------------------------------------------------------
-- HampelFilter

structure HampelCfg where
  w : Nat
  nSigma : Rat
  k : Rat

def insertRat (a : Rat) : List Rat → List Rat
  | [] => [a]
  | b :: l => if a ≤ b then a :: b :: l else b :: insertRat a l

def sortRat : List Rat → List Rat
  | [] => []
  | a :: l => insertRat a (sortRat l)

/-- `np.nanmedian` -/
def nanMedian (vs : List Val) : Val :=
  let xs := sortRat (vs.filterMap id)
  let n := xs.length
  if n = 0 then none
  else if n % 2 = 1 then xs[n / 2]?
  else match xs[n / 2 - 1]?, xs[n / 2]? with
    | some a, some b => some ((a + b) / 2)
    | _, _ => none

/-- `Z.iloc[cv_window]`: the values at positions `a .. a+w-1` (repo commit bc08df8; before it the
window was read with `Z[cv_window]`, a label lookup) -/
def windowVals (z : Series) (a w : Nat) : List Val := ((z.drop a).take w).map (·.2)

/-- `_compare` -/
def hampelCompare (v med sigma : Val) (nSigma : Rat) : Val :=
  match v, med, sigma with
  | some x, some m, some s => if (if x - m < 0 then m - x else x - m) > nSigma * s then none else some x
  | _, _, _ => v

def setPos (z : Series) (j : Nat) (v : Val) : Series :=
  match z with
  | [] => []
  | p :: r => match j with
    | 0 => (p.1, v) :: r
    | j + 1 => p :: setPos r j v

/-- positions rewritten for the window starting at position `a` -/
def hampelTargets (n w a : Nat) : List Nat :=
  let h := w / 2
  if (a ≤ h || a + w - 1 + h ≥ n) && (a = 0 || a + w + 1 = n) then
    if a ≤ h then (List.range (h + 1 - a)).map (· + a)
    else (List.range (h + 1)).map (· + (n - h - 1))
  else [a + h]

/-- the loop body of `_hampel_filter` once the window's values `vs` have been read: median, MAD,
and `Z.iloc[j] = _compare(Z.iloc[j], …)` for the target positions -/
def hampelBody (cfg : HampelCfg) (z : Series) (a : Nat) (vs : List Val) : Series :=
  let med := nanMedian vs
  let dev : List Val := vs.map (fun v => match v, med with
    | some x, some m => some (if x - m < 0 then m - x else x - m)
    | _, _ => none)
  let sigma := (nanMedian dev).map (cfg.k * ·)
  (hampelTargets z.length cfg.w a).foldl
    (fun acc j => setPos acc j (hampelCompare ((acc[j]?).bind (·.2)) med sigma cfg.nSigma)) z

/-- one iteration of the loop of `_hampel_filter` for the window starting at position `a` -/
def hampelWindow (cfg : HampelCfg) (z : Series) (a : Nat) : Series :=
  hampelBody cfg z a (windowVals z a cfg.w)

/-- `_hampel_filter`: windows `a = 0 .. n-w-1` (SlidingWindowSplitter(window_length=w, fh=1)),
each reading the series as modified by the previous ones -/
def hampel (cfg : HampelCfg) (z : Series) : Except Err Series :=
  if cfg.w = 0 then .error .value
  else if cfg.w + 1 > z.length then .error .value
  else .ok ((List.range (z.length - cfg.w)).foldl (fun cur a => hampelWindow cfg cur a) z)

/-- all constructor parameters of `HampelFilter`: the filter's own (`HampelCfg`) and `return_bool` -/
structure HampelPar where
  cfg : HampelCfg
  retBool : Bool

/-- `Z.apply(lambda x: True if np.isnan(x) else False)`: the flags (True = 1, False = 0) stay on the
time points of the filtered series -/
def hampelFlags (z : Series) : Series := z.map (fun p => (p.1, some (if p.2.isNone then (1 : Rat) else 0)))

/-- `HampelFilter._transform_series`: the filter, then the `return_bool` post-processing -/
def hampelOut (p : HampelPar) (z : Series) : Except Err Series :=
  match hampel p.cfg z with
  | .error e => .error e
  | .ok r => .ok (if p.retBool then hampelFlags r else r)

-- ---------------------------------------------------------------------------------------------
-- the transformer machine

inductive TState
  | des (s : Des)
  | det (s : Det)
  | col (s : Col)
  | hampel (cfg : HampelPar) (fitted : Bool)
  /-- OptionalPassthrough(transformer, passthrough): `proto` = the `transformer` parameter,
      `inner` = `transformer_` (meaningful once `hasInner`) -/
  | pass (proto inner : TState) (hasInner passthrough fitted : Bool)

inductive Op
  | fit (inp : Input) (d : FitData)
  | update (inp : Input) (updParams : Option Bool)           -- `none`: the method's default
  | transform (inp : Input) (f : List Val → List Val)
  | inverse (inp : Input) (f : List Val → List Val)
  | fitTransform (inp : Input) (d : FitData) (f : List Val → List Val)

def hasInverse : TState → Bool
  | .des _ => true
  | .det _ => true
  | .col s => colHasInverse s.kind
  | .hampel _ _ => false
  | .pass proto _ _ _ _ => hasInverse proto

/-- every public call except `fit_transform` -/
def stepBasic (reg : Reg) (st : TState) (op : Op) : TState × Out :=
  match st with
  | .des s =>
    (match op with
      | .fit inp d => let r := desFit s inp d; (.des r.1, r.2)
      | .update inp _ => let r := desUpdate s inp; (.des r.1, r.2)
      | .transform inp _ => let r := desTransform s false inp; (.des r.1, r.2)
      | .inverse inp _ => let r := desTransform s true inp; (.des r.1, r.2)
      | .fitTransform _ _ _ => (st, .err .nodata))
  | .det s =>
    (match op with
      | .fit inp _ => let r := detFit s inp; (.det r.1, r.2)
      | .update inp up => let r := detUpdate s inp (up.getD true); (.det r.1, r.2)
      | .transform inp _ => let r := detApply reg s false inp; (.det r.1, r.2)
      | .inverse inp _ => let r := detApply reg s true inp; (.det r.1, r.2)
      | .fitTransform _ _ _ => (st, .err .nodata))
  | .col s =>
    (match op with
      | .fit inp d => let r := colFit s inp d; (.col r.1, r.2)
      | .update _ _ => (st, .err .attr)                      -- no `update` method
      | .transform inp f => let r := colApply s f inp; (.col r.1, r.2)
      | .inverse inp f =>
        if !colHasInverse s.kind then (st, .err .attr)
        else let r := colApply s f inp; (.col r.1, r.2)
      | .fitTransform _ _ _ => (st, .err .nodata))
  | .hampel cfg fitted =>
    (match op with
      | .fit _ _ => (.hampel cfg true, .ok)
      | .update _ _ => (st, .err .attr)
      | .transform inp _ =>
        if !fitted then (st, .err .notfitted)
        else match checkSeries false inp with
          | .error e => (st, .err e)
          | .ok z => match hampelOut cfg z with
            | .error e => (st, .err e)
            | .ok r => (st, .ser r)
      | .inverse _ _ => (st, .err .attr)
      | .fitTransform _ _ _ => (st, .err .nodata))
  | .pass proto inner hasInner passthrough fitted =>
    (match op with
      | .fit inp d =>
        if passthrough then (.pass proto inner hasInner passthrough true, .ok)
        else
          let r := stepBasic reg proto (.fit inp d)           -- clone(transformer).fit(Z, X)
          (match r.2 with
            | .err e => (.pass proto r.1 true passthrough fitted, .err e)
            | _ => (.pass proto r.1 true passthrough true, .ok))
      | .update _ _ => (st, .err .attr)
      | .transform inp f =>
        if !fitted then (st, .err .notfitted)
        else match checkSeries false inp with
          | .error e => (st, .err e)
          | .ok z =>
            if passthrough then (st, .ser z)
            else let r := stepBasic reg inner (.transform (.series z) f)
                 (.pass proto r.1 hasInner passthrough fitted, r.2)
      | .inverse inp f =>
        if !hasInverse proto then (st, .err .attr)
        else if !fitted then (st, .err .notfitted)
        else match checkSeries false inp with
          | .error e => (st, .err e)
          | .ok z =>
            if passthrough then (st, .ser z)
            else let r := stepBasic reg inner (.inverse (.series z) f)
                 (.pass proto r.1 hasInner passthrough fitted, r.2)
      | .fitTransform _ _ _ => (st, .err .nodata))

/-- `BaseTransformer.fit_transform`: `self.fit(Z).transform(Z)` -/
def step (reg : Reg) (st : TState) (op : Op) : TState × Out :=
  match op with
  | .fitTransform inp d f =>
    let r := stepBasic reg st (.fit inp d)
    (match r.2 with
      | .err e => (r.1, .err e)
      | _ => stepBasic reg r.1 (.transform inp f))
  | _ => stepBasic reg st op

/-- a history of calls on one transformer object; the list of results -/
def run (reg : Reg) : TState → List Op → List Out
  | _, [] => []
  | st, op :: ops => let r := step reg st op; r.2 :: run reg r.1 ops

-- ---------------------------------------------------------------------------------------------
-- shifting the integer time index of all inputs by a constant

def shiftSeries (c : Int) (z : Series) : Series := z.map (fun p => (p.1 + c, p.2))

def shiftInput (c : Int) : Input → Input
  | .series z => .series (shiftSeries c z)
  | i => i

def shiftOp (c : Int) : Op → Op
  | .fit inp d => .fit (shiftInput c inp) d
  | .update inp u => .update (shiftInput c inp) u
  | .transform inp f => .transform (shiftInput c inp) f
  | .inverse inp f => .inverse (shiftInput c inp) f
  | .fitTransform inp d f => .fitTransform (shiftInput c inp) d f

def shiftOut (c : Int) : Out → Out
  | .ser z => .ser (shiftSeries c z)
  | o => o

end SkVerif.ST
