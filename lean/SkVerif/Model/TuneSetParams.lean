/-
Model of `sktime/base/_meta.py  _HeterogenousMetaEstimator._set_params` (the `set_params` backend of
TransformedTargetForecaster, MultiplexForecaster and the ensemble forecasters), through which the tuner builds every
candidate and `best_forecaster_`:  `clone(forecaster).set_params(**params)`.   Import-free.

The code's "strict ordering of parameter setting", as it is:
  1. (`steps=…` itself: not modelled, the tuner grids never set the whole list)
  2. step replacement : every `name=<estimator>` whose name is a component name replaces that component (first match);
  3. everything else goes to `BaseEstimator.set_params`: a key whose part before `__` is not a valid parameter name
     raises ValueError; own constructor arguments are assigned; nested `name__sub=v` are forwarded to the CURRENT
     component `name` (i.e. the one put there in phase 2), whose own `set_params` raises ValueError for an unknown `sub`.
Keys are kept structured (`Setting`) instead of `__`-joined strings.
-/
import SkVerif.Model.Tune
namespace SkVerif.Tune

/-- a component estimator: class name and constructor arguments -/
structure Comp where
  cls : String
  args : List (String × Val)
  deriving DecidableEq, Repr

/-- one entry of a candidate parameter dict of a composite -/
inductive Setting
  | own (k : String) (v : Val)              -- `selected_forecaster="x"`
  | step (name : String) (c : Comp)         -- `f=<estimator>`
  | nested (name sub : String) (v : Val)    -- `f__strategy="mean"`
  deriving DecidableEq, Repr

structure Composite where
  steps : List (String × Comp)
  own : List (String × Val)
  deriving DecidableEq, Repr

def getArg (k : String) : List (String × Val) → Option Val
  | [] => none
  | (k', w) :: t => if k' = k then some w else getArg k t

/-- `setattr` of a constructor argument; `none` = invalid parameter name -/
def setArg (k : String) (v : Val) : List (String × Val) → Option (List (String × Val))
  | [] => none
  | (k', w) :: t => if k' = k then some ((k', v) :: t) else (setArg k v t).map (fun r => (k', w) :: r)

def getStep (name : String) : List (String × Comp) → Option Comp
  | [] => none
  | (n, c) :: t => if n = name then some c else getStep name t

/-- `_replace_estimator` (first component of that name; `break`) -/
def replaceStep (name : String) (c : Comp) : List (String × Comp) → List (String × Comp)
  | [] => []
  | (n, d) :: t => if n = name then (n, c) :: t else (n, d) :: replaceStep name c t

/-- `component.set_params(sub=v)` on the component currently called `name`; `none` = ValueError -/
def applyNested (name sub : String) (v : Val) : List (String × Comp) → Option (List (String × Comp))
  | [] => none
  | (n, c) :: t =>
    if n = name then (setArg sub v c.args).map (fun a => (n, { c with args := a }) :: t)
    else (applyNested name sub v t).map (fun r => (n, c) :: r)

/-- phase 2: the replacements, in dict order -/
def phaseReplace (st : List (String × Comp)) : List Setting → List (String × Comp)
  | [] => st
  | .step n c :: ps => phaseReplace (replaceStep n c st) ps
  | _ :: ps => phaseReplace st ps

/-- phase 3: own arguments and nested parameters, on the composite as phase 2 left it -/
def phaseRest (m : Composite) : List Setting → Option Composite
  | [] => some m
  | .step _ _ :: ps => phaseRest m ps
  | .own k v :: ps =>
    match setArg k v m.own with
    | none => none
    | some o => phaseRest { m with own := o } ps
  | .nested n s v :: ps =>
    match applyNested n s v m.steps with
    | none => none
    | some st => phaseRest { m with steps := st } ps

/-- a `name=<estimator>` entry whose name is not a component name is an invalid parameter -/
def unknownStep (m : Composite) : Setting → Bool
  | .step n _ => (getStep n m.steps).isNone
  | _ => false

/-- `_HeterogenousMetaEstimator._set_params(attr, **params)` -/
def setParams (m : Composite) (ps : List Setting) : Except Err Composite :=
  if ps.any (unknownStep m) then .error .value
  else
    match phaseRest { m with steps := phaseReplace m.steps ps } ps with
    | none => .error .value
    | some r => .ok r

end SkVerif.Tune
