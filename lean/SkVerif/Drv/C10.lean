/- Driver for C10 (stub: not built yet). -/
namespace SkVerif.Drv.C10
def handle (_toks : List String) : String := "bad-op"
end SkVerif.Drv.C10
