/- C10 uses the forecaster state machine; same line protocol as C03. -/
import SkVerif.Drv.C03
namespace SkVerif.Drv.C10
def handle (toks : List String) : String := SkVerif.Drv.C03.handle toks
end SkVerif.Drv.C10
