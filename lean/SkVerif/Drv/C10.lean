/- C10 uses the forecaster state machine; same line protocol as C03, plus
   pirun <probe:w | plain:last> <mode o|r> <op> ...     prediction-interval layer (Model/PredInt.lean)
   with the extra ops  predi|fh|rpi|alpha   upsi|y|fh|b|rpi|alpha   upi|y|cv|b|rpi|alpha
   alpha = o:<per-mille> | m:<per-mille list>           -/
import SkVerif.Drv.C03
import SkVerif.Model.PredInt
namespace SkVerif.Drv.C10
open SkVerif SkVerif.Fc SkVerif.Drv SkVerif.Drv.C03

def parseAlpha? (s : String) : Option AlphaArg :=
  match s.splitOn ":" with
  | ["o", k] => (parseInt? k).map AlphaArg.one
  | ["m", ks] => (parseIntList? ks).map AlphaArg.many
  | _ => none

def parseIOp? (s : String) : Option IOp :=
  match s.splitOn "|" with
  | ["predi", fh, r, a] => do
      pure (IOp.predict (← parseFhArg? fh) ⟨← parseBool? r, ← parseAlpha? a⟩)
  | ["upsi", y, fh, b, r, a] => do
      pure (IOp.updatePredictSingle (← parseSeries? y) (← parseFhArg? fh) (← parseBool? b) ⟨← parseBool? r, ← parseAlpha? a⟩)
  | ["upi", y, cv, b, r, a] => do
      pure (IOp.updatePredict (← parseSeries? y) (← parseCv? cv) (← parseBool? b) ⟨← parseBool? r, ← parseAlpha? a⟩)
  | _ => (parseOp? s).map IOp.base

def showTable (t : List IRow) : String :=
  ",".intercalate (t.map (fun r => s!"{r.1}:{showORat r.2.1}~{showORat r.2.2}"))

def showIOut : IOut → String
  | .plain o => showOut false o
  | .withInt p ts single =>
      s!"S[{showSeries false p}]" ++ (if single then "+I1[" else "+IL[") ++ ";".intercalate (ts.map showTable) ++ "]"

def runShowI (ic : ICore) (mode : FhMode) : FState → List IOp → List String
  | s, [] => [s!"Y[{showSeries false s.y}]"]
  | s, op :: ops =>
    let (s1, o) := stepI ic mode s op
    (showIOut o ++ showState false s1) :: runShowI ic mode s1 ops

def parseICore? (s : String) : Option ICore :=
  match s.splitOn ":" with
  | ["probe", w] => (parseInt? w).map icoreProbe
  | ["plain", "last"] => some (icorePlain coreLast)
  | _ => none

def handle (toks : List String) : String :=
  match toks with
  | "pirun" :: core :: mode :: ops =>
    match parseICore? core, (if mode == "o" then some FhMode.optional else if mode == "r" then some FhMode.required else none),
          ops.mapM parseIOp? with
    | some ic, some m, some ops => " ".intercalate (runShowI ic m {} ops)
    | _, _, _ => "bad-op"
  | _ => SkVerif.Drv.C03.handle toks
end SkVerif.Drv.C10
