/- Driver for C11: naive / polynomial-trend / statsmodels-adapter models.  Import-free (Model only). -/
import SkVerif.Model.Naive
import SkVerif.Model.Trend
import SkVerif.Model.History
import SkVerif.Model.Adapter
import SkVerif.Model.Exog
import SkVerif.Model.Theta
import SkVerif.Drv.Parse
namespace SkVerif.Drv.C11
open SkVerif SkVerif.Drv SkVerif.Naive

def showErr : Err → String
  | .value => "E:value" | .index => "E:index" | .key => "E:key" | .type => "E:type"

def showSeries : Except Err (List (Int × Val)) → String
  | .error e => showErr e
  | .ok ps => s!"idx={showIntList (ps.map (·.1))} val={showORatList (ps.map (·.2))}"

def parseStrategy? : String → Option Strategy
  | "last" => some .last | "mean" => some .mean | "drift" => some .drift | "other" => some .other
  | _ => none

def parseOInt? (s : String) : Option (Option Int) :=
  if s == "none" then some none else (parseInt? s).map some

def showRows (rows : List (List Int)) : String :=
  if rows.isEmpty then "-" else ";".intercalate (rows.map showIntList)

/-- exogenous rows: `r1;r2;…`, each a list of values (`-` = no rows) -/
def parseRows? (s : String) : Option (List (List (Option Rat))) :=
  if s == "-" then some [] else (s.splitOn ";").mapM parseORatList?

def handle (toks : List String) : String :=
  match toks with
  | ["naivex", xs, xp, st, sp, wl, origin, y, fh, rel] =>
    match parseRows? xs, parseBool? xp, parseStrategy? st, parseInt? sp, parseOInt? wl, parseInt? origin, parseORatList? y,
          parseIntList? fh, parseBool? rel with
    | some xs, some xp, some st, some sp, some wl, some origin, some y, some fh, some rel =>
      showSeries (Exog.fitPredictX (some xs) xp st sp wl y origin (.ints fh) rel)
    | _, _, _, _, _, _, _, _, _ => "bad-op"
  | ["theta", opts, origin, n, fh, rel, dense, drift, seas, pi] =>
    match Adapter.parseArgs opts, parseInt? origin, parseNat? n, parseIntList? fh, parseBool? rel, parseORatList? dense,
          parseRatList? drift, parseRatList? seas, parseBool? pi with
    | some opts, some origin, some n, some fh, some rel, some dense, some drift, some seas, some pi =>
      let sm : Int → Val := fun i => if i < 0 then none else (dense[i.toNat]?).getD none
      let ctor := Adapter.thetaCtor opts
      if Adapter.smRejects ctor then s!"E:value ctor={Adapter.showArgs ctor}"
      else
        let out := match Theta.predict sm n origin (.ints fh) rel drift seas (Adapter.get opts "deseasonalize" == "T") pi (fun _ => 0) with
          | .error e => showErr e
          | .ok (p, _) => showSeries (.ok p)
        s!"{out} ctor={Adapter.showArgs ctor} fitkw={Adapter.showArgs (Adapter.esFit opts)}"
    | _, _, _, _, _, _, _, _, _ => "bad-op"
  | ["naive", st, sp, wl, origin, y, fh, rel] =>
    match parseStrategy? st, parseInt? sp, parseOInt? wl, parseInt? origin, parseORatList? y,
          parseIntList? fh, parseBool? rel with
    | some st, some sp, some wl, some origin, some y, some fh, some rel =>
      showSeries (fitPredict st sp wl y origin (.ints fh) rel)
    | _, _, _, _, _, _, _ => "bad-op"
  | ["trend", deg, bias, origin, y, fh, rel] =>
    match parseNat? deg, parseBool? bias, parseInt? origin, parseORatList? y, parseIntList? fh, parseBool? rel with
    | some deg, some bias, some origin, some y, some fh, some rel =>
      if deg > 1 then "bad-op" else showSeries (Trend.fitPredict deg bias y origin (.ints fh) rel)
    | _, _, _, _, _, _ => "bad-op"
  | ["design", deg, bias, origin, n, fh, rel] =>
    match parseNat? deg, parseBool? bias, parseInt? origin, parseNat? n, parseIntList? fh, parseBool? rel with
    | some deg, some bias, some origin, some n, some fh, some rel =>
      match Trend.designs deg bias n origin (.ints fh) rel with
      | .error e => showErr e
      | .ok (xf, xp, labels) => s!"fit={showRows xf} pred={showRows xp} idx={showIntList labels}"
    | _, _, _, _, _, _ => "bad-op"
  | ["adapter", cls, opts, origin, n, fh, rel, dense] =>
    match Adapter.parseArgs opts, parseInt? origin, parseNat? n, parseIntList? fh, parseBool? rel, parseORatList? dense with
    | some opts, some origin, some n, some fh, some rel, some dense =>
      let sm : Int → Val := fun i => if i < 0 then none else (dense[i.toNat]?).getD none
      let series := showSeries (Trend.adapterPredict sm n origin (.ints fh) rel)
      match cls with
      | "es" => s!"{series} ctor={Adapter.showArgs (Adapter.esCtor opts)} fitkw={Adapter.showArgs (Adapter.esFit opts)}"
      | "ets" => s!"{series} ctor={Adapter.showArgs (Adapter.etsCtor opts)} fitkw={Adapter.showArgs (Adapter.etsFit opts)}"
      | "theta" =>
        let ctor := Adapter.thetaCtor opts
        if Adapter.smRejects ctor then s!"E:value ctor={Adapter.showArgs ctor}"
        else s!"{series} ctor={Adapter.showArgs ctor} fitkw={Adapter.showArgs (Adapter.esFit opts)}"
      | _ => "bad-op"
    | _, _, _, _, _, _ => "bad-op"
  | ["naiveh", st0, sp0, wl0, o0, y0, st, sp, wl, origin, y, fh, rel] =>
    match parseStrategy? st0, parseInt? sp0, parseOInt? wl0, parseInt? o0, parseORatList? y0,
          parseStrategy? st, parseInt? sp, parseOInt? wl, parseInt? origin, parseORatList? y,
          parseIntList? fh, parseBool? rel with
    | some st0, some sp0, some wl0, some o0, some y0, some st, some sp, some wl, some origin, some y, some fh, some rel =>
      showSeries (History.naiveHistory st0 sp0 wl0 y0 o0 st sp wl y origin (.ints fh) rel)
    | _, _, _, _, _, _, _, _, _, _, _, _ => "bad-op"
  | ["trendh", d0, b0, o0, y0, deg, bias, origin, y, fh, rel] =>
    match parseNat? d0, parseBool? b0, parseInt? o0, parseORatList? y0, parseNat? deg, parseBool? bias, parseInt? origin,
          parseORatList? y, parseIntList? fh, parseBool? rel with
    | some d0, some b0, some o0, some y0, some deg, some bias, some origin, some y, some fh, some rel =>
      if deg > 1 then "bad-op"
      else match History.trendHistory d0 b0 y0 o0 deg bias y origin with
        | .error e => showErr e
        | .ok o => showSeries (o.predict (.ints fh) rel)
    | _, _, _, _, _, _, _, _, _, _ => "bad-op"
  | ["designh", d0, b0, o0, n0, deg, bias, origin, n, fh, rel] =>
    match parseNat? d0, parseBool? b0, parseInt? o0, parseNat? n0, parseNat? deg, parseBool? bias, parseInt? origin,
          parseNat? n, parseIntList? fh, parseBool? rel with
    | some d0, some b0, some o0, some n0, some deg, some bias, some origin, some n, some fh, some rel =>
      let ramp := fun (k : Nat) => (List.range k).map (fun (i : Nat) => (some ((i : Int) : Rat) : Val))
      match History.trendHistory d0 b0 (ramp n0) o0 deg bias (ramp n) origin with
      | .error e => showErr e
      | .ok o =>
        match o.designs (.ints fh) rel with
        | .error e => showErr e
        | .ok (xf, xp, labels) => s!"fit={showRows xf} pred={showRows xp} idx={showIntList labels}"
    | _, _, _, _, _, _, _, _, _, _ => "bad-op"
  | _ => "bad-op"

end SkVerif.Drv.C11
