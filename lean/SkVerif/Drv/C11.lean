/- Driver for C11 (stub: not built yet). -/
namespace SkVerif.Drv.C11
def handle (_toks : List String) : String := "bad-op"
end SkVerif.Drv.C11
