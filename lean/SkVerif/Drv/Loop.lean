/- stdin/stdout line loop shared by the per-property drivers.  Import-free. -/
namespace SkVerif.Drv

def tokens (line : String) : List String :=
  (line.trimAscii.toString.splitOn " ").filter (· ≠ "")

partial def loop (handle : List String → String) (h out : IO.FS.Stream) : IO Unit := do
  let line ← h.getLine
  if line.isEmpty then return ()
  out.putStrLn (handle (tokens line))
  loop handle h out

/-- `handle` receives the tokens AFTER the leading property id -/
def runLoop (prop : String) (handle : List String → String) : IO Unit := do
  let out ← IO.getStdout
  loop (fun toks => match toks with
    | p :: rest => if p == prop then handle rest else "bad-op"
    | [] => "bad-op") (← IO.getStdin) out
  out.flush

end SkVerif.Drv
