/-
Driver for C12.  Line formats (tokens after the property id):

  run <core> <mode> <op> ...            forecaster history, exactly as C03 (values / labels / states)
  seq <estimator> F:<container>:<ikind> A:<id>:<method>:<container>:<chg>:<digest> ... | <inst>:<id> ...
        an opaque fitted estimator as the transformer machine whose `app` is the table of RECORDED
        first results (`A:` entries: argument id, method, containers of ALL the arguments joined by `+`, whether the
        first result's values differ from the argument's values, digest of the first result);
        the calls (`inst` = which copy: o original, jN/j1/j2/j4 = equal-parameter twins fitted with
        that n_jobs, pk = pickled and restored copy) are run through `P12.trun`; predicted per call:
        `<args flag>:<digest>` with the args flag from `P12.effectOf` / `P12.callerAfter`.
  hampel <w> <nsigma> <k> <retbool> <series>    HampelFilter.transform on a Series: result AND caller's series (= the input)
  par <order> <tasks>                   Parallel map of x ↦ 3x+1 under the completion order `order`
-/
import SkVerif.Model.C12Parallel
import SkVerif.Model.C12Pure
import SkVerif.Drv.C03
namespace SkVerif.Drv.C12
open SkVerif SkVerif.Fc SkVerif.P12 SkVerif.Drv

-- ------------------------------------------------------------------------------------ seq

structure ArgEntry where
  id : String
  method : String
  container : String
  chg : Bool
  digest : String

def parseEntry? (t : String) : Option ArgEntry :=
  match t.splitOn ":" with
  | ["A", id, m, c, chg, d] => (parseBool? chg).map (fun b => ⟨id, m, c, b, d⟩)
  | _ => none

def methodOf? (m : String) : Option Method :=
  if m == "transform" then some .transform
  else if m == "inverse_transform" then some .inverse
  else if m == "predict" then some .predict
  else if m == "predict_proba" then some .predictProba
  else if m == "inspect" then some .inspect
  else none

/-- the table machine: fitted state = the table; `app` looks the (method, argument) up -/
def tableCore : TCore Unit (List ArgEntry) (List ArgEntry) String String where
  fit _ tbl := .ok tbl
  app tbl m a :=
    match tbl.find? (fun e => e.id == a && methodOf? e.method == some m) with
    | some e => .ok e.digest
    | none => .error .other

/-- the containers of ALL the arguments of a call, joined by `+` (`fh+DataFrame` = predict(fh, X)) -/
def argsOf (containers : String) (rangeIndex : Bool) : List (String × ArgSnap Bool) :=
  (containers.splitOn "+").map (fun c => (c, (⟨false, [], rangeIndex⟩ : ArgSnap Bool)))

/-- first differing component over all arguments: values before the index class (the harness's order) -/
def flagArgs (before after : List (String × ArgSnap Bool)) : String :=
  if (before.zip after).any (fun p => p.1.2.values != p.2.2.values) then "F:values"
  else if (before.zip after).any (fun p => p.1.2.rangeIndex != p.2.2.rangeIndex) then "F:itype" else "T"

def flagOf (estimator : String) (e : ArgEntry) : String :=
  let args := argsOf e.container true
  -- values abstracted to "differs from the argument": the argument is `false`, the result `e.chg`
  flagArgs args (callerAfterAll estimator e.method args e.chg)

def fitFlag (estimator container ikind : String) : String :=
  let args := argsOf container (ikind == "range")
  -- `fit` returns self, never a value: only the index effect can apply
  match flagArgs args (callerAfterAll estimator "fit" args true) with
  | "F:itype" => "F:itype"
  | _ => "T"

abbrev Call := String × ArgEntry × Method

def parseCall? (tbl : List ArgEntry) (c : String) : Option Call :=
  match c.splitOn ":" with
  | [inst, id] =>
    match tbl.find? (fun (e : ArgEntry) => e.id == id) with
    | some e => (methodOf? e.method).map (fun m => (inst, e, m))
    | none => none
  | _ => none

def showCall (est : String) (c : Call) (o : TOut String) : String :=
  let r : String := match o with
    | TOut.res d => d
    | TOut.err _ => "E:model"
    | TOut.done => "E:model"
  s!"{c.1}:{c.2.1.id}={flagOf est c.2.1}:{r}"

def runSeq (est container ikind : String) (tbl : List ArgEntry) (calls : List Call) : String :=
  -- every copy (original, equal-parameter twins, unpickled copy) is `fit params data`
  let st0 : TState Unit (List ArgEntry) := ⟨(), none⟩
  let fitted : TState Unit (List ArgEntry) := (tstep tableCore st0 (TOp.fit tbl)).1
  let ops : List (TOp (List ArgEntry) String) := calls.map (fun (c : Call) => TOp.call c.2.2 c.2.1.id)
  let outs : List (TOut String) := (trun tableCore fitted ops).2
  let shown : List String := (calls.zip outs).map (fun (p : Call × TOut String) => showCall est p.1 p.2)
  s!"fit={fitFlag est container ikind} " ++ " ".intercalate shown

def handleSeq (toks : List String) : String :=
  match toks with
  | est :: f :: rest =>
    let entriesToks : List String := rest.takeWhile (· != "|")
    let callToks : List String := (rest.dropWhile (· != "|")).drop 1
    match f.splitOn ":" with
    | ["F", container, ikind] =>
      match entriesToks.mapM parseEntry? with
      | none => "bad-op"
      | some tbl =>
        match callToks.mapM (parseCall? tbl) with
        | none => "bad-op"
        | some calls => runSeq est container ikind tbl calls
    | _ => "bad-op"
  | _ => "bad-op"

-- ------------------------------------------------------------------------------------ hampel

def parseSeries? (s : String) : Option ST.Series :=
  if s == "-" then some []
  else (s.splitOn ",").mapM (fun t =>
    match t.splitOn ":" with
    | [l, v] => do pure ((← parseInt? l), (← parseORat? v))
    | _ => none)

def showSeries (z : ST.Series) : String :=
  if z.isEmpty then "-" else ",".intercalate (z.map (fun o => s!"{o.1}:{showORat o.2}"))

def showErr : ST.Err → String
  | .value => "E:value" | .type => "E:type" | .notimpl => "E:notimpl" | .notfitted => "E:notfitted"
  | .attr => "E:attr" | .key => "E:key" | .other => "E:other" | .nodata => "E:nodata"

def handleHampel (toks : List String) : String :=
  match toks with
  | [w, ns, k, rb, z] =>
    match parseNat? w, parseRat? ns, parseRat? k, parseBool? rb, parseSeries? z with
    | some w, some ns, some k, some rb, some z =>
      match hampelInPlace ⟨w, ns, k⟩ z with
      | .error e => s!"res={showErr e}"
      | .ok (r, after) =>
        let res := if rb then
            (if r.isEmpty then "-" else ",".intercalate (r.map (fun o => s!"{o.1}:{if o.2.isNone then "T" else "F"}")))
          else showSeries r
        s!"res={res} after={showSeries after}"
    | _, _, _, _, _ => "bad-op"
  | _ => "bad-op"

-- ------------------------------------------------------------------------------------ par

def handlePar (toks : List String) : String :=
  match toks with
  | [order, tasks] =>
    match parseNatList? order, parseIntList? tasks with
    | some o, some t =>
      match Par.parallelMap (fun (x : Int) => 3 * x + 1) t o with
      | some r => s!"res={showIntList r}"
      | none => "res=incomplete"
    | _, _ => "bad-op"
  | _ => "bad-op"

def handle (toks : List String) : String :=
  match toks with
  | "run" :: rest => SkVerif.Drv.C03.handle ("run" :: rest)
  | "seq" :: rest => handleSeq rest
  | "hampel" :: rest => handleHampel rest
  | "par" :: rest => handlePar rest
  | _ => "bad-op"

end SkVerif.Drv.C12
