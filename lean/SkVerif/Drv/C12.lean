/- Driver for C12 (stub: not built yet). -/
namespace SkVerif.Drv.C12
def handle (_toks : List String) : String := "bad-op"
end SkVerif.Drv.C12
