import SkVerif.Model.FH
import SkVerif.Drv.Parse
namespace SkVerif.Drv.C02
open SkVerif SkVerif.FH SkVerif.Drv

def showErr : Err → String
  | .type => "E:type" | .value => "E:value" | .index => "E:index"

def showE {α} (f : α → String) : Except Err α → String
  | .ok a => f a
  | .error e => showErr e

def showFH (fh : FH) : String := s!"{showIntList fh.vals}:{showBool fh.rel}"

def parseRaw? (s : String) : Option Raw :=
  match s.splitOn ":" with
  | ["int", v] => (parseInt? v).map Raw.int
  | ["ints", vs] => (parseIntList? vs).map Raw.ints
  | ["range", a, b, st] => do
      let a ← parseInt? a; let b ← parseInt? b; let st ← parseInt? st
      pure (Raw.range a b st)
  | ["frac"] => some .fractional
  | ["floats", vs] => (parseRatList? vs).map rawOfFloats
  | ["unsup"] => some .unsupported
  | ["2d"] => some .twoDim
  | _ => none

def parseCut? (s : String) : Option (Option Int) :=
  if s == "none" then some none else (parseInt? s).map some

/-- `all <raw> <rel> <relIsBool> <cutoff> <start> <enforceRel> <cutoff2>`; the `d*` outputs use the objects
DERIVED with `cutoff` (`to_absolute` / `to_relative`) at the other cutoff `cutoff2` -/
def handle (toks : List String) : String :=
  match toks with
  | ["all", raw, rel, rib, cut, start, enf, cut2] =>
    match parseRaw? raw, parseBool? rel, parseBool? rib, parseCut? cut, parseInt? start, parseBool? enf, parseCut? cut2 with
    | some raw, some rel, some rib, some c, some start, some enf, some c2 =>
      let fhE := mk raw rel rib
      match fhE with
      | .error e => s!"mk={showErr e}"
      | .ok fh =>
        let parts : List String := [
          s!"mk={showFH fh}",
          s!"rel={showE showFH (toRelative fh c)}",
          s!"abs={showE showFH (toAbsolute fh c)}",
          s!"absint={showE showFH (toAbsoluteInt fh start c)}",
          s!"ins={showE showFH (toInSample fh c)}",
          s!"oos={showE showFH (toOutOfSample fh c)}",
          s!"allin={showE showBool (isAllInSample fh c)}",
          s!"allout={showE showBool (isAllOutOfSample fh c)}",
          s!"idx={showE showIntList (toIndexer fh c true)}",
          s!"idx0={showE showIntList (toIndexer fh c false)}",
          s!"chk={showE showFH (checkFh (.ok fh) enf)}",
          s!"rt={showE showFH ((toAbsolute fh c).bind (fun a => toRelative a c))}",
          s!"rt2={showE showFH ((toRelative fh c).bind (fun a => toAbsolute a c))}",
          s!"drel={showE showFH ((toAbsolute fh c).bind (fun a => toRelative a c2))}",
          s!"dabs={showE showFH ((toRelative fh c).bind (fun a => toAbsolute a c2))}",
          s!"didx={showE showIntList ((toAbsolute fh c).bind (fun a => toIndexer a c2 true))}",
          s!"dins={showE showFH ((toAbsolute fh c).bind (fun a => toInSample a c2))}",
          s!"doos={showE showFH ((toAbsolute fh c).bind (fun a => toOutOfSample a c2))}",
          s!"dallin={showE showBool ((toAbsolute fh c).bind (fun a => isAllInSample a c2))}",
          s!"dallout={showE showBool ((toAbsolute fh c).bind (fun a => isAllOutOfSample a c2))}" ]
        " ".intercalate parts
    | _, _, _, _, _, _, _ => "bad-op"
  | _ => "bad-op"

end SkVerif.Drv.C02
