/- Driver for C08 (stub: not built yet). -/
namespace SkVerif.Drv.C08
def handle (_toks : List String) : String := "bad-op"
end SkVerif.Drv.C08
