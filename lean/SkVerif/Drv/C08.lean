/-
Driver for C08 (tuning).  Import-free apart from the model.

Line:  setp <steps> <own> <settings>     (`clone(composite).set_params(**params)`, model TuneSetParams)
  steps    : name@cls@k=v,k=v ; …   (`-` = no arguments)      own : k=v,k=v | -
  settings : o@k@v | s@name@cls@k=v,… | n@name@sub@v  joined by `;`  (dict order)   answer: `steps=… own=…` | E:value
Line:  run <source> <cv> <n> <gib> <refit> <ops> <table>
  source : grid:<dict>|<dict>…   dict = key=v1,v2;key=…   (`@` = empty dict, `~e` = empty value list,
           `~s` = not a sequence, `grid:none` = no dict)      |  list:<params>|<params>…  (`list:none`)
  params : key=v;key=v  (`@` = {})
  cv     : s|e : fh : wl : step : iw|none : T|F
  ops    : comma list of F (fit) p (predict) s (update_predict_single) U (update_predict) u (update) c (cutoff)
           m / x (probe of the remembered series / exogenous data behind the guard of a tuner method)
  table  : one entry per distinct parameter set,  params>scores>outsF>outsT>outsUnfitted , entries joined by `|`
           scores = per-fold scores of evaluate() (rationals / nan, `-` = none) or an error token E:…
           outs*  = `~`-joined result tokens, one per op position, of a forecaster constructed directly with
                    these parameters and (re)fitted at every F position (outsF / outsT: update calls that leave
                    `update_params` to its default forwarded with False / True; `=` = same as outsF) / never fitted.
The base forecaster is the table machine: state = (parameters, fitted?), a call at op position i answers
the table's token at i.  Everything else (candidate order, mean, rank, argmin, best_*, refit, guards,
delegation) is computed by SkVerif.Tune.
-/
import SkVerif.Model.Tune
import SkVerif.Model.TuneSetParams
import SkVerif.Drv.Parse
namespace SkVerif.Drv.C08
open SkVerif SkVerif.Tune SkVerif.Drv

def showErr : Err → String
  | .value => "E:value" | .type => "E:type" | .key => "E:key" | .index => "E:index"
  | .attr => "E:attr" | .notFitted => "E:notfitted" | .other => "E:other"

def parseErr? (s : String) : Option Err :=
  if s == "E:value" then some .value else if s == "E:type" then some .type
  else if s == "E:key" then some .key else if s == "E:index" then some .index
  else if s == "E:attr" then some .attr else if s == "E:notfitted" then some .notFitted
  else if s.startsWith "E:" then some .other else none

def parseParams? (s : String) : Option Params :=
  if s == "@" then some []
  else (s.splitOn ";").mapM (fun kv =>
    match kv.splitOn "=" with
    | [k, v] => some (k, v)
    | _ => none)

def showParams (p : Params) : String :=
  if p.isEmpty then "@" else ";".intercalate (p.map (fun kv => s!"{kv.1}={kv.2}"))

def parseGridDict? (s : String) : Option GridDict :=
  if s == "@" then some []
  else (s.splitOn ";").mapM (fun kv =>
    match kv.splitOn "=" with
    | [k, v] =>
      if v == "~e" then some (k, GridVals.seq [])
      else if v == "~s" then some (k, GridVals.notSeq)
      else some (k, GridVals.seq (v.splitOn ","))
    | _ => none)

def parseSource? (s : String) : Option Source :=
  if s == "grid:none" then some (.grid [])
  else if s == "list:none" then some (.sampled [])
  else if s.startsWith "grid:" then (((s.drop 5).toString).splitOn "|").mapM parseGridDict? |>.map Source.grid
  else if s.startsWith "list:" then (((s.drop 5).toString).splitOn "|").mapM parseParams? |>.map Source.sampled
  else none

def parseCv? (s : String) : Option CvSpec :=
  match s.splitOn ":" with
  | [k, fh, wl, step, iw, sww] => do
    let kind ← if k == "s" then some Split.Kind.sliding else if k == "e" then some Split.Kind.expanding else none
    let fh ← parseIntList? fh
    let wl ← parseInt? wl
    let step ← parseInt? step
    let iw ← if iw == "none" then some none else (parseInt? iw).map some
    let sww ← parseBool? sww
    pure ⟨kind, fh, wl, step, iw, sww⟩
  | _ => none

structure Entry where
  params : Params
  scores : EvalOut
  outsF : List String
  outsT : List String
  outsU : List String

def parseScores? (s : String) : Option EvalOut :=
  match parseErr? s with
  | some e => some (.error e)
  | none => (parseORatList? s).map Except.ok

def parseEntry? (s : String) : Option Entry :=
  match s.splitOn ">" with
  | [p, sc, f, t, u] => do
    let p ← parseParams? p
    let sc ← parseScores? sc
    pure ⟨p, sc, f.splitOn "~", if t == "=" then f.splitOn "~" else t.splitOn "~", u.splitOn "~"⟩
  | _ => none

def lookup (tab : List Entry) (p : Params) : Option Entry := tab.find? (fun e => e.params == p)

/-- results of a fitted forecaster, with defaulted `update_params` forwarded as the tuner's default says -/
def Entry.fittedOuts (e : Entry) : List String := if tunerDefaultUpdateParams then e.outsT else e.outsF

/-- the table machine: state = (parameters, fitted?), op = position in the op list -/
def tableMachine (tab : List Entry) : Machine (Params × Bool) Nat String Nat where
  init p := (p, false)
  fit s pos :=
    match lookup tab s.1 with
    | none => .error .other
    | some e =>
      let tok := e.fittedOuts.getD pos "E:other"
      match parseErr? tok with
      | some err => .error err
      | none => .ok (s.1, true)
  fitted s := s.2
  step s pos :=
    match lookup tab s.1 with
    | none => (s, .error .other)
    | some e =>
      let tok := (if s.2 then e.fittedOuts else e.outsU).getD pos "E:other"
      match parseErr? tok with
      | some err => (s, .error err)
      | none => (s, .ok tok)

def showTOut : Except Err (TVal String) → String
  | .error e => showErr e
  | .ok .self => "self"
  | .ok (.val v) => v

def showFolds (fs : List Split.Fold) : String :=
  if fs.isEmpty then "none"
  else ";".intercalate (fs.map (fun f => s!"{showIntList f.1}/{showIntList f.2}"))

def showRank : Option Nat → String
  | none => "nan"
  | some r2 => showRat ((r2 : Rat) / 2)

def showResult (cv : CvSpec) (n : Int) : Option SearchResult → String
  | none => "res=none"
  | some r =>
    let cands := "|".intercalate (r.rows.map (fun row => showParams row.params))
    let means := showORatList (r.rows.map (·.mean))
    let ranks := ",".intercalate (r.rows.map (fun row => showRank row.rank2))
    let splits := match foldsOf cv n with
      | .ok fs => showFolds fs
      | .error _ => "E"
    s!"cands={cands} means={means} ranks={ranks} best={r.bestIndex} score={showORat r.bestScore} bparams={showParams r.bestParams} splits={splits}"

def runOps (m : Machine (Params × Bool) Nat String Nat) (cfg : Config CvSpec) (ev : CvSpec → Int → Params → EvalOut)
    (n : Int) : TState (Params × Bool) → Nat → List String → Option (TState (Params × Bool) × List String)
  | st, _, [] => some (st, [])
  | st, pos, k :: ks =>
    if k == "F" then
      let (st', o) := fitTuner m cfg ev st n pos
      (runOps m cfg ev n st' (pos + 1) ks).map (fun r =>
        (r.1, (match o with | .ok _ => "ok" | .error e => showErr e) :: r.2))
    else
      let call? : Option (Call Nat) :=
        if k == "p" || k == "m" || k == "x" then some (Call.method pos)
        else if k == "s" || k == "U" then some (Call.updatePredict (fun _ => pos) none)
        else if k == "u" then some (Call.update (fun _ => pos) none)
        else if k == "c" then some (Call.cutoff pos)
        else none
      match call? with
      | none => none
      | some c =>
        let (st', o) := stepTuner m cfg st c
        (runOps m cfg ev n st' (pos + 1) ks).map (fun r => (r.1, showTOut o :: r.2))

def parseArgs? (s : String) : Option (List (String × Val)) :=
  if s == "-" then some []
  else (s.splitOn ",").mapM (fun kv =>
    match kv.splitOn "=" with
    | [k, v] => some (k, v)
    | _ => none)

def showArgs (a : List (String × Val)) : String :=
  if a.isEmpty then "-" else ",".intercalate (a.map (fun kv => s!"{kv.1}={kv.2}"))

def parseStep? (s : String) : Option (String × Comp) :=
  match s.splitOn "@" with
  | [n, cls, a] => (parseArgs? a).map (fun a => (n, ⟨cls, a⟩))
  | _ => none

def parseSetting? (s : String) : Option Setting :=
  match s.splitOn "@" with
  | ["o", k, v] => some (.own k v)
  | ["s", n, cls, a] => (parseArgs? a).map (fun a => .step n ⟨cls, a⟩)
  | ["n", n, sub, v] => some (.nested n sub v)
  | _ => none

def showComposite (m : Composite) : String :=
  let st := ";".intercalate (m.steps.map (fun nc => s!"{nc.1}@{nc.2.cls}@{showArgs nc.2.args}"))
  s!"steps={st} own={showArgs m.own}"

def handleSetp (steps own settings : String) : String :=
  match (steps.splitOn ";").mapM parseStep?, parseArgs? own,
        (if settings == "-" then some [] else (settings.splitOn ";").mapM parseSetting?) with
  | some st, some o, some ps =>
    match setParams ⟨st, o⟩ ps with
    | .ok r => showComposite r
    | .error e => showErr e
  | _, _, _ => "bad-op"

def handle (toks : List String) : String :=
  match toks with
  | ["setp", steps, own, settings] => handleSetp steps own settings
  | ["run", src, cv, n, gib, refit, ops, table] =>
    match parseSource? src, parseCv? cv, parseInt? n, parseBool? gib, parseBool? refit,
          (table.splitOn "|").mapM parseEntry? with
    | some src, some cv, some n, some gib, some refit, some tab =>
      let cfg : Config CvSpec := ⟨src, cv, gib, refit⟩
      -- evaluate(): the table's scores; a parameter set the table does not know is a harness bug
      let known := match candidatesOf src with
        | .ok cs => cs.all (fun p => (lookup tab p).isSome)
        | .error _ => true
      if !known then "bad-op"
      else
        let ev : CvSpec → Int → Params → EvalOut := fun _ _ p =>
          match lookup tab p with
          | some e => e.scores
          | none => .error .other
        let opl := if ops == "-" then [] else ops.splitOn ","
        match runOps (tableMachine tab) cfg ev n TState.initial 0 opl with
        | none => "bad-op"
        | some (st, outs) =>
          let o := if outs.isEmpty then "-" else "~".intercalate outs
          s!"{showResult cv n st.result} fitted={showBool st.isFitted} ops={o}"
    | _, _, _, _, _, _ => "bad-op"
  | _ => "bad-op"

end SkVerif.Drv.C08
