/-
Driver for C13: runs a history of calls on one series transformer through the model.

  hist <cfg> <shift> <op> <op> ...

cfg   des:<sp>:<A|M> | cdes:<sp>:<A|M> | det:<degree> | bc | log | ad:<T|F> | hampel:<w>:<nsigma>:<k>[:<return_bool T|F>]
      | pass:<T|F>:<cfg>
op    fit;<inp>;<seasonal|none>;<N|T|F>;<ok|E:kind>
      upd;<inp>;<D|T|F>
      tr;<inp>;<aux>
      inv;<inp>;<k|->;<aux>               (k: use the series returned by op k when it returned one)
      ft;<inp>;<seasonal|none>;<N|T|F>;<ok|E:kind>;<aux>
aux   none | <values>=<values>|...        (the library function tabulated on the possible inputs)
inp   s:<labels>:<values> | notseries | fidx
out   one token per op: ok | E:kind | <labels>:<values>;  if shift ≠ 0 the same history with all
      labels shifted follows after `##`.
-/
import SkVerif.Model.SeriesTransform
import SkVerif.Drv.Parse
namespace SkVerif.Drv.C13
open SkVerif SkVerif.ST SkVerif.Drv

def showErr : Err → String
  | .value => "E:value" | .type => "E:type" | .notimpl => "E:notimpl" | .notfitted => "E:notfitted"
  | .attr => "E:attr" | .key => "E:key" | .other => "E:other" | .nodata => "E:nodata"

def parseErr? : String → Option Err
  | "E:value" => some .value | "E:type" => some .type | "E:notimpl" => some .notimpl
  | "E:notfitted" => some .notfitted | "E:attr" => some .attr | "E:key" => some .key
  | "E:other" => some .other
  | _ => none

def showSeries (z : Series) : String := s!"{showIntList (labels z)}:{showORatList (values z)}"

def showOut : Out → String
  | .ok => "ok"
  | .err e => showErr e
  | .ser z => showSeries z

def parseInput? (s : String) : Option Input :=
  match s.splitOn ":" with
  | ["notseries"] => some .notSeries
  | ["fidx"] => some .floatIndex
  | ["s", ls, vs] => do
      let ls ← parseIntList? ls
      let vs ← parseORatList? vs
      if ls.length ≠ vs.length then none else pure (.series (ls.zip vs))
  | _ => none

partial def parseCfg? (parts : List String) : Option TState :=
  match parts with
  | ["des", sp, m] => do
      let sp ← parseNat? sp
      let m ← (if m == "A" then some false else if m == "M" then some true else none)
      if sp = 0 then none else pure (.des { sp := sp, mult := m, cond := false })
  | ["cdes", sp, m] => do
      let sp ← parseNat? sp
      let m ← (if m == "A" then some false else if m == "M" then some true else none)
      if sp = 0 then none else pure (.des { sp := sp, mult := m, cond := true })
  | ["det", d] => do
      let d ← parseNat? d
      if d > 1 then none else pure (.det { degree := d })
  | ["bc"] => some (.col { kind := .boxcox })
  | ["log"] => some (.col { kind := .log })
  | ["ad", h] => do
      let h ← parseBool? h
      pure (.col { kind := .adaptor h })
  | ["hampel", w, ns, k] => do
      let w ← parseNat? w
      let ns ← parseRat? ns
      let k ← parseRat? k
      pure (.hampel ⟨⟨w, ns, k⟩, false⟩ false)
  | ["hampel", w, ns, k, rb] => do
      let w ← parseNat? w
      let ns ← parseRat? ns
      let k ← parseRat? k
      let rb ← parseBool? rb
      pure (.hampel ⟨⟨w, ns, k⟩, rb⟩ false)
  | "pass" :: flag :: rest => do
      let flag ← parseBool? flag
      let inner ← parseCfg? rest
      pure (.pass inner inner false flag false)
  | _ => none

/-- an operation as written on the line (input not yet resolved) -/
structure RawOp where
  kind : String
  inp : Input
  ref : Option Nat := none
  d : FitData := {}
  up : Option Bool := none
  aux : List (List Val × List Val) := []

def parseSeasonal? (s : String) : Option (Option (List Rat)) :=
  if s == "none" then some none else (parseRatList? s).map some

def parseIsSeasonal? (s : String) : Option (Option Bool) :=
  if s == "N" then some none else (parseBool? s).map some

def parseFitErr? (s : String) : Option (Option Err) :=
  if s == "ok" then some none else (parseErr? s).map some

/-- `key=value|key=value`: the library function tabulated on the inputs the call may receive -/
def parseAux? (s : String) : Option (List (List Val × List Val)) :=
  if s == "none" then some []
  else (s.splitOn "|").mapM (fun part =>
    match part.splitOn "=" with
    | [k, v] => do
        let k ← parseORatList? k
        let v ← parseORatList? v
        pure (k, v)
    | _ => none)

def parseOp? (s : String) : Option RawOp :=
  match s.splitOn ";" with
  | ["fit", inp, seas, iss, fe] => do
      let inp ← parseInput? inp
      let seas ← parseSeasonal? seas
      let iss ← parseIsSeasonal? iss
      let fe ← parseFitErr? fe
      pure { kind := "fit", inp := inp, d := ⟨seas, iss, fe⟩ }
  | ["upd", inp, up] => do
      let inp ← parseInput? inp
      let up ← (if up == "D" then some none else (parseBool? up).map some)
      pure { kind := "upd", inp := inp, up := up }
  | ["tr", inp, aux] => do
      let inp ← parseInput? inp
      let aux ← parseAux? aux
      pure { kind := "tr", inp := inp, aux := aux }
  | ["inv", inp, ref, aux] => do
      let inp ← parseInput? inp
      let ref ← (if ref == "-" then some none else (parseNat? ref).map some)
      let aux ← parseAux? aux
      pure { kind := "inv", inp := inp, ref := ref, aux := aux }
  | ["ft", inp, seas, iss, fe, aux] => do
      let inp ← parseInput? inp
      let seas ← parseSeasonal? seas
      let iss ← parseIsSeasonal? iss
      let fe ← parseFitErr? fe
      let aux ← parseAux? aux
      pure { kind := "ft", inp := inp, d := ⟨seas, iss, fe⟩, aux := aux }
  | _ => none

/-- the library function for this call: defined (by the supplied table) only on the values it was
evaluated on by the harness; anywhere else it returns `[]` (the model then answers `E:nodata`) -/
def tableFn (aux : List (List Val × List Val)) : List Val → List Val :=
  fun xs => match aux.find? (fun kv => kv.1 == xs) with
    | some kv => kv.2
    | none => []

def resolve (c : Int) (outs : Array Out) (r : RawOp) : Input :=
  match r.ref with
  | some k => match outs[k]? with
    | some (.ser z) => .series z
    | _ => shiftInput c r.inp
  | none => shiftInput c r.inp

def toOp (r : RawOp) (inp : Input) : Option Op :=
  let f := tableFn r.aux
  match r.kind with
  | "fit" => some (.fit inp r.d)
  | "upd" => some (.update inp r.up)
  | "tr" => some (.transform inp f)
  | "inv" => some (.inverse inp f)
  | "ft" => some (.fitTransform inp r.d f)
  | _ => none

def runHist (c : Int) (st0 : TState) (ops : List RawOp) : Option (List Out) :=
  let rec go (st : TState) (outs : Array Out) : List RawOp → Option (List Out)
    | [] => some outs.toList
    | r :: rs =>
      match toOp r (resolve c outs r) with
      | none => none
      | some op =>
        let res := step polyReg st op
        go res.1 (outs.push res.2) rs
  go st0 #[] ops

def showOuts (os : List Out) : String := " ".intercalate (os.map showOut)

def handle (toks : List String) : String :=
  match toks with
  | "hist" :: cfg :: shift :: ops =>
    match parseCfg? (cfg.splitOn ":"), parseInt? shift, ops.mapM parseOp? with
    | some st, some c, some ops =>
      match runHist 0 st ops with
      | none => "bad-op"
      | some o1 =>
        if c = 0 then showOuts o1
        else match runHist c st ops with
          | none => "bad-op"
          | some o2 => showOuts o1 ++ " ## " ++ showOuts o2
    | _, _, _ => "bad-op"
  | _ => "bad-op"

end SkVerif.Drv.C13
