/- Driver for C13 (stub: not built yet). -/
namespace SkVerif.Drv.C13
def handle (_toks : List String) : String := "bad-op"
end SkVerif.Drv.C13
