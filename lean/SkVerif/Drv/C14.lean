/- Driver for C14 (stub: not built yet). -/
namespace SkVerif.Drv.C14
def handle (_toks : List String) : String := "bad-op"
end SkVerif.Drv.C14
