/-
Driver for C14 (closed-form transformers).  Import-free apart from the models.
Line:  `<op> <fields…>` (the leading property id is stripped by `runLoop`).
Panels: instances separated by `|`, columns by `;`, values by `,`; an empty cell is `e`.
Tables (2-D): rows separated by `|`, values by `,`; an empty row is `e`.
-/
import SkVerif.Model.C14Interp
import SkVerif.Model.C14Feat
import SkVerif.Model.C14Slope
import SkVerif.Model.C14Labels
import SkVerif.Drv.Parse
namespace SkVerif.Drv.C14
open SkVerif SkVerif.C14 SkVerif.Drv

def showErr : Err → String
  | .value => "E:value" | .type => "E:type" | .index => "E:index" | .attr => "E:attr"
  | .notimpl => "E:notimpl" | .other => "E:other"

def showE {α} (f : α → String) : Except Err α → String
  | .ok a => f a
  | .error e => showErr e

def parseCell? (s : String) : Option Cell :=
  if s == "e" then some [] else (s.splitOn ",").mapM parseRat?

def parseInst? (s : String) : Option Inst := (s.splitOn ";").mapM parseCell?

/-- `_` = panel without instances -/
def parsePanel? (s : String) : Option Panel :=
  if s == "_" then some [] else (s.splitOn "|").mapM parseInst?

def showCell (c : Cell) : String := if c.isEmpty then "e" else ",".intercalate (c.map showRat)
def showInst (i : Inst) : String := ";".intercalate (i.map showCell)
def showPanel (p : Panel) : String := if p.isEmpty then "_" else "|".intercalate (p.map showInst)
def showTable (t : List (List Rat)) : String := if t.isEmpty then "_" else "|".intercalate (t.map showCell)

/-- panels whose values may be NaN (`nan`) -/
def parseOCell? (s : String) : Option (List (Option Rat)) :=
  if s == "e" then some [] else (s.splitOn ",").mapM parseORat?

def parseOPanel? (s : String) : Option (PanelOf (Option Rat)) :=
  if s == "_" then some [] else (s.splitOn "|").mapM (fun i => (i.splitOn ";").mapM parseOCell?)

def showOCell (c : List (Option Rat)) : String := if c.isEmpty then "e" else ",".intercalate (c.map showORat)
def showOPanel (p : PanelOf (Option Rat)) : String :=
  if p.isEmpty then "_" else "|".intercalate (p.map (fun i => ";".intercalate (i.map showOCell)))

def parseOInt? (s : String) : Option (Option Int) :=
  if s == "none" then some none else (parseInt? s).map some

/-- container kind used by the harness for the real code (`S` Series cells, `A` ndarray cells, `N` 3-D
array); validated, but the model is the same for all three -/
def parseKind? (s : String) : Option Unit :=
  if s == "S" || s == "A" || s == "N" then some () else none

def parseIntParam? (s : String) : Option IntParam :=
  if s == "notint" then some .notInt else (parseInt? s).map IntParam.int

/-- `count:<k>` | `rows:<a>,<b>/<a>,<b>/…` | `other` -/
def parseIntervals? (s : String) : Option Intervals :=
  match s.splitOn ":" with
  | ["count", k] => (parseInt? k).map Intervals.count
  | ["rows", rs] => ((rs.splitOn "/").mapM parseIntList?).map Intervals.rows
  | ["other"] => some .other
  | _ => none

def parseNoneOrRat? (s : String) : Option (Option Rat) :=
  if s == "none" then some none else (parseRat? s).map some

def parseMethod? (s : String) : Option Method :=
  match s with
  | "ffill" => some .ffill | "pad" => some .ffill | "bfill" => some .bfill | "backfill" => some .bfill
  | "constant" => some .constant | "mean" => some .mean | "median" => some .median
  | "linear" => some .linear | "nearest" => some .nearest | "drift" => some .drift
  | "unknown" => some .unknown
  | _ => none

def parseFeat? (s : String) : Option Feat :=
  match s with
  | "mean" => some .mean | "var" => some .var | "min" => some .min | "max" => some .max
  | "slope" => some .slope | "sum" => some .sum | "range" => some .range
  | _ => none

def parsePair? (s : String) : Option (Int × Int) :=
  match s.splitOn ":" with
  | [a, b] => do let a ← parseInt? a; let b ← parseInt? b; pure (a, b)
  | _ => none

def parsePairs? (s : String) : Option (List (Int × Int)) :=
  if s == "-" then some [] else (s.splitOn "/").mapM parsePair?

/-- table of a library function given by the harness: `x:y,x:y,…` -/
def parseFnTable? (s : String) : Option (List (Rat × Rat)) :=
  if s == "-" then some [] else (s.splitOn ",").mapM (fun p =>
    match p.splitOn ":" with
    | [a, b] => do let a ← parseRat? a; let b ← parseRat? b; pure (a, b)
    | _ => none)

def lookupFn (tbl : List (Rat × Rat)) (x : Rat) : Rat := ((tbl.find? (fun p => p.1 == x)).map (·.2)).getD 0

def showOTable (t : List (List (Option Rat))) : String :=
  if t.isEmpty then "_" else "|".intercalate (t.map (fun r => if r.isEmpty then "e" else ",".intercalate (r.map showORat)))

def cumsum (xs : List Rat) : List Rat := (xs.foldl (fun (acc : List Rat × Rat) x => (acc.1 ++ [acc.2 + x], acc.2 + x)) ([], 0)).1

def parseSeriesFn? (s : String) : Option (List Rat → List Rat) :=
  match s.splitOn "=" with
  | ["cumsum"] => some cumsum
  | ["rev"] => some List.reverse
  | ["head2"] => some (List.take 2)
  | ["tbl", t] => (parseFnTable? t).map (fun tbl => List.map (lookupFn tbl))
  | _ => none

def handle (toks : List String) : String :=
  match toks with
  | ["impute", m, value, mv, z] =>
    match parseMethod? m, parseNoneOrRat? value, parseNoneOrRat? mv, parseORatList? z with
    | some m, some v, some mv, some z => showE showORatList (impute m v mv z)
    | _, _, _, _ => "bad-op"
  | ["imputef", m, value, mv, zs] =>
    -- a frame: the same Imputer column by column (`;` separates the columns)
    match parseMethod? m, parseNoneOrRat? value, parseNoneOrRat? mv, (zs.splitOn ";").mapM parseORatList? with
    | some m, some v, some mv, some zs =>
      showE (fun cols => ";".intercalate (cols.map showORatList)) (zs.mapM (impute m v mv))
    | _, _, _, _ => "bad-op"
  | ["slopet", k, x] =>
    -- per segment `sign(r), 2w/r` (`0,0` when r = 0, where the code returns gradient 0)
    match parseIntParam? k, parsePanel? x with
    | some k, some x =>
      showE (fun p => if p.isEmpty then "_" else "|".intercalate (p.map (fun inst => ";".intercalate (inst.map (fun cell =>
        if cell.isEmpty then "e" else ",".intercalate (cell.map (fun (wr : Rat × Rat) =>
          if wr.2 = 0 then "0,0" else s!"{if wr.2 > 0 then "1" else "-1"},{showRat (2 * wr.1 / wr.2)}")))))))
        (slopeTransform k x)
    | _, _ => "bad-op"
  | ["rife", feats, ivs, x] =>
    match (feats.splitOn ",").mapM parseFeat?, parsePairs? ivs, parsePanel? x with
    | some fs, some ivs, some x => showE showOTable (rife fs ivs x)
    | _, _, _ => "bad-op"
  | ["rowprim", "mean", x] =>
    match parsePanel? x with
    | some x => showE showOTable (rowPrimitives (fun inst => inst.map mean?) x)
    | none => "bad-op"
  | ["rowser", fn, x] =>
    match parseSeriesFn? fn, parsePanel? x with
    | some f, some x => showE showPanel (rowSeries (fun inst => inst.map f) x)
    | _, _ => "bad-op"
  | ["acf", adj, nlags, z] =>
    match parseBool? adj, parseInt? nlags, parseRatList? z with
    | some adj, some nl, some z => showE showORatList (acf adj nl z)
    | _, _, _ => "bad-op"
  | ["cos", tbl, z] =>
    match parseFnTable? tbl, parseRatList? z with
    | some tbl, some z => showRatList (mapSeries (lookupFn tbl) z)
    | _, _ => "bad-op"
  | ["adapt", t, zfit, z] =>
    match parseInst? zfit, parseInst? z with
    | some zf, some z =>
      if t == "minmax" then showE showInst (adaptor minMax zf z)
      else if t == "maxabs" then showE showInst (adaptor maxAbs zf z)
      else "bad-op"
    | _, _ => "bad-op"
  | ["paa", k, x] =>
    match parseIntParam? k, parsePanel? x with
    | some k, some x => showE showPanel (paa k x)
    | _, _ => "bad-op"
  | ["iseg", iv, xfit, x] =>
    match parseIntervals? iv, parsePanel? xfit, parsePanel? x with
    | some iv, some xf, some x => showE showPanel (iseg iv xf x)
    | _, _, _ => "bad-op"
  | ["slide", w, x] =>
    match parseIntParam? w, parsePanel? x with
    | some w, some x => showE showPanel (slidingWindow w x)
    | _, _ => "bad-op"
  | ["interp", kind, len, x] =>
    match parseKind? kind, parseIntParam? len, parsePanel? x with
    | some _, some len, some x => showE showPanel (interpolate len x)
    | _, _, _ => "bad-op"
  | ["pad", kind, padLen, fill, xfit, x] =>
    match parseKind? kind, parseOInt? padLen, parseORat? fill, parseOPanel? xfit, parseOPanel? x with
    | some _, some pl, some f, some xf, some x => showE showOPanel (pad pl f xf x)
    | _, _, _, _, _ => "bad-op"
  | ["trunc", kind, lower, upper, xfit, x] =>
    match parseKind? kind, parseOInt? lower, parseOInt? upper, parsePanel? xfit, parsePanel? x with
    | some _, some lo, some up, some xf, some x => showE showPanel (truncate lo up xf x)
    | _, _, _, _, _ => "bad-op"
  | ["tab", x] =>
    match parsePanel? x with
    | some x => showE showTable (tabularize x)
    | none => "bad-op"
  | ["tabl", kind, labels, t0, x] =>
    -- nested data frame with column labels `l1,l2,…` and cells indexed from `t0`: `names=table`
    match parseKind? kind, parseNat? t0, parsePanel? x with
    | some _, some t0, some x =>
      showE (fun r => ",".intercalate (r.1.map (fun n => n.1 ++ "__" ++ toString n.2)) ++ "=" ++ showTable r.2)
        (tabularizeL (labels.splitOn ",") t0 x)
    | _, _, _ => "bad-op"
  | ["concatl", kind, labels, x] =>
    match parseKind? kind, parsePanel? x with
    | some _, some x => showE showPanel (columnConcatL (labels.splitOn ",") x)
    | _, _ => "bad-op"
  | ["concat", x] =>
    match parsePanel? x with
    | some x => showE showPanel (columnConcat x)
    | none => "bad-op"
  | _ => "bad-op"

end SkVerif.Drv.C14
