/-
Driver for C14 (closed-form transformers).  Import-free apart from the models.
Line:  `<op> <fields…>` (the leading property id is stripped by `runLoop`).
Panels: instances separated by `|`, columns by `;`, values by `,`; an empty cell is `e`.
Tables (2-D): rows separated by `|`, values by `,`; an empty row is `e`.
-/
import SkVerif.Model.C14Interp
import SkVerif.Drv.Parse
namespace SkVerif.Drv.C14
open SkVerif SkVerif.C14 SkVerif.Drv

def showErr : Err → String
  | .value => "E:value" | .type => "E:type" | .index => "E:index" | .attr => "E:attr"
  | .notimpl => "E:notimpl" | .other => "E:other"

def showE {α} (f : α → String) : Except Err α → String
  | .ok a => f a
  | .error e => showErr e

def parseCell? (s : String) : Option Cell :=
  if s == "e" then some [] else (s.splitOn ",").mapM parseRat?

def parseInst? (s : String) : Option Inst := (s.splitOn ";").mapM parseCell?

/-- `0` = panel without instances -/
def parsePanel? (s : String) : Option Panel :=
  if s == "0" then some [] else (s.splitOn "|").mapM parseInst?

def showCell (c : Cell) : String := if c.isEmpty then "e" else ",".intercalate (c.map showRat)
def showInst (i : Inst) : String := ";".intercalate (i.map showCell)
def showPanel (p : Panel) : String := if p.isEmpty then "0" else "|".intercalate (p.map showInst)
def showTable (t : List (List Rat)) : String := if t.isEmpty then "0" else "|".intercalate (t.map showCell)

def parseOInt? (s : String) : Option (Option Int) :=
  if s == "none" then some none else (parseInt? s).map some

def parseKind? (s : String) : Option CellKind :=
  if s == "S" then some .series else if s == "A" then some .array
  else if s == "N" then some .numpy3d else none

def parseIntParam? (s : String) : Option IntParam :=
  if s == "notint" then some .notInt else (parseInt? s).map IntParam.int

/-- `count:<k>` | `rows:<a>,<b>/<a>,<b>/…` | `other` -/
def parseIntervals? (s : String) : Option Intervals :=
  match s.splitOn ":" with
  | ["count", k] => (parseInt? k).map Intervals.count
  | ["rows", rs] => ((rs.splitOn "/").mapM parseIntList?).map Intervals.rows
  | ["other"] => some .other
  | _ => none

def handle (toks : List String) : String :=
  match toks with
  | ["paa", k, x] =>
    match parseIntParam? k, parsePanel? x with
    | some k, some x => showE showPanel (paa k x)
    | _, _ => "bad-op"
  | ["iseg", iv, xfit, x] =>
    match parseIntervals? iv, parsePanel? xfit, parsePanel? x with
    | some iv, some xf, some x => showE showPanel (iseg iv xf x)
    | _, _, _ => "bad-op"
  | ["slide", w, x] =>
    match parseIntParam? w, parsePanel? x with
    | some w, some x => showE showPanel (slidingWindow w x)
    | _, _ => "bad-op"
  | ["interp", kind, len, x] =>
    match parseKind? kind, parseIntParam? len, parsePanel? x with
    | some k, some len, some x => showE showPanel (interpolate k len x)
    | _, _, _ => "bad-op"
  | ["pad", kind, padLen, fill, xfit, x] =>
    match parseKind? kind, parseOInt? padLen, parseRat? fill, parsePanel? xfit, parsePanel? x with
    | some k, some pl, some f, some xf, some x => showE showPanel (pad k pl f xf x)
    | _, _, _, _, _ => "bad-op"
  | ["trunc", kind, lower, upper, xfit, x] =>
    match parseKind? kind, parseOInt? lower, parseOInt? upper, parsePanel? xfit, parsePanel? x with
    | some k, some lo, some up, some xf, some x => showE showPanel (truncate k lo up xf x)
    | _, _, _, _, _ => "bad-op"
  | ["tab", x] =>
    match parsePanel? x with
    | some x => showE showTable (tabularize x)
    | none => "bad-op"
  | ["concat", x] =>
    match parsePanel? x with
    | some x => showE showPanel (columnConcat x)
    | none => "bad-op"
  | _ => "bad-op"

end SkVerif.Drv.C14
