/-
Driver for C17 (line protocol).  Import-free apart from the model and the shared parser.
Encodings: label `i:<int>` / `s:<string>`; label list `a,b,c` (`-` = empty); row `q,q,q` (`-` = empty);
matrix = rows joined by `;` (`_` = no rows); list of matrices joined by `|`; NaN = `nan`.
-/
import SkVerif.Model.Proba
import SkVerif.Drv.Parse
namespace SkVerif.Drv.C17
open SkVerif SkVerif.C17 SkVerif.Drv

def showErr : Err → String
  | .value => "E:value" | .key => "E:key" | .index => "E:index" | .type => "E:type"

def parseLabel? (s : String) : Option Label :=
  if s.startsWith "i:" then (parseInt? (s.drop 2).toString).map Label.int
  else if s.startsWith "s:" then some (Label.str (s.drop 2).toString)
  else none

def parseLabels? (s : String) : Option (List Label) :=
  if s == "-" then some [] else (s.splitOn ",").mapM parseLabel?

def showLabel : Label → String
  | .int i => s!"i:{i}"
  | .str s => s!"s:{s}"

def showLabels (l : List Label) : String :=
  if l.isEmpty then "-" else ",".intercalate (l.map showLabel)

def parseMat? (s : String) : Option Mat :=
  if s == "_" then some [] else (s.splitOn ";").mapM parseRatList?

def parseMats? (s : String) : Option (List Mat) :=
  if s == "~" then some [] else (s.splitOn "|").mapM parseMat?

def showMat (m : Mat) : String :=
  if m.isEmpty then "_" else ";".intercalate (m.map showRatList)

def showOMat (m : List (List (Option Rat))) : String :=
  if m.isEmpty then "_" else ";".intercalate (m.map showORatList)

def parseLabelRows? (s : String) : Option (List (List Label)) :=
  if s == "_" then some [] else (s.splitOn ";").mapM parseLabels?

def showScore (yTrue : List Label) : Except Err (List Label) → String
  | .error e => showErr e
  | .ok p => match score yTrue p with
    | .ok q => showRat q
    | .error e => showErr e

def showPred : Except Err (List Label) → String
  | .ok p => showLabels p
  | .error e => showErr e

/-- `forest <y_train> <members> <y_test>` -/
def doForest (ytr : List Label) (members : List Mat) (yte : List Label) (avg : Bool) : String :=
  let classes := classesOf ytr
  let pr := if avg then avgProba members else forestProba classes.length members
  match pr with
  | .error e => s!"classes={showLabels classes} proba={showErr e}"
  | .ok P =>
    let pred := predictArgmax classes P
    s!"classes={showLabels classes} proba={showMat P} pred={showPred pred} score={showScore yte pred}"

def doVotes (classes : List Label) (P : Except Err (List (List (Option Rat)))) (draws : List Nat) (yte : List Label) : String :=
  match P with
  | .error e => s!"classes={showLabels classes} proba={showErr e}"
  | .ok P =>
    let pred := ensemblePredict classes P draws
    s!"classes={showLabels classes} proba={showOMat P} pred={showPred pred} score={showScore yte pred}"

def parseKey? (s : String) : Option Key :=
  if s.startsWith "k" then (parseInt? (s.drop 1).toString).map Key.int
  else if s.startsWith "K" then (parseIntList? (s.drop 1).toString).map Key.ints
  else if s.startsWith "n" then some (Key.name (s.drop 1).toString)
  else if s.startsWith "N" then
    let r := (s.drop 1).toString
    some (Key.names (if r == "-" then [] else r.splitOn ","))
  else none

def parseEntry? (s : String) : Option Entry :=
  if s.startsWith "d:" then (parseKey? (s.drop 2).toString).map (fun k => ⟨true, k⟩)
  else if s.startsWith "e:" then (parseKey? (s.drop 2).toString).map (fun k => ⟨false, k⟩)
  else none

def parseEntries? (s : String) : Option (List Entry) := (s.splitOn ";").mapM parseEntry?

def parseIvs? (s : String) : Option (List (Nat × Nat)) :=
  if s == "-" then some []
  else (s.splitOn ",").mapM (fun t => match t.splitOn ":" with
    | [a, b] => do let a ← parseNat? a; let b ← parseNat? b; pure (a, b)
    | _ => none)

def showIvs (l : List (Nat × Nat)) : String :=
  if l.isEmpty then "-" else ",".intercalate (l.map (fun p => s!"{p.1}:{p.2}"))

def handle (toks : List String) : String :=
  match toks with
  | ["forest", ytr, mem, yte] =>
    match parseLabels? ytr, parseMats? mem, parseLabels? yte with
    | some ytr, some mem, some yte => doForest ytr mem yte false
    | _, _, _ => "bad-op"
  | ["reg", mem] =>
    match parseMat? mem with
    | some rows => match regPredict rows with
      | .ok r => s!"pred={showRatList r}"
      | .error e => s!"pred={showErr e}"
    | none => "bad-op"
  | ["boss", ytr, n, preds, draws, yte] =>
    match parseLabels? ytr, parseNat? n, parseLabelRows? preds, parseNatList? draws, parseLabels? yte with
    | some ytr, some n, some preds, some draws, some yte =>
      let classes := classesOf ytr
      doVotes classes (bossProba classes n preds) draws yte
    | _, _, _, _, _ => "bad-op"
  | ["cboss", ytr, n, preds, accs, draws, yte] =>
    match parseLabels? ytr, parseNat? n, parseLabelRows? preds, parseRatList? accs, parseNatList? draws, parseLabels? yte with
    | some ytr, some n, some preds, some accs, some draws, some yte =>
      if preds.length ≠ accs.length then "bad-op"
      else
        let classes := classesOf ytr
        let members := cbossFitted (preds.zip accs)
        s!"w={showRatList (members.map (·.2))} " ++ doVotes classes (cbossProba classes n members) draws yte
    | _, _, _, _, _, _ => "bad-op"
  | ["bossfit", L, minW] =>
    match parseNat? L, parseNat? minW with
    | some L, some minW =>
      match windowCheck minW L with
      | .error e => s!"fit={showErr e}"
      | .ok _ => "fit=ok"
    | _, _ => "bad-op"
  | ["stsf", ytr, mcs, mem, yte] =>
    match parseLabels? ytr, parseLabelRows? mcs, parseMats? mem, parseLabels? yte with
    | some ytr, some mcs, some mem, some yte =>
      if mcs.length ≠ mem.length then "bad-op"
      else
        let classes := classesOf ytr
        match stsfProba classes (mcs.zip mem) with
        | .error e => s!"classes={showLabels classes} proba={showErr e}"
        | .ok P =>
          let pred := predictArgmax classes P
          s!"classes={showLabels classes} proba={showMat P} pred={showPred pred} score={showScore yte pred}"
    | _, _, _, _ => "bad-op"
  | ["indiv", ytr, preds] =>
    match parseLabels? ytr, parseLabels? preds with
    | some ytr, some preds =>
      let classes := classesOf ytr
      match indivProba classes preds with
      | .ok P => s!"classes={showLabels classes} proba={showMat P}"
      | .error e => s!"classes={showLabels classes} proba={showErr e}"
    | _, _ => "bad-op"
  | ["colens", ytr, cols, entries, mem, yte] =>
    match parseLabels? ytr, parseEntries? entries, parseMats? mem, parseLabels? yte with
    | some ytr, some es, some mem, some yte =>
      let colNames := if cols == "-" then [] else cols.splitOn ","
      match ceMembers colNames es with
      | .error e => s!"cols={showErr e}"
      | .ok cs =>
        let shown := if cs.isEmpty then "~" else "|".intercalate (cs.map showNatList)
        s!"cols={shown} " ++ doForest ytr mem yte true
    | _, _, _, _ => "bad-op"
  | ["base", ytr, P, yte] =>
    match parseLabels? ytr, parseMat? P, parseLabels? yte with
    | some ytr, some P, some yte =>
      let classes := classesOf ytr
      let pred := predictArgmax classes P
      s!"classes={showLabels classes} pred={showPred pred} score={showScore yte pred}"
    | _, _, _ => "bad-op"
  | ["deleg", ytr, pred, yte] =>
    match parseLabels? ytr, parseLabels? pred, parseLabels? yte with
    | some ytr, some pred, some yte =>
      s!"classes={showLabels (classesOf ytr)} score={showScore yte (.ok pred)}"
    | _, _, _ => "bad-op"
  | ["feat", X, ivs] =>
    match parseMat? X, parseIvs? ivs with
    | some X, some ivs => s!"feat={showOMat (transform X ivs)}"
    | _, _ => "bad-op"
  | ["tsfit", L, m, nEst, draws] =>
    match parseNat? L, parseNat? m, parseNat? nEst, parseNatList? draws with
    | some L, some m, some nEst, some draws =>
      match fitIntervals L m nEst draws with
      | .error e => s!"nint={nIntervals L} minint={minIntervalAttr L m} fit={showErr e}"
      | .ok (all, hs) =>
        let shown := if all.isEmpty then "~" else "|".intercalate (all.map showIvs)
        s!"nint={nIntervals L} minint={minIntervalAttr L m} highs={showNatList hs} ivs={shown}"
    | _, _, _, _ => "bad-op"
  | _ => "bad-op"

end SkVerif.Drv.C17
