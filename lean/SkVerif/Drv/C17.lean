/- Driver for C17 (stub: not built yet). -/
namespace SkVerif.Drv.C17
def handle (_toks : List String) : String := "bad-op"
end SkVerif.Drv.C17
