/- Driver for C01 (stub: not built yet). -/
namespace SkVerif.Drv.C01
def handle (_toks : List String) : String := "bad-op"
end SkVerif.Drv.C01
