import SkVerif.Model.Split
import SkVerif.Drv.Parse
namespace SkVerif.Drv.C01
open SkVerif SkVerif.Split SkVerif.Drv

def showErr : Err → String
  | .type => "E:type" | .value => "E:value" | .index => "E:index" | .key => "E:key"

def showE {α} (f : α → String) : Except Err α → String
  | .ok a => f a
  | .error e => showErr e

def showFold (f : Fold) : String := s!"{showIntList f.1}|{showIntList f.2}"
def showFolds (fs : List Fold) : String :=
  if fs.isEmpty then "none" else ";".intercalate (fs.map showFold)

def parseOInt? (s : String) : Option (Option Int) :=
  if s == "none" then some none else (parseInt? s).map some

def parseSize? (s : String) : Option Size :=
  match s.splitOn ":" with
  | ["none"] => some .none
  | ["i", k] => (parseInt? k).map Size.int
  | ["f", q] => (parseRat? q).map Size.frac
  | _ => none

def handle (toks : List String) : String :=
  match toks with
  | ["win", k, n, fh, wl, step, iw, sww] =>
    match (if k == "s" then some Kind.sliding else if k == "e" then some Kind.expanding else none),
          parseInt? n, parseIntList? fh, parseInt? wl, parseInt? step, parseOInt? iw, parseBool? sww with
    | some k, some n, some fh, some wl, some step, some iw, some sww =>
      s!"split={showE showFolds (windowSplit k n fh wl step iw sww)} cut={showE showIntList (windowCutoffs n fh wl step iw sww)} ns={showE toString (windowNSplits n fh wl step iw sww)}"
    | _, _, _, _, _, _, _ => "bad-op"
  | ["single", n, fh, wl] =>
    match parseInt? n, parseIntList? fh, parseOInt? wl with
    | some n, some fh, some wl =>
      s!"split={showE showFolds (singleSplit n fh wl)} cut={showE showIntList (singleCutoffs n fh)} ns=1"
    | _, _, _ => "bad-op"
  | ["cutoff", n, cs, fh, wl] =>
    match parseInt? n, parseIntList? cs, parseIntList? fh, parseInt? wl with
    | some n, some cs, some fh, some wl =>
      s!"split={showE showFolds (cutoffSplit n cs fh wl)} cut={showE showIntList (cutoffCutoffs cs)} ns={cs.length}"
    | _, _, _, _ => "bad-op"
  | ["ttsfh", n, fh, rel] =>
    match parseInt? n, parseIntList? fh, parseBool? rel with
    | some n, some fh, some rel =>
      s!"tts={showE showFold (if rel then ttsByFhRel n fh else ttsByFhAbs n fh)}"
    | _, _, _ => "bad-op"
  | ["ttssize", n, te, tr] =>
    match parseInt? n, parseSize? te, parseSize? tr with
    | some n, some te, some tr => s!"tts={showE showFold (ttsBySize n te tr)}"
    | _, _, _ => "bad-op"
  | _ => "bad-op"

end SkVerif.Drv.C01
