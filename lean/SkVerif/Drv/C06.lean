/-
Driver for C06 (forecast accuracy metrics).  Import-free apart from the model.
Line (tokens after the property id):
  <via> <metric> <yt> <yp> <yb> <ytr> <sp> <ix> <hw> <mo> <sym> <sqrt> <thr> <left> <right> <rlf>
  via    f | c                      (function call / class wrapper call)
  mat    columns separated by ';', values by ','   ('-' = one column of length 0); 'none' where optional
  ytr    none | <mat> | list:<mat>
  ix     none | <trainMaxLabel>:<trueMinLabel>
  hw     none | <ratlist>
  mo     raw | uni | bad | w:<ratlist>
  left/right  squared | absolute | bad
  rlf    mae | mse | mdae | mdse | mape | mdape | mspe | mdspe
Answer: `raw:<k>:<q,…>` | `avg:<k>:<w,…|->:<q,…>` | `E:<kind>` | `nan`; for via=c `cls=<…> fn=<…>`.
-/
import SkVerif.Model.Metrics
import SkVerif.Drv.Parse
namespace SkVerif.Drv.C06
open SkVerif SkVerif.Metrics SkVerif.Drv

/-- EPS = np.finfo(np.float64).eps = 2^-52 -/
def EPS : Rat := 1 / 4503599627370496

def showErr : Err → String
  | .value => "E:value" | .type => "E:type" | .key => "E:key" | .zerodiv => "E:zerodiv"
  | .attr => "E:attr" | .nan => "nan" | .unsupported => "E:unsupported"

def showOut : Out → String
  | .raw k qs => s!"raw:{k}:{showRatList qs}"
  | .avg k none qs => s!"avg:{k}:-:{showRatList qs}"
  | .avg k (some w) qs => s!"avg:{k}:{showRatList w}:{showRatList qs}"

def showRes : Except Err Out → String
  | .ok o => showOut o
  | .error e => showErr e

def parseMat? (s : String) : Option Mat := do
  let cols ← (s.splitOn ";").mapM parseRatList?
  match cols with
  | [] => none
  | c :: rest => if rest.all (fun d => d.length == c.length) then some cols else none

def parseOMat? (s : String) : Option (Option Mat) :=
  if s == "none" then some none else (parseMat? s).map some

def parseTrain? (s : String) : Option (Option Train) :=
  if s == "none" then some none
  else match s.splitOn ":" with
    | [m] => (parseMat? m).map (fun m => some (.arr m))
    | ["list", m] => (parseMat? m).map (fun m => some (.list m))
    | _ => none

def parseIx? (s : String) : Option (Option (Int × Int)) :=
  if s == "none" then some none
  else match s.splitOn ":" with
    | [a, b] => do
        let a ← parseInt? a; let b ← parseInt? b
        pure (some (a, b))
    | _ => none

def parseHw? (s : String) : Option (Option (List Rat)) :=
  if s == "none" then some none else (parseRatList? s).map some

def parseMO? (s : String) : Option MO :=
  match s.splitOn ":" with
  | ["raw"] => some .raw
  | ["uni"] => some .uniform
  | ["bad"] => some .bad
  | ["w", l] => (parseRatList? l).map MO.weights
  | _ => none

def parseEF? (s : String) : Option (Option EF) :=
  if s == "squared" then some (some .squared) else if s == "absolute" then some (some .absolute)
  else if s == "bad" then some none else none

def parseBase? : String → Option Base
  | "mae" => some .mae | "mse" => some .mse | "mdae" => some .mdae | "mdse" => some .mdse
  | "mape" => some .mape | "mdape" => some .mdape | "mspe" => some .mspe | "mdspe" => some .mdspe
  | _ => none

def parseMetric? : String → Option Metric
  | "mase" => some .mase | "mdase" => some .mdase | "msse" => some .msse | "mdsse" => some .mdsse
  | "mae" => some .mae | "mse" => some .mse | "mdae" => some .mdae | "mdse" => some .mdse
  | "mape" => some .mape | "mdape" => some .mdape | "mspe" => some .mspe | "mdspe" => some .mdspe
  | "mrae" => some .mrae | "mdrae" => some .mdrae | "gmrae" => some .gmrae | "gmrse" => some .gmrse
  | "masym" => some .masym | "relloss" => some .relloss
  | _ => none

/-- history of a metric object before the final call (the final options are the ones on the line, `old` the ones it
was constructed with): fresh | setp | attr | clone (set_params, then clone) | reuse (an earlier call with y_true and
y_pred exchanged) -/
def history (kind : String) (new : ClsOpts) (yt yp : Mat) (kw : Kw) : Option (List ObjOp) :=
  if kind == "fresh" then some [.call yt yp kw]
  else if kind == "setp" then some [.setParams new, .call yt yp kw]
  else if kind == "attr" then some [.setAttr new, .call yt yp kw]
  else if kind == "clone" then some [.setParams new, .clone, .call yt yp kw]
  else if kind == "reuse" then some [.setParams new, .call yp yt kw, .call yt yp kw]
  else none

def parseOld? (toks : List String) : Option ClsOpts :=
  match toks with
  | [sym, sqrt, sp, thr, l, r, rlf] => do
    let sym ← parseBool? sym; let sqrt ← parseBool? sqrt; let sp ← parseInt? sp; let thr ← parseRat? thr
    let l ← parseEF? l; let r ← parseEF? r; let rlf ← parseBase? rlf
    pure { sym, sqrt, sp, thr, l, r, rlf }
  | _ => none

def handleCore (via metric yt yp yb ytr sp ix hw mo sym sqrt thr l r rlf : String) (hist : Option (String × List String)) :
    String :=
    match parseMetric? metric, parseMat? yt, parseMat? yp, parseOMat? yb, parseTrain? ytr, parseInt? sp,
          parseIx? ix, parseHw? hw with
    | some metric, some yt, some yp, some yb, some ytr, some sp, some ix, some hw =>
      match parseMO? mo, parseBool? sym, parseBool? sqrt, parseRat? thr, parseEF? l, parseEF? r, parseBase? rlf with
      | some mo, some sym, some sqrt, some thr, some l, some r, some rlf =>
        let a : Args := { yt, yp, yb, ytr, sp, ix, hw, mo, sym, sqrt, thr, l, r, rlf }
        if via == "f" then
          match hist with
          | none => showRes (call EPS metric a)
          | some _ => "bad-op"
        else if via == "c" then
          -- the metric object after its history, called with **kwargs, versus the function with the same (final) options
          let kw : Kw := { yb, ytr, ix, hw, mo }
          let new : ClsOpts := { sym, sqrt, sp, thr, l, r, rlf }
          let res : Option (Except Err Out) :=
            match hist with
            | none => some (classCall EPS metric new yt yp kw)
            | some (kind, oldToks) =>
              match parseOld? oldToks, history kind new yt yp kw with
              | some old, some ops =>
                -- a fresh object is constructed with its final options
                let start : Obj := { c := metric, opts := if kind == "fresh" then new else old }
                (Obj.run EPS start ops).getLast?
              | _, _ => none
          match res with
          | some r => s!"cls={showRes r} fn={showRes (call EPS metric a)}"
          | none => "bad-op"
        else "bad-op"
      | _, _, _, _, _, _, _ => "bad-op"
    | _, _, _, _, _, _, _, _ => "bad-op"

def handle (toks : List String) : String :=
  match toks with
  | [via, metric, yt, yp, yb, ytr, sp, ix, hw, mo, sym, sqrt, thr, l, r, rlf] =>
    handleCore via metric yt yp yb ytr sp ix hw mo sym sqrt thr l r rlf none
  | via :: metric :: yt :: yp :: yb :: ytr :: sp :: ix :: hw :: mo :: sym :: sqrt :: thr :: l :: r :: rlf :: kind :: old =>
    handleCore via metric yt yp yb ytr sp ix hw mo sym sqrt thr l r rlf (some (kind, old))
  | _ => "bad-op"

end SkVerif.Drv.C06
