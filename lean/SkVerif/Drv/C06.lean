/- Driver for C06 (stub: not built yet). -/
namespace SkVerif.Drv.C06
def handle (_toks : List String) : String := "bad-op"
end SkVerif.Drv.C06
