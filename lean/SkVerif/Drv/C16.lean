/- Driver for C16 (stub: not built yet). -/
namespace SkVerif.Drv.C16
def handle (_toks : List String) : String := "bad-op"
end SkVerif.Drv.C16
