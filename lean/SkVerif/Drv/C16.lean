/-
Driver for C16.  Lines (after the leading `C16`):

  meta <u:T|F> <k:none|numpy|pandas> <base:N|A>:<dims> <masked positions> <union members> <B rows> <op> ...
      union members = `-` or F<w>/C<w> per member of a feature union, w = number of output columns
                      (F: builds a fresh DataFrame, C: Tabularizer — follows the input container and keeps its labels)
      tied  = positions of the batch whose label was drawn by the random tie-break (masked as `tie`)
      dims  = instances `|`, per instance the series length of each column `,` (`_` = no instance)
      B     = canonical rows of the batch output of the REAL fitted estimator, `|`-separated, opaque
      op    = sel:<idx list>            rows the model predicts for the batch restricted to positions idx
            | lsel:<idx list>           the same with the index labels of the selected rows kept (`X.iloc[idx]`)
            | cont                      the same data in the other container at apply time
            | contfit:<u>:<k>:<dims>    the same training data in the other container at fit time
    answer: b=<ok|E:value> r0=<rows|E:value> r1=...
  shape <term>      term = R | G<term> | C<term><term> | A<term><term> | S | O | D | X      answer: rowwise=T|F
  ens mean <table>;<table>;...   member-major tables (rows `|`, values `,`)   answer: rows of per-instance column means
-/
import SkVerif.Model.C16RowWise
import SkVerif.Drv.Parse
namespace SkVerif.Drv.C16
open SkVerif SkVerif.C16 SkVerif.Drv

def parseDims? (s : String) : Option (List Inst) :=
  if s == "_" then some [] else
  (s.splitOn "|").mapM (fun inst =>
    if inst == "e" then some [] else
    (parseNatList? inst).map (fun ls => ls.map (fun n => List.replicate n (0 : Rat))))

def parseCfg? (u k : String) : Option CheckCfg := do
  let u ← parseBool? u
  match k with
  | "none" => some { univariate := u }
  | "numpy" => some { univariate := u, toNumpy := true }
  | "pandas" => some { univariate := u, toPandas := true }
  | _ => none

def parseBase? (s : String) : Option (Bool × List Inst) :=
  match s.splitOn ":" with
  | ["N", d] => (parseDims? d).map (fun r => (false, r))
  | ["A", d] => (parseDims? d).map (fun r => (true, r))
  | _ => none

def mkX (asArr : Bool) (rows : List Inst) : XIn := if asArr then .arr3 rows else .nested rows

def showRows (rows : List String) : String := if rows.isEmpty then "_" else "|".intercalate rows

def parseRows (s : String) : List String := if s == "_" then [] else s.splitOn "|"

def instancesOf (cfg : CheckCfg) (X : XIn) : Option (List Inst) :=
  match checkX cfg X with
  | .ok X' => some X'.instances
  | .error _ => none

/-- prediction for the same data handed over in both containers: equal instances → the batch output -/
def bothContainers (cfg : CheckCfg) (rows : List Inst) (B : List String) : String :=
  match instancesOf cfg (.nested rows), instancesOf cfg (.arr3 rows) with
  | some a, some b => if a.map (·.map List.length) == b.map (·.map List.length) then showRows B else "DIFF"
  | none, none => "E:value"
  | _, _ => "DIFF"

def parseMembers? (s : String) : Option (List (MemberOut × Nat)) :=
  if s == "-" then some [] else
  (s.splitOn ",").mapM (fun t =>
    match t.toList with
    | 'F' :: w => (String.ofList w).toNat?.map (fun n => (MemberOut.alwaysFrame, n))
    | 'C' :: w => (String.ofList w).toNat?.map (fun n => (MemberOut.followsInput, n))
    | _ => none)

def nanCells (w : Nat) : List String := List.replicate w "nan"

/-- `X.iloc[idx]` with the index labels kept, handed to a union of two members: a member that builds
a fresh frame labels its rows 0..k-1, a member that keeps the caller's index labels them `idx` -/
def labelledSelect (hs : List (MemberOut × Nat)) (idx : List Nat) (B : List String) : String :=
  match hs with
  | [(m1, w1), (m2, w2)] =>
    let cells := (select idx B).map (fun r => r.splitOn ",")
    let lab (m : MemberOut) (part : List (List String)) : List (Int × List String) :=
      match m with
      | .alwaysFrame => freshLabels part
      | .followsInput => (idx.map (fun (i : Nat) => Int.ofNat i)).zip part
    -- FeatureUnion._hstack (since /repo bec276b): every member output is re-labelled 0..k-1 first
    let A := resetIndex (lab m1 (cells.map (fun c => c.take w1)))
    let Bf := resetIndex (lab m2 (cells.map (fun c => c.drop w1)))
    match concat2 A Bf with
    | .ok rows => showRows (rows.map (fun (a, b) => ",".intercalate (a.getD (nanCells w1) ++ b.getD (nanCells w2))))
    | .error _ => "E:other"
  | _ => showRows (select idx B)

def runOp (cfg : CheckCfg) (asArr : Bool) (hs : List (MemberOut × Nat)) (rows : List Inst) (B : List String) (op : String) : Option String :=
  match op.splitOn ":" with
  | ["lsel", idx] => do
      let idx ← parseNatList? idx
      match applyFitted cfg (fun _ => ()) ((mkX asArr rows).select idx) with
      | .ok _ => some (if asArr then showRows (select idx B) else labelledSelect hs idx B)
      | .error _ => some "E:value"
  | ["sel", idx] => do
      let idx ← parseNatList? idx
      match applyFitted cfg (fun _ => ()) ((mkX asArr rows).select idx) with
      | .ok _ => some (showRows (select idx B))
      | .error _ => some "E:value"
  | ["cont"] =>
      match unionAccepts (hs.map (·.1)) (!asArr) with
      | .ok _ => some (bothContainers cfg rows B)
      | .error _ => some "E:type"
  | ["contfit", u, k, d] => do
      let cfgF ← parseCfg? u k
      let rf ← parseDims? d
      some (bothContainers cfgF rf B)
  | _ => none

def parseShapeF : Nat → List Char → Option (Shape × List Char)
  | 0, _ => none
  | fuel + 1, cs =>
    match cs with
    | 'R' :: r => some (.rows 0, r)
    | 'S' :: r => some (.stat 0, r)
    | 'O' :: r => some (.sortInst 0, r)
    | 'D' :: r => some (.dictByValue 0, r)
    | 'X' :: r => some (.unknown 0, r)
    | 'G' :: r => do let (s, r) ← parseShapeF fuel r; some (.guarded s, r)
    | 'C' :: r => do let (s, r) ← parseShapeF fuel r; let (t, r) ← parseShapeF fuel r; some (.comp s t, r)
    | 'A' :: r => do let (s, r) ← parseShapeF fuel r; let (t, r) ← parseShapeF fuel r; some (.agg 0 s t, r)
    | _ => none

def parseShape (cs : List Char) : Option (Shape × List Char) := parseShapeF (cs.length + 1) cs

def parseTable? (s : String) : Option (List (List Rat)) :=
  if s == "_" then some [] else (s.splitOn "|").mapM parseRatList?

def colMean (rows : List (List Rat)) : List Rat :=
  let w := (rows.headD []).length
  (List.range w).map (fun j => (rows.map (fun r => r.getD j 0)).sum / (rows.length : Rat))

def handle (toks : List String) : String :=
  match toks with
  | "meta" :: u :: k :: base :: ties :: hs :: b :: ops =>
    match parseCfg? u k, parseBase? base, parseNatList? ties, parseMembers? hs with
    | some cfg, some (asArr, rows), some ties, some hs =>
      let B := maskTies ties "tie" (parseRows b)
      let bOk := match checkX cfg (mkX asArr rows), unionAccepts (hs.map (·.1)) asArr with
        | .ok _, .ok _ => "ok" | .ok _, .error _ => "E:type" | .error _, _ => "E:value"
      match ops.mapM (runOp cfg asArr hs rows B) with
      | some outs =>
        let outs := if bOk == "ok" then outs else outs.map (fun _ => bOk)
        " ".intercalate (s!"b={bOk}" :: (outs.zipIdx.map (fun (o, i) => s!"r{i}={o}")))
      | none => "bad-op"
    | _, _, _, _ => "bad-op"
  | ["shape", t] =>
    match parseShape t.toList with
    | some (s, []) => s!"rowwise={showBool s.rowWise}"
    | _ => "bad-op"
  | ["ens", "mean", tbls] =>
    match (tbls.splitOn ";").mapM parseTable? with
    | some ms =>
      let n := (ms.headD []).length
      let members : List (List Unit → List (List Rat)) := ms.map (fun t => fun _ => t)
      let out := ensembleBatch members colMean (List.replicate n ())
      showRows (out.map showRatList)
    | none => "bad-op"
  | _ => "bad-op"

end SkVerif.Drv.C16
