/-
Driver for C19.  Line protocol (tokens after the leading `C19`):

  init <nTasks> <nDatasets> <names,>                    -> ok | E:value
  hist <store> <learner> <datasets> <strats> <cv> <runs> -> per run: out, calls, written keys, store snapshot,
                                                            registry, master file, load_predictions for every fold/part
see harness/corr/C19.py for the field syntax.  Import-free (Model + Parse only).
-/
import SkVerif.Model.Orch
import SkVerif.Drv.Parse
namespace SkVerif.Drv.C19
open SkVerif SkVerif.Orch SkVerif.Drv

/-! the harness' estimator, mirrored exactly (harness/corr/C19.py `_Est`) -/

def rowSum (x : List Rat) : Rat :=
  ((List.range x.length).zip x).foldl (fun a (c, v) => a + ((c : Nat) + 1 : Rat) * v) 0

def fitChk (X : List (List Rat)) (y : List Rat) : Rat :=
  ((List.range X.length).zip (X.zip y)).foldl
    (fun a (r, x, t) => a + ((r : Nat) + 1 : Rat) * (t + rowSum x)) 0

def predChk (X : List (List Rat)) : Rat :=
  ((List.range X.length).zip X).foldl (fun a (r, x) => a + ((r : Nat) + 1 : Rat) * rowSum x) 0

/-- `ncls = 0`: regressor -/
def learner (ncls : Nat) : Learner Rat where
  fit p X y := (p : Rat) + fitChk X y
  predict w X :=
    if ncls = 0 then X.map (fun x => w / 2 + rowSum x)
    else X.map (fun x => (((w + rowSum x).num % (ncls : Int) : Int) : Rat))

/-! parsing -/

def splitNE (s : String) (sep : String) : List String :=
  if s == "-" || s == "" then [] else s.splitOn sep

def parseRow? (s : String) : Option (List Rat) := (s.splitOn ",").mapM parseRat?

def parseFeats? (s : String) : Option (Option (List Nat)) :=
  if s == "all" then some none else ((s.splitOn ".").mapM parseNat?).map some

structure PDS where
  name : String
  data : Data
  labels : List Bool   -- presplit: true = "train"

def parseDS? (s : String) : Option PDS :=
  match s.splitOn ":" with
  | [name, tpos, feats, rows, labels] => do
    let tpos ← parseNat? tpos
    let feats ← parseFeats? feats
    let rows ← (splitNE rows "|").mapM parseRow?
    let labs := if labels == "-" then [] else labels.toList.map (· == 'R')
    pure ⟨name, ⟨rows, tpos, feats⟩, labs⟩
  | _ => none

def parseStrat? (s : String) : Option (Strat String) :=
  match s.splitOn ":" with
  | [name, p] => (parseInt? p).map (fun p => ⟨name, p⟩)
  | _ => none

def parseFold? (s : String) : Option (List Nat × List Nat) :=
  match s.splitOn ">" with
  | [a, b] => do
    let a ← parseNatList? a
    let b ← parseNatList? b
    pure (a, b)
  | _ => none

/-- folds per dataset -/
def parseCV? (s : String) (dss : List PDS) : Option (List (List (List Nat × List Nat))) :=
  match s.splitOn ":" with
  | ["kfold", k] => (parseNat? k).map (fun k => dss.map (fun d => kfold d.data.rows.length k))
  | ["single", t] => (parseNat? t).map (fun t => dss.map (fun d => singleSplit d.data.rows.length t))
  | ["presplit", "none"] => some (dss.map (fun d => presplit d.labels none))
  | ["presplit", k] => (parseNat? k).map (fun k => dss.map (fun d => presplit d.labels (some k)))
  | ["given", g] =>
    let per := g.splitOn ";"
    if per.length ≠ dss.length then none
    else per.mapM (fun fs => (splitNE fs "|").mapM parseFold?)
  | _ => none

/-- folds per dataset AND per strategy (a cv object that returns another split on every call):
`givenps:<dataset>;<dataset>` with `<dataset> = <strategy>!<strategy>` and `<strategy> = fold|fold` -/
def parseCVPS? (s : String) (dss : List PDS) : Option (List (List (List (List Nat × List Nat)))) :=
  match s.splitOn ":" with
  | ["givenps", g] =>
    let per := g.splitOn ";"
    if per.length ≠ dss.length then none
    else per.mapM (fun ds => (ds.splitOn "!").mapM (fun fs => (splitNE fs "|").mapM parseFold?))
  | _ => none

/-- `_iter` when `cv.split` answers differently per call: the folds of (dataset, strategy) are that call's -/
def mkWorkPS (pds : List (PDS × List (List (List Nat × List Nat)))) (sts : List (Strat String)) :
    List (Item String) :=
  pds.flatMap (fun (d, perS) => (sts.zip perS).flatMap (fun (s, fs) =>
    foldItems s ⟨d.name, d.data, fs⟩ 0 fs))

/-- `<owP owF saveF pot as T/F>:<fail|none>:<fresh T/F>:<number of strategies used in this run>` -/
def parseRun? (s : String) : Option (RunSpec × Nat) :=
  match s.splitOn ":" with
  | [flags, fail, fresh, ns] =>
    match flags.toList.map (fun c => c == 'T'), parseBool? fresh, parseNat? ns with
    | [owP, owF, saveF, pot], some fresh, some ns =>
      if flags.toList.all (fun c => c == 'T' || c == 'F') then
        if fail == "none" then some (⟨⟨owP, owF, saveF, pot⟩, none, fresh⟩, ns)
        else (parseNat? fail).map (fun k => (⟨⟨owP, owF, saveF, pot⟩, some k, fresh⟩, ns))
      else none
    | _, _, _ => none
  | _ => none

/-- a history in which every run may use a prefix of the strategies (a benchmark that grows) -/
def runHist {K} [DecidableEq K] (cfg : Cfg String K) (L : Learner Rat) (work : List (Strat String) → List (Item String))
    (sts : List (Strat String)) : St String K Rat → List (RunSpec × Nat) → List (Run String K Rat)
  | _, [] => []
  | st, (rs, ns) :: t =>
    let r := runOne cfg L (work (sts.take ns)) st rs
    r :: runHist cfg L work sts r.st t

/-! printing -/

def showErr : Err → String
  | .inject => "E:inject" | .notImpl => "E:notimpl" | .value => "E:value" | .missing => "E:missing"

def joinOr (l : List String) (sep : String) : String := if l.isEmpty then "-" else sep.intercalate l

def showCall : Call String → String
  | .fit it =>
    let tr := iloc it.data it.train
    let X := tr.map (featuresOf it.data)
    let y := tr.map (targetOf it.data)
    s!"f:{it.p}:{X.length}:{(X.headD []).length}:{showRat (fitChk X y)}:0"
  | .predict it part =>
    let X := (iloc it.data (it.idx part)).map (featuresOf it.data)
    s!"p:{it.p}:{X.length}:{(X.headD []).length}:{showRat (predChk X)}:0"

def showHddKey : String × String × Part × Nat → String
  | (s, d, p, f) => s!"{s}/{d}/{s}_{p.str}_{f}"

def showRamKey : String × String × Part × Nat → String
  | (s, d, p, f) => s!"{s}+{d}+{p.str}+{f}"

def showContent (c : Content) : String :=
  s!"{showNatList c.idx}@{showRatList c.yTrue}@{showRatList c.yPred}"

def showLoad {K} [DecidableEq K] (cfg : Cfg String K) (st : St String K Rat) (nfolds : Nat) : String :=
  joinOr ((List.range nfolds).flatMap (fun f => [Part.train, Part.test].map (fun p =>
    let res := match loadPredictions cfg st f p with
      | .error e => showErr e
      | .ok rs => joinOr (rs.map (fun ((s, d, r) : String × String × Rec String) =>
          s!"{s}~{d}~{showNatList r.c.idx}~{showRatList r.c.yTrue}~{showRatList r.c.yPred}")) "&"
    s!"{f}{p.str}={res}"))) "|"

def showRun {K} [DecidableEq K] (cfg : Cfg String K) (showKey : K → String) (nfolds : Nat) (i : Nat)
    (r : Run String K Rat) : String :=
  let out := match r.err with | none => "ok" | some e => showErr e
  let master := match r.st.master with
    | none => "none"
    | some (s, d) => s!"{joinOr s ","}+{joinOr d ","}"
  " ".intercalate [
    s!"r{i}.out={out}",
    s!"r{i}.calls={joinOr (r.log.map showCall) "|"}",
    s!"r{i}.wr={joinOr ((r.wrRecs.map (fun k => "rec:" ++ showKey k)) ++ (r.wrStrats.map (fun k => "str:" ++ showKey k))) "|"}",
    s!"r{i}.recs={joinOr (r.st.recs.map (fun (k, v) => showKey k ++ "@" ++ showContent v.c)) "|"}",
    s!"r{i}.strats={joinOr (r.st.strats.map (fun (k, v) => showKey k ++ "@" ++ showRat v.w)) "|"}",
    s!"r{i}.master={master}",
    s!"r{i}.reg={joinOr r.st.regS ","}+{joinOr r.st.regD ","}",
    s!"r{i}.load={showLoad cfg r.st nfolds}",
    -- reading back through a NEW results object over the same path that takes its registry from the master file
    s!"r{i}.reload={match r.st.master with
      | none => "none"
      | some (s, d) => showLoad cfg { r.st with regS := s, regD := d } nfolds}" ]

def showHistory {K} [DecidableEq K] (cfg : Cfg String K) (showKey : K → String) (nfolds : Nat)
    (rs : List (Run String K Rat)) : String :=
  " ".intercalate (((List.range rs.length).zip rs).map (fun (i, r) => showRun cfg showKey nfolds i r))

def handle (toks : List String) : String :=
  match toks with
  | ["init", nt, nd, names] =>
    match parseNat? nt, parseNat? nd with
    | some nt, some nd =>
      match validate nt nd (splitNE names ",") with
      | .ok _ => "ok"
      | .error e => showErr e
    | _, _ => "bad-op"
  | ["hist", store, lrn, dss, strats, cv, runs] =>
    let ncls? : Option Nat := match lrn.splitOn ":" with
      | ["reg"] => some 0
      | ["cls", n] => (parseNat? n).bind (fun n => if n = 0 then none else some n)
      | _ => none
    match ncls?, (splitNE dss ";").mapM parseDS?, (splitNE strats ";").mapM parseStrat?,
          (splitNE runs ";").mapM parseRun? with
    | some ncls, some pds, some sts, some rspecs =>
      let work? : Option ((List (Strat String) → List (Item String)) × Nat) :=
        match parseCV? cv pds with
        | some folds =>
          let dsl : List (DS String) := (pds.zip folds).map (fun (d, f) => ⟨d.name, d.data, f⟩)
          some (mkWork dsl, (folds.map List.length).foldl max 0)
        | none =>
          (parseCVPS? cv pds).map (fun fps =>
            (mkWorkPS (pds.zip fps), ((fps.map (fun perS => (perS.map List.length).foldl max 0))).foldl max 0))
      match work? with
      | none => "bad-op"
      | some (work, nfolds) =>
        let L := learner ncls
        if store == "hdd" then
          showHistory (hddCfg String) showHddKey nfolds (runHist (hddCfg String) L work sts St.empty rspecs)
        else if store == "ram" then
          showHistory (ramCfg String) showRamKey nfolds (runHist (ramCfg String) L work sts St.empty rspecs)
        else "bad-op"
    | _, _, _, _ => "bad-op"
  | _ => "bad-op"

end SkVerif.Drv.C19
