/- Driver for C19 (stub: not built yet). -/
namespace SkVerif.Drv.C19
def handle (_toks : List String) : String := "bad-op"
end SkVerif.Drv.C19
