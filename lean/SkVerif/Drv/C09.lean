/-
Driver for C09.  One line = one composition tree (prefix notation) + one history of calls:

  run <node> | <op> <op> ...
  <node> ::= R tag a b c d                       recording leaf forecaster
           | E agg n (name <node>){n}             EnsembleForecaster (agg = online: OnlineEnsembleForecaster)
           | O k <weights>{k} n (name <node>){n}  OnlineEnsembleForecaster with an ensemble algorithm; the k weight
                                                  vectors are the weights the real algorithm held after each of its updates
           | P n (T tag k m upd skip){n} <node>   TransformedTargetForecaster with the ORIGINAL `update` (raw batch handed on; before 8cf3d7f)
           | Pf n (T ...){n} <node>               TransformedTargetForecaster as coded in /repo (update transforms the batch step by step)
           | M sel n (name <node>){n}             MultiplexForecaster (sel = name | none)
           | S n (name <node>){n} G tag p q       StackingForecaster
  <op>   ::= fit <series> <fh> | upd <series> <T|F> | pred <fh>
           | ups <series> <T|F> <fh>                                  update_predict_single
           | upm <series> <T|F> <s|e> <wl> <step> <sww T|F> <fh|nofh>  update_predict with a Sliding/Expanding splitter
  series = l=v,l=v | -        fh = none | 1,2,3

Answer: the outputs of the calls up to the first failing one (`ok` or the forecast or `E:kind`)
joined by `;`, then ` # ` and the log of everything the recording leaves were handed (only when
no call failed).
-/
import SkVerif.Model.Compose
import SkVerif.Drv.Parse
namespace SkVerif.Drv.C09
open SkVerif SkVerif.Compose SkVerif.Drv

inductive Node
  | leaf (p : LeafP)
  | ens (agg : Option Agg) (ms : List (String × Node))
  | online (fixed : Bool) (tape : List (List Rat)) (ms : List (String × Node))
  | pipe (fixed : Bool) (ts : List TrP) (f : Node)
  | mux (sel : Option String) (ms : List (String × Node))
  | stack (ms : List (String × Node)) (g : RegP)

instance : Inhabited Forecaster := ⟨recF ⟨"", 0, 0, 0, 0⟩⟩

partial def build : Node → Forecaster
  | .leaf p => recF p
  | .ens agg ms => ensemble agg (ms.map (·.1)) (ms.map (fun m => build m.2))
  | .online fixed tape ms => onlineEnsembleG fixed (tapeWeigher tape) (ms.map (·.1)) (ms.map (fun m => build m.2))
  | .pipe fixed ts f => pipelineG fixed (ts.map recT) (build f)
  | .mux sel ms => mux sel (ms.map (·.1)) (ms.map (fun m => build m.2))
  | .stack ms g => stacking (ms.map (·.1)) (ms.map (fun m => build m.2)) (recG g)

def parseAgg? (s : String) : Option (Option Agg) :=
  match s with
  | "mean" => some (some .mean) | "median" => some (some .median) | "min" => some (some .min)
  | "max" => some (some .max) | "online" => some (some .online) | "bad" => some none
  | _ => none

def parseTrs? : Nat → List String → Option (List TrP × List String)
  | 0, toks => some ([], toks)
  | n + 1, "T" :: tag :: k :: m :: upd :: skip :: rest => do
      let k ← parseRat? k; let m ← parseRat? m; let upd ← parseBool? upd; let skip ← parseBool? skip
      let (ts, rest') ← parseTrs? n rest
      pure (⟨tag, k, m, upd, skip⟩ :: ts, rest')
  | _, _ => none

mutual
partial def parseNode? : List String → Option (Node × List String)
  | "R" :: tag :: a :: b :: c :: d :: rest => do
      let a ← parseRat? a; let b ← parseRat? b; let c ← parseRat? c; let d ← parseRat? d
      pure (.leaf ⟨tag, a, b, c, d⟩, rest)
  | "E" :: agg :: n :: rest => do
      let agg ← parseAgg? agg; let n ← parseNat? n
      let (ms, rest') ← parseMembers? n rest
      pure (.ens agg ms, rest')
  | "O" :: k :: rest => parseOnline? false k rest
  | "Of" :: k :: rest => parseOnline? true k rest
  | "P" :: n :: rest => do
      let n ← parseNat? n
      let (ts, rest') ← parseTrs? n rest
      let (f, rest'') ← parseNode? rest'
      pure (.pipe false ts f, rest'')
  | "Pf" :: n :: rest => do
      let n ← parseNat? n
      let (ts, rest') ← parseTrs? n rest
      let (f, rest'') ← parseNode? rest'
      pure (.pipe true ts f, rest'')
  | "M" :: sel :: n :: rest => do
      let n ← parseNat? n
      let (ms, rest') ← parseMembers? n rest
      pure (.mux (if sel == "none" then none else some sel) ms, rest')
  | "S" :: n :: rest => do
      let n ← parseNat? n
      let (ms, rest') ← parseMembers? n rest
      match rest' with
      | "G" :: tag :: p :: q :: rest'' => do
          let p ← parseRat? p; let q ← parseRat? q
          pure (.stack ms ⟨tag, p, q⟩, rest'')
      | _ => none
  | _ => none
partial def parseOnline? (fixed : Bool) (k : String) (rest : List String) : Option (Node × List String) := do
  let k ← parseNat? k
  let tape ← (rest.take k).mapM parseRatList?
  match rest.drop k with
  | n :: rest' => do
      let n ← parseNat? n
      let (ms, rest'') ← parseMembers? n rest'
      pure (.online fixed tape ms, rest'')
  | [] => none
partial def parseMembers? : Nat → List String → Option (List (String × Node) × List String)
  | 0, toks => some ([], toks)
  | n + 1, name :: rest => do
      let (nd, rest') ← parseNode? rest
      let (ms, rest'') ← parseMembers? n rest'
      pure ((name, nd) :: ms, rest'')
  | _, _ => none
end

def parseSeries? (s : String) : Option Series :=
  if s == "-" then some [] else
  (s.splitOn ",").mapM (fun item =>
    match item.splitOn "=" with
    | [l, v] => do let l ← parseInt? l; let v ← parseRat? v; pure (l, v)
    | _ => none)

def parseFh? (s : String) : Option (Option Horizon) :=
  if s == "none" then some none else (parseIntList? s).map some

/-- what the harness can ask for: a primitive call or one of the combined entry points -/
inductive DOp
  | prim (op : Op)
  | ups (y : Series) (up : Bool) (fh : Option Horizon)
  /-- `update_predict(y, cv)`; `cv` = Sliding/ExpandingWindowSplitter(fh, window_length, step_length,
  start_with_window); `fh = none`: default splitter on a forecaster that remembers no horizon -/
  | upm (y : Series) (up : Bool) (kind : Split.Kind) (wl step : Int) (sww : Bool) (fh : Option Horizon)

def parseOps? : List String → Option (List DOp)
  | [] => some []
  | "fit" :: y :: fh :: rest => do
      let y ← parseSeries? y; let fh ← parseFh? fh; let r ← parseOps? rest; pure (.prim (.fit y fh) :: r)
  | "upd" :: y :: up :: rest => do
      let y ← parseSeries? y; let up ← parseBool? up; let r ← parseOps? rest; pure (.prim (.update y up) :: r)
  | "pred" :: fh :: rest => do
      let fh ← parseFh? fh; let r ← parseOps? rest; pure (.prim (.predict fh) :: r)
  | "ups" :: y :: up :: fh :: rest => do
      let y ← parseSeries? y; let up ← parseBool? up; let fh ← parseFh? fh; let r ← parseOps? rest
      pure (.ups y up fh :: r)
  | "upm" :: y :: up :: k :: wl :: step :: sww :: fh :: rest => do
      let y ← parseSeries? y; let up ← parseBool? up
      let k ← (if k == "s" then some Split.Kind.sliding else if k == "e" then some Split.Kind.expanding else none)
      let wl ← parseInt? wl; let step ← parseInt? step; let sww ← parseBool? sww
      let fh ← (if fh == "nofh" then some none else (parseIntList? fh).map some)
      let r ← parseOps? rest
      pure (.upm y up k wl step sww fh :: r)
  | _ => none

def showErr : Err → String
  | .notFitted => "E:notfitted" | .value => "E:value" | .type => "E:type" | .index => "E:index"
  | .key => "E:key" | .other => "E:other:Exception"

def showSeries (y : Series) : String :=
  if y.isEmpty then "-" else ",".intercalate (y.map (fun p => s!"{p.1}={showRat p.2}"))

def showOFh : Option Horizon → String
  | none => "none"
  | some f => showIntList f

def showOBool : Option Bool → String
  | none => "-"
  | some b => showBool b

def showRows (rows : List (List Rat)) : String :=
  if rows.isEmpty then "-" else "_".intercalate (rows.map showRatList)

/-- last field: the update flag; for `fit` events the generation of the fitted object — the model
always fits a fresh clone (`init`), so it is always `g0` -/
def showLast (op : String) (up : Option Bool) : String := if op == "fit" then "g0" else showOBool up

def showEvent : Event → String
  | .fc tag op y fh up => s!"F:{tag}:{op}:{showSeries y}:{showOFh fh}:{showLast op up}"
  | .tr tag op z up => s!"T:{tag}:{op}:{showSeries z}:{showLast op up}"
  | .rg tag op rows ys => s!"G:{tag}:{op}:{showRows rows}:{match ys with | none => "none" | some v => showRatList v}:{showLast op none}"

def showOut : Option Series → String
  | none => "ok"
  | some p => showSeries p

def showLog (l : Log) : String := if l.isEmpty then "-" else ";".intercalate (l.map showEvent)

/-- run primitive calls; collects every forecast together with the cutoff right after the call -/
def runSeq (F : Forecaster) : F.S → List Op → List (Option Int × Series) → Log →
    Except Err (F.S × List (Option Int × Series) × Log)
  | s, [], acc, log => .ok (s, acc.reverse, log)
  | s, op :: ops, acc, log =>
    match (F.step s op).run with
    | .error e => .error e
    | .ok ((s', o), l) =>
      runSeq F s' ops (match o with | some p => (F.cutoff s', p) :: acc | none => acc) (log ++ l)

/-- `_format_moving_cutoff_predictions`: one-step horizons are concatenated into one series; otherwise a
frame with one column per cutoff (a single column comes back as a series) -/
def showMoving (fh : Horizon) (preds : List (Option Int × Series)) : String :=
  if fh.length == 1 then showSeries (preds.flatMap (·.2))
  else match preds with
    | [p] => showSeries p.2
    | _ => "~".intercalate (preds.map (fun p => s!"{p.1.getD 0}>{showSeries p.2}"))

/-- one requested call: output text and log, or the error -/
def runDOp (F : Forecaster) (s : F.S) : DOp → Except Err (F.S × String × Log)
  | .prim op =>
    match (F.step s op).run with
    | .error e => .error e
    | .ok ((s', o), l) => .ok (s', showOut o, l)
  | .ups y up fh =>
    match runSeq F s (upsOps y up fh) [] [] with
    | .error e => .error e
    | .ok (s', preds, l) => .ok (s', showSeries (preds.flatMap (·.2)), l)
  | .upm y up kind wl step sww fh =>
    -- check_is_fitted (an empty update changes nothing and fails exactly when the forecaster is not fitted)
    match (F.update s [] false).run with
    | .error e => .error e
    | .ok _ =>
      if y.isEmpty then .error .value else
      match fh with
      | none => .error .value
      | some raw =>
        match checkFh raw, Split.windowSplit kind (y.length : Int) raw wl step none sww with
        | .error e, _ => .error e
        | _, .error e => .error (splitErr e)
        | .ok f, .ok folds =>
          match folds.mapM (fun fo => iloc y fo.1) with
          | .error e => .error e
          | .ok windows =>
            if windows.isEmpty then .error .index else
            match runSeq F s (upmOps (F.cutoff s) y windows f up) [] [] with
            | .error e => .error e
            | .ok (s', preds, l) => .ok (s', showMoving f preds, l)

/-- `logs`: one log per call (reversed), printed separated by ` @ ` -/
def runOps (F : Forecaster) : F.S → List DOp → List String → List Log → String
  | _, [], outs, logs =>
      ";".intercalate outs.reverse ++ " # " ++ " @ ".intercalate (logs.reverse.map showLog)
  | s, op :: ops, outs, logs =>
    match runDOp F s op with
    | .error e => ";".intercalate ((showErr e :: outs).reverse)
    | .ok (s', o, l) => runOps F s' ops (o :: outs) (l :: logs)

def splitBar : List String → List String → Option (List String × List String)
  | _, [] => none
  | acc, "|" :: rest => some (acc.reverse, rest)
  | acc, t :: rest => splitBar (t :: acc) rest

def handle (toks : List String) : String :=
  match toks with
  | "run" :: rest =>
    match splitBar [] rest with
    | none => "bad-op"
    | some (treeToks, opToks) =>
      match parseNode? treeToks, parseOps? opToks with
      | some (nd, []), some ops =>
        let F := build nd
        runOps F F.init ops [] []
      | _, _ => "bad-op"
  | _ => "bad-op"

end SkVerif.Drv.C09
