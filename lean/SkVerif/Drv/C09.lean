/- Driver for C09 (stub: not built yet). -/
namespace SkVerif.Drv.C09
def handle (_toks : List String) : String := "bad-op"
end SkVerif.Drv.C09
