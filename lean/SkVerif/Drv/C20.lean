import SkVerif.Model.Validate
import SkVerif.Drv.Parse
namespace SkVerif.Drv.C20
open SkVerif SkVerif.Val SkVerif.Drv

abbrev KV := List (String × String)

def parseKV (toks : List String) : KV :=
  toks.filterMap (fun t => match t.splitOn "=" with
    | [k, v] => some (k, v)
    | _ => none)

def get (kv : KV) (k : String) : Option String := (kv.find? (·.1 == k)).map (·.2)

def parseY? (s : String) : Option YDesc :=
  let (k, n) := match s.splitOn ":" with
    | [k, n] => (k, n.toNat?)
    | [k] => (k, some 0)
    | _ => ("", none)
  let kind : Option YKind := match k with
    | "ok" => some .ok | "dupidx" => some .dupidx | "gapped" => some .gapped | "unsorted" => some .unsorted | "empty" => some .empty
    | "frame1" => some .frame1 | "frame2" => some .frame2 | "array" => some .array | "array2d" => some .array2d
    | "list" => some .list | "none" => some .none | "floatidx" => some .floatidx | _ => none
  match kind, n with
  | some kd, some n => some ⟨kd, n⟩
  | _, _ => none

def parseX? : String → Option XKind
  | "none" => some .none | "ok" => some .ok | "shifted" => some .shifted | "shorter" => some .shorter
  | "unsorted" => some .unsorted | "array" => some .array | "interior" => some .interior
  | "first" => some .first | "last" => some .last | "longer" => some .longer | _ => none

def parseIntLike? (s : String) : Option IntLike :=
  if s == "none" then some .none
  else if s == "s" then some .str
  else if s == "b" then some .bool
  else match s.splitOn ":" with
    | ["i", v] => (parseInt? v).map IntLike.int
    | ["f", _] => some .float
    | _ => none

def parseFh? (s : String) : Option FhTok :=
  match s with
  | "none" => some .none | "dup" => some .dup | "empty" => some .empty | "frac" => some .frac
  | "str" => some .str | "float" => some .float
  | _ => match s.splitOn ":" with
    | ["r", vs] => (parseIntList? vs).map FhTok.rel
    | ["a", vs] => (parseIntList? vs).map FhTok.abs
    | _ => none

def showOutcome (o : Outcome) : String :=
  (if o.ok then "ok" else "rej") ++ ":" ++
    (match o.fitted with | some true => "T" | some false => "F" | none => "-")

def handle (toks : List String) : String :=
  match toks with
  | ep :: rest =>
    let kv := parseKV rest
    let r : Option Outcome :=
      match ep with
      | "naive_fit" => do
          let st : Strategy := match (← get kv "strategy") with
            | "last" => .last | "mean" => .mean | "drift" => .drift | _ => .unknown
          pure (naiveFit (← parseY? (← get kv "y")) (← parseX? (← get kv "X")) (← parseFh? (← get kv "fh")) st
            (← parseIntLike? (← get kv "sp")) (← parseIntLike? (← get kv "wl")))
      | "naive_predict" => do pure (naivePredict (← parseFh? (← get kv "fitfh")) (← parseFh? (← get kv "fh")))
      | "naive_update" => do pure (naiveUpdate (← parseY? (← get kv "y")).kind (← parseX? (← get kv "X")))
      | "required" => do
          if (← get kv "phase") == "fit" then pure (requiredFit (← parseFh? (← get kv "fh")))
          else pure (requiredPredict (← parseFh? (← get kv "fitfh")) (← parseFh? (← get kv "fh")))
      | "split" => do
          let k : SplitKind ← match (← get kv "kind") with
            | "sliding" => some .sliding | "expanding" => some .expanding | "single" => some .single
            | "cutoff" => some .cutoff | _ => none
          let cut : CutTok ← match (← get kv "cutoffs") with
            | "ok" => some .ok | "empty" => some .empty | "list" => some .list | "beyond" => some .beyond | _ => none
          pure (splitEntry k (← parseY? (← get kv "y")) (← parseFh? (← get kv "fh")) (← parseIntLike? (← get kv "wl"))
            (← parseIntLike? (← get kv "step")) (← parseIntLike? (← get kv "iw")) (← parseBool? (← get kv "sww")) cut)
      | "tts" => do
          pure (ttsEntry (← parseY? (← get kv "y")) (← parseX? (← get kv "X")) (← parseFh? (← get kv "fh"))
            (← parseIntLike? (← get kv "test")) (← parseIntLike? (← get kv "train")))
      | "evaluate" => do
          let cv : CvTok ← match (← get kv "cv") with
            | "ok" => some .ok | "nosww" => some .nosww | "notcv" => some .notcv | "none" => some .none | _ => none
          let sc : ScoreTok ← match (← get kv "scoring") with
            | "none" => some .none | "ok" => some .ok | "notcallable" => some .notcallable | _ => none
          let stOk := (← get kv "strategy") == "refit" || (← get kv "strategy") == "update"
          pure (evaluateEntry (← parseY? (← get kv "y")) (← parseX? (← get kv "X")) cv sc stOk)
      | "gridsearch" => do
          let cv : CvTok ← match (← get kv "cv") with
            | "ok" => some .ok | "nosww" => some .nosww | "notcv" => some .notcv | "none" => some .none | _ => none
          let sc : ScoreTok ← match (← get kv "scoring") with
            | "none" => some .none | "ok" => some .ok | "notcallable" => some .notcallable | _ => none
          let g : GridTok ← match (← get kv "grid") with
            | "ok" => some .ok | "scalar" => some .scalar | "emptylist" => some .emptylist | "unknown" => some .unknown | _ => none
          let stg := (get kv "strategy").getD "refit"
          pure (gridSearchEntry (← parseY? (← get kv "y")) (← parseX? (← get kv "X")) cv sc g (← parseFh? (← get kv "fh"))
                  (stg == "refit" || stg == "update"))
      | "reduce" => do
          let st : RedStrategy := match (← get kv "strategy") with
            | "direct" => .direct | "recursive" => .recursive | "multioutput" => .multioutput | "dirrec" => .dirrec
            | _ => .unknown
          let sciOk := ["infer", "tabular-regressor", "time-series-regressor"].contains (← get kv "scitype")
          pure (reduceEntry (← parseY? (← get kv "y")) (← parseX? (← get kv "X")) (← parseFh? (← get kv "fh")) st
            (← parseIntLike? (← get kv "wl")) (← parseIntLike? (← get kv "step")) sciOk)
      | "composite" => do
          let k : CompKind ← match (← get kv "kind") with
            | "ensemble" => some .ensemble | "pipeline" => some .pipeline | "multiplexer" => some .multiplexer
            | "stacking" => some .stacking | _ => none
          let sh : Shape ← match (← get kv "shape") with
            | "ok" => some .ok | "dupnames" => some .dupnames | "dunder" => some .dunder | "clash" => some .clash
            | "none" => some .none | "emptylist" => some .emptylist | "tuple" => some .tuple
            | "notforecaster" => some .notforecaster | "alldropped" => some .alldropped
            | "lastnotforecaster" => some .lastnotforecaster | "badtransformer" => some .badtransformer
            | "forecasterinmiddle" => some .forecasterinmiddle | "unknownname" => some .unknownname
            | "noneselected" => some .noneselected | _ => none
          let aggOk := ["mean", "median", "min", "max"].contains (← get kv "aggfunc")
          pure (compositeEntry k sh (← parseY? (← get kv "y")) (← parseFh? (← get kv "fh")) aggOk
            (← parseBool? (← get kv "predict")))
      | "static" => none
      | "fh" => do
          let via := (← get kv "via") == "ctor"
          let rel ← get kv "rel"
          pure (fhEntry via (← parseFh? (← get kv "fh")) (rel == "T" || rel == "F") (rel == "T")
            (← parseBool? (← get kv "enf")))
      | _ => none
    match r with
    | some o => showOutcome o
    | none =>
      if ep == "static" then
        match (get kv "fn").bind entryChecksOf with
        | some v => v
        | none => "bad-op"
      else "bad-op"
  | _ => "bad-op"

end SkVerif.Drv.C20
