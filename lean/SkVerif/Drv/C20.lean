/- Driver for C20 (stub: not built yet). -/
namespace SkVerif.Drv.C20
def handle (_toks : List String) : String := "bad-op"
end SkVerif.Drv.C20
