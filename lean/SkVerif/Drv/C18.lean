/-
Driver for C18 (time-series files).  Import-free apart from the model.

Strings travel percent-encoded (one token, no spaces): printable ASCII passes through except
`% , ; | ~ !`; other characters are `%XX` (code point < 256) or `%uXXXXXX`.  `~` = empty string,
`~~` = empty list; lists are `,`-separated, lists of lists `;`-separated.

  rt <name> <ts> <uni> <eq> <sl> <slstr> <commentLines> <classLabel> <values> <panel> <real text|~~>
        → w=<text|E:..> p=<result|-> pr=<result|->   (write, then parse what was written;
          pr = the parser model on the file the real writer produced)
  ts <text> | arff <T/F> <text> | tsv <text>  → ts=<result> | arff=<result> | tsv=<result>
  fmt <ts> <arff> <tsv|~~>                    → ts=<result> arff=<result> tsv=<result|->
  load <train> <test>                         → train=<result> test=<result> none=<result>
result = ok!<ndims>!<N | L labels>!<dims '|' instances ';' values ','>  or  E:<kind>
-/
import SkVerif.Model.TsFile
import SkVerif.Drv.Parse
namespace SkVerif.Drv.C18
open SkVerif SkVerif.TsFile SkVerif.Drv

def hexDigit (n : Nat) : Char :=
  if n < 10 then Char.ofNat (48 + n) else Char.ofNat (87 + n)

def hexVal (c : Char) : Option Nat :=
  if '0' ≤ c ∧ c ≤ '9' then some (c.toNat - 48)
  else if 'a' ≤ c ∧ c ≤ 'f' then some (c.toNat - 87)
  else if 'A' ≤ c ∧ c ≤ 'F' then some (c.toNat - 55)
  else none

def hexN (n width : Nat) : List Char :=
  (List.range width).reverse.map (fun i => hexDigit ((n / 16 ^ i) % 16))

def plain (c : Char) : Bool :=
  33 ≤ c.toNat ∧ c.toNat ≤ 126 ∧ c ≠ '%' ∧ c ≠ ',' ∧ c ≠ ';' ∧ c ≠ '|' ∧ c ≠ '~' ∧ c ≠ '!'

def encChars : List Char → List Char → List Char
  | [], acc => acc.reverse
  | c :: cs, acc =>
    if plain c then encChars cs (c :: acc)
    else if c.toNat < 256 then encChars cs ((hexN c.toNat 2).reverse ++ '%' :: acc)
    else encChars cs ((hexN c.toNat 6).reverse ++ 'u' :: '%' :: acc)

def enc (s : Str) : String :=
  if s.isEmpty then "~" else String.ofList (encChars s [])

def hexNum (cs : List Char) : Option Nat :=
  cs.foldlM (fun acc c => (hexVal c).map (fun v => acc * 16 + v)) 0

def decChars : List Char → List Char → Option (List Char)
  | [], acc => some acc.reverse
  | '%' :: 'u' :: a :: b :: c :: d :: e :: f :: rest, acc =>
    match hexNum [a, b, c, d, e, f] with
    | some n => decChars rest (Char.ofNat n :: acc)
    | none => none
  | '%' :: a :: b :: rest, acc =>
    match hexNum [a, b] with
    | some n => decChars rest (Char.ofNat n :: acc)
    | none => none
  | '%' :: _, _ => none
  | c :: rest, acc => decChars rest (c :: acc)

def dec (s : String) : Option Str :=
  if s == "~" then some [] else decChars s.toList []

def decList (s : String) : Option (List Str) :=
  if s == "~~" then some [] else (s.splitOn ",").mapM dec

def decPanel (s : String) : Option (List (List Str)) :=
  if s == "~~" then some [] else (s.splitOn ";").mapM decList

def showErr : Err → String
  | .parse => "E:other:TsFileParseException"
  | .value => "E:value"
  | .type => "E:type"
  | .index => "E:index"
  | .unsupported => "E:unsupported"

def showNum : Num → String
  | .fin q => showRat q
  | .nan => "nan"
  | .inf neg => if neg then "-inf" else "inf"

def showSeries (s : Series) : String :=
  if s.isEmpty then "~" else ",".intercalate (s.map showNum)

def showDim (d : List Series) : String :=
  if d.isEmpty then "~~" else ";".intercalate (d.map showSeries)

def showLabels : Option (List Str) → String
  | none => "N"
  | some l => "L" ++ (if l.isEmpty then "~~" else ",".intercalate (l.map enc))

def showPanel (p : Panel) : String :=
  s!"ok!{p.dims.length}!{showLabels p.labels}!{"|".intercalate (p.dims.map showDim)}"

def showRes : Except Err Panel → String
  | .ok p => showPanel p
  | .error e => showErr e

def handle (toks : List String) : String :=
  match toks with
  | ["rt", name, ts, uni, eq, sl, slstr, com, cl, vals, panel, realText] =>
    match dec name, parseBool? ts, parseBool? uni, parseBool? eq, parseInt? sl, dec slstr,
          decList com, decList cl, decList vals, decPanel panel with
    | some name, some ts, some uni, some eq, some sl, some slstr, some com, some cl, some vals, some panel =>
      let o : WOpts := { problemName := name, timestamp := ts, univariate := uni, classLabel := cl,
                         equalLength := eq, seriesLength := sl, seriesLengthStr := slstr, commentLines := com }
      -- pr: the parser model on the text the REAL writer produced (`~~` when it raised)
      let pr := if realText == "~~" then some "-" else (dec realText).map (fun t => showRes (parseTs t))
      match pr with
      | none => "bad-op"
      | some pr =>
        match write o panel vals with
        | .error e => s!"w={showErr e} p=- pr={pr}"
        | .ok text => s!"w={enc text} p={showRes (parseTs text)} pr={pr}"
    | _, _, _, _, _, _, _, _, _, _ => "bad-op"
  | ["ts", text] =>
    match dec text with
    | some t => s!"ts={showRes (parseTs t)}"
    | none => "bad-op"
  | ["arff", hl, text] =>
    match parseBool? hl, dec text with
    | some hl, some t => s!"arff={showRes (parseArff hl t)}"
    | _, _ => "bad-op"
  | ["tsv", text] =>
    match dec text with
    | some t => s!"tsv={showRes (parseTsv t)}"
    | none => "bad-op"
  | ["fmt", ts, arff, tsv] =>
    match dec ts, dec arff with
    | some t, some a =>
      if tsv == "~~" then s!"ts={showRes (parseTs t)} arff={showRes (parseArff true a)} tsv=-"
      else match dec tsv with
        | some v => s!"ts={showRes (parseTs t)} arff={showRes (parseArff true a)} tsv={showRes (parseTsv v)}"
        | none => "bad-op"
    | _, _ => "bad-op"
  | ["load", tr, te] =>
    match dec tr, dec te with
    | some tr, some te =>
      match parseTs tr, parseTs te with
      | .ok a, .ok b =>
        s!"train={showPanel (loadSplit .train a b)} test={showPanel (loadSplit .test a b)} none={showPanel (loadSplit .none a b)}"
      | .error e, _ => s!"train={showErr e}"
      | _, .error e => s!"test={showErr e}"
    | _, _ => "bad-op"
  | _ => "bad-op"

end SkVerif.Drv.C18
