/- Driver for C18 (stub: not built yet). -/
namespace SkVerif.Drv.C18
def handle (_toks : List String) : String := "bad-op"
end SkVerif.Drv.C18
