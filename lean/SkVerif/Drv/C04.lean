/-
Driver for C04.  Import-free apart from the model.

  table <cid> <summary>                 kernel-checked per-class summary (see `showSummary`) -> predicted observables
  seq <tree> <op> <op> …                a history on a parameter tree, one result per op, joined by " ; "
        ops:  get:T | get:F | set:<k=V|k=V…> | clone | fit | apply | fitted | checknames:<n,n,…>
  tree syntax   a<id> | e<id>:<cls>:<impl>:<T|F>(<k>=<val>,…) | n[<k>=<val>,…]
        impl = p | m/<attr>/<store> | x (abstract) | c (custom)
  keys are `a__b__c`
-/
import SkVerif.Model.Params
import SkVerif.Drv.Parse
namespace SkVerif.Drv.C04
open SkVerif.Params SkVerif.Drv

/-! ## summaries (used by the generated table file and by `table` lines) -/

def showPStatus : PStatus → String
  | .stored => "S" | .missing => "M" | .unknown => "U"
def showGStatus : GStatus → String
  | .absent => "A" | .guarded => "G" | .unguarded => "U"
def showImplNat : Impl Nat → String
  | .plain => "p" | .viaMeta a s => s!"m/{a}/{s}" | .abstr => "x" | .custom => "c"
def commaOr (l : List String) : String := if l.isEmpty then "-" else ",".intercalate l

/-- one token per field, parsed back by the harness and by `parseSummary?` -/
def showSummary (s : Summary Nat) : String :=
  " ".intercalate [
    "params=" ++ showNatList s.params,
    "ctor=" ++ commaOr (s.ctor.map showPStatus),
    "raise=" ++ showBool s.mayRaise,
    "validates=" ++ showBool s.validates,
    "varargs=" ++ showBool s.varargs,
    "fresh=" ++ showBool s.freshUnfitted,
    "get=" ++ showImplNat s.getImpl,
    "set=" ++ showImplNat s.setImpl,
    "guards=" ++ commaOr (s.guards.map showGStatus),
    "fitw=" ++ showNatList s.fitWrites,
    "fitu=" ++ showBool s.fitUnknown,
    "fitset=" ++ showBool s.fitSetsFitted,
    "fitabs=" ++ showBool s.fitAbstract,
    "hooks=" ++ showBool s.hooks ]

def parsePStatus? : String → Option PStatus
  | "S" => some .stored | "M" => some .missing | "U" => some .unknown | _ => none
def parseGStatus? : String → Option GStatus
  | "A" => some .absent | "G" => some .guarded | "U" => some .unguarded | _ => none
def parseImplNat? (s : String) : Option (Impl Nat) :=
  match s.splitOn "/" with
  | ["p"] => some .plain
  | ["x"] => some .abstr
  | ["c"] => some .custom
  | ["m", a, b] => do
      let a ← parseNat? a; let b ← parseNat? b
      pure (.viaMeta a b)
  | _ => none
def parseListWith? {α} (f : String → Option α) (s : String) : Option (List α) :=
  if s == "-" then some [] else (s.splitOn ",").mapM f

def field? (name : String) (tok : String) : Option String :=
  if tok.startsWith (name ++ "=") then some ((tok.drop (name.length + 1)).toString) else none

def parseSummary? (toks : List String) : Option (Summary Nat) :=
  match toks with
  | [p, c, r, vl, va, fr, g, st, gu, fw, fu, fs, fa, h] => do
    let params ← (field? "params" p).bind parseNatList?
    let ctor ← (field? "ctor" c).bind (parseListWith? parsePStatus?)
    let mayRaise ← (field? "raise" r).bind parseBool?
    let validates ← (field? "validates" vl).bind parseBool?
    let varargs ← (field? "varargs" va).bind parseBool?
    let fresh ← (field? "fresh" fr).bind parseBool?
    let getImpl ← (field? "get" g).bind parseImplNat?
    let setImpl ← (field? "set" st).bind parseImplNat?
    let guards ← (field? "guards" gu).bind (parseListWith? parseGStatus?)
    let fitWrites ← (field? "fitw" fw).bind parseNatList?
    let fitUnknown ← (field? "fitu" fu).bind parseBool?
    let fitSets ← (field? "fitset" fs).bind parseBool?
    let fitAbs ← (field? "fitabs" fa).bind parseBool?
    let hooks ← (field? "hooks" h).bind parseBool?
    pure { params := params, ctor := ctor, mayRaise := mayRaise, validates := validates, varargs := varargs, freshUnfitted := fresh,
           getImpl := getImpl, setImpl := setImpl, guards := guards, fitWrites := fitWrites,
           fitUnknown := fitUnknown, fitSetsFitted := fitSets, fitAbstract := fitAbs, hooks := hooks }
  | _ => none

/-- What the kernel-checked summary PREDICTS about the running class.  `?` = no prediction.
ctor: per parameter `S` (stored under its own name unchanged) | `M` (never stored) | `?`;
guards: per apply-type method `NF` (raises NotFittedError when unfitted) | `-` (no such method) | `?`;
fit: per parameter `K` (kept by fit) | `?`. -/
def predict (s : Summary Nat) : String :=
  let clean := !s.hooks
  let ctor := s.ctor.map fun st =>
    match st with
    | .stored => if clean && !s.mayRaise then "S" else "?"
    | .missing => if clean then "M" else "?"
    | .unknown => "?"
  let guards := s.guards.map fun g =>
    match g with
    | .absent => "-"
    | .guarded => if s.fitAbstract then "?" else "NF"
    | .unguarded => "?"
  let fit := s.params.map fun p =>
    if s.fitUnknown || s.fitAbstract || s.fitWrites.contains p || !clean then "?" else "K"
  " ".intercalate [
    "params=" ++ showNatList s.params,
    "ctor=" ++ commaOr ctor,
    "fresh=" ++ (if s.freshUnfitted && clean then "F" else "?"),
    "get=" ++ showImplNat s.getImpl,
    "guards=" ++ commaOr guards,
    "fit=" ++ commaOr fit ]

/-! ## trees -/

abbrev V := Val String
abbrev P := PList String

def isIdent (c : Char) : Bool := c.isAlphanum || c == '_' || c == '.' || c == '@'

def takeIdent (cs : List Char) : String × List Char :=
  (String.ofList (cs.takeWhile isIdent), cs.dropWhile isIdent)

def parseImplS? (s : String) : Option (Impl String) :=
  match s.splitOn "/" with
  | ["p"] => some .plain
  | ["x"] => some .abstr
  | ["c"] => some .custom
  | ["m", a, b] => some (.viaMeta a b)
  | _ => none

def showImplS : Impl String → String
  | .plain => "p" | .viaMeta a s => s!"m/{a}/{s}" | .abstr => "x" | .custom => "c"

mutual
/-- parse one value; fuel = remaining characters -/
def parseVal : Nat → List Char → Option (V × List Char)
  | 0, _ => none
  | fuel + 1, cs =>
    match cs with
    | 'a' :: rest =>
      let (d, rest') := takeIdent rest
      d.toNat?.map fun n => (Val.atom n, rest')
    | 'n' :: '[' :: rest =>
      match parseItems fuel rest ']' with
      | some (items, rest') => some (Val.named items, rest')
      | none => none
    | 'e' :: rest =>
      let (d, r1) := takeIdent rest
      match d.toNat?, r1 with
      | some id, ':' :: r2 =>
        let (cls, r3) := takeIdent r2
        match r3 with
        | ':' :: r4 =>
          let implS := String.ofList (r4.takeWhile (fun c => c != ':'))
          let r5 := r4.dropWhile (fun c => c != ':')
          match parseImplS? implS, r5 with
          | some impl, ':' :: f :: '(' :: r6 =>
            match (if f == 'T' then some true else if f == 'F' then some false else none), parseItems fuel r6 ')' with
            | some fitted, some (ps, r7) => some (Val.est id cls impl fitted ps, r7)
            | _, _ => none
          | _, _ => none
        | _ => none
      | _, _ => none
    | _ => none
/-- `k=v,k=v…` up to the closing character -/
def parseItems : Nat → List Char → Char → Option (P × List Char)
  | 0, _, _ => none
  | fuel + 1, cs, close =>
    match cs with
    | c :: rest =>
      if c == close then some (PList.nil, rest)
      else
        let cs' := if c == ',' then rest else cs
        let (k, r1) := takeIdent cs'
        match r1 with
        | '=' :: r2 =>
          match parseVal fuel r2 with
          | some (v, r3) =>
            match parseItems fuel r3 close with
            | some (tl, r4) => some (PList.cons k v tl, r4)
            | none => none
          | none => none
        | _ => none
    | [] => none
end

def parseTree? (s : String) : Option V :=
  match parseVal (s.length + 1) s.toList with
  | some (v, []) => some v
  | _ => none

mutual
def showVal : V → String
  | .atom i => s!"a{i}"
  | .est i c impl f ps => s!"e{i}:{c}:{showImplS impl}:{showBool f}(" ++ showItems ps ++ ")"
  | .named items => "n[" ++ showItems items ++ "]"
def showItems : P → String
  | .nil => ""
  | .cons k v .nil => k ++ "=" ++ showVal v
  | .cons k v tl => k ++ "=" ++ showVal v ++ "," ++ showItems tl
end

/-- how a value appears inside a `get_params` result: by identity -/
def showRefItems : P → List String
  | .nil => []
  | .cons k (.atom i) tl => s!"{k}:a{i}" :: showRefItems tl
  | .cons k (.est i _ _ _ _) tl => s!"{k}:e{i}" :: showRefItems tl
  | .cons k (.named _) tl => s!"{k}:n" :: showRefItems tl

def showRef : V → String
  | .atom i => s!"a{i}"
  | .est i _ _ _ _ => s!"e{i}"
  | .named items => "n[" ++ ",".intercalate (showRefItems items) ++ "]"

def keyOf (p : Path String) : String := "__".intercalate p

def insertSorted (x : String × String) : List (String × String) → List (String × String)
  | [] => [x]
  | y :: ys => if x.1 < y.1 then x :: y :: ys else if x.1 == y.1 then x :: ys else y :: insertSorted x ys

/-- a dict: later entries win, printed sorted by key -/
def showDict (l : List (Path String × V)) : String :=
  let entries := l.foldl (fun acc kv => insertSorted (keyOf kv.1, showRef kv.2) acc) []
  commaOr (entries.map fun kv => kv.1 ++ "=" ++ kv.2)

def showErr : Err → String
  | .value => "E:value" | .attr => "E:attr" | .type => "E:type" | .notFitted => "E:notfitted"

def splitKey (k : String) : Path String := k.splitOn "__"

/-- `k=V|k=V` -/
def parseKvs? (s : String) : Option (List (Path String × V)) :=
  if s == "-" then some [] else
  (s.splitOn "|").mapM fun kv =>
    match kv.splitOn "=" with
    | k :: rest =>
      if rest.isEmpty then none
      else (parseTree? ("=".intercalate rest)).map fun v => (splitKey k, v)
    | [] => none

def setFuel : Nat := 64

def hasDunder (s : String) : Bool := (s.splitOn "__").length > 1

/-- run one op; returns (new tree, printed result) -/
def runOp (t : V) (op : String) : Option (V × String) :=
  match op.splitOn ":" with
  | ["get", d] => (parseBool? d).map fun deep => (t, showDict (getVal deep t))
  | "set" :: rest =>
    (parseKvs? (":".intercalate rest)).map fun kvs =>
      match setVal setFuel t kvs with
      | .ok t' => (t', "ok " ++ showVal t')
      | .error e => (t, showErr e)
  | ["clone"] => some (cloneVal t, showVal (cloneVal t))
  | ["fit"] => some (fitVal t, showVal (fitVal t))
  | ["fitted"] => some (t, showBool t.isFitted)
  | ["apply"] =>
    some (t, match applyGuarded t with
      | .ok _ => "ok"
      | .error e => showErr e)
  | ["checknames", ns] =>
    match t with
    | .est _ _ _ _ ps =>
      let names := if ns == "-" then [] else ns.splitOn ","
      some (t, match checkNames hasDunder names ps.keys with
        | .ok _ => "ok"
        | .error e => showErr e)
    | _ => none
  | _ => none

/-- a failed `set_params` leaves the real object half-updated (sklearn applies the valid keys before it
meets the invalid one), so a history ends at the first failed `set` -/
def runSeq (t : V) : List String → Option (List String)
  | [] => some []
  | op :: ops =>
    match runOp t op with
    | none => none
    | some (t', out) =>
      if op.startsWith "set:" && out.startsWith "E:" then some [out]
      else (runSeq t' ops).map (out :: ·)

def handle (toks : List String) : String :=
  match toks with
  | "table" :: _cid :: rest =>
    match parseSummary? rest with
    | some s => predict s
    | none => "bad-op"
  | "seq" :: tree :: ops =>
    match parseTree? tree with
    | none => "bad-op"
    | some t =>
      match runSeq t ops with
      | some outs => " ; ".intercalate outs
      | none => "bad-op"
  | _ => "bad-op"

end SkVerif.Drv.C04
