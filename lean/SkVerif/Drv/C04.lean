/- Driver for C04 (stub: not built yet). -/
namespace SkVerif.Drv.C04
def handle (_toks : List String) : String := "bad-op"
end SkVerif.Drv.C04
