/-
Line-protocol helpers shared by all per-property drivers.  Import-free.
Format: space separated tokens; integer lists "1,2,-3" ("-" = empty); rationals "n/d" or "n";
optional values "none".  Output uses the same conventions.
-/
namespace SkVerif.Drv

def parseInt? (s : String) : Option Int := s.toInt?

def parseIntList? (s : String) : Option (List Int) :=
  if s == "-" then some [] else (s.splitOn ",").mapM parseInt?

def parseNat? (s : String) : Option Nat := s.toNat?

def parseNatList? (s : String) : Option (List Nat) :=
  if s == "-" then some [] else (s.splitOn ",").mapM parseNat?

def parseRat? (s : String) : Option Rat :=
  match s.splitOn "/" with
  | [n] => n.toInt?.map (fun (i : Int) => (i : Rat))
  | [n, d] => do
      let i ← n.toInt?
      let k ← d.toNat?
      if k == 0 then none else some ((i : Rat) / (k : Rat))
  | _ => none

/-- optional rational: "nan" = none -/
def parseORat? (s : String) : Option (Option Rat) :=
  if s == "nan" then some none else (parseRat? s).map some

def parseRatList? (s : String) : Option (List Rat) :=
  if s == "-" then some [] else (s.splitOn ",").mapM parseRat?

def parseORatList? (s : String) : Option (List (Option Rat)) :=
  if s == "-" then some [] else (s.splitOn ",").mapM parseORat?

def parseBool? (s : String) : Option Bool :=
  if s == "T" then some true else if s == "F" then some false else none

def showIntList (l : List Int) : String :=
  if l.isEmpty then "-" else ",".intercalate (l.map toString)

def showNatList (l : List Nat) : String :=
  if l.isEmpty then "-" else ",".intercalate (l.map toString)

def showRat (q : Rat) : String :=
  if q.den == 1 then toString q.num else s!"{q.num}/{q.den}"

def showORat : Option Rat → String
  | none => "nan"
  | some q => showRat q

def showRatList (l : List Rat) : String :=
  if l.isEmpty then "-" else ",".intercalate (l.map showRat)

def showORatList (l : List (Option Rat)) : String :=
  if l.isEmpty then "-" else ",".intercalate (l.map showORat)

def showBool (b : Bool) : String := if b then "T" else "F"

end SkVerif.Drv
