/-
Driver for C15 (panel container conversions).  Import-free (Model + Parse only).

Line protocol (tokens after the property id):

  path <rep> <hop>*         -> results of every hop, separated by " > " (stops at the first error)
  pathd <rep> <dhop> <hop>* -> same, followed by " || " and the result of the single hop <dhop> on <rep>
  hist <rep> <hop> <rep> <hop> …  -> the single-hop results, separated by " ; "
  pred <rep N>              -> "isn=<T|F> acn=<T,F,..>"
  chk <rep|O> <uni> <minInst> <minCols> <toNumpy> <toPandas>   -> rep or error

Encodings (no spaces inside a token):
  name      s.<codepoint>.<codepoint>…   (python str; "s" = empty string)   |   i.<int>  (python int)
  names     name,name,…   "-" = empty list   "none" = None
  values    rationals n/d, comma separated, "-" = empty
  A:n,c,t:<flat values>                      3-D array
  T:<labels|np>:<row;row;…>                  2-D table (np = numpy array, labels = names)
  N:<names>:<col|col|…>[:<row labels>]   col = cell;cell;…  cell = S<values> | R<values> | P<value>
                                         row labels: ints, comma separated (default 0..n-1)
  M:<inst>:<time>:<names>:<row;…>            row = i,t,v1,…,vc
  L:<inst>:<time>:<dim>:<row;…>              row = i,t,name,v
  hops: n3  3n:<names>:<S|R>  3m:<inst>:<time>:<names>  m3:<inst>:<time>  nm:<inst>:<time>
        mn:<inst>:<S|R>  nl:<inst>:<time>:<dim>  ln:<inst>:<time>:<dim>:<names>  n2:<np|pd>  32
        2n:<names>:<S|R>          (optional strings: "none" = None)
-/
import SkVerif.Model.Panel
import SkVerif.Drv.Parse
namespace SkVerif.Drv.C15
open SkVerif SkVerif.Panel SkVerif.Drv

abbrev V := Rat

def showErr : Err → String
  | .value => "E:value" | .type => "E:type" | .key => "E:key" | .assert => "E:assert"
  | .unmodelled => "E:unmodelled"

/-! parsing -/

def parseName? (s : String) : Option Name :=
  match s.splitOn "." with
  | "i" :: [v] => (parseInt? v).map Name.i
  | "s" :: cps => do
      let ns ← cps.mapM parseNat?
      pure (Name.s (String.ofList (ns.map Char.ofNat)))
  | _ => none

def parseNames? (s : String) : Option (List Name) :=
  if s == "-" then some [] else (s.splitOn ",").mapM parseName?

def parseONames? (s : String) : Option (Option (List Name)) :=
  if s == "none" then some none else (parseNames? s).map some

def parseOStr (s : String) : Option String := if s == "none" then none else some s

def parseVals? (s : String) : Option (List V) := parseRatList? s

def parseKind? (s : String) : Option Bool :=
  if s == "S" then some false else if s == "R" then some true else none

def parseCell? (s : String) : Option (Cell V) :=
  match s.toList with
  | 'S' :: rest => (parseVals? (String.ofList rest)).map Cell.ser
  | 'R' :: rest => (parseVals? (String.ofList rest)).map Cell.arr
  | 'P' :: rest => (parseRat? (String.ofList rest)).map Cell.prim
  | _ => none

def splitList (sep : String) (s : String) : List String := if s == "-" then [] else s.splitOn sep

def parseIntRow? (s : String) : Option ((Int × Int) × List V) :=
  match s.splitOn "," with
  | i :: t :: vs => do
      let i ← parseInt? i; let t ← parseInt? t
      let vs ← vs.mapM parseRat?
      pure ((i, t), vs)
  | _ => none

def parseLongRow? (s : String) : Option (Int × Int × Name × V) :=
  match s.splitOn "," with
  | [i, t, nm, v] => do
      let i ← parseInt? i; let t ← parseInt? t
      let nm ← parseName? nm; let v ← parseRat? v
      pure (i, t, nm, v)
  | _ => none

def parseRep? (s : String) : Option (Rep Name V) :=
  match s.splitOn ":" with
  | ["A", shape, vals] => do
      let sh ← parseNatList? shape
      let vs ← parseVals? vals
      match sh with
      | [n, c, t] =>
        if vs.length = n * c * t ∧ 0 < n ∧ 0 < c then pure (Rep.arr3 (reshape3 n c t vs)) else none
      | _ => none
  | ["T", labels, rows] => do
      let rs ← (splitList ";" rows).mapM parseVals?
      if labels == "np" then pure (Rep.tab2 ⟨none, rs⟩)
      else do
        let ls ← parseNames? labels
        pure (Rep.tab2 ⟨some (ls.map Name.sh), rs⟩)
  | ["N", names, cols] => do
      let ns ← parseNames? names
      let cs ← (splitList "|" cols).mapM (fun c => (splitList ";" c).mapM parseCell?)
      if ns.length = cs.length ∧ allEq (cs.map List.length) then pure (Rep.nested ⟨ns.zip cs⟩) else none
  | ["M", inst, time, names, rows] => do
      let ns ← parseNames? names
      let rs ← (splitList ";" rows).mapM parseIntRow?
      if rs.all (fun r => r.2.length == ns.length) then pure (Rep.mi ⟨inst, time, ns, rs⟩) else none
  | ["L", inst, time, dim, rows] => do
      let rs ← (splitList ";" rows).mapM parseLongRow?
      pure (Rep.long ⟨inst, time, dim, rs⟩)
  | _ => none

/-- row labels of a nested start frame (4th field of an `N` token) -/
def parseLabels? (s : String) : Option (Option (List Int)) :=
  match s.splitOn ":" with
  | ["N", _, _] => some none
  | ["N", _, _, ls] => (parseIntList? ls).map some
  | ["N", _, _, ls, _] => if ls == "none" then some none else (parseIntList? ls).map some
  | _ => some none

/-- time labels of the Series cells of a nested start frame (5th field of an `N` token) -/
def parseTl? (s : String) : Option (Option (List Int)) :=
  match s.splitOn ":" with
  | ["N", _, _, _, tl] => (parseIntList? tl).map some
  | _ => some none

def stripLabels (s : String) : String :=
  match s.splitOn ":" with
  | ["N", a, b, _] => ":".intercalate ["N", a, b]
  | ["N", a, b, _, _] => ":".intercalate ["N", a, b]
  | _ => s

def parseHop? (s : String) : Option (Hop Name) :=
  match s.splitOn ":" with
  | ["n3"] => some .n3
  | ["3n", names, k] => do pure (.a3n (← parseONames? names) (← parseKind? k))
  | ["3m", i, t, names] => do pure (.a3m (parseOStr i) (parseOStr t) (← parseONames? names))
  | ["m3", i, t] => some (.m3 (parseOStr i) (parseOStr t))
  | ["nm", i, t] => some (.nm (parseOStr i) (parseOStr t))
  | ["mn", i, k] => do pure (.mn (parseOStr i) (← parseKind? k))
  | ["nl", i, t, d] => some (.nl (parseOStr i) (parseOStr t) (parseOStr d))
  | ["ln", i, t, d, names] => do pure (.ln i t d (← parseONames? names))
  | ["n2", m] => if m == "np" then some (.n2 true) else if m == "pd" then some (.n2 false) else none
  | ["32"] => some .a32
  | ["2n", names, k] => do pure (.t2n (← parseONames? names) (← parseKind? k))
  | _ => none

/-! printing -/

def showName : Name → String
  | .i v => s!"i.{v}"
  | .s v => ".".intercalate ("s" :: v.toList.map (fun c => toString c.toNat))

def showList (sep : String) (l : List String) : String := if l.isEmpty then "-" else sep.intercalate l
def showNames (l : List Name) : String := showList "," (l.map showName)
def showVals (l : List V) : String := showRatList l

def showCell : Cell V → String
  | .ser v => "S" ++ showVals v
  | .arr v => "R" ++ showVals v
  | .prim v => "P" ++ showRat v

def showRep : Rep Name V → String
  | .arr3 X => s!"A:{nInst X},{nCols X},{nTime X}:{showVals X.flatten.flatten}"
  | .tab2 T =>
    let labels := match T.names with
      | none => "np"
      | some ls => showNames (ls.map Name.s)
    s!"T:{labels}:{showList ";" (T.rows.map showVals)}"
  | .nested N =>
    s!"N:{showNames N.names}:{showList "|" (N.cols.map (fun p => showList ";" (p.2.map showCell)))}"
  | .mi M =>
    s!"M:{M.inst}:{M.time}:{showNames M.names}:{showList ";" (M.rows.map (fun r =>
      ",".intercalate (toString r.1.1 :: toString r.1.2 :: r.2.map showRat)))}"
  | .long L =>
    s!"L:{L.inst}:{L.time}:{L.dim}:{showList ";" (L.rows.map (fun r =>
      ",".intercalate [toString r.1, toString r.2.1, showName r.2.2.1, showRat r.2.2.2]))}"

/-- 2-D numpy arrays given to the functions that expect 3-D arrays (code as it is):
`n, c, t = X.shape` fails with ValueError, `from_3d_numpy_to_multi_index` checks `ndim` (TypeError),
`reshape(n, -1)` of a 2-D array is the array itself. -/
def applyHop' (h : Hop Name) (r : Rep Name V) : Except Err (Rep Name V) :=
  match h, r with
  | .a3n _ _, .tab2 ⟨none, _⟩ => throw Err.value
  | .a3m _ _ _, .tab2 ⟨none, _⟩ => throw Err.type
  | .a32, .tab2 ⟨none, rows⟩ => pure (.tab2 ⟨none, rows⟩)
  | h, r => applyHop nameOps reservedName h r

/-- first hop from a nested frame with row labels: only the converters to the multi-index frame /
long table look at them -/
def applyHopIx (lt : Option (List Int) × Option (List Int)) (h : Hop Name) (r : Rep Name V) : Except Err (Rep Name V) :=
  match lt.2, lt.1, h, r with
  | some tl, ls, .nm i t, .nested N => Rep.mi <$> fromNestedToMITx ls tl N i t
  | some tl, ls, .nl i t d, .nested N => Rep.long <$> fromNestedToLongTx reservedName ls tl N i t d
  | none, some ls, .nm i t, .nested N => Rep.mi <$> fromNestedToMIIx ls N i t
  | none, some ls, .nl i t d, .nested N => Rep.long <$> fromNestedToLongIx reservedName ls N i t d
  | _, _, h, r => applyHop' h r

def runPathFrom : List (Hop Name) → Rep Name V → List String
  | [], _ => []
  | h :: hs, r =>
    match applyHop' h r with
    | .error e => [showErr e]
    | .ok r' => showRep r' :: runPathFrom hs r'

def runPath (labels : Option (List Int) × Option (List Int)) : List (Hop Name) → Rep Name V → List String
  | [], _ => []
  | h :: hs, r =>
    match applyHopIx labels h r with
    | .error e => [showErr e]
    | .ok r' => showRep r' :: runPathFrom hs r'

/-- `hist <rep> <hop> <rep> <hop> …`: a call history; the converters are pure functions of their arguments, so every call
gives what it gives on its own -/
def histLoop : List String → List String → String
  | [], acc => showList " ; " acc.reverse
  | [_], _ => "bad-op"
  | rep :: hop :: rest, acc =>
    match parseRep? (stripLabels rep), parseLabels? rep, parseTl? rep, parseHop? hop with
    | some r, some ls, some tl, some h => histLoop rest (showList " > " (runPath (ls, tl) [h] r) :: acc)
    | _, _, _, _ => "bad-op"

def showBoolList (l : List Bool) : String := showList "," (l.map showBool)

def handle (toks : List String) : String :=
  match toks with
  | "path" :: rep :: hops =>
    match parseRep? (stripLabels rep), parseLabels? rep, parseTl? rep, hops.mapM parseHop? with
    | some r, some ls, some tl, some hs => showList " > " (runPath (ls, tl) hs r)
    | _, _, _, _ => "bad-op"
  | "pathd" :: rep :: dhop :: hops =>
    match parseRep? (stripLabels rep), parseLabels? rep, parseTl? rep, parseHop? dhop, hops.mapM parseHop? with
    | some r, some ls, some tl, some d, some hs =>
      showList " > " (runPath (ls, tl) hs r) ++ " || " ++ showList " > " (runPath (ls, tl) [d] r)
    | _, _, _, _, _ => "bad-op"
  | "hist" :: rest => histLoop rest []
  | ["pred", rep] =>
    match parseRep? rep with
    | some (.nested N) => s!"isn={showBool (isNestedDataframe N)} acn={showBoolList (areColumnsNested N)}"
    | _ => "bad-op"
  | ["chk", rep, uni, mi, mc, tn, tp] =>
    let xin : Option (XIn Name V) :=
      if rep == "O" then some .other else
      match parseRep? rep with
      | some (.arr3 X) => some (.arr3 X)
      | some (.tab2 ⟨none, _⟩) => some .arrOther
      | some (.nested N) => some (.frame N)
      | _ => none
    match xin, parseBool? uni, parseNat? mi, parseNat? mc, parseBool? tn, parseBool? tp with
    | some x, some uni, some mi, some mc, some tn, some tp =>
      match checkX nameOps x uni mi mc tn tp with
      | .error e => showErr e
      | .ok (.arr3 X) => showRep (.arr3 X)
      | .ok (.frame N) => showRep (.nested N)
    | _, _, _, _, _, _ => "bad-op"
  | _ => "bad-op"

end SkVerif.Drv.C15
