/- Driver for C15 (stub: not built yet). -/
namespace SkVerif.Drv.C15
def handle (_toks : List String) : String := "bad-op"
end SkVerif.Drv.C15
