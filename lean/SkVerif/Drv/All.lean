import SkVerif.Drv.C02
namespace SkVerif.Drv

def dispatch (line : String) : String :=
  match (line.trimAscii.toString.splitOn " ").filter (· ≠ "") with
  | "C02" :: rest => C02.handle rest
  | _ => "bad-op"

end SkVerif.Drv
