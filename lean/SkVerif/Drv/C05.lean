/- Driver for C05 (stub: not built yet). -/
namespace SkVerif.Drv.C05
def handle (_toks : List String) : String := "bad-op"
end SkVerif.Drv.C05
