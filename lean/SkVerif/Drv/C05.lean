/-
Driver for C05: runs the reduction model on concrete values with the harness' recording
regressor (a position-sensitive polynomial hash, mirrored in harness/corr/C05.py).

  C05 swt <sci> <wl> <fh> <y> <X>
  C05 run <hash|drift> <strategy> <sci> <wl> <fhFit> <fhPred> <t0> <y> <X> <upd> <u0> <uy> <uX> <Xp>
     upd = no | upd | refit (update, batch starting at label u0) | up | uprefit (update_predict)
  C05 hist <hash|drift> <via> <step> <strategy> <sci> <wl> <fhFit> <t0> <y> <X> <failAfter> <op> <op> ...
     via = make | cls | rf | rrf;  failAfter = none | k (the regressor raises on its (k+1)-th predict call)
     op = U@<u0>@<uy>@<uX>@<T|F> | W@<u0>@<uy>@<Xup>@<T|F> | P@<fh>@<Xp>     (operations continue after a failure)

values: integers or half-integers ("12", "-3.5") | nan | inf | -inf;  lists "a,b,c" ("-" = empty);  row lists "a,b;c,d";  "none".
-/
import SkVerif.Model.Reduce
import SkVerif.Drv.Parse
namespace SkVerif.Drv.C05
open SkVerif SkVerif.Reduce SkVerif.Drv

/-- `num i` is the value `i / 2` (the recording regressor returns half-integers, so that a buffer of
integer dtype would visibly truncate them) -/
inductive Val | num (i : Int) | nan | pinf | ninf
  deriving DecidableEq, Repr

def vals : Vals Val :=
  { zero := .num 0, nan := .nan, bad := fun v => match v with | .num _ => false | _ => true,
    isnan := fun v => match v with | .nan => true | _ => false }

def showVal : Val → String
  | .num i =>
    if i % 2 == 0 then toString (i / 2)
    else (if i < 0 then "-" else "") ++ toString (i.natAbs / 2) ++ ".5"
  | .nan => "nan" | .pinf => "inf" | .ninf => "-inf"

def parseVal? (s : String) : Option Val :=
  if s == "nan" then some .nan else if s == "inf" then some .pinf else if s == "-inf" then some .ninf
  else match s.splitOn "." with
    | [a] => (parseInt? a).map fun i => Val.num (2 * i)
    | [a, "5"] => (parseInt? a).map fun i => Val.num (if a.startsWith "-" then 2 * i - 1 else 2 * i + 1)
    | _ => none

def parseVals? (s : String) : Option (List Val) :=
  if s == "-" then some [] else (s.splitOn ",").mapM parseVal?

def parseRows? (s : String) : Option (Option (List (List Val))) :=
  if s == "none" then some none
  else if s == "-" then some (some [])
  else ((s.splitOn ";").mapM parseVals?).map some

def parseFh? (s : String) : Option (Option (List Int)) :=
  if s == "none" then some none else (parseIntList? s).map some

def parseWl? (s : String) : Option WLRaw :=
  if s == "none" then some .none else if s == "nonint" then some .nonint else (parseInt? s).map WLRaw.int

def parseSci? (s : String) : Option Scitype :=
  if s == "tab" then some .tabular else if s == "ts" then some .panel else none

def parseStrategy? (s : String) : Option Strategy :=
  match s with
  | "direct" => some .direct | "recursive" => some .recursive
  | "multioutput" => some .multioutput | "dirrec" => some .dirrec | _ => none

/-! the recording regressor's output function (mirrors `_hash_*` in corr/C05.py) -/
def P : Int := 2147483647
def enc : Val → Int
  | .num i => i | .nan => 999983 | .pinf => 999979 | .ninf => 999961
def hl (acc : Int) (xs : List Val) : Int := xs.foldl (fun a x => (a * 1000003 + enc x + 12345) % P) acc
def hi (acc : Int) (inst : Inst Val) : Int := inst.foldl (fun a var => hl ((a * 31 + 7) % P) var) acc
def sigX (X : List (Inst Val)) : Int := X.foldl hi 17

def hashReg : Regressor Val where
  train X y := fun inst => .num (2 * hi (hl ((sigX X * 131 + 1) % P) y) inst + 1)
  trainM X Y := fun inst j =>
    let s := Y.foldl (fun a row => hl ((a * 37 + 3) % P) row) ((sigX X * 131 + 2) % P)
    .num (2 * hi ((s + 1 + (j : Int)) % P) inst + 1)

/-- second recording regressor ("drift"): ignores the training data and returns the last entry of the
instance plus one half (plus `j` for output `j`), so that its outputs stay next to the data it is fed -/
def addHalves (k : Int) : Val → Val
  | .num i => .num (i + k)
  | v => v

def driftReg : Regressor Val where
  train _ _ := fun inst => addHalves 1 (inst.flatten.getLast?.getD (.num 0))
  trainM _ _ := fun inst j => addHalves (1 + 2 * (j : Int)) (inst.flatten.getLast?.getD (.num 0))

def parseReg? (s : String) : Option (Regressor Val) :=
  if s == "hash" then some hashReg else if s == "drift" then some driftReg else none

def showVals (l : List Val) : String := if l.isEmpty then "-" else ",".intercalate (l.map showVal)
def showInst (i : Inst Val) : String := if i.isEmpty then "-" else "|".intercalate (i.map showVals)
def showRows (l : List (List Val)) : String := if l.isEmpty then "-" else ";".intercalate (l.map showVals)
def tagOf : Scitype → String | .tabular => "2d:" | .panel => "3d:"
def showInsts (sci : Scitype) (l : List (Inst Val)) : String :=
  tagOf sci ++ (if l.isEmpty then "-" else ";".intercalate (l.map showInst))
def showTarget : Target Val → String
  | .vec l => "v:" ++ showVals l
  | .mat l => "m:" ++ showRows l
def showCall (sci : Scitype) : Call Val → String
  | .fit X y => s!"F:{showInsts sci X}:{showTarget y}"
  | .predict k x out => s!"P{k}:{showInsts sci [x]}>{showVals out}"
def showErr : Err → String
  | .value => "E:value" | .type => "E:type" | .notimpl => "E:notimpl"
  | .assert => "E:assert" | .index => "E:index" | .attr => "E:attr" | .other => "E:other:RuntimeError"
def showStage : Stage → String | .fit => "fit" | .update => "update" | .predict => "predict"

def parseVia? (s : String) : Option Via :=
  match s with
  | "make" => some .make | "cls" => some .cls
  | "rf" => some .reducedForecaster | "rrf" => some .reducedRegressionForecaster | _ => none

def parseOp? (s : String) : Option (Op Val) :=
  match s.splitOn "@" with
  | ["U", u0, uy, uX, r] => do
      let u0 ← parseInt? u0; let uy ← parseVals? uy; let uX ← parseRows? uX; let r ← parseBool? r
      pure (.update u0 uy uX r)
  | ["W", u0, uy, xup, r] => do
      let u0 ← parseInt? u0; let uy ← parseVals? uy; let xup ← parseRows? xup; let r ← parseBool? r
      pure (.updPredict u0 uy xup r)
  | ["P", fh, xp] => do
      let fh ← parseFh? fh; let xp ← parseRows? xp
      pure (.predict fh xp)
  | _ => none

def parseBudget? (s : String) : Option Budget :=
  if s == "none" then some none else (parseNat? s).map some

def showOpRes : OpRes Val → String
  | .ok => "ok"
  | .err e => showErr e
  | .forecast out => if out.isEmpty then "-" else ",".intercalate (out.map fun (p : Int × Val) => s!"{p.1}:{showVal p.2}")

def handle (toks : List String) : String :=
  match toks with
  | ["swt", sci, wl, fh, y, X] =>
    match parseSci? sci, parseWl? wl, parseIntList? fh, parseVals? y, parseRows? X with
    | some sci, some wl, some fh, some y, some X =>
      match swt vals y wl fh X sci with
      | .error e => showErr e
      | .ok (yt, Xt) => s!"yt={showRows yt} Xt={showInsts sci Xt}"
    | _, _, _, _, _ => "bad-op"
  | ["run", rg, s, sci, wl, fhFit, fhPred, t0, y, X, upd, u0, uy, uX, Xp] =>
    match parseReg? rg with
    | none => "bad-op"
    | some theReg =>
    match parseStrategy? s, parseSci? sci, parseWl? wl, parseFh? fhFit, parseFh? fhPred, parseInt? t0,
          parseVals? y, parseRows? X, parseInt? u0, parseVals? uy, parseRows? uX, parseRows? Xp with
    | some s, some sci, some wl, some fhFit, some fhPred, some t0, some y, some X, some u0, some uy, some uX, some Xp =>
      let inDomain := decide (t0 ≤ u0) && decide (u0 ≤ t0 + (y.length : Int))   -- overlapping or continuing block
      let updE : Option (Upd Val) :=
        if upd == "no" then some .no
        else if !inDomain then none
        else if upd == "up" then (if X.isSome || uX.isSome then none else some (.updPredict u0 uy false))
        else if upd == "uprefit" then (if X.isSome || uX.isSome then none else some (.updPredict u0 uy true))
        else if X.isSome != uX.isSome then none      -- domain: the batch has X iff fit had X
        else if upd == "upd" then some (.batch u0 uy uX false)
        else if upd == "refit" then some (.batch u0 uy uX true)
        else none
      match updE with
      | none => "bad-op"
      | some u =>
        let (calls, res) := run vals theReg s sci wl t0 y X fhFit u fhPred Xp
        let cs := if calls.isEmpty then "-" else "/".intercalate (calls.map (showCall sci))
        let rs := match res with
          | .error (e, st) => s!"{showErr e}@{showStage st}"
          | .ok out => if out.isEmpty then "-" else ",".intercalate (out.map fun (p : Int × Val) => s!"{p.1}:{showVal p.2}")
        s!"calls={cs} res={rs}"
    | _, _, _, _, _, _, _, _, _, _, _, _ => "bad-op"
  | "hist" :: rg :: via :: step :: s :: sci :: wl :: fhFit :: t0 :: y :: X :: fail :: ops =>
    match parseReg? rg with
    | none => "bad-op"
    | some theReg =>
    match parseVia? via, parseInt? step, parseStrategy? s, parseSci? sci, parseWl? wl, parseFh? fhFit, parseInt? t0,
          parseVals? y, parseRows? X, parseBudget? fail, ops.mapM parseOp? with
    | some via, some step, some s, some sci, some wl, some fhFit, some t0, some y, some X, some b, some ops =>
      let (calls, res) := runHist vals theReg via step s sci wl t0 y X fhFit b ops
      let cs := if calls.isEmpty then "-" else "/".intercalate (calls.map (showCall sci))
      let rs := match res with
        | .error e => s!"{showErr e}@fit"
        | .ok rs => if rs.isEmpty then "-" else "|".intercalate (rs.map showOpRes)
      s!"calls={cs} res={rs}"
    | _, _, _, _, _, _, _, _, _, _, _ => "bad-op"
  | _ => "bad-op"

end SkVerif.Drv.C05
