import SkVerif.Model.Cores
import SkVerif.Drv.Parse
namespace SkVerif.Drv.C03
open SkVerif SkVerif.Fc SkVerif.Drv

def showErr : Err → String
  | .notFitted => "E:notfitted" | .value => "E:value" | .type => "E:type" | .index => "E:index"
  | .notImpl => "E:notimpl"

def parseSeries? (s : String) : Option Series :=
  if s == "-" then some []
  else (s.splitOn ",").mapM (fun t =>
    match t.splitOn ":" with
    | [l, v] => do
        let l ← parseInt? l
        let v ← parseORat? v
        pure (l, v)
    | _ => none)

def parseFhArg? (s : String) : Option (Option FhArg) :=
  if s == "none" then some none
  else match s.splitOn ":" with
    | ["r", vs] => (parseIntList? vs).map (fun v => some (v, true))
    | ["a", vs] => (parseIntList? vs).map (fun v => some (v, false))
    | _ => none

def parseCv? (s : String) : Option (Option CvSpec) :=
  if s == "none" then some none
  else match s.splitOn ":" with
    | [k, fh, wl, step, iw, sww] => do
        let k ← if k == "s" then some Split.Kind.sliding else if k == "e" then some Split.Kind.expanding else none
        let fh ← parseIntList? fh
        let wl ← parseInt? wl
        let step ← parseInt? step
        let iw ← if iw == "none" then some none else (parseInt? iw).map some
        let sww ← parseBool? sww
        pure (some ⟨k, fh, wl, step, iw, sww⟩)
    | _ => none

def parseOp? (s : String) : Option Op :=
  match s.splitOn "|" with
  | ["fit", y, fh] => do pure (Op.fit (← parseSeries? y) (← parseFhArg? fh))
  | ["pred", fh] => do pure (Op.predict (← parseFhArg? fh))
  | ["upd", y, b] => do pure (Op.update (← parseSeries? y) (← parseBool? b))
  | ["up", y, cv, b] => do pure (Op.updatePredict (← parseSeries? y) (← parseCv? cv) (← parseBool? b))
  | ["ups", y, fh, b] => do pure (Op.updatePredictSingle (← parseSeries? y) (← parseFhArg? fh) (← parseBool? b))
  | _ => none

def parseCore? (s : String) : Option (Core × Bool) :=
  match s.splitOn ":" with
  | ["last"] => some (coreLast, false)
  | ["mean", "none"] => some (coreMean none, false)
  | ["mean", w] => (parseInt? w).map (fun k => (coreMean (some k), false))
  | ["probe", w] => (parseInt? w).map (fun k => (coreProbe k, false))
  | ["opaque"] => some (coreOpaque, true)
  | _ => none

def showVal (opq : Bool) (v : ORat) : String := if opq then "?" else showORat v

def showSeries (opq : Bool) (s : Series) : String :=
  if s.isEmpty then "-" else ",".intercalate (s.map (fun o => s!"{o.1}:{showVal opq o.2}"))

def showOut (opq : Bool) : Out → String
  | .done => "ok"
  | .series s => s!"S[{showSeries opq s}]"
  | .frame cols rows =>
      let rs := rows.map (fun r => s!"{r.1}:" ++ "~".intercalate (r.2.map (showVal opq)))
      s!"F[{showIntList cols}|{",".intercalate rs}]"
  | .err e => showErr e

def showState (opq : Bool) (s : FState) : String :=
  let c := match s.cutoff with | some c => toString c | none => "none"
  let fh := match s.fh with
    | some f => (if f.rel then "r:" else "a:") ++ showIntList f.vals
    | none => "none"
  if opq then "{" ++ s!"{showBool s.fitted},{c},?,?" ++ "}"
  else "{" ++ s!"{showBool s.fitted},{c},{s.y.length},{fh}" ++ "}"

def runShow (core : Core) (opq : Bool) (mode : FhMode) : FState → List Op → List String
  | s, [] => [if opq then "Y[?]" else s!"Y[{showSeries false s.y}]"]
  | s, op :: ops =>
    let (s1, o) := step core mode s op
    (showOut opq o ++ showState opq s1) :: runShow core opq mode s1 ops

/-- `run <core> <mode o|r> <op> <op> ...` -/
def handle (toks : List String) : String :=
  match toks with
  | "run" :: core :: mode :: ops =>
    match parseCore? core, (if mode == "o" then some FhMode.optional else if mode == "r" then some FhMode.required else none),
          ops.mapM parseOp? with
    | some (c, opq), some m, some ops => " ".intercalate (runShow c opq m {} ops)
    | _, _, _ => "bad-op"
  | _ => "bad-op"

end SkVerif.Drv.C03
