/- Driver for C03 (stub: not built yet). -/
namespace SkVerif.Drv.C03
def handle (_toks : List String) : String := "bad-op"
end SkVerif.Drv.C03
