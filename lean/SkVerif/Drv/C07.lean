/- Driver for C07 (stub: not built yet). -/
namespace SkVerif.Drv.C07
def handle (_toks : List String) : String := "bad-op"
end SkVerif.Drv.C07
