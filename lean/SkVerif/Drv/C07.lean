/-
Driver for C07: runs the model of `evaluate` (Model/Evaluate.lean) with the Lean twin of the
harness's recording forecaster `Rec` (harness/corr/C07.py) and the harness's metrics.  Import-free.

  eval  <cv> <strategy r|u|x> <metric> <return_data T|F> <fit tag none|int> <fail none|k:kind> <pre> <labels> <values> <X>
        <pre> = what the forecaster instance went through before this call:
          `none` (fresh) | `ops=<call>;<call>…` (calls in the trace encoding) |
          `ev=<cv>!<strategy>!<labels>!<values>!<X>` (the same instance was evaluated before, metric asym)
  split <train> <test> <fh> <labels> <values> <X>

cv: `s|fh|wl|step|iw|sww`, `e|fh|wl|step|sww`, `w|fh|wl`, `c|cutoffs|fh|wl`, `ns`.
X: `none` or `<labels>:<row>,<row>,…` with row = values joined by `_`.
-/
import SkVerif.Model.Evaluate
import SkVerif.Drv.Parse
namespace SkVerif.Drv.C07
open SkVerif SkVerif.Evaluate SkVerif.Drv

abbrev S := Series Rat
abbrev XF := Series (List Rat)

/-! ### the recording forecaster's forecasting rule (twin of `Rec` in harness/corr/C07.py) -/

structure RecState where
  fitD : Rat := 0
  lastD : Rat := 0
  k : Nat := 0
  cutoff : Int := 0
  ncalls : Nat := 0
  fitted : Bool := false

def dig (y : S) : Rat :=
  ((List.range y.length).zip y).foldl (fun acc (j, e) => acc + ((j : Nat) + 1 : Rat) * e.2) 0

def rowDig (r : List Rat) : Rat :=
  ((List.range r.length).zip r).foldl (fun acc (j, v) => acc + ((j : Nat) + 1 : Rat) * v) 0

def xdig : Option XF → Rat
  | none => 0
  | some X => (X.foldl (fun acc e => acc + rowDig e.2) 0) / 2

def rowSum (r : List Rat) : Rat := r.foldl (· + ·) 0

def lastLabel (y : S) (dflt : Int) : Int := match y.getLast? with | some e => e.1 | none => dflt

/-- failure injection: the forecaster raises `kind` at its `k`-th call -/
def tick (fail : Option (Nat × Err)) (st : RecState) : Except Err RecState :=
  let st' := { st with ncalls := st.ncalls + 1 }
  match fail with
  | some (k, e) => if k == st'.ncalls then .error e else .ok st'
  | none => .ok st'

def recMachine (fail : Option (Nat × Err)) : Machine RecState Rat (List Rat) where
  fit st y X fh tag :=
    match tick fail st with
    | .error e => .error e
    | .ok st =>
      if fh.isEmpty then .error .value
      else
        let d := dig y + xdig X + (match tag with | some t => (t : Rat) | none => 0)
        .ok { st with fitD := d, lastD := d, k := 0, cutoff := lastLabel y st.cutoff, fitted := true }
  update st y X :=
    match tick fail st with
    | .error e => .error e
    | .ok st =>
      if !st.fitted then .error .notfitted
      else .ok { st with lastD := dig y + xdig X, k := st.k + 1, cutoff := lastLabel y st.cutoff }
  predict st fh X :=
    match tick fail st with
    | .error e => .error e
    | .ok st =>
      if !st.fitted then .error .notfitted
      else if fh.isEmpty then .error .value
      else
        let xs : Int → Rat := fun L => match X with
          | none => 0
          | some X => match X.find? (fun e => e.1 == L) with
            | some e => rowSum e.2
            | none => 0
        .ok (st, fh.map (fun L => (L, st.lastD + st.fitD / 2 + (st.k : Rat) / 4 + ((L - st.cutoff : Int) : Rat) / 8 + xs L)))
  cutoff st := st.cutoff

/-! ### metrics of the harness, as functions of (y_true, y_pred) -/

def vals (s : S) : List Rat := s.map Prod.snd
def rabs (q : Rat) : Rat := if q < 0 then -q else q
def rmax (a b : Rat) : Rat := if a < b then b else a
def EPS : Rat := 1 / 4503599627370496      -- 2^-52
def rsum (l : List Rat) : Rat := l.foldl (· + ·) 0
def rmean (l : List Rat) : Rat := if l.isEmpty then 0 else rsum l / (l.length : Rat)

def mAsym (a b : S) : Rat := rsum ((vals a).zipWith (fun x y => 2 * x - y) (vals b))
def mWasym (a b : S) : Rat :=
  rsum (((List.range a.length).zip ((vals a).zip (vals b))).map (fun (j, x, y) => ((j : Nat) + 1 : Rat) * (2 * x - y)))
def mSym (a b : S) : Rat := rsum ((vals a).zipWith (fun x y => rabs (x - y)) (vals b))
def mSmape (a b : S) : Rat :=
  rmean ((vals a).zipWith (fun x y => rabs (2 * rabs (x - y) / rmax (rabs x + rabs y) EPS)) (vals b))
def mMape (a b : S) : Rat :=
  rmean ((vals a).zipWith (fun x y => rabs ((x - y) / rmax (rabs x) EPS)) (vals b))

def dfltMetric : Metric Rat Rat := ⟨some "MeanAbsolutePercentageError", mSmape⟩

def parseScoring? (s : String) : Option (Scoring Rat Rat) :=
  if s == "asym" then some (.some ⟨some "asym", mAsym⟩)
  else if s == "wasym" then some (.some ⟨some "wasym", mWasym⟩)
  else if s == "sym" then some (.some ⟨some "sym", mSym⟩)
  -- scores with `greater_is_better = True`: the attribute changes nothing in what `evaluate` reports
  else if s == "gasym" then some (.some ⟨some "gasym", mAsym⟩)
  else if s == "gcust" then some (.some ⟨some "gcust", mWasym⟩)
  else if s == "mape" then some (.some ⟨some "MeanAbsolutePercentageError", mMape⟩)
  else if s == "noname" then some (.some ⟨none, mAsym⟩)
  else if s == "default" then some .none
  else if s == "notcallable" then some .notCallable
  else none

/-! ### parsing -/

def parseOInt? (s : String) : Option (Option Int) :=
  if s == "none" then some none else (parseInt? s).map some

def parseErr? (s : String) : Option Err :=
  if s == "value" then some .value else if s == "type" then some .type else if s == "key" then some .key
  else if s == "index" then some .index else if s == "notimpl" then some .notimpl else if s == "attr" then some .attr
  else none

def parseFail? (s : String) : Option (Option (Nat × Err)) :=
  if s == "none" then some none
  else match s.splitOn ":" with
    | [k, e] => do let k ← k.toNat?; let e ← parseErr? e; pure (some (k, e))
    | _ => none

def parseSeries? (ls vs : String) : Option S := do
  let l ← parseIntList? ls
  let v ← parseRatList? vs
  if l.length ≠ v.length then none else pure (l.zip v)

def parseRow? (s : String) : Option (List Rat) := (s.splitOn "_").mapM parseRat?

def parseX? (s : String) : Option (Option XF) :=
  if s == "none" then some none
  else match s.splitOn ":" with
    | [ls, rs] => do
      let l ← parseIntList? ls
      let rows ← if rs == "-" then some [] else (rs.splitOn ",").mapM parseRow?
      if l.length ≠ rows.length then none else pure (some (l.zip rows))
    | _ => none

def parseCV? (s : String) : Option CV :=
  match s.splitOn "|" with
  | ["s", fh, wl, step, iw, sww] => do
    pure (.sliding (← parseIntList? fh) (← parseInt? wl) (← parseInt? step) (← parseOInt? iw) (← parseBool? sww))
  | ["e", fh, wl, step, sww] => do
    pure (.expanding (← parseIntList? fh) (← parseInt? wl) (← parseInt? step) (← parseBool? sww))
  | ["w", fh, wl] => do pure (.single (← parseIntList? fh) (← parseOInt? wl))
  | ["c", cs, fh, wl] => do pure (.cutoff (← parseIntList? cs) (← parseIntList? fh) (← parseInt? wl))
  | ["ns"] => some .notSplitter
  | _ => none

def parseStrategy? (s : String) : Option Strategy :=
  if s == "r" then some .refit else if s == "u" then some .update else if s == "x" then some .invalid else none

/-! ### printing -/

def showErr : Err → String
  | .value => "E:value" | .type => "E:type" | .attr => "E:attr" | .index => "E:index" | .key => "E:key"
  | .notfitted => "E:notfitted" | .notimpl => "E:notimpl" | .other => "E:other"

def showSeries (s : S) : String := s!"{showIntList (labels s)}:{showRatList (vals s)}"

def showX : Option XF → String
  | none => "none"
  | some X =>
    let rows := X.map (fun e => "_".intercalate (e.2.map showRat))
    s!"{showIntList (labels X)}:{if rows.isEmpty then "-" else ",".intercalate rows}"

def showCall : Call Rat (List Rat) → String
  | .fit y X fh tag => s!"F~{showSeries y}~{showX X}~{showIntList fh}~{match tag with | some t => toString t | none => "none"}"
  | .update y X => s!"U~{showSeries y}~{showX X}"
  | .predict fh X => s!"P~{showIntList fh}~{showX X}"

def showTrace (tr : List (Call Rat (List Rat))) : String :=
  if tr.isEmpty then "-" else ";".intercalate (tr.map showCall)

def showData (rows : List (Row Rat Rat)) : String :=
  match rows.mapM (·.data) with
  | none => "none"
  | some ds => ";".intercalate (ds.map (fun (a, b, p) => s!"{showSeries a}!{showSeries b}!{showSeries p}"))

/-! ### the forecaster's history before the call -/

def parseSer? (s : String) : Option S :=
  match s.splitOn ":" with
  | [ls, vs] => parseSeries? ls vs
  | _ => none

def parseCall? (s : String) : Option (Call Rat (List Rat)) :=
  match s.splitOn "~" with
  | ["F", y, x, fh, tag] => do pure (.fit (← parseSer? y) (← parseX? x) (← parseIntList? fh) (← parseOInt? tag))
  | ["U", y, x] => do pure (.update (← parseSer? y) (← parseX? x))
  | ["P", fh, x] => do pure (.predict (← parseIntList? fh) (← parseX? x))
  | _ => none

/-- the state a call leaves the recording forecaster in (a call that raises changes nothing
but the call counter) -/
def applyCall (m : Machine RecState Rat (List Rat)) (st : RecState) : Call Rat (List Rat) → RecState
  | .fit y X fh tag => match m.fit st y X fh tag with | .ok s => s | .error _ => { st with ncalls := st.ncalls + 1 }
  | .update y X => match m.update st y X with | .ok s => s | .error _ => { st with ncalls := st.ncalls + 1 }
  | .predict fh X => match m.predict st fh X with | .ok (s, _) => s | .error _ => { st with ncalls := st.ncalls + 1 }

def replay (m : Machine RecState Rat (List Rat)) (st : RecState) (cs : List (Call Rat (List Rat))) : RecState :=
  cs.foldl (applyCall m) st

/-- the calls of the history and the state it leaves -/
def parsePre? (fail : Option (Nat × Err)) (s : String) : Option (List (Call Rat (List Rat)) × RecState) :=
  if s == "none" then some ([], {})
  else if s.startsWith "ops=" then do
    let cs ← ((s.drop 4).toString.splitOn ";").mapM parseCall?
    pure (cs, replay (recMachine fail) {} cs)
  else if s.startsWith "ev=" then
    match (s.drop 3).toString.splitOn "!" with
    | [cv, strat, yl, yv, x] => do
      let cv ← parseCV? cv
      let strat ← parseStrategy? strat
      let y ← parseSeries? yl yv
      let X ← parseX? x
      let r := evaluate (recMachine fail) dfltMetric ({} : RecState) cv y X strat (.some ⟨some "asym", mAsym⟩) none false
      pure (r.1, replay (recMachine fail) {} r.1)
    | _ => none
  else none

def handle (toks : List String) : String :=
  match toks with
  | ["eval", cv, strat, met, rd, fp, fail, pre, yl, yv, x] =>
    match parseCV? cv, parseStrategy? strat, parseScoring? met, parseBool? rd, parseOInt? fp, parseFail? fail,
          parseSeries? yl yv, parseX? x with
    | some cv, some strat, some sc, some rd, some fp, some fail, some y, some X =>
      match parsePre? fail pre with
      | none => "bad-op"
      | some (preCalls, st0) =>
        let r := evaluate (recMachine fail) dfltMetric st0 cv y X strat sc fp rd
        let tr := preCalls ++ r.1
        match r.2 with
        | .error e => s!"err={showErr e} name=- score=- len=- cut=- data=- npre={preCalls.length} trace={showTrace tr}"
        | .ok t =>
          s!"err=none name={t.scoreName} score={showRatList (t.rows.map (·.score))} len={showNatList (t.rows.map (·.lenTrain))} cut={showIntList (t.rows.map (·.cutoff))} data={showData t.rows} npre={preCalls.length} trace={showTrace tr}"
    | _, _, _, _, _, _, _, _ => "bad-op"
  | ["split", train, test, fh, yl, yv, x] =>
    match parseIntList? train, parseIntList? test, parseIntList? fh, parseSeries? yl yv, parseX? x with
    | some train, some test, some fh, some y, some X =>
      match splitYX y X train test fh with
      | .error e => s!"err={showErr e}"
      | .ok p => s!"ytrain={showSeries p.yTrain} ytest={showSeries p.yTest} xtrain={showX p.xTrain} xtest={showX p.xTest}"
    | _, _, _, _, _ => "bad-op"
  | _ => "bad-op"

end SkVerif.Drv.C07
