/-
C17 specifications, written without reference to the code's algorithm: what a probability row is,
what "the square root of" means over the rationals, and the textbook interval features.
-/
namespace SkVerif.C17.Spec

/-- a probability distribution over the classes: entries in [0, 1] summing to 1 -/
def IsDist (r : List Rat) : Prop := (∀ x ∈ r, 0 ≤ x ∧ x ≤ 1) ∧ r.sum = 1

/-- `s` is the (non-negative) square root of `x` -/
def IsSqrt (s x : Rat) : Prop := 0 ≤ s ∧ s * s = x

/-- arithmetic mean -/
def mean (xs : List Rat) : Rat := xs.sum / (xs.length : Rat)

/-- population variance: mean squared deviation from the mean -/
def variance (xs : List Rat) : Rat := (xs.map (fun x => (x - mean xs) * (x - mean xs))).sum / (xs.length : Rat)

/-- equally spaced time points `1, 2, …, n` -/
def times (n : Nat) : List Rat := (List.range n).map (fun (i : Nat) => (i : Rat) + 1)

/-- ordinary-least-squares slope of `ys` against `1..n`:  Σ (t − t̄)(y − ȳ) / Σ (t − t̄)² -/
def olsSlope (ys : List Rat) : Rat :=
  let ts := times ys.length
  (List.zipWith (fun y t => (t - mean ts) * (y - mean ys)) ys ts).sum /
    (ts.map (fun t => (t - mean ts) * (t - mean ts))).sum

end SkVerif.C17.Spec
