/-
C14 specification of PAA: the series is read as a step function on [0, n) (value x_i on [i, i+1));
it is cut into k frames of equal, possibly fractional, length n/k, and each frame is replaced by the
mean of the step function over it  =  (1 / (n/k)) · Σ_i |[i,i+1) ∩ frame_j| · x_i.
-/
import SkVerif.Model.C14PAA
namespace SkVerif.C14.Spec
open SkVerif.C14

/-- length of the intersection of the sample interval `[i, i+1)` with the frame `[a, b)` -/
def overlap (a b : Rat) (i : Nat) : Rat := max 0 (min b ((i : Rat) + 1) - max a (i : Rat))

/-- mean of the step function over frame `j` of `k` -/
def frameMean (k : Nat) (xs : List Rat) (j : Nat) : Rat :=
  let fl : Rat := (xs.length : Rat) / (k : Rat)
  (xs.zipIdx.map (fun (p : Rat × Nat) => overlap ((j : Rat) * fl) (((j : Rat) + 1) * fl) p.2 * p.1)).sum / fl

/-- PAA of one series -/
def paaSeries (k : Nat) (xs : List Rat) : List Rat := (List.range k).map (frameMean k xs)

/-- PAA of a panel: every cell on its own, rows and columns where they were -/
def paa (k : Nat) (X : Panel) : Panel := X.map (fun inst => inst.map (paaSeries k))

end SkVerif.C14.Spec
