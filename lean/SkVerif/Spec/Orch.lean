/-
Specification side of C19, written from the property text (not from the orchestrator's algorithm):
what an honest prediction record for one (strategy, dataset, fold, part) is, and which records a run requests.
Import-free apart from the data types of the model.
-/
import SkVerif.Model.Orch
namespace SkVerif.Orch.Spec
open SkVerif.Orch

/-- the instances (rows) at the given positions -/
def instances (d : Data) (idx : List Nat) : List (List Rat) := idx.map (fun i => d.rows.getD i [])

/-- the feature cells of an instance: the task's feature columns, or every column but the target -/
def features (d : Data) (row : List Rat) : List Rat :=
  match d.feats with
  | some cols => cols.map (fun c => row.getD c 0)
  | none => row.eraseIdx d.tpos

def target (d : Data) (row : List Rat) : Rat := row.getD d.tpos 0

/-- "fitting a clone of the strategy's estimator on that fold's training instances" -/
def honestFit {N W} (L : Learner W) (it : Item N) : W :=
  let tr := instances it.data it.train
  L.fit it.p (tr.map (features it.data)) (tr.map (target it.data))

/-- "... and predicting the recorded instances": instance index, true values, predictions.
"Instance index" = the POSITIONS (`iloc`) the cv splitter yielded for the part; that is what the code stores as
`index`.  The row labels of the dataset's frame (permuted, offset, duplicated or string labels) are not an input of
the model at all: true values and features of a record are those of the rows AT these positions. -/
def honest {N W} (L : Learner W) (it : Item N) (part : Part) : Content :=
  let idx := match part with | .train => it.train | .test => it.test
  let inst := instances it.data idx
  { idx := idx, yTrue := inst.map (target it.data), yPred := L.predict (honestFit L it) (inst.map (features it.data)) }

/-- the train/test parts a run with these options requests -/
def parts (o : Opts) : List Part := if o.pot then [.train, .test] else [.test]

variable {N K W : Type} [DecidableEq N] [DecidableEq K]

/-- key of the record / of the saved fitted strategy of a work item -/
def rk (cfg : Cfg N K) (it : Item N) (p : Part) : K := cfg.rkey it.s it.d p it.fold
def sk (cfg : Cfg N K) (it : Item N) : K := cfg.skey it.s it.d it.fold

/-- distinct (strategy, dataset, fold, part) get distinct keys, and no work item is listed twice -/
structure KeyInj (cfg : Cfg N K) (items : List (Item N)) : Prop where
  recs : ∀ a ∈ items, ∀ b ∈ items, ∀ p q, rk cfg a p = rk cfg b q → a = b ∧ p = q
  strats : ∀ a ∈ items, ∀ b ∈ items, sk cfg a = sk cfg b → a = b
  nodup : items.Nodup

/-- everything the run's options request for this item is in the store -/
def CompleteItem (cfg : Cfg N K) (o : Opts) (st : St N K W) (it : Item N) : Prop :=
  has (rk cfg it .test) st.recs = true ∧ (o.pot = true → has (rk cfg it .train) st.recs = true) ∧
  (o.saveF = true → has (sk cfg it) st.strats = true)

instance (cfg : Cfg N K) (o : Opts) (st : St N K W) (it : Item N) : Decidable (CompleteItem cfg o st it) := by
  unfold CompleteItem; infer_instance

/-- the estimator calls an honest, non-overwriting run owes for one item, given what is in the store:
none if everything requested is there, else one fit and one predict per requested part that is missing -/
def owedCalls (cfg : Cfg N K) (o : Opts) (st : St N K W) (it : Item N) : List (Call N) :=
  if CompleteItem cfg o st it then []
  else Call.fit it :: ((parts o).filter (fun p => !has (rk cfg it p) st.recs)).map (Call.predict it)

/-- the record keys such a run owes -/
def owedRecs (cfg : Cfg N K) (o : Opts) (st : St N K W) (it : Item N) : List K :=
  if CompleteItem cfg o st it then []
  else ((parts o).filter (fun p => !has (rk cfg it p) st.recs)).map (rk cfg it)

/-- the fitted-strategy keys such a run owes -/
def owedStrats (cfg : Cfg N K) (o : Opts) (st : St N K W) (it : Item N) : List K :=
  if CompleteItem cfg o st it then []
  else if o.saveF && !has (sk cfg it) st.strats then [sk cfg it] else []

/-- all calls for one item: one fit, one predict per requested part -/
def allCalls (o : Opts) (it : Item N) : List (Call N) := Call.fit it :: (parts o).map (Call.predict it)

end SkVerif.Orch.Spec
