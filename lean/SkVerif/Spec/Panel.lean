/-
Specification side of C15: the abstract panel and the canonical container of each kind that
holds it.  Written without reference to the converters' algorithms: a panel is a rectangular
`X[i][j][t]` (instance, variable, time) plus variable names; `nestedOf / miOf / longOf / tab2Of`
say what each container must look like to *hold* that panel.
-/
import SkVerif.Model.Panel
namespace SkVerif.Panel.Spec
open SkVerif.Panel

/-- `X` is an `n × c × t` array -/
def Rect3 {α} (n c t : Nat) (X : Arr3 α) : Prop :=
  X.length = n ∧ ∀ inst ∈ X, inst.length = c ∧ ∀ s ∈ inst, s.length = t

/-- the nested frame holding panel `X` under `names`: column `j`, row `i` = series `X[i][j]`,
in a Series (`k = false`) or array (`k = true`) cell -/
def nestedOf {ν α} (names : List ν) (k : Bool) (X : Arr3 α) : Nested ν α :=
  ⟨names.zip (transposeW (nCols X) (X.map (List.map (mkCell k))))⟩

/-- rows of the multi-index frame holding `X`: key `(i, q)` in lexicographic order,
row `(i, q)` = `[X[i][j][q] for j]` -/
def miRows {α} (X : Arr3 α) : List ((Int × Int) × List α) :=
  (X.zipIdx.map (fun p =>
    (transposeW (nTime X) p.1).zipIdx.map (fun q => (((p.2 : Int), (q.2 : Int)), q.1)))).flatten

def miOf {ν α} (inst time : String) (names : List ν) (X : Arr3 α) : MI ν α :=
  ⟨inst, time, names, miRows X⟩

/-- rows of the long table holding `X`, variable by variable, then instance, then time -/
def longRows {ν α} (names : List ν) (X : Arr3 α) : List (Int × Int × ν × α) :=
  ((names.zip (transposeW (nCols X) X)).map (fun p =>
    (p.2.zipIdx.map (fun s =>
      s.1.zipIdx.map (fun v => ((s.2 : Int), (v.2 : Int), p.1, v.1)))).flatten)).flatten

def longOf {ν α} (inst time dim : String) (names : List ν) (X : Arr3 α) : Long ν α :=
  ⟨inst, time, dim, longRows names X⟩

/-- the 2-D table holding `X`: one row per instance, the variables' series one after the other -/
def tab2Rows {α} (X : Arr3 α) : List (List α) := X.map List.flatten

/-- the panel a 2-D table holds when read back: one variable whose series is the whole row -/
def panelOfRows {α} (rows : List (List α)) : Arr3 α := rows.map (fun r => [r])

end SkVerif.Panel.Spec
