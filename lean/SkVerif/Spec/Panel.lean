/-
Specification side of C15: the abstract panel and the canonical container of each kind that
holds it.  Written without reference to the converters' algorithms: a panel is a rectangular
`X[i][j][t]` (instance, variable, time) plus variable names; `nestedOf / miOf / longRowsM / tab2Rows`
say what each container must look like to *hold* that panel.
-/
import SkVerif.Model.Panel
namespace SkVerif.Panel.Spec
open SkVerif.Panel

/-- `X` is an `n × c × t` array -/
def Rect3 {α} (n c t : Nat) (X : Arr3 α) : Prop :=
  X.length = n ∧ ∀ inst ∈ X, inst.length = c ∧ ∀ s ∈ inst, s.length = t

/-- the nested frame holding panel `X` under `names`: column `j`, row `i` = series `X[i][j]`,
in a Series (`k = false`) or array (`k = true`) cell -/
def nestedOf {ν α} (names : List ν) (k : Bool) (X : Arr3 α) : Nested ν α :=
  ⟨names.zip (transposeW (nCols X) (X.map (List.map (mkCell k))))⟩

/-- rows of the multi-index frame holding `X`: key `(i, q)` in lexicographic order,
row `(i, q)` = `[X[i][j][q] for j]` -/
def miRows {α} (X : Arr3 α) : List ((Int × Int) × List α) :=
  (X.zipIdx.map (fun p =>
    (transposeW (nTime X) p.1).zipIdx.map (fun q => (((p.2 : Int), (q.2 : Int)), q.1)))).flatten

def miOf {ν α} (inst time : String) (names : List ν) (X : Arr3 α) : MI ν α :=
  ⟨inst, time, names, miRows X⟩

/-- the multi-index frame holding `X` whose instances carry the identifiers `labels` (pairwise
distinct, in ANY order: the panel's instance order is the order of the rows, not of the labels) -/
def miOfL {ν α : Type} (inst time : String) (names : List ν) (labels : List Int) (X : Arr3 α) :
    MI ν α :=
  ⟨inst, time, names, relabelInstances labels (miRows X)⟩

/-- rows of the long table holding `X`, as the molten canonical multi-index frame: one row
`(i, q, name_j, X[i][j][q])` per cell, variable after variable -/
def longRowsM {ν α : Type} (names : List ν) (X : Arr3 α) : List (Int × Int × ν × α) :=
  (melt names (miRows X)).map (fun e => (e.1.1.1, e.1.1.2, e.1.2, e.2))

/-- labels of the 2-D table: `name__q` for every variable and time point -/
def tab2Labels {ν : Type} (ops : NameOps ν) (names : List ν) (t : Nat) : List String :=
  (names.map (fun nm => (List.range t).map (fun q => ops.sh nm ++ "__" ++ toString q))).flatten

/-- the 2-D table holding `X`: one row per instance, the variables' series one after the other -/
def tab2Rows {α} (X : Arr3 α) : List (List α) := X.map List.flatten

/-- the panel a 2-D table holds when read back: one variable whose series is the whole row -/
def panelOfRows {α} (rows : List (List α)) : Arr3 α := rows.map (fun r => [r])

/-- `≤` on (name, column) pairs: by name, in the order `lt` that `pivot` sorts variables by -/
def pairLE {ν β : Type} (lt : ν → ν → Bool) (p q : ν × β) : Bool := !lt q.1 p.1

/-- the variables of a panel as (name, [series of instance 0, 1, …]) blocks, sorted by name -/
def sortedVars {ν α : Type} (lt : ν → ν → Bool) (names : List ν) (X : Arr3 α) :
    List (ν × List (List α)) :=
  isortBy (pairLE lt) (names.zip (transposeW (nCols X) X))

/-- the variable names in sorted order … -/
def sortVarsNames {ν α : Type} (lt : ν → ν → Bool) (names : List ν) (X : Arr3 α) : List ν :=
  (sortedVars lt names X).map (·.1)

/-- … and the panel with its variables rearranged accordingly (every name keeps its data) -/
def sortVarsPanel {ν α : Type} (lt : ν → ν → Bool) (names : List ν) (X : Arr3 α) : Arr3 α :=
  transposeW X.length ((sortedVars lt names X).map (·.2))

/-- intrinsic well-formedness of a nested frame that holds an `n × c × t` panel in cells of
container kind `k`: distinct labels, `c` columns of `n` cells, every cell a series of length `t` -/
def WFNested {ν α} (n c t : Nat) (k : Bool) (N : Nested ν α) : Prop :=
  N.names.Nodup ∧ N.cols.length = c ∧
  ∀ p ∈ N.cols, p.2.length = n ∧ ∀ cell ∈ p.2, ∃ vs : List α, cell = mkCell k vs ∧ vs.length = t

/-- the panel a nested frame holds: `X[i][j]` = the series in row `i`, column `j` -/
def panelOfNested {ν α} (N : Nested ν α) : Arr3 α :=
  transposeW N.nRows (N.cols.map (fun p => p.2.map (fun cell => (cell.vals?).getD [])))

/-! ### conversion paths between nested frame, 3-D array and multi-index frame

`Shape` is everything about a container except the panel it holds: which kind it is, its column
names, the cell container, the level names.  `hopShape` is the bookkeeping the property text
describes: names are kept whenever both ends carry names, replaced by the defaults `var_i` (or the
names given explicitly) after a 3-D array, and the options of the last converter decide cell
container and level names.  `none` = the converter does not apply / its arguments do not fit. -/

inductive Shape (ν : Type) where
  | arr3
  | nested (names : List ν) (k : Bool)
  | mi (inst time : String) (names : List ν)
  deriving DecidableEq, Repr

def holds {ν α} : Shape ν → Arr3 α → Rep ν α
  | .arr3, X => .arr3 X
  | .nested names k, X => .nested (nestedOf names k X)
  | .mi i t names, X => .mi (miOf i t names X)

def Shape.ok {ν} (c : Nat) : Shape ν → Prop
  | .arr3 => True
  | .nested names _ => names.length = c ∧ names.Nodup
  | .mi _ _ names => names.length = c

def hopShape {ν} [DecidableEq ν] (ops : NameOps ν) (c : Nat) : Hop ν → Shape ν → Option (Shape ν)
  | .n3, .nested _ _ => some .arr3
  | .a3n none k, .arr3 => some (.nested (defaultNames ops c) k)
  | .a3n (some ns) k, .arr3 => if ns.length = c ∧ ns.Nodup then some (.nested ns k) else none
  | .a3m i t none, .arr3 => some (.mi (i.getD "instances") (t.getD "timepoints") (defaultNames ops c))
  | .a3m i t (some ns), .arr3 =>
    if ns.length = c then some (.mi (i.getD "instances") (t.getD "timepoints") ns) else none
  | .m3 (some i) (some t), .mi i' t' _ => if i = i' ∧ t = t' ∧ i ≠ t then some .arr3 else none
  | .nm i t, .nested ns _ => some (.mi (i.getD "instance") (t.getD "timepoints") ns)
  | .mn (some i) k, .mi i' t' ns =>
    if i = i' ∧ i' ≠ t' ∧ ns.Nodup then some (.nested ns k) else none
  | _, _ => none

def pathShape {ν} [DecidableEq ν] (ops : NameOps ν) (c : Nat) : List (Hop ν) → Shape ν → Option (Shape ν)
  | [], s => some s
  | h :: hs, s => (hopShape ops c h s).bind (pathShape ops c hs)

/-! ### conversion paths over all five containers

A state is the container's shape together with the panel it holds and the panel's dimensions: the
long table rearranges the variables in sorted-name order (every name with its data), the 2-D table forgets the variable
boundaries (reading it back gives ONE variable of length `c·t`). -/

inductive Shape5 (ν : Type) where
  | tri (s : Shape ν)
  | long (inst time dim : String) (names : List ν)
  | tab2 (labels : Option (List String))
  deriving DecidableEq, Repr

structure PState (ν α : Type) where
  shape : Shape5 ν
  c : Nat
  t : Nat
  X : Arr3 α

def holds5 {ν α : Type} : Shape5 ν → Arr3 α → Rep ν α
  | .tri s, X => holds s X
  | .long i t d names, X => .long ⟨i, t, d, longRowsM names X⟩
  | .tab2 labels, X => .tab2 ⟨labels, tab2Rows X⟩

def Shape5.ok {ν : Type} (c : Nat) : Shape5 ν → Prop
  | .tri s => s.ok c
  | .long _ _ _ names => names.length = c ∧ names.Nodup
  | .tab2 _ => True

/-- a hop inside the triangle nested / 3-D array / multi-index: the panel is untouched -/
def triHop {ν α : Type} [DecidableEq ν] (ops : NameOps ν) (h : Hop ν) (st : PState ν α) :
    Option (PState ν α) :=
  match st.shape with
  | .tri s => (hopShape ops st.c h s).map (fun s' => { st with shape := .tri s' })
  | _ => none

/-- the bookkeeping of one converter on a state (`none`: it does not apply / arguments unfit) -/
def hop5 {ν α : Type} [DecidableEq ν] (ops : NameOps ν) (reserved : ν → Bool) (h : Hop ν)
    (st : PState ν α) : Option (PState ν α) :=
  match h with
  | .nl i tm d =>
    match st.shape with
    | .tri (.nested names _) =>
      if names.any reserved then none
      else some { st with shape := .long (i.getD "index") (tm.getD "time_index") (d.getD "column") names }
    | _ => none
  | .ln i tm d cn =>
    match st.shape with
    | .long i' t' d' names =>
      if i = i' ∧ tm = t' ∧ d = d' ∧ i ≠ tm then
        match cn with
        | none => some { st with shape := .tri (.nested (sortVarsNames ops.lt names st.X) false),
                                 X := sortVarsPanel ops.lt names st.X }
        | some ns =>
          if ns.length = st.c ∧ ns.Nodup then
            some { st with shape := .tri (.nested ns false), X := sortVarsPanel ops.lt names st.X }
          else none
      else none
    | _ => none
  | .n2 rn =>
    match st.shape with
    | .tri (.nested names _) =>
      some { st with shape := .tab2 (if rn then none else some (tab2Labels ops names st.t)) }
    | _ => none
  | .a32 =>
    match st.shape with
    | .tri .arr3 => some { st with shape := .tab2 none }
    | _ => none
  | .t2n cols k =>
    match st.shape with
    | .tab2 _ =>
      match cols with
      | none => some ⟨.tri (.nested [ops.zero] k), 1, st.c * st.t, panelOfRows (tab2Rows st.X)⟩
      | some [name] => some ⟨.tri (.nested [name] k), 1, st.c * st.t, panelOfRows (tab2Rows st.X)⟩
      | some _ => none
    | _ => none
  | h => triHop ops h st

def path5 {ν α : Type} [DecidableEq ν] (ops : NameOps ν) (reserved : ν → Bool) :
    List (Hop ν) → PState ν α → Option (PState ν α)
  | [], st => some st
  | h :: hs, st => (hop5 ops reserved h st).bind (path5 ops reserved hs)

end SkVerif.Panel.Spec
