/-
Specification for C11, written from the textbook definitions (Hyndman & Athanasopoulos, "Forecasting:
principles and practice", ch. "Some simple forecasting methods") and the class docstrings, WITHOUT reference
to how sktime computes them.  Import-free.

A series is a function `y : Int → Option Rat` from integer time labels to values (`none` = missing);
`T` is the time of the last observation (the cutoff), `h ≥ 1` a step ahead, `w` a window length:
the window holds the observations at times `T-w+1, …, T`.

* naive / last value          ŷ(T+h) = y(T)
* seasonal naive              ŷ(T+h) = y(T + h − sp·⌈h/sp⌉)
* mean of the window          ŷ(T+h) = mean of the non-missing y(t), t in the window
* seasonal mean               ŷ(T+h) = mean of the non-missing y(t), t in the window, t ≡ T+h (mod sp)
* drift                       ŷ(T+h) = y(T) + h·(y(T) − y(T−w+1))/(w−1)
* polynomial trend            the polynomial of degree ≤ d minimising Σ (y_i − p(t_i))², t_i = i = 0 … n−1
-/
namespace SkVerif.Spec.Naive

abbrev Val := Option Rat

/-- the non-missing values of a list -/
def present : List Val → List Rat
  | [] => []
  | none :: l => present l
  | some x :: l => x :: present l

def total : List Rat → Rat
  | [] => 0
  | x :: l => x + total l

/-- mean of the non-missing values; missing when there is none -/
def meanOf (vs : List Val) : Val :=
  match present vs with
  | [] => none
  | x :: l => some (total (x :: l) / (((x :: l).length : Nat) : Rat))

/-- the time points of a window of `w` observations ending at `T`, oldest first -/
def windowTimes (T : Int) (w : Nat) : List Int :=
  (List.range w).map (fun (i : Nat) => T - (w : Int) + 1 + (i : Int))

/-- the observations in that window, oldest first -/
def window (y : Int → Val) (T : Int) (w : Nat) : List Val := (windowTimes T w).map y

/-- ⌈h / sp⌉ for `h ≥ 1` -/
def seasonsBack (h : Int) (sp : Nat) : Int := (h + (sp : Int) - 1) / (sp : Int)

def last (y : Int → Val) (T : Int) (_h : Int) : Val := y T

def seasonalLast (y : Int → Val) (T : Int) (sp : Nat) (h : Int) : Val :=
  y (T + h - (sp : Int) * seasonsBack h sp)

def mean (y : Int → Val) (T : Int) (w : Nat) (_h : Int) : Val :=
  meanOf (window y T w)

/-- same season as the target time `T + h` -/
def sameSeason (T : Int) (sp : Nat) (h : Int) (t : Int) : Bool := (t - (T + h)) % (sp : Int) == 0

def seasonalMean (y : Int → Val) (T : Int) (w sp : Nat) (h : Int) : Val :=
  meanOf (((windowTimes T w).filter (sameSeason T sp h)).map y)

/-- straight line through `(T-w+1, y(T-w+1))` and `(T, y(T))`, evaluated at `T + h`; needs both end points -/
def drift (y : Int → Val) (T : Int) (w : Nat) (h : Int) : Val :=
  match y (T - (w : Int) + 1), y T with
  | some a, some b => some (b + (h : Rat) * ((b - a) / (((w : Int) - 1 : Int) : Rat)))
  | _, _ => none

/-! ### least squares -/

/-- sum of squared residuals of the line `a + b·t` on the points `(t, y)` -/
def sse (pts : List (Rat × Rat)) (a b : Rat) : Rat :=
  total (pts.map (fun p => (p.2 - (a + b * p.1)) * (p.2 - (a + b * p.1))))

/-- normal equations of the straight-line fit: residuals orthogonal to `1` and to `t` -/
def NormalEqs (pts : List (Rat × Rat)) (a b : Rat) : Prop :=
  total (pts.map (fun p => p.2 - (a + b * p.1))) = 0 ∧
  total (pts.map (fun p => p.1 * (p.2 - (a + b * p.1)))) = 0

/-- Vandermonde row: `x^lo, …, x^d` -/
def powers (lo d : Nat) (x : Int) : List Int :=
  (List.range (d + 1 - lo)).map (fun (k : Nat) => x ^ (lo + k))

end SkVerif.Spec.Naive
