/-
C14 specifications of the segmenters.
-/
import SkVerif.Model.C14Seg
namespace SkVerif.C14.Spec
open SkVerif.C14

/-- cut a series into consecutive blocks of the given sizes -/
def blocks : List Nat → List Rat → List (List Rat)
  | [], _ => []
  | s :: rest, xs => xs.take s :: blocks rest (xs.drop s)

/-- `k` block sizes as equal as possible: the first `n % k` blocks get one element more -/
def equalSizes (n k : Nat) : List Nat := List.replicate (n % k) (n / k + 1) ++ List.replicate (k - n % k) (n / k)

/-- fixed-interval segmentation into `k` intervals: consecutive, near-equal blocks that together
are the series -/
def intervalSegments (k : Nat) (xs : List Rat) : List (List Rat) := blocks (equalSizes xs.length k) xs

/-- segments for explicit half-open intervals `[s, e)` -/
def sliceSegments (ivs : List (Nat × Nat)) (xs : List Rat) : List (List Rat) :=
  ivs.map (fun iv => (xs.drop iv.1).take (iv.2 - iv.1))

/-- consecutive cut points `c₀ ≤ c₁ ≤ … ≤ c_m` as intervals `[c₀,c₁), [c₁,c₂), …` -/
def cutsToIntervals : List Nat → List (Nat × Nat)
  | a :: b :: rest => (a, b) :: cutsToIntervals (b :: rest)
  | _ => []

/-- value at position `i` of a series clamped to its ends (edge replication) -/
def clampGet (xs : List Rat) (i : Int) : Rat :=
  xs.getD (min (max i 0) ((xs.length : Int) - 1)).toNat 0

/-- sliding windows of length `w`, hop 1, centred with `w / 2` values before: window `j`, offset `t`
is the series at position `j + t - w/2`, positions outside the series replaced by the nearest end -/
def slidingWindows (w : Nat) (xs : List Rat) : List (List Rat) :=
  (List.range xs.length).map (fun (j : Nat) => (List.range w).map (fun (t : Nat) =>
    clampGet xs ((j : Int) + (t : Int) - ((w / 2 : Nat) : Int))))

end SkVerif.C14.Spec
