/-
C14 specification of TSInterpolator: a series `y₀ … y_{n-1}` (n ≥ 2) is read as the piecewise-linear
curve through the points `(i, y_i)`; resizing to `L` samples it at `L` equally spaced positions
`j·(n-1)/(L-1)`, `j = 0 … L-1` (the single position 0 when `L = 1`).
-/
import SkVerif.Model.C14Interp
namespace SkVerif.C14.Spec
open SkVerif.C14

/-- `v` is the height at position `s` of the polyline through `(i, ys[i])`: on some segment
`[k, k+1]` containing `s` it is the chord value.  (Segments meeting at a knot agree there.) -/
def IsLinInterp (ys : List Rat) (s v : Rat) : Prop :=
  ∃ k : Nat, k + 1 < ys.length ∧ (k : Rat) ≤ s ∧ s ≤ (k : Rat) + 1 ∧
    v = ys.getD k 0 + (s - (k : Rat)) * (ys.getD (k + 1) 0 - ys.getD k 0)

/-- the polyline evaluated with the segment chosen by `floor` -/
def linInterpAt (ys : List Rat) (s : Rat) : Rat :=
  let k := min s.floor.toNat (ys.length - 2)
  ys.getD k 0 + (s - (k : Rat)) * (ys.getD (k + 1) 0 - ys.getD k 0)

/-- sampling positions in index units -/
def position (n L j : Nat) : Rat :=
  if L ≤ 1 then 0 else ((j : Rat) * ((n - 1 : Nat) : Rat)) / ((L - 1 : Nat) : Rat)

def resample (L : Nat) (ys : List Rat) : List Rat :=
  (List.range L).map (fun j => linInterpAt ys (position ys.length L j))

def interpolate (L : Nat) (X : Panel) : Panel := X.map (fun inst => inst.map (resample L))

end SkVerif.C14.Spec
