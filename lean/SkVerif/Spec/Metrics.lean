/-
Textbook definitions of the forecast accuracy measures (Hyndman & Koehler 2006, "Another look at measures of
forecast accuracy"), written independently of the code's algorithm, for ONE output column:
`t` = truth, `p` = forecast, `b` = benchmark forecast, `tr` = training series, `w` = optional horizon weights.
Standard notation (`|x|`, `x ^ 2`), no clamping by machine epsilon.
-/
import Mathlib.Algebra.Order.Field.Rat
namespace SkVerif.Spec.Metrics

/-- (weighted) arithmetic mean -/
def wmean (w : Option (List Rat)) (xs : List Rat) : Rat :=
  match w with
  | none => xs.sum / (xs.length : Rat)
  | some w => (List.zipWith (· * ·) w xs).sum / w.sum

def absErr (t p : List Rat) : List Rat := List.zipWith (fun a f => |a - f|) t p
def sqErr (t p : List Rat) : List Rat := List.zipWith (fun a f => (a - f) ^ 2) t p
/-- symmetric absolute percentage error 2|a−f| / (|a|+|f|) -/
def sAPE (t p : List Rat) : List Rat := List.zipWith (fun a f => 2 * |a - f| / (|a| + |f|)) t p
/-- absolute percentage error |a−f| / |a| -/
def APE (t p : List Rat) : List Rat := List.zipWith (fun a f => |a - f| / |a|) t p
def pctErrs (sym : Bool) (t p : List Rat) : List Rat := if sym then sAPE t p else APE t p

/-- relative errors (a−f) / (a−f*) against a benchmark forecast f* -/
def relErr : List Rat → List Rat → List Rat → List Rat
  | a :: t, f :: p, g :: b => (a - f) / (a - g) :: relErr t p b
  | _, _, _ => []

def MAE (w : Option (List Rat)) (t p : List Rat) : Rat := wmean w (absErr t p)
def MSE (w : Option (List Rat)) (t p : List Rat) : Rat := wmean w (sqErr t p)
def MAPE (w : Option (List Rat)) (sym : Bool) (t p : List Rat) : Rat := wmean w (pctErrs sym t p)
def MSPE (w : Option (List Rat)) (sym : Bool) (t p : List Rat) : Rat := wmean w ((pctErrs sym t p).map (· ^ 2))
def MRAE (w : Option (List Rat)) (t p b : List Rat) : Rat := wmean w ((relErr t p b).map (|·|))

/-- asymmetric loss: `left` below the threshold, `right` from the threshold on -/
def asymLoss (thr : Rat) (left right : Rat → Rat) (t p : List Rat) : List Rat :=
  List.zipWith (fun a f => if a - f < thr then left (a - f) else right (a - f)) t p

/-- in-sample errors of the seasonal naive forecast: y_i − y_{i−sp}, i = sp … n−1 -/
def naiveErr (sp : Nat) (tr : List Rat) : List Rat := List.zipWith (fun a f => a - f) (tr.drop sp) tr
/-- MASE = MAE of the forecast / in-sample MAE of the seasonal naive forecast -/
def MASE (w : Option (List Rat)) (sp : Nat) (t p tr : List Rat) : Rat :=
  MAE w t p / wmean none ((naiveErr sp tr).map (|·|))
def MSSE (w : Option (List Rat)) (sp : Nat) (t p tr : List Rat) : Rat :=
  MSE w t p / wmean none ((naiveErr sp tr).map (· ^ 2))

/-- `m` is a median of `xs`: at least half of the values are ≤ m and at least half are ≥ m -/
def IsMedian (m : Rat) (xs : List Rat) : Prop :=
  xs.length ≤ 2 * (xs.filter (fun x => decide (x ≤ m))).length ∧
  xs.length ≤ 2 * (xs.filter (fun x => decide (m ≤ x))).length

/-- `g` is the geometric mean of n positive numbers with product `P` -/
def IsGMean (g : Rat) (n : Nat) (P : Rat) : Prop := 0 ≤ g ∧ g ^ n = P
/-- `s` is the square root of `x` -/
def IsSqrt (s x : Rat) : Prop := 0 ≤ s ∧ s * s = x

end SkVerif.Spec.Metrics
