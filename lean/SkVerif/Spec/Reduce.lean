/-
Specification of "reduction of forecasting to regression" (property C05), written from the
property text, independent of the code's algorithm (no cube, no padding, no mutation).
Import-free.

A multivariate series is a function `zf : time position → variable → value`; variable 0 is the
target series `y`, variables 1.. are the exogenous columns.  Nothing here inspects a value.
-/
namespace SkVerif.Spec.Reduce

variable {α : Type}

/-- the series `(y, X)` given as lists, read as a function (`d` is returned outside the data and is
never reached by the statements below: see `*_in_bounds`) -/
def ofLists (d : α) (y : List α) (X : Option (List (List α))) : Nat → Nat → α :=
  fun t v => match v with
    | 0 => y.getD t d
    | v + 1 => match X with
      | none => d
      | some rows => (rows.getD t []).getD v d

/-- the exogenous data (if any) has one row per observation of `y` and `nc` columns in every row -/
def Rect (y : List α) (X : Option (List (List α))) (nc : Nat) : Prop :=
  match X with
  | none => nc = 0
  | some rows => rows.length = y.length ∧ ∀ r ∈ rows, r.length = nc

/-- exogenous data for the future (`X` passed to predict) is given exactly when it was given for the
past, with one row per step up to the furthest requested step `M` and the same `nc` columns -/
def FutureRect (X Xp : Option (List (List α))) (nc M : Nat) : Prop :=
  match X, Xp with
  | none, none => True
  | some _, some xp => xp.length = M ∧ ∀ r ∈ xp, r.length = nc
  | _, _ => False

/-- observed exogenous rows followed by the future rows -/
def fullX (X Xp : Option (List (List α))) : Option (List (List α)) :=
  match X, Xp with
  | some rows, some xp => some (rows ++ xp)
  | _, _ => none

/-- Inputs inside the property's quantifier for the strategies that fit on the horizon
(direct, multioutput, dirrec): window length ≥ 1, a non-empty horizon of out-of-sample steps in the
(strictly increasing) order in which `ForecastingHorizon` stores them, `hm` its furthest step, and a
series long enough to hold one full window together with its furthest target. -/
structure ValidFit (y : List α) (X : Option (List (List α))) (nc wl : Nat) (fh : List Int) (hm : Int) : Prop where
  rect : Rect y X nc
  wl_pos : 1 ≤ wl
  fh_pos : ∀ h ∈ fh, 1 ≤ h
  fh_sorted : fh.Pairwise (· < ·)
  fh_last : fh.getLast? = some hm
  long_enough : wl + hm.toNat ≤ y.length

/-- the lagged window starting at position `r`: per variable the `wl` consecutive observations
`z[r], …, z[r+wl-1]` -/
def window (zf : Nat → Nat → α) (nv wl r : Nat) : List (List α) :=
  (List.range nv).map fun v => (List.range wl).map fun k => zf (r + k) v

/-- how an instance is shown to the regressor: a tabular regressor gets one flat row
(variable after variable), a time-series regressor the `(variables × time)` table itself -/
def present (flat : Bool) (inst : List (List α)) : List (List α) :=
  if flat then [inst.flatten] else inst

/-- number of windows of a length-`n` series that are full and whose targets up to step `hmax`
exist: start positions `0 ≤ r ≤ n - wl - hmax` -/
def nRows (n wl hmax : Nat) : Nat := n + 1 - (wl + hmax)

/-- target of the window starting at `r` for step `h ≥ 1`: the observation exactly `h` steps after the
end of the window -/
def target (zf : Nat → Nat → α) (wl r h : Nat) : α := zf (r + wl + h - 1) 0

/-- the training instances: every full window once, in time order -/
def trainRows (zf : Nat → Nat → α) (n nv wl hmax : Nat) (flat : Bool) : List (List (List α)) :=
  (List.range (nRows n wl hmax)).map fun r => present flat (window zf nv wl r)

/-- the targets for step `h`, aligned with `trainRows` -/
def targetsFor (zf : Nat → Nat → α) (n wl hmax h : Nat) : List α :=
  (List.range (nRows n wl hmax)).map fun r => target zf wl r h

/-- the target table for a horizon (one column per requested step) -/
def trainTargets (zf : Nat → Nat → α) (n wl hmax : Nat) (fh : List Nat) : List (List α) :=
  (List.range (nRows n wl hmax)).map fun r => fh.map fun h => target zf wl r h

/-- the instance to forecast from the end of a length-`n` series: its last `wl` observations,
laid out exactly like a training row -/
def lastInst (zf : Nat → Nat → α) (n nv wl : Nat) (flat : Bool) : List (List α) :=
  present flat (window zf nv wl (n - wl))

/-- the series with its target variable continued by forecasts (`preds[0]` at position `n`, …) -/
def extend (zf : Nat → Nat → α) (n : Nat) (preds : List α) (d : α) : Nat → Nat → α :=
  fun t v => if v = 0 ∧ n ≤ t then preds.getD (t - n) d else zf t v

/-- recursive strategy, started with the forecasts `sofar` already made: the regressor `f` is fed the
window ending at the newest value of (observed ++ forecasts so far) and its output becomes the next
forecast.  Returns the (instance fed, output) pairs of the next `m` steps. -/
def recTraceFrom (f : List (List α) → α) (zf : Nat → Nat → α) (n nv wl : Nat) (flat : Bool) (d : α) :
    List α → Nat → List (List (List α) × α)
  | _, 0 => []
  | sofar, m + 1 =>
    let x := present flat (window (extend zf n sofar d) nv wl (n - wl + sofar.length))
    let p := f x
    (x, p) :: recTraceFrom f zf n nv wl flat d (sofar ++ [p]) m

/-- `ŷ_1 … ŷ_m` of the recursive strategy (`ŷ_i` = forecast for step `i`) -/
def recForecast (f : List (List α) → α) (zf : Nat → Nat → α) (n nv wl : Nat) (flat : Bool) (d : α) (m : Nat) :
    List α :=
  (recTraceFrom f zf n nv wl flat d [] m).map Prod.snd

/-- dirrec strategy, row shape shared by training and prediction: the window of the target variable
followed by the values at the earlier requested steps -/
def dirrecRow (flat : Bool) (w : List α) (earlier : List α) : List (List α) :=
  present flat [w ++ earlier]

/-- dirrec training instances for the `i`-th requested step: window ++ true values at the earlier
requested steps -/
def dirrecTrainRows (zf : Nat → Nat → α) (n wl hmax : Nat) (fh : List Nat) (i : Nat) (flat : Bool) :
    List (List (List α)) :=
  (List.range (nRows n wl hmax)).map fun r =>
    dirrecRow flat ((List.range wl).map fun k => zf (r + k) 0) ((fh.take i).map fun h => target zf wl r h)

/-- dirrec forecasting with per-step predictors `fs`: predictor `i` is fed the last window followed by
the forecasts of the earlier requested steps.  Returns the (instance fed, output) pairs. -/
def dirrecTrace (flat : Bool) (w : List α) : List (List (List α) → α) → List α → List (List (List α) × α)
  | [], _ => []
  | f :: fs, earlier =>
    let x := dirrecRow flat w earlier
    let p := f x
    (x, p) :: dirrecTrace flat w fs (earlier ++ [p])

end SkVerif.Spec.Reduce
