/-
Specification-side vocabulary for C09 (what the property text talks about), written independently of
the recursive definitions in Model/Compose.lean.  Import-free apart from the model's types.
-/
import SkVerif.Model.Compose
namespace SkVerif.Compose
open SkVerif

/-- a machine that rejects every call (filler for out-of-range member indices) -/
def idle : Forecaster where
  S := Unit
  init := ()
  fit := fun _ _ _ => W.fail .other
  update := fun _ _ _ => W.fail .other
  predict := fun _ _ => W.fail .other
  cutoff := fun _ => none
  setCutoff := fun s _ => s

/-- the i-th member (`idle` beyond the end) -/
def member (Fs : List Forecaster) (i : Nat) : Forecaster := Fs.getD i idle

/-- the state of the i-th member inside a member-state tuple -/
def States.get : (Fs : List Forecaster) → States Fs → (i : Nat) → (member Fs i).S
  | [], _, _ => ()
  | _ :: _, (s, _), 0 => s
  | _ :: Fs, (_, ss), i + 1 => States.get Fs ss i

/-- the i-th forecast value of every member, in member order -/
def column (ps : List Series) (i : Nat) : List Rat := ps.filterMap (fun p => p[i]?.map (·.2))

/-- apply a list of (logging, fallible) series maps from left to right -/
def applyAll : List (Series → W Series) → Series → W Series
  | [], z => pure z
  | f :: fs, z => do let z' ← f z; applyAll fs z'

/-- the fitted transformers' `transform`s, in pipeline order -/
def transforms : (Ts : List Transformer) → TStates Ts → List (Series → W Series)
  | [], _ => []
  | T :: Ts, (s, ss) => T.transform s :: transforms Ts ss

/-- the fitted transformers' `inverse_transform`s, in pipeline order, without the ones tagged
`skip-inverse-transform` -/
def inverses : (Ts : List Transformer) → TStates Ts → List (Series → W Series)
  | [], _ => []
  | T :: Ts, (s, ss) => if T.skipInverse then inverses Ts ss else T.inverse s :: inverses Ts ss

/-- the horizon a composite remembers after `predict(fh)` when it remembered `cur` before -/
def effFh (cur : Option Horizon) : Option Horizon → Option Horizon
  | none => cur
  | some raw => match checkFh raw with | .ok f => some f | .error _ => cur

/-- the horizon a composite remembers after `fit(y, fh)` (optional-horizon mixin) -/
def fitFh (cur : Option Horizon) (fh : Option Horizon) : Option Horizon := effFh cur fh

/-- The calls a member receives when its ensemble / multiplexer receives `ops` (no `fit` among
them): updates are passed on unchanged, `predict(fh)` is passed on as `predict(<remembered horizon>)`
— the composite resolves "no horizon given" to the horizon it remembers before delegating. -/
def memberOps (cur : Option Horizon) : List Op → List Op
  | [] => []
  | .predict fh :: r => .predict (effFh cur fh) :: memberOps (effFh cur fh) r
  | op :: r => op :: memberOps cur r

def isFit : Op → Bool | .fit _ _ => true | _ => false
def isUpdate : Op → Bool | .update _ _ => true | _ => false

/-- The transformed representation of a history, computed by the transformers alone (no forecaster
involved): `fit y` fits the chain on `y` and yields the fully transformed series; `update y` updates
each transformer with, and lets it transform, the batch transformed so far; `predict` is passed on
with the remembered horizon, and so are moves of the cutoff. -/
def reprOps (Ts : List Transformer) : TStates Ts → Option Horizon → List Op → W (TStates Ts × List Op)
  | ts, _, [] => pure (ts, [])
  | ts, cur, .predict fh :: r => do
      let (ts', r') ← reprOps Ts ts (effFh cur fh) r
      pure (ts', .predict (effFh cur fh) :: r')
  | ts, cur, .update y up :: r => do
      let (ts1, yt) ← updateChainT Ts ts y up
      let (ts', r') ← reprOps Ts ts1 cur r
      pure (ts', .update yt up :: r')
  | ts, cur, .setCutoff c :: r => do
      let (ts', r') ← reprOps Ts ts cur r
      pure (ts', .setCutoff c :: r')
  | _, cur, .fit y fh :: r => do
      let (ts1, yt) ← fitChain Ts y
      let (ts', r') ← reprOps Ts ts1 (fitFh cur fh) r
      pure (ts', .fit yt fh :: r')

/-- a history without `fit` / without `update` -/
def noFit (ops : List Op) : Prop := ∀ op ∈ ops, isFit op = false
def noUpdate (ops : List Op) : Prop := ∀ op ∈ ops, isUpdate op = false

/-- The spy: a forecaster machine whose state IS the list of calls it has received (every call
succeeds, forecasts are empty).  Instantiating a theorem about all machines at the spy turns
"the member's state" into "the calls the member received". -/
def spy : Forecaster where
  S := List Op
  init := []
  fit := fun s y fh => pure (s ++ [.fit y fh])
  update := fun s y up => pure (s ++ [.update y up])
  predict := fun s fh => pure (s ++ [.predict fh], [])
  cutoff := fun _ => none
  setCutoff := fun s c => s ++ [.setCutoff c]

/-- a stateless transformer that doubles every value (inverse: halves) and has an `update` method -/
def doubler : Transformer where
  S := Unit
  init := ()
  fit := fun _ _ => pure ()
  transform := fun _ z => pure (z.map (fun q => (q.1, q.2 * 2)))
  inverse := fun _ z => pure (z.map (fun q => (q.1, q.2 / 2)))
  update := fun _ _ _ => pure ()
  hasUpdate := true
  skipInverse := false

/-- THE INVARIANT (full strength): whatever happened before, after `fit y fh0` followed by any
fit-free history on the pipeline, the final forecaster has been through exactly the history that
the transformers alone make of it (`reprOps`): it was fitted (as a fresh clone) on the fully
transformed series and then only ever updated with batches in that same transformed representation. -/
def InnerSeesOnlyTransformed (fixed : Bool) : Prop :=
  ∀ (Ts : List Transformer) (F : Forecaster) (st0 : (pipelineG fixed Ts F).S) (ts0 : TStates Ts)
    (y : Series) (fh0 : Option Horizon) (ops : List Op), noFit ops →
    ∀ (st : (pipelineG fixed Ts F).S) (outs : List (Option Series)) (log : Log),
    ((pipelineG fixed Ts F).run st0 (.fit y fh0 :: ops)).run = .ok ((st, outs), log) →
    ∃ b ts s iops lt oi li, st = (b, some (ts, s)) ∧
      (reprOps Ts ts0 st0.1.fh (.fit y fh0 :: ops)).run = .ok ((ts, iops), lt) ∧
      (F.run F.init iops).run = .ok ((s, oi), li)

/-- a regressor that accepts everything and predicts 0 -/
def nullReg : Regressor where
  S := Unit
  init := ()
  fit := fun _ _ _ => pure ()
  predict := fun _ rows => pure (rows.map (fun _ => 0))

/-- an out-of-sample horizon that fits into a series of `n` observations: strictly increasing,
non-empty, every step ≥ 1, largest step ≤ n -/
def OutOfSample (f : Horizon) (n : Nat) : Prop :=
  f.Pairwise (· < ·) ∧ f ≠ [] ∧ (∀ h ∈ f, 0 < h) ∧ Split.fhMax f ≤ (n : Int)

/-- THE STACKING CLAUSE for the horizons satisfying `P`: a successful `fit y fh` has
* split the positions `0 … n−1` into a training window `train` and a hold-out window `test` that
  lies entirely AFTER it, reaches the last observation and not beyond,
* fitted fresh clones of all members on `y.iloc[train]` only, taken their forecasts `ps`,
* fitted a fresh clone of the meta-regressor on exactly (rows of `ps`, `y.iloc[test]`), and keeps it. -/
def StackTrainsOnHoldoutOnly (P : Horizon → Nat → Prop) : Prop :=
  ∀ (names : List String) (Fs : List Forecaster) (G : Regressor) (st0 : (stacking names Fs G).S)
    (y : Series) (fh : Option Horizon) (b : Base) (st : Option (States Fs × G.S)) (log : Log),
    ((stacking names Fs G).fit st0 y fh).run = .ok ((b, st), log) →
    ∀ f, b.fh = some f → P f y.length →
    ∃ train test yF yM ss ss' ps g l1 l2 l3 ss2,
      holdoutSplit y.length f = .ok (train, test) ∧ iloc y train = .ok yF ∧ iloc y test = .ok yM ∧
      (fitAll Fs yF (some f)).run = .ok (ss, l1) ∧ (predictAll Fs ss none).run = .ok ((ss', ps), l2) ∧
      (G.fit G.init (rowsOf (nRows ps) ps) (values yM)).run = .ok (g, l3) ∧ st = some (ss2, g) ∧
      (∀ p ∈ test, ∀ q ∈ train, q < p) ∧ ((y.length : Int) - 1 ∈ test) ∧ (∀ p ∈ test, p ≤ (y.length : Int) - 1)

end SkVerif.Compose
