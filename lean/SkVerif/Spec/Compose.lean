/-
Specification-side vocabulary for C09 (what the property text talks about), written independently of
the recursive definitions in Model/Compose.lean.  Import-free apart from the model's types.
-/
import SkVerif.Model.Compose
namespace SkVerif.Compose
open SkVerif

/-- a machine that rejects every call (filler for out-of-range member indices) -/
def idle : Forecaster where
  S := Unit
  init := ()
  fit := fun _ _ _ => W.fail .other
  update := fun _ _ _ => W.fail .other
  predict := fun _ _ => W.fail .other

/-- the i-th member (`idle` beyond the end) -/
def member (Fs : List Forecaster) (i : Nat) : Forecaster := Fs.getD i idle

/-- the state of the i-th member inside a member-state tuple -/
def States.get : (Fs : List Forecaster) → States Fs → (i : Nat) → (member Fs i).S
  | [], _, _ => ()
  | _ :: _, (s, _), 0 => s
  | _ :: Fs, (_, ss), i + 1 => States.get Fs ss i

/-- the i-th forecast value of every member, in member order -/
def column (ps : List Series) (i : Nat) : List Rat := ps.filterMap (fun p => p[i]?.map (·.2))

/-- apply a list of (logging, fallible) series maps from left to right -/
def applyAll : List (Series → W Series) → Series → W Series
  | [], z => pure z
  | f :: fs, z => do let z' ← f z; applyAll fs z'

/-- the fitted transformers' `transform`s, in pipeline order -/
def transforms : (Ts : List Transformer) → TStates Ts → List (Series → W Series)
  | [], _ => []
  | T :: Ts, (s, ss) => T.transform s :: transforms Ts ss

/-- the fitted transformers' `inverse_transform`s, in pipeline order, without the ones tagged
`skip-inverse-transform` -/
def inverses : (Ts : List Transformer) → TStates Ts → List (Series → W Series)
  | [], _ => []
  | T :: Ts, (s, ss) => if T.skipInverse then inverses Ts ss else T.inverse s :: inverses Ts ss

/-- the horizon a composite remembers after `predict(fh)` when it remembered `cur` before -/
def effFh (cur : Option Horizon) : Option Horizon → Option Horizon
  | none => cur
  | some raw => match checkFh raw with | .ok f => some f | .error _ => cur

/-- the horizon a composite remembers after `fit(y, fh)` (optional-horizon mixin) -/
def fitFh (cur : Option Horizon) (fh : Option Horizon) : Option Horizon := effFh cur fh

/-- The calls a member receives when its ensemble / multiplexer receives `ops` (no `fit` among
them): updates are passed on unchanged, `predict(fh)` is passed on as `predict(<remembered horizon>)`
— the composite resolves "no horizon given" to the horizon it remembers before delegating. -/
def memberOps (cur : Option Horizon) : List Op → List Op
  | [] => []
  | .predict fh :: r => .predict (effFh cur fh) :: memberOps (effFh cur fh) r
  | op :: r => op :: memberOps cur r

def isFit : Op → Bool | .fit _ _ => true | _ => false
def isUpdate : Op → Bool | .update _ _ => true | _ => false

/-- The transformed representation of a history, computed by the transformers alone (no forecaster
involved): `fit y` fits the chain on `y` and yields the fully transformed series; `update y` updates
each transformer with, and lets it transform, the batch transformed so far; `predict` is passed on
with the remembered horizon. -/
def reprOps (Ts : List Transformer) : TStates Ts → Option Horizon → List Op → W (TStates Ts × List Op)
  | ts, _, [] => pure (ts, [])
  | ts, cur, .predict fh :: r => do
      let (ts', r') ← reprOps Ts ts (effFh cur fh) r
      pure (ts', .predict (effFh cur fh) :: r')
  | ts, cur, .update y up :: r => do
      let (ts1, yt) ← updateChainT Ts ts y up
      let (ts', r') ← reprOps Ts ts1 cur r
      pure (ts', .update yt up :: r')
  | _, cur, .fit y fh :: r => do
      let (ts1, yt) ← fitChain Ts y
      let (ts', r') ← reprOps Ts ts1 (fitFh cur fh) r
      pure (ts', .fit yt fh :: r')

end SkVerif.Compose
