/-
C04: the decidable table obligations, stated over the per-class `Summary` that the regenerated class
table is checked against (`decide +kernel` in the generated file), and the abstract meaning of
"equal parameters".  Import-free apart from the model.
-/
import SkVerif.Model.Params
namespace SkVerif.Params

variable {N : Type} [DecidableEq N]

/-- constructor contract: every parameter is stored under its own name unchanged, nothing can raise,
the signature swallows no extra arguments, attribute access is not overridden -/
def Summary.ctorOK (s : Summary N) : Bool :=
  s.ctor.all (fun st => st == .stored) && !s.mayRaise && !s.varargs && !s.hooks

/-- the `j`-th apply-type method has a fitted-state check before the first use of fitted state -/
def Summary.guardOK (s : Summary N) (j : Nat) : Bool := s.guards[j]? == some .guarded

/-- fit assigns no constructor parameter (and contains nothing the translator could not read) -/
def Summary.fitFrameOK (s : Summary N) : Bool := s.fitWrites.isEmpty && !s.fitUnknown

/-- well-formed class = all table obligations of C04 at once -/
def Summary.wellFormed (s : Summary N) : Bool :=
  s.ctorOK && s.freshUnfitted && s.fitFrameOK &&
  s.guards.all (fun g => g == .guarded || g == .absent)

end SkVerif.Params
