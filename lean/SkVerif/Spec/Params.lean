/-
C04: the decidable table obligations, stated over the per-class `Summary` that the regenerated class
table is checked against (`decide +kernel` in the generated file), and the abstract meaning of
"equal parameters".  Import-free apart from the model.
-/
import SkVerif.Model.Params
namespace SkVerif.Params

variable {N : Type} [DecidableEq N]

/-- constructor contract: every parameter is stored under its own name unchanged, nothing can raise,
the signature swallows no extra arguments, attribute access is not overridden -/
def Summary.ctorOK (s : Summary N) : Bool :=
  s.ctor.all (fun st => st == .stored) && !s.mayRaise && !s.varargs && !s.hooks

/-- the `j`-th apply-type method has a fitted-state check before the first use of fitted state -/
def Summary.guardOK (s : Summary N) (j : Nat) : Bool := s.guards[j]? == some .guarded

/-- fit assigns no constructor parameter (and contains nothing the translator could not read) -/
def Summary.fitFrameOK (s : Summary N) : Bool := s.fitWrites.isEmpty && !s.fitUnknown

/-- well-formed class = all table obligations of C04 at once -/
def Summary.wellFormed (s : Summary N) : Bool :=
  s.ctorOK && s.freshUnfitted && s.fitFrameOK &&
  s.guards.all (fun g => g == .guarded || g == .absent)

end SkVerif.Params

namespace SkVerif.Params
variable {N : Type} [DecidableEq N]

mutual
/-- nesting depth of a parameter tree -/
def depthVal : Val N → Nat
  | .atom _ => 0
  | .est _ _ _ _ ps => depthP ps + 1
  | .named items => depthP items + 1
def depthP : PList N → Nat
  | .nil => 0
  | .cons _ v tl => max (depthVal v) (depthP tl)
end

mutual
/-- A parameter tree as real estimators have it: parameter names distinct (they are the names in a
signature); an estimator is plain or a heterogeneous meta-estimator whose component list is stored in
the parameter it names, holds (name, value) pairs with distinct names that clash with no parameter
name (what `_check_names` enforces); recursively. -/
def wfTree : Val N → Bool
  | .atom _ => true
  | .named items => wfP items
  | .est _ _ impl _ ps =>
    !hasDup ps.keys && wfP ps &&
    (match impl with
     | .plain => true
     | .viaMeta attr store =>
       decide (attr = store) &&
       (match ps.lookup store with
        | some (.named items) => !hasDup items.keys && items.keys.all (fun n => !ps.keys.contains n)
        | _ => false)
     | .abstr => false
     | .custom => false)
def wfP : PList N → Bool
  | .nil => true
  | .cons _ v tl => wfTree v && wfP tl
end

end SkVerif.Params
