/-
Specification of the temporal CV splitters, written independently of the code's algorithm:
what the documentation promises, in terms of cutoffs.
-/
import SkVerif.Model.Split
namespace SkVerif.Split.Spec
open SkVerif SkVerif.Split

/-- the parameters are a valid choice (what `_split` accepts) for an out-of-sample horizon -/
structure Valid (k : Kind) (n wl step : Int) (fh : List Int) (iw : Option Int) (sww : Bool) : Prop where
  sorted : fh.Pairwise (· < ·)
  nonempty : fh ≠ []
  pos : ∀ h ∈ fh, 0 < h
  wl_pos : 1 ≤ wl
  step_pos : 1 ≤ step
  fits : wl + fhMax fh ≤ n
  iw_ok : ∀ i, iw = some i → k = .sliding ∧ sww = true ∧ wl < i ∧ i + fhMax fh ≤ n

/-- first cutoff of the regular windows: a full window (`start_with_window`), the window after
the initial one, or the empty window (cutoff −1) -/
def firstCutoff (wl step : Int) (iw : Option Int) (sww : Bool) : Int :=
  if sww then (match iw with | some i => i + step - 1 | none => wl - 1) else -1

/-- cutoffs of the regular windows: first, first+step, … while cutoff + max(fh) ≤ n − 1 -/
def cutoffs (n wl step : Int) (fh : List Int) (iw : Option Int) (sww : Bool) : List Int :=
  (pyRange (firstCutoff wl step iw sww + 1) (n - fhMax fh + 1) step).map (· - 1)

/-- training window for cutoff `c` -/
def train (k : Kind) (wl c : Int) : List Int :=
  match k with
  | .sliding => arange (max (c + 1 - wl) 0) (c + 1)
  | .expanding => arange 0 (c + 1)

def fold (k : Kind) (wl : Int) (fh : List Int) (c : Int) : Fold := (train k wl c, fh.map (c + ·))

def initialFold (fh : List Int) (iw : Option Int) : List Fold :=
  match iw with
  | some i => [(arange 0 i, fh.map (i - 1 + ·))]
  | none => []

def folds (k : Kind) (n wl step : Int) (fh : List Int) (iw : Option Int) (sww : Bool) : List Fold :=
  initialFold fh iw ++ (cutoffs n wl step fh iw sww).map (fold k wl fh)

/-- all cutoffs a valid window splitter must report, including the initial window's -/
def allCutoffs (n wl step : Int) (fh : List Int) (iw : Option Int) (sww : Bool) : List Int :=
  (match iw with | some i => [i - 1] | none => []) ++ cutoffs n wl step fh iw sww

end SkVerif.Split.Spec
