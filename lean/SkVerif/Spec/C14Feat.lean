/-
C14 specifications: autocorrelation coefficients (textbook formula) and the min-max scaling formula.
-/
import SkVerif.Model.C14Feat
namespace SkVerif.C14.Spec
open SkVerif.C14

/-- deviations from the mean -/
def deviations (xs : List Rat) : List Rat := xs.map (· - xs.sum / (xs.length : Rat))

/-- `Σ_{t=0}^{n-k-1} d_t · d_{t+k}` -/
def lagProduct (d : List Rat) (k : Nat) : Rat :=
  ((List.range (d.length - k)).map (fun t => d.getD t 0 * d.getD (t + k) 0)).sum

/-- lag-`k` autocorrelation: `r_k = c_k / c_0`, `c_k = lagProduct/n` (`/(n-k)` when adjusted) -/
def acfCoeff (adjusted : Bool) (xs : List Rat) (k : Nat) : Rat :=
  let d := deviations xs
  let n : Rat := xs.length
  (lagProduct d k / (if adjusted then ((xs.length - k : Nat) : Rat) else n)) / (lagProduct d 0 / n)

end SkVerif.C14.Spec
