/-
C14 specifications, part 1: what padding, truncation, tabularisation and column concatenation
MEAN, written without reference to the code's algorithm (only the data types are shared).
-/
import SkVerif.Model.C14Panel
namespace SkVerif.C14.Spec
open SkVerif.C14

/-- a series padded to length `L`: position `i` holds the series value if there is one, else the
fill value -/
def padCell {α : Type} (L : Nat) (fill : α) (c : List α) : List α := (List.range L).map (fun i => c.getD i fill)

/-- every cell of every instance padded; instances and columns stay where they are -/
def pad {α : Type} (L : Nat) (fill : α) (X : PanelOf α) : PanelOf α := X.map (fun inst => inst.map (padCell L fill))

/-- the values at positions `lo, lo+1, …, hi-1` -/
def slice (lo hi : Nat) (c : Cell) : Cell := (c.drop lo).take (hi - lo)

def truncate (lo hi : Nat) (X : Panel) : Panel := X.map (fun inst => inst.map (slice lo hi))

/-- tabular row of an instance: its columns one after the other, each in time order -/
def tabularize (X : Panel) : List (List Rat) := X.map List.flatten

/-- one long univariate series per instance -/
def columnConcat (X : Panel) : Panel := X.map (fun inst => [inst.flatten])

/-- longest / shortest series of a panel, by membership -/
def IsMaxLength {α : Type} (X : PanelOf α) (m : Nat) : Prop :=
  (∀ inst ∈ X, ∀ c ∈ inst, c.length ≤ m) ∧ (∃ inst ∈ X, ∃ c ∈ inst, c.length = m)

def IsMinLength {α : Type} (X : PanelOf α) (m : Nat) : Prop :=
  (∀ inst ∈ X, ∀ c ∈ inst, m ≤ c.length) ∧ (∃ inst ∈ X, ∃ c ∈ inst, c.length = m)

end SkVerif.C14.Spec
