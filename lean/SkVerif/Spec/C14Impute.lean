/-
C14 specification of the imputation rules, stated position by position.
-/
import SkVerif.Model.C14Impute
namespace SkVerif.C14.Spec
open SkVerif.C14

/-- the latest observed value at or before position `i` -/
def lastValidUpTo (z : OSeries) (i : Nat) : Option Rat := (z.take (i + 1)).reverse.findSome? id

/-- the earliest observed value at or after position `i` -/
def firstValidFrom (z : OSeries) (i : Nat) : Option Rat := (z.drop i).findSome? id

/-- `j` is the closest observed position before `i`, with value `a` -/
def IsPrevValid (z : OSeries) (i j : Nat) (a : Rat) : Prop :=
  j < i ∧ z[j]? = some (some a) ∧ ∀ t, j < t → t < i → z[t]? = some none

/-- `k` is the closest observed position after `i`, with value `b` -/
def IsNextValid (z : OSeries) (i k : Nat) (b : Rat) : Prop :=
  i < k ∧ z[k]? = some (some b) ∧ ∀ t, i < t → t < k → z[t]? = some none

/-- nothing observed before `i` -/
def NoneBefore (z : OSeries) (i : Nat) : Prop := ∀ t, t < i → t < z.length → z[t]? = some none
/-- nothing observed after `i` -/
def NoneAfter (z : OSeries) (i : Nat) : Prop := ∀ t, i < t → t < z.length → z[t]? = some none

/-- observed values stay, missing ones become `v` -/
def fillWith (v : Rat) (z : OSeries) : OSeries := z.map (fun x => some (x.getD v))

def observed (z : OSeries) : List Rat := z.filterMap id

def mean (l : List Rat) : Rat := l.sum / (l.length : Rat)

/-- middle of a sorted list (mean of the two middle values for even length) -/
def middle (s : List Rat) : Rat :=
  if s.length % 2 = 1 then s.getD (s.length / 2) 0 else (s.getD (s.length / 2 - 1) 0 + s.getD (s.length / 2) 0) / 2

/-- value at time `i` of the least-squares line through the points `(t, y_t)`, `t = 0 … n-1` -/
def olsLineAt (ys : List Rat) (i : Nat) : Rat :=
  let n : Rat := ys.length
  let ts : List Rat := (List.range ys.length).map (fun (t : Nat) => (t : Rat))
  let mt := ts.sum / n
  let my := ys.sum / n
  let sxy := (List.zipWith (fun t y => (t - mt) * (y - my)) ts ys).sum
  let sxx := (ts.map (fun t => (t - mt) * (t - mt))).sum
  my + (if sxx = 0 then 0 else sxy / sxx) * ((i : Rat) - mt)

end SkVerif.C14.Spec
