/-
Specification for C07, written independently of the code's loop: what an *honest* evaluation of
one split is.  For a split (train positions, test positions) of the series:

* the data of the split are the observations at exactly the train positions, the observations at
  exactly the test positions, the exogenous rows at the train positions, and the horizon = the
  labels of the test positions (`foldData`);
* strategy *refit*: a fresh forecaster (the state handed to `evaluate`) is fitted on the training
  window and asked to predict the horizon (`honestRefit`);
* strategy *update*: a fresh forecaster is fitted on the first split's window; after predicting a
  split it is updated with the next split's window; the honest result for split `i` is what this
  history predicts for split `i` (`honestUpdate` on the history of the first `i+1` splits);
* the score of a split is `μ y_true y_pred` (`honestRow`).
-/
import SkVerif.Model.Evaluate
namespace SkVerif.Evaluate.Spec
open SkVerif SkVerif.Split SkVerif.Evaluate

/-- the entries of `s` at the given (non-negative, in range) positions, in that order -/
def sel {α} (s : Series α) (ps : List Int) : Series α :=
  ps.filterMap (fun p => if p < 0 then none else s[p.toNat]?)

/-- the data of one split -/
structure FoldData (α ξ : Type) where
  yTrain : Series α
  yTest : Series α
  xTrain : Option (Series ξ)
  xTest : Option (Series ξ)          -- exogenous rows handed to `predict`
  fh : List Int                      -- the test time points

/-- positions of the exogenous rows handed to `predict`: from `fhMin − 1` positions before the
first test position through the last test position (for a fold `test = cutoff + fh` these are the
positions `cutoff + 1 … cutoff + max(fh)`, see `C07.xtest_rows_are_steps_after_cutoff`).  The
property does not say which exogenous rows `predict` receives; this is what the code documents. -/
def xRows (fhMin : Int) (f : Fold) : List Int :=
  match f.2.head?, f.2.getLast? with
  | some t0, some tl => (arange (t0 - fhMin) tl).map (· + 1)
  | _, _ => []

/-- data of the split `f` (`fhMin` = smallest step of the splitter's horizon) -/
def foldData {α ξ} (y : Series α) (X : Option (Series ξ)) (fhMin : Int) (f : Fold) : FoldData α ξ :=
  { yTrain := sel y f.1
    yTest := sel y f.2
    xTrain := X.map (sel · f.1)
    xTest := X.map (sel · (xRows fhMin f))
    fh := labels (sel y f.2) }

/-- result of an honest fold: the data it was scored on and the forecaster afterwards -/
structure Honest (σ α : Type) where
  yTrain : Series α
  yTest : Series α
  yPred : Series α
  st : σ

/-- predict the split's test time points from a trained state -/
def predictFold {σ α ξ} (m : Machine σ α ξ) (d : FoldData α ξ) (s : σ) : Except Err (Honest σ α) :=
  match m.predict s d.fh d.xTest with
  | .error e => .error e
  | .ok (s', p) => .ok ⟨d.yTrain, d.yTest, p, s'⟩

/-- strategy refit: fit a fresh forecaster on exactly the split's training window, then predict
exactly the split's test time points -/
def honestRefit {σ α ξ} (m : Machine σ α ξ) (st0 : σ) (fp : Option Int) (d : FoldData α ξ) :
    Except Err (Honest σ α) :=
  match m.fit st0 d.yTrain d.xTrain d.fh fp with
  | .error e => .error e
  | .ok s => predictFold m d s

/-- continue a history: `s` is the forecaster trained for split `cur` (not yet predicted); for each
further split, predict the current one, then update with the next split's window; finally predict
the last split -/
def continueHistory {σ α ξ} (m : Machine σ α ξ) (s : σ) (cur : FoldData α ξ) :
    List (FoldData α ξ) → Except Err (Honest σ α)
  | [] => predictFold m cur s
  | d :: ds =>
    match m.predict s cur.fh cur.xTest with
    | .error e => .error e
    | .ok (s', _) =>
      match m.update s' d.yTrain d.xTrain with
      | .error e => .error e
      | .ok s'' => continueHistory m s'' d ds

/-- strategy update: the honest result for the LAST split of the history `hist` (splits in order):
fit once on the first split's window, then predict / update split by split -/
def honestUpdate {σ α ξ} (m : Machine σ α ξ) (st0 : σ) (fp : Option Int) :
    List (FoldData α ξ) → Except Err (Honest σ α)
  | [] => .error .index
  | d0 :: rest =>
    match m.fit st0 d0.yTrain d0.xTrain d0.fh fp with
    | .error e => .error e
    | .ok s => continueHistory m s d0 rest

/-- the non-empty prefixes of a list, shortest first: the history of split `i` is the `i`-th one -/
def prefixes {γ} : List γ → List (List γ)
  | [] => []
  | a :: l => [a] :: (prefixes l).map (a :: ·)

/-- the table row of an honest fold when the truth and the forecast are scored by `score` -/
def rowOf {σ α ξ β} (m : Machine σ α ξ) (score : Series α → Series α → β) (retData : Bool) (h : Honest σ α) : Row α β :=
  { score := score h.yTest h.yPred
    lenTrain := h.yTrain.length
    cutoff := m.cutoff h.st
    data := if retData then some (h.yTrain, h.yTest, h.yPred) else none }

/-- the honest row: the metric is applied as `μ y_true y_pred` -/
def honestRow {σ α ξ β} (m : Machine σ α ξ) (μ : Series α → Series α → β) (retData : Bool) (h : Honest σ α) : Row α β :=
  rowOf m μ retData h

/-- the row of an honest result, or the exception the honest fold raised -/
def rowE {σ α ξ β} (m : Machine σ α ξ) (score : Series α → Series α → β) (retData : Bool) :
    Except Evaluate.Err (Honest σ α) → Except Evaluate.Err (Row α β)
  | .error e => .error e
  | .ok h => .ok (rowOf m score retData h)

/-- prepend to a successful list -/
def consOk {ε γ} (a : γ) : Except ε (List γ) → Except ε (List γ)
  | .error e => .error e
  | .ok r => .ok (a :: r)

/-- all-or-first-error -/
def collect {ε γ} : List (Except ε γ) → Except ε (List γ)
  | [] => .ok []
  | .error e :: _ => .error e
  | .ok a :: l => consOk a (collect l)

/-- the table `evaluate` returns for the rows (or the exception) of the folds: the score column is
named after the metric; a table needs at least one fold -/
def tableOf {α β} (nm : String) : Except Evaluate.Err (List (Row α β)) → Except Evaluate.Err (Table α β)
  | .error e => .error e
  | .ok rows => if rows.isEmpty then .error .key else .ok ⟨"test_" ++ nm, rows⟩

/-- the calls an honest evaluation of split number `i` makes -/
def honestCalls {α ξ} (strategy : Strategy) (fp : Option Int) (i : Nat) (d : FoldData α ξ) : List (Call α ξ) :=
  [if i = 0 ∨ strategy = .refit then .fit d.yTrain d.xTrain d.fh fp else .update d.yTrain d.xTrain,
   .predict d.fh d.xTest]

/-- … of all splits from number `i` on -/
def honestTrace {α ξ} (strategy : Strategy) (fp : Option Int) : Nat → List (FoldData α ξ) → List (Call α ξ)
  | _, [] => []
  | i, d :: ds => honestCalls strategy fp i d ++ honestTrace strategy fp (i + 1) ds

/-- the time points of the observations a call hands to the forecaster for training
(the exogenous rows given to `predict` are future-dated by design and are not observations) -/
def obsLabels {α ξ} : Call α ξ → List Int
  | .fit y X _ _ => labels y ++ (match X with | some X => labels X | none => [])
  | .update y X => labels y ++ (match X with | some X => labels X | none => [])
  | .predict _ _ => []

/-- one fold as C01 proves it for every valid splitter: positions inside the series, non-empty
training window, non-empty increasing test window, exogenous test rows inside the series, every
training position before every test position -/
structure FoldOK (n : Int) (fhMin : Int) (f : Fold) : Prop where
  xrows_range : ∀ p ∈ xRows fhMin f, 0 ≤ p ∧ p < n
  train_range : ∀ p ∈ f.1, 0 ≤ p ∧ p < n
  test_range : ∀ q ∈ f.2, 0 ≤ q ∧ q < n
  train_nonempty : f.1 ≠ []
  test_nonempty : f.2 ≠ []
  test_sorted : f.2.Pairwise (· < ·)
  train_lt_test : ∀ p ∈ f.1, ∀ q ∈ f.2, p < q

/-- … and the folds in order: no training position of a fold is at or after a test position of
any later fold -/
structure FoldsOK (n : Int) (fhMin : Int) (fs : List Fold) : Prop where
  each : ∀ f ∈ fs, FoldOK n fhMin f
  earlier_fold : fs.Pairwise (fun f g => ∀ p ∈ f.1, ∀ q ∈ g.2, p < q)

/-- time points are distinct and ordered -/
def StrictLabels {α} (y : Series α) : Prop := (labels y).Pairwise (· < ·)

/-- `fit` does not depend on what the forecaster did before (sktime's contract: fit resets) -/
def FitResets {σ α ξ} (m : Machine σ α ξ) : Prop :=
  ∀ s s' y X fh p, m.fit s y X fh p = m.fit s' y X fh p

/-- a forecaster whose cutoff is the last time point it was trained on / updated with, and whose
`predict` leaves the cutoff alone -/
structure CutoffTracks {σ α ξ} (m : Machine σ α ξ) : Prop where
  fit : ∀ s y X fh p s', m.fit s y X fh p = .ok s' → ∀ l, (labels y).getLast? = some l → m.cutoff s' = l
  update : ∀ s y X s', m.update s y X = .ok s' → ∀ l, (labels y).getLast? = some l → m.cutoff s' = l
  predict : ∀ s fh X s' p, m.predict s fh X = .ok (s', p) → m.cutoff s' = m.cutoff s

end SkVerif.Evaluate.Spec
