/-
Specification: the Hampel filter as a purely POSITIONAL computation (what `_hampel_filter` would
compute if it read its windows with `Z.iloc[cv_window]`).  Import-free apart from the model it
shares the loop body with.
-/
import SkVerif.Model.SeriesTransform
namespace SkVerif.ST

/-- the values at positions `a .. a+w-1` -/
def windowVals (z : Series) (a w : Nat) : List Val := ((z.drop a).take w).map (·.2)

def hampelWindowPos (cfg : HampelCfg) (z : Series) (a : Nat) : Series :=
  hampelBody cfg z a (windowVals z a cfg.w)

def hampelPos (cfg : HampelCfg) (z : Series) : Except Err Series :=
  if cfg.w = 0 then .error .value
  else if cfg.w + 1 > z.length then .error .value
  else .ok ((List.range (z.length - cfg.w)).foldl (fun cur a => hampelWindowPos cfg cur a) z)

end SkVerif.ST
