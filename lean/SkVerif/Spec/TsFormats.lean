/-
Specification side of "all file formats parse to the same panel": canonical renderings of ONE labelled
univariate data set (tokens per instance + one class value per instance) as a UCR `.tsv` text and as a
(non-relational) `.arff` text.  The `.ts` rendering is the writer model itself (`TsFile.write`).
sktime has no writer for these two formats; the renderings follow the layout of the bundled files
(`<label>\t<v1>\t<v2>…` and `<v1>,<v2>,…,<label>` after an `@data` line).  Import-free.
-/
import SkVerif.Model.TsFile
namespace SkVerif.TsFile.Spec
open SkVerif.TsFile

/-- `<label> TAB v1 TAB v2 …` per instance -/
def tsvLines : List (List Str) → List Str → List Str
  | r :: rs, v :: vs => join ['\t'] (v :: r) :: tsvLines rs vs
  | _, _ => []

def renderTsv (panel : List (List Str)) (vals : List Str) : Str := unlines (tsvLines panel vals)

/-- `v1,v2,…,label` per instance -/
def arffLines : List (List Str) → List Str → List Str
  | r :: rs, v :: vs => join [','] (r ++ [v]) :: arffLines rs vs
  | _, _ => []

/-- `header` = comment / `@relation` / `@attribute` lines (anything that does not mention `@data`) -/
def renderArff (header : List Str) (panel : List (List Str)) (vals : List Str) : Str :=
  unlines (header ++ "@data".toList :: arffLines panel vals)

end SkVerif.TsFile.Spec
