import SkVerif.Spec.C14Seg
import SkVerif.Lemmas.C14Panel
namespace SkVerif.C14.Lem
open SkVerif SkVerif.C14

theorem edgePad_eq (p : Nat) (xs : List Rat) (h : xs ≠ []) :
    edgePad p xs = List.replicate p (xs[0]'(List.length_pos_iff.mpr h)) ++ xs ++
      List.replicate p (xs[xs.length - 1]'(by have := List.length_pos_iff.mpr h; omega)) := by
  have hpos := List.length_pos_iff.mpr h
  have h1 : xs.head? = some (xs[0]'hpos) := by
    cases xs with
    | nil => exact absurd rfl h
    | cons a l => rfl
  have h2 : xs.getLast? = some (xs[xs.length - 1]'(by omega)) := by
    rw [List.getLast?_eq_getElem?]
    exact List.getElem?_eq_getElem (by omega)
  simp only [edgePad, h1, h2]

theorem edgePad_length (p : Nat) (xs : List Rat) (h : xs ≠ []) : (edgePad p xs).length = xs.length + 2 * p := by
  rw [edgePad_eq p xs h]; simp; omega

theorem edgePad_getD (p : Nat) (xs : List Rat) (h : xs ≠ []) (i : Nat) (hi : i < xs.length + 2 * p) :
    (edgePad p xs).getD i 0 = Spec.clampGet xs ((i : Int) - (p : Int)) := by
  have hpos := List.length_pos_iff.mpr h
  rw [edgePad_eq p xs h]
  unfold Spec.clampGet
  simp only [List.getD_eq_getElem?_getD]
  by_cases h1 : i < p
  · have e : (min (max ((i : Int) - (p : Int)) 0) ((xs.length : Int) - 1)).toNat = 0 := by omega
    rw [e, List.append_assoc, List.getElem?_append_left (by simpa using h1)]
    simp [h1, hpos]
  · by_cases h2 : i < p + xs.length
    · have e : (min (max ((i : Int) - (p : Int)) 0) ((xs.length : Int) - 1)).toNat = i - p := by omega
      rw [e, List.getElem?_append_left (by simp; omega), List.getElem?_append_right (by simp; omega)]
      simp
    · have e : (min (max ((i : Int) - (p : Int)) 0) ((xs.length : Int) - 1)).toNat = xs.length - 1 := by omega
      rw [e, List.getElem?_append_right (by simp; omega)]
      have hlt : i - (p + xs.length) < p := by omega
      have : xs.length - 1 < xs.length := by omega
      simp [this, hlt]

/-- the strided windows over the edge-padded series are the centred, end-clamped windows -/
theorem windows_eq_spec (w : Nat) (xs : List Rat) (h : xs ≠ []) :
    windows w xs.length (edgePad (w / 2) xs) = Spec.slidingWindows w xs := by
  unfold windows Spec.slidingWindows
  apply List.map_congr_left
  intro j hj
  have hj' : j < xs.length := List.mem_range.mp hj
  have hlen := edgePad_length (w / 2) xs h
  apply List.ext_getElem
  · simp [hlen]; omega
  · intro t h1 h2
    have ht : t < w := by simpa using h2
    simp only [List.getElem_take, List.getElem_drop, List.getElem_map, List.getElem_range]
    have hb : j + t < xs.length + 2 * (w / 2) := by omega
    have := edgePad_getD (w / 2) xs h (j + t) hb
    rw [List.getD_eq_getElem?_getD, List.getElem?_eq_getElem (by omega)] at this
    simp only [Option.getD_some] at this
    rw [this]
    congr 1

theorem slidingWindows_shape (w : Nat) (xs : List Rat) :
    (Spec.slidingWindows w xs).length = xs.length ∧ ∀ win ∈ Spec.slidingWindows w xs, win.length = w := by
  constructor
  · simp [Spec.slidingWindows]
  · intro win hw
    simp only [Spec.slidingWindows, List.mem_map, List.mem_range] at hw
    obtain ⟨j, _, rfl⟩ := hw
    simp

/-- inside the series (no clamping) a window is a contiguous stretch of the series -/
theorem clampGet_inside (xs : List Rat) (i : Nat) (h : i < xs.length) : Spec.clampGet xs (i : Int) = xs[i] := by
  unfold Spec.clampGet
  have e : (min (max (i : Int) 0) ((xs.length : Int) - 1)).toNat = i := by omega
  rw [e]; simp [List.getD_eq_getElem?_getD, h]

/-- SlidingWindowSegmenter on a univariate panel -/
theorem slidingWindow_eq_spec (w : Nat) (hw : 0 < w) (X : Panel) (tbl : List (List Rat))
    (ht : univariateTable X = .ok tbl) (hne : ∀ row ∈ tbl, row ≠ []) :
    slidingWindow (.int (w : Int)) X = .ok (tbl.map (Spec.slidingWindows w)) := by
  have h1 : ¬ ((w : Int) ≤ 0) := by omega
  simp only [slidingWindow, ht, bind, Except.bind, h1, if_false, pure, Except.pure, Int.toNat_natCast]
  congr 1
  apply List.map_congr_left
  intro row hrow
  exact windows_eq_spec w row (hne row hrow)

end SkVerif.C14.Lem
