/- C17 helper lemmas: the label order, `classes_` (np.unique), the class dictionary. -/
import SkVerif.Model.Proba
namespace SkVerif.C17.Lem
open SkVerif.C17

/-- strict label order -/
def LabelLt (a b : Label) : Prop := a.le b = true ∧ a ≠ b

theorem le_refl (a : Label) : a.le a = true := by
  cases a <;> simp [Label.le]

theorem le_total (a b : Label) : a.le b = true ∨ b.le a = true := by
  cases a <;> cases b <;> simp only [Label.le, decide_eq_true_eq, or_true, true_or]
  · omega
  · exact String.le_total _ _

theorem le_trans {a b c : Label} (h1 : a.le b = true) (h2 : b.le c = true) : a.le c = true := by
  cases a <;> cases b <;> cases c <;> simp only [Label.le, decide_eq_true_eq] at * <;> try contradiction
  · omega
  · exact String.le_trans h1 h2

theorem le_antisymm {a b : Label} (h1 : a.le b = true) (h2 : b.le a = true) : a = b := by
  cases a <;> cases b <;> simp only [Label.le, decide_eq_true_eq] at * <;> try contradiction
  · congr 1; omega
  · congr 1; exact String.le_antisymm h1 h2

theorem lt_of_lt_of_lt {a b c : Label} (h1 : LabelLt a b) (h2 : LabelLt b c) : LabelLt a c := by
  refine ⟨le_trans h1.1 h2.1, ?_⟩
  intro h
  subst h
  exact h1.2 (le_antisymm h1.1 h2.1)

theorem mem_insertU (a x : Label) (l : List Label) : x ∈ insertU a l ↔ x = a ∨ x ∈ l := by
  induction l with
  | nil => simp [insertU]
  | cons b l ih =>
    simp only [insertU]
    split
    · rename_i h; subst h
      simp only [List.mem_cons]
      constructor
      · intro h; exact Or.inr h
      · intro h; rcases h with h | h
        · exact Or.inl h
        · exact h
    · split
      · simp [List.mem_cons]
      · simp only [List.mem_cons, ih]
        constructor
        · intro h; rcases h with h | h | h
          · exact Or.inr (Or.inl h)
          · exact Or.inl h
          · exact Or.inr (Or.inr h)
        · intro h; rcases h with h | h | h
          · exact Or.inr (Or.inl h)
          · exact Or.inl h
          · exact Or.inr (Or.inr h)

theorem insertU_sorted (a : Label) (l : List Label) (h : l.Pairwise LabelLt) : (insertU a l).Pairwise LabelLt := by
  induction l with
  | nil => simp [insertU]
  | cons b l ih =>
    have hb := List.pairwise_cons.mp h
    simp only [insertU]
    split
    · exact h
    · rename_i hne
      split
      · rename_i hle
        refine List.pairwise_cons.mpr ⟨?_, h⟩
        intro x hx
        rcases List.mem_cons.mp hx with rfl | hx
        · exact ⟨hle, hne⟩
        · exact lt_of_lt_of_lt ⟨hle, hne⟩ (hb.1 x hx)
      · rename_i hle
        have hba : b.le a = true := by
          rcases le_total a b with h1 | h1
          · exact absurd h1 hle
          · exact h1
        refine List.pairwise_cons.mpr ⟨?_, ih hb.2⟩
        intro x hx
        rcases (mem_insertU a x l).mp hx with rfl | hx
        · exact ⟨hba, fun e => hne e.symm⟩
        · exact hb.1 x hx

theorem classesOf_sorted (y : List Label) : (classesOf y).Pairwise LabelLt := by
  induction y with
  | nil => simp [classesOf]
  | cons a l ih => exact insertU_sorted a _ ih

theorem mem_classesOf (y : List Label) (x : Label) : x ∈ classesOf y ↔ x ∈ y := by
  induction y with
  | nil => simp [classesOf]
  | cons a l ih => simp [classesOf, mem_insertU, ih]

theorem classesOf_nodup (y : List Label) : (classesOf y).Nodup := by
  have := classesOf_sorted y
  exact this.imp (fun h => h.2)

/-! ### the class dictionary -/

theorem idxOf_some {classes : List Label} {a : Label} {j : Nat} (h : idxOf classes a = some j) :
    classes[j]? = some a := by
  induction classes generalizing j with
  | nil => simp [idxOf] at h
  | cons b l ih =>
    simp only [idxOf] at h
    split at h
    · rename_i e; subst e
      cases h; simp
    · cases hj : idxOf l a with
      | none => simp [hj] at h
      | some k =>
        simp [hj] at h
        subst h
        simpa using ih hj

theorem idxOf_lt {classes : List Label} {a : Label} {j : Nat} (h : idxOf classes a = some j) : j < classes.length := by
  have := idxOf_some h
  exact (List.getElem?_eq_some_iff.mp this).1

theorem idxOf_of_mem {classes : List Label} {a : Label} (h : a ∈ classes) : ∃ j, idxOf classes a = some j := by
  induction classes with
  | nil => simp at h
  | cons b l ih =>
    simp only [idxOf]
    by_cases e : a = b
    · exact ⟨0, by simp [e]⟩
    · have : a ∈ l := by
        rcases List.mem_cons.mp h with h | h
        · exact absurd h e
        · exact h
      obtain ⟨j, hj⟩ := ih this
      exact ⟨j + 1, by simp [e, hj]⟩

theorem decode_mem {classes : List Label} {j : Nat} {lab : Label} (h : decode classes j = .ok lab) :
    classes[j]? = some lab ∧ lab ∈ classes := by
  unfold decode at h
  split at h
  · rename_i c hc
    cases h
    exact ⟨hc, List.mem_of_getElem? hc⟩
  · cases h

theorem decode_ok {classes : List Label} {j : Nat} (h : j < classes.length) : ∃ lab, decode classes j = .ok lab := by
  unfold decode
  rw [List.getElem?_eq_getElem h]
  exact ⟨_, rfl⟩

end SkVerif.C17.Lem
