import SkVerif.Model.C14Panel
import SkVerif.Spec.C14Panel
import SkVerif.Lemmas.Range
namespace SkVerif.C14.Lem
open SkVerif SkVerif.C14

/-! ### maxima / minima computed by the folds -/

theorem foldl_max_ge_init (l : List Nat) (a : Nat) : a ≤ l.foldl max a := by
  induction l generalizing a with
  | nil => simp
  | cons b l ih => simp only [List.foldl_cons]; exact Nat.le_trans (Nat.le_max_left a b) (ih _)

theorem foldl_max_ge_mem (l : List Nat) (a x : Nat) (h : x ∈ l) : x ≤ l.foldl max a := by
  induction l generalizing a with
  | nil => cases h
  | cons b l ih =>
    simp only [List.foldl_cons]
    rcases List.mem_cons.mp h with rfl | h
    · exact Nat.le_trans (Nat.le_max_right a x) (foldl_max_ge_init l _)
    · exact ih _ h

theorem foldl_max_mem (l : List Nat) (a : Nat) : l.foldl max a = a ∨ l.foldl max a ∈ l := by
  induction l generalizing a with
  | nil => simp
  | cons b l ih =>
    simp only [List.foldl_cons]
    rcases ih (max a b) with h | h
    · rw [h]
      rcases Nat.le_total a b with hab | hab
      · right; rw [Nat.max_eq_right hab]; exact List.mem_cons_self
      · left; exact Nat.max_eq_left hab
    · right; exact List.mem_cons_of_mem _ h

theorem le_listMax {l : List Nat} {x : Nat} (h : x ∈ l) : x ≤ listMax l := by
  cases l with
  | nil => cases h
  | cons a l =>
    simp only [listMax]
    rcases List.mem_cons.mp h with rfl | h
    · exact foldl_max_ge_init l _
    · exact foldl_max_ge_mem l a x h

theorem listMax_mem {l : List Nat} (h : l ≠ []) : listMax l ∈ l := by
  cases l with
  | nil => exact absurd rfl h
  | cons a l =>
    simp only [listMax]
    rcases foldl_max_mem l a with h | h
    · rw [h]; exact List.mem_cons_self
    · exact List.mem_cons_of_mem _ h

theorem foldl_min_le_init (l : List Nat) (a : Nat) : l.foldl min a ≤ a := by
  induction l generalizing a with
  | nil => simp
  | cons b l ih => simp only [List.foldl_cons]; exact Nat.le_trans (ih _) (Nat.min_le_left a b)

theorem foldl_min_le_mem (l : List Nat) (a x : Nat) (h : x ∈ l) : l.foldl min a ≤ x := by
  induction l generalizing a with
  | nil => cases h
  | cons b l ih =>
    simp only [List.foldl_cons]
    rcases List.mem_cons.mp h with rfl | h
    · exact Nat.le_trans (foldl_min_le_init l _) (Nat.min_le_right a x)
    · exact ih _ h

theorem foldl_min_mem (l : List Nat) (a : Nat) : l.foldl min a = a ∨ l.foldl min a ∈ l := by
  induction l generalizing a with
  | nil => simp
  | cons b l ih =>
    simp only [List.foldl_cons]
    rcases ih (min a b) with h | h
    · rw [h]
      rcases Nat.le_total a b with hab | hab
      · left; exact Nat.min_eq_left hab
      · right; rw [Nat.min_eq_right hab]; exact List.mem_cons_self
    · right; exact List.mem_cons_of_mem _ h

theorem listMin_le {l : List Nat} {x : Nat} (h : x ∈ l) : listMin l ≤ x := by
  cases l with
  | nil => cases h
  | cons a l =>
    simp only [listMin]
    rcases List.mem_cons.mp h with rfl | h
    · exact foldl_min_le_init l _
    · exact foldl_min_le_mem l a x h

theorem listMin_mem {l : List Nat} (h : l ≠ []) : listMin l ∈ l := by
  cases l with
  | nil => exact absurd rfl h
  | cons a l =>
    simp only [listMin]
    rcases foldl_min_mem l a with h | h
    · rw [h]; exact List.mem_cons_self
    · exact List.mem_cons_of_mem _ h

/-- every instance has at least one column (what a DataFrame with ≥ 1 column guarantees) -/
def WellShaped {α : Type} (X : PanelOf α) : Prop := X ≠ [] ∧ ∀ inst ∈ X, inst ≠ []

theorem le_maxLength {α : Type} {X : PanelOf α} {inst : List (List α)} {c : List α} (hi : inst ∈ X) (hc : c ∈ inst) :
    c.length ≤ maxLength X := by
  unfold maxLength
  have h1 : c.length ≤ listMax (inst.map List.length) := le_listMax (List.mem_map.mpr ⟨c, hc, rfl⟩)
  have h2 : listMax (inst.map List.length) ≤ listMax (X.map (fun inst => listMax (inst.map List.length))) :=
    le_listMax (List.mem_map.mpr ⟨inst, hi, rfl⟩)
  exact Nat.le_trans h1 h2

theorem maxLength_isMax {α : Type} {X : PanelOf α} (h : WellShaped X) : Spec.IsMaxLength X (maxLength X) := by
  refine ⟨fun inst hi c hc => le_maxLength hi hc, ?_⟩
  unfold maxLength
  have hne : X.map (fun inst => listMax (inst.map List.length)) ≠ [] := by simpa using h.1
  obtain ⟨inst, hi, he⟩ := List.mem_map.mp (listMax_mem hne)
  have hne2 : inst.map List.length ≠ [] := by simpa using h.2 inst hi
  obtain ⟨c, hc, he2⟩ := List.mem_map.mp (listMax_mem hne2)
  exact ⟨inst, hi, c, hc, by rw [he2, he]⟩

theorem minLength_le {α : Type} {X : PanelOf α} {inst : List (List α)} {c : List α} (hi : inst ∈ X) (hc : c ∈ inst) :
    minLength X ≤ c.length := by
  unfold minLength
  have h1 : listMin (inst.map List.length) ≤ c.length := listMin_le (List.mem_map.mpr ⟨c, hc, rfl⟩)
  have h2 : listMin (X.map (fun inst => listMin (inst.map List.length))) ≤ listMin (inst.map List.length) :=
    listMin_le (List.mem_map.mpr ⟨inst, hi, rfl⟩)
  exact Nat.le_trans h2 h1

theorem minLength_isMin {α : Type} {X : PanelOf α} (h : WellShaped X) : Spec.IsMinLength X (minLength X) := by
  refine ⟨fun inst hi c hc => minLength_le hi hc, ?_⟩
  unfold minLength
  have hne : X.map (fun inst => listMin (inst.map List.length)) ≠ [] := by simpa using h.1
  obtain ⟨inst, hi, he⟩ := List.mem_map.mp (listMin_mem hne)
  have hne2 : inst.map List.length ≠ [] := by simpa using h.2 inst hi
  obtain ⟨c, hc, he2⟩ := List.mem_map.mp (listMin_mem hne2)
  exact ⟨inst, hi, c, hc, by rw [he2, he]⟩

theorem checkX_ok {α : Type} {X : PanelOf α} (h : WellShaped X) : checkX X = .ok () := by
  obtain ⟨h1, h2⟩ := h
  cases X with
  | nil => exact absurd rfl h1
  | cons inst X =>
    have : inst ≠ [] := h2 inst List.mem_cons_self
    have : inst.length ≠ 0 := by simpa using this
    simp [checkX, this]

/-! ### padding -/

theorem createPad_eq_spec {α : Type} (L : Nat) (fill : α) (c : List α) (h : c.length ≤ L) :
    createPad L fill c = Spec.padCell L fill c := by
  apply List.ext_getElem
  · simp [createPad, Spec.padCell]; omega
  · intro i h1 h2
    simp only [createPad, Spec.padCell, List.getElem_map, List.getElem_range]
    by_cases hi : i < c.length
    · rw [List.getElem_append_left hi]; simp [List.getD_eq_getElem?_getD, hi]
    · rw [List.getElem_append_right (by omega)]
      simp [List.getD_eq_getElem?_getD, hi]

theorem padCell_length {α : Type} (L : Nat) (fill : α) (c : List α) : (Spec.padCell L fill c).length = L := by
  simp [Spec.padCell]

theorem padCell_prefix {α : Type} (L : Nat) (fill : α) (c : List α) (h : c.length ≤ L) :
    Spec.padCell L fill c = c ++ List.replicate (L - c.length) fill := by
  rw [← createPad_eq_spec L fill c h]; simp [createPad]

theorem padTransform_eq_spec {α : Type} (L : Int) (fill : α) (X : PanelOf α)
    (hX : WellShaped X) (hL : (maxLength X : Int) ≤ L) :
    padTransform L fill X = .ok (Spec.pad L.toNat fill X) := by
  have hnot : ¬ ((maxLength X : Int) > L) := by omega
  simp only [padTransform, checkX_ok hX, hnot, bind, Except.bind, pure, Except.pure, if_false]
  congr 1
  unfold Spec.pad
  apply List.map_congr_left
  intro inst hi
  apply List.map_congr_left
  intro c hc
  apply createPad_eq_spec
  have := le_maxLength hi hc
  omega

theorem padTransform_rejects {α : Type} (L : Int) (fill : α) (X : PanelOf α)
    (hX : WellShaped X) (hL : L < (maxLength X : Int)) :
    padTransform L fill X = .error .value := by
  have : (maxLength X : Int) > L := by omega
  simp [padTransform, checkX_ok hX, this, bind, Except.bind]

/-! ### truncation -/

theorem ilocList_inrange (c : Cell) (idxs : List Int) (h : ∀ i ∈ idxs, 0 ≤ i ∧ i < (c.length : Int)) :
    ilocList c idxs = .ok (idxs.map (fun i => c.getD i.toNat 0)) := by
  unfold ilocList
  induction idxs with
  | nil => rfl
  | cons i l ih =>
    have hi := h i List.mem_cons_self
    have ih' := ih (fun j hj => h j (List.mem_cons_of_mem _ hj))
    simp only [List.mapM_cons, bind, Except.bind, ilocOne, hi, and_self, if_true, ih', List.map_cons, pure,
      Except.pure]

theorem range_getD_eq_slice (c : Cell) (a b : Nat) (hab : a ≤ b) (hb : b ≤ c.length) :
    (List.range (b - a)).map (fun i => c.getD (a + i) 0) = Spec.slice a b c := by
  apply List.ext_getElem
  · simp [Spec.slice]; omega
  · intro i h1 h2
    simp only [List.length_map, List.length_range] at h1
    simp [Spec.slice, List.getD_eq_getElem?_getD]
    have : a + i < c.length := by omega
    simp [this]

theorem ilocList_arange (c : Cell) (a b : Nat) (hab : a ≤ b) (hb : b ≤ c.length) :
    ilocList c (arange a b) = .ok (Spec.slice a b c) := by
  rw [ilocList_inrange]
  · congr 1
    rw [Lem.arange_eq, List.map_map]
    have : ((b : Int) - (a : Int)).toNat = b - a := by omega
    rw [this, ← range_getD_eq_slice c a b hab hb]
    apply List.map_congr_left
    intro i _
    simp only [Function.comp]
    have : ((a : Int) + (i : Int)).toNat = a + i := by omega
    rw [this]
  · intro i hi
    have := (Lem.arange_mem a b i).mp hi
    omega

theorem slice_length (a b : Nat) (c : Cell) (hb : b ≤ c.length) : (Spec.slice a b c).length = b - a := by
  simp [Spec.slice]; omega

theorem truncTransform_eq_spec (lo : Int) (upper : Option Int)
    (X : Panel) (hX : WellShaped X) (a b : Nat) (hab : a ≤ b) (hb : b ≤ minLength X)
    (hlo : lo ≤ (minLength X : Int))
    (hidx : truncIdxs lo upper = arange a b) :
    truncTransform lo upper X = .ok (Spec.truncate a b X) := by
  have hnot : ¬ ((minLength X : Int) < lo) := by omega
  simp only [truncTransform, checkX_ok hX, hnot, bind, Except.bind, if_false, hidx]
  unfold Spec.truncate
  have inner : ∀ inst ∈ X, inst.mapM (fun c => ilocList c (arange a b)) = .ok (inst.map (Spec.slice a b)) := by
    intro inst hi
    have : ∀ c ∈ inst, ilocList c (arange a b) = .ok (Spec.slice a b c) := by
      intro c hc
      exact ilocList_arange c a b hab (Nat.le_trans hb (minLength_le hi hc))
    clear hi
    induction inst with
    | nil => rfl
    | cons c l ih =>
      simp only [List.mapM_cons, bind, Except.bind, this c List.mem_cons_self,
        ih (fun d hd => this d (List.mem_cons_of_mem _ hd)), List.map_cons, pure, Except.pure]
  clear hX hb hlo hnot
  induction X with
  | nil => rfl
  | cons inst X ih =>
    simp only [List.mapM_cons, bind, Except.bind, inner inst List.mem_cons_self,
      ih (fun d hd => inner d (List.mem_cons_of_mem _ hd)), List.map_cons, pure, Except.pure]

/-! ### tabularisation -/

/-- DataFrame shape: every instance has the same number `nc` of columns -/
def Columns (X : Panel) (nc : Nat) : Prop := ∀ inst ∈ X, inst.length = nc

/-- within each column all series have the same length (columns may differ from each other) -/
def ColumnsEqualLength (X : Panel) (nc : Nat) : Prop :=
  ∀ j, j < nc → ∀ a ∈ X, ∀ b ∈ X, (a.getD j []).length = (b.getD j []).length

theorem rectangular_iff (col : List Cell) :
    rectangular col = true ↔ ∀ a ∈ col, ∀ b ∈ col, a.length = b.length := by
  cases col with
  | nil => simp [rectangular]
  | cons c cs =>
    simp only [rectangular, List.all_eq_true, beq_iff_eq, List.mem_cons]
    constructor
    · intro h a ha b hb
      have ea : a.length = c.length := by rcases ha with rfl | ha; rfl; exact h a ha
      have eb : b.length = c.length := by rcases hb with rfl | hb; rfl; exact h b hb
      omega
    · intro h d hd
      exact h d (Or.inr hd) c (Or.inl rfl)

theorem nColumns_eq {X : Panel} {nc : Nat} (hne : X ≠ []) (h : Columns X nc) : nColumns X = nc := by
  cases X with
  | nil => exact absurd rfl hne
  | cons inst X => exact h inst List.mem_cons_self

theorem range_getD_self (l : List Cell) : (List.range l.length).map (fun j => l.getD j []) = l := by
  apply List.ext_getElem
  · simp
  · intro i h1 h2
    simp [List.getD_eq_getElem?_getD, h2]

theorem hstack_columns (X : Panel) (nc : Nat) (h : Columns X nc) :
    hstack ((List.range nc).map (column X)) X.length = Spec.tabularize X := by
  unfold hstack Spec.tabularize
  apply List.ext_getElem
  · simp
  · intro i h1 h2
    simp only [List.getElem_map, List.getElem_range, List.map_map]
    have hi : i < X.length := by simpa using h2
    have hmem : X[i] ∈ X := List.getElem_mem hi
    have hlen := h X[i] hmem
    congr 1
    have : (List.range nc).map ((fun b => b.getD i []) ∘ column X) = (List.range X[i].length).map (fun j => X[i].getD j []) := by
      rw [hlen]
      apply List.map_congr_left
      intro j _
      simp [column, List.getD_eq_getElem?_getD, hi]
    rw [this, range_getD_self]

theorem tabularize_eq_spec (X : Panel) (nc : Nat) (hX : WellShaped X) (hc : Columns X nc)
    (heq : ColumnsEqualLength X nc) : tabularize X = .ok (Spec.tabularize X) := by
  have hall : ((List.range nc).map (column X)).all rectangular = true := by
    simp only [List.all_eq_true, List.mem_map, List.mem_range]
    rintro col ⟨j, hj, rfl⟩
    rw [rectangular_iff]
    intro a ha b hb
    obtain ⟨ia, hia, rfl⟩ := List.mem_map.mp ha
    obtain ⟨ib, hib, rfl⟩ := List.mem_map.mp hb
    exact heq j hj ia hia ib hib
  simp only [tabularize, checkX_ok hX, bind, Except.bind, nestedTo2d, nColumns_eq hX.1 hc, hall, if_true]
  rw [hstack_columns X nc hc]

theorem tabularize_rejects_ragged (X : Panel) (nc : Nat) (hX : WellShaped X) (hc : Columns X nc)
    (j : Nat) (hj : j < nc) (a b : Inst) (ha : a ∈ X) (hb : b ∈ X)
    (hne : (a.getD j []).length ≠ (b.getD j []).length) : tabularize X = .error .value := by
  have hall : ((List.range nc).map (column X)).all rectangular = false := by
    rw [Bool.eq_false_iff]
    intro hall
    simp only [List.all_eq_true, List.mem_map, List.mem_range] at hall
    have := (rectangular_iff _).mp (hall (column X j) ⟨j, hj, rfl⟩)
    exact hne (this _ (List.mem_map.mpr ⟨a, ha, rfl⟩) _ (List.mem_map.mpr ⟨b, hb, rfl⟩))
  simp [tabularize, checkX_ok hX, bind, Except.bind, nestedTo2d, nColumns_eq hX.1 hc, hall]

/-- position of value `t` of column `j` in the flattened row, all series of length `T` -/
theorem flatten_uniform_getElem? (l : List Cell) (T : Nat) (h : ∀ c ∈ l, c.length = T) (j t : Nat)
    (ht : t < T) : l.flatten[j * T + t]? = (l[j]?).bind (fun c => c[t]?) := by
  induction l generalizing j with
  | nil => simp
  | cons c l ih =>
    have hc : c.length = T := h c List.mem_cons_self
    have ih' := ih (fun d hd => h d (List.mem_cons_of_mem _ hd))
    cases j with
    | zero =>
      simp only [Nat.zero_mul, Nat.zero_add, List.flatten_cons, List.getElem?_cons_zero, Option.bind_some]
      rw [List.getElem?_append_left (by omega)]
    | succ j =>
      simp only [List.flatten_cons, List.getElem?_cons_succ]
      rw [List.getElem?_append_right (by rw [hc, Nat.succ_mul]; omega)]
      have : (j + 1) * T + t - c.length = j * T + t := by rw [hc, Nat.succ_mul]; omega
      rw [this, ih' j]

/-! ### generic helpers -/

theorem mapM_except_ok {α β ε} (f : α → Except ε β) (g : α → β) (l : List α)
    (h : ∀ a ∈ l, f a = .ok (g a)) : l.mapM f = .ok (l.map g) := by
  induction l with
  | nil => rfl
  | cons a l ih =>
    simp only [List.mapM_cons, bind, Except.bind, h a List.mem_cons_self,
      ih (fun b hb => h b (List.mem_cons_of_mem _ hb)), List.map_cons, pure, Except.pure]

/-- putting per-column results back together row by row gives the cell-wise map -/
theorem transpose_columns_map (X : Panel) (nc : Nat) (h : Columns X nc) (g : Cell → Cell) :
    (List.range X.length).map (fun i => ((List.range nc).map (fun j => (column X j).map g)).map
      (fun col => col.getD i [])) = X.map (fun inst => inst.map g) := by
  apply List.ext_getElem
  · simp
  · intro i h1 h2
    have hi : i < X.length := by simpa using h1
    simp only [List.getElem_map, List.getElem_range, List.map_map]
    have hlen := h X[i] (List.getElem_mem hi)
    have : (List.range nc).map ((fun col => col.getD i []) ∘ fun j => (column X j).map g) =
        (List.range X[i].length).map (fun j => g (X[i].getD j [])) := by
      rw [hlen]
      apply List.map_congr_left
      intro j _
      simp [column, List.getD_eq_getElem?_getD, hi]
    rw [this]
    apply List.ext_getElem
    · simp
    · intro j h3 h4
      have hj : j < X[i].length := by simpa using h3
      simp [List.getD_eq_getElem?_getD, hj]

end SkVerif.C14.Lem
