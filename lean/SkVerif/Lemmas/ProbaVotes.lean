/- C17 helper lemmas: vote counting (BOSS / cBOSS / TDE ensembles), `mapM` in `Except`. -/
import SkVerif.Lemmas.ProbaAvg
import SkVerif.Lemmas.ProbaLabels
namespace SkVerif.C17.Lem
open SkVerif.C17

theorem mapM_ok {α β} (f : α → Except Err β) (g : α → β) (l : List α) (h : ∀ a ∈ l, f a = .ok (g a)) :
    l.mapM f = .ok (l.map g) := by
  induction l with
  | nil => rfl
  | cons a l ih =>
    rw [List.mapM_cons, h a (by simp), ih (fun b hb => h b (List.mem_cons_of_mem _ hb))]
    rfl

theorem mapM_ok_inv {α β} (f : α → Except Err β) (l : List α) (r : List β) (h : l.mapM f = .ok r) :
    List.Forall₂ (fun a b => f a = .ok b) l r := by
  induction l generalizing r with
  | nil =>
    have : r = [] := by simpa [List.mapM_nil, pure, Except.pure] using h.symm
    subst this; exact List.Forall₂.nil
  | cons a l ih =>
    rw [List.mapM_cons] at h
    cases hfa : f a with
    | error e => rw [hfa] at h; cases h
    | ok b =>
      rw [hfa] at h
      cases hl : l.mapM f with
      | error e => rw [hl] at h; cases h
      | ok bs =>
        rw [hl] at h
        have : r = b :: bs := by
          have := h.symm
          simpa [bind, Except.bind, pure, Except.pure] using this
        subst this
        exact List.Forall₂.cons hfa (ih bs hl)

theorem zeros_ok (K : Nat) : RowOK K 0 (zeros K) := by
  refine ⟨by simp [zeros], ?_, ?_⟩
  · intro x hx; simp [zeros] at hx; rw [hx.2]
  · simp [zeros]

theorem bump_ok {K : Nat} {c : Rat} {row : Row} (h : RowOK K c row) {j : Nat} (hj : j < K) {w : Rat} (hw : 0 ≤ w) :
    RowOK K (c + w) (bump row j w) := by
  induction row generalizing j K c with
  | nil => have := h.1; simp at this; omega
  | cons x r ih =>
    obtain ⟨hl, hnn, hs⟩ := h
    cases j with
    | zero =>
      refine ⟨by simpa [bump] using hl, ?_, ?_⟩
      · intro y hy
        simp only [bump, List.modify_cons, if_true, List.mem_cons] at hy
        rcases hy with rfl | hy
        · have := hnn x (by simp); linarith
        · exact hnn y (List.mem_cons_of_mem _ hy)
      · simp only [bump, List.modify_cons, if_true, List.sum_cons] at *
        linarith
    | succ j =>
      cases K with
      | zero => simp at hl
      | succ K =>
        have hr : RowOK K (c - x) r := ⟨by simpa using hl, fun y hy => hnn y (List.mem_cons_of_mem _ hy), by
          simp only [List.sum_cons] at hs; linarith⟩
        have := ih hr (j := j) (by omega)
        refine ⟨by simp [bump, List.length_modify]; simpa using hl, ?_, ?_⟩
        · intro y hy
          simp only [bump, List.modify_cons, Nat.add_one_ne_zero, if_false, Nat.add_sub_cancel, List.mem_cons] at hy
          rcases hy with rfl | hy
          · exact hnn y (by simp)
          · exact this.2.1 y hy
        · have e := this.2.2
          simp only [bump] at e
          simp only [bump, List.modify_cons, Nat.add_one_ne_zero, if_false, Nat.add_sub_cancel, List.sum_cons, e]
          ring

/-- the vote loop without the failure branch -/
def votePure (classes : List Label) : List (Label × Rat) → Row → Row
  | [], row => row
  | (lab, w) :: vs, row => votePure classes vs (bump row ((idxOf classes lab).getD 0) w)

theorem voteRow_eq_pure (classes : List Label) (vs : List (Label × Rat)) (row : Row)
    (h : ∀ v ∈ vs, v.1 ∈ classes) : voteRow classes vs row = .ok (votePure classes vs row) := by
  induction vs generalizing row with
  | nil => rfl
  | cons v vs ih =>
    obtain ⟨lab, w⟩ := v
    obtain ⟨j, hj⟩ := idxOf_of_mem (h (lab, w) (by simp))
    simp only [voteRow, hj, votePure, Option.getD_some]
    exact ih _ (fun v hv => h v (List.mem_cons_of_mem _ hv))

theorem votePure_ok {K : Nat} (classes : List Label) (hK : classes.length = K) (vs : List (Label × Rat)) {c : Rat} {row : Row}
    (hrow : RowOK K c row) (h : ∀ v ∈ vs, v.1 ∈ classes ∧ 0 ≤ v.2) :
    RowOK K (c + (vs.map (·.2)).sum) (votePure classes vs row) := by
  induction vs generalizing row c with
  | nil => simpa [votePure] using hrow
  | cons v vs ih =>
    obtain ⟨lab, w⟩ := v
    obtain ⟨hm, hw⟩ := h (lab, w) (by simp)
    obtain ⟨j, hj⟩ := idxOf_of_mem hm
    have hjK : j < K := hK ▸ idxOf_lt hj
    have := ih (bump_ok hrow hjK hw) (fun v hv => h v (List.mem_cons_of_mem _ hv))
    simp only [votePure, hj, Option.getD_some, List.map_cons, List.sum_cons]
    have e : c + (w + (vs.map (·.2)).sum) = c + w + (vs.map (·.2)).sum := by ring
    rw [e]; exact this

/-- the votes of instance `i` when every member answered for it -/
def votesPure (members : List (List Label × Rat)) (i : Nat) : List (Label × Rat) :=
  members.map (fun m => ((m.1[i]?).getD (.int 0), m.2))

theorem votesFor_eq_pure (members : List (List Label × Rat)) (i : Nat) (h : ∀ m ∈ members, i < m.1.length) :
    votesFor members i = .ok (votesPure members i) := by
  unfold votesFor votesPure
  apply mapM_ok
  intro m hm
  have := h m hm
  simp [List.getElem?_eq_getElem this]

theorem votesPure_weights (members : List (List Label × Rat)) (i : Nat) :
    ((votesPure members i).map (·.2)).sum = (members.map (·.2)).sum := by
  simp [votesPure, List.map_map, Function.comp_def]

theorem votesPure_mem (members : List (List Label × Rat)) (i : Nat) (classes : List Label)
    (h : ∀ m ∈ members, i < m.1.length ∧ (∀ l ∈ m.1, l ∈ classes) ∧ 0 ≤ m.2) :
    ∀ v ∈ votesPure members i, v.1 ∈ classes ∧ 0 ≤ v.2 := by
  intro v hv
  simp only [votesPure, List.mem_map] at hv
  obtain ⟨m, hm, rfl⟩ := hv
  obtain ⟨hi, hc, hw⟩ := h m hm
  refine ⟨?_, hw⟩
  simp only [List.getElem?_eq_getElem hi, Option.getD_some]
  exact hc _ (List.getElem_mem _)

theorem pyDiv_map (row : Row) (d : Rat) (hd : d ≠ 0) :
    row.map (fun s => pyDiv s d) = (row.map (· / d)).map some := by
  simp [pyDiv, hd, List.map_map, Function.comp_def]

theorem pyDiv_map_zero (row : Row) : row.map (fun s => pyDiv s 0) = List.replicate row.length none := by
  induction row with
  | nil => rfl
  | cons a l ih => simp [pyDiv, List.replicate_succ] at *

end SkVerif.C17.Lem
