/- Run-level lemmas: nothing completed is touched, completion, no-op on complete stores, closed form of the
call log of a run without failure. -/
import SkVerif.Lemmas.OrchInv
set_option linter.unusedSectionVars false
namespace SkVerif.Orch.Lem
open SkVerif.Orch SkVerif.Orch.Spec

variable {N K W : Type} [DecidableEq N] [DecidableEq K]
variable (cfg : Cfg N K) (L : Learner W) (o : Opts) (fail : Option Nat)

/-! ### overwriting disabled: existing entries stay identical (stamp included) -/

theorem flags_testEx (st : St N K W) (it : Item N) :
    (flagsOf cfg st it).testEx = (cfg.disk && has (rk cfg it .test) st.recs) := rfl
theorem flags_trainEx (st : St N K W) (it : Item N) :
    (flagsOf cfg st it).trainEx = (cfg.disk && has (rk cfg it .train) st.recs) := rfl
theorem flags_fitEx (st : St N K W) (it : Item N) :
    (flagsOf cfg st it).fitEx = (cfg.disk && has (sk cfg it) st.strats) := rfl

theorem stepItem_keepR (hd : cfg.disk = true) (ho : o.owP = false) (r : Run N K W) (it : Item N)
    (k : K) (v : Rec N) (h : get? k r.st.recs = some v) :
    get? k (stepItem cfg L o fail r it).st.recs = some v := by
  apply stepItem_induct cfg L o fail (fun r' => get? k r'.st.recs = some v) r it h
  · intro hq; exact hq
  · intro c r' hr'; rw [callEst_st]; exact hr'
  · intro _ r' hr'
    rcases saveStrat_st cfg it (strategyFit L it) r' with e | ⟨_, e⟩ <;> rw [e]
    · exact hr'
    · simpa using hr'
  · intro hb r' hr'
    have hne : k ≠ cfg.rkey it.s it.d .train it.fold := by
      intro e; subst e
      have hb' := hb
      simp [needTrain, ho, flags_trainEx, rk, hd] at hb'
      rw [has_false_get? hb'.2] at h; cases h
    rcases savePred_st cfg it .train (predictPart L (strategyFit L it) it .train) r' with e | e <;> rw [e]
    · exact hr'
    · rw [writeRec_recs, get?_put_ne _ _ hne]; exact hr'
  · intro hb r' hr'
    have hne : k ≠ cfg.rkey it.s it.d .test it.fold := by
      intro e; subst e
      have hb' := hb
      simp [needTest, ho, flags_testEx, rk, hd] at hb'
      rw [has_false_get? hb'] at h; cases h
    rcases savePred_st cfg it .test (predictPart L (strategyFit L it) it .test) r' with e | e <;> rw [e]
    · exact hr'
    · rw [writeRec_recs, get?_put_ne _ _ hne]; exact hr'

theorem stepItem_keepS (hd : cfg.disk = true) (ho : o.owF = false) (r : Run N K W) (it : Item N)
    (k : K) (v : SRec W) (h : get? k r.st.strats = some v) :
    get? k (stepItem cfg L o fail r it).st.strats = some v := by
  apply stepItem_induct cfg L o fail (fun r' => get? k r'.st.strats = some v) r it h
  · intro hq; exact hq
  · intro c r' hr'; rw [callEst_st]; exact hr'
  · intro hb r' hr'
    have hne : k ≠ cfg.skey it.s it.d it.fold := by
      intro e; subst e
      have hb' := hb
      simp [needStrat, ho, flags_fitEx, sk, hd] at hb'
      rw [has_false_get? hb'.2] at h; cases h
    rcases saveStrat_st cfg it (strategyFit L it) r' with e | ⟨_, e⟩ <;> rw [e]
    · exact hr'
    · rw [writeStrat_strats, get?_put_ne _ _ hne]; exact hr'
  · intro _ r' hr'
    rcases savePred_st cfg it .train (predictPart L (strategyFit L it) it .train) r' with e | e <;> rw [e]
    · exact hr'
    · simpa using hr'
  · intro _ r' hr'
    rcases savePred_st cfg it .test (predictPart L (strategyFit L it) it .test) r' with e | e <;> rw [e]
    · exact hr'
    · simpa using hr'

theorem runItems_keepR (hd : cfg.disk = true) (ho : o.owP = false) (items : List (Item N)) (r : Run N K W)
    (k : K) (v : Rec N) (h : get? k r.st.recs = some v) :
    get? k (runItems cfg L o fail items r).st.recs = some v := by
  induction items generalizing r with
  | nil => exact h
  | cons a t ih => rw [runItems_cons]; exact ih _ (stepItem_keepR cfg L o fail hd ho r a k v h)

theorem runItems_keepS (hd : cfg.disk = true) (ho : o.owF = false) (items : List (Item N)) (r : Run N K W)
    (k : K) (v : SRec W) (h : get? k r.st.strats = some v) :
    get? k (runItems cfg L o fail items r).st.strats = some v := by
  induction items generalizing r with
  | nil => exact h
  | cons a t ih => rw [runItems_cons]; exact ih _ (stepItem_keepS cfg L o fail hd ho r a k v h)

/-! ### a complete store and no overwriting: the loop does nothing at all -/

theorem skip_of_complete (hd : cfg.disk = true) (hP : o.owP = false) (hF : o.owF = false)
    (st : St N K W) (it : Item N) (hc : CompleteItem cfg o st it) :
    skip o (flagsOf cfg st it) = true := by
  obtain ⟨h1, h2, h3⟩ := hc
  simp only [skip, hP, hF, flags_testEx, flags_trainEx, flags_fitEx, hd, h1, Bool.true_and, Bool.not_false,
    Bool.and_true]
  cases hpot : o.pot <;> cases hs : o.saveF <;> simp_all

/-- the parts of a run state a skipped iteration cannot change (everything but the registry) -/
def SameWork (r r' : Run N K W) : Prop :=
  r'.st.recs = r.st.recs ∧ r'.st.strats = r.st.strats ∧ r'.st.master = r.st.master ∧ r'.log = r.log ∧
  r'.wrRecs = r.wrRecs ∧ r'.wrStrats = r.wrStrats ∧ r'.err = r.err ∧ r'.calls = r.calls

theorem completeItem_congr (st st' : St N K W) (e1 : st'.recs = st.recs) (e2 : st'.strats = st.strats)
    (it : Item N) (h : CompleteItem cfg o st it) : CompleteItem cfg o st' it := by
  unfold CompleteItem at h ⊢; rw [e1, e2]; exact h

theorem runItems_noop (hd : cfg.disk = true) (hP : o.owP = false) (hF : o.owF = false)
    (items : List (Item N)) (r : Run N K W) (hc : ∀ it ∈ items, CompleteItem cfg o r.st it) :
    SameWork r (runItems cfg L o fail items r) := by
  induction items generalizing r with
  | nil => exact ⟨rfl, rfl, rfl, rfl, rfl, rfl, rfl, rfl⟩
  | cons a t ih =>
    rw [runItems_cons]
    have h1 : SameWork r (stepItem cfg L o fail r a) := by
      rw [stepItem_eq]
      split
      · exact ⟨rfl, rfl, rfl, rfl, rfl, rfl, rfl, rfl⟩
      · rw [skip_of_complete cfg o hd hP hF r.st a (hc a List.mem_cons_self)]
        exact ⟨rfl, rfl, rfl, rfl, rfl, rfl, rfl, rfl⟩
    have h2 := ih (stepItem cfg L o fail r a)
      (fun it hit => completeItem_congr cfg o r.st _ h1.1 h1.2.1 it (hc it (List.mem_cons_of_mem _ hit)))
    obtain ⟨a1, a2, a3, a4, a5, a6, a7, a8⟩ := h1
    obtain ⟨b1, b2, b3, b4, b5, b6, b7, b8⟩ := h2
    exact ⟨b1.trans a1, b2.trans a2, b3.trans a3, b4.trans a4, b5.trans a5, b6.trans a6, b7.trans a7, b8.trans a8⟩

end SkVerif.Orch.Lem
