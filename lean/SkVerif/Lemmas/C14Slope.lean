import SkVerif.Model.C14Slope
import Mathlib.Tactic.Ring
import Mathlib.Tactic.FieldSimp
import Mathlib.Tactic.Linarith
import Mathlib.Tactic.LinearCombination
import Mathlib.Algebra.Order.Field.Rat
namespace SkVerif.C14.Lem
open SkVerif SkVerif.C14

/-- the quantity the driver prints characterises a root of the total-least-squares quadratic
`r·m² − 2w·m − r = 0` (whose roots are `(w ± sqrt(w²+r²))/r`) -/
theorem tls_encoding (w r m : Rat) (hr : r ≠ 0) (hm : m ≠ 0) :
    m - 1 / m = 2 * w / r ↔ r * m ^ 2 - 2 * w * m - r = 0 := by
  constructor
  · intro h
    field_simp at h
    linarith
  · intro h
    field_simp
    linarith

/-- the two roots have product −1, so exactly one of them has the sign of `r`: the documented gradient
`(w + sqrt(w²+r²))/r` (its numerator is positive) -/
theorem tls_roots_product (w r m m' : Rat) (hr : r ≠ 0) (hne : m ≠ m')
    (h : r * m ^ 2 - 2 * w * m - r = 0) (h' : r * m' ^ 2 - 2 * w * m' - r = 0) : m * m' = -1 := by
  have hd : r * (m - m') * (m + m') = 2 * w * (m - m') := by linarith [h, h']
  have hmm : m - m' ≠ 0 := sub_ne_zero.mpr hne
  have hs : r * (m + m') = 2 * w := by
    have : (m - m') * (r * (m + m')) = (m - m') * (2 * w) := by linarith [hd]
    exact mul_left_cancel₀ hmm this
  have : r * (m * m') = -r := by linear_combination m * hs - h
  have : r * (m * m' + 1) = 0 := by linarith
  rcases mul_eq_zero.mp this with h0 | h0
  · exact absurd h0 hr
  · linarith

theorem slopeSegments_length (k : Nat) (xs : List Rat) : (slopeSegments k xs).length = k := by
  simp [slopeSegments]

end SkVerif.C14.Lem
