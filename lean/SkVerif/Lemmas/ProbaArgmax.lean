/- C17 helper lemmas: arg-max, maxima, ties, score. -/
import SkVerif.Model.Proba
import SkVerif.Lemmas.ProbaLabels
import Mathlib.Tactic.Linarith
import Mathlib.Algebra.Order.Field.Rat
namespace SkVerif.C17.Lem
open SkVerif.C17

theorem argmaxPair_spec (x : Rat) (l : List Rat) :
    (x :: l)[(argmaxPair x l).1]? = some (argmaxPair x l).2 ∧
    (∀ y ∈ x :: l, y ≤ (argmaxPair x l).2) ∧
    (∀ k, k < (argmaxPair x l).1 → ∀ y, (x :: l)[k]? = some y → y < (argmaxPair x l).2) := by
  induction l generalizing x with
  | nil =>
    simp [argmaxPair]
  | cons y l ih =>
    obtain ⟨h1, h2, h3⟩ := ih y
    simp only [argmaxPair]
    split
    · rename_i hle
      refine ⟨by simp, ?_, ?_⟩
      · intro z hz
        rcases List.mem_cons.mp hz with rfl | hz
        · exact _root_.le_refl _
        · exact _root_.le_trans (h2 z hz) hle
      · intro k hk; simp at hk
    · rename_i hle
      have hlt : x < (argmaxPair y l).2 := lt_of_not_ge hle
      refine ⟨by simpa using h1, ?_, ?_⟩
      · intro z hz
        rcases List.mem_cons.mp hz with rfl | hz
        · exact le_of_lt hlt
        · exact h2 z hz
      · intro k hk z hz
        cases k with
        | zero => simp at hz; subst hz; exact hlt
        | succ k =>
          simp only [List.getElem?_cons_succ] at hz
          exact h3 k (by simpa using hk) z hz

theorem argmax?_spec {r : Row} {j : Nat} (h : argmax? r = some j) :
    ∃ v, r[j]? = some v ∧ (∀ y ∈ r, y ≤ v) ∧ (∀ k, k < j → ∀ y, r[k]? = some y → y < v) := by
  cases r with
  | nil => simp [argmax?] at h
  | cons x l =>
    simp only [argmax?, Option.some.injEq] at h
    subst h
    exact ⟨_, argmaxPair_spec x l⟩

theorem argmax?_lt {r : Row} {j : Nat} (h : argmax? r = some j) : j < r.length := by
  obtain ⟨v, hv, _⟩ := argmax?_spec h
  exact (List.getElem?_eq_some_iff.mp hv).1

theorem argmax?_isSome {r : Row} (h : r ≠ []) : ∃ j, argmax? r = some j := by
  cases r with
  | nil => exact absurd rfl h
  | cons x l => exact ⟨_, rfl⟩

/-! ### maxima and ties -/

theorem rowMax_spec (x : Rat) (l : List Rat) : rowMax x l ∈ x :: l ∧ ∀ y ∈ x :: l, y ≤ rowMax x l := by
  induction l generalizing x with
  | nil => simp [rowMax]
  | cons y l ih =>
    obtain ⟨h1, h2⟩ := ih y
    simp only [rowMax]
    split
    · rename_i hle
      refine ⟨by simp, ?_⟩
      intro z hz
      rcases List.mem_cons.mp hz with rfl | hz
      · exact _root_.le_refl _
      · exact _root_.le_trans (h2 z hz) hle
    · rename_i hle
      refine ⟨List.mem_cons_of_mem _ h1, ?_⟩
      intro z hz
      rcases List.mem_cons.mp hz with rfl | hz
      · exact le_of_lt (lt_of_not_ge hle)
      · exact h2 z hz

theorem mem_tiesOf {r : Row} {j : Nat} (h : j ∈ tiesOf r) :
    ∃ v, r[j]? = some v ∧ ∀ y ∈ r, y ≤ v := by
  cases r with
  | nil => simp [tiesOf] at h
  | cons x l =>
    simp only [tiesOf, List.mem_filter, List.mem_range, beq_iff_eq] at h
    exact ⟨rowMax x l, h.2, (rowMax_spec x l).2⟩

/-- a non-empty row has at least one maximum -/
theorem tiesOf_ne_nil {r : Row} (h : r ≠ []) : tiesOf r ≠ [] := by
  cases r with
  | nil => exact absurd rfl h
  | cons x l =>
    obtain ⟨hm, _⟩ := rowMax_spec x l
    obtain ⟨i, hi, he⟩ := List.getElem_of_mem hm
    intro hnil
    have : i ∈ tiesOf (x :: l) := by
      simp only [tiesOf, List.mem_filter, List.mem_range, beq_iff_eq]
      exact ⟨hi, by rw [List.getElem?_eq_getElem hi, he]⟩
    rw [hnil] at this
    simp at this

theorem allSome_length {α} {l : List (Option α)} {r : List α} (h : allSome l = some r) : r.length = l.length := by
  induction l generalizing r with
  | nil => simp [allSome] at h; subst h; rfl
  | cons a l ih =>
    cases a with
    | none => simp [allSome] at h
    | some a =>
      simp only [allSome, Option.map_eq_some_iff] at h
      obtain ⟨r', hr', rfl⟩ := h
      simp [ih hr']

theorem allSome_map_some {α} (r : List α) : allSome (r.map some) = some r := by
  induction r with
  | nil => rfl
  | cons a l ih => simp [allSome, ih]

end SkVerif.C17.Lem
