import SkVerif.Model.PredInt
namespace SkVerif.Lem
open SkVerif SkVerif.Fc

/-- a `fit` that returns `self` leaves the forecaster fitted, with the horizon `setFh` accepted -/
theorem fitWith_done_fh (core : Core) (mode : FhMode) (s : FState) (Y : Series) (f : FH.FH) (s2 : FState)
    (hfit : s.fitted = true) (hfh : s.fh = some f)
    (h : fitWith core mode s Y (some f) = (s2, .done)) : s2.fitted = true ∧ s2.fh = some f := by
  unfold fitWith at h
  split at h
  · simp at h
  · rename_i lastObs _
    have hset : setFh mode { s with y := Y, cutoff := some lastObs.1 } (some f) = .ok (some f) := by
      cases mode <;> simp [setFh, hfit, hfh]
    simp only [hset] at h
    split at h
    · simp at h
    · split at h
      · simp at h
      · simp only [Prod.mk.injEq] at h
        obtain ⟨h1, _⟩ := h
        subst h1
        simp

/-- an `update` that returns `self` leaves the forecaster fitted with the same stored horizon -/
theorem update_done_fh (core : Core) (mode : FhMode) (s : FState) (y : Series) (up : Bool) (f : FH.FH)
    (s2 : FState) (hfit : s.fitted = true) (hfh : s.fh = some f)
    (h : update core mode s y up = (s2, .done)) : s2.fitted = true ∧ s2.fh = some f := by
  unfold update at h
  simp only [hfit, Bool.not_true, Bool.false_eq_true, ↓reduceIte] at h
  cases hy : y.getLast? with
  | none =>
    simp only [hy] at h
    cases up
    · simp only [Bool.false_eq_true, ↓reduceIte, Prod.mk.injEq, and_true] at h
      subst h; exact ⟨hfit, hfh⟩
    · simp only [↓reduceIte, hfh] at h
      exact fitWith_done_fh core mode s s.y f s2 hfit hfh h
  | some o =>
    simp only [hy] at h
    cases up
    · simp only [Bool.false_eq_true, ↓reduceIte, Prod.mk.injEq, and_true] at h
      subst h; exact ⟨rfl, hfh⟩
    · simp only [↓reduceIte, hfh] at h
      exact fitWith_done_fh core mode _ _ f s2 rfl rfl h

end SkVerif.Lem
