/-
Machine-level lemmas for Model/SeriesTransform.lean: shift equivariance of `stepBasic`/`step`/`run`,
index preservation.
-/
import SkVerif.Model.SeriesTransform
import SkVerif.Lemmas.SeriesShift
import SkVerif.Lemmas.HampelPos
namespace SkVerif.Lem.ST
open SkVerif SkVerif.ST

def isSer : Out → Bool
  | .ser _ => true
  | _ => false

theorem shiftOut_not_ser (c : Int) (o : Out) (h : isSer o = false) : shiftOut c o = o := by
  cases o <;> simp_all [isSer, shiftOut]

theorem desDecompose_not_ser (s : Des) (z : Series) (d : FitData) : isSer (desDecompose s z d).2 = false := by
  unfold desDecompose
  split
  · rfl
  · split <;> rfl

theorem desFit_not_ser (s : Des) (inp : Input) (d : FitData) : isSer (desFit s inp d).2 = false := by
  unfold desFit
  split
  · rfl
  · split
    · split
      · rfl
      · exact desDecompose_not_ser _ _ _
      · rfl
    · exact desDecompose_not_ser _ _ _

theorem desUpdate_not_ser (s : Des) (inp : Input) : isSer (desUpdate s inp).2 = false := by
  unfold desUpdate
  split
  · rfl
  · split <;> rfl

theorem detFit_not_ser (s : Det) (inp : Input) : isSer (detFit s inp).2 = false := by
  unfold detFit
  split
  · rfl
  · split <;> rfl

theorem detUpdate_not_ser (s : Det) (inp : Input) (up : Bool) : isSer (detUpdate s inp up).2 = false := by
  unfold detUpdate
  repeat' (first | rfl | split | dsimp only)

theorem colFit_not_ser (s : Col) (inp : Input) (d : FitData) : isSer (colFit s inp d).2 = false := by
  unfold colFit
  split
  · rfl
  · split
    · rfl
    · split <;> rfl

theorem colFit_shift (c : Int) (s : Col) (inp : Input) (d : FitData) :
    colFit s (shiftInput c inp) d = colFit s inp d := by
  unfold colFit
  split
  · rfl
  · rw [checkSeries_shift]
    cases checkSeries false inp <;> rfl

theorem zip_labels_shift (c : Int) (z : Series) (out : List Val) :
    (labels (shiftSeries c z)).zip out = shiftSeries c ((labels z).zip out) := by
  rw [labels_shift]
  simp only [shiftSeries]
  rw [List.zip_map_left]
  apply List.map_congr_left
  intro p _
  rfl

theorem colApply_shift (c : Int) (s : Col) (f : List Val → List Val) (inp : Input) :
    colApply s f (shiftInput c inp) = ((colApply s f inp).1, shiftOut c (colApply s f inp).2) := by
  unfold colApply
  split
  · rfl
  · rw [checkSeries_shift]
    cases checkSeries false inp with
    | error e => rfl
    | ok z =>
      simp only [Except.map, values_shift, length_shift]
      split
      · rfl
      · simp only [shiftOut, zip_labels_shift]

theorem hasInverse_shift (c : Int) (st : TState) : hasInverse (shiftState c st) = hasInverse st := by
  induction st with
  | des s => rfl
  | det s => rfl
  | col s => rfl
  | hampel cfg f => rfl
  | pass p i h f ft ihp _ => simpa [shiftState, hasInverse] using ihp

/-- **shift equivariance of one call** (all calls except `fit_transform`) -/
theorem stepBasic_shift (reg : Reg) (c : Int) (st : TState) (op : Op) :
    stepBasic reg (shiftState c st) (shiftOp c op)
      = (shiftState c (stepBasic reg st op).1, shiftOut c (stepBasic reg st op).2) := by
  induction st generalizing op with
  | des s =>
    cases op with
    | fit inp d =>
      simp only [shiftState, shiftOp, stepBasic, desFit_shift, shiftOut_not_ser _ _ (desFit_not_ser s inp d)]
    | update inp u =>
      simp only [shiftState, shiftOp, stepBasic, desUpdate_shift, shiftOut_not_ser _ _ (desUpdate_not_ser s inp)]
    | transform inp f => simp only [shiftState, shiftOp, stepBasic, desTransform_shift]
    | inverse inp f => simp only [shiftState, shiftOp, stepBasic, desTransform_shift]
    | fitTransform inp d f => rfl
  | det s =>
    cases op with
    | fit inp d =>
      simp only [shiftState, shiftOp, stepBasic, detFit_shift, shiftOut_not_ser _ _ (detFit_not_ser s inp)]
    | update inp u =>
      simp only [shiftState, shiftOp, stepBasic, detUpdate_shift, shiftOut_not_ser _ _ (detUpdate_not_ser s inp _)]
    | transform inp f => simp only [shiftState, shiftOp, stepBasic, detApply_shift]
    | inverse inp f => simp only [shiftState, shiftOp, stepBasic, detApply_shift]
    | fitTransform inp d f => rfl
  | col s =>
    cases op with
    | fit inp d =>
      simp only [shiftState, shiftOp, stepBasic, colFit_shift, shiftOut_not_ser _ _ (colFit_not_ser s inp d)]
    | update inp u => rfl
    | transform inp f => simp only [shiftState, shiftOp, stepBasic, colApply_shift]
    | inverse inp f =>
      simp only [shiftState, shiftOp, stepBasic]
      split
      · rfl
      · simp only [colApply_shift, shiftState]
    | fitTransform inp d f => rfl
  | hampel cfg f =>
    cases op with
    | fit inp d => rfl
    | update inp u => rfl
    | transform inp g =>
      simp only [shiftState, shiftOp, stepBasic]
      split
      · rfl
      · rw [checkSeries_shift]
        cases checkSeries false inp with
        | error e => rfl
        | ok z =>
          simp only [Except.map, hampelOut_shift]
          cases hampelOut cfg z <;> rfl
    | inverse inp g => rfl
    | fitTransform inp d g => rfl
  | pass p i h flag ft ihp ihi =>
    cases op with
    | fit inp d =>
      simp only [shiftState, shiftOp, stepBasic]
      split
      · rfl
      · have := ihp (.fit inp d)
        simp only [shiftOp] at this
        rw [this]
        cases h2 : (stepBasic reg p (.fit inp d)).2 <;> simp [shiftOut, shiftState]
    | update inp u => rfl
    | transform inp f =>
      simp only [shiftState, shiftOp, stepBasic]
      split
      · rfl
      · rw [checkSeries_shift]
        cases checkSeries false inp with
        | error e => rfl
        | ok z =>
          simp only [Except.map]
          split
          · rfl
          · have := ihi (.transform (.series z) f)
            simp only [shiftOp, shiftInput] at this
            rw [this]
            simp [shiftState]
    | inverse inp f =>
      simp only [shiftState, shiftOp, stepBasic, hasInverse_shift]
      split
      · rfl
      · split
        · rfl
        · rw [checkSeries_shift]
          cases checkSeries false inp with
          | error e => rfl
          | ok z =>
            simp only [Except.map]
            split
            · rfl
            · have := ihi (.inverse (.series z) f)
              simp only [shiftOp, shiftInput] at this
              rw [this]
              simp [shiftState]
    | fitTransform inp d f => rfl

theorem step_shift (reg : Reg) (c : Int) (st : TState) (op : Op) :
    step reg (shiftState c st) (shiftOp c op)
      = (shiftState c (step reg st op).1, shiftOut c (step reg st op).2) := by
  cases op with
  | fitTransform inp d f =>
    simp only [step, shiftOp]
    have h1 := stepBasic_shift reg c st (.fit inp d)
    simp only [shiftOp] at h1
    rw [h1]
    cases h2 : (stepBasic reg st (.fit inp d)).2 with
    | ok =>
      have := stepBasic_shift reg c (stepBasic reg st (.fit inp d)).1 (.transform inp f)
      simpa [shiftOp, shiftOut] using this
    | err e => simp [shiftOut]
    | ser z =>
      have := stepBasic_shift reg c (stepBasic reg st (.fit inp d)).1 (.transform inp f)
      simpa [shiftOp, shiftOut] using this
  | fit inp d => exact stepBasic_shift reg c st _
  | update inp u => exact stepBasic_shift reg c st _
  | transform inp f => exact stepBasic_shift reg c st _
  | inverse inp f => exact stepBasic_shift reg c st _

theorem run_shift (reg : Reg) (c : Int) (st : TState) (ops : List Op) :
    run reg (shiftState c st) (ops.map (shiftOp c)) = (run reg st ops).map (shiftOut c) := by
  induction ops generalizing st with
  | nil => rfl
  | cons op ops ih =>
    simp only [List.map_cons, run]
    rw [step_shift reg c st op]
    simp only [List.cons.injEq, true_and]
    exact ih _

end SkVerif.Lem.ST
