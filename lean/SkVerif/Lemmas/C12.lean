/-
Helper lemmas for C12 (purity / scheduling independence).  Core Lean only.
-/
import SkVerif.Model.C12Parallel
import SkVerif.Model.C12Pure
import SkVerif.Lemmas.Update
namespace SkVerif.L12
open SkVerif SkVerif.Fc SkVerif.P12 SkVerif.Par

-- ---------------------------------------------------------------------------------------------
-- parallel map

theorem collect_map_some {β : Type} (l : List β) : collect (l.map some) = some l := by
  induction l with
  | nil => rfl
  | cons a t ih => simp [collect, ih]

theorem complete_length {α β : Type} (f : α → β) (tasks : List α) (slots : List (Option β)) (i : Nat) :
    (complete f tasks slots i).length = slots.length := by
  unfold complete
  split <;> simp

theorem complete_getElem? {α β : Type} (f : α → β) (tasks : List α) (slots : List (Option β)) (i j : Nat)
    (hlen : slots.length = tasks.length) :
    (complete f tasks slots i)[j]? =
      if j = i then (tasks[j]?).map (fun t => some (f t)) else slots[j]? := by
  unfold complete
  by_cases hji : j = i
  · subst hji
    simp only [↓reduceIte]
    cases ht : tasks[j]? with
    | none =>
      simp only [Option.map_none]
      have : tasks.length ≤ j := by
        rcases Nat.lt_or_ge j tasks.length with h | h
        · rw [List.getElem?_eq_getElem h] at ht; cases ht
        · exact h
      exact List.getElem?_eq_none (by omega)
    | some t =>
      have hj : j < tasks.length := by
        rcases Nat.lt_or_ge j tasks.length with h | h
        · exact h
        · rw [List.getElem?_eq_none h] at ht; cases ht
      simp only [Option.map_some]
      rw [List.getElem?_set_self (by omega)]
  · simp only [hji, ↓reduceIte]
    cases tasks[i]? with
    | none => rfl
    | some t => simp only; rw [List.getElem?_set_ne (by omega)]

theorem foldl_complete_length {α β : Type} (f : α → β) (tasks : List α) (order : List Nat)
    (slots : List (Option β)) :
    (order.foldl (complete f tasks) slots).length = slots.length := by
  induction order generalizing slots with
  | nil => rfl
  | cons i rest ih => simp only [List.foldl_cons]; rw [ih, complete_length]

/-- slot `j` after the schedule `order`: filled with result `j` iff task `j` completed -/
theorem foldl_complete_getElem? {α β : Type} (f : α → β) (tasks : List α) (order : List Nat)
    (slots : List (Option β)) (hlen : slots.length = tasks.length) (j : Nat) :
    (order.foldl (complete f tasks) slots)[j]? =
      if j ∈ order then (tasks[j]?).map (fun t => some (f t)) else slots[j]? := by
  induction order generalizing slots with
  | nil => simp
  | cons i rest ih =>
    simp only [List.foldl_cons]
    rw [ih _ (by rw [complete_length]; exact hlen), complete_getElem? f tasks slots i j hlen]
    by_cases h1 : j ∈ rest
    · simp [h1]
    · by_cases h2 : j = i
      · simp [h2]
      · simp [h1, h2]

theorem runSchedule_perm {α β : Type} (f : α → β) (tasks : List α) (order : List Nat)
    (hperm : order.Perm (List.range tasks.length)) :
    runSchedule f tasks order = (tasks.map f).map some := by
  apply List.ext_getElem?
  intro j
  unfold runSchedule
  rw [foldl_complete_getElem? f tasks order _ (by simp) j]
  have hmem : j ∈ order ↔ j < tasks.length := by
    rw [hperm.mem_iff, List.mem_range]
  by_cases hj : j < tasks.length
  · simp [hmem.mpr hj, List.getElem?_map, Function.comp_def]
  · have hno : ¬ j ∈ order := fun h => hj (hmem.mp h)
    have hge : tasks.length ≤ j := Nat.le_of_not_lt hj
    simp only [hno, ↓reduceIte]
    rw [List.getElem?_eq_none (by simp; omega), List.getElem?_eq_none (by simp; omega)]

-- ---------------------------------------------------------------------------------------------
-- generic machine

theorem runCalls_spec {σ ω μ α ρ : Type} (M : Machine σ ω μ α ρ) (h : M.WellBehaved) (s : σ)
    (calls : List (μ × α)) :
    (M.runCalls s calls).2 = calls.map (fun c => (M.apply s c.1 c.2).2) ∧
    M.observe (M.runCalls s calls).1 = M.observe s := by
  induction calls generalizing s with
  | nil => exact ⟨rfl, rfl⟩
  | cons c cs ih =>
    have hk := h.keeps s c.1 c.2
    obtain ⟨ih1, ih2⟩ := ih (M.apply s c.1 c.2).1
    refine ⟨?_, ?_⟩
    · simp only [Machine.runCalls, List.map_cons]
      rw [ih1]
      congr 1
      apply List.map_congr_left
      intro d _
      exact h.reads _ _ d.1 d.2 hk
    · simp only [Machine.runCalls]
      rw [ih2, hk]

-- ---------------------------------------------------------------------------------------------
-- forecaster machine

theorem predictStored_fst (core : Core) (s : FState) : (predictStored core s).1 = s := by
  unfold predictStored
  split <;> rfl

theorem setFh_ok (mode : FhMode) (s : FState) (fo fh' : Option FH.FH) (h : setFh mode s fo = .ok fh') :
    fh' = s.fh ∨ ∃ f, fo = some f ∧ fh' = some f := by
  cases mode <;> cases fo <;> simp only [setFh] at h
  · split at h
    · cases h
    · left; cases h; rfl
  · right; cases h; exact ⟨_, rfl, rfl⟩
  · split at h
    · left; cases h; rfl
    · cases h
  · split at h
    · split at h
      · left; cases h; rfl
      · cases h
    · right; cases h; exact ⟨_, rfl, rfl⟩

/-- `predict` changes at most the stored horizon, and only to the horizon it was given -/
theorem predict_fst (core : Core) (mode : FhMode) (s : FState) (a : Option FhArg) :
    ∃ fh', (predict core mode s a).1 = { s with fh := fh' } ∧
      (fh' = s.fh ∨ ∃ f, fhObjOf a = .ok (some f) ∧ fh' = some f) := by
  unfold predict
  split
  · exact ⟨s.fh, rfl, Or.inl rfl⟩
  · cases hf : fhObjOf a with
    | error e => exact ⟨s.fh, rfl, Or.inl rfl⟩
    | ok fo =>
      simp only
      cases hs : setFh mode s fo with
      | error e => exact ⟨s.fh, rfl, Or.inl rfl⟩
      | ok fh' =>
        simp only
        refine ⟨fh', predictStored_fst core _, ?_⟩
        rcases setFh_ok mode s fo fh' hs with h | ⟨f, h1, h2⟩
        · exact Or.inl h
        · right; exact ⟨f, by rw [h1], h2⟩

theorem observe_setfh (s : FState) (fh' : Option FH.FH) : observe { s with fh := fh' } = observe s := rfl

theorem predict_observe (core : Core) (mode : FhMode) (s : FState) (a : Option FhArg) :
    observe (predict core mode s a).1 = observe s := by
  obtain ⟨fh', h, _⟩ := predict_fst core mode s a
  rw [h]; rfl

/-- with an explicit horizon (optional mixin) the result is a function of the observation -/
theorem predict_snd_congr (core : Core) (s s' : FState) (a : FhArg) (h : observe s = observe s') :
    (predict core .optional s (some a)).2 = (predict core .optional s' (some a)).2 := by
  obtain ⟨fitted, y0, cutoff, fh0, wlen⟩ := s
  obtain ⟨fitted', y0', cutoff', fh0', wlen'⟩ := s'
  simp only [observe, Observation.mk.injEq] at h
  obtain ⟨h1, h2, h3, h4⟩ := h
  subst h1; subst h2; subst h3; subst h4
  unfold predict
  simp only
  split
  · rfl
  · simp only [fhObjOf]
    cases checkFhArg a with
    | error e => rfl
    | ok f => simp only [Except.map, setFh]

theorem predict_required_fst (core : Core) (s : FState) (a : Option FhArg) :
    (predict core .required s a).1 = s := by
  obtain ⟨fitted, y0, cutoff, fh0, wlen⟩ := s
  unfold predict
  split
  · rfl
  · rename_i hf
    have hfit : fitted = true := by simpa using hf
    subst hfit
    cases fhObjOf a with
    | error e => rfl
    | ok fo =>
      simp only
      cases fo with
      | none => simp only [setFh, ↓reduceIte]; exact predictStored_fst core _
      | some f =>
        simp only [setFh, ↓reduceIte]
        split
        · rfl
        · rename_i fh' heq
          split at heq
          · cases heq; exact predictStored_fst core _
          · cases heq

theorem predict_none_fst (core : Core) (mode : FhMode) (s : FState) :
    (predict core mode s none).1 = s := by
  obtain ⟨fitted, y0, cutoff, fh0, wlen⟩ := s
  unfold predict
  split
  · rfl
  · rename_i hf
    have hfit : fitted = true := by simpa using hf
    subst hfit
    cases mode with
    | optional =>
      simp only [fhObjOf, setFh, Bool.true_and]
      split
      · rfl
      · rename_i fh' heq
        split at heq
        · cases heq
        · cases heq; exact predictStored_fst core _
    | required =>
      simp only [fhObjOf, setFh, ↓reduceIte]
      exact predictStored_fst core _

theorem fcMachine_wellBehaved (core : Core) : (fcMachine core).WellBehaved where
  keeps s _ a := predict_observe core .optional s (some a)
  reads s s' _ a h := predict_snd_congr core s s' a h

theorem fcMachineReq_wellBehaved (core : Core) : (fcMachineReq core).WellBehaved where
  keeps s _ a := predict_required_fst core s a
  reads s s' _ a h := by
    have : s = s' := h
    subst this; rfl

theorem predicts_eq_runCalls (core : Core) (s : FState) (as : List FhArg) :
    predicts core .optional s (as.map some) = (fcMachine core).runCalls s (as.map (fun a => ((), a))) := by
  induction as generalizing s with
  | nil => rfl
  | cons a as ih =>
    simp only [List.map_cons, predicts, Machine.runCalls]
    rw [ih]
    rfl

theorem predicts_req_eq_runCalls (core : Core) (s : FState) (as : List (Option FhArg)) :
    predicts core .required s as = (fcMachineReq core).runCalls s (as.map (fun a => ((), a))) := by
  induction as generalizing s with
  | nil => rfl
  | cons a as ih =>
    simp only [List.map_cons, predicts, Machine.runCalls]
    rw [ih]
    rfl

theorem predicts_observe (core : Core) (mode : FhMode) (s : FState) (as : List (Option FhArg)) :
    observe (predicts core mode s as).1 = observe s := by
  induction as generalizing s with
  | nil => rfl
  | cons a as ih =>
    simp only [predicts]
    rw [ih, predict_observe]

-- ---------------------------------------------------------------------------------------------
-- update_predict: net effect

/-- `update(y, update_params=False)` on a fitted forecaster -/
theorem update_noparams (core : Core) (mode : FhMode) (s : FState) (y : Series) (hfit : s.fitted = true) :
    (update core mode s y false).2 = .done ∧
    (update core mode s y false).1.fitted = true ∧
    (update core mode s y false).1.fh = s.fh ∧
    (update core mode s y false).1.wlen = s.wlen ∧
    (update core mode s y false).1.y = Series.combineFirst y s.y := by
  cases hl : y.getLast? with
  | none =>
    have : y = [] := List.getLast?_eq_none_iff.mp hl
    subst this
    simp [update, hfit, Series.combineFirst]
  | some o => simp [update, hfit, hl]

/-- the windows fed so far are merged, nothing else but the cutoff moves -/
theorem movingGo_net (core : Core) (mode : FhMode) (y : Series) (fh : FH.FH)
    (ws : List (List Int)) (st : FState) (P : List Series) (C : List Int) (hfit : st.fitted = true) :
    (movingCutoff.go core mode y fh false ws st P C).1.fitted = true ∧
    (movingCutoff.go core mode y fh false ws st P C).1.fh = st.fh ∧
    (movingCutoff.go core mode y fh false ws st P C).1.wlen = st.wlen ∧
    (∀ r, (movingCutoff.go core mode y fh false ws st P C).2 = .ok r →
      (movingCutoff.go core mode y fh false ws st P C).1.y =
        ws.foldl (fun acc w => Series.combineFirst (Series.iloc y w) acc) st.y) := by
  induction ws generalizing st P C with
  | nil => simp [movingCutoff.go, hfit]
  | cons w rest ih =>
    obtain ⟨u1, u2, u3, u4, u5⟩ := update_noparams core mode st (Series.iloc y w) hfit
    simp only [movingCutoff.go, List.foldl_cons]
    rcases hu : update core mode st (Series.iloc y w) false with ⟨st1, o⟩
    rw [hu] at u1 u2 u3 u4 u5
    simp only at u1 u2 u3 u4 u5
    subst u1
    simp only
    cases hc : st1.cutoff with
    | none => simp [u2, u3, u4]
    | some c =>
      simp only
      cases hp : predictAt core st1 c fh with
      | error e => simp [u2, u3, u4]
      | ok p =>
        simp only
        obtain ⟨i1, i2, i3, i4⟩ := ih st1 (P ++ [p]) (C ++ [c]) u2
        refine ⟨i1, by rw [i2, u3], by rw [i3, u4], ?_⟩
        intro r hr
        rw [i4 r hr, u5]

theorem predicts_required_fst (core : Core) (s : FState) (as : List (Option FhArg)) :
    (predicts core .required s as).1 = s := by
  induction as generalizing s with
  | nil => rfl
  | cons a as ih =>
    simp only [predicts]
    rw [predict_required_fst, ih]

/-- `update_predict(y, cv, update_params=False)` that returns forecasts: the forecaster is as before
except that the windows fed were merged into the remembered series -/
theorem updatePredict_net (core : Core) (mode : FhMode) (s : FState) (y : Series) (cv : Option CvSpec)
    (hfit : s.fitted = true) (hok : ∀ e, (updatePredict core mode s y cv false).2 ≠ .err e) :
    (updatePredict core mode s y cv false).1 =
      { s with y := (upWindows s y cv).foldl (fun acc w => Series.combineFirst (Series.iloc y w) acc) s.y } := by
  obtain ⟨f0, y0, c0, h0, w0⟩ := s
  simp only at hfit
  subst hfit
  unfold updatePredict upWindows at *
  cases hcv : cvSpecOf ⟨true, y0, c0, h0, w0⟩ cv with
  | error e => rw [hcv] at hok; exact absurd rfl (hok e)
  | ok c =>
    rw [hcv] at hok
    simp only at hok ⊢
    unfold updatePredictWith at *
    cases hfh : Split.checkFh c.fh with
    | error e => rw [hfh] at hok; exact absurd rfl (hok _)
    | ok fhv =>
      rw [hfh] at hok
      simp only at hok ⊢
      cases hhd : y.head? with
      | none => rw [hhd] at hok; exact absurd rfl (hok _)
      | some o =>
        rw [hhd] at hok
        simp only at hok ⊢
        cases hws : Split.windowSplit c.kind (↑y.length) c.fh c.wl c.step c.iw c.sww with
        | error e => rw [hws] at hok; exact absurd rfl (hok _)
        | ok folds =>
          rw [hws] at hok
          simp only at hok ⊢
          unfold movingCutoff at *
          simp only [hhd, Option.map_some] at hok ⊢
          have hnet := movingGo_net core mode y ⟨fhv, true⟩ (folds.map (·.1))
            ⟨true, y0, some (o.1 - 1), h0, w0⟩ [] [] rfl
          generalize movingCutoff.go core mode y ⟨fhv, true⟩ false (folds.map (·.1))
            ⟨true, y0, some (o.1 - 1), h0, w0⟩ [] [] = G at hok hnet ⊢
          obtain ⟨sEnd, r⟩ := G
          simp only at hok hnet ⊢
          cases r with
          | error e => exact absurd rfl (hok e)
          | ok pc =>
            obtain ⟨n1, n2, n3, n4⟩ := hnet
            have n5 := n4 pc rfl
            obtain ⟨f1, y1, c1, h1, w1⟩ := sEnd
            simp only at n1 n2 n3 n5 ⊢
            subst n1; subst n2; subst n3; subst n5
            rfl

end SkVerif.L12
