/- C11 lemmas: an estimator object that is re-parameterised and fitted again behaves like a new one. -/
import SkVerif.Model.History
import SkVerif.Lemmas.NaiveTop
namespace SkVerif.Lem.History
open SkVerif SkVerif.Naive SkVerif.History

theorem plw_drift_sp (sp sp' wl : Nat) (w : List Val) (fh : List Int) :
    predictLastWindow .drift sp wl w fh = predictLastWindow .drift sp' wl w fh := by
  unfold predictLastWindow; rfl

theorem inSampleGo_drift_sp (sp sp' wl : Nat) (y : List Val) (origin : Int) (qs : List Int) (cut : Int) :
    inSampleGo .drift sp wl y origin qs cut = inSampleGo .drift sp' wl y origin qs cut := by
  induction qs generalizing cut with
  | nil => rfl
  | cons q qs ih => simp only [inSampleGo, plw_drift_sp sp sp', ih]

theorem predictInSample_drift_sp (sp sp' wl : Nat) (y : List Val) (origin : Int) (steps : List Int) :
    predictInSample .drift sp wl y origin steps = predictInSample .drift sp' wl y origin steps := by
  unfold predictInSample
  simp only [inSampleGo_drift_sp sp sp']

theorem predictOut_drift_sp (sp sp' wl : Nat) (y : List Val) (origin : Int) (steps : List Int) :
    predictOut .drift sp wl y origin steps = predictOut .drift sp' wl y origin steps := by
  unfold predictOut
  simp only [plw_drift_sp sp sp']

/-- after a successful fit the period `_predict_last_window` works with is the one just requested, or irrelevant -/
theorem refit_predict (o : NObj) (st : Strategy) (sp : Int) (wl : Option Int) (y : List Val) (origin : Int) (o' : NObj)
    (h : (o.setParams st sp wl).fit y origin = .ok o') (raw : FH.Raw) (rel : Bool) :
    o'.predict raw rel = fitPredict st sp wl y origin raw rel := by
  unfold NObj.fit NObj.setParams at h
  simp only at h
  cases hw : fitWindow st sp wl y.length with
  | error e => simp [hw] at h
  | ok w =>
    simp only [hw, Except.ok.injEq] at h
    subst h
    unfold NObj.predict fitPredict NObj.spEff
    simp only [hw, bind, Except.bind]
    by_cases h1 : sp = 1
    · subst h1; simp
    · simp only [h1, ↓reduceIte]
      cases st with
      | last => simp [h1]
      | mean => simp
      | drift =>
        simp only [predictOut_drift_sp _ sp.toNat, predictInSample_drift_sp _ sp.toNat]
      | other => simp [fitWindow, resolveWindow] at hw

end SkVerif.Lem.History

namespace SkVerif.Lem.World
open SkVerif.World

variable {S Op Out : Type}

/-- frame property: what object `i` answers, and the state it ends in, depend only on the calls made on `i` -/
theorem run_eq_runLocal (m : Machine S Op Out) (w : Nat → S) (ops : List (Nat × Op)) (i : Nat) :
    ((run m w ops).1 i, ((run m w ops).2.filter (fun r => r.1 == i)).map (·.2))
      = runLocal m (w i) ((ops.filter (fun r => r.1 == i)).map (·.2)) := by
  induction ops generalizing w with
  | nil => rfl
  | cons hd tl ih =>
    obtain ⟨j, op⟩ := hd
    simp only [run]
    by_cases h : j = i
    · subst h
      have := ih (fun k => if k = j then (m.step (w j) op).1 else w k)
      simp only [↓reduceIte] at this
      simp only [List.filter_cons, beq_self_eq_true, ↓reduceIte, List.map_cons, runLocal]
      rw [← this]
    · have := ih (fun k => if k = j then (m.step (w j) op).1 else w k)
      have hij : ¬ (i = j) := fun e => h e.symm
      simp only [hij, ↓reduceIte] at this
      have hb : (j == i) = false := by simp [h]
      simp only [List.filter_cons, hb, Bool.false_eq_true, ↓reduceIte]
      exact this

end SkVerif.Lem.World
