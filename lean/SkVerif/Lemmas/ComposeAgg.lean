/-
C09 helper lemmas: what mean / median / min / max of a list of rationals are
(the model computes them with structural folds and `sortRats`).
-/
import SkVerif.Model.Compose
import SkVerif.Lemmas.Sort
import Mathlib.Algebra.Order.Field.Rat
import Mathlib.Tactic.FieldSimp
namespace SkVerif.Compose
open SkVerif

theorem sortRats_perm (l : List Rat) : (sortRats l).Perm l := Lem.isortBy_perm _ l

theorem sortRats_sorted (l : List Rat) : (sortRats l).Pairwise (· ≤ ·) := by
  have := Lem.isortBy_pairwise (fun (a b : Rat) => decide (a ≤ b))
    (by intro a b c h1 h2; simp only [decide_eq_true_eq] at *; exact le_trans h1 h2)
    (by intro a b; simp only [Bool.or_eq_true, decide_eq_true_eq]; exact le_total a b) l
  exact this.imp (by intro a b h; simpa using h)

theorem minR_le_init (m : Rat) (l : List Rat) : minR m l ≤ m := by
  induction l generalizing m with
  | nil => exact le_refl _
  | cons x r ih =>
    simp only [minR]
    split
    · rename_i h; exact le_trans (ih x) (le_of_lt h)
    · exact ih m

theorem minR_le_mem (m : Rat) (l : List Rat) : ∀ x ∈ l, minR m l ≤ x := by
  induction l generalizing m with
  | nil => intro x hx; simp at hx
  | cons y r ih =>
    intro x hx
    simp only [minR]
    rcases List.mem_cons.mp hx with rfl | hx
    · split
      · exact minR_le_init _ _
      · rename_i h; exact le_trans (minR_le_init _ _) (not_lt.mp h)
    · exact ih _ x hx

theorem minR_mem (m : Rat) (l : List Rat) : minR m l = m ∨ minR m l ∈ l := by
  induction l generalizing m with
  | nil => left; rfl
  | cons y r ih =>
    simp only [minR]
    split
    · rcases ih y with h | h
      · right; rw [h]; exact List.mem_cons_self
      · right; exact List.mem_cons_of_mem _ h
    · rcases ih m with h | h
      · left; exact h
      · right; exact List.mem_cons_of_mem _ h

theorem maxR_ge_init (m : Rat) (l : List Rat) : m ≤ maxR m l := by
  induction l generalizing m with
  | nil => exact le_refl _
  | cons x r ih =>
    simp only [maxR]
    split
    · rename_i h; exact le_trans (le_of_lt h) (ih x)
    · exact ih m

theorem maxR_ge_mem (m : Rat) (l : List Rat) : ∀ x ∈ l, x ≤ maxR m l := by
  induction l generalizing m with
  | nil => intro x hx; simp at hx
  | cons y r ih =>
    intro x hx
    simp only [maxR]
    rcases List.mem_cons.mp hx with rfl | hx
    · split
      · exact maxR_ge_init _ _
      · rename_i h; exact le_trans (not_lt.mp h) (maxR_ge_init _ _)
    · exact ih _ x hx

theorem maxR_mem (m : Rat) (l : List Rat) : maxR m l = m ∨ maxR m l ∈ l := by
  induction l generalizing m with
  | nil => left; rfl
  | cons y r ih =>
    simp only [maxR]
    split
    · rcases ih y with h | h
      · right; rw [h]; exact List.mem_cons_self
      · right; exact List.mem_cons_of_mem _ h
    · rcases ih m with h | h
      · left; exact h
      · right; exact List.mem_cons_of_mem _ h

theorem sumR_map_mul (c : Rat) (l : List Rat) : sumR (l.map (fun v => v * c)) = sumR l * c := by
  induction l with
  | nil => simp [sumR]
  | cons x r ih => simp only [List.map_cons, sumR, ih]; exact (add_mul _ _ _).symm

end SkVerif.Compose
