/- Lemmas at the level of `fitPredict` / `runOne` / histories. -/
import SkVerif.Lemmas.OrchLog
set_option linter.unusedSectionVars false
namespace SkVerif.Orch.Lem
open SkVerif.Orch SkVerif.Orch.Spec

variable {N K W : Type} [DecidableEq N] [DecidableEq K]
variable (cfg : Cfg N K) (L : Learner W) (o : Opts) (fail : Option Nat)

@[simp] theorem save_recs (st : St N K W) : (save cfg st).recs = st.recs := by
  unfold save; split
  · split <;> rfl
  · rfl

@[simp] theorem save_strats (st : St N K W) : (save cfg st).strats = st.strats := by
  unfold save; split
  · split <;> rfl
  · rfl

@[simp] theorem finish_recs (r : Run N K W) : (finish cfg r).st.recs = r.st.recs := by
  unfold finish; split <;> simp

@[simp] theorem finish_strats (r : Run N K W) : (finish cfg r).st.strats = r.st.strats := by
  unfold finish; split <;> simp

@[simp] theorem finish_log (r : Run N K W) : (finish cfg r).log = r.log := by
  unfold finish; split <;> rfl
@[simp] theorem finish_err (r : Run N K W) : (finish cfg r).err = r.err := by
  unfold finish; split <;> rfl
@[simp] theorem finish_wrRecs (r : Run N K W) : (finish cfg r).wrRecs = r.wrRecs := by
  unfold finish; split <;> rfl
@[simp] theorem finish_wrStrats (r : Run N K W) : (finish cfg r).wrStrats = r.wrStrats := by
  unfold finish; split <;> rfl

/-- the options are accepted by `fit_predict` -/
def Valid (o : Opts) : Prop := (o.owF && !o.saveF) = false

theorem fitPredict_valid (ho : Valid o) (items : List (Item N)) (st : St N K W) :
    fitPredict cfg L o fail items st = finish cfg (runItems cfg L o fail items (Run.start st)) := by
  unfold fitPredict; unfold Valid at ho; simp [ho]

theorem fitPredict_invalid (ho : ¬ Valid o) (items : List (Item N)) (st : St N K W) :
    fitPredict cfg L o fail items st = { Run.start st with err := some .value } := by
  unfold fitPredict; unfold Valid at ho; simp at ho; simp [ho]

/-- invariants that only look at the record / strategy maps carry over from the loop to `fit_predict` -/
theorem fitPredict_maps (Q : List (K × Rec N) → List (K × SRec W) → Prop) (items : List (Item N)) (st : St N K W)
    (h0 : Q st.recs st.strats)
    (h : Q (runItems cfg L o fail items (Run.start st)).st.recs (runItems cfg L o fail items (Run.start st)).st.strats) :
    Q (fitPredict cfg L o fail items st).st.recs (fitPredict cfg L o fail items st).st.strats := by
  by_cases ho : Valid o
  · rw [fitPredict_valid cfg L o fail ho]; simpa using h
  · rw [fitPredict_invalid cfg L o fail ho]; exact h0

@[simp] theorem freshObj_recs_disk (hd : cfg.disk = true) (st : St N K W) : (freshObj cfg st).recs = st.recs := by
  simp [freshObj, hd]
@[simp] theorem freshObj_strats_disk (hd : cfg.disk = true) (st : St N K W) :
    (freshObj cfg st).strats = st.strats := by
  simp [freshObj, hd]

theorem freshObj_maps (st : St N K W) :
    ((freshObj cfg st).recs = st.recs ∧ (freshObj cfg st).strats = st.strats) ∨
    ((freshObj cfg st).recs = [] ∧ (freshObj cfg st).strats = []) := by
  unfold freshObj; split
  · exact Or.inl ⟨rfl, rfl⟩
  · exact Or.inr ⟨rfl, rfl⟩

/-! ### the "good store" invariant of resumable runs with fixed options -/

structure Good (items : List (Item N)) (st : St N K W) : Prop where
  honestR : HonestR cfg L items st
  honestS : HonestS cfg L items st
  withinR : WithinR cfg o items st
  withinS : WithinS cfg o items st

theorem good_empty (items : List (Item N)) : Good cfg L o items (St.empty : St N K W) :=
  ⟨fun _ _ _ _ h => by simp [St.empty] at h, fun _ _ _ h => by simp [St.empty] at h,
   fun _ h => by simp [St.empty, has] at h, fun _ h => by simp [St.empty, has] at h⟩

theorem good_of_maps (items : List (Item N)) (st st' : St N K W) (h : Good cfg L o items st)
    (e1 : st'.recs = st.recs) (e2 : st'.strats = st.strats) : Good cfg L o items st' :=
  ⟨by intro it hit p r hg; rw [e1] at hg; exact h.honestR it hit p r hg,
   by intro it hit sr hg; rw [e2] at hg; exact h.honestS it hit sr hg,
   by intro k hk; rw [e1] at hk; exact h.withinR k hk,
   by intro k hk; rw [e2] at hk; exact h.withinS k hk⟩

theorem good_freshObj (items : List (Item N)) (st : St N K W) (h : Good cfg L o items st) :
    Good cfg L o items (freshObj cfg st) := by
  rcases freshObj_maps cfg st with ⟨e1, e2⟩ | ⟨e1, e2⟩
  · exact good_of_maps cfg L o items st _ h e1 e2
  · exact ⟨by intro it hit p r hg; rw [e1] at hg; simp at hg,
           by intro it hit sr hg; rw [e2] at hg; simp at hg,
           by intro k hk; rw [e1] at hk; simp [has] at hk,
           by intro k hk; rw [e2] at hk; simp [has] at hk⟩

theorem good_runItems (items : List (Item N)) (hk : KeyInj cfg items) (r : Run N K W)
    (h : Good cfg L o items r.st) : Good cfg L o items (runItems cfg L o fail items r).st :=
  ⟨runItems_honestR cfg L o fail items items (fun _ h => h) hk r h.honestR,
   runItems_honestS cfg L o fail items items (fun _ h => h) hk r h.honestS,
   runItems_withinR cfg L o fail items r h.withinR,
   runItems_withinS cfg L o fail items r h.withinS⟩

theorem good_fitPredict (items : List (Item N)) (hk : KeyInj cfg items) (st : St N K W)
    (h : Good cfg L o items st) : Good cfg L o items (fitPredict cfg L o fail items st).st := by
  by_cases ho : Valid o
  · rw [fitPredict_valid cfg L o fail ho]
    have := good_runItems cfg L o fail items hk (Run.start st) h
    exact good_of_maps cfg L o items _ _ this (by simp) (by simp)
  · rw [fitPredict_invalid cfg L o fail ho]; exact h

theorem good_runOne (items : List (Item N)) (hk : KeyInj cfg items) (st : St N K W)
    (h : Good cfg L o items st) (fresh : Bool) :
    Good cfg L o items (runOne cfg L items st ⟨o, fail, fresh⟩).st := by
  unfold runOne
  cases fresh
  · exact good_fitPredict cfg L o fail items hk st h
  · exact good_fitPredict cfg L o fail items hk _ (good_freshObj cfg L o items st h)

theorem good_stateAfter (items : List (Item N)) (hk : KeyInj cfg items) (specs : List RunSpec)
    (hs : ∀ rs ∈ specs, rs.o = o) (st : St N K W) (h : Good cfg L o items st) :
    Good cfg L o items (stateAfter cfg L items st specs) := by
  induction specs generalizing st with
  | nil => exact h
  | cons a t ih =>
    unfold stateAfter
    rw [List.foldl_cons]
    apply ih (fun rs hrs => hs rs (List.mem_cons_of_mem _ hrs))
    obtain ⟨ao, af, afr⟩ := a
    have : ao = o := hs ⟨ao, af, afr⟩ List.mem_cons_self
    subst this
    exact good_runOne cfg L ao af items hk st h afr

/-! ### honesty alone survives any options -/

theorem honest_fitPredict (items : List (Item N)) (hk : KeyInj cfg items) (st : St N K W)
    (h : HonestR cfg L items st ∧ HonestS cfg L items st) :
    HonestR cfg L items (fitPredict cfg L o fail items st).st ∧
    HonestS cfg L items (fitPredict cfg L o fail items st).st := by
  apply fitPredict_maps cfg L o fail
    (fun recs strats => (∀ it ∈ items, ∀ p r, get? (rk cfg it p) recs = some r →
        r.c = honest L it p ∧ r.s = it.s ∧ r.d = it.d) ∧
      (∀ it ∈ items, ∀ sr, get? (sk cfg it) strats = some sr → sr.w = honestFit L it)) items st h
  exact ⟨runItems_honestR cfg L o fail items items (fun _ h => h) hk _ h.1,
         runItems_honestS cfg L o fail items items (fun _ h => h) hk _ h.2⟩

theorem honest_freshObj (items : List (Item N)) (st : St N K W)
    (h : HonestR cfg L items st ∧ HonestS cfg L items st) :
    HonestR cfg L items (freshObj cfg st) ∧ HonestS cfg L items (freshObj cfg st) := by
  rcases freshObj_maps cfg st with ⟨e1, e2⟩ | ⟨e1, e2⟩
  · exact ⟨by intro it hit p r hg; rw [e1] at hg; exact h.1 it hit p r hg,
           by intro it hit sr hg; rw [e2] at hg; exact h.2 it hit sr hg⟩
  · exact ⟨by intro it hit p r hg; rw [e1] at hg; simp at hg,
           by intro it hit sr hg; rw [e2] at hg; simp at hg⟩

theorem honest_runHistory (items : List (Item N)) (hk : KeyInj cfg items) (specs : List RunSpec)
    (st : St N K W) (h : HonestR cfg L items st ∧ HonestS cfg L items st) :
    ∀ r ∈ runHistory cfg L items st specs, HonestR cfg L items r.st ∧ HonestS cfg L items r.st := by
  induction specs generalizing st with
  | nil => intro r hr; cases hr
  | cons a t ih =>
    intro r hr
    unfold runHistory at hr
    have h1 : HonestR cfg L items (runOne cfg L items st a).st ∧ HonestS cfg L items (runOne cfg L items st a).st := by
      unfold runOne
      split
      · exact honest_fitPredict cfg L a.o a.fail items hk _ (honest_freshObj cfg L items st h)
      · exact honest_fitPredict cfg L a.o a.fail items hk _ h
    rcases List.mem_cons.1 hr with e | hr
    · rw [e]; exact h1
    · exact ih _ h1 r hr

/-! ### the registry and the master file only name items of the work list -/

def RegWithin (items : List (Item N)) (st : St N K W) : Prop :=
  (∀ x ∈ st.regS, ∃ it ∈ items, x = it.s) ∧ (∀ x ∈ st.regD, ∃ it ∈ items, x = it.d) ∧
  (∀ ms md, st.master = some (ms, md) →
    (∀ x ∈ ms, ∃ it ∈ items, x = it.s) ∧ (∀ x ∈ md, ∃ it ∈ items, x = it.d))

theorem regWithin_register (items : List (Item N)) (a : Item N) (ha : a ∈ items) (st : St N K W)
    (h : RegWithin items st) (st' : St N K W) (e1 : st'.regS = addNew a.s st.regS)
    (e2 : st'.regD = addNew a.d st.regD) (e3 : st'.master = st.master) : RegWithin items st' := by
  refine ⟨?_, ?_, ?_⟩
  · intro x hx; rw [e1, mem_addNew] at hx
    rcases hx with rfl | hx
    · exact ⟨a, ha, rfl⟩
    · exact h.1 x hx
  · intro x hx; rw [e2, mem_addNew] at hx
    rcases hx with rfl | hx
    · exact ⟨a, ha, rfl⟩
    · exact h.2.1 x hx
  · intro ms md hm; rw [e3] at hm; exact h.2.2 ms md hm

theorem regWithin_runItems (items : List (Item N)) (r : Run N K W) (h : RegWithin items r.st) :
    RegWithin items (runItems cfg L o fail items r).st := by
  apply runItems_st cfg L o fail (RegWithin items) items _ _ _ r h
  · intro a ha st hst; exact regWithin_register items a ha st hst _ rfl rfl rfl
  · intro a ha _ _ st hst; exact regWithin_register items a ha st hst _ rfl rfl rfl
  · intro a ha p _ st hst; exact regWithin_register items a ha st hst _ rfl rfl rfl

theorem regWithin_save (items : List (Item N)) (st : St N K W) (h : RegWithin items st) :
    RegWithin items (save cfg st) := by
  unfold save
  split
  · cases hm : st.master with
    | none =>
      refine ⟨h.1, h.2.1, ?_⟩
      intro ms md e
      simp only [Option.some.injEq, Prod.mk.injEq] at e
      obtain ⟨rfl, rfl⟩ := e
      exact ⟨h.1, h.2.1⟩
    | some m =>
      obtain ⟨ms, md⟩ := m
      have hm' := h.2.2 ms md hm
      have hS : ∀ x ∈ dedup (st.regS ++ ms), ∃ it ∈ items, x = it.s := by
        intro x hx
        rcases List.mem_append.1 ((mem_dedup _ _).1 hx) with hx | hx
        · exact h.1 x hx
        · exact hm'.1 x hx
      have hD : ∀ x ∈ dedup (st.regD ++ md), ∃ it ∈ items, x = it.d := by
        intro x hx
        rcases List.mem_append.1 ((mem_dedup _ _).1 hx) with hx | hx
        · exact h.2.1 x hx
        · exact hm'.2 x hx
      refine ⟨hS, hD, ?_⟩
      intro ms' md' e
      simp only [Option.some.injEq, Prod.mk.injEq] at e
      obtain ⟨rfl, rfl⟩ := e
      exact ⟨hS, hD⟩
  · exact h

theorem regWithin_fitPredict (items : List (Item N)) (st : St N K W) (h : RegWithin items st) :
    RegWithin items (fitPredict cfg L o fail items st).st := by
  by_cases ho : Valid o
  · rw [fitPredict_valid cfg L o fail ho]
    have h1 := regWithin_runItems cfg L o fail items (Run.start st) h
    unfold finish
    split
    · exact h1
    · exact regWithin_save cfg items _ h1
  · rw [fitPredict_invalid cfg L o fail ho]; exact h

theorem regWithin_freshObj (items : List (Item N)) (st : St N K W) (h : RegWithin items st) :
    RegWithin items (freshObj cfg st) := by
  unfold freshObj
  split
  · exact ⟨fun x hx => by simp at hx, fun x hx => by simp at hx, h.2.2⟩
  · exact ⟨fun x hx => by simp [St.empty] at hx, fun x hx => by simp [St.empty] at hx,
           fun ms md e => by simp [St.empty] at e⟩

theorem regWithin_stateAfter (items : List (Item N)) (specs : List RunSpec) (st : St N K W)
    (h : RegWithin items st) : RegWithin items (stateAfter cfg L items st specs) := by
  induction specs generalizing st with
  | nil => exact h
  | cons a t ih =>
    unfold stateAfter
    rw [List.foldl_cons]
    apply ih
    unfold runOne
    split
    · exact regWithin_fitPredict cfg L a.o a.fail items _ (regWithin_freshObj cfg items st h)
    · exact regWithin_fitPredict cfg L a.o a.fail items _ h

end SkVerif.Orch.Lem
