/- Scaled errors are invariant to rescaling all series by a positive constant (while the naive error is not clamped). -/
import SkVerif.Lemmas.MetricsLaws
namespace SkVerif.Lem.Metrics
open SkVerif SkVerif.Metrics

/-- multiply every entry of a matrix by `c` -/
def scaleMat (c : Rat) (m : Mat) : Mat := m.map (fun col => col.map (c * ·))
/-- multiply every radicand of a result by `s` -/
def Out.scale (s : Rat) : Out → Out
  | .raw k qs => .raw k (qs.map (s * ·))
  | .avg k ws qs => .avg k ws (qs.map (s * ·))

theorem nrows_scaleMat (c : Rat) (m : Mat) : nrows (scaleMat c m) = nrows m := by
  cases m with
  | nil => rfl
  | cons a l => simp [scaleMat, nrows]

theorem length_scaleMat (c : Rat) (m : Mat) : (scaleMat c m).length = m.length := by simp [scaleMat]

theorem checkRegTargets_scale (c : Rat) (yt yp : Mat) (mo : MO) :
    checkRegTargets (scaleMat c yt) (scaleMat c yp) mo = checkRegTargets yt yp mo := by
  unfold checkRegTargets
  simp only [nrows_scaleMat, length_scaleMat]

theorem zipWith_scaleMat {f : Col → Col → Rat} (c s : Rat)
    (hf : ∀ t p, f (t.map (c * ·)) (p.map (c * ·)) = s * f t p) (yt yp : Mat) :
    List.zipWith f (scaleMat c yt) (scaleMat c yp) = (List.zipWith f yt yp).map (s * ·) := by
  unfold scaleMat
  rw [List.zipWith_map, List.map_zipWith]
  congr 1
  funext t p
  exact hf t p

theorem absErrs_scale (c : Rat) (hc : 0 < c) (t p : Col) :
    absErrs (t.map (c * ·)) (p.map (c * ·)) = (absErrs t p).map (c * ·) := by
  unfold absErrs
  rw [List.zipWith_map, List.map_zipWith]
  congr 1
  funext a b
  rw [← absR_mul_of_pos c _ hc]; congr 1; ring

theorem sqErrs_scale (c : Rat) (t p : Col) :
    sqErrs (t.map (c * ·)) (p.map (c * ·)) = (sqErrs t p).map (c * c * ·) := by
  unfold sqErrs
  rw [List.zipWith_map, List.map_zipWith]
  congr 1
  funext a b
  unfold sqr; ring

theorem sqErrs'_scale (c : Rat) (t p : Col) :
    sqErrs' (t.map (c * ·)) (p.map (c * ·)) = (sqErrs' t p).map (c * c * ·) := by
  unfold sqErrs'
  rw [List.zipWith_map, List.map_zipWith]
  congr 1
  funext a b
  unfold sqr; ring

theorem finish_scale (s : Rat) (k : Nat) (mo : MO) (qs : List Rat) :
    finish k mo (qs.map (s * ·)) = (finish k mo qs).map (Out.scale s) := by
  unfold finish
  cases mo with
  | raw => rfl
  | uniform => rfl
  | weights w => simp only; split <;> rfl
  | bad => rfl

theorem Except.map_bindU {α β} (f : α → β) (x : Except Err Unit) (y : Except Err α) :
    (x >>= fun _ => y.map f) = (x >>= fun _ => y).map f := by
  cases x <;> rfl

theorem mae_scale (c : Rat) (hc : 0 < c) (yt yp : Mat) (hw : Option (List Rat)) (mo : MO) :
    meanAbsoluteError (scaleMat c yt) (scaleMat c yp) hw mo = (meanAbsoluteError yt yp hw mo).map (Out.scale c) := by
  unfold meanAbsoluteError
  rw [checkRegTargets_scale, nrows_scaleMat,
    zipWith_scaleMat c c (fun t p => by rw [absErrs_scale c hc, npAverage_scale]), finish_scale]
  simp only [Except.map_bindU]

theorem mdae_scale (c : Rat) (hc : 0 < c) (yt yp : Mat) (hw : Option (List Rat)) (mo : MO) :
    medianAbsoluteError (scaleMat c yt) (scaleMat c yp) hw mo =
      (medianAbsoluteError yt yp hw mo).map (Out.scale c) := by
  unfold medianAbsoluteError
  rw [checkRegTargets_scale, nrows_scaleMat,
    zipWith_scaleMat c c (fun t p => by rw [absErrs_scale c hc, medianW_scale c hc]), finish_scale]
  simp only [Except.map_bindU]

theorem mse_scale (c : Rat) (yt yp : Mat) (hw : Option (List Rat)) (mo : MO) (sqrt : Bool) :
    meanSquaredError (scaleMat c yt) (scaleMat c yp) hw mo sqrt =
      (meanSquaredError yt yp hw mo sqrt).map (Out.scale (c * c)) := by
  unfold meanSquaredError
  rw [checkRegTargets_scale, nrows_scaleMat,
    zipWith_scaleMat c (c * c) (fun t p => by rw [sqErrs_scale c, npAverage_scale]), finish_scale]
  simp only [Except.map_bindU]

theorem mdse_scale (c : Rat) (hc : 0 < c) (yt yp : Mat) (hw : Option (List Rat)) (mo : MO) (sqrt : Bool) :
    medianSquaredError (scaleMat c yt) (scaleMat c yp) hw mo sqrt =
      (medianSquaredError yt yp hw mo sqrt).map (Out.scale (c * c)) := by
  unfold medianSquaredError
  rw [checkRegTargets_scale, nrows_scaleMat,
    zipWith_scaleMat c (c * c) (fun t p => by rw [sqErrs'_scale c, medianW_scale (c * c) (mul_pos hc hc)]),
    finish_scale]
  simp only [Except.map_bindU]

theorem perCol_scale (s : Rat) (o : Out) : (Out.scale s o).perCol = o.perCol.map (s * ·) := by
  cases o with
  | raw k qs => rfl
  | avg k ws qs => simp [Out.scale, Out.perCol, npAverage_scale]

theorem zipWith_ratio_scale (eps s : Rat) (hs : 0 < s) :
    ∀ (as bs : List Rat), (∀ d ∈ bs, eps ≤ d ∧ eps ≤ s * d) →
      List.zipWith (fun a b => a / maxR b eps) (as.map (s * ·)) (bs.map (s * ·)) =
      List.zipWith (fun a b => a / maxR b eps) as bs := by
  intro as
  induction as with
  | nil => intro bs _; simp
  | cons a as ih =>
    intro bs hb
    cases bs with
    | nil => simp
    | cons b bs =>
      have h1 := hb b (by simp)
      simp only [List.map_cons, List.zipWith_cons_cons]
      rw [ih bs (fun d hd => hb d (by simp [hd])), maxR_of_le h1.1, maxR_of_le h1.2]
      have : s ≠ 0 := ne_of_gt hs
      congr 1
      by_cases hb0 : b = 0
      · subst hb0; simp
      · field_simp

theorem ratioVals_scale (eps s : Rat) (hs : 0 < s) (num den : Out)
    (hg : ∀ d ∈ den.perCol, eps ≤ d ∧ eps ≤ s * d) :
    ratioVals eps (Out.scale s num) (Out.scale s den) = ratioVals eps num den := by
  unfold ratioVals
  rw [perCol_scale, perCol_scale, zipWith_ratio_scale eps s hs _ _ hg]

theorem ratioOut_scale (eps s : Rat) (hs : 0 < s) (k : Nat) (num den : Out)
    (hg : ∀ d ∈ den.perCol, eps ≤ d ∧ eps ≤ s * d) :
    ratioOut eps k (Out.scale s num) (Out.scale s den) = ratioOut eps k num den := by
  have := ratioVals_scale eps s hs num den hg
  cases num with
  | raw k' q => simp only [ratioOut, Out.scale] at *; rw [this]
  | avg k' ws q => simp only [ratioOut, Out.scale] at *; rw [this]

theorem map_naiveTrue_scale (c : Rat) (sp : Int) (m : Mat) :
    (scaleMat c m).map (naiveTrue sp) = scaleMat c (m.map (naiveTrue sp)) := by
  unfold scaleMat
  simp only [List.map_map]
  congr 1
  funext col
  simp [naiveTrue, sliceFrom, List.map_drop]

theorem map_naivePred_scale (c : Rat) (sp : Int) (m : Mat) :
    (scaleMat c m).map (naivePred sp) = scaleMat c (m.map (naivePred sp)) := by
  unfold scaleMat
  simp only [List.map_map]
  congr 1
  funext col
  simp [naivePred, sliceTo, List.map_take]

theorem scaledPrologue_scale (c : Rat) (yt yp tr : Mat) (ix : Option (Int × Int)) (hw : Option (List Rat))
    (mo : MO) (m : Mat) (h : scaledPrologue yt yp (.arr tr) ix hw mo = .ok m) :
    scaledPrologue (scaleMat c yt) (scaleMat c yp) (.arr (scaleMat c tr)) ix hw mo = .ok (scaleMat c m) := by
  obtain ⟨h0, h1, h2, h3, rfl⟩ := scaledPrologue_arr_iff.mp h
  refine scaledPrologue_arr_iff.mpr ⟨h0, ?_, ?_, ?_, rfl⟩
  · rw [checkRegTargets_scale]; exact h1
  · rw [nrows_scaleMat]; exact h2
  · rw [length_scaleMat, length_scaleMat]; exact h3

/-- Scale invariance of a scaled error whose inner metric is homogeneous of "degree" `s` (`s = c` for absolute,
`c²` for squared errors), as long as the naive error is at least `eps` before and after rescaling. -/
theorem scaled_scale_invariant {eps : Rat} {inner : Mat → Mat → Option (List Rat) → MO → Except Err Out}
    (c s : Rat) (hs : 0 < s)
    (hinner : ∀ a b h m, inner (scaleMat c a) (scaleMat c b) h m = (inner a b h m).map (Out.scale s))
    {sqrt : Bool} {yt yp tr : Mat} {ix : Option (Int × Int)} {sp : Int} {hw : Option (List Rat)} {mo : MO} {out : Out}
    (h : scaled eps inner sqrt yt yp (.arr tr) ix sp hw mo = .ok out)
    (hguard : ∀ naive, inner (tr.map (naiveTrue sp)) (tr.map (naivePred sp)) none mo = .ok naive →
      ∀ d ∈ naive.perCol, eps ≤ d ∧ eps ≤ s * d) :
    scaled eps inner sqrt (scaleMat c yt) (scaleMat c yp) (.arr (scaleMat c tr)) ix sp hw mo = .ok out := by
  obtain ⟨m, naive, pred, h1, h2, h3, rfl⟩ := scaled_iff.mp h
  have hm : m = tr := (scaledPrologue_arr_iff.mp h1).2.2.2.2
  subst hm
  refine scaled_iff.mpr ⟨scaleMat c m, Out.scale s naive, Out.scale s pred, scaledPrologue_scale c _ _ _ _ _ _ _ h1, ?_, ?_, ?_⟩
  · rw [map_naiveTrue_scale, map_naivePred_scale, hinner, h2]; rfl
  · rw [hinner, h3]; rfl
  · exact (ratioOut_scale eps s hs _ pred naive (hguard naive h2)).symm

end SkVerif.Lem.Metrics
