/- Helper lemmas for C11: polynomial features, least squares for a straight line, statsmodels adapter selection. -/
import SkVerif.Model.Trend
import SkVerif.Spec.Naive
import SkVerif.Lemmas.Naive
import SkVerif.Lemmas.Range
import SkVerif.Lemmas.FH
import Mathlib.Tactic.Ring
import Mathlib.Tactic.Linarith
import Mathlib.Tactic.FieldSimp
import Mathlib.Tactic.Positivity
import Mathlib.Algebra.Order.Field.Rat
namespace SkVerif.Lem.Trend
open SkVerif SkVerif.Naive SkVerif.Trend SkVerif.Lem.Naive
open SkVerif.Spec.Naive (total sse NormalEqs powers)

/-! ### PolynomialFeatures -/
theorem powersFrom_eq (x : Int) (k : Nat) (cur : Int) :
    powersFrom x k cur = (List.range k).map (fun j => cur * x ^ j) := by
  induction k generalizing cur with
  | zero => rfl
  | succ k ih =>
    rw [powersFrom, ih, List.range_succ_eq_map, List.map_cons, List.map_map]
    simp only [pow_zero, mul_one, List.cons.injEq, true_and]
    apply List.map_congr_left
    intro j _
    simp only [Function.comp, pow_succ]; ring

theorem polyRow_eq (degree : Nat) (bias : Bool) (x : Int) :
    polyRow degree bias x = powers (if bias then 0 else 1) degree x := by
  unfold polyRow powers
  rw [powersFrom_eq]
  cases bias
  · simp only [Bool.false_eq_true, ↓reduceIte, List.nil_append, Nat.add_sub_cancel]
    apply List.map_congr_left
    intro j _; rw [pow_add, pow_one]
  · simp only [↓reduceIte, Nat.sub_zero, Nat.zero_add]
    rw [List.range_succ_eq_map, List.map_cons, List.map_map]
    simp only [pow_zero, List.singleton_append, List.cons.injEq, true_and]
    apply List.map_congr_left
    intro j _
    simp only [Function.comp, pow_succ]; ring

/-! ### sums -/
theorem total_map_add {α} (l : List α) (f g : α → Rat) :
    total (l.map (fun p => f p + g p)) = total (l.map f) + total (l.map g) := by
  induction l with
  | nil => simp [total]
  | cons a l ih => simp only [List.map_cons, total, ih]; ring

theorem total_map_mul {α} (l : List α) (c : Rat) (f : α → Rat) :
    total (l.map (fun p => c * f p)) = c * total (l.map f) := by
  induction l with
  | nil => simp [total]
  | cons a l ih => simp only [List.map_cons, total, ih]; ring

theorem total_sq_nonneg {α} (l : List α) (f : α → Rat) : 0 ≤ total (l.map (fun p => f p * f p)) := by
  induction l with
  | nil => simp [total]
  | cons a l ih =>
    simp only [List.map_cons, total]
    have := mul_self_nonneg (f a)
    linarith

/-- residual decomposition around `(a, b)` -/
theorem sse_decomp (pts : List (Rat × Rat)) (a b a' b' : Rat) :
    sse pts a' b' = sse pts a b
      + 2 * ((a - a') * total (pts.map (fun p => p.2 - (a + b * p.1)))
             + (b - b') * total (pts.map (fun p => p.1 * (p.2 - (a + b * p.1)))))
      + total (pts.map (fun p => ((a - a') + (b - b') * p.1) * ((a - a') + (b - b') * p.1))) := by
  unfold sse
  induction pts with
  | nil => simp [total]
  | cons p l ih => simp only [List.map_cons, total, ih]; ring

/-- whoever satisfies the normal equations minimises the sum of squared residuals -/
theorem sse_min_of_normal (pts : List (Rat × Rat)) (a b : Rat) (h : NormalEqs pts a b) (a' b' : Rat) :
    sse pts a b ≤ sse pts a' b' := by
  rw [sse_decomp pts a b a' b', h.1, h.2]
  have := total_sq_nonneg pts (fun p => (a - a') + (b - b') * p.1)
  linarith

theorem total_append (l₁ l₂ : List Rat) : total (l₁ ++ l₂) = total l₁ + total l₂ := by
  induction l₁ with
  | nil => simp [total]
  | cons a l ih => simp only [List.cons_append, total, ih]; ring

theorem sum_range_id (n : Nat) : total ((List.range n).map (fun (i : Nat) => ((i : Int) : Rat))) = (n : Rat) * ((n : Rat) - 1) / 2 := by
  induction n with
  | zero => simp [total]
  | succ n ih =>
    rw [List.range_succ, List.map_append, total_append, ih]
    simp only [List.map_cons, List.map_nil, total]
    push_cast; ring

theorem sum_range_sq (n : Nat) :
    total ((List.range n).map (fun (i : Nat) => ((i : Int) : Rat) * ((i : Int) : Rat))) = ((n : Rat) - 1) * (n : Rat) * (2 * (n : Rat) - 1) / 6 := by
  induction n with
  | zero => simp [total]
  | succ n ih =>
    rw [List.range_succ, List.map_append, total_append, ih]
    simp only [List.map_cons, List.map_nil, total]
    push_cast; ring

theorem points_length (y : List Rat) : (points y).length = y.length := by
  simp [points]

theorem points_map_fst (y : List Rat) (f : Rat → Rat) :
    (points y).map (fun p => f p.1) = (List.range y.length).map (fun (i : Nat) => f ((i : Int) : Rat)) := by
  unfold points
  rw [List.map_map]
  have : ((fun p : Rat × Rat => f p.1) ∘ fun (p : Nat × Rat) => ((((p.1 : Int) : Rat)), p.2))
      = (fun i : Nat => f ((i : Int) : Rat)) ∘ Prod.fst := rfl
  rw [this, ← List.map_map, List.map_fst_zip]
  simp

/-- residual sums in terms of the five moments -/
theorem resid_sum (pts : List (Rat × Rat)) (a b : Rat) :
    total (pts.map (fun p => p.2 - (a + b * p.1)))
      = total (pts.map (·.2)) - a * (pts.length : Rat) - b * total (pts.map (·.1)) := by
  induction pts with
  | nil => simp [total]
  | cons p l ih => simp only [List.map_cons, total, ih, List.length_cons]; push_cast; ring

theorem resid_tsum (pts : List (Rat × Rat)) (a b : Rat) :
    total (pts.map (fun p => p.1 * (p.2 - (a + b * p.1))))
      = total (pts.map (fun p => p.1 * p.2)) - a * total (pts.map (·.1)) - b * total (pts.map (fun p => p.1 * p.1)) := by
  induction pts with
  | nil => simp [total]
  | cons p l ih => simp only [List.map_cons, total, ih]; ring

theorem det_pos (y : List Rat) (hn : 2 ≤ y.length) :
    0 < (y.length : Rat) * total ((points y).map (fun p => p.1 * p.1)) - total ((points y).map (·.1)) * total ((points y).map (·.1)) := by
  have h1 := points_map_fst y (fun t => t)
  have h2 := points_map_fst y (fun t => t * t)
  rw [h1, h2, sum_range_id, sum_range_sq]
  have hn' : (2 : Rat) ≤ (y.length : Rat) := by exact_mod_cast hn
  have e : (y.length : Rat) * (((y.length : Rat) - 1) * (y.length : Rat) * (2 * (y.length : Rat) - 1) / 6)
      - (y.length : Rat) * ((y.length : Rat) - 1) / 2 * ((y.length : Rat) * ((y.length : Rat) - 1) / 2)
      = (y.length : Rat) * (y.length : Rat) * ((y.length : Rat) - 1) * ((y.length : Rat) + 1) / 12 := by ring
  rw [e]
  have : 0 < (y.length : Rat) - 1 := by linarith
  positivity

theorem sumR_eq (l : List Rat) : sumR l = total l := (total_eq l).symm

/-- straight line with intercept: the closed form solves the normal equations (n ≥ 2) -/
theorem olsCoef_deg1_normal (y : List Rat) (hn : 2 ≤ y.length) :
    NormalEqs (points y) (olsCoef 1 true y).1 (olsCoef 1 true y).2 := by
  have hdet := det_pos y hn
  have hN : ((y.length : Int) : Rat) = (y.length : Rat) := by push_cast; rfl
  have hNpos : (0 : Rat) < (y.length : Rat) := by
    have : (2 : Rat) ≤ (y.length : Rat) := by exact_mod_cast hn
    linarith
  unfold NormalEqs
  rw [resid_sum, resid_tsum, points_length]
  simp only [olsCoef, sumR_eq, hN, one_ne_zero, ↓reduceIte]
  set St := total ((points y).map (·.1)) with hSt
  set Sy := total ((points y).map (·.2)) with hSy
  set Stt := total ((points y).map (fun p => p.1 * p.1)) with hStt
  set Sty := total ((points y).map (fun p => p.1 * p.2)) with hSty
  have hd : (y.length : Rat) * Stt - St * St ≠ 0 := ne_of_gt hdet
  simp only [hd, ↓reduceIte]
  have hN0 : (y.length : Rat) ≠ 0 := ne_of_gt hNpos
  set b := ((y.length : Rat) * Sty - St * Sy) / ((y.length : Rat) * Stt - St * St) with hb_def
  have hb : b * ((y.length : Rat) * Stt - St * St) = (y.length : Rat) * Sty - St * Sy := by
    rw [hb_def, div_mul_cancel₀ _ hd]
  constructor
  · field_simp; ring
  · have e : Sty - (Sy - b * St) / (y.length : Rat) * St - b * Stt
        = ((y.length : Rat) * Sty - St * Sy - b * ((y.length : Rat) * Stt - St * St)) / (y.length : Rat) := by
      field_simp; ring
    rw [e, hb]; simp

/-! ### horizon handling and the adapter -/
/-- the time points and labels `_predict` uses, for relative sorted steps -/
theorem predTimes_rel (n : Nat) (hn : 1 ≤ n) (origin : Int) (fh : List Int) (hs : fh.Pairwise (· < ·)) (hne : fh ≠ []) :
    predTimes n origin (.ints fh) true
      = .ok (fh.map (fun h => (n : Int) - 1 + h), fh.map (fun h => origin + (n : Int) - 1 + h)) := by
  have hnd : fh.Nodup := Lem.nodup_of_strictSorted hs
  have hsort : sortInts fh = fh := Lem.sortInts_of_sorted fh (hs.imp (by intro a b h; omega))
  have hlen : ¬ (fh.length = 0) := by
    intro h; exact hne (List.length_eq_zero_iff.mp h)
  have hn0 : ¬ (n = 0) := by omega
  unfold predTimes
  simp only [hn0, FH.mk, FH.checkValues, hnd, hsort, FH.checkFh, FH.toAbsoluteInt, FH.toAbsolute, liftFH, Except.map, bind,
    Except.bind, pure, Except.pure, Bool.not_true, Bool.false_eq_true, ↓reduceIte, hlen, Bool.and_false, List.map_map]
  congr 2
  apply List.map_congr_left
  intro a _
  simp only [Function.comp]; omega

theorem find?_unique {α} (l : List α) (p : α → Bool) (x : α) (hx : x ∈ l) (hp : p x = true)
    (hu : ∀ z ∈ l, p z = true → z = x) : l.find? p = some x := by
  induction l with
  | nil => cases hx
  | cons a l ih =>
    by_cases ha : p a = true
    · have := hu a (by simp) ha
      subst this
      simp [List.find?, ha]
    · have hxl : x ∈ l := by
        rcases List.mem_cons.mp hx with rfl | h
        · exact absurd hp ha
        · exact h
      simp only [List.find?, ha]
      exact ih hxl (fun z hz => hu z (by simp [hz]))

theorem head_le_of_sorted (l : List Int) (hs : l.Pairwise (· < ·)) (h : Int) (hh : h ∈ l) : l.headD 0 ≤ h := by
  cases l with
  | nil => cases hh
  | cons a t =>
    rcases List.mem_cons.mp hh with rfl | hm
    · simp
    · have := (List.pairwise_cons.mp hs).1 h hm
      simp; omega

/-- the adapter returns, for every requested step, the wrapped model's prediction for that time point -/
theorem adapterPredict_rel (sm : Int → Val) (n : Nat) (hn : 1 ≤ n) (origin : Int) (fh : List Int)
    (hs : fh.Pairwise (· < ·)) (hne : fh ≠ []) :
    adapterPredict sm n origin (.ints fh) true
      = .ok (fh.map (fun h => (origin + (n : Int) - 1 + h, sm ((n : Int) - 1 + h)))) := by
  unfold adapterPredict
  simp only [predTimes_rel n hn origin fh hs hne, bind, Except.bind]
  unfold locLabels
  rw [mapE_map]
  apply mapE_ok
  intro h hh
  have hs' : (fh.map (fun h => (n : Int) - 1 + h)).Pairwise (· < ·) := by
    rw [List.pairwise_map]; exact hs.imp (by intro a b h; omega)
  have hmem : (n : Int) - 1 + h ∈ fh.map (fun h => (n : Int) - 1 + h) := List.mem_map.mpr ⟨h, hh, rfl⟩
  have h1 := head_le_of_sorted _ hs' _ hmem
  have h2 := le_getLast _ hs' _ hmem
  rw [find?_unique _ _ (origin + (n : Int) - 1 + h, sm ((n : Int) - 1 + h))]
  · apply List.mem_map.mpr
    refine ⟨(n : Int) - 1 + h, ?_, ?_⟩
    · rw [Lem.arange_mem]; omega
    · congr 1; omega
  · simp
  · intro z hz hp
    obtain ⟨i, _, rfl⟩ := List.mem_map.mp hz
    simp at hp
    have : i = (n : Int) - 1 + h := by omega
    subst this
    congr 1

/-! ### the forecaster end to end -/
theorem trend_fitPredict_rel (deg : Nat) (bias : Bool) (hv : ¬ (deg = 0 ∧ bias = false)) (ys : List Rat)
    (hn : 1 ≤ ys.length) (origin : Int) (fh : List Int) (hs : fh.Pairwise (· < ·)) (hne : fh ≠ []) :
    Trend.fitPredict deg bias (ys.map some) origin (.ints fh) true
      = .ok (fh.map (fun h => (origin + (ys.length : Int) - 1 + h,
          some ((olsCoef deg bias ys).1 + (olsCoef deg bias ys).2 * ((((ys.length : Int) - 1 + h : Int)) : Rat))))) := by
  have hlen0 : ¬ (ys.length = 0) := by omega
  have hany : (ys.map some).any (·.isNone) = false := by simp
  have hfm : (ys.map some).filterMap id = ys := by simp
  have hcp : checkPoly deg bias = .ok () := by
    unfold checkPoly
    have : ¬ (deg = 0 ∧ (!bias) = true) := by
      intro h; apply hv; cases bias <;> simp_all
    rw [if_neg this]
  unfold Trend.fitPredict
  simp only [hlen0, hany, hfm, hcp, List.length_map, predTimes_rel ys.length hn origin fh hs hne, bind, Except.bind, pure,
    Except.pure, ↓reduceIte, Bool.false_eq_true]
  rw [List.map_map, List.zip_map']
  rfl

theorem designs_rel (deg : Nat) (bias : Bool) (hv : ¬ (deg = 0 ∧ bias = false)) (n : Nat) (hn : 1 ≤ n) (origin : Int)
    (fh : List Int) (hs : fh.Pairwise (· < ·)) (hne : fh ≠ []) :
    designs deg bias n origin (.ints fh) true
      = .ok ((List.range n).map (fun (i : Nat) => powers (if bias then 0 else 1) deg (i : Int)),
             fh.map (fun h => powers (if bias then 0 else 1) deg ((n : Int) - 1 + h)),
             fh.map (fun h => origin + (n : Int) - 1 + h)) := by
  have hn0 : ¬ (n = 0) := by omega
  have hcp : checkPoly deg bias = .ok () := by
    unfold checkPoly
    have : ¬ (deg = 0 ∧ (!bias) = true) := by
      intro h; apply hv; cases bias <;> simp_all
    rw [if_neg this]
  unfold designs
  simp only [hn0, hcp, predTimes_rel n hn origin fh hs hne, bind, Except.bind, pure, Except.pure, ↓reduceIte,
    List.map_map]
  congr 2
  · apply List.map_congr_left; intro i _; exact polyRow_eq deg bias i
  · congr 1
    apply List.map_congr_left; intro h _; exact polyRow_eq deg bias _

/-- degree 0: the fitted constant is the mean and minimises the squared error among constants -/
theorem olsCoef_deg0 (y : List Rat) (hn : 1 ≤ y.length) :
    (olsCoef 0 true y).2 = 0 ∧ ∀ a' : Rat, sse (points y) (olsCoef 0 true y).1 0 ≤ sse (points y) a' 0 := by
  have hN : ((y.length : Int) : Rat) = (y.length : Rat) := by push_cast; rfl
  have hNpos : (0 : Rat) < (y.length : Rat) := by exact_mod_cast hn
  have hN0 : (y.length : Rat) ≠ 0 := ne_of_gt hNpos
  refine ⟨by simp [olsCoef], ?_⟩
  intro a'
  rw [sse_decomp (points y) (olsCoef 0 true y).1 0 a' 0, resid_sum, points_length]
  have hz : total ((points y).map (·.2)) - (olsCoef 0 true y).1 * (y.length : Rat) - 0 * total ((points y).map (·.1)) = 0 := by
    simp only [olsCoef, sumR_eq, hN, ↓reduceIte]
    field_simp; ring
  rw [hz]
  have := total_sq_nonneg (points y) (fun p => ((olsCoef 0 true y).1 - a') + (0 - 0) * p.1)
  linarith

theorem stt_pos (y : List Rat) (hn : 2 ≤ y.length) : 0 < total ((points y).map (fun p => p.1 * p.1)) := by
  have h2 := points_map_fst y (fun t => t * t)
  rw [h2, sum_range_sq]
  have hn' : (2 : Rat) ≤ (y.length : Rat) := by exact_mod_cast hn
  have : 0 < (y.length : Rat) - 1 := by linarith
  have : 0 < 2 * (y.length : Rat) - 1 := by linarith
  positivity

/-- degree 1 without intercept: the fitted slope minimises the squared error among lines through the origin -/
theorem olsCoef_noicpt (y : List Rat) (hn : 2 ≤ y.length) :
    (olsCoef 1 false y).1 = 0 ∧ ∀ b' : Rat, sse (points y) 0 (olsCoef 1 false y).2 ≤ sse (points y) 0 b' := by
  have hpos := stt_pos y hn
  have hne : total ((points y).map (fun p => p.1 * p.1)) ≠ 0 := ne_of_gt hpos
  have h1 : (olsCoef 1 false y).1 = 0 := by
    simp only [olsCoef, sumR_eq, one_ne_zero, Bool.false_eq_true, ↓reduceIte]; split <;> rfl
  refine ⟨h1, ?_⟩
  intro b'
  rw [sse_decomp (points y) 0 (olsCoef 1 false y).2 0 b', resid_tsum]
  have hz : total ((points y).map (fun p => p.1 * p.2)) - 0 * total ((points y).map (·.1))
      - (olsCoef 1 false y).2 * total ((points y).map (fun p => p.1 * p.1)) = 0 := by
    simp only [olsCoef, sumR_eq, one_ne_zero, Bool.false_eq_true, ↓reduceIte, hne]
    rw [div_mul_cancel₀ _ hne]; ring
  rw [hz]
  have := total_sq_nonneg (points y) (fun p => ((0 : Rat) - 0) + ((olsCoef 1 false y).2 - b') * p.1)
  linarith

end SkVerif.Lem.Trend
