/-
The writer's output, read back by the parser model: header, case lines, whole file.
Core Lean only.
-/
import SkVerif.Lemmas.TsFile
namespace SkVerif.TsFile.Lem
open SkVerif.TsFile

/-! ### a written case line is treated as data (it starts with the first character of a number) -/

theorem floatCore_at (r : Str) : floatCore ('@' :: r) = none := by
  simp [floatCore, sNan, sInf, sInfinity, scanUnsigned, scanDigits, digitVal]

theorem lstrip_append_of_ne_nil {t : Str} (y : Str) (h : lstrip t ≠ []) : lstrip (t ++ y) = lstrip t ++ y := by
  induction t with
  | nil => simp [lstrip] at h
  | cons c cs ih =>
    by_cases hc : isSpace c = true
    · rw [lstrip_cons_of_space _ hc] at h ⊢
      rw [List.cons_append, lstrip_cons_of_space _ hc]; exact ih h
    · have hc' : isSpace c = false := by simpa using hc
      rw [List.cons_append, lstrip_cons_of_not_space _ hc', lstrip_cons_of_not_space _ hc']; rfl

/-- the first character of `strip (t ++ y)` is the first character of `strip t` -/
theorem strip_append_head {t : Str} (h : strip t ≠ []) :
    ∃ c r, strip t = c :: r ∧ ∀ y, ∃ r', strip (t ++ y) = c :: r' := by
  have hl : lstrip t ≠ [] := by
    intro e; apply h; unfold strip; rw [e]; rfl
  cases hl' : lstrip t with
  | nil => exact absurd hl' hl
  | cons c r0 =>
    have hc := lstrip_head_not_space t c r0 hl'
    refine ⟨c, rstrip r0, ?_, ?_⟩
    · unfold strip; rw [hl', rstrip_cons_of_not_space _ hc]
    · intro y
      refine ⟨rstrip (r0 ++ y), ?_⟩
      unfold strip
      rw [lstrip_append_of_ne_nil y hl, hl', List.cons_append, rstrip_cons_of_not_space _ hc]

theorem join_cons_eq (sep t : Str) (ts : List Str) : ∃ y, join sep (t :: ts) = t ++ y := by
  cases ts with
  | nil => exact ⟨[], by simp [join]⟩
  | cons u us => exact ⟨sep ++ join sep (u :: us), by simp [join]⟩

theorem startsWith_kw_false (d : Char) (r : Str) (hd : d ≠ '@') :
    startsWith kwProblemName (d :: r) = false ∧ startsWith kwTimestamps (d :: r) = false ∧
    startsWith kwUnivariate (d :: r) = false ∧ startsWith kwClassLabel (d :: r) = false ∧
    startsWith kwData (d :: r) = false := by
  have h : ('@' == d) = false := by simpa using Ne.symm hd
  have e1 : kwProblemName = '@' :: "problemname".toList := by rfl
  have e2 : kwTimestamps = '@' :: "timestamps".toList := by rfl
  have e3 : kwUnivariate = '@' :: "univariate".toList := by rfl
  have e4 : kwClassLabel = '@' :: "classlabel".toList := by rfl
  have e5 : kwData = '@' :: "data".toList := by rfl
  simp only [startsWith, e1, e2, e3, e4, e5, List.isPrefixOf, h, Bool.false_and, and_self]

/-- a written case line is neither empty nor a tag line -/
theorem written_line_is_data (st : St) (toks : List Str) (Z : Str) (hne : toks ≠ [])
    (hv : ∀ t ∈ toks, ValidTok t) (hs : st.dataStarted = true) :
    step st (normLine (join [','] toks ++ Z)) = dataLine st (normLine (join [','] toks ++ Z)) := by
  cases toks with
  | nil => exact absurd rfl hne
  | cons t ts =>
    have hnum := (hv t (by simp)).isNum
    obtain ⟨c, r, hc, hy⟩ := strip_append_head (strip_ne_nil_of_float hnum)
    obtain ⟨y, hj⟩ := join_cons_eq [','] t ts
    obtain ⟨r', hr'⟩ := hy (y ++ Z)
    have hL : normLine (join [','] (t :: ts) ++ Z) = lowerChar c :: lower r' := by
      unfold normLine; rw [hj, List.append_assoc, hr']; rfl
    have hc' : lowerChar c ≠ '@' := by
      intro e
      have : floatOf t = none := by
        simp only [floatOf, hc, lower_cons, e, floatCore_at]
      simp [this] at hnum
    obtain ⟨h1, h2, h3, h4, h5⟩ := startsWith_kw_false (lowerChar c) (lower r') hc'
    rw [hL]
    simp [step, h1, h2, h3, h4, h5, hs]

theorem ready_update {st : St} {cl : Bool} (hr : Ready st cl) (a : Option Nat) (b : List (List Series))
    (c : List Str) : Ready { st with numDims := a, inst := b, labels := c } cl :=
  ⟨hr.hPN, hr.hTS, hr.hUni, hr.hCL, hr.hData, hr.hts, hr.hcl, hr.hmeta, hr.hstarted⟩

/-- one labelled case line: the series and the label are appended -/
theorem step_case_two (st : St) (toks : List Str) (lab : Str) (acc : List Series) (labels : List Str)
    (hne : toks ≠ []) (hv : ∀ t ∈ toks, ValidTok t) (hl : ValidLabel lab)
    (h : (Fresh st true ∧ acc = [] ∧ labels = []) ∨ Loaded st true acc labels) :
    ∃ st', step st (normLine (join [','] toks ++ ':' :: lab)) = .ok st' ∧
      Loaded st' true (acc ++ [toks.map tokVal]) (labels ++ [lower (strip lab)]) := by
  have hr : Ready st true := by
    rcases h with ⟨h, _, _⟩ | h
    · exact h.ready
    · exact h.ready
  obtain ⟨hq, d0, d1, hd, hs, hlab⟩ := written_line_two toks lab hne hv hl
  rw [written_line_is_data st toks _ hne hv hr.hstarted]
  have hnd : (st.numDims = none ∧ st.inst = [] ∧ acc = []) ∨ (st.numDims = some 1 ∧ st.inst = [acc]) := by
    rcases h with ⟨h, ha, _⟩ | h
    · exact Or.inl ⟨h.hnd, h.hinst, ha⟩
    · exact Or.inr ⟨h.hnd, h.hinst⟩
  have hlabels : st.labels = labels := by
    rcases h with ⟨h, _, hb⟩ | h
    · rw [h.hlabels, hb]
    · exact h.hlabels
  refine ⟨_, dataLine_two st _ d0 d1 _ acc hr hq hd hs hnd, ready_update hr _ _ _, rfl, rfl, ?_⟩
  simp [hlabels, hlab]

/-- one unlabelled case line -/
theorem step_case_one (st : St) (toks : List Str) (acc : List Series)
    (hne : toks ≠ []) (hv : ∀ t ∈ toks, ValidTok t)
    (h : (Fresh st false ∧ acc = []) ∨ Loaded st false acc []) :
    ∃ st', step st (normLine (join [','] toks)) = .ok st' ∧
      Loaded st' false (acc ++ [toks.map tokVal]) [] := by
  have hr : Ready st false := by
    rcases h with ⟨h, _⟩ | h
    · exact h.ready
    · exact h.ready
  obtain ⟨hq, d0, hd, hs⟩ := written_line_one toks hne hv
  have := written_line_is_data st toks [] hne hv hr.hstarted
  rw [List.append_nil] at this
  rw [this]
  have hnd : (st.numDims = none ∧ st.inst = [] ∧ acc = []) ∨ (st.numDims = some 1 ∧ st.inst = [acc]) := by
    rcases h with ⟨h, ha⟩ | h
    · exact Or.inl ⟨h.hnd, h.hinst, ha⟩
    · exact Or.inr ⟨h.hnd, h.hinst⟩
  have hlabels : st.labels = [] := by
    rcases h with ⟨h, _⟩ | h
    · exact h.hlabels
    · exact h.hlabels
  exact ⟨_, dataLine_one st _ d0 _ acc hr hq hd hs hnd, ready_update hr _ _ _, rfl, rfl, hlabels⟩

/-- a non-empty series of valid tokens -/
def ValidSeries (s : List Str) : Prop := s ≠ [] ∧ ∀ t ∈ s, ValidTok t

theorem caseLines_true_cons_cons (r : List Str) (rs : List (List Str)) (v : Str) (vs : List Str) :
    caseLines true (r :: rs) (v :: vs) = (join [','] r ++ ':' :: v) :: caseLines true rs vs := by
  simp [caseLines]

theorem caseLines_true_cons_nil (r : List Str) (rs : List (List Str)) :
    caseLines true (r :: rs) [] = join [','] r :: caseLines true rs [] := by
  simp [caseLines]

/-- the remaining labelled case lines -/
theorem run_cases_two : ∀ (panel : List (List Str)) (vals : List Str) (st : St) (acc : List Series)
    (labels : List Str), vals.length = panel.length → (∀ s ∈ panel, ValidSeries s) →
    (∀ l ∈ vals, ValidLabel l) → Loaded st true acc labels →
    ∃ st', run st ((caseLines true panel vals).map normLine) = .ok st' ∧
      Loaded st' true (acc ++ panel.map (·.map tokVal)) (labels ++ vals.map (fun l => lower (strip l)))
  | [], [], st, acc, labels, _, _, _, h => ⟨st, rfl, by simpa using h⟩
  | [], _ :: _, _, _, _, hlen, _, _, _ => by simp at hlen
  | _ :: _, [], _, _, _, hlen, _, _, _ => by simp at hlen
  | r :: rs, v :: vs, st, acc, labels, hlen, hp, hl, h => by
    obtain ⟨st1, hs1, hL1⟩ := step_case_two st r v acc labels (hp r (by simp)).1 (hp r (by simp)).2
      (hl v (by simp)) (Or.inr h)
    obtain ⟨st2, hs2, hL2⟩ := run_cases_two rs vs st1 _ _ (by simpa using hlen)
      (fun s hs => hp s (by simp [hs])) (fun l hl' => hl l (by simp [hl'])) hL1
    refine ⟨st2, ?_, ?_⟩
    · rw [caseLines_true_cons_cons, List.map_cons, run_cons_ok _ hs1, hs2]
    · simpa [List.append_assoc] using hL2

/-- the remaining unlabelled case lines -/
theorem run_cases_one : ∀ (panel : List (List Str)) (st : St) (acc : List Series),
    (∀ s ∈ panel, ValidSeries s) → Loaded st false acc [] →
    ∃ st', run st ((caseLines true panel []).map normLine) = .ok st' ∧
      Loaded st' false (acc ++ panel.map (·.map tokVal)) []
  | [], st, acc, _, h => ⟨st, rfl, by simpa using h⟩
  | r :: rs, st, acc, hp, h => by
    obtain ⟨st1, hs1, hL1⟩ := step_case_one st r acc (hp r (by simp)).1 (hp r (by simp)).2 (Or.inr h)
    obtain ⟨st2, hs2, hL2⟩ := run_cases_one rs st1 _ (fun s hs => hp s (by simp [hs])) hL1
    refine ⟨st2, ?_, ?_⟩
    · rw [caseLines_true_cons_nil, List.map_cons, run_cons_ok _ hs1, hs2]
    · simpa [List.append_assoc] using hL2

/-- all labelled case lines, starting right after the header -/
theorem run_all_cases_two (panel : List (List Str)) (vals : List Str) (st : St) (hne : panel ≠ [])
    (hlen : vals.length = panel.length) (hp : ∀ s ∈ panel, ValidSeries s) (hl : ∀ l ∈ vals, ValidLabel l)
    (h : Fresh st true) :
    ∃ st', run st ((caseLines true panel vals).map normLine) = .ok st' ∧
      Loaded st' true (panel.map (·.map tokVal)) (vals.map (fun l => lower (strip l))) := by
  match panel, vals, hne, hlen with
  | r :: rs, v :: vs, _, hlen =>
    obtain ⟨st1, hs1, hL1⟩ := step_case_two st r v [] [] (hp r (by simp)).1 (hp r (by simp)).2
      (hl v (by simp)) (Or.inl ⟨h, rfl, rfl⟩)
    obtain ⟨st2, hs2, hL2⟩ := run_cases_two rs vs st1 _ _ (by simpa using hlen)
      (fun s hs => hp s (by simp [hs])) (fun l hl' => hl l (by simp [hl'])) hL1
    refine ⟨st2, ?_, ?_⟩
    · rw [caseLines_true_cons_cons, List.map_cons, run_cons_ok _ hs1, hs2]
    · simpa using hL2
  | _ :: _, [], _, hlen => simp at hlen

theorem run_all_cases_one (panel : List (List Str)) (st : St) (hne : panel ≠ [])
    (hp : ∀ s ∈ panel, ValidSeries s) (h : Fresh st false) :
    ∃ st', run st ((caseLines true panel []).map normLine) = .ok st' ∧
      Loaded st' false (panel.map (·.map tokVal)) [] := by
  match panel, hne with
  | r :: rs, _ =>
    obtain ⟨st1, hs1, hL1⟩ := step_case_one st r [] (hp r (by simp)).1 (hp r (by simp)).2 (Or.inl ⟨h, rfl⟩)
    obtain ⟨st2, hs2, hL2⟩ := run_cases_one rs st1 _ (fun s hs => hp s (by simp [hs])) hL1
    refine ⟨st2, ?_, ?_⟩
    · rw [caseLines_true_cons_nil, List.map_cons, run_cons_ok _ hs1, hs2]
    · simpa using hL2

theorem finish_loaded (n : Nat) (st : St) (cl : Bool) (acc : List Series) (labels : List Str)
    (hn : n ≠ 0) (h : Loaded st cl acc labels) :
    finish n st = .ok ⟨[acc], if cl then some labels else none⟩ := by
  have hr := h.ready
  simp [finish, hn, hr.hPN, hr.hTS, hr.hUni, hr.hCL, hr.hData, hr.hmeta, hr.hstarted, h.hnd, h.hinst,
    h.hlabels, hr.hcl]

/-! ### the header -/

/-- writer options in the property's domain -/
structure ValidOpts (o : WOpts) : Prop where
  ts : o.timestamp = false
  uni : o.univariate = true
  name : strip o.problemName ≠ []
  nameNl : '\n' ∉ o.problemName
  slNl : '\n' ∉ o.seriesLengthStr
  comNl : ∀ l ∈ o.commentLines, '\n' ∉ l
  /-- `textwrap.wrap("# " + comment)`: the first line begins with `#` -/
  comHash : ∀ c cs, o.commentLines = c :: cs → ∃ r, c = '#' :: r
  eqsl : ¬ (o.equalLength = true ∧ o.seriesLength = -1)
  clNl : ∀ l ∈ o.classLabel, '\n' ∉ l

/-- the class label line of the header -/
def clLine (nl : Str) (o : WOpts) : Str :=
  if o.classLabel ≠ [] then "@classLabel true ".toList ++ join [' '] o.classLabel else nl

def commentBlock (o : WOpts) : List Str :=
  match o.commentLines with
  | [] => []
  | c :: cs => c :: cs.map (fun l => '#' :: ' ' :: l)

theorem headerLines_eq (nl : Str) (o : WOpts) :
    headerLines nl o = commentBlock o ++
      (["@problemName ".toList ++ o.problemName, "@timeStamps ".toList ++ boolStr o.timestamp,
        "@univariate ".toList ++ boolStr o.univariate]
      ++ ((if o.equalLength then ["@equalLength true".toList] else [])
      ++ ((if o.seriesLength > 0 then ["@seriesLength ".toList ++ o.seriesLengthStr] else [])
      ++ ([clLine nl o] ++ ["@data".toList])))) := by
  simp only [headerLines, commentBlock, clLine, List.append_assoc]
  rfl

/-- state after `@problemName`, `@timeStamps`, `@univariate` -/
def s3 : St := { metaStarted := true, hasPN := true, hasTS := true, hasUni := true }

/-- state after the whole header -/
def hdrSt (hasCLb clb : Bool) : St :=
  { metaStarted := true, dataStarted := true, hasPN := true, hasTS := true, hasUni := true,
    hasCL := hasCLb, hasData := true, timestamps := false, classLabels := clb }

theorem run_commentBlock (o : WOpts) (hv : ValidOpts o) : run {} ((commentBlock o).map normLine) = .ok {} := by
  apply run_skip _ _ _ rfl
  intro l hl
  unfold commentBlock at hl
  cases hc : o.commentLines with
  | nil => simp [hc] at hl
  | cons c cs =>
    obtain ⟨r, hr⟩ := hv.comHash c cs hc
    simp only [hc, List.map_cons, List.map_map, List.mem_cons, List.mem_map, Function.comp] at hl
    rcases hl with h | ⟨x, _, h⟩
    · rw [h, hr]; exact skip_hash r
    · rw [← h]; exact skip_hash (' ' :: x)

theorem run_header (nl : Str) (o : WOpts) (hv : ValidOpts o) (hasCLb clb : Bool)
    (hstep : step s3 (normLine (clLine nl o)) = .ok { s3 with classLabels := clb, hasCL := hasCLb }) :
    run {} ((headerLines nl o).map normLine) = .ok (hdrSt hasCLb clb) := by
  rw [headerLines_eq]
  simp only [List.map_append]
  rw [run_append_ok _ (run_commentBlock o hv)]
  have h1 : run {} (List.map normLine ["@problemName ".toList ++ o.problemName,
      "@timeStamps ".toList ++ boolStr o.timestamp, "@univariate ".toList ++ boolStr o.univariate]) = .ok s3 := by
    rw [hv.ts, hv.uni]
    simp only [List.map_cons, List.map_nil]
    rw [run_cons_ok _ (step_written_problemName {} _ hv.name rfl),
      run_cons_ok _ (step_written_timestamps _ rfl), run_cons_ok _ (step_written_univariate _ rfl)]
    rfl
  rw [run_append_ok _ h1]
  have h2 : run s3 (List.map normLine (if o.equalLength then ["@equalLength true".toList] else [])) = .ok s3 := by
    apply run_skip _ _ _ rfl
    intro l hl
    split at hl
    · simp only [List.map_cons, List.map_nil, List.mem_singleton] at hl; rw [hl]; exact skip_equalLength
    · simp at hl
  rw [run_append_ok _ h2]
  have h3 : run s3 (List.map normLine (if o.seriesLength > 0 then ["@seriesLength ".toList ++ o.seriesLengthStr] else []))
      = .ok s3 := by
    apply run_skip _ _ _ rfl
    intro l hl
    split at hl
    · simp only [List.map_cons, List.map_nil, List.mem_singleton] at hl; rw [hl]; exact skip_seriesLength _
    · simp at hl
  rw [run_append_ok _ h3]
  simp only [List.map_cons, List.map_nil, List.cons_append, List.nil_append]
  rw [run_cons_ok _ hstep, normLine_data, run_cons_ok _ (step_data _ rfl)]
  rfl

theorem fresh_hdrSt (clb : Bool) : Fresh (hdrSt true clb) clb :=
  ⟨⟨rfl, rfl, rfl, rfl, rfl, rfl, rfl, rfl, rfl⟩, rfl, rfl, rfl⟩

/-! ### no line of the written file contains a newline -/

theorem header_no_nl (nl : Str) (o : WOpts) (hv : ValidOpts o) (hnl : '\n' ∉ nl) :
    ∀ l ∈ headerLines nl o, '\n' ∉ l := by
  intro l hl
  rw [headerLines_eq] at hl
  simp only [List.mem_append, List.mem_cons, List.not_mem_nil, or_false] at hl
  rcases hl with hl | (hl | hl | hl) | hl | hl | hl | hl
  · unfold commentBlock at hl
    cases hc : o.commentLines with
    | nil => simp [hc] at hl
    | cons c cs =>
      simp only [hc, List.mem_cons, List.mem_map] at hl
      rcases hl with h | ⟨x, hx, h⟩
      · rw [h]; exact hv.comNl c (by simp [hc])
      · rw [← h]
        have := hv.comNl x (by simp [hc, hx])
        simp only [List.mem_cons, not_or]
        exact ⟨by decide, by decide, this⟩
  · rw [hl]; simp only [List.mem_append, not_or]; exact ⟨by decide, hv.nameNl⟩
  · rw [hl, hv.ts]; decide
  · rw [hl, hv.uni]; decide
  · split at hl
    · simp only [List.mem_singleton] at hl; rw [hl]; decide
    · simp at hl
  · split at hl
    · simp only [List.mem_singleton] at hl; rw [hl]
      simp only [List.mem_append, not_or]; exact ⟨by decide, hv.slNl⟩
    · simp at hl
  · rw [hl]; unfold clLine
    split
    · simp only [List.mem_append, not_or]
      exact ⟨by decide, not_mem_join (by decide) hv.clNl⟩
    · exact hnl
  · rw [hl]; decide

theorem caseLines_two_no_nl : ∀ (panel : List (List Str)) (vals : List Str),
    (∀ s ∈ panel, ValidSeries s) → (∀ l ∈ vals, ValidLabel l) →
    ∀ l ∈ caseLines true panel vals, '\n' ∉ l
  | [], _, _, _ => by simp [caseLines]
  | r :: rs, [], hp, hl => by
    intro l hm
    rw [caseLines_true_cons_nil] at hm
    rcases List.mem_cons.mp hm with h | h
    · rw [h]; exact not_mem_join (by decide) (fun t ht => ((hp r (by simp)).2 t ht).noNl)
    · exact caseLines_two_no_nl rs [] (fun s hs => hp s (by simp [hs])) hl l h
  | r :: rs, v :: vs, hp, hl => by
    intro l hm
    rw [caseLines_true_cons_cons] at hm
    rcases List.mem_cons.mp hm with h | h
    · rw [h]
      simp only [List.mem_append, List.mem_cons, not_or]
      exact ⟨not_mem_join (by decide) (fun t ht => ((hp r (by simp)).2 t ht).noNl), by decide,
        (hl v (by simp)).noNl⟩
    · exact caseLines_two_no_nl rs vs (fun s hs => hp s (by simp [hs])) (fun x hx => hl x (by simp [hx])) l h

theorem written_length_ne_zero (nl : Str) (o : WOpts) (K : List Str) : (headerLines nl o ++ K).length ≠ 0 := by
  intro h
  have h1 : headerLines nl o ++ K = [] := List.eq_nil_of_length_eq_zero h
  have h2 : headerLines nl o = [] := (List.append_eq_nil_iff.mp h1).1
  rw [headerLines_eq] at h2
  have h3 := (List.append_eq_nil_iff.mp h2).2
  exact absurd (List.append_eq_nil_iff.mp h3).1 (List.cons_ne_nil _ _)

/-- a case line met before the class-label tag was seen is an error -/
theorem dataLine_noCL (st : St) (l : Str) (h : st.hasCL = false) : dataLine st l = .error .parse := by
  simp [dataLine, h]

/-- parsing the text made of the given lines = running the loop over them -/
theorem parseTs_unlines_ok (ls : List Str) (st : St) (h : ∀ l ∈ ls, '\n' ∉ l)
    (hrun : run {} (ls.map normLine) = .ok st) : parseTs (unlines ls) = finish ls.length st := by
  simp only [parseTs, lines_unlines ls h, hrun]

theorem parseTs_unlines_error (ls : List Str) (e : Err) (h : ∀ l ∈ ls, '\n' ∉ l)
    (hrun : run {} (ls.map normLine) = .error e) : parseTs (unlines ls) = .error e := by
  simp only [parseTs, lines_unlines ls h, hrun]

end SkVerif.TsFile.Lem
