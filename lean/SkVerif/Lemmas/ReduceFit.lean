/- Lemmas for C05: the (X, y) pairs each strategy hands to the regressor are the specification's. -/
import SkVerif.Lemmas.ReduceSwt
import SkVerif.Lemmas.ReducePredict
namespace SkVerif.Lem.Reduce
open SkVerif.Reduce
open SkVerif.Spec.Reduce

variable {α : Type}

theorem map_range_getD {β γ : Type} (l : List β) (d : β) (F : β → γ) :
    (List.range l.length).map (fun i => F (l.getD i d)) = l.map F := by
  apply List.ext_getElem
  · simp
  · intro i h1 h2
    simp at h1
    simp [List.getD_eq_getElem?_getD, h1]

theorem flatten_map_single {β γ : Type} (g : β → γ) (l : List β) :
    (l.map fun r => [g r]).flatten = l.map g := by
  induction l with
  | nil => rfl
  | cons a l ih => simp [ih]

theorem allOut_of_pos (fh : List Int) (hpos : ∀ h ∈ fh, 1 ≤ h) : allOut fh = true := by
  simp only [allOut, List.all_eq_true, decide_eq_true_eq]
  intro h hh; have := hpos h hh; omega

theorem column_trainTargets (V : Vals α) (zf : Nat → Nat → α) (n wl hmax : Nat) (fh : List Nat) (i : Nat)
    (hi : i < fh.length) :
    column V (trainTargets zf n wl hmax fh) i = targetsFor zf n wl hmax (fh.getD i 0) := by
  unfold column trainTargets targetsFor
  rw [List.map_map]
  apply List.map_congr_left
  intro r _
  simp [List.getD_eq_getElem?_getD, hi]

/-- direct: one fit per requested step `h`, all on the same lagged windows, targets = the
observations `h` steps after each window -/
theorem fitJobs_direct (V : Vals α) (d : α) (y : List α) (X : Option (List (List α))) (nc wl : Nat)
    (wl_ : Option Nat) (fh : List Int) (sci : Scitype) (hm : Int) (hr : Rect y X nc) (hwl : 1 ≤ wl)
    (hpos : ∀ h ∈ fh, 1 ≤ h) (hle : ∀ h ∈ fh, h ≤ hm) (hlast : fh.getLast? = some hm)
    (hlen : wl + hm.toNat ≤ y.length) :
    fitJobs V .direct sci (.int wl) wl_ y X (some fh) = .ok (fh.map fun h =>
      (trainRows (ofLists d y X) y.length (nc + 1) wl hm.toNat (sci == .tabular),
       Target.vec (targetsFor (ofLists d y X) y.length wl hm.toNat h.toNat))) := by
  simp only [fitJobs, allOut_of_pos fh hpos, Bool.not_true, Bool.false_eq_true, if_false,
    swt_ok V d y X nc wl fh sci hm hr hwl hpos hle hlast hlen, bind, Except.bind, pure, Except.pure]
  congr 1
  have : (List.range fh.length).map (fun i =>
      (trainRows (ofLists d y X) y.length (nc + 1) wl hm.toNat (sci == .tabular),
        Target.vec (column V (trainTargets (ofLists d y X) y.length wl hm.toNat (fh.map Int.toNat)) i))) =
      (List.range fh.length).map (fun i =>
      (trainRows (ofLists d y X) y.length (nc + 1) wl hm.toNat (sci == .tabular),
        Target.vec (targetsFor (ofLists d y X) y.length wl hm.toNat ((fh.getD i 0).toNat)))) := by
    apply List.map_congr_left
    intro i hi
    have hi' := List.mem_range.mp hi
    rw [column_trainTargets V _ _ _ _ _ _ (by simpa using hi')]
    simp [List.getD_eq_getElem?_getD, hi']
  rw [this]
  exact map_range_getD fh 0 (fun h =>
      (trainRows (ofLists d y X) y.length (nc + 1) wl hm.toNat (sci == .tabular),
        Target.vec (targetsFor (ofLists d y X) y.length wl hm.toNat h.toNat)))

/-- multioutput: a single fit on the lagged windows with one target column per requested step -/
theorem fitJobs_multioutput (V : Vals α) (d : α) (y : List α) (X : Option (List (List α))) (nc wl : Nat)
    (wl_ : Option Nat) (fh : List Int) (sci : Scitype) (hm : Int) (hr : Rect y X nc) (hwl : 1 ≤ wl)
    (hpos : ∀ h ∈ fh, 1 ≤ h) (hle : ∀ h ∈ fh, h ≤ hm) (hlast : fh.getLast? = some hm)
    (hlen : wl + hm.toNat ≤ y.length) :
    fitJobs V .multioutput sci (.int wl) wl_ y X (some fh) = .ok
      [(trainRows (ofLists d y X) y.length (nc + 1) wl hm.toNat (sci == .tabular),
        Target.mat (trainTargets (ofLists d y X) y.length wl hm.toNat (fh.map Int.toNat)))] := by
  simp only [fitJobs, allOut_of_pos fh hpos, Bool.not_true, Bool.false_eq_true, if_false,
    swt_ok V d y X nc wl fh sci hm hr hwl hpos hle hlast hlen, bind, Except.bind, pure, Except.pure]

/-- recursive: a single fit on the lagged windows with the next observation as target -/
theorem fitJobs_recursive (V : Vals α) (d : α) (y : List α) (X : Option (List (List α))) (nc wl : Nat)
    (wlRaw : WLRaw) (fh : Option (List Int)) (sci : Scitype) (hr : Rect y X nc) (hwl : 1 ≤ wl)
    (hlen : wl + 1 ≤ y.length) :
    fitJobs V .recursive sci wlRaw (some wl) y X fh = .ok
      [(trainRows (ofLists d y X) y.length (nc + 1) wl 1 (sci == .tabular),
        Target.vec (targetsFor (ofLists d y X) y.length wl 1 1))] := by
  have := swt_ok V d y X nc wl [1] sci 1 hr hwl (by simp) (by simp) (by simp) (by simpa using hlen)
  simp only [fitJobs, wlRawOf, this, bind, Except.bind, pure, Except.pure]
  simp only [trainTargets, targetsFor, Int.toNat_one, List.map_cons, List.map_nil]
  rw [flatten_map_single]

theorem window_one (zf : Nat → Nat → α) (wl r : Nat) :
    window zf 1 wl r = [(List.range wl).map fun k => zf (r + k) 0] := by
  simp [window]

theorem present_single (flat : Bool) (w : List α) : present flat [w] = [w] := by
  cases flat <;> simp [present]

theorem zipWith_map_same {β γ δ ε : Type} (f : γ → δ → ε) (g : β → γ) (h : β → δ) (l : List β) :
    List.zipWith f (l.map g) (l.map h) = l.map fun r => f (g r) (h r) := by
  induction l with
  | nil => rfl
  | cons a l ih => simp [ih]

theorem take_len_add {a b : List α} {wl i : Nat} (h : a.length = wl) :
    (a ++ b).take (wl + i) = a ++ b.take i := by
  subst h
  exact List.take_length_add_append ..

/-- dirrec: the fit for the `i`-th requested step sees the lagged window followed by the true values
at the earlier requested steps; its target is the observation at its own step -/
theorem fitJobs_dirrec (V : Vals α) (d : α) (y : List α) (wl : Nat)
    (wl_ : Option Nat) (fh : List Int) (sci : Scitype) (hm : Int) (hwl : 1 ≤ wl)
    (hpos : ∀ h ∈ fh, 1 ≤ h) (hle : ∀ h ∈ fh, h ≤ hm) (hlast : fh.getLast? = some hm)
    (hlen : wl + hm.toNat ≤ y.length) :
    fitJobs V .dirrec sci (.int wl) wl_ y none (some fh) = .ok ((List.range fh.length).map fun i =>
      (dirrecTrainRows (ofLists d y none) y.length wl hm.toNat (fh.map Int.toNat) i (sci == .tabular),
       Target.vec (targetsFor (ofLists d y none) y.length wl hm.toNat (fh.getD i 0).toNat))) := by
  have hr : Rect y none 0 := by simp [Rect]
  have hm1 : 1 ≤ hm := hpos hm (List.mem_of_getLast? hlast)
  have hR : nRows y.length wl hm.toNat = (nRows y.length wl hm.toNat - 1) + 1 := by
    unfold nRows; omega
  simp only [fitJobs, allOut_of_pos fh hpos, Bool.not_true, Bool.false_eq_true, if_false,
    swt_ok V d y none 0 wl fh sci hm hr hwl hpos hle hlast hlen, bind, Except.bind, pure, Except.pure]
  congr 1
  apply List.map_congr_left
  intro i hi
  have hi' := List.mem_range.mp hi
  have hntp : lastDim (trainRows (ofLists d y none) y.length (0 + 1) wl hm.toNat (sci == .tabular)) = wl := by
    unfold trainRows
    rw [hR, List.range_succ_eq_map]
    simp [lastDim, window_one, present_single]
  rw [hntp, column_trainTargets V _ _ _ _ _ _ (by simpa using hi')]
  congr 1
  · unfold trainRows trainTargets dirrecTrainRows
    rw [zipWith_map_same, List.map_map]
    apply List.map_congr_left
    intro r _
    simp only [Function.comp_apply, Nat.zero_add, window_one, present_single, dirrecRow,
      toSci_eq_present, List.map_cons, List.map_nil, List.map_map, List.map_take]
    rw [take_len_add (by simp)]
  · simp [List.getD_eq_getElem?_getD, hi']
