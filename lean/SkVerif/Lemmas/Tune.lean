/- Lemmas about the tuning model (SkVerif/Model/Tune.lean): argmin, average ranks, the search. -/
import SkVerif.Model.Tune
import Mathlib.Algebra.Order.Field.Rat
import Mathlib.Tactic.Linarith
import Mathlib.Data.List.Nodup
namespace SkVerif.Lem.Tune
open SkVerif SkVerif.Tune

/-! ## `argminFirst` -/

theorem argminFirst_none {l : List (Option Nat)} (h : argminFirst l = none) : ∀ x ∈ l, x = none := by
  induction l with
  | nil => intro x hx; cases hx
  | cons a t ih =>
    cases a with
    | none =>
      simp only [argminFirst] at h
      have ht : argminFirst t = none := by
        cases hr : argminFirst t with
        | none => rfl
        | some r => rw [hr] at h; simp at h
      intro x hx
      rcases List.mem_cons.mp hx with rfl | hx
      · rfl
      · exact ih ht x hx
    | some v =>
      exfalso
      simp only [argminFirst] at h
      cases hr : argminFirst t with
      | none => rw [hr] at h; simp at h
      | some r =>
        obtain ⟨i, w⟩ := r
        rw [hr] at h
        simp only at h
        split at h <;> simp at h

/-- what `argminFirst` answers: an entry of the list, minimal among the non-NaN entries, and strictly
smaller than every earlier non-NaN entry (first occurrence) -/
theorem argminFirst_spec {l : List (Option Nat)} {i v : Nat} (h : argminFirst l = some (i, v)) :
    l[i]? = some (some v) ∧ (∀ (j w : Nat), l[j]? = some (some w) → v ≤ w) ∧
      (∀ (j w : Nat), j < i → l[j]? = some (some w) → v < w) := by
  induction l generalizing i v with
  | nil => simp [argminFirst] at h
  | cons a t ih =>
    cases a with
    | none =>
      simp only [argminFirst] at h
      cases hr : argminFirst t with
      | none => rw [hr] at h; simp at h
      | some r =>
        obtain ⟨i', v'⟩ := r
        rw [hr] at h
        simp only [Option.map_some, Option.some.injEq, Prod.mk.injEq] at h
        obtain ⟨rfl, rfl⟩ := h
        obtain ⟨h1, h2, h3⟩ := ih hr
        refine ⟨by simpa using h1, ?_, ?_⟩
        · intro j w hj
          cases j with
          | zero => simp at hj
          | succ j => exact h2 j w (by simpa using hj)
        · intro j w hji hj
          cases j with
          | zero => simp at hj
          | succ j => exact h3 j w (by omega) (by simpa using hj)
    | some x =>
      simp only [argminFirst] at h
      cases hr : argminFirst t with
      | none =>
        rw [hr] at h
        simp only [Option.some.injEq, Prod.mk.injEq] at h
        obtain ⟨rfl, rfl⟩ := h
        have hall := argminFirst_none hr
        refine ⟨by simp, ?_, ?_⟩
        · intro j w hj
          cases j with
          | zero => simp at hj; omega
          | succ j =>
            have hm : (some w : Option Nat) ∈ t := List.mem_of_getElem? (by simpa using hj)
            have := hall _ hm
            cases this
        · intro j w hji; omega
      | some r =>
        obtain ⟨i', v'⟩ := r
        rw [hr] at h
        obtain ⟨h1, h2, h3⟩ := ih hr
        simp only at h
        split at h
        · rename_i hle
          simp only [Option.some.injEq, Prod.mk.injEq] at h
          obtain ⟨rfl, rfl⟩ := h
          refine ⟨by simp, ?_, ?_⟩
          · intro j w hj
            cases j with
            | zero => simp at hj; omega
            | succ j => have := h2 j w (by simpa using hj); omega
          · intro j w hji; omega
        · rename_i hnle
          simp only [Option.some.injEq, Prod.mk.injEq] at h
          obtain ⟨rfl, rfl⟩ := h
          refine ⟨by simpa using h1, ?_, ?_⟩
          · intro j w hj
            cases j with
            | zero => simp at hj; omega
            | succ j => exact h2 j w (by simpa using hj)
          · intro j w hji hj
            cases j with
            | zero => simp at hj; omega
            | succ j => exact h3 j w (by omega) (by simpa using hj)

/-- a list with a non-NaN entry has an argmin -/
theorem argminFirst_isSome {l : List (Option Nat)} {w : Nat} (h : some w ∈ l) : (argminFirst l).isSome := by
  cases hr : argminFirst l with
  | some r => rfl
  | none => have := argminFirst_none hr _ h; cases this

/-! ## average ranks -/

theorem countFin_cons (p : Rat → Bool) (s : Score) (xs : List Score) :
    countFin p (s :: xs) = countFin p xs + (match s with | some w => if p w then 1 else 0 | none => 0) := by
  unfold countFin
  rw [List.countP_cons]
  cases s with
  | none => simp
  | some w => simp

/-- ascending: everything that is before or equal to `v` is strictly before a larger `w` -/
theorem count_before_asc {v w : Rat} (h : v < w) (xs : List Score) :
    countFin (before true v) xs + countFin (fun a => decide (a = v)) xs ≤ countFin (before true w) xs := by
  induction xs with
  | nil => simp [countFin]
  | cons s t ih =>
    rw [countFin_cons, countFin_cons, countFin_cons]
    cases s with
    | none => simpa using ih
    | some a =>
      simp only [before, if_true]
      by_cases h1 : a < v
      · have h2 : a < w := lt_trans h1 h
        have h3 : a ≠ v := ne_of_lt h1
        simp [h1, h2, h3]; omega
      · by_cases h4 : a = v
        · subst h4
          simp [h]; omega
        · simp [h1, h4]; omega

theorem count_before_desc {v w : Rat} (h : w < v) (xs : List Score) :
    countFin (before false v) xs + countFin (fun a => decide (a = v)) xs ≤ countFin (before false w) xs := by
  induction xs with
  | nil => simp [countFin]
  | cons s t ih =>
    rw [countFin_cons, countFin_cons, countFin_cons]
    cases s with
    | none => simpa using ih
    | some a =>
      simp only [before, Bool.false_eq_true, if_false]
      by_cases h1 : v < a
      · have h2 : w < a := lt_trans h h1
        have h3 : a ≠ v := ne_of_gt h1
        simp [h1, h2, h3]; omega
      · by_cases h4 : a = v
        · subst h4
          simp [h]; omega
        · simp [h1, h4]; omega

theorem count_eq_pos {v : Rat} {xs : List Score} (h : some v ∈ xs) :
    0 < countFin (fun a => decide (a = v)) xs := by
  unfold countFin
  rw [List.countP_pos_iff]
  exact ⟨some v, h, by simp⟩

/-- the rank order embeds the value order: a value of the column that is strictly before another one
(smaller when ascending, larger when descending) has a strictly smaller rank -/
theorem rank2Of_lt_asc {v w : Rat} {xs : List Score} (hv : some v ∈ xs) (h : v < w) :
    rank2Of true xs v < rank2Of true xs w := by
  have h1 := count_before_asc h xs
  have h2 := count_eq_pos hv
  unfold rank2Of; omega

theorem rank2Of_lt_desc {v w : Rat} {xs : List Score} (hv : some v ∈ xs) (h : w < v) :
    rank2Of false xs v < rank2Of false xs w := by
  have h1 := count_before_desc h xs
  have h2 := count_eq_pos hv
  unfold rank2Of; omega

theorem rank2_length (asc : Bool) (xs : List Score) : (rank2 asc xs).length = xs.length := by
  simp [rank2]

theorem rank2_getElem? (asc : Bool) (xs : List Score) (i : Nat) :
    (rank2 asc xs)[i]? = (xs[i]?).map (fun s => s.map (rank2Of asc xs)) := by
  simp [rank2]

/-! ## selection = rank + argmin -/

/-- what `rank(ascending=asc)` followed by `argmin()` selects: an entry with a finite mean that is the
lowest (ascending) / highest (descending) finite mean, and the FIRST such entry -/
theorem select_spec {asc : Bool} {means : List Score} {i r : Nat}
    (h : argminFirst (rank2 asc means) = some (i, r)) :
    ∃ v, means[i]? = some (some v) ∧
      (∀ (j : Nat) (w : Rat), means[j]? = some (some w) → if asc then v ≤ w else w ≤ v) ∧
      (∀ (j : Nat) (w : Rat), j < i → means[j]? = some (some w) → w ≠ v) := by
  obtain ⟨h1, h2, h3⟩ := argminFirst_spec h
  rw [rank2_getElem?] at h1
  cases hmi : means[i]? with
  | none => rw [hmi] at h1; simp at h1
  | some s =>
    rw [hmi] at h1
    cases s with
    | none => simp at h1
    | some v =>
      simp only [Option.map_some, Option.some.injEq] at h1
      have hvmem : some v ∈ means := List.mem_of_getElem? hmi
      refine ⟨v, rfl, ?_, ?_⟩
      · intro j w hj
        have hr : (rank2 asc means)[j]? = some (some (rank2Of asc means w)) := by
          rw [rank2_getElem?, hj]; rfl
        have hle := h2 j _ hr
        have hwmem : some w ∈ means := List.mem_of_getElem? hj
        cases asc with
        | true =>
          simp only [if_true]
          by_contra hc
          have := rank2Of_lt_asc hwmem (not_le.mp hc)
          omega
        | false =>
          simp only [Bool.false_eq_true, if_false]
          by_contra hc
          have := rank2Of_lt_desc hwmem (not_le.mp hc)
          omega
      · intro j w hji hj hwv
        have hr : (rank2 asc means)[j]? = some (some (rank2Of asc means w)) := by
          rw [rank2_getElem?, hj]; rfl
        have := h3 j _ hji hr
        rw [hwv] at this
        omega

/-! ## evaluate-all, rows, the search -/

theorem evalAll_ok_length {ev : Params → EvalOut} {cs : List Params} {outs : List (List Score)}
    (h : evalAll ev cs = .ok outs) : outs.length = cs.length := by
  induction cs generalizing outs with
  | nil => simp [evalAll] at h; subst h; rfl
  | cons c t ih =>
    simp only [evalAll] at h
    cases hc : ev c with
    | error e => rw [hc] at h; simp at h
    | ok s =>
      rw [hc] at h
      cases ht : evalAll ev t with
      | error e => rw [ht] at h; simp at h
      | ok r =>
        rw [ht] at h
        simp only [Except.ok.injEq] at h
        subst h
        simp [ih ht]

theorem evalAll_ok_get {ev : Params → EvalOut} {cs : List Params} {outs : List (List Score)}
    (h : evalAll ev cs = .ok outs) (i : Nat) (p : Params) (hp : cs[i]? = some p) :
    ∃ s, ev p = .ok s ∧ outs[i]? = some s := by
  induction cs generalizing outs i with
  | nil => simp at hp
  | cons c t ih =>
    simp only [evalAll] at h
    cases hc : ev c with
    | error e => rw [hc] at h; simp at h
    | ok s =>
      rw [hc] at h
      cases ht : evalAll ev t with
      | error e => rw [ht] at h; simp at h
      | ok r =>
        rw [ht] at h
        simp only [Except.ok.injEq] at h
        subst h
        cases i with
        | zero =>
          simp only [List.getElem?_cons_zero, Option.some.injEq] at hp
          subst hp
          exact ⟨s, hc, by simp⟩
        | succ i =>
          obtain ⟨s', h1, h2⟩ := ih ht i (by simpa using hp)
          exact ⟨s', h1, by simpa using h2⟩

/-- when every candidate evaluates, evaluate() is called once per candidate, in order, each time
with the tuner's `cv` and the series given to `fit` -/
theorem evalCalls_of_ok {C Y : Type} (cv : C) (y : Y) {ev : Params → EvalOut} {cs : List Params}
    {outs : List (List Score)} (h : evalAll ev cs = .ok outs) :
    evalCalls cv y ev cs = cs.map (fun p => (cv, y, p)) := by
  induction cs generalizing outs with
  | nil => rfl
  | cons c t ih =>
    simp only [evalAll] at h
    cases hc : ev c with
    | error e => rw [hc] at h; simp at h
    | ok s =>
      rw [hc] at h
      cases ht : evalAll ev t with
      | error e => rw [ht] at h; simp at h
      | ok r =>
        simp only [evalCalls, hc, List.map_cons, ih ht]

theorem evalCalls_args {C Y : Type} (cv : C) (y : Y) (ev : Params → EvalOut) (cs : List Params) :
    ∀ c ∈ evalCalls cv y ev cs, c.1 = cv ∧ c.2.1 = y ∧ c.2.2 ∈ cs := by
  induction cs with
  | nil => intro c hc; simp [evalCalls] at hc
  | cons a t ih =>
    intro c hc
    simp only [evalCalls] at hc
    cases ha : ev a with
    | error e =>
      rw [ha] at hc
      simp only [List.mem_singleton] at hc
      subst hc
      exact ⟨rfl, rfl, by simp⟩
    | ok s =>
      rw [ha] at hc
      rcases List.mem_cons.mp hc with rfl | hc
      · exact ⟨rfl, rfl, by simp⟩
      · obtain ⟨h1, h2, h3⟩ := ih c hc
        exact ⟨h1, h2, List.mem_cons_of_mem _ h3⟩

theorem mkRows_getElem? {cands : List Params} {means : List Score} {ranks : List (Option Nat)} {i : Nat}
    {c : Params} {m : Score} {r : Option Nat}
    (hc : cands[i]? = some c) (hm : means[i]? = some m) (hr : ranks[i]? = some r) :
    (mkRows cands means ranks)[i]? = some ⟨c, m, r⟩ := by
  have h1 : (means.zip ranks)[i]? = some (m, r) := List.getElem?_zip_eq_some.mpr ⟨hm, hr⟩
  have h2 : (cands.zip (means.zip ranks))[i]? = some (c, (m, r)) := List.getElem?_zip_eq_some.mpr ⟨hc, h1⟩
  simp [mkRows, h2]

theorem mkRows_length {cands : List Params} {means : List Score} {ranks : List (Option Nat)}
    (h1 : means.length = cands.length) (h2 : ranks.length = cands.length) :
    (mkRows cands means ranks).length = cands.length := by
  simp [mkRows, h1, h2]

theorem mkRows_mem {cands : List Params} {means : List Score} {ranks : List (Option Nat)} {row : Row}
    (h : row ∈ mkRows cands means ranks) : row.mean ∈ means ∧ row.params ∈ cands := by
  simp only [mkRows, List.mem_map] at h
  obtain ⟨t, ht, rfl⟩ := h
  have h1 := List.of_mem_zip ht
  have h2 := List.of_mem_zip h1.2
  exact ⟨h2.1, h1.1⟩

/-- everything `searchDir` returns, spelled out -/
theorem searchDir_spec {cands : List Params} {ev : Params → EvalOut} {asc : Bool} {res : SearchResult}
    (h : searchDir cands ev asc = .ok res) :
    ∃ outs r, evalAll ev cands = .ok outs ∧ outs ≠ [] ∧
      res.rows = mkRows cands (outs.map colMean) (rank2 asc (outs.map colMean)) ∧
      argminFirst (rank2 asc (outs.map colMean)) = some (res.bestIndex, r) ∧
      res.bestScore = ((outs.map colMean)[res.bestIndex]?).getD none ∧
      res.bestParams = (cands[res.bestIndex]?).getD [] := by
  unfold searchDir at h
  cases he : evalAll ev cands with
  | error e => rw [he] at h; simp at h
  | ok outs =>
    rw [he] at h
    simp only at h
    split at h
    · simp at h
    · rename_i hne
      cases ha : argminFirst (rank2 asc (List.map colMean outs)) with
      | none => rw [ha] at h; simp at h
      | some ir =>
        obtain ⟨i, r⟩ := ir
        rw [ha] at h
        simp only [Except.ok.injEq] at h
        subst h
        refine ⟨outs, r, rfl, ?_, rfl, ha, rfl, rfl⟩
        intro hnil; subst hnil; simp at hne

theorem mkRows_getElem?_mean {cands : List Params} {means : List Score} {ranks : List (Option Nat)} {j : Nat}
    {row : Row} (h : (mkRows cands means ranks)[j]? = some row) :
    means[j]? = some row.mean ∧ cands[j]? = some row.params := by
  simp only [mkRows, List.getElem?_map, Option.map_eq_some_iff] at h
  obtain ⟨t, ht, rfl⟩ := h
  have h1 := List.getElem?_zip_eq_some.mp ht
  have h2 := List.getElem?_zip_eq_some.mp h1.2
  exact ⟨h2.1, h1.1⟩

/-- the selection made by `searchDir`, in terms of the rows of `cv_results_` -/
theorem searchDir_select {cands : List Params} {ev : Params → EvalOut} {asc : Bool} {res : SearchResult}
    (h : searchDir cands ev asc = .ok res) :
    ∃ v, res.bestScore = some v ∧
      (∀ row ∈ res.rows, ∀ w, row.mean = some w → if asc then v ≤ w else w ≤ v) ∧
      (∀ (j : Nat) (row : Row), j < res.bestIndex → res.rows[j]? = some row → row.mean ≠ some v) := by
  obtain ⟨outs, r, he, hne, hrows, harg, hscore, hparams⟩ := searchDir_spec h
  obtain ⟨v, hv, hall, hfirst⟩ := select_spec harg
  refine ⟨v, by rw [hscore, hv]; rfl, ?_, ?_⟩
  · intro row hrow w hw
    rw [hrows] at hrow
    have hm := (mkRows_mem hrow).1
    rw [hw] at hm
    obtain ⟨j, hj⟩ := List.getElem?_of_mem hm
    exact hall j w hj
  · intro j row hj hrow hmean
    rw [hrows] at hrow
    have := (mkRows_getElem?_mean hrow).1
    rw [hmean] at this
    exact hfirst j v hj this rfl

/-! ## the tuner -/

/-- everything a successful `fit` of the tuner establishes -/
theorem fitTuner_ok_spec {S Op V A C Y : Type} {m : Machine S Op V A} {cfg : Config C}
    {ev : C → Y → Params → EvalOut} {st st' : TState S} {y : Y} {a : A}
    (h : fitTuner m cfg ev st y a = (st', .ok ())) :
    ∃ cands r, candidatesOf cfg.source = .ok cands ∧ search cands (ev cfg.cv y) cfg.gib = .ok r ∧
      st'.result = some r ∧ st'.isFitted = true ∧
      (cfg.refit = true → ∃ s, m.fit (m.init r.bestParams) a = .ok s ∧ st'.best = some s) ∧
      (cfg.refit = false → st'.best = some (m.init r.bestParams)) := by
  unfold fitTuner at h
  cases hc : candidatesOf cfg.source with
  | error e => rw [hc] at h; simp at h
  | ok cands =>
    rw [hc] at h
    simp only at h
    cases hs : search cands (ev cfg.cv y) cfg.gib with
    | error e => rw [hs] at h; simp at h
    | ok r =>
      rw [hs] at h
      simp only at h
      refine ⟨cands, r, rfl, hs, ?_⟩
      cases hr : cfg.refit with
      | true =>
        rw [hr] at h
        simp only [if_true] at h
        cases hf : m.fit (m.init r.bestParams) a with
        | error e => rw [hf] at h; simp at h
        | ok s =>
          rw [hf] at h
          simp only [Prod.mk.injEq, and_true] at h
          subst h
          refine ⟨rfl, rfl, fun _ => ⟨s, rfl, rfl⟩, ?_⟩
          intro hh; cases hh
      | false =>
        rw [hr] at h
        simp only [Bool.false_eq_true, if_false, Prod.mk.injEq, and_true] at h
        subst h
        refine ⟨rfl, rfl, ?_, fun _ => rfl⟩
        intro hh; cases hh

/-- a failing `fit` never switches the tuner to "fitted" -/
theorem fitTuner_error_isFitted {S Op V A C Y : Type} {m : Machine S Op V A} {cfg : Config C}
    {ev : C → Y → Params → EvalOut} {st st' : TState S} {y : Y} {a : A} {e : Err}
    (h : fitTuner m cfg ev st y a = (st', .error e)) : st'.isFitted = st.isFitted := by
  unfold fitTuner at h
  cases hc : candidatesOf cfg.source with
  | error e' => rw [hc] at h; simp only [Prod.mk.injEq] at h; rw [← h.1]
  | ok cands =>
    rw [hc] at h
    simp only at h
    cases hs : search cands (ev cfg.cv y) cfg.gib with
    | error e' => rw [hs] at h; simp only [Prod.mk.injEq] at h; rw [← h.1]
    | ok r =>
      rw [hs] at h
      simp only at h
      cases hr : cfg.refit with
      | true =>
        rw [hr] at h
        simp only [if_true] at h
        cases hf : m.fit (m.init r.bestParams) a with
        | error e' => rw [hf] at h; simp only [Prod.mk.injEq] at h; rw [← h.1]
        | ok s => rw [hf] at h; simp at h
      | false => rw [hr] at h; simp at h

/-- delegation, one list of calls: a refitted tuner answers exactly like its best forecaster -/
theorem runTuner_eq_runMachine {S Op V A C : Type} (m : Machine S Op V A) (cfg : Config C)
    (hrefit : cfg.refit = true) (r : Option SearchResult) (calls : List (Call Op))
    (hexp : ∀ c ∈ calls, c.op = c.direct)
    (hwb : ∀ c ∈ calls, c.named = true → ∀ s, m.fitted s = false → m.step s c.op = (s, .error .notFitted))
    (s : S) :
    runTuner m cfg ⟨true, some s, r⟩ calls = runMachine m s calls := by
  induction calls generalizing s with
  | nil => rfl
  | cons c cs ih =>
    have hexp' : ∀ c ∈ cs, c.op = c.direct := fun c hc => hexp c (List.mem_cons_of_mem _ hc)
    have hwb' : ∀ c ∈ cs, c.named = true → ∀ s, m.fitted s = false → m.step s c.op = (s, .error .notFitted) :=
      fun c hc => hwb c (List.mem_cons_of_mem _ hc)
    have hc : c.op = c.direct := hexp c (by simp)
    simp only [runTuner, runMachine, stepTuner, hrefit, Bool.not_true, Bool.and_false, Bool.not_false,
      Bool.false_eq_true, if_false]
    by_cases hg : (c.named && !m.fitted s) = true
    · simp only [hg, if_true]
      simp only [Bool.and_eq_true, Bool.not_eq_true'] at hg
      have hstep := hwb c (by simp) hg.1 s hg.2
      rw [← hc, hstep]
      simp only [wrapOut, List.cons.injEq, true_and]
      exact ih hexp' hwb' s
    · simp only [hg, Bool.false_eq_true, if_false]
      rw [← hc]
      simp only [List.cons.injEq, true_and]
      exact ih hexp' hwb' _

/-! ## the grid -/

/-- `p` picks, for every name of the (sorted) item list and in that order, one of its listed values -/
def Picks (p : Params) (items : List (String × List Val)) : Prop :=
  List.Forall₂ (fun kv it => kv.1 = it.1 ∧ kv.2 ∈ it.2) p items

theorem mem_product (items : List (String × List Val)) (p : Params) :
    p ∈ product items ↔ Picks p items := by
  induction items generalizing p with
  | nil =>
    simp only [product, List.mem_singleton, Picks]
    constructor
    · rintro rfl; exact List.Forall₂.nil
    · intro h; cases h; rfl
  | cons it rest ih =>
    obtain ⟨k, vs⟩ := it
    simp only [product, List.mem_flatMap, List.mem_map, Picks]
    constructor
    · rintro ⟨v, hv, q, hq, rfl⟩
      exact List.Forall₂.cons ⟨rfl, hv⟩ ((ih q).mp hq)
    · intro h
      cases h with
      | cons hhead htail =>
        rename_i kv q
        obtain ⟨k', v⟩ := kv
        simp only at hhead
        obtain ⟨rfl, hv⟩ := hhead
        exact ⟨v, hv, q, (ih q).mpr htail, rfl⟩

def prodLen : List (String × List Val) → Nat
  | [] => 1
  | it :: rest => it.2.length * prodLen rest

theorem product_length (items : List (String × List Val)) : (product items).length = prodLen items := by
  induction items with
  | nil => rfl
  | cons it rest ih =>
    obtain ⟨k, vs⟩ := it
    simp only [product, prodLen]
    induction vs with
    | nil => simp
    | cons v vt ihv =>
      simp only [List.flatMap_cons, List.length_append, List.length_map, ih, List.length_cons] at ihv ⊢
      rw [ihv, Nat.add_mul, Nat.one_mul, Nat.add_comm]

theorem product_nodup (items : List (String × List Val)) (h : ∀ it ∈ items, it.2.Nodup) :
    (product items).Nodup := by
  induction items with
  | nil => simp [product]
  | cons it rest ih =>
    obtain ⟨k, vs⟩ := it
    have hrest := ih (fun it hit => h it (List.mem_cons_of_mem _ hit))
    have hvs : vs.Nodup := h (k, vs) (by simp)
    simp only [product]
    rw [List.nodup_flatMap]
    refine ⟨?_, ?_⟩
    · intro v _
      exact hrest.map (by intro a b hab; simpa using hab)
    · refine hvs.pairwise_of_forall_ne ?_
      intro a _ b _ hab
      simp only [Function.onFun, List.disjoint_left, List.mem_map]
      rintro x ⟨q, _, rfl⟩ ⟨q', _, hq'⟩
      simp only [List.cons.injEq, Prod.mk.injEq] at hq'
      exact hab hq'.1.2.symm

theorem insertItem_perm (kv : String × List Val) (l : List (String × List Val)) :
    (insertItem kv l).Perm (kv :: l) := by
  induction l with
  | nil => exact List.Perm.refl _
  | cons h t ih =>
    simp only [insertItem]
    split
    · exact List.Perm.refl _
    · exact (List.Perm.cons h ih).trans (List.Perm.swap kv h t)

/-- `sorted(p.items())` keeps exactly the dict's items -/
theorem sortItems_perm (l : List (String × List Val)) : (sortItems l).Perm l := by
  induction l with
  | nil => exact List.Perm.refl _
  | cons h t ih =>
    simp only [sortItems]
    exact (insertItem_perm h (sortItems t)).trans (List.Perm.cons h ih)

end SkVerif.Lem.Tune
