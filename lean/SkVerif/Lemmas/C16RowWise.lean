/- Helper lemmas for C16 (row-wise maps, selection, ensembles, pipelines). -/
import SkVerif.Model.C16RowWise
namespace SkVerif.C16.Lem
open SkVerif SkVerif.C16

variable {α β γ : Type}

theorem select_nil (X : List α) : select [] X = [] := rfl

theorem select_cons (i : Nat) (t : List Nat) (X : List α) :
    select (i :: t) X = (match X[i]? with | some x => [x] | none => []) ++ select t X := by
  unfold select
  rw [List.filterMap_cons]
  cases X[i]? <;> rfl

theorem select_map (f : α → β) (idx : List Nat) (X : List α) :
    select idx (X.map f) = (select idx X).map f := by
  induction idx with
  | nil => rfl
  | cons i t ih =>
    rw [select_cons, select_cons, List.map_append, ih, List.getElem?_map]
    cases X[i]? <;> rfl

theorem select_single (X : List α) (i : Nat) (h : i < X.length) : select [i] X = [X[i]] := by
  rw [select_cons, select_nil, List.getElem?_eq_getElem h]; rfl

theorem select_length_of_valid (idx : List Nat) (X : List α) (h : ∀ i ∈ idx, i < X.length) :
    (select idx X).length = idx.length := by
  induction idx with
  | nil => rfl
  | cons i t ih =>
    have hi : i < X.length := h i (List.mem_cons_self ..)
    rw [select_cons, List.getElem?_eq_getElem hi, List.length_append, ih (fun j hj => h j (List.mem_cons_of_mem _ hj))]
    simp; omega

theorem select_getElem? (idx : List Nat) (X : List α) (h : ∀ i ∈ idx, i < X.length) (k : Nat) :
    (select idx X)[k]? = (idx[k]?).bind (fun i => X[i]?) := by
  induction idx generalizing k with
  | nil => simp [select_nil]
  | cons i t ih =>
    have hi : i < X.length := h i (List.mem_cons_self ..)
    rw [select_cons, List.getElem?_eq_getElem hi]
    cases k with
    | zero => simp [List.getElem?_eq_getElem hi]
    | succ k => simpa using ih (fun j hj => h j (List.mem_cons_of_mem _ hj)) k

theorem select_range (X : List α) : select (List.range X.length) X = X := by
  apply List.ext_getElem?
  intro k
  rw [select_getElem? _ _ (fun i hi => List.mem_range.mp hi)]
  by_cases hk : k < X.length
  · simp [hk]
  · simp [hk]

theorem select_perm_congr {i1 i2 : List Nat} (h : i1.Perm i2) (X : List α) : (select i1 X).Perm (select i2 X) := by
  unfold select
  exact h.filterMap _

theorem select_mem (idx : List Nat) (X : List α) (x : α) (h : x ∈ select idx X) : x ∈ X := by
  unfold select at h
  obtain ⟨i, _, hi⟩ := List.mem_filterMap.mp h
  exact List.mem_of_getElem? hi

/-! ### loop forms -/

theorem loopAppend_acc (f : α → β) (X : List α) (acc : List β) :
    X.foldl (fun acc x => acc ++ [f x]) acc = acc ++ X.map f := by
  induction X generalizing acc with
  | nil => simp
  | cons x t ih => simp [List.foldl_cons, ih, List.append_assoc]

theorem loopAppend_eq (f : α → β) (X : List α) : loopAppend f X = X.map f := by
  unfold loopAppend; rw [loopAppend_acc]; rfl

theorem loopIndex_eq (f : α → β) (X : List α) : loopIndex f X = X.map f := by
  unfold loopIndex
  have : (fun (i : Nat) => (X[i]?).map f) = (fun (i : Nat) => (X.map f)[i]?) := by
    funext i; rw [List.getElem?_map]
  rw [this]
  have h := select_range (X.map f)
  unfold select at h
  rw [List.length_map] at h
  exact h

/-! ### raising row loops -/

theorem mapM_ok_cons {ε : Type} (f : α → Except ε β) (x : α) (t : List α) (Y : List β)
    (h : (x :: t).mapM f = .ok Y) : ∃ y Y', f x = .ok y ∧ t.mapM f = .ok Y' ∧ Y = y :: Y' := by
  rw [List.mapM_cons] at h
  cases hx : f x with
  | error e => rw [hx] at h; cases h
  | ok y =>
    rw [hx] at h
    cases ht : t.mapM f with
    | error e => rw [ht] at h; cases h
    | ok Y' => rw [ht] at h; cases h; exact ⟨y, Y', rfl, rfl, rfl⟩

theorem mapM_ok_getElem? {ε : Type} (f : α → Except ε β) (X : List α) (Y : List β) (h : X.mapM f = .ok Y) (i : Nat) :
    (X[i]?).map f = (Y[i]?).map Except.ok := by
  induction X generalizing Y i with
  | nil => rw [List.mapM_nil] at h; cases h; simp
  | cons x t ih =>
    obtain ⟨y, Y', hx, ht, rfl⟩ := mapM_ok_cons f x t Y h
    cases i with
    | zero => simp [hx]
    | succ i => simpa using ih Y' ht i

theorem mapM_select {ε : Type} (f : α → Except ε β) (X : List α) (Y : List β) (h : X.mapM f = .ok Y) (idx : List Nat) :
    (select idx X).mapM f = .ok (select idx Y) := by
  induction idx with
  | nil => rfl
  | cons i t ih =>
    rw [select_cons, select_cons]
    have hi := mapM_ok_getElem? f X Y h i
    cases hx : X[i]? with
    | none =>
      rw [hx] at hi
      cases hy : Y[i]? with
      | none => simpa using ih
      | some y => rw [hy] at hi; cases hi
    | some x =>
      rw [hx] at hi
      cases hy : Y[i]? with
      | none => rw [hy] at hi; cases hi
      | some y =>
        rw [hy] at hi
        simp only [Option.map_some, Option.some.injEq] at hi
        simp only [List.cons_append, List.nil_append, List.mapM_cons, hi, ih]
        rfl

theorem mapM_error_culprit {ε : Type} (f : α → Except ε β) (X : List α) (e : ε) (h : X.mapM f = .error e) :
    ∃ x ∈ X, f x = .error e := by
  induction X with
  | nil => rw [List.mapM_nil] at h; cases h
  | cons x t ih =>
    rw [List.mapM_cons] at h
    cases hx : f x with
    | error e' =>
      rw [hx] at h; cases h
      exact ⟨x, List.mem_cons_self .., hx⟩
    | ok y =>
      rw [hx] at h
      cases ht : t.mapM f with
      | error e' =>
        rw [ht] at h; cases h
        obtain ⟨x', hm, hx'⟩ := ih ht
        exact ⟨x', List.mem_cons_of_mem _ hm, hx'⟩
      | ok Y' => rw [ht] at h; cases h

end SkVerif.C16.Lem
