/- Lemmas for C05: last window, prediction instance layout, feedback loops. -/
import SkVerif.Model.Reduce
import SkVerif.Spec.Reduce
import SkVerif.Lemmas.Sort
namespace SkVerif.Lem.Reduce
open SkVerif.Reduce
open SkVerif.Spec.Reduce

variable {α : Type}

theorem locSlice_last {β : Type} (t0 : Int) (l : List β) (wl : Nat) (hwl : wl ≤ l.length) (h1 : 1 ≤ wl) :
    locSlice t0 l (t0 + (l.length : Int) - 1 - (wl : Int) + 1) (t0 + (l.length : Int) - 1) = l.drop (l.length - wl) := by
  unfold locSlice
  have e1 : (t0 + (l.length : Int) - 1 - t0 + 1).toNat = l.length := by omega
  have e2 : (t0 + (l.length : Int) - 1 - (wl : Int) + 1 - t0).toNat = l.length - wl := by omega
  rw [e1, e2, List.take_length]

theorem drop_eq_map_range (d : α) (l : List α) (wl : Nat) (hwl : wl ≤ l.length) :
    l.drop (l.length - wl) = (List.range wl).map fun k => l.getD (l.length - wl + k) d := by
  apply List.ext_getElem
  · simp; omega
  · intro i h1 h2
    simp at h2
    have : l.length - wl + i < l.length := by omega
    simp [List.getD_eq_getElem?_getD, this]

/-- `_get_last_window` on a contiguous index whose cutoff is the last label -/
theorem lastWindow_eq (t0 : Int) (wl : Nat) (y : List α) (X : Option (List (List α))) (nc : Nat)
    (hr : Rect y X nc) (hwl : wl ≤ y.length) (h1 : 1 ≤ wl) :
    lastWindow t0 (t0 + (y.length : Int) - 1) wl y X =
      (y.drop (y.length - wl), X.map fun rows => rows.drop (y.length - wl)) := by
  unfold lastWindow
  simp only [locSlice_last t0 y wl hwl h1]
  cases X with
  | none => rfl
  | some rows =>
    obtain ⟨hl, _⟩ := hr
    have := locSlice_last t0 rows wl (by omega) h1
    rw [hl] at this
    simp only [Option.map_some, this]

/-- the prediction instance of direct / multioutput is laid out like a training row: it is the
specification's window at position `n - wl` -/
theorem predInst_eq (V : Vals α) (d : α) (sci : Scitype) (wl : Nat) (y : List α) (X : Option (List (List α)))
    (nc : Nat) (hr : Rect y X nc) (hwl : wl ≤ y.length) :
    predInst V sci (y.drop (y.length - wl)) (X.map fun rows => rows.drop (y.length - wl)) nc =
      lastInst (ofLists d y X) y.length (nc + 1) wl (sci == .tabular) := by
  have hw : predCube V (y.drop (y.length - wl)) (X.map fun rows => rows.drop (y.length - wl)) nc =
      window (ofLists d y X) (nc + 1) wl (y.length - wl) := by
    unfold window predCube
    rw [List.range_succ_eq_map, List.map_cons, List.map_map]
    have h0 : ((List.range wl).map fun k => ofLists d y X (y.length - wl + k) 0) = y.drop (y.length - wl) := by
      rw [drop_eq_map_range d y wl hwl]; rfl
    rw [h0]
    cases X with
    | none =>
      simp [Rect] at hr
      subst hr
      simp
    | some rows =>
      obtain ⟨hl, hrow⟩ := hr
      simp only [Option.map_some]
      congr 1
      unfold transposeRows
      apply List.map_congr_left
      intro c hc
      have hc' := List.mem_range.mp hc
      apply List.ext_getElem
      · simp; omega
      · intro i h1 h2
        simp at h2
        have hi : y.length - wl + i < rows.length := by omega
        have hlen : (rows[y.length - wl + i]).length = nc := hrow _ (List.getElem_mem hi)
        simp [ofLists, List.getD_eq_getElem?_getD, hi, hlen, hc']
  unfold predInst lastInst
  rw [hw]
  cases sci <;> simp [present, flattenInst, toSci]

/-- a strictly increasing non-empty list of steps is stored as it is by `check_fh` -/
theorem checkFh_sorted (fh : List Int) (hs : fh.Pairwise (· < ·)) (hne : fh ≠ []) : checkFh fh = .ok fh := by
  have hnd : fh.Nodup := hs.imp (by intro a b h; omega)
  have hle : fh.Pairwise (· ≤ ·) := hs.imp (by intro a b h; omega)
  have hlen : fh.length ≠ 0 := by
    intro h; exact hne (List.length_eq_zero_iff.mp h)
  simp [checkFh, FH.checkFh, FH.mk, FH.checkValues, hnd, Except.map, bind, Except.bind,
    Lem.sortInts_of_sorted fh hle, hlen, pure, Except.pure]

theorem set_mid (pre : List α) (k : Nat) (z p : α) :
    (pre ++ List.replicate (k + 1) z).set pre.length p = pre ++ [p] ++ List.replicate k z := by
  rw [List.set_append_right _ _ (Nat.le_refl _)]
  simp [List.replicate_succ]

theorem toSci_eq_present (sci : Scitype) (inst : Inst α) :
    toSci sci inst = present (sci == .tabular) inst := by
  cases sci <;> simp [toSci, present, flattenInst]

/-- the dirrec prediction loop is the specification's trace -/
theorem dirrecLoop_eq (V : Vals α) (sci : Scitype) (wl : Nat) (w : List α) (hw : w.length = wl) :
    ∀ (ests : List (Nat × Est α)) (earlier : List α),
      dirrecLoop V sci wl ests earlier.length (w ++ earlier ++ List.replicate ests.length V.zero) =
        (List.zipWith (fun (e : Nat × Est α) (t : Inst α × α) => Call.predict e.1 t.1 [t.2]) ests
            (dirrecTrace (sci == .tabular) w (ests.map fun e => applyEst e.2) earlier),
          (dirrecTrace (sci == .tabular) w (ests.map fun e => applyEst e.2) earlier).map Prod.snd) := by
  intro ests
  induction ests with
  | nil => intro earlier; simp [dirrecLoop, dirrecTrace]
  | cons e es ih =>
    intro earlier
    obtain ⟨k, est⟩ := e
    have htake : (w ++ earlier ++ List.replicate (es.length + 1) V.zero).take (wl + earlier.length) = w ++ earlier := by
      rw [List.take_append_of_le_length (by simp [hw])]
      rw [List.take_of_length_le (by simp [hw])]
    have hset : (w ++ earlier ++ List.replicate (es.length + 1) V.zero).set (wl + earlier.length)
        (applyEst est (toSci sci [w ++ earlier])) =
        w ++ (earlier ++ [applyEst est (toSci sci [w ++ earlier])]) ++ List.replicate es.length V.zero := by
      have : wl + earlier.length = (w ++ earlier).length := by simp [hw]
      rw [this, set_mid]
      simp
    simp only [dirrecLoop, List.length_cons, htake, hset]
    have := ih (earlier ++ [applyEst est (toSci sci [w ++ earlier])])
    simp only [List.length_append, List.length_singleton] at this
    rw [this]
    simp [dirrecTrace, dirrecRow, toSci_eq_present]

/-- the recursive prediction loop is the specification's trace, given that the slice of `last` it
reads at step `i` is the specification's window over (observed ++ forecasts so far) -/
theorem recLoop_eq (V : Vals α) (f : Inst α → α) (k : Nat) (sci : Scitype) (wl : Nat) (exo : List (List α))
    (zf : Nat → Nat → α) (n nv : Nat) (d : α) (yLast : List α) (hy : yLast.length = wl) (M : Nat)
    (hinst : ∀ sofar : List α, sofar.length < M →
      ((yLast ++ sofar).drop sofar.length) :: exo.map (fun r => (r.drop sofar.length).take wl) =
        window (extend zf n sofar d) nv wl (n - wl + sofar.length)) :
    ∀ (m : Nat) (sofar : List α), sofar.length + m = M →
      recLoop f k sci wl exo m sofar.length (yLast ++ sofar ++ List.replicate m V.zero) =
        ((recTraceFrom f zf n nv wl (sci == .tabular) d sofar m).map
            (fun (t : Inst α × α) => Call.predict k t.1 [t.2]),
          (recTraceFrom f zf n nv wl (sci == .tabular) d sofar m).map Prod.snd) := by
  intro m
  induction m with
  | zero => intro sofar _; simp [recLoop, recTraceFrom]
  | succ m ih =>
    intro sofar hM
    have hslice : ((yLast ++ sofar ++ List.replicate (m + 1) V.zero).drop sofar.length).take wl =
        (yLast ++ sofar).drop sofar.length := by
      rw [List.drop_append_of_le_length (by simp)]
      rw [List.take_append_of_le_length (by simp [hy])]
      rw [List.take_of_length_le (by simp [hy])]
    have hx := hinst sofar (by omega)
    simp only [recLoop, hslice, hx]
    have hset : ∀ p : α, (yLast ++ sofar ++ List.replicate (m + 1) V.zero).set (wl + sofar.length) p =
        yLast ++ (sofar ++ [p]) ++ List.replicate m V.zero := by
      intro p
      have : wl + sofar.length = (yLast ++ sofar).length := by simp [hy]
      rw [this, set_mid]
      simp
    rw [hset]
    have := ih (sofar ++ [f (toSci sci (window (extend zf n sofar d) nv wl (n - wl + sofar.length)))])
      (by simp; omega)
    simp only [List.length_append, List.length_singleton] at this
    rw [this]
    simp [recTraceFrom, toSci_eq_present]
