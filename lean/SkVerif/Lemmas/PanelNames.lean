/- C15: the concrete name operations (python str / int labels) satisfy what the theorems assume. -/
import SkVerif.Lemmas.PanelList
namespace SkVerif.Panel.Lem
open SkVerif.Panel

theorem defaultNames_nodup {ν} (ops : NameOps ν) (hinj : ∀ i j, ops.dflt i = ops.dflt j → i = j)
    (c : Nat) : (defaultNames ops c).Nodup := by
  unfold defaultNames List.Nodup
  rw [List.pairwise_map]
  exact (List.nodup_range (n := c)).imp (by intro a b h e; exact h (hinj a b e))

theorem repr_inj (i j : Nat) (h : Nat.repr i = Nat.repr j) : i = j := by
  have h1 := congrArg String.toList h
  simp [Nat.repr] at h1
  have := congrArg (fun l => Nat.ofDigitChars 10 l 0) h1
  simpa [Nat.ofDigitChars_ten_toDigits] using this

/-- `var_i = var_j → i = j` -/
theorem nameOps_dflt_inj (i j : Nat) (h : nameOps.dflt i = nameOps.dflt j) : i = j := by
  simp only [nameOps, Name.s.injEq] at h
  have h1 := congrArg String.toList h
  simp only [String.toList_append, List.append_cancel_left_eq] at h1
  apply repr_inj
  exact String.toList_inj.mp h1

theorem nameOps_defaultNames_nodup (c : Nat) : (defaultNames nameOps c).Nodup :=
  defaultNames_nodup nameOps nameOps_dflt_inj c

end SkVerif.Panel.Lem
