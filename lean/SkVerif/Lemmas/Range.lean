import SkVerif.Model.Range
import Mathlib.Tactic.Linarith
import Mathlib.Tactic.Ring
import Mathlib.Data.List.Nodup
namespace SkVerif.Lem
open SkVerif

theorem pyRangeLen_pos_spec (a b s : Int) (hs : 0 < s) (i : Nat) :
    i < pyRangeLen a b s ↔ a + s * (i : Int) < b := by
  unfold pyRangeLen
  simp only [hs, if_true]
  constructor
  · intro h
    have h1 : ((i : Int) + 1) ≤ (b - a + s - 1) / s := by omega
    have h2 := (Int.le_ediv_iff_mul_le hs).mp h1
    nlinarith
  · intro h
    have h2 : ((i : Int) + 1) * s ≤ b - a + s - 1 := by nlinarith
    have h1 := (Int.le_ediv_iff_mul_le hs).mpr h2
    omega

theorem pyRange_mem_pos (a b s x : Int) (hs : 0 < s) :
    x ∈ pyRange a b s ↔ a ≤ x ∧ x < b ∧ s ∣ (x - a) := by
  unfold pyRange
  simp only [List.mem_map, List.mem_range]
  constructor
  · rintro ⟨i, hi, rfl⟩
    have := (pyRangeLen_pos_spec a b s hs i).mp hi
    refine ⟨by nlinarith [Int.natCast_nonneg i], this, ⟨i, by ring⟩⟩
  · rintro ⟨h1, h2, ⟨k, hk⟩⟩
    have hk0 : 0 ≤ k := by
      by_contra hneg
      have : k ≤ -1 := by omega
      nlinarith
    refine ⟨k.toNat, ?_, ?_⟩
    · rw [pyRangeLen_pos_spec a b s hs]
      have : ((k.toNat : Nat) : Int) = k := Int.toNat_of_nonneg hk0
      rw [this]; omega
    · have : ((k.toNat : Nat) : Int) = k := Int.toNat_of_nonneg hk0
      rw [this]; omega

theorem pyRange_nodup (a b s : Int) (hs : s ≠ 0) : (pyRange a b s).Nodup := by
  unfold pyRange
  refine List.Nodup.map ?_ List.nodup_range
  intro i j h
  simp only at h
  have : s * (i : Int) = s * (j : Int) := by omega
  have := Int.eq_of_mul_eq_mul_left hs this
  exact_mod_cast this

/-- step-1 range: strictly increasing, contiguous -/
theorem arange_eq (a b : Int) : arange a b = (List.range (b - a).toNat).map (fun (i : Nat) => a + (i : Int)) := by
  unfold arange pyRange pyRangeLen
  simp

theorem arange_mem (a b x : Int) : x ∈ arange a b ↔ a ≤ x ∧ x < b := by
  unfold arange
  rw [pyRange_mem_pos a b 1 x (by omega)]
  simp

theorem pyRange_pairwise_lt (a b s : Int) (hs : 0 < s) : (pyRange a b s).Pairwise (· < ·) := by
  unfold pyRange
  rw [List.pairwise_map]
  have := List.pairwise_lt_range (n := pyRangeLen a b s)
  exact this.imp (by intro i j h; have : (i:Int) < j := by exact_mod_cast h
                     nlinarith)

end SkVerif.Lem
