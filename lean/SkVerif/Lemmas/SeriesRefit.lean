/-
A successful re-fit forgets the object's history: two objects with the same parameters, whatever
they remembered before, are observationally equal after `fit` on the same data.
-/
import SkVerif.Model.SeriesTransform
namespace SkVerif.Lem.ST
open SkVerif SkVerif.ST

/-- same class and same constructor parameters (what `set_params` + `get_params` see) -/
def SameParams : TState → TState → Prop
  | .des a, .des b => a.sp = b.sp ∧ a.mult = b.mult ∧ a.cond = b.cond
  | .det a, .det b => a.degree = b.degree
  | .col a, .col b => a.kind = b.kind
  | .hampel c _, .hampel c' _ => c = c'
  | .pass p _ _ fl _, .pass p' _ _ fl' _ => p = p' ∧ fl = fl'
  | _, _ => False

/-- observational equality: identical, except that an OptionalPassthrough(passthrough=True) may hold
any stale `transformer_` (no call reads it while `passthrough` stays True) -/
def ObsEq : TState → TState → Prop
  | .pass p i h fl ft, .pass p' i' h' fl' ft' =>
      p = p' ∧ fl = fl' ∧ ft = ft' ∧ (fl = false → i = i' ∧ h = h')
  | .des a, .des b => a = b
  | .det a, .det b => a = b
  | .col a, .col b => a = b
  | .hampel c f, .hampel c' f' => c = c' ∧ f = f'
  | _, _ => False

theorem obsEq_refl (st : TState) : ObsEq st st := by
  cases st <;> simp [ObsEq]

/-- one call on observationally equal objects: same result, observationally equal objects again -/
theorem obsEq_stepBasic (reg : Reg) (a b : TState) (h : ObsEq a b) (op : Op) :
    (stepBasic reg a op).2 = (stepBasic reg b op).2 ∧ ObsEq (stepBasic reg a op).1 (stepBasic reg b op).1 := by
  cases a with
  | des s => cases b <;> simp only [ObsEq] at h; subst h; exact ⟨rfl, obsEq_refl _⟩
  | det s => cases b <;> simp only [ObsEq] at h; subst h; exact ⟨rfl, obsEq_refl _⟩
  | col s => cases b <;> simp only [ObsEq] at h; subst h; exact ⟨rfl, obsEq_refl _⟩
  | hampel c f =>
    cases b <;> simp only [ObsEq] at h
    obtain ⟨h1, h2⟩ := h; subst h1; subst h2; exact ⟨rfl, obsEq_refl _⟩
  | pass p i hh fl ft =>
    cases b with
    | pass p' i' hh' fl' ft' =>
      simp only [ObsEq] at h
      obtain ⟨hp, hfl, hft, hin⟩ := h
      subst hp; subst hfl; subst hft
      cases fl with
      | false =>
        obtain ⟨hi, hh2⟩ := hin rfl
        subst hi; subst hh2
        exact ⟨rfl, obsEq_refl _⟩
      | true =>
        cases op with
        | fit inp d => simp [stepBasic, ObsEq]
        | update inp u => simp [stepBasic, ObsEq]
        | fitTransform inp d f => simp [stepBasic, ObsEq]
        | transform inp f =>
          simp only [stepBasic]
          split
          · simp [ObsEq]
          · cases checkSeries false inp <;> simp [ObsEq]
        | inverse inp f =>
          simp only [stepBasic]
          split
          · simp [ObsEq]
          · split
            · simp [ObsEq]
            · cases checkSeries false inp <;> simp [ObsEq]
    | des _ => simp [ObsEq] at h
    | det _ => simp [ObsEq] at h
    | col _ => simp [ObsEq] at h
    | hampel _ _ => simp [ObsEq] at h

theorem obsEq_step (reg : Reg) (a b : TState) (h : ObsEq a b) (op : Op) :
    (step reg a op).2 = (step reg b op).2 ∧ ObsEq (step reg a op).1 (step reg b op).1 := by
  cases op with
  | fitTransform inp d f =>
    simp only [step]
    obtain ⟨h1, h2⟩ := obsEq_stepBasic reg a b h (.fit inp d)
    rw [← h1]
    cases (stepBasic reg a (.fit inp d)).2 with
    | err e => exact ⟨rfl, h2⟩
    | ok => exact obsEq_stepBasic reg _ _ h2 _
    | ser z => exact obsEq_stepBasic reg _ _ h2 _
  | fit inp d => exact obsEq_stepBasic reg a b h _
  | update inp u => exact obsEq_stepBasic reg a b h _
  | transform inp f => exact obsEq_stepBasic reg a b h _
  | inverse inp f => exact obsEq_stepBasic reg a b h _

theorem obsEq_run (reg : Reg) (a b : TState) (h : ObsEq a b) (ops : List Op) :
    run reg a ops = run reg b ops := by
  induction ops generalizing a b with
  | nil => rfl
  | cons op ops ih =>
    obtain ⟨h1, h2⟩ := obsEq_step reg a b h op
    simp only [run, h1, List.cons.injEq, true_and]
    exact ih _ _ h2

/-- `fit` on two objects with the same parameters: same outcome; if it succeeds the two objects are
observationally equal afterwards, whatever either remembered before -/
theorem fit_forgets (reg : Reg) (a b : TState) (h : SameParams a b) (inp : Input) (d : FitData) :
    (stepBasic reg a (.fit inp d)).2 = (stepBasic reg b (.fit inp d)).2 ∧
    ((stepBasic reg a (.fit inp d)).2 = .ok → ObsEq (stepBasic reg a (.fit inp d)).1 (stepBasic reg b (.fit inp d)).1) := by
  cases a with
  | des s =>
    cases b with
    | des s' =>
      obtain ⟨h1, h2, h3⟩ := h
      simp only [stepBasic, ObsEq]
      unfold desFit
      cases checkSeries false inp with
      | error e => simp
      | ok z =>
        simp only [h3]
        by_cases hc : s'.cond = true
        · simp only [hc, ↓reduceIte]
          cases d.isSeasonal with
          | none => simp
          | some bb =>
            cases bb with
            | true =>
              simp only [desDecompose, h1, h2]
              split
              · simp
              · cases d.seasonal <;> simp [h3]
            | false => simp [h1, h2]
        · have hc' : s'.cond = false := by simpa using hc
          simp only [hc, Bool.false_eq_true, ↓reduceIte, desDecompose, h1, h2]
          split
          · simp
          · cases d.seasonal <;> simp [h3, hc']
    | det _ => exact absurd h (by simp [SameParams])
    | col _ => exact absurd h (by simp [SameParams])
    | hampel _ _ => exact absurd h (by simp [SameParams])
    | pass _ _ _ _ _ => exact absurd h (by simp [SameParams])
  | det s =>
    cases b with
    | det s' =>
      simp only [SameParams] at h
      simp only [stepBasic, ObsEq]
      unfold detFit
      cases checkSeries false inp with
      | error e => simp
      | ok z =>
        simp only
        split
        · simp
        · simp [h]
    | des _ => exact absurd h (by simp [SameParams])
    | col _ => exact absurd h (by simp [SameParams])
    | hampel _ _ => exact absurd h (by simp [SameParams])
    | pass _ _ _ _ _ => exact absurd h (by simp [SameParams])
  | col s =>
    cases b with
    | col s' =>
      simp only [SameParams] at h
      simp only [stepBasic, ObsEq]
      unfold colFit
      rw [h]
      split
      · simp
      · cases checkSeries false inp with
        | error e => simp
        | ok z =>
          simp only
          cases d.fitErr <;> simp
    | des _ => exact absurd h (by simp [SameParams])
    | det _ => exact absurd h (by simp [SameParams])
    | hampel _ _ => exact absurd h (by simp [SameParams])
    | pass _ _ _ _ _ => exact absurd h (by simp [SameParams])
  | hampel c f =>
    cases b with
    | hampel c' f' =>
      simp only [SameParams] at h
      subst h
      simp [stepBasic, ObsEq]
    | des _ => exact absurd h (by simp [SameParams])
    | det _ => exact absurd h (by simp [SameParams])
    | col _ => exact absurd h (by simp [SameParams])
    | pass _ _ _ _ _ => exact absurd h (by simp [SameParams])
  | pass p i hh fl ft =>
    cases b with
    | pass p' i' hh' fl' ft' =>
      obtain ⟨hp, hfl⟩ := h
      subst hp; subst hfl
      simp only [stepBasic]
      cases fl with
      | true => simp [ObsEq]
      | false =>
        simp only [Bool.false_eq_true, ↓reduceIte]
        cases (stepBasic reg p (.fit inp d)).2 <;> simp [ObsEq]
    | des _ => exact absurd h (by simp [SameParams])
    | det _ => exact absurd h (by simp [SameParams])
    | col _ => exact absurd h (by simp [SameParams])
    | hampel _ _ => exact absurd h (by simp [SameParams])

end SkVerif.Lem.ST
