/-
Lemmas about the Python string primitives of SkVerif/Model/TsStr.lean
(`splitOn`, `join`, `strip`, `lower`, `replaceQ`, `lines`/`unlines`).  Core Lean only.
-/
import SkVerif.Model.TsStr
namespace SkVerif.TsFile.Lem
open SkVerif.TsFile

/-! ### characters -/

theorem lowerChar_eq_of_not_letter {c x : Char} (h : lowerChar c = x)
    (hx : ¬ ('a' ≤ x ∧ x ≤ 'z')) : c = x := by
  unfold lowerChar at h
  split at h <;> first | exact h | (subst h; exact absurd (by decide) hx)

theorem isSpace_lowerChar (c : Char) : isSpace (lowerChar c) = isSpace c := by
  unfold lowerChar
  split <;> first | rfl | decide

theorem lowerChar_cases (c : Char) :
    lowerChar c = c ∨ lowerChar c ∈ ['a', 'b', 'c', 'd', 'e', 'f', 'g', 'h', 'i', 'j', 'k', 'l', 'm', 'n', 'o', 'p', 'q', 'r', 's', 't', 'u', 'v', 'w', 'x', 'y', 'z'] := by
  unfold lowerChar
  split <;> first | (right; decide) | (left; rfl)

theorem lowerChar_idem (c : Char) : lowerChar (lowerChar c) = lowerChar c := by
  rcases lowerChar_cases c with h | h
  · rw [h, h]
  · generalize lowerChar c = d at h
    simp only [List.mem_cons, List.not_mem_nil, or_false] at h
    rcases h with rfl | rfl | rfl | rfl | rfl | rfl | rfl | rfl | rfl | rfl | rfl | rfl | rfl | rfl | rfl | rfl | rfl | rfl | rfl | rfl | rfl | rfl | rfl | rfl | rfl | rfl <;> rfl

/-- separators and markers that `lower()` neither creates nor destroys -/
def Fixed (x : Char) : Prop := ∀ c, lowerChar c = x ↔ c = x

theorem fixed_of_not_letter (x : Char) (h1 : ¬ ('a' ≤ x ∧ x ≤ 'z')) (h2 : lowerChar x = x) : Fixed x := by
  intro c
  constructor
  · intro h; exact lowerChar_eq_of_not_letter h h1
  · intro h; subst h; exact h2

theorem fixed_colon : Fixed ':' := fixed_of_not_letter _ (by decide) (by decide)
theorem fixed_comma : Fixed ',' := fixed_of_not_letter _ (by decide) (by decide)
theorem fixed_space : Fixed ' ' := fixed_of_not_letter _ (by decide) (by decide)
theorem fixed_qmark : Fixed '?' := fixed_of_not_letter _ (by decide) (by decide)
theorem fixed_hash : Fixed '#' := fixed_of_not_letter _ (by decide) (by decide)

/-! ### lower -/

@[simp] theorem lower_nil : lower [] = [] := rfl
@[simp] theorem lower_cons (c : Char) (s : Str) : lower (c :: s) = lowerChar c :: lower s := rfl
@[simp] theorem lower_append (a b : Str) : lower (a ++ b) = lower a ++ lower b := by simp [lower]

theorem lower_idem (s : Str) : lower (lower s) = lower s := by
  induction s with
  | nil => rfl
  | cons c s ih => simp [lowerChar_idem, ih]

theorem mem_lower_fixed {x : Char} (hx : Fixed x) (s : Str) : x ∈ lower s ↔ x ∈ s := by
  induction s with
  | nil => simp
  | cons c s ih =>
    simp only [lower_cons, List.mem_cons, ih]
    constructor
    · rintro (h | h)
      · exact Or.inl ((hx c).mp h.symm).symm
      · exact Or.inr h
    · rintro (h | h)
      · exact Or.inl ((hx c).mpr h.symm).symm
      · exact Or.inr h

theorem lower_eq_nil {s : Str} : lower s = [] ↔ s = [] := by
  cases s <;> simp

/-! ### splitOn / join -/

theorem splitOn_of_not_mem (sep : Char) (s : Str) (h : sep ∉ s) : splitOn sep s = [s] := by
  induction s with
  | nil => rfl
  | cons c cs ih =>
    have hc : c ≠ sep := fun e => h (by simp [e])
    have hcs : sep ∉ cs := fun e => h (by simp [e])
    simp [splitOn, hc, ih hcs, consHead]

theorem splitOn_append_sep (sep : Char) (a b : Str) (h : sep ∉ a) :
    splitOn sep (a ++ sep :: b) = a :: splitOn sep b := by
  induction a with
  | nil => simp [splitOn]
  | cons c cs ih =>
    have hc : c ≠ sep := fun e => h (by simp [e])
    have hcs : sep ∉ cs := fun e => h (by simp [e])
    simp [splitOn, hc, ih hcs, consHead]

theorem splitOn_join (sep : Char) (parts : List Str) (hne : parts ≠ [])
    (h : ∀ p ∈ parts, sep ∉ p) : splitOn sep (join [sep] parts) = parts := by
  induction parts with
  | nil => exact absurd rfl hne
  | cons p ps ih =>
    cases ps with
    | nil => simpa [join] using splitOn_of_not_mem sep p (h p (by simp))
    | cons q qs =>
      have hp : sep ∉ p := h p (by simp)
      have := ih (by simp) (fun x hx => h x (by simp [hx]))
      simp only [join, List.append_assoc, List.singleton_append]
      rw [splitOn_append_sep sep p _ hp, this]

theorem splitOn_lower {sep : Char} (hs : Fixed sep) (s : Str) :
    splitOn sep (lower s) = (splitOn sep s).map lower := by
  induction s with
  | nil => rfl
  | cons c cs ih =>
    simp only [lower_cons, splitOn]
    by_cases hc : c = sep
    · subst hc
      have : lowerChar c = c := (hs c).mpr rfl
      simp [this, ih]
    · have : lowerChar c ≠ sep := fun e => hc ((hs c).mp e)
      simp only [this, hc, if_false, ih]
      cases splitOn sep cs <;> simp [consHead]

theorem length_splitOn_pos (sep : Char) (s : Str) : 0 < (splitOn sep s).length := by
  have := splitOn_ne_nil sep s
  cases h : splitOn sep s with
  | nil => exact absurd h this
  | cons a b => simp

theorem mem_join_of_mem {sep : Str} {c : Char} {p : Str} {parts : List Str}
    (hp : p ∈ parts) (hc : c ∈ p) : c ∈ join sep parts := by
  induction parts with
  | nil => cases hp
  | cons q qs ih =>
    cases qs with
    | nil =>
      have : p = q := by simpa using hp
      subst this
      simpa [join] using hc
    | cons r rs =>
      simp only [join, List.mem_append]
      rcases List.mem_cons.mp hp with h | h
      · subst h; exact Or.inl (Or.inl hc)
      · exact Or.inr (ih h)

theorem not_mem_join {sep : Str} {c : Char} {parts : List Str}
    (hs : c ∉ sep) (h : ∀ p ∈ parts, c ∉ p) : c ∉ join sep parts := by
  induction parts with
  | nil => simp [join]
  | cons q qs ih =>
    cases qs with
    | nil => simpa [join] using h q (by simp)
    | cons r rs =>
      simp only [join, List.mem_append, not_or]
      exact ⟨⟨h q (by simp), hs⟩, ih (fun p hp => h p (by simp [hp]))⟩

/-! ### strip -/

theorem lstrip_eq_nil {s : Str} : lstrip s = [] ↔ ∀ c ∈ s, isSpace c = true := by
  induction s with
  | nil => simp [lstrip]
  | cons c cs ih =>
    simp only [lstrip]
    by_cases hc : isSpace c = true
    · simp [hc, ih]
    · simp [hc]

theorem rstrip_eq_nil {s : Str} : rstrip s = [] ↔ ∀ c ∈ s, isSpace c = true := by
  induction s with
  | nil => simp [rstrip]
  | cons c cs ih =>
    simp only [rstrip]
    by_cases hc : isSpace c = true
    · by_cases hr : rstrip cs = []
      · have := ih.mp hr
        simp only [hr, hc, and_self, if_true, List.mem_cons, true_iff]
        rintro d (e | e)
        · subst e; exact hc
        · exact this d e
      · simp only [hr, false_and, if_false, List.mem_cons]
        constructor
        · intro h; cases h
        · intro h; exact absurd (ih.mpr (fun d hd => h d (Or.inr hd))) hr
    · have hc' : isSpace c = false := by simpa using hc
      rw [if_neg (by simp [hc'])]
      constructor
      · intro h; cases h
      · intro h; exact absurd (h c (by simp)) hc

theorem rstrip_cons_of_not_space {c : Char} (s : Str) (h : isSpace c = false) :
    rstrip (c :: s) = c :: rstrip s := by
  simp [rstrip, h]

theorem rstrip_cons_of_ne_nil {c : Char} {s : Str} (h : rstrip s ≠ []) :
    rstrip (c :: s) = c :: rstrip s := by
  simp [rstrip, h]

theorem lstrip_cons_of_not_space {c : Char} (s : Str) (h : isSpace c = false) :
    lstrip (c :: s) = c :: s := by
  simp [lstrip, h]

theorem lstrip_cons_of_space {c : Char} (s : Str) (h : isSpace c = true) :
    lstrip (c :: s) = lstrip s := by
  simp [lstrip, h]

theorem rstrip_all_space {s : Str} (h : ∀ c ∈ s, isSpace c = true) : rstrip s = [] :=
  rstrip_eq_nil.mpr h

theorem mem_lstrip {c : Char} {s : Str} (h : c ∈ lstrip s) : c ∈ s := by
  induction s with
  | nil => simp [lstrip] at h
  | cons d ds ih =>
    simp only [lstrip] at h
    split at h
    · exact List.mem_cons_of_mem _ (ih h)
    · exact h

theorem mem_rstrip {c : Char} {s : Str} (h : c ∈ rstrip s) : c ∈ s := by
  induction s with
  | nil => simp [rstrip] at h
  | cons d ds ih =>
    simp only [rstrip] at h
    split at h
    · cases h
    · rcases List.mem_cons.mp h with h | h
      · simp [h]
      · exact List.mem_cons_of_mem _ (ih h)

theorem mem_strip {c : Char} {s : Str} (h : c ∈ strip s) : c ∈ s :=
  mem_lstrip (mem_rstrip h)

theorem strip_eq_nil {s : Str} : strip s = [] ↔ ∀ c ∈ s, isSpace c = true := by
  unfold strip
  rw [rstrip_eq_nil]
  constructor
  · intro h
    induction s with
    | nil => simp
    | cons d ds ih =>
      by_cases hd : isSpace d = true
      · rw [lstrip_cons_of_space _ hd] at h
        intro c hc
        rcases List.mem_cons.mp hc with e | e
        · subst e; exact hd
        · exact ih h c e
      · have hd' : isSpace d = false := by simpa using hd
        rw [lstrip_cons_of_not_space _ hd'] at h
        exact absurd (h d (by simp)) hd
  · intro h c hc
    exact h c (mem_lstrip hc)

theorem strip_ne_nil_of_mem {s : Str} {c : Char} (hc : c ∈ s) (hs : isSpace c = false) : strip s ≠ [] := by
  intro h
  have := strip_eq_nil.mp h c hc
  simp [hs] at this

/-- the first character of `lstrip s` is not white space -/
theorem lstrip_head_not_space (s : Str) : ∀ c r, lstrip s = c :: r → isSpace c = false := by
  induction s with
  | nil => intro c r h; simp [lstrip] at h
  | cons d ds ih =>
    intro c r h
    by_cases hd : isSpace d = true
    · rw [lstrip_cons_of_space _ hd] at h; exact ih c r h
    · have hd' : isSpace d = false := by simpa using hd
      rw [lstrip_cons_of_not_space _ hd'] at h
      cases h; exact hd'

theorem lstrip_idem (s : Str) : lstrip (lstrip s) = lstrip s := by
  cases h : lstrip s with
  | nil => rfl
  | cons c r => exact lstrip_cons_of_not_space r (lstrip_head_not_space s c r h)

theorem rstrip_idem (s : Str) : rstrip (rstrip s) = rstrip s := by
  induction s with
  | nil => rfl
  | cons c cs ih =>
    by_cases h : rstrip cs = [] ∧ isSpace c = true
    · simp [rstrip, h]
    · have : rstrip (c :: cs) = c :: rstrip cs := by simp only [rstrip]; rw [if_neg h]
      rw [this]
      simp only [rstrip, ih]
      rw [if_neg h]

/-- `lstrip` of something already right-stripped stays right-stripped -/
theorem rstrip_lstrip_comm (s : Str) : rstrip (lstrip s) = lstrip (rstrip s) := by
  induction s with
  | nil => rfl
  | cons c cs ih =>
    by_cases hc : isSpace c = true
    · rw [lstrip_cons_of_space _ hc, ih]
      by_cases hr : rstrip cs = []
      · simp [rstrip, hr, hc, lstrip]
      · rw [rstrip_cons_of_ne_nil hr, lstrip_cons_of_space _ hc]
    · have hc' : isSpace c = false := by simpa using hc
      rw [lstrip_cons_of_not_space _ hc', rstrip_cons_of_not_space _ hc', lstrip_cons_of_not_space _ hc']

theorem strip_idem (s : Str) : strip (strip s) = strip s := by
  unfold strip
  rw [← rstrip_lstrip_comm (lstrip s), lstrip_idem, rstrip_idem]

theorem strip_lstrip (s : Str) : strip (lstrip s) = strip s := by
  unfold strip; rw [lstrip_idem]

theorem strip_rstrip (s : Str) : strip (rstrip s) = strip s := by
  unfold strip; rw [← rstrip_lstrip_comm, rstrip_idem]

theorem lstrip_lower (s : Str) : lstrip (lower s) = lower (lstrip s) := by
  induction s with
  | nil => rfl
  | cons c cs ih =>
    simp only [lower_cons, lstrip, isSpace_lowerChar]
    split
    · exact ih
    · rfl

theorem rstrip_lower (s : Str) : rstrip (lower s) = lower (rstrip s) := by
  induction s with
  | nil => rfl
  | cons c cs ih =>
    simp only [lower_cons, rstrip, isSpace_lowerChar, ih, lower_eq_nil]
    split <;> rfl

theorem strip_lower (s : Str) : strip (lower s) = lower (strip s) := by
  unfold strip; rw [lstrip_lower, rstrip_lower]

/-! ### splitting is insensitive to an outer strip, up to stripping the pieces -/

theorem strip_cons_of_space {c : Char} (s : Str) (h : isSpace c = true) : strip (c :: s) = strip s := by
  unfold strip; rw [lstrip_cons_of_space _ h]

theorem map_strip_splitOn_lstrip {sep : Char} (hsep : isSpace sep = false) (s : Str) :
    (splitOn sep (lstrip s)).map strip = (splitOn sep s).map strip := by
  induction s with
  | nil => rfl
  | cons c cs ih =>
    by_cases hc : isSpace c = true
    · rw [lstrip_cons_of_space _ hc, ih]
      have hne : c ≠ sep := by intro e; subst e; simp [hsep] at hc
      simp only [splitOn, hne, if_false]
      cases h : splitOn sep cs with
      | nil => exact absurd h (splitOn_ne_nil sep cs)
      | cons a b => simp [consHead, strip_cons_of_space _ hc]
    · have hc' : isSpace c = false := by simpa using hc
      rw [lstrip_cons_of_not_space _ hc']

theorem strip_of_rstrip_eq_nil {s : Str} (h : rstrip s = []) : strip s = [] :=
  strip_eq_nil.mpr (rstrip_eq_nil.mp h)

theorem strip_cons_rstrip_nil {c : Char} {s : Str} (h : rstrip s = []) : strip (c :: s) = strip [c] := by
  have hs := rstrip_eq_nil.mp h
  by_cases hc : isSpace c = true
  · rw [strip_cons_of_space _ hc, strip_of_rstrip_eq_nil h]
    simp [strip, lstrip, hc, rstrip]
  · have hc' : isSpace c = false := by simpa using hc
    simp [strip, lstrip, hc', rstrip, h]

theorem strip_cons_rstrip {c : Char} (s : Str) : strip (c :: rstrip s) = strip (c :: s) := by
  by_cases hc : isSpace c = true
  · rw [strip_cons_of_space _ hc, strip_cons_of_space _ hc, strip_rstrip]
  · have hc' : isSpace c = false := by simpa using hc
    simp only [strip, lstrip_cons_of_not_space _ hc', rstrip_cons_of_not_space _ hc', rstrip_idem]

/-- `join` undoes `splitOn` -/
theorem join_splitOn (sep : Char) (s : Str) : join [sep] (splitOn sep s) = s := by
  induction s with
  | nil => rfl
  | cons c cs ih =>
    simp only [splitOn]
    cases h : splitOn sep cs with
    | nil => exact absurd h (splitOn_ne_nil sep cs)
    | cons a b =>
      rw [h] at ih
      by_cases hc : c = sep
      · subst hc; simp [join, ih]
      · simp only [hc, if_false, consHead]
        cases b with
        | nil => simp only [join] at ih ⊢; rw [ih]
        | cons b1 b2 => simp only [join, List.cons_append] at ih ⊢; rw [ih]

/-- apply `f` to the last piece -/
def mapLast (f : Str → Str) : List Str → List Str
  | [] => []
  | [x] => [f x]
  | x :: y :: r => x :: mapLast f (y :: r)

theorem mapLast_cons_of_ne_nil (f : Str → Str) (x : Str) {l : List Str} (h : l ≠ []) :
    mapLast f (x :: l) = x :: mapLast f l := by
  cases l with
  | nil => exact absurd rfl h
  | cons y r => rfl

theorem map_strip_mapLast_rstrip (l : List Str) : (mapLast rstrip l).map strip = l.map strip := by
  induction l with
  | nil => rfl
  | cons x l ih =>
    cases l with
    | nil => simp [mapLast, strip_rstrip]
    | cons y r => simp only [mapLast, List.map_cons, List.cons.injEq, true_and]; exact ih

theorem splitOn_rstrip {sep : Char} (hsep : isSpace sep = false) (s : Str) :
    splitOn sep (rstrip s) = mapLast rstrip (splitOn sep s) := by
  induction s with
  | nil => rfl
  | cons c cs ih =>
    by_cases hr : rstrip cs = []
    · have hall := rstrip_eq_nil.mp hr
      have hnot : sep ∉ cs := by
        intro hm; have := hall sep hm; simp [hsep] at this
      by_cases hc : isSpace c = true
      · have hne : c ≠ sep := by intro e; subst e; simp [hsep] at hc
        have h0 : rstrip (c :: cs) = [] := by simp [rstrip, hr, hc]
        rw [h0]
        simp only [splitOn, hne, if_false, splitOn_of_not_mem sep cs hnot, consHead, mapLast, h0]
      · have hc' : isSpace c = false := by simpa using hc
        have h0 : rstrip (c :: cs) = [c] := by simp [rstrip, hr, hc']
        rw [h0]
        by_cases he : c = sep
        · subst he
          simp [splitOn, splitOn_of_not_mem c cs hnot, mapLast, hr]
        · simp [splitOn, he, splitOn_of_not_mem sep cs hnot, consHead, mapLast, h0]
    · rw [rstrip_cons_of_ne_nil hr]
      by_cases he : c = sep
      · subst he
        simp only [splitOn, if_true, ih]
        rw [mapLast_cons_of_ne_nil _ _ (splitOn_ne_nil _ _)]
      · simp only [splitOn, he, if_false, ih]
        cases h2 : splitOn sep cs with
        | nil => exact absurd h2 (splitOn_ne_nil _ _)
        | cons a2 b2 =>
          cases b2 with
          | nil =>
            have : a2 = cs := by
              have := join_splitOn sep cs
              rw [h2] at this; simpa [join] using this
            subst this
            simp [mapLast, consHead, rstrip_cons_of_ne_nil hr]
          | cons b3 b4 => simp [mapLast, consHead]

theorem map_strip_splitOn_rstrip {sep : Char} (hsep : isSpace sep = false) (s : Str) :
    (splitOn sep (rstrip s)).map strip = (splitOn sep s).map strip := by
  rw [splitOn_rstrip hsep, map_strip_mapLast_rstrip]

/-- S1: `line.strip().split(sep)` and `line.split(sep)` agree once the pieces are stripped -/
theorem map_strip_splitOn_strip {sep : Char} (hsep : isSpace sep = false) (s : Str) :
    (splitOn sep (strip s)).map strip = (splitOn sep s).map strip := by
  exact (map_strip_splitOn_rstrip hsep (lstrip s)).trans (map_strip_splitOn_lstrip hsep s)

/-! ### replaceQ, lines -/

theorem replaceQ_of_not_mem {s : Str} (h : '?' ∉ s) : replaceQ s = s := by
  induction s with
  | nil => rfl
  | cons c cs ih =>
    have hc : c ≠ '?' := fun e => h (by simp [e])
    simp [replaceQ, hc, ih (fun e => h (by simp [e]))]

theorem splitOn_unlines (ls : List Str) (h : ∀ l ∈ ls, '\n' ∉ l) :
    splitOn '\n' (unlines ls) = ls ++ [[]] := by
  induction ls with
  | nil => rfl
  | cons l ls ih =>
    simp only [unlines, List.cons_append]
    rw [splitOn_append_sep '\n' l _ (h l (by simp)), ih (fun x hx => h x (by simp [hx]))]

theorem dropLastEmpty_append_nil (ls : List Str) : dropLastEmpty (ls ++ [[]]) = ls := by
  induction ls with
  | nil => rfl
  | cons l ls ih =>
    cases ls with
    | nil => simp [dropLastEmpty]
    | cons m ms =>
      simp only [List.cons_append, dropLastEmpty] at ih ⊢
      rw [ih]

/-- reading back what was written line by line -/
theorem lines_unlines (ls : List Str) (h : ∀ l ∈ ls, '\n' ∉ l) : lines (unlines ls) = ls := by
  unfold lines
  rw [splitOn_unlines ls h, dropLastEmpty_append_nil]

end SkVerif.TsFile.Lem
