import SkVerif.Model.Cores
import SkVerif.Lemmas.FH
import SkVerif.Lemmas.Sort
namespace SkVerif.Lem
open SkVerif SkVerif.Fc

/-- `check_fh` accepts a strictly increasing non-empty horizon unchanged -/
theorem checkFhArg_sorted (vals : List Int) (rel : Bool) (hs : vals.Pairwise (· < ·)) (hne : vals ≠ []) :
    checkFhArg (vals, rel) = .ok ⟨vals, rel⟩ := by
  have hnd : vals.Nodup := nodup_of_strictSorted hs
  have hsort : sortInts vals = vals := sortInts_of_sorted vals (hs.imp (by intro a b h; omega))
  have hlen : vals.length ≠ 0 := by intro h; exact hne (List.length_eq_zero_iff.mp h)
  simp [checkFhArg, FH.checkFh, FH.mk, FH.checkValues, hnd, hsort, Except.map, bind, Except.bind, pure,
    Except.pure, hlen]

theorem filter_pos_all (l : List Int) (h : ∀ x ∈ l, 0 < x) :
    l.filter (fun v => decide (v > 0)) = l ∧ l.filter (fun v => decide (v ≤ 0)) = [] := by
  constructor
  · simp only [List.filter_eq_self, decide_eq_true_eq]; intro x hx; have := h x hx; omega
  · simp only [List.filter_eq_nil_iff, decide_eq_true_eq]; intro x hx; have := h x hx; omega

theorem labels_zip (ls : List Int) (vs : List ORat) (h : vs.length = ls.length) :
    Series.labels (ls.zip vs) = ls := by
  unfold Series.labels
  rw [List.map_fst_zip]; omega

/-- out-of-sample prediction at cutoff `c`: if it returns, its labels are `c + steps` -/
theorem fixedCutoff_labels (core : Core) (s : FState) (c : Int) (steps : List Int) (out : Series)
    (h : fixedCutoff core s c steps = .ok out) : out.labels = steps.map (c + ·) ∧ out.length = steps.length := by
  unfold fixedCutoff at h
  simp only [bind, Except.bind] at h
  split at h
  · simp at h
  · rename_i vals hv
    split at h
    · simp [throw, throwThe, MonadExceptOf.throw] at h
    · rename_i hlen
      simp only [pure, Except.pure, Except.ok.injEq] at h
      subst h
      have hl : vals.length = steps.length := by
        by_contra hne; exact hlen (by simpa using hne)
      refine ⟨?_, ?_⟩
      · rw [labels_zip _ _ (by simpa using hl)]
      · simp [hl]

theorem predictAt_oos (core : Core) (s : FState) (c : Int) (fh : FH.FH)
    (hpos : ∀ v ∈ (if fh.rel then fh.vals else fh.vals.map (· - c)), 0 < v) :
    predictAt core s c fh = fixedCutoff core s c (if fh.rel then fh.vals else fh.vals.map (· - c)) := by
  unfold predictAt
  have := filter_pos_all _ hpos
  simp only [bind, Except.bind, this.1, this.2, List.isEmpty_nil, ↓reduceIte]

end SkVerif.Lem

namespace SkVerif.Lem
open SkVerif SkVerif.Fc

theorem fitWith_done (core : Core) (mode : FhMode) (s : FState) (y : Series) (fh : Option FH.FH)
    (h : (fitWith core mode s y fh).2 = .done) :
    (fitWith core mode s y fh).1.cutoff = y.lastLabel? ∧ (fitWith core mode s y fh).1.fitted = true ∧
    (fitWith core mode s y fh).1.y = y := by
  unfold fitWith at h ⊢
  cases hl : y.getLast? with
  | none => simp [hl] at h
  | some o =>
    simp only [hl] at h ⊢
    cases hs : setFh mode { s with y := y, cutoff := some o.1 } fh with
    | error e => simp [hs] at h
    | ok fh' =>
      simp only [hs] at h ⊢
      cases hw : core.fitWl y.length with
      | error e => simp [hw] at h
      | ok w =>
        simp only [hw] at h ⊢
        split at h
        · simp at h
        · rename_i hle
          simp only [hle, ↓reduceIte, Series.lastLabel?, hl, Option.map_some, and_self]

theorem fit_done (core : Core) (mode : FhMode) (s : FState) (y : Series) (fh : Option FhArg)
    (h : (fit core mode s y fh).2 = .done) :
    (fit core mode s y fh).1.cutoff = y.lastLabel? ∧ (fit core mode s y fh).1.fitted = true ∧
    (fit core mode s y fh).1.y = y := by
  unfold fit at h ⊢
  cases fh with
  | none => exact fitWith_done core mode s y none h
  | some a =>
    simp only at h ⊢
    cases hl : y.getLast? with
    | none => simp [hl] at h
    | some o =>
      simp only [hl] at h ⊢
      cases hc : checkFhArg a with
      | error e => simp [hc] at h
      | ok f =>
        simp only [hc] at h ⊢
        exact fitWith_done core mode s y (some f) h

/-! ### `combine_first` keeps the series sorted; its last label -/

abbrev SSorted (s : Series) : Prop := s.Pairwise (fun a b => a.1 < b.1)

theorem insertObs_mem (acc : Series) (l : Int) (v : ORat) (p : Obs)
    (hp : p ∈ Series.insertObs acc l v) : p.1 = l ∨ p ∈ acc := by
  induction acc with
  | nil => simp [Series.insertObs] at hp; left; rw [hp]
  | cons a t ih =>
    obtain ⟨l', v'⟩ := a
    simp only [Series.insertObs] at hp
    split at hp
    · rcases List.mem_cons.mp hp with rfl | hp
      · left; rfl
      · right; exact hp
    · split at hp
      · rcases List.mem_cons.mp hp with rfl | hp
        · left; rfl
        · right; exact List.mem_cons_of_mem _ hp
      · rcases List.mem_cons.mp hp with rfl | hp
        · right; exact List.mem_cons_self
        · rcases ih hp with h | h
          · left; exact h
          · right; exact List.mem_cons_of_mem _ h

theorem insertObs_sorted (acc : Series) (l : Int) (v : ORat) (h : SSorted acc) :
    SSorted (Series.insertObs acc l v) := by
  induction acc with
  | nil => simp [Series.insertObs, SSorted]
  | cons a t ih =>
    obtain ⟨l', v'⟩ := a
    have hp := List.pairwise_cons.mp h
    simp only [Series.insertObs]
    split
    · rename_i hlt
      refine List.pairwise_cons.mpr ⟨?_, h⟩
      intro p hp'
      rcases List.mem_cons.mp hp' with rfl | hp'
      · exact hlt
      · have := hp.1 p hp'; simp only at this ⊢; omega
    · split
      · rename_i heq
        refine List.pairwise_cons.mpr ⟨?_, hp.2⟩
        intro p hp'; have := hp.1 p hp'; simp only at this ⊢; omega
      · rename_i hnlt hne
        refine List.pairwise_cons.mpr ⟨?_, ih hp.2⟩
        intro p hp'
        rcases insertObs_mem t l v p hp' with h1 | h1
        · simp only; omega
        · exact hp.1 p h1

theorem insertObs_last (acc : Series) (l : Int) (v : ORat) (h : SSorted acc)
    (hle : ∀ p ∈ acc, p.1 ≤ l) : (Series.insertObs acc l v).getLast?.map (·.1) = some l := by
  induction acc with
  | nil => simp [Series.insertObs]
  | cons a t ih =>
    obtain ⟨l', v'⟩ := a
    have hp := List.pairwise_cons.mp h
    have hl' : l' ≤ l := hle (l', v') List.mem_cons_self
    simp only [Series.insertObs]
    split
    · omega
    · split
      · rename_i heq
        -- tail labels are > l' = l but also ≤ l : the tail is empty
        have : t = [] := by
          cases t with
          | nil => rfl
          | cons b t' =>
            have h1 := hp.1 b List.mem_cons_self
            have h2 := hle b (List.mem_cons_of_mem _ List.mem_cons_self)
            simp only at h1; omega
        subst this; simp
      · have hne : Series.insertObs t l v ≠ [] := by
          cases t with
          | nil => simp [Series.insertObs]
          | cons b t' =>
            obtain ⟨lb, vb⟩ := b
            simp only [Series.insertObs]; split <;> (try split) <;> simp
        rw [List.getLast?_cons_of_ne_nil hne]
        exact ih hp.2 (fun p hp' => hle p (List.mem_cons_of_mem _ hp'))

theorem foldl_insert_sorted (ys : Series) (acc : Series) (h : SSorted acc) :
    SSorted (ys.foldl (fun acc o => Series.insertObs acc o.1 o.2) acc) := by
  induction ys generalizing acc with
  | nil => exact h
  | cons a t ih => exact ih _ (insertObs_sorted acc a.1 a.2 h)

theorem foldl_insert_mem (ys : Series) (acc : Series) (p : Obs)
    (hp : p ∈ ys.foldl (fun acc o => Series.insertObs acc o.1 o.2) acc) :
    (∃ q ∈ ys, p.1 = q.1) ∨ p ∈ acc := by
  induction ys generalizing acc with
  | nil => right; exact hp
  | cons a t ih =>
    rcases ih _ hp with ⟨q, hq, e⟩ | h
    · left; exact ⟨q, List.mem_cons_of_mem _ hq, e⟩
    · rcases insertObs_mem acc a.1 a.2 p h with h1 | h1
      · left; exact ⟨a, List.mem_cons_self, h1⟩
      · right; exact h1

theorem combineFirst_sorted (y old : Series) (h : SSorted old) : SSorted (Series.combineFirst y old) :=
  foldl_insert_sorted y old h

theorem combineFirst_last (y old : Series) (o : Obs) (hlast : y.getLast? = some o)
    (hy : SSorted y) (hold : SSorted old) (hle : ∀ p ∈ old, p.1 ≤ o.1) :
    (Series.combineFirst y old).getLast?.map (·.1) = some o.1 := by
  have hne : y ≠ [] := by intro h; simp [h] at hlast
  have hsplit : y = y.dropLast ++ [o] := by
    have h1 := List.dropLast_append_getLast hne
    have h2 : y.getLast hne = o := by
      have := List.getLast?_eq_some_getLast hne
      rw [this] at hlast; exact Option.some.inj hlast
    rw [h2] at h1; exact h1.symm
  unfold Series.combineFirst
  rw [hsplit, List.foldl_append]
  simp only [List.foldl_cons, List.foldl_nil]
  apply insertObs_last
  · exact foldl_insert_sorted _ _ hold
  · intro p hp
    rcases foldl_insert_mem _ _ p hp with ⟨q, hq, e⟩ | h
    · rw [hsplit] at hy
      have := (List.pairwise_append.mp hy).2.2 q hq o (by simp)
      omega
    · exact hle p h

theorem update_refit_cutoff (core : Core) (mode : FhMode) (s : FState) (y : Series) (o : Obs)
    (hfit : s.fitted = true) (hlast : y.getLast? = some o)
    (hsorted : SSorted y) (hold : SSorted s.y)
    (horder : ∀ p ∈ s.y, p.1 ≤ o.1)
    (h : (update core mode s y true).2 = .done) :
    (update core mode s y true).1.cutoff = some o.1 := by
  unfold update at h ⊢
  simp only [hfit, Bool.not_true, Bool.false_eq_true, ↓reduceIte, hlast] at h ⊢
  cases hf : s.fh with
  | none => simp [hf] at h
  | some f =>
    simp only [hf] at h ⊢
    have := (fitWith_done core mode _ _ (some f) h).1
    rw [this]
    exact combineFirst_last y s.y o hlast hsorted hold horder

end SkVerif.Lem
