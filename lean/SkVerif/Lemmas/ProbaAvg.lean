/- C17 helper lemmas: sums and averages of probability matrices. -/
import SkVerif.Model.Proba
import SkVerif.Spec.Proba
import Mathlib.Tactic.Linarith
import Mathlib.Tactic.Ring
import Mathlib.Tactic.FieldSimp
import Mathlib.Algebra.Order.Field.Rat
namespace SkVerif.C17.Lem
open SkVerif.C17

/-- a row of `K` non-negative entries with total `c` -/
def RowOK (K : Nat) (c : Rat) (r : Row) : Prop := r.length = K ∧ (∀ x ∈ r, 0 ≤ x) ∧ r.sum = c

def MatOK (n K : Nat) (c : Rat) (M : Mat) : Prop := M.length = n ∧ ∀ r ∈ M, RowOK K c r

theorem sum_nonneg' {l : List Rat} (h : ∀ x ∈ l, 0 ≤ x) : 0 ≤ l.sum := by
  induction l with
  | nil => simp
  | cons a l ih =>
    have ha : 0 ≤ a := h a (by simp)
    have := ih (fun y hy => h y (List.mem_cons_of_mem _ hy))
    simp only [List.sum_cons]; linarith

theorem le_sum_of_mem_nonneg {l : List Rat} (h : ∀ x ∈ l, 0 ≤ x) {x : Rat} (hx : x ∈ l) : x ≤ l.sum := by
  induction l with
  | nil => simp at hx
  | cons a l ih =>
    have ha : 0 ≤ a := h a (by simp)
    have hl : ∀ y ∈ l, 0 ≤ y := fun y hy => h y (List.mem_cons_of_mem _ hy)
    have hs : 0 ≤ l.sum := sum_nonneg' hl
    simp only [List.sum_cons]
    rcases List.mem_cons.mp hx with rfl | hx
    · linarith
    · have := ih hl hx; linarith

theorem isDist_of_rowOK {K : Nat} {r : Row} (h : RowOK K 1 r) : Spec.IsDist r := by
  refine ⟨fun x hx => ⟨h.2.1 x hx, ?_⟩, h.2.2⟩
  have := le_sum_of_mem_nonneg h.2.1 hx
  rw [h.2.2] at this
  exact this

theorem rowOK_of_isDist {K : Nat} {r : Row} (hl : r.length = K) (h : Spec.IsDist r) : RowOK K 1 r :=
  ⟨hl, fun x hx => (h.1 x hx).1, h.2⟩

theorem addRow_sum (a b : Row) (h : a.length = b.length) : (addRow a b).sum = a.sum + b.sum := by
  induction a generalizing b with
  | nil => cases b <;> simp_all [addRow]
  | cons x a ih =>
    cases b with
    | nil => simp at h
    | cons y b =>
      have := ih b (by simpa using h)
      simp only [addRow, List.zipWith_cons_cons, List.sum_cons] at *
      rw [this]; ring

theorem addRow_ok {K : Nat} {c1 c2 : Rat} {a b : Row} (ha : RowOK K c1 a) (hb : RowOK K c2 b) :
    RowOK K (c1 + c2) (addRow a b) := by
  refine ⟨by simp [addRow, ha.1, hb.1], ?_, ?_⟩
  · intro x hx
    unfold addRow at hx
    obtain ⟨p, q, hp, hq, rfl⟩ : ∃ p q, p ∈ a ∧ q ∈ b ∧ x = p + q := by
      have := List.mem_iff_getElem.mp hx
      obtain ⟨i, hi, he⟩ := this
      simp only [List.length_zipWith] at hi
      refine ⟨a[i]'(by omega), b[i]'(by omega), List.getElem_mem _, List.getElem_mem _, ?_⟩
      rw [← he, List.getElem_zipWith]
    have := ha.2.1 p hp; have := hb.2.1 q hq; linarith
  · rw [addRow_sum a b (by rw [ha.1, hb.1]), ha.2.2, hb.2.2]

theorem addMat_ok {n K : Nat} {c1 c2 : Rat} {A B : Mat} (hA : MatOK n K c1 A) (hB : MatOK n K c2 B) :
    MatOK n K (c1 + c2) (addMat A B) := by
  induction A generalizing B n with
  | nil =>
    obtain ⟨hl, _⟩ := hA
    simp at hl; subst hl
    exact ⟨by simp [addMat], by simp [addMat]⟩
  | cons a A ih =>
    cases B with
    | nil =>
      have h1 := hA.1; have h2 := hB.1
      simp at h1 h2; omega
    | cons b B =>
      obtain ⟨hlA, hrA⟩ := hA
      obtain ⟨hlB, hrB⟩ := hB
      cases n with
      | zero => simp at hlA
      | succ n =>
        have ihh := ih (n := n) (B := B)
          ⟨by simpa using hlA, fun r hr => hrA r (List.mem_cons_of_mem _ hr)⟩
          ⟨by simpa using hlB, fun r hr => hrB r (List.mem_cons_of_mem _ hr)⟩
        refine ⟨by simp [addMat]; simpa [addMat] using ihh.1, ?_⟩
        intro r hr
        simp only [addMat, List.zipWith_cons_cons, List.mem_cons] at hr
        rcases hr with rfl | hr
        · exact addRow_ok (hrA a (by simp)) (hrB b (by simp))
        · exact ihh.2 r hr

theorem sumMats_ok {n K : Nat} (m : Mat) (ms : List Mat) (h : ∀ M ∈ m :: ms, MatOK n K 1 M) :
    MatOK n K ((ms.length : Rat) + 1) (sumMats m ms) := by
  induction ms generalizing m with
  | nil => simpa [sumMats] using h m (by simp)
  | cons m' ms ih =>
    have h1 := h m (by simp)
    have h2 := ih m' (fun M hM => h M (List.mem_cons_of_mem _ hM))
    have := addMat_ok h1 h2
    simp only [sumMats, List.length_cons, Nat.cast_add, Nat.cast_one]
    have e : (1 : Rat) + ((ms.length : Rat) + 1) = (ms.length : Rat) + 1 + 1 := by ring
    rw [← e]; exact this

theorem map_div_sum (l : List Rat) (d : Rat) : (l.map (· / d)).sum = l.sum / d := by
  induction l with
  | nil => simp
  | cons a l ih => simp only [List.map_cons, List.sum_cons, ih]; ring

theorem scaleMat_dist {n K : Nat} {d : Rat} (hd : 0 < d) {M : Mat} (h : MatOK n K d M) :
    (scaleMat d M).length = n ∧ ∀ r ∈ scaleMat d M, r.length = K ∧ Spec.IsDist r := by
  refine ⟨by simp [scaleMat, h.1], ?_⟩
  intro r hr
  simp only [scaleMat, List.mem_map] at hr
  obtain ⟨r0, hr0, rfl⟩ := hr
  obtain ⟨hl, hnn, hs⟩ := h.2 r0 hr0
  refine ⟨by simp [hl], ?_⟩
  apply isDist_of_rowOK (K := K)
  refine ⟨by simp [hl], ?_, ?_⟩
  · intro x hx
    simp only [List.mem_map] at hx
    obtain ⟨x0, hx0, rfl⟩ := hx
    exact div_nonneg (hnn x0 hx0) (le_of_lt hd)
  · rw [map_div_sum, hs]; exact div_self (ne_of_gt hd)

theorem sameShape_iff {n K : Nat} {M : Mat} : sameShape n K M = true ↔ M.length = n ∧ ∀ r ∈ M, r.length = K := by
  simp [sameShape, List.all_eq_true]

/-! ### entries -/

/-- entry `(i, c)` of a matrix (0 outside) -/
def entry (M : Mat) (i c : Nat) : Rat := (M.getD i []).getD c 0

theorem addRow_getD (a b : Row) (h : a.length = b.length) (c : Nat) :
    (addRow a b).getD c 0 = a.getD c 0 + b.getD c 0 := by
  induction a generalizing b c with
  | nil => cases b <;> simp_all [addRow]
  | cons x a ih =>
    cases b with
    | nil => simp at h
    | cons y b =>
      cases c with
      | zero => simp [addRow]
      | succ c =>
        have := ih b (by simpa using h) c
        simpa [addRow] using this

theorem addMat_entry {n K : Nat} {A B : Mat} (hA : sameShape n K A = true) (hB : sameShape n K B = true) (i c : Nat) :
    entry (addMat A B) i c = entry A i c + entry B i c ∧ sameShape n K (addMat A B) = true := by
  rw [sameShape_iff] at hA hB
  induction A generalizing B n i with
  | nil =>
    obtain ⟨hl, _⟩ := hA
    simp at hl; subst hl
    have : B = [] := by simpa using hB.1
    subst this
    simp [addMat, entry, sameShape]
  | cons a A ih =>
    cases B with
    | nil => have := hA.1; have := hB.1; simp at *; omega
    | cons b B =>
      cases n with
      | zero => have := hA.1; simp at this
      | succ n =>
        have ihh := fun i => ih (n := n) (B := B) (i := i)
          ⟨by simpa using hA.1, fun r hr => hA.2 r (List.mem_cons_of_mem _ hr)⟩
          ⟨by simpa using hB.1, fun r hr => hB.2 r (List.mem_cons_of_mem _ hr)⟩
        have hab : a.length = b.length := by rw [hA.2 a (by simp), hB.2 b (by simp)]
        constructor
        · cases i with
          | zero => simpa [addMat, entry] using addRow_getD a b hab c
          | succ i => simpa [addMat, entry] using (ihh i).1
        · have h2 := (ihh 0).2
          rw [sameShape_iff] at h2 ⊢
          refine ⟨by simpa [addMat] using h2.1, ?_⟩
          intro r hr
          simp only [addMat, List.zipWith_cons_cons, List.mem_cons] at hr
          rcases hr with rfl | hr
          · simp [addRow, hA.2 a (by simp), hB.2 b (by simp)]
          · exact h2.2 r hr

theorem sumMats_entry {n K : Nat} (m : Mat) (ms : List Mat) (h : ∀ M ∈ m :: ms, sameShape n K M = true) (i c : Nat) :
    entry (sumMats m ms) i c = ((m :: ms).map (fun M => entry M i c)).sum ∧ sameShape n K (sumMats m ms) = true := by
  induction ms generalizing m with
  | nil => simpa [sumMats] using h m (by simp)
  | cons m' ms ih =>
    have h1 := h m (by simp)
    obtain ⟨e2, s2⟩ := ih m' (fun M hM => h M (List.mem_cons_of_mem _ hM))
    obtain ⟨e, s⟩ := addMat_entry h1 s2 i c
    refine ⟨?_, by simpa [sumMats] using s⟩
    simp only [sumMats, e, e2, List.map_cons, List.sum_cons]

theorem scaleMat_entry (d : Rat) (M : Mat) (i c : Nat) : entry (scaleMat d M) i c = entry M i c / d := by
  unfold entry scaleMat
  by_cases hi : i < M.length
  · simp only [List.getD_eq_getElem?_getD, List.getElem?_map, List.getElem?_eq_getElem hi, Option.map_some,
      Option.getD_some]
    by_cases hc : c < (M[i]).length
    · simp [List.getElem?_eq_getElem hc]
    · have : (M[i])[c]? = none := List.getElem?_eq_none (by omega)
      simp [this]
  · have : M[i]? = none := List.getElem?_eq_none (by omega)
    simp [List.getD_eq_getElem?_getD, this]

end SkVerif.C17.Lem

namespace SkVerif.C17.Lem
open SkVerif.C17

theorem scaleRow_dist {K : Nat} {d : Rat} (hd : 0 < d) {r : Row} (h : RowOK K d r) :
    (r.map (· / d)).length = K ∧ Spec.IsDist (r.map (· / d)) := by
  obtain ⟨hl, hnn, hs⟩ := h
  refine ⟨by simp [hl], ?_⟩
  apply isDist_of_rowOK (K := K)
  refine ⟨by simp [hl], ?_, ?_⟩
  · intro x hx
    simp only [List.mem_map] at hx
    obtain ⟨x0, hx0, rfl⟩ := hx
    exact div_nonneg (hnn x0 hx0) (le_of_lt hd)
  · rw [map_div_sum, hs]; exact div_self (ne_of_gt hd)

theorem sumRows_getD (r : Row) (rs : List Row) (h : ∀ q ∈ r :: rs, q.length = r.length) (i : Nat) :
    (sumRows r rs).getD i 0 = ((r :: rs).map (fun q => q.getD i 0)).sum ∧ (sumRows r rs).length = r.length := by
  induction rs generalizing r with
  | nil => simp [sumRows]
  | cons r' rs ih =>
    have hr' : r'.length = r.length := h r' (by simp)
    obtain ⟨e, l⟩ := ih r' (fun q hq => by
      rw [hr']; exact h q (List.mem_cons_of_mem _ hq))
    constructor
    · simp only [sumRows]
      rw [addRow_getD r (sumRows r' rs) (by rw [l, hr']) i, e]
      simp
    · simp [sumRows, addRow, l, hr']

/-- all members have `n` rows of `K` entries: both averaging functions take the plain branch -/
theorem forestProba_eq {n K : Nat} (m : Mat) (ms : List Mat) (h : ∀ M ∈ m :: ms, sameShape n K M = true) :
    forestProba K (m :: ms) = .ok (scaleMat ((m :: ms).length : Rat) (sumMats m ms)) := by
  have hm : m.length = n := (sameShape_iff.mp (h m (by simp))).1
  have : (m :: ms).all (sameShape m.length K) = true := by
    rw [List.all_eq_true]; intro M hM; rw [hm]; exact h M hM
  simp only [forestProba, this, if_true]

theorem avgProba_eq {n K : Nat} (m : Mat) (ms : List Mat) (h : ∀ M ∈ m :: ms, sameShape n K M = true) :
    avgProba (m :: ms) = .ok (scaleMat ((m :: ms).length : Rat) (sumMats m ms)) := by
  have hm := sameShape_iff.mp (h m (by simp))
  have : (m :: ms).all (sameShape m.length (firstWidth m)) = true := by
    rw [List.all_eq_true]; intro M hM
    have hM' := sameShape_iff.mp (h M hM)
    rw [sameShape_iff]
    cases m with
    | nil =>
      have hn : n = 0 := by simpa using hm.1.symm
      subst hn
      have : M = [] := by simpa using hM'.1
      subst this; simp
    | cons r m' =>
      refine ⟨by rw [hM'.1, hm.1], ?_⟩
      intro q hq
      rw [hM'.2 q hq]
      exact (hm.2 r (by simp)).symm
  simp only [avgProba, this, if_true]

end SkVerif.C17.Lem

namespace SkVerif.C17.Lem
open SkVerif.C17

theorem forestProba_entry_list {n K : Nat} (members : List Mat) (hne : members ≠ [])
    (h : ∀ M ∈ members, sameShape n K M = true) :
    ∃ P, forestProba K members = .ok P ∧
      ∀ i c, entry P i c = (members.map (fun M => entry M i c)).sum / (members.length : Rat) := by
  cases members with
  | nil => exact absurd rfl hne
  | cons m ms =>
    refine ⟨_, forestProba_eq m ms h, ?_⟩
    intro i c
    rw [scaleMat_entry, (sumMats_entry m ms h i c).1]

theorem avgProba_entry_list {n K : Nat} (members : List Mat) (hne : members ≠ [])
    (h : ∀ M ∈ members, sameShape n K M = true) :
    ∃ P, avgProba members = .ok P ∧
      ∀ i c, entry P i c = (members.map (fun M => entry M i c)).sum / (members.length : Rat) := by
  cases members with
  | nil => exact absurd rfl hne
  | cons m ms =>
    refine ⟨_, avgProba_eq m ms h, ?_⟩
    intro i c
    rw [scaleMat_entry, (sumMats_entry m ms h i c).1]

theorem regPredict_list {n : Nat} (rows : List Row) (hne : rows ≠ []) (h : ∀ q ∈ rows, q.length = n) :
    ∃ p, regPredict rows = .ok p ∧ p.length = n ∧
      ∀ i, i < n → p.getD i 0 = (rows.map (fun q => q.getD i 0)).sum / (rows.length : Rat) := by
  cases rows with
  | nil => exact absurd rfl hne
  | cons r rs =>
    have hr : r.length = n := h r (by simp)
    have hq : ∀ q ∈ r :: rs, q.length = r.length := fun q hq => by rw [hr]; exact h q hq
    have hall : (r :: rs).all (fun q => q.length == r.length) = true := by
      rw [List.all_eq_true]; intro q hq'; simpa using hq q hq'
    refine ⟨(sumRows r rs).map (· / ((r :: rs).length : Rat)), ?_, ?_, ?_⟩
    · simp only [regPredict]; rw [if_pos hall]
    · simp [(sumRows_getD r rs hq 0).2, hr]
    · intro i hi
      have hlt : i < (sumRows r rs).length := by rw [(sumRows_getD r rs hq 0).2, hr]; exact hi
      have e1 : ((sumRows r rs).map (· / ((r :: rs).length : Rat))).getD i 0 =
          (sumRows r rs).getD i 0 / ((r :: rs).length : Rat) := by
        simp [List.getD_eq_getElem?_getD, List.getElem?_eq_getElem hlt]
      rw [e1, (sumRows_getD r rs hq i).1]

end SkVerif.C17.Lem
