/- C15: `pivot` undoes `melt` (long table <-> multi-index frame). -/
import SkVerif.Lemmas.PanelNM
import SkVerif.Lemmas.Sort
namespace SkVerif.Panel.Lem
open SkVerif SkVerif.Panel SkVerif.Panel.Spec

variable {κ ν α : Type}

/-- entry `(j, r)` of the transpose is entry `(r, j)` of the matrix -/
theorem getElem_transposeW {β} (w : Nat) (m : List (List β)) (h : RowsLen w m) (j r : Nat)
    (hj : j < w) (hr : r < m.length) :
    ((transposeW w m)[j]'(by rw [length_transposeW w m h]; exact hj))[r]'(by
        rw [rowsLen_transposeW w m h _ (List.getElem_mem _)]; exact hr)
      = (m[r])[j]'(by rw [h _ (List.getElem_mem _)]; exact hj) := by
  induction m generalizing r with
  | nil => simp at hr
  | cons a m ih =>
    have h' := rowsLen_cons.mp h
    simp only [transposeW, List.getElem_zipWith]
    cases r with
    | zero => simp
    | succ r => simpa using ih h'.2 r (by simpa using hr)

/-- insertion sort leaves a sorted list alone -/
theorem insertBy_of_le_head {β} (le : β → β → Bool) (a : β) (l : List β)
    (h : ∀ b ∈ l, le a b = true) : insertBy le a l = a :: l := by
  cases l with
  | nil => rfl
  | cons b l => simp [insertBy, h b (by simp)]

theorem isortBy_of_sorted {β} (le : β → β → Bool) (l : List β)
    (h : l.Pairwise (fun a b => le a b = true)) : isortBy le l = l := by
  induction l with
  | nil => rfl
  | cons a l ih =>
    have h' := List.pairwise_cons.mp h
    simp only [isortBy]
    rw [ih h'.2, insertBy_of_le_head le a l h'.1]

/-- with distinct keys, `lookup` finds exactly the entries of the list -/
theorem lookup_of_mem {κ' β} [BEq κ'] [LawfulBEq κ'] (l : List (κ' × β)) (hnd : (l.map (·.1)).Nodup)
    (k : κ') (v : β) (h : (k, v) ∈ l) : l.lookup k = some v := by
  induction l with
  | nil => cases h
  | cons p l ih =>
    obtain ⟨k', v'⟩ := p
    simp only [List.map_cons, List.nodup_cons] at hnd
    rcases List.mem_cons.mp h with e | h'
    · cases e; simp
    · have hne : k ≠ k' := by
        intro e; subst e
        exact hnd.1 (List.mem_map_of_mem (f := (·.1)) h')
      simp only [List.lookup_cons]
      rw [beq_false_of_ne hne]
      exact ih hnd.2 h'

theorem mapM_eq_of_zip {ε β γ} (f : β → Except ε γ) (xs : List β) (ys : List γ)
    (hlen : xs.length = ys.length) (h : ∀ p ∈ xs.zip ys, f p.1 = .ok p.2) : xs.mapM f = .ok ys := by
  induction xs generalizing ys with
  | nil => cases ys with
    | nil => rfl
    | cons y ys => simp at hlen
  | cons x xs ih =>
    cases ys with
    | nil => simp at hlen
    | cons y ys =>
      rw [List.mapM_cons, h (x, y) (by simp), ih ys (by simpa using hlen) (fun p hp => h p (by simp [hp]))]
      rfl

/-! ### the entries produced by `melt` -/

theorem melt_keys (names : List ν) (rows : List (κ × List α))
    (hrows : ∀ r ∈ rows, r.2.length = names.length) :
    (melt names rows).map (·.1) =
      (names.map (fun nm => (rows.map (·.1)).map (fun k => (k, nm)))).flatten := by
  unfold melt
  simp only [List.map_flatten, List.map_map]
  congr 1
  have hlenT := length_transposeW names.length (rows.map (·.2)) (by
    intro r hr; obtain ⟨r', hr', rfl⟩ := List.mem_map.mp hr; exact hrows r' hr')
  have hrowsT := rowsLen_transposeW names.length (rows.map (·.2)) (by
    intro r hr; obtain ⟨r', hr', rfl⟩ := List.mem_map.mp hr; exact hrows r' hr')
  apply List.ext_getElem
  · simp [hlenT]
  · intro j h1 h2
    simp only [List.getElem_map, List.getElem_zip, Function.comp_apply, List.map_map]
    have hcol : ((transposeW names.length (rows.map (·.2)))[j]'(by
        simp [hlenT] at h1 ⊢; omega)).length = rows.length := by
      rw [hrowsT _ (List.getElem_mem _)]; simp
    rw [show ((fun x : (κ × ν) × α => x.1) ∘ fun q : κ × α => ((q.1, names[j]'(by simp at h2; exact h2)), q.2))
      = (fun k => (k, names[j]'(by simp at h2; exact h2))) ∘ Prod.fst from rfl]
    rw [← List.map_map, List.map_fst_zip (by simp [hcol])]
    simp [List.map_map, Function.comp_def]

/-- every cell of a keyed row appears in the molten table under its key and column name -/
theorem mem_melt (names : List ν) (rows : List (κ × List α))
    (hrows : ∀ r ∈ rows, r.2.length = names.length) (k : κ) (vals : List α)
    (hr : (k, vals) ∈ rows) (d : ν) (v : α) (hd : (d, v) ∈ names.zip vals) :
    ((k, d), v) ∈ melt names rows := by
  obtain ⟨r, hrlt, hre⟩ := List.mem_iff_getElem.mp hr
  obtain ⟨j, hjlt, hje⟩ := List.mem_iff_getElem.mp hd
  have hjn : j < names.length := by simp at hjlt; omega
  have hjv : j < vals.length := by simp at hjlt; omega
  simp only [List.getElem_zip, Prod.mk.injEq] at hje
  have hR : RowsLen names.length (rows.map (·.2)) := by
    intro x hx; obtain ⟨r', hr', rfl⟩ := List.mem_map.mp hx; exact hrows r' hr'
  have hlenT := length_transposeW names.length (rows.map (·.2)) hR
  have hrowsT := rowsLen_transposeW names.length (rows.map (·.2)) hR
  unfold melt
  simp only [List.mem_flatten, List.mem_map]
  refine ⟨_, ⟨(names[j], (transposeW names.length (rows.map (·.2)))[j]'(by rw [hlenT]; exact hjn)), ?_, rfl⟩, ?_⟩
  · rw [List.mem_iff_getElem]
    exact ⟨j, by simp [hlenT, hjn], by simp⟩
  · simp only [List.mem_map]
    have hcol : ((transposeW names.length (rows.map (·.2)))[j]'(by rw [hlenT]; exact hjn)).length
        = rows.length := by rw [hrowsT _ (List.getElem_mem _)]; simp
    refine ⟨(k, v), ?_, by simp [hje.1]⟩
    rw [List.mem_iff_getElem]
    refine ⟨r, by simp [hcol, hrlt], ?_⟩
    simp only [List.getElem_zip, List.getElem_map, hre, Prod.mk.injEq, true_and]
    have := getElem_transposeW names.length (rows.map (·.2)) hR j r hjn (by simpa using hrlt)
    rw [this]
    simp only [List.getElem_map, hre]
    exact hje.2

theorem nodup_product_keys (names : List ν) (keys : List κ) (hn : names.Nodup) (hk : keys.Nodup) :
    ((names.map (fun nm => keys.map (fun k => (k, nm)))).flatten).Nodup := by
  unfold List.Nodup
  rw [List.pairwise_flatten]
  constructor
  · intro l hl
    obtain ⟨nm, _, rfl⟩ := List.mem_map.mp hl
    rw [List.pairwise_map]
    exact hk.imp (by intro a b h e; exact h (Prod.mk.inj e).1)
  · rw [List.pairwise_map]
    exact hn.imp (by
      intro a b hab x hx1 y hx2 e
      obtain ⟨k1, _, e1⟩ := List.mem_map.mp hx1
      obtain ⟨k2, _, e2⟩ := List.mem_map.mp hx2
      rw [← e1, ← e2] at e
      exact hab (Prod.mk.inj e).2)

/-- `pivot` undoes `melt`: for keyed rows with strictly sorted keys and columns whose names are in
sorted order, pivoting the molten table gives the names and the rows back. -/
theorem pivotE_melt [DecidableEq κ] [DecidableEq ν] (kle : κ → κ → Bool) (lt : ν → ν → Bool)
    (names : List ν) (rows : List (κ × List α))
    (hrows : ∀ r ∈ rows, r.2.length = names.length)
    (hnn : names.Nodup) (hns : names.Pairwise (fun a b => (!lt b a) = true))
    (hkn : (rows.map (·.1)).Nodup) (hks : (rows.map (·.1)).Pairwise (fun a b => kle a b = true))
    (hne : rows ≠ []) (hnne : names ≠ []) :
    pivotE kle lt (melt names rows) = .ok (names, rows) := by
  have hkeys := melt_keys names rows hrows
  have hnd : ((melt names rows).map (·.1)).Nodup := by
    rw [hkeys]; exact nodup_product_keys names _ hnn hkn
  have hK : (melt names rows).map (·.1.1) = (names.map (fun _ => rows.map (·.1))).flatten := by
    have := congrArg (List.map Prod.fst) hkeys
    simp only [List.map_map, List.map_flatten, Function.comp_def] at this ⊢
    simpa using this
  have hD : (melt names rows).map (·.1.2) = (names.map (fun nm => List.replicate rows.length nm)).flatten := by
    have := congrArg (List.map Prod.snd) hkeys
    simp only [List.map_map, List.map_flatten, Function.comp_def] at this ⊢
    rw [this]
    congr 1
    apply List.map_congr_left
    intro nm _
    simp [List.map_const']
  have hkeysSorted : sortDistinct kle ((melt names rows).map (·.1.1)) = rows.map (·.1) := by
    unfold sortDistinct
    rw [hK]
    cases names with
    | nil => exact absurd rfl hnne
    | cons nm names =>
      rw [List.map_cons, List.flatten_cons, eraseDups_append_subset _ _ hkn (by
        intro x hx
        simp only [List.mem_flatten, List.mem_map] at hx
        obtain ⟨l, ⟨_, _, rfl⟩, hx⟩ := hx
        exact hx)]
      exact isortBy_of_sorted kle _ hks
  have hdimsSorted : sortDistinct (fun a b => !lt b a) ((melt names rows).map (·.1.2)) = names := by
    unfold sortDistinct
    rw [hD, eraseDups_flatMap_replicate rows.length (by
      cases rows with
      | nil => exact absurd rfl hne
      | cons r rows => simp) names hnn]
    exact isortBy_of_sorted _ _ hns
  have htable : (rows.map (·.1)).mapM (pivotRow (melt names rows) names) = .ok rows := by
    apply mapM_eq_of_zip
    · simp
    · intro p hp
      have hp2 : p.2 ∈ rows := (List.of_mem_zip hp).2
      have hp1 : p.1 = p.2.1 := by
        obtain ⟨i, hi, he⟩ := List.mem_iff_getElem.mp hp
        simp only [List.getElem_zip, List.getElem_map] at he
        rw [← he]
      have hvals : names.mapM (cellOf (melt names rows) p.1) = .ok p.2.2 := by
        apply mapM_eq_of_zip
        · exact (hrows p.2 hp2).symm
        · intro q hq
          have := mem_melt names rows hrows p.2.1 p.2.2 hp2 q.1 q.2 hq
          unfold cellOf
          rw [hp1, lookup_of_mem _ hnd _ _ this]
          rfl
      unfold pivotRow
      simp only [hvals, bind, Except.bind, pure, Except.pure]
      rw [hp1]
  unfold pivotE
  simp only [hnd, not_true_eq_false, if_false, hkeysSorted, hdimsSorted, htable, bind, Except.bind,
    pure, Except.pure]

/-! ### the pivot table does not depend on the order of the long table's rows -/

theorem nodup_eraseDups_aux {β} [BEq β] [LawfulBEq β] (n : Nat) :
    ∀ l : List β, l.length ≤ n → l.eraseDups.Nodup := by
  induction n with
  | zero =>
    intro l hl
    have : l = [] := List.length_eq_zero_iff.mp (Nat.le_zero.mp hl)
    subst this; simp
  | succ n ih =>
    intro l hl
    cases l with
    | nil => simp
    | cons a l =>
      rw [List.eraseDups_cons, List.nodup_cons]
      constructor
      · intro hm
        have := (List.mem_eraseDups.mp hm)
        simp at this
      · apply ih
        have := List.length_filter_le (fun b => !b == a) l
        simp at hl; omega

theorem nodup_eraseDups {β} [BEq β] [LawfulBEq β] (l : List β) : l.eraseDups.Nodup :=
  nodup_eraseDups_aux l.length l (Nat.le_refl _)

/-- a strictly / totally ordered sorted list is determined by its elements -/
theorem eq_of_perm_sorted {β} (le : β → β → Bool) (hanti : ∀ a b, le a b = true → le b a = true → a = b)
    (l1 l2 : List β) (hp : l1.Perm l2) (h1 : l1.Pairwise (fun a b => le a b = true))
    (h2 : l2.Pairwise (fun a b => le a b = true)) : l1 = l2 := by
  induction l1 generalizing l2 with
  | nil => exact (List.Perm.nil_eq hp)
  | cons a l1 ih =>
    cases l2 with
    | nil => exact absurd hp.symm (by simp)
    | cons b l2 =>
      have h1' := List.pairwise_cons.mp h1
      have h2' := List.pairwise_cons.mp h2
      have hab : a = b := by
        have ha : a ∈ b :: l2 := hp.mem_iff.mp (by simp)
        have hb : b ∈ a :: l1 := hp.mem_iff.mpr (by simp)
        rcases List.mem_cons.mp ha with e | ha'
        · exact e
        · rcases List.mem_cons.mp hb with e | hb'
          · exact e.symm
          · exact hanti a b (h1'.1 b hb') (h2'.1 a ha')
      subst hab
      rw [ih l2 (List.Perm.cons_inv hp) h1'.2 h2'.2]

/-- a total order given as a boolean `≤` -/
structure TotalLE {β} (le : β → β → Bool) : Prop where
  trans : ∀ a b c, le a b → le b c → le a c
  total : ∀ a b, le a b || le b a
  antisymm : ∀ a b, le a b = true → le b a = true → a = b

theorem sortDistinct_perm {β} [BEq β] [LawfulBEq β] (le : β → β → Bool) (hle : TotalLE le)
    (l1 l2 : List β) (hp : l1.Perm l2) : sortDistinct le l1 = sortDistinct le l2 := by
  unfold sortDistinct
  have hperm : l1.eraseDups.Perm l2.eraseDups := by
    rw [List.perm_ext_iff_of_nodup (nodup_eraseDups l1) (nodup_eraseDups l2)]
    intro a
    rw [List.mem_eraseDups, List.mem_eraseDups]
    exact hp.mem_iff
  apply eq_of_perm_sorted le hle.antisymm
  · exact ((SkVerif.Lem.isortBy_perm le _).trans hperm).trans (SkVerif.Lem.isortBy_perm le _).symm
  · exact SkVerif.Lem.isortBy_pairwise le hle.trans hle.total _
  · exact SkVerif.Lem.isortBy_pairwise le hle.trans hle.total _

theorem mem_of_lookup {κ' β} [BEq κ'] [LawfulBEq κ'] (l : List (κ' × β)) (k : κ') (v : β)
    (h : l.lookup k = some v) : (k, v) ∈ l := by
  induction l with
  | nil => simp at h
  | cons p l ih =>
    obtain ⟨k', v'⟩ := p
    simp only [List.lookup_cons] at h
    by_cases e : k = k'
    · subst e; simp at h; subst h; simp
    · rw [beq_false_of_ne e] at h
      exact List.mem_cons_of_mem _ (ih h)

theorem lookup_perm {κ' β} [BEq κ'] [LawfulBEq κ'] (l1 l2 : List (κ' × β)) (hp : l1.Perm l2)
    (hnd : (l1.map (·.1)).Nodup) (k : κ') : l1.lookup k = l2.lookup k := by
  have hnd2 : (l2.map (·.1)).Nodup := (hp.map _).nodup_iff.mp hnd
  cases h : l1.lookup k with
  | some v =>
    exact (lookup_of_mem l2 hnd2 k v (hp.mem_iff.mp (mem_of_lookup l1 k v h))).symm
  | none =>
    symm
    rw [List.lookup_eq_none_iff] at h ⊢
    intro p hp2
    exact h p (hp.mem_iff.mpr hp2)

/-- the pivot table depends only on the SET of entries of the long table, not on their order -/
theorem pivotE_perm [DecidableEq κ] [DecidableEq ν] (kle : κ → κ → Bool) (lt : ν → ν → Bool)
    (hk : TotalLE kle) (hn : TotalLE (fun a b => !lt b a)) (E1 E2 : List ((κ × ν) × α))
    (hp : E1.Perm E2) : pivotE kle lt E1 = pivotE kle lt E2 := by
  unfold pivotE
  have hnd : (E1.map (·.1)).Nodup ↔ (E2.map (·.1)).Nodup := (hp.map _).nodup_iff
  by_cases h1 : (E1.map (·.1)).Nodup
  · have h2 := hnd.mp h1
    simp only [h1, h2, not_true_eq_false, if_false]
    rw [sortDistinct_perm kle hk _ _ (hp.map (·.1.1)),
      sortDistinct_perm _ hn _ _ (hp.map (·.1.2))]
    have hrow : pivotRow E1 (sortDistinct (fun a b => !lt b a) (E2.map (·.1.2)))
        = pivotRow E2 (sortDistinct (fun a b => !lt b a) (E2.map (·.1.2))) := by
      funext k
      unfold pivotRow
      have hcell : cellOf E1 k = cellOf E2 k := by
        funext d
        unfold cellOf
        rw [lookup_perm E1 E2 hp h1 (k, d)]
      rw [hcell]
    rw [hrow]
  · have h2 : ¬ (E2.map (·.1)).Nodup := fun h => h1 (hnd.mpr h)
    simp only [h1, h2, not_false_eq_true, if_true]
    rfl

/-! ### columns in arbitrary name order -/

theorem insertBy_map_snd {β γ} (lt : ν → ν → Bool) (f : β → γ) (a : ν × β) (l : List (ν × β)) :
    insertBy (pairLE lt) (a.1, f a.2) (l.map (fun p => (p.1, f p.2)))
      = (insertBy (pairLE lt) a l).map (fun p => (p.1, f p.2)) := by
  induction l with
  | nil => rfl
  | cons b l ih =>
    simp only [List.map_cons, insertBy, pairLE]
    by_cases h : (!lt b.1 a.1) = true
    · simp [h]
    · simp only [h, Bool.false_eq_true, if_false, List.map_cons]
      rw [← ih]

theorem isortBy_map_snd {β γ} (lt : ν → ν → Bool) (f : β → γ) (l : List (ν × β)) :
    isortBy (pairLE lt) (l.map (fun p => (p.1, f p.2)))
      = (isortBy (pairLE lt) l).map (fun p => (p.1, f p.2)) := by
  induction l with
  | nil => rfl
  | cons a l ih =>
    simp only [List.map_cons, isortBy]
    rw [ih, insertBy_map_snd]

/-- one variable's block of the molten table -/
def meltBlock (keys : List κ) (p : ν × List α) : List ((κ × ν) × α) :=
  (keys.zip p.2).map (fun q => ((q.1, p.1), q.2))

theorem melt_eq_blocks (names : List ν) (rows : List (κ × List α)) :
    melt names rows = ((names.zip (transposeW names.length (rows.map (·.2)))).map
      (meltBlock (rows.map (·.1)))).flatten := rfl

/-- molten table of the frame rebuilt from a list of (name, column) blocks -/
theorem melt_of_blocks (keys : List κ) (Bs : List (ν × List α))
    (hcol : ∀ p ∈ Bs, p.2.length = keys.length) :
    melt (Bs.map (·.1)) (keys.zip (transposeW keys.length (Bs.map (·.2))))
      = (Bs.map (meltBlock keys)).flatten := by
  have hR : RowsLen keys.length (Bs.map (·.2)) := by
    intro r hr; obtain ⟨p, hp, rfl⟩ := List.mem_map.mp hr; exact hcol p hp
  have hlenT := length_transposeW keys.length (Bs.map (·.2)) hR
  rw [melt_eq_blocks]
  rw [List.map_fst_zip (by rw [hlenT]; exact Nat.le_refl _),
    List.map_snd_zip (by rw [hlenT]; exact Nat.le_refl _)]
  have := transposeW_transposeW keys.length (Bs.map (·.2)) hR
  rw [List.length_map] at this
  rw [List.length_map, this]
  congr 2
  exact (List.zip_of_prod rfl rfl).symm

theorem TotalLE_pairLE_sorted {β} (lt : ν → ν → Bool) (hn : TotalLE (fun a b : ν => !lt b a))
    (l : List (ν × β)) : (isortBy (pairLE lt) l).Pairwise (fun p q => pairLE lt p q = true) :=
  SkVerif.Lem.isortBy_pairwise (pairLE lt)
    (by intro a b c; exact hn.trans a.1 b.1 c.1)
    (by intro a b; exact hn.total a.1 b.1) l

/-- `pivot ∘ melt` for arbitrary (distinct) column names: the columns come back in the order of
their sorted names -/
theorem pivotE_melt_unsorted [DecidableEq κ] [DecidableEq ν] (kle : κ → κ → Bool)
    (lt : ν → ν → Bool) (hk : TotalLE kle) (hn : TotalLE (fun a b : ν => !lt b a))
    (names : List ν) (rows : List (κ × List α))
    (hrows : ∀ r ∈ rows, r.2.length = names.length)
    (hnn : names.Nodup)
    (hkn : (rows.map (·.1)).Nodup) (hks : (rows.map (·.1)).Pairwise (fun a b => kle a b = true))
    (hne : rows ≠ []) (hnne : names ≠ []) :
    let Bs := isortBy (pairLE lt) (names.zip (transposeW names.length (rows.map (·.2))))
    pivotE kle lt (melt names rows) =
      .ok (Bs.map (·.1), (rows.map (·.1)).zip (transposeW rows.length (Bs.map (·.2)))) := by
  intro Bs
  have hR : RowsLen names.length (rows.map (·.2)) := by
    intro r hr; obtain ⟨r', hr', rfl⟩ := List.mem_map.mp hr; exact hrows r' hr'
  have hlenT := length_transposeW names.length (rows.map (·.2)) hR
  have hrowsT := rowsLen_transposeW names.length (rows.map (·.2)) hR
  have hBperm : Bs.Perm (names.zip (transposeW names.length (rows.map (·.2)))) :=
    SkVerif.Lem.isortBy_perm _ _
  have hcol : ∀ p ∈ Bs, p.2.length = (rows.map (·.1)).length := by
    intro p hp
    have hp' := hBperm.mem_iff.mp hp
    have := (List.of_mem_zip hp').2
    rw [hrowsT _ this]; simp
  have hBfst : (Bs.map (·.1)).Perm names := by
    have := hBperm.map (·.1)
    rwa [List.map_fst_zip (by rw [hlenT]; exact Nat.le_refl _)] at this
  have hBlen : Bs.length = names.length := by simpa using hBfst.length_eq
  -- the molten tables have the same entries
  have hperm : (melt names rows).Perm
      (melt (Bs.map (·.1)) ((rows.map (·.1)).zip (transposeW (rows.map (·.1)).length (Bs.map (·.2))))) := by
    rw [melt_of_blocks _ Bs hcol, melt_eq_blocks]
    exact (hBperm.symm.map _).flatten
  rw [pivotE_perm kle lt hk hn _ _ hperm]
  have hlenk : (rows.map (·.1)).length = rows.length := by simp
  rw [hlenk] at hperm ⊢
  have hR2 : RowsLen rows.length (Bs.map (·.2)) := by
    intro r hr; obtain ⟨p, hp, rfl⟩ := List.mem_map.mp hr; rw [hcol p hp, hlenk]
  have hlenT2 := length_transposeW rows.length (Bs.map (·.2)) hR2
  have hrowsT2 := rowsLen_transposeW rows.length (Bs.map (·.2)) hR2
  apply pivotE_melt
  · intro r hr
    have := (List.of_mem_zip hr).2
    rw [hrowsT2 _ this]; simp
  · exact hBfst.nodup_iff.mpr hnn
  · have := TotalLE_pairLE_sorted lt hn (names.zip (transposeW names.length (rows.map (·.2))))
    rw [List.pairwise_map]
    exact this
  · rw [List.map_fst_zip (by rw [hlenT2]; simp)]; exact hkn
  · rw [List.map_fst_zip (by rw [hlenT2]; simp)]; exact hks
  · intro h
    have := congrArg List.length h
    simp [hlenT2] at this
    exact hne this
  · intro h
    have := congrArg List.length h
    rw [List.length_map, hBlen] at this
    exact hnne (List.length_eq_zero_iff.mp this)


/-! ### keys of the canonical multi-index frame -/

def keyLt (a b : Int × Int) : Prop := a.1 < b.1 ∨ (a.1 = b.1 ∧ a.2 < b.2)

theorem miRows_keys {n c t : Nat} {X : Arr3 α} (hX : Rect3 n c t X) (hn : 0 < n) (hc : 0 < c) :
    (miRows X).map (·.1) = ((List.range n).map (fun i : Nat =>
      (List.range t).map (fun q : Nat => ((i : Int), (q : Int))))).flatten := by
  unfold miRows
  rw [List.map_flatten, List.map_map, rect_nTime hX hn hc]
  congr 1
  have h1 : ∀ p ∈ X.zipIdx, ((List.map (fun q : List α × Nat => (((p.2 : Int), (q.2 : Int)), q.1))
      (transposeW t p.1).zipIdx).map (·.1)) = (List.range t).map (fun q : Nat => ((p.2 : Int), (q : Int))) := by
    intro p hp
    have hp1 : p.1 ∈ X := by
      have := List.mem_map_of_mem (f := Prod.fst) hp
      rwa [List.zipIdx_map_fst] at this
    have hlen := length_transposeW t p.1 (hX.2 p.1 hp1).2
    rw [List.map_map]
    have := zipIdx_map_comp_snd (fun q : Nat => ((p.2 : Int), (q : Int))) (transposeW t p.1) 0
    rw [hlen, ← List.range_eq_range'] at this
    exact this
  rw [List.map_congr_left (g := fun p => (List.range t).map (fun q : Nat => ((p.2 : Int), (q : Int)))) (by
    intro p hp; simpa [Function.comp_def] using h1 p hp)]
  rw [zipIdx_map_comp_snd (fun i : Nat => (List.range t).map (fun q : Nat => ((i : Int), (q : Int)))) X 0,
    hX.1, ← List.range_eq_range']

theorem miRows_keys_sorted {n c t : Nat} {X : Arr3 α} (hX : Rect3 n c t X) (hn : 0 < n) (hc : 0 < c) :
    ((miRows X).map (·.1)).Pairwise keyLt := by
  rw [miRows_keys hX hn hc, List.pairwise_flatten]
  constructor
  · intro l hl
    obtain ⟨i, _, rfl⟩ := List.mem_map.mp hl
    rw [List.pairwise_map]
    exact (List.pairwise_lt_range (n := t)).imp (by
      intro a b h; right; exact ⟨rfl, by simpa using h⟩)
  · rw [List.pairwise_map]
    exact (List.pairwise_lt_range (n := n)).imp (by
      intro a b h x hx y hy
      obtain ⟨q1, _, rfl⟩ := List.mem_map.mp hx
      obtain ⟨q2, _, rfl⟩ := List.mem_map.mp hy
      left; simpa using h)

theorem keyLe_of_keyLt (a b : Int × Int) (h : keyLt a b) : keyLe a b = true := by
  unfold keyLe
  rcases h with h | ⟨h1, h2⟩
  · simp [h]
  · simp [h1]; omega

theorem ne_of_keyLt (a b : Int × Int) (h : keyLt a b) : a ≠ b := by
  intro e; subst e
  rcases h with h | ⟨_, h⟩ <;> omega
end SkVerif.Panel.Lem
