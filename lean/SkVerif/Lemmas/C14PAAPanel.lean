import SkVerif.Lemmas.C14Panel
import SkVerif.Lemmas.C14PAA
namespace SkVerif.C14.Lem
open SkVerif SkVerif.C14

theorem column_rectangular (X : Panel) (nc : Nat) (heq : ColumnsEqualLength X nc) (j : Nat) (hj : j < nc) :
    rectangular (column X j) = true := by
  rw [rectangular_iff]
  intro a ha b hb
  obtain ⟨ia, hia, rfl⟩ := List.mem_map.mp ha
  obtain ⟨ib, hib, rfl⟩ := List.mem_map.mp hb
  exact heq j hj ia hia ib hib

/-- PAA on a panel: every cell is replaced by its `k` frame means; rows and columns stay. -/
theorem paa_eq_spec (k : Nat) (X : Panel) (nc : Nat) (hX : WellShaped X) (hc : Columns X nc)
    (heq : ColumnsEqualLength X nc) (hk : 0 < k)
    (hlen : ∀ inst ∈ X, ∀ c ∈ inst, k ≤ c.length) :
    paa (.int k) X = .ok (Spec.paa k X) := by
  obtain ⟨hne, hcols⟩ := hX
  -- the first cell exists and is long enough
  have hfirst : k ≤ ((X.head?.bind List.head?).getD []).length := by
    cases X with
    | nil => exact absurd rfl hne
    | cons inst X =>
      have h0 := hcols inst List.mem_cons_self
      cases inst with
      | nil => exact absurd rfl h0
      | cons c inst => exact hlen _ List.mem_cons_self c List.mem_cons_self
  have hchk : paaCheck (.int (k : Int)) ((X.head?.bind List.head?).getD []).length = .ok k := by
    have h1 : ¬ ((k : Int) ≤ 0) := by omega
    have h2 : ¬ ((k : Int) > ((((X.head?.bind List.head?).getD []).length : Nat) : Int)) := by omega
    have h3 : k ≠ 0 := by omega
    simp [paaCheck, h2, h3]
  have hcolsM : (List.range (nColumns X)).mapM (fun j =>
      let col := column X j
      if rectangular col then Except.ok (col.map (paaSeries k)) else Except.error Err.value)
      = .ok ((List.range nc).map (fun j => (column X j).map (paaSeries k))) := by
    rw [nColumns_eq hne hc]
    apply mapM_except_ok
    intro j hj
    simp [column_rectangular X nc heq j (List.mem_range.mp hj)]
  simp only [paa, checkX_ok ⟨hne, hcols⟩, bind, Except.bind, hchk, hcolsM, pure, Except.pure]
  congr 1
  rw [transpose_columns_map X nc hc (paaSeries k)]
  unfold Spec.paa
  apply List.map_congr_left
  intro inst hi
  apply List.map_congr_left
  intro c hcm
  exact paaSeries_eq_spec k c hk (hlen inst hi c hcm)

theorem paaSeries_spec_length (k : Nat) (xs : List Rat) : (Spec.paaSeries k xs).length = k := by
  simp [Spec.paaSeries]

/-- with integer frame bounds the weights are 0 or 1: the weighted sum is the sum of a block -/
theorem wsum_nat_bounds (A B : Nat) (off : Nat) (l : List Rat) :
    wsum (A : Rat) (B : Rat) off l = ((l.drop (A - off)).take (B - max A off)).sum := by
  induction l generalizing off with
  | nil => simp [wsum]
  | cons x l ih =>
    simp only [wsum, ih (off + 1)]
    by_cases h1 : off < A
    · have hov : ov (A : Rat) (B : Rat) (off : Rat) = 0 := by
        apply ov_after
        have : off + 1 ≤ A := h1
        exact_mod_cast this
      have e1 : A - off = (A - (off + 1)) + 1 := by omega
      have e2 : max A (off + 1) = max A off := by omega
      rw [hov, e1, List.drop_succ_cons, e2]; ring
    · by_cases h2 : off < B
      · have hov : ov (A : Rat) (B : Rat) (off : Rat) = 1 := by
          apply ov_inside
          · have : A ≤ off := by omega
            exact_mod_cast this
          · have : off + 1 ≤ B := h2
            exact_mod_cast this
        have e1 : A - off = 0 := by omega
        have e2 : A - (off + 1) = 0 := by omega
        have e3 : B - max A off = (B - max A (off + 1)) + 1 := by omega
        rw [hov, e1, e2, e3]
        simp [List.take_succ_cons]
      · have hov : ov (A : Rat) (B : Rat) (off : Rat) = 0 := by
          apply ov_before
          have : B ≤ off := by omega
          exact_mod_cast this
        have e1 : B - max A off = 0 := by omega
        have e2 : B - max A (off + 1) = 0 := by omega
        rw [hov, e1, e2]; simp

/-- sanity of the specification: when `k` divides the length, a frame mean is the plain mean of
its block of `q = n / k` consecutive values -/
theorem frameMean_dividing (k q : Nat) (xs : List Rat) (hn : xs.length = k * q) (hk : 0 < k) (hq : 0 < q)
    (j : Nat) : Spec.frameMean k xs j = ((xs.drop (j * q)).take q).sum / (q : Rat) := by
  unfold Spec.frameMean
  have hkR : (k : Rat) ≠ 0 := by exact_mod_cast (Nat.pos_iff_ne_zero.mp hk)
  have hfl : (xs.length : Rat) / (k : Rat) = (q : Rat) := by
    rw [hn]; push_cast; field_simp
  simp only [hfl]
  rw [zipIdx_sum_eq_wsum]
  have ea : (j : Rat) * (q : Rat) = ((j * q : Nat) : Rat) := by push_cast; ring
  have eb : ((j : Rat) + 1) * (q : Rat) = (((j + 1) * q : Nat) : Rat) := by push_cast; ring
  rw [ea, eb, wsum_nat_bounds]
  have e1 : (j + 1) * q - max (j * q) 0 = q := by
    rw [Nat.max_eq_left (Nat.zero_le _), Nat.succ_mul]; omega
  rw [e1]; simp

end SkVerif.C14.Lem
