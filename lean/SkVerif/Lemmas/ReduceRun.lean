/- Lemmas for C05: fit / predict / run of the forecaster object. -/
import SkVerif.Lemmas.ReduceFit
import SkVerif.Lemmas.ReduceRec
namespace SkVerif.Lem.Reduce
open SkVerif.Reduce
open SkVerif.Spec.Reduce

variable {α : Type}

/-- in a strictly increasing horizon every step is at most the last one -/
theorem le_last_of_sorted (fh : List Int) (hm : Int) (hs : fh.Pairwise (· < ·)) (hlast : fh.getLast? = some hm) :
    ∀ h ∈ fh, h ≤ hm := by
  obtain ⟨ini, rfl⟩ := List.getLast?_eq_some_iff.mp hlast
  intro h hh
  rw [List.pairwise_append] at hs
  rcases List.mem_append.mp hh with h1 | h1
  · have := hs.2.2 h h1 hm (by simp); omega
  · simp at h1; omega

theorem xCols_of (y : List α) (X : Option (List (List α))) (nc : Nat) (hr : Rect y X nc) (hy : y ≠ []) :
    xCols X = nc := by
  cases X with
  | none => simp [Rect] at hr; simp [xCols, hr]
  | some rows =>
    obtain ⟨hl, hrow⟩ := hr
    have : rows ≠ [] := by
      intro h; subst h; simp at hl; exact hy (List.length_eq_zero_iff.mp hl.symm)
    simp [xCols, nCols_of this hrow]

/-- the fitted clones, numbered by the ordinal of their fit call -/
def numbered (a : Nat) (es : List (Est α)) : List (Nat × Est α) :=
  List.zipWith (fun i e => (a + i, e)) (List.range es.length) es

theorem ests_eq (a : Nat) (es : List (Est α)) :
    ((List.range es.length).zip es |>.map fun (p : Nat × Est α) => (a + p.1, p.2)) = numbered a es := by
  unfold numbered
  apply List.ext_getElem
  · simp
  · intro i h1 h2
    simp

/-- `fit` on a fresh forecaster, given what `_set_fh` stores and what `_fit` hands to the regressor -/
theorem fit_ok (V : Vals α) (R : Regressor α) (s : Strategy) (sci : Scitype) (wl : Nat) (t0 : Int)
    (y : List α) (X : Option (List (List α))) (fhArg stored : Option (List Int))
    (jobs : List (List (Inst α) × Target α)) (hy : y ≠ []) (hwl : 1 ≤ wl)
    (hset : setFh (requiredFh s) false none fhArg = .ok stored)
    (hjobs : fitJobs V s sci (.int wl) (some wl) y X stored = .ok jobs) :
    fit V R { strategy := s, sci := sci, wlRaw := .int wl } t0 y X fhArg =
      .ok ({ strategy := s, sci := sci, wlRaw := .int wl, wl_ := some wl, y := y, X := X, t0 := t0,
             cutoff := t0 + y.length - 1, fh := stored, fitted := true,
             ests := numbered 0 (jobs.map (trainJob R)), nfit := jobs.length },
           jobs.map fun j => Call.fit j.1 j.2) := by
  have hne : y.isEmpty = false := by cases y <;> simp_all
  have hwl' : ¬ ((wl : Int) < 1) := by omega
  unfold fit
  simp only [hne, Bool.false_eq_true, if_false, hset, checkWindowLength, hwl', Int.toNat_natCast, hjobs,
    bind, Except.bind, pure, Except.pure]
  simp
  unfold numbered
  apply List.ext_getElem
  · simp
  · intro i h1 h2
    simp

theorem setFh_pred (req : Bool) (fh : List Int) (fhPred : Option (List Int))
    (hfp : fhPred = none ∨ fhPred = some fh) (hck : checkFh fh = .ok fh) :
    setFh req true (some fh) fhPred = .ok (some fh) := by
  rcases hfp with h | h <;> subst h <;> cases req <;> simp [setFh, hck, bind, Except.bind]

/-- the state `fit` leaves behind -/
def fittedFc (s : Strategy) (sci : Scitype) (wl : Nat) (t0 : Int) (y : List α) (X : Option (List (List α)))
    (stored : Option (List Int)) (ests : List (Nat × Est α)) (nfit : Nat) : Fc α :=
  { strategy := s, sci := sci, wlRaw := .int wl, wl_ := some wl, y := y, X := X, t0 := t0,
    cutoff := t0 + y.length - 1, fh := stored, fitted := true, ests := ests, nfit := nfit }

theorem predict_direct (V : Vals α) (d : α) (sci : Scitype) (wl : Nat) (t0 : Int) (y : List α)
    (X Xp : Option (List (List α))) (nc : Nat) (fh : List Int) (fhPred : Option (List Int))
    (ests : List (Nat × Est α)) (nfit : Nat)
    (hr : Rect y X nc) (hwl : 1 ≤ wl) (hlen : wl ≤ y.length) (hpos : ∀ h ∈ fh, 1 ≤ h)
    (hck : checkFh fh = .ok fh) (hfp : fhPred = none ∨ fhPred = some fh)
    (hp : ∀ v ∈ y.drop (y.length - wl), V.bad v = false) :
    predict V (fittedFc .direct sci wl t0 y X (some fh) ests nfit) fhPred Xp =
      .ok (ests.map (fun e => Call.predict e.1 (lastInst (ofLists d y X) y.length (nc + 1) wl (sci == .tabular))
              [applyEst e.2 (lastInst (ofLists d y X) y.length (nc + 1) wl (sci == .tabular))]),
           List.zipWith (fun h v => (t0 + y.length - 1 + h, v)) fh
             (ests.map fun e => applyEst e.2 (lastInst (ofLists d y X) y.length (nc + 1) wl (sci == .tabular)))) := by
  have hy : y ≠ [] := by intro h; subst h; simp at hlen; omega
  unfold predict predictCore fittedFc
  simp only [requiredFh, setFh_pred true fh fhPred hfp hck, allOut_of_pos fh hpos, bind, Except.bind,
    Bool.not_true, Bool.false_eq_true, if_false, Option.getD_some,
    lastWindow_eq t0 wl y X nc hr hlen hwl, xCols_of y X nc hr hy, pure, Except.pure]
  unfold directPredict
  simp only [isPredictable_drop V y wl hlen hp, Bool.not_true, Bool.false_eq_true, if_false,
    predInst_eq V d sci wl y X nc hr hlen]

theorem predict_multioutput (V : Vals α) (d : α) (sci : Scitype) (wl : Nat) (t0 : Int) (y : List α)
    (X Xp : Option (List (List α))) (nc : Nat) (fh : List Int) (fhPred : Option (List Int))
    (k : Nat) (f : Inst α → Nat → α) (es : List (Nat × Est α)) (nfit : Nat)
    (hr : Rect y X nc) (hwl : 1 ≤ wl) (hlen : wl ≤ y.length) (hpos : ∀ h ∈ fh, 1 ≤ h)
    (hck : checkFh fh = .ok fh) (hfp : fhPred = none ∨ fhPred = some fh)
    (hp : ∀ v ∈ y.drop (y.length - wl), V.bad v = false) :
    predict V (fittedFc .multioutput sci wl t0 y X (some fh) ((k, .multi f) :: es) nfit) fhPred Xp =
      .ok ([Call.predict k (lastInst (ofLists d y X) y.length (nc + 1) wl (sci == .tabular))
              ((List.range fh.length).map fun j => f (lastInst (ofLists d y X) y.length (nc + 1) wl (sci == .tabular)) j)],
           List.zipWith (fun h v => (t0 + y.length - 1 + h, v)) fh
             ((List.range fh.length).map fun j => f (lastInst (ofLists d y X) y.length (nc + 1) wl (sci == .tabular)) j)) := by
  have hy : y ≠ [] := by intro h; subst h; simp at hlen; omega
  unfold predict predictCore fittedFc
  simp only [requiredFh, setFh_pred true fh fhPred hfp hck, allOut_of_pos fh hpos, bind, Except.bind,
    Bool.not_true, Bool.false_eq_true, if_false, Option.getD_some,
    lastWindow_eq t0 wl y X nc hr hlen hwl, xCols_of y X nc hr hy, pure, Except.pure]
  unfold multiPredict
  simp only [isPredictable_drop V y wl hlen hp, Bool.not_true, Bool.false_eq_true, if_false,
    predInst_eq V d sci wl y X nc hr hlen]

theorem predict_recursive (V : Vals α) (d : α) (sci : Scitype) (wl : Nat) (t0 : Int) (y : List α)
    (X Xp : Option (List (List α))) (nc : Nat) (stored : Option (List Int)) (fh : List Int)
    (fhPred : Option (List Int)) (hm : Int)
    (k : Nat) (e : Est α) (es : List (Nat × Est α)) (nfit : Nat)
    (hr : Rect y X nc) (hf : FutureRect X Xp nc hm.toNat) (hwl : 1 ≤ wl) (hlen : wl ≤ y.length)
    (hpos : ∀ h ∈ fh, 1 ≤ h) (hlast : fh.getLast? = some hm)
    (hset : setFh false true stored fhPred = .ok (some fh))
    (hp : ∀ v ∈ y.drop (y.length - wl), V.bad v = false) :
    predict V (fittedFc .recursive sci wl t0 y X stored ((k, e) :: es) nfit) fhPred Xp =
      .ok ((recTraceFrom (applyEst e) (ofLists d y (fullX X Xp)) y.length (nc + 1) wl (sci == .tabular) d [] hm.toNat).map
              (fun (t : Inst α × α) => Call.predict k t.1 [t.2]),
           List.zipWith (fun h v => (t0 + y.length - 1 + h, v)) fh (fh.map fun h =>
             ((recTraceFrom (applyEst e) (ofLists d y (fullX X Xp)) y.length (nc + 1) wl (sci == .tabular) d [] hm.toNat).map
               Prod.snd).getD (h - 1).toNat V.zero)) := by
  have hm1 : 1 ≤ hm := hpos hm (List.mem_of_getLast? hlast)
  unfold predict predictCore fittedFc
  simp only [requiredFh, hset, allOut_of_pos fh hpos, bind, Except.bind,
    Bool.not_true, Bool.false_eq_true, if_false, Option.getD_some,
    lastWindow_eq t0 wl y X nc hr hlen hwl, pure, Except.pure,
    recursivePredict_eq V d sci wl k e es y X Xp nc fh hm hr hf hlen hwl hlast hm1 hp]

theorem predict_dirrec (V : Vals α) (sci : Scitype) (wl : Nat) (t0 : Int) (y : List α)
    (fh : List Int) (fhPred : Option (List Int)) (ests : List (Nat × Est α)) (nfit : Nat)
    (hwl : 1 ≤ wl) (hlen : wl ≤ y.length) (hpos : ∀ h ∈ fh, 1 ≤ h) (hel : ests.length = fh.length)
    (hck : checkFh fh = .ok fh) (hfp : fhPred = none ∨ fhPred = some fh)
    (hp : ∀ v ∈ y.drop (y.length - wl), V.bad v = false) :
    predict V (fittedFc .dirrec sci wl t0 y none (some fh) ests nfit) fhPred none =
      .ok (List.zipWith (fun (e : Nat × Est α) (t : Inst α × α) => Call.predict e.1 t.1 [t.2]) ests
              (dirrecTrace (sci == .tabular) (y.drop (y.length - wl)) (ests.map fun e => applyEst e.2) []),
           List.zipWith (fun h v => (t0 + y.length - 1 + h, v)) fh
             ((dirrecTrace (sci == .tabular) (y.drop (y.length - wl)) (ests.map fun e => applyEst e.2) []).map Prod.snd)) := by
  have hr : Rect y none 0 := by simp [Rect]
  have hyl : (y.drop (y.length - wl)).length = wl := by simp; omega
  unfold predict predictCore fittedFc
  simp only [requiredFh, setFh_pred true fh fhPred hfp hck, allOut_of_pos fh hpos, bind, Except.bind,
    Bool.not_true, Bool.false_eq_true, if_false, Option.getD_some,
    lastWindow_eq t0 wl y none 0 hr hlen hwl, pure, Except.pure]
  unfold dirrecPredict
  simp only [isPredictable_drop V y wl hlen hp, Bool.not_true, Bool.false_eq_true, if_false]
  have := dirrecLoop_eq V sci wl (y.drop (y.length - wl)) hyl ests []
  simp only [List.length_nil, List.append_nil, hel] at this
  rw [this]

theorem numbered_map {β γ : Type} (a : Nat) (l : List β) (g : β → Est α) (F : Nat × Est α → γ) :
    (numbered a (l.map g)).map F = List.zipWith (fun i b => F (a + i, g b)) (List.range l.length) l := by
  unfold numbered
  apply List.ext_getElem
  · simp
  · intro i h1 h2
    simp

theorem numbered_map_snd {γ : Type} (a : Nat) (es : List (Est α)) (H : Est α → γ) :
    (numbered a es).map (fun e => H e.2) = es.map H := by
  unfold numbered
  apply List.ext_getElem
  · simp
  · intro i h1 h2
    simp

theorem zipWith_map_self {β γ δ : Type} (f : β → γ → δ) (g : β → γ) (l : List β) :
    List.zipWith f l (l.map g) = l.map fun b => f b (g b) := by
  induction l with
  | nil => rfl
  | cons a l ih => simp [ih]

theorem numbered_length (a : Nat) (es : List (Est α)) : (numbered a es).length = es.length := by
  simp [numbered]

theorem zipWith_range_ignore {β γ : Type} (l : List β) (G : β → γ) :
    List.zipWith (fun (_ : Nat) b => G b) (List.range l.length) l = l.map G := by
  apply List.ext_getElem
  · simp
  · intro i h1 h2
    simp

theorem applyEst_single (f : Inst α → α) : applyEst (Est.single f) = f := by
  funext x; rfl

theorem numbered_zipWith_fst {β γ : Type} (a : Nat) (es : List (Est α)) (tr : List β) (F : Nat → β → γ) :
    List.zipWith (fun (e : Nat × Est α) t => F e.1 t) (numbered a es) tr =
      List.zipWith (fun i t => F (a + i) t) (List.range es.length) tr := by
  unfold numbered
  apply List.ext_getElem
  · simp
  · intro i h1 h2
    simp

theorem zipWith_range_range {γ : Type} (n : Nat) (G : Nat → γ) :
    List.zipWith (fun (_ : Nat) b => G b) (List.range n) (List.range n) = (List.range n).map G := by
  have := zipWith_range_ignore (List.range n) G
  rw [List.length_range] at this
  exact this
