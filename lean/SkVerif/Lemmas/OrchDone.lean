/- Completion of a run that ends without error, and the closed form of a run without failure. -/
import SkVerif.Lemmas.OrchRun
set_option linter.unusedSectionVars false
namespace SkVerif.Orch.Lem
open SkVerif.Orch SkVerif.Orch.Spec

variable {N K W : Type} [DecidableEq N] [DecidableEq K]
variable (cfg : Cfg N K) (L : Learner W) (o : Opts) (fail : Option Nat)

/-- nothing is ever deleted -/
def StLe (s s' : St N K W) : Prop :=
  (∀ k, has k s.recs = true → has k s'.recs = true) ∧ (∀ k, has k s.strats = true → has k s'.strats = true)

theorem StLe.refl (s : St N K W) : StLe s s := ⟨fun _ h => h, fun _ h => h⟩
theorem StLe.trans {a b c : St N K W} (h1 : StLe a b) (h2 : StLe b c) : StLe a c :=
  ⟨fun k h => h2.1 k (h1.1 k h), fun k h => h2.2 k (h1.2 k h)⟩

theorem callEst_le (c : Call N) (r : Run N K W) : StLe r.st (callEst fail c r).st := by
  rw [callEst_st]; exact StLe.refl _

theorem saveStrat_le (it : Item N) (w : W) (r : Run N K W) : StLe r.st (saveStrat cfg it w r).st := by
  rcases saveStrat_st cfg it w r with e | ⟨_, e⟩ <;> rw [e]
  · exact StLe.refl _
  · exact ⟨fun k h => by simpa using h, fun k h => by rw [writeStrat_strats]; exact has_put_mono _ _ h⟩

theorem savePred_le (it : Item N) (p : Part) (c : Content) (r : Run N K W) :
    StLe r.st (savePred cfg it p c r).st := by
  rcases savePred_st cfg it p c r with e | e <;> rw [e]
  · exact StLe.refl _
  · exact ⟨fun k h => by rw [writeRec_recs]; exact has_put_mono _ _ h, fun k h => by simpa using h⟩

theorem predictSave_le (w : W) (it : Item N) (p : Part) (r : Run N K W) :
    StLe r.st (predictSave cfg L fail w it p r).st :=
  StLe.trans (callEst_le fail _ r) (savePred_le cfg it p _ _)

theorem cond_le {b : Bool} {f : Run N K W → Run N K W} (hf : ∀ r, StLe r.st (f r).st) (r : Run N K W) :
    StLe r.st (cond b f r).st := by
  unfold cond; split
  · exact hf r
  · exact StLe.refl _

/-! error back-propagation: an error never disappears -/

theorem callEst_err_none (c : Call N) (r : Run N K W) (h : (callEst fail c r).err = none) : r.err = none := by
  cases hr : r.err with
  | none => rfl
  | some e => rw [callEst_err fail c r (by simp [hr])] at h; rw [hr] at h; cases h

theorem saveStrat_err_none (it : Item N) (w : W) (r : Run N K W) (h : (saveStrat cfg it w r).err = none) :
    r.err = none := by
  cases hr : r.err with
  | none => rfl
  | some e => rw [saveStrat_err cfg it w r (by simp [hr])] at h; rw [hr] at h; cases h

theorem savePred_err_none (it : Item N) (p : Part) (c : Content) (r : Run N K W)
    (h : (savePred cfg it p c r).err = none) : r.err = none := by
  cases hr : r.err with
  | none => rfl
  | some e => rw [savePred_err cfg it p c r (by simp [hr])] at h; rw [hr] at h; cases h

theorem predictSave_err_none (w : W) (it : Item N) (p : Part) (r : Run N K W)
    (h : (predictSave cfg L fail w it p r).err = none) : r.err = none :=
  callEst_err_none fail _ r (savePred_err_none cfg it p _ _ h)

theorem cond_err_none {b : Bool} {f : Run N K W → Run N K W}
    (hf : ∀ r, (f r).err = none → r.err = none) (r : Run N K W) (h : (cond b f r).err = none) :
    r.err = none := by
  unfold cond at h; split at h
  · exact hf r h
  · exact h

/-! a save that went through left its entry -/

theorem savePred_has (it : Item N) (p : Part) (c : Content) (r : Run N K W)
    (h : (savePred cfg it p c r).err = none) :
    has (rk cfg it p) (savePred cfg it p c r).st.recs = true := by
  have hr := savePred_err_none cfg it p c r h
  simp only [savePred, hr, Option.isSome_none, Bool.false_eq_true, if_false, writeRec_recs, rk]
  exact has_put_self _ _ _

theorem predictSave_has (w : W) (it : Item N) (p : Part) (r : Run N K W)
    (h : (predictSave cfg L fail w it p r).err = none) :
    has (rk cfg it p) (predictSave cfg L fail w it p r).st.recs = true :=
  savePred_has cfg it p _ _ h

theorem saveStrat_has (it : Item N) (w : W) (r : Run N K W)
    (h : (saveStrat cfg it w r).err = none) :
    has (sk cfg it) (saveStrat cfg it w r).st.strats = true := by
  have hr := saveStrat_err_none cfg it w r h
  cases hd : cfg.disk
  · simp [saveStrat, hr, hd] at h
  · simp only [saveStrat, hr, Option.isSome_none, Bool.false_eq_true, if_false, hd, if_true, writeStrat_strats, sk]
    exact has_put_self _ _ _

/-- One iteration that ends without error leaves everything requested for its item in the store. -/
theorem stepItem_complete (r : Run N K W) (a : Item N)
    (h : (stepItem cfg L o fail r a).err = none) :
    CompleteItem cfg o (stepItem cfg L o fail r a).st a := by
  have herr : r.err = none := by
    cases hr : r.err with
    | none => rfl
    | some e => rw [stepItem_err cfg L o fail r a (by simp [hr])] at h; rw [hr] at h; cases h
  rw [stepItem_eq] at h ⊢
  simp only [herr, Option.isSome_none, Bool.false_eq_true, if_false] at h ⊢
  cases hsk : skip o (flagsOf cfg r.st a)
  · -- the iteration runs
    simp only [hsk, Bool.false_eq_true, if_false] at h ⊢
    generalize hr1 : callEst fail (Call.fit a) r = r1 at h ⊢
    generalize hr2 : cond (needStrat o (flagsOf cfg r.st a)) (saveStrat cfg a (strategyFit L a)) r1 = r2 at h ⊢
    generalize hr3 : cond (needTrain o (flagsOf cfg r.st a)) (predictSave cfg L fail (strategyFit L a) a .train) r2 = r3 at h ⊢
    have e3 : r3.err = none := cond_err_none (fun r => predictSave_err_none cfg L fail _ a .test r) r3 h
    have e2 : r2.err = none := by
      rw [← hr3] at e3; exact cond_err_none (fun r => predictSave_err_none cfg L fail _ a .train r) r2 e3
    have l01 : StLe r.st r1.st := by rw [← hr1]; exact callEst_le fail _ r
    have l12 : StLe r1.st r2.st := by rw [← hr2]; exact cond_le (fun r => saveStrat_le cfg a _ r) r1
    have l23 : StLe r2.st r3.st := by rw [← hr3]; exact cond_le (fun r => predictSave_le cfg L fail _ a .train r) r2
    have l34 := cond_le (b := needTest o (flagsOf cfg r.st a)) (fun r => predictSave_le cfg L fail (strategyFit L a) a .test r) r3
    refine ⟨?_, ?_, ?_⟩
    · cases hb : needTest o (flagsOf cfg r.st a)
      · have : has (rk cfg a .test) r.st.recs = true := by
          simp [needTest, flags_testEx] at hb; exact hb.2.2
        simp only [cond, Bool.false_eq_true, if_false]
        exact l23.1 _ (l12.1 _ (l01.1 _ this))
      · simp only [hb, cond, if_true] at h ⊢
        exact predictSave_has cfg L fail _ a .test r3 h
    · intro hpot
      apply l34.1
      cases hb : needTrain o (flagsOf cfg r.st a)
      · have : has (rk cfg a .train) r.st.recs = true := by
          simp [needTrain, flags_trainEx, hpot] at hb; exact hb.2.2
        rw [← hr3, hb]; simp only [cond, Bool.false_eq_true, if_false]
        exact l12.1 _ (l01.1 _ this)
      · rw [← hr3, hb] at e3 ⊢
        simp only [cond, if_true] at e3 ⊢
        exact predictSave_has cfg L fail _ a .train r2 e3
    · intro hsave
      apply l34.2
      apply l23.2
      cases hb : needStrat o (flagsOf cfg r.st a)
      · have : has (sk cfg a) r.st.strats = true := by
          simp [needStrat, flags_fitEx, hsave] at hb; exact hb.2.2
        rw [← hr2, hb]; simp only [cond, Bool.false_eq_true, if_false]
        exact l01.2 _ this
      · rw [← hr2, hb] at e2 ⊢
        simp only [cond, if_true] at e2 ⊢
        exact saveStrat_has cfg a _ r1 e2
  · -- skipped: everything requested was there
    simp only [if_true]
    have hs := hsk
    simp only [skip, flags_testEx, flags_trainEx, flags_fitEx, Bool.and_eq_true,
      Bool.or_eq_true, Bool.not_eq_true'] at hs
    obtain ⟨⟨⟨⟨_, _, h1⟩, h2⟩, _⟩, h3⟩ := hs
    refine ⟨h1, ?_, ?_⟩
    · intro hp; rcases h2 with h2 | h2
      · exact h2.2
      · rw [hp] at h2; cases h2
    · intro hp; rcases h3 with h3 | h3
      · exact h3.2
      · rw [hp] at h3; cases h3

/-! ### registration: an iteration that ends without error leaves its names in the registry -/

def Reg (st : St N K W) (it : Item N) : Prop := it.s ∈ st.regS ∧ it.d ∈ st.regD

/-- the registry only grows -/
def RegLe (s s' : St N K W) : Prop := (∀ x ∈ s.regS, x ∈ s'.regS) ∧ (∀ x ∈ s.regD, x ∈ s'.regD)

theorem RegLe.refl (s : St N K W) : RegLe s s := ⟨fun _ h => h, fun _ h => h⟩
theorem RegLe.trans {a b c : St N K W} (h1 : RegLe a b) (h2 : RegLe b c) : RegLe a c :=
  ⟨fun x h => h2.1 x (h1.1 x h), fun x h => h2.2 x (h1.2 x h)⟩

theorem register_rle (s d : N) (st : St N K W) : RegLe st (register s d st) :=
  ⟨fun _ h => mem_addNew_of_mem _ h, fun _ h => mem_addNew_of_mem _ h⟩

theorem writeRec_rle (it : Item N) (p : Part) (c : Content) (st : St N K W) : RegLe st (writeRec cfg it p c st) :=
  ⟨fun _ h => by rw [writeRec_regS]; exact mem_addNew_of_mem _ h,
   fun _ h => by rw [writeRec_regD]; exact mem_addNew_of_mem _ h⟩

theorem writeStrat_rle (it : Item N) (w : W) (st : St N K W) : RegLe st (writeStrat cfg it w st) :=
  ⟨fun _ h => by rw [writeStrat_regS]; exact mem_addNew_of_mem _ h,
   fun _ h => by rw [writeStrat_regD]; exact mem_addNew_of_mem _ h⟩

theorem callEst_rle (c : Call N) (r : Run N K W) : RegLe r.st (callEst fail c r).st := by
  rw [callEst_st]; exact RegLe.refl _

theorem saveStrat_rle (it : Item N) (w : W) (r : Run N K W) : RegLe r.st (saveStrat cfg it w r).st := by
  rcases saveStrat_st cfg it w r with e | ⟨_, e⟩ <;> rw [e]
  · exact RegLe.refl _
  · exact writeStrat_rle cfg it w _

theorem savePred_rle (it : Item N) (p : Part) (c : Content) (r : Run N K W) :
    RegLe r.st (savePred cfg it p c r).st := by
  rcases savePred_st cfg it p c r with e | e <;> rw [e]
  · exact RegLe.refl _
  · exact writeRec_rle cfg it p c _

theorem predictSave_rle (w : W) (it : Item N) (p : Part) (r : Run N K W) :
    RegLe r.st (predictSave cfg L fail w it p r).st :=
  RegLe.trans (callEst_rle fail _ r) (savePred_rle cfg it p _ _)

theorem cond_rle {b : Bool} {f : Run N K W → Run N K W} (hf : ∀ r, RegLe r.st (f r).st) (r : Run N K W) :
    RegLe r.st (cond b f r).st := by
  unfold cond; split
  · exact hf r
  · exact RegLe.refl _

theorem reg_mono {st st' : St N K W} (h : RegLe st st') {it : Item N} (hr : Reg st it) : Reg st' it :=
  ⟨h.1 _ hr.1, h.2 _ hr.2⟩

theorem savePred_reg (it : Item N) (p : Part) (c : Content) (r : Run N K W)
    (h : (savePred cfg it p c r).err = none) : Reg (savePred cfg it p c r).st it := by
  have hr := savePred_err_none cfg it p c r h
  simp only [savePred, hr, Option.isSome_none, Bool.false_eq_true, if_false, Reg, writeRec_regS, writeRec_regD]
  exact ⟨mem_addNew_self _ _, mem_addNew_self _ _⟩

theorem saveStrat_reg (it : Item N) (w : W) (r : Run N K W)
    (h : (saveStrat cfg it w r).err = none) : Reg (saveStrat cfg it w r).st it := by
  have hr := saveStrat_err_none cfg it w r h
  cases hd : cfg.disk
  · simp [saveStrat, hr, hd] at h
  · simp only [saveStrat, hr, Option.isSome_none, Bool.false_eq_true, if_false, hd, if_true, Reg,
      writeStrat_regS, writeStrat_regD]
    exact ⟨mem_addNew_self _ _, mem_addNew_self _ _⟩

/-- with accepted options, an iteration that is not skipped saves at least one thing -/
theorem some_save (o : Opts) (f : Flags) (ho : (o.owF && !o.saveF) = false) (h0 : skip o f = false)
    (h1 : needStrat o f = false) (h2 : needTrain o f = false) (h3 : needTest o f = false) : False := by
  obtain ⟨a, b, c, d⟩ := o
  obtain ⟨x, y, z⟩ := f
  revert ho h0 h1 h2 h3
  cases a <;> cases b <;> cases c <;> cases d <;> cases x <;> cases y <;> cases z <;> decide

/-- One iteration that ends without error leaves its strategy and dataset registered (skipped or not). -/
theorem stepItem_registers (ho : (o.owF && !o.saveF) = false) (r : Run N K W) (a : Item N)
    (h : (stepItem cfg L o fail r a).err = none) : Reg (stepItem cfg L o fail r a).st a := by
  have herr : r.err = none := by
    cases hr : r.err with
    | none => rfl
    | some e => rw [stepItem_err cfg L o fail r a (by simp [hr])] at h; rw [hr] at h; cases h
  rw [stepItem_eq] at h ⊢
  simp only [herr, Option.isSome_none, Bool.false_eq_true, if_false] at h ⊢
  cases hsk : skip o (flagsOf cfg r.st a)
  · simp only [hsk, Bool.false_eq_true, if_false] at h ⊢
    generalize hr1 : callEst fail (Call.fit a) r = r1 at h ⊢
    generalize hr2 : cond (needStrat o (flagsOf cfg r.st a)) (saveStrat cfg a (strategyFit L a)) r1 = r2 at h ⊢
    generalize hr3 : cond (needTrain o (flagsOf cfg r.st a)) (predictSave cfg L fail (strategyFit L a) a .train) r2 = r3 at h ⊢
    have e3 : r3.err = none := cond_err_none (fun r => predictSave_err_none cfg L fail _ a .test r) r3 h
    have e2 : r2.err = none := by
      rw [← hr3] at e3; exact cond_err_none (fun r => predictSave_err_none cfg L fail _ a .train r) r2 e3
    have l23 : RegLe r2.st r3.st := by rw [← hr3]; exact cond_rle (fun r => predictSave_rle cfg L fail _ a .train r) r2
    have l34 := cond_rle (b := needTest o (flagsOf cfg r.st a)) (fun r => predictSave_rle cfg L fail (strategyFit L a) a .test r) r3
    cases hb3 : needTest o (flagsOf cfg r.st a)
    · cases hb2 : needTrain o (flagsOf cfg r.st a)
      · cases hb1 : needStrat o (flagsOf cfg r.st a)
        · exact (some_save o _ ho hsk hb1 hb2 hb3).elim
        · rw [hb3] at l34
          apply reg_mono l34
          apply reg_mono l23
          rw [← hr2, hb1] at e2 ⊢
          simp only [cond, if_true] at e2 ⊢
          exact saveStrat_reg cfg a _ r1 e2
      · rw [hb3] at l34
        apply reg_mono l34
        rw [← hr3, hb2] at e3 ⊢
        simp only [cond, if_true] at e3 ⊢
        exact savePred_reg cfg a .train _ _ e3
    · rw [hb3] at h
      simp only [cond, if_true] at h ⊢
      exact savePred_reg cfg a .test _ _ h
  · simp only [if_true]
    exact ⟨mem_addNew_self _ _, mem_addNew_self _ _⟩

theorem runItems_rle (items : List (Item N)) (r : Run N K W) : RegLe r.st (runItems cfg L o fail items r).st := by
  apply runItems_st cfg L o fail (fun st => RegLe r.st st) items _ _ _ r (RegLe.refl _)
  · intro a _ st hst; exact RegLe.trans hst (register_rle _ _ _)
  · intro a _ _ _ st hst; exact RegLe.trans hst (writeStrat_rle cfg a _ _)
  · intro a _ p _ st hst; exact RegLe.trans hst (writeRec_rle cfg a p _ _)

/-- A loop that ends without error leaves every strategy and dataset of the work list registered. -/
theorem runItems_registers (ho : (o.owF && !o.saveF) = false) (items : List (Item N)) (r : Run N K W)
    (h : (runItems cfg L o fail items r).err = none) :
    ∀ it ∈ items, Reg (runItems cfg L o fail items r).st it := by
  induction items generalizing r with
  | nil => intro it hit; cases hit
  | cons a t ih =>
    rw [runItems_cons] at h ⊢
    intro it hit
    rcases List.mem_cons.1 hit with e | hit
    · subst e
      have h1 : (stepItem cfg L o fail r it).err = none := by
        cases hr : (stepItem cfg L o fail r it).err with
        | none => rfl
        | some e => rw [runItems_err cfg L o fail t _ (by simp [hr])] at h; rw [hr] at h; cases h
      exact reg_mono (runItems_rle cfg L o fail t _) (stepItem_registers cfg L o fail ho r it h1)
    · exact ih _ h it hit

theorem completeItem_mono (st st' : St N K W) (hle : StLe st st') (it : Item N)
    (h : CompleteItem cfg o st it) : CompleteItem cfg o st' it :=
  ⟨hle.1 _ h.1, fun hp => hle.1 _ (h.2.1 hp), fun hs => hle.2 _ (h.2.2 hs)⟩

theorem runItems_le (items : List (Item N)) (r : Run N K W) : StLe r.st (runItems cfg L o fail items r).st :=
  ⟨fun k h => runItems_hasR cfg L o fail items k r h, fun k h => runItems_hasS cfg L o fail items k r h⟩

/-- A loop that ends without error leaves everything requested for every item in the store. -/
theorem runItems_complete (items : List (Item N)) (r : Run N K W)
    (h : (runItems cfg L o fail items r).err = none) :
    ∀ it ∈ items, CompleteItem cfg o (runItems cfg L o fail items r).st it := by
  induction items generalizing r with
  | nil => intro it hit; cases hit
  | cons a t ih =>
    rw [runItems_cons] at h ⊢
    intro it hit
    rcases List.mem_cons.1 hit with e | hit
    · subst e
      have h1 : (stepItem cfg L o fail r it).err = none := by
        cases hr : (stepItem cfg L o fail r it).err with
        | none => rfl
        | some e => rw [runItems_err cfg L o fail t _ (by simp [hr])] at h; rw [hr] at h; cases h
      exact completeItem_mono cfg o _ _ (runItems_le cfg L o fail t _) it (stepItem_complete cfg L o fail r it h1)
    · exact ih _ h it hit

end SkVerif.Orch.Lem
