/- Multi-output, continued: relative-error metrics (three matrices) and the metrics that call another metric
(scaled errors, relative loss): `raw_values` is column-by-column. -/
import SkVerif.Lemmas.MetricsMulti
namespace SkVerif.Lem.Metrics
open SkVerif SkVerif.Metrics

theorem relCols_length (eps : Rat) (f : Col → Rat) : ∀ (yt yp yb : Mat),
    (relCols eps f yt yp yb).length = min yt.length (min yp.length yb.length) := by
  intro yt
  induction yt with
  | nil => intro yp yb; simp [relCols]
  | cons t ts ih =>
    intro yp yb
    cases yp with
    | nil => simp [relCols]
    | cons p ps =>
      cases yb with
      | nil => simp [relCols]
      | cons b bs => simp only [relCols, List.length_cons, ih]; omega

theorem relCols_getElem (eps : Rat) (f : Col → Rat) : ∀ (yt yp yb : Mat) (j : Nat) (h1 : j < yt.length)
    (h2 : j < yp.length) (h3 : j < yb.length) (h : j < (relCols eps f yt yp yb).length),
    (relCols eps f yt yp yb)[j] = f (relCol eps yt[j] yp[j] yb[j]) := by
  intro yt
  induction yt with
  | nil => intro yp yb j h1; simp at h1
  | cons t ts ih =>
    intro yp yb j h1 h2 h3 h
    cases yp with
    | nil => simp at h2
    | cons p ps =>
      cases yb with
      | nil => simp at h3
      | cons b bs =>
        cases j with
        | zero => simp [relCols]
        | succ j' =>
          simp only [relCols, List.getElem_cons_succ]
          exact ih ps bs j' (by simpa using h1) (by simpa using h2) (by simpa using h3) _

/-- a relative-error metric with the common skeleton (two target checks, a data-independent condition `pre` on the
horizon weights, optional weight-sum check, per-column value `colf hw (relative errors of the column)`, root degree
possibly depending on the weights and the number of rows) -/
def IsDirect3 (eps : Rat) (f : Mat → Mat → Mat → Option (List Rat) → MO → Except Err Out)
    (pre : Option (List Rat) → Prop) (colf : Option (List Rat) → Col → Rat)
    (k : Option (List Rat) → Nat → Nat) (needSum : Bool) : Prop :=
  ∀ yt yp yb hw mo out, (f yt yp yb hw mo = .ok out ↔
    checkRegTargets yt yp mo = .ok () ∧ checkRegTargets yt yb mo = .ok () ∧ checkHw (nrows yt) hw = .ok () ∧
    pre hw ∧ (needSum = true → checkSum hw = .ok ()) ∧
    finish (k hw (nrows yt)) mo (relCols eps (colf hw) yt yp yb) = .ok out)

theorem isDirect3_mrae (eps : Rat) : IsDirect3 eps (meanRelativeAbsoluteError eps) (fun _ => True)
    (fun hw re => npAverage hw (re.map absR)) (fun _ _ => 1) true := by
  intro yt yp yb hw mo out; rw [mrae_iff]; simp
theorem isDirect3_mdrae (eps : Rat) : IsDirect3 eps (medianRelativeAbsoluteError eps) (fun _ => True)
    (fun hw re => medianW hw (re.map absR)) (fun _ _ => 1) false := by
  intro yt yp yb hw mo out; rw [mdrae_iff]; simp
theorem isDirect3_gmrae (eps : Rat) :
    IsDirect3 eps (geometricMeanRelativeAbsoluteError eps) (fun hw => checkNonneg hw = .ok ())
    (fun hw re => gmFactor hw (re.map (fun e => floorEps eps (absR e)))) (fun hw n => gmDeg n hw) true := by
  intro yt yp yb hw mo out; rw [gmrae_iff]; simp
theorem isDirect3_gmrse (eps : Rat) (sqrt : Bool) :
    IsDirect3 eps (fun a b c h m => geometricMeanRelativeSquaredError eps a b c h m sqrt)
    (fun hw => checkNonneg hw = .ok ())
    (fun hw re => gmFactor hw (re.map (fun e => floorEps eps (sqr e)))) (fun hw n => rootDeg sqrt (gmDeg n hw)) true := by
  intro yt yp yb hw mo out; rw [gmrse_iff]; simp

theorem checkRegTargets_single {yt yp : Mat} (h : checkRegTargets yt yp .raw = .ok ()) (hRt : Rect yt) (hRp : Rect yp)
    (j : Nat) (hjt : j < yt.length) (hjp : j < yp.length) :
    checkRegTargets [yt[j]] [yp[j]] .uniform = .ok () ∧ nrows [yt[j]] = nrows yt := by
  obtain ⟨e1, e2, _⟩ := checkRegTargets_ok h
  have ht : nrows [yt[j]] = nrows yt := hRt _ (List.getElem_mem hjt)
  have hp : nrows [yp[j]] = nrows yp := hRp _ (List.getElem_mem hjp)
  refine ⟨?_, ht⟩
  unfold checkRegTargets
  simp only [bindU_ok, guard'_ok, ht, hp, e1]
  refine ⟨by simp, ?_, by simp, trivial⟩
  simpa [e1] using e2

theorem direct3_raw_per_column {eps : Rat} {f : Mat → Mat → Mat → Option (List Rat) → MO → Except Err Out}
    {pre : Option (List Rat) → Prop} {colf : Option (List Rat) → Col → Rat} {k : Option (List Rat) → Nat → Nat}
    {ns : Bool} (hd : IsDirect3 eps f pre colf k ns) (yt yp yb : Mat) (hw : Option (List Rat)) (qs : List Rat)
    (hRt : Rect yt) (hRp : Rect yp) (hRb : Rect yb) (h : f yt yp yb hw .raw = .ok (.raw (k hw (nrows yt)) qs))
    (j : Nat) (hjt : j < yt.length) (hjp : j < yp.length) (hjb : j < yb.length) :
    ∃ hq : j < qs.length,
      f [yt[j]] [yp[j]] [yb[j]] hw .uniform = .ok (.avg (k hw (nrows yt)) none [qs[j]]) := by
  obtain ⟨h1, h1', h2, hpre, h3, h4⟩ := (hd _ _ _ _ _ _).mp h
  simp only [finish, Except.ok.injEq, Out.raw.injEq, true_and] at h4
  subst h4
  have hlen : j < (relCols eps (colf hw) yt yp yb).length := by rw [relCols_length]; omega
  obtain ⟨c1, n1⟩ := checkRegTargets_single h1 hRt hRp j hjt hjp
  obtain ⟨c2, _⟩ := checkRegTargets_single h1' hRt hRb j hjt hjb
  refine ⟨hlen, (hd _ _ _ _ _ _).mpr ⟨c1, c2, by rw [n1]; exact h2, hpre, h3, ?_⟩⟩
  rw [n1, relCols_getElem eps (colf hw) yt yp yb j hjt hjp hjb hlen]
  simp [finish, relCols]

/-! ### metrics that divide one inner metric by another -/
theorem mean_singleton (x : Rat) : npAverage none [x] = x := by simp [npAverage, mean]

theorem ratioOut_single (eps : Rat) (k : Nat) (pq nq : List Rat) (j : Nat) (h1 : j < pq.length) (h2 : j < nq.length) :
    ∃ hq : j < (ratioVals eps (.raw 1 pq) (.raw 1 nq)).length,
      ratioOut eps k (.avg 1 none [pq[j]]) (.avg 1 none [nq[j]])
        = .avg k none [(ratioVals eps (.raw 1 pq) (.raw 1 nq))[j]] := by
  have hl : j < (ratioVals eps (.raw 1 pq) (.raw 1 nq)).length := by
    simp [ratioVals, Out.perCol, h1, h2]
  refine ⟨hl, ?_⟩
  simp [ratioOut, ratioVals, Out.perCol, mean_singleton]

theorem rect_map {g : Col → Col} {m : Mat} (hR : Rect m) (hg : ∀ a b : Col, a.length = b.length → (g a).length = (g b).length) :
    Rect (m.map g) := by
  cases m with
  | nil => intro c hc; simp at hc
  | cons a l =>
    intro c hc
    obtain ⟨x, hx, rfl⟩ := List.mem_map.mp hc
    simp only [List.map_cons, nrows]
    apply hg
    rw [hR x hx]; rfl

theorem naiveTrue_len (sp : Int) (a b : Col) (h : a.length = b.length) : (naiveTrue sp a).length = (naiveTrue sp b).length := by
  simp [naiveTrue, sliceFrom, h]
theorem naivePred_len (sp : Int) (a b : Col) (h : a.length = b.length) : (naivePred sp a).length = (naivePred sp b).length := by
  simp [naivePred, sliceTo, h]

/-- scaled errors with `raw_values`: the j-th value is the scaled error of column j alone -/
theorem scaled_raw_per_column {eps : Rat} {inner : Mat → Mat → Option (List Rat) → MO → Except Err Out}
    {colf : Option (List Rat) → Col → Col → Rat} {ns : Bool} (hd : IsDirect inner colf 1 ns)
    {sqrt : Bool} {yt yp tr : Mat} {ix : Option (Int × Int)} {sp : Int} {hw : Option (List Rat)} {out : Out}
    (hRt : Rect yt) (hRp : Rect yp) (hRr : Rect tr)
    (h : scaled eps inner sqrt yt yp (.arr tr) ix sp hw .raw = .ok out)
    (j : Nat) (hjt : j < yt.length) (hjp : j < yp.length) (hjr : j < tr.length) :
    ∃ qs, out = .raw (rootDeg sqrt 1) qs ∧ ∃ hq : j < qs.length,
      scaled eps inner sqrt [yt[j]] [yp[j]] (.arr [tr[j]]) ix sp hw .uniform
        = .ok (.avg (rootDeg sqrt 1) none [qs[j]]) := by
  obtain ⟨m, naive, pred, hm, hn, hp, rfl⟩ := scaled_iff.mp h
  obtain ⟨hix, hc, hh, hlen, rfl⟩ := scaledPrologue_arr_iff.mp hm
  -- inner results are raw lists of degree 1
  obtain ⟨_, _, _, fp⟩ := (hd _ _ _ _ _).mp hp
  obtain ⟨_, _, _, fn⟩ := (hd _ _ _ _ _).mp hn
  simp only [finish, Except.ok.injEq] at fp fn
  subst fp; subst fn
  have hjn1 : j < (m.map (naiveTrue sp)).length := by simpa using hjr
  have hjn2 : j < (m.map (naivePred sp)).length := by simpa using hjr
  obtain ⟨hq1, e1⟩ := direct_raw_per_column hd yt yp hw _ hRt hRp hp j hjt hjp
  obtain ⟨hq2, e2⟩ := direct_raw_per_column hd _ _ none _
    (rect_map hRr (naiveTrue_len sp)) (rect_map hRr (naivePred_len sp)) hn j hjn1 hjn2
  obtain ⟨hq, e3⟩ := ratioOut_single eps (rootDeg sqrt 1) _ _ j hq1 hq2
  refine ⟨_, rfl, hq, scaled_iff.mpr ⟨[m[j]], _, _, ?_, ?_, e1, e3.symm⟩⟩
  · obtain ⟨c1, n1⟩ := checkRegTargets_single hc hRt hRp j hjt hjp
    exact scaledPrologue_arr_iff.mpr ⟨hix, c1, by rw [n1]; exact hh, rfl, rfl⟩
  · simpa using e2

theorem base_isDirect (eps : Rat) (f : Base) : ∃ colf ns, IsDirect (f.call eps) colf 1 ns := by
  cases f
  · exact ⟨_, _, isDirect_mae⟩
  · exact ⟨_, _, isDirect_mse false⟩
  · exact ⟨_, _, isDirect_mdae⟩
  · exact ⟨_, _, isDirect_mdse false⟩
  · exact ⟨_, _, isDirect_mape eps true⟩
  · exact ⟨_, _, isDirect_mdape eps true⟩
  · exact ⟨_, _, isDirect_mspe eps false true⟩
  · exact ⟨_, _, isDirect_mdspe eps false true⟩

/-- relative loss with `raw_values`: the j-th value is the relative loss of column j alone -/
theorem relloss_raw_per_column {eps : Rat} {f : Base} {yt yp yb : Mat} {hw : Option (List Rat)} {out : Out}
    (hRt : Rect yt) (hRp : Rect yp) (hRb : Rect yb)
    (h : relativeLoss eps yt yp yb f hw .raw = .ok out)
    (j : Nat) (hjt : j < yt.length) (hjp : j < yp.length) (hjb : j < yb.length) :
    ∃ qs, out = .raw 1 qs ∧ ∃ hq : j < qs.length,
      relativeLoss eps [yt[j]] [yp[j]] [yb[j]] f hw .uniform = .ok (.avg 1 none [qs[j]]) := by
  obtain ⟨colf, ns, hd⟩ := base_isDirect eps f
  obtain ⟨hc, hh, lp, lb, h1, h2, rfl⟩ := relativeLoss_iff.mp h
  obtain ⟨_, _, _, fp⟩ := (hd _ _ _ _ _).mp h1
  obtain ⟨_, _, _, fb⟩ := (hd _ _ _ _ _).mp h2
  simp only [finish, Except.ok.injEq] at fp fb
  subst fp; subst fb
  obtain ⟨hq1, e1⟩ := direct_raw_per_column hd yt yp hw _ hRt hRp h1 j hjt hjp
  obtain ⟨hq2, e2⟩ := direct_raw_per_column hd yt yb hw _ hRt hRb h2 j hjt hjb
  obtain ⟨hq, e3⟩ := ratioOut_single eps 1 _ _ j hq1 hq2
  obtain ⟨c1, n1⟩ := checkRegTargets_single hc hRt hRp j hjt hjp
  exact ⟨_, rfl, hq, relativeLoss_iff.mpr ⟨c1, by rw [n1]; exact hh, _, _, e1, e2, e3.symm⟩⟩

end SkVerif.Lem.Metrics
