/- C17 helper lemmas: the intervals sampled by `_get_intervals` / TSF `fit`. -/
import SkVerif.Model.Proba
namespace SkVerif.C17.Lem
open SkVerif.C17

theorem getInterval_ok {m L u1 : Nat} {u2? : Option Nat} {h1 h2 a b : Nat}
    (h : getInterval m L u1 u2? = .ok (h1, h2, a, b)) :
    a + m ≤ b ∧ b < L ∧ h1 = L - m ∧ h2 = L - a - 1 ∧ a = u1 ∧ m < L := by
  unfold getInterval at h
  by_cases c1 : L ≤ m
  · simp [c1] at h
  · by_cases c2 : L - m ≤ u1
    · simp [c1, c2] at h
    · by_cases c3 : L ≤ u1 + 1
      · simp [c1, c2, c3] at h
      · cases u2? with
        | none => simp [c1, c2, c3] at h
        | some u2 =>
          by_cases c4 : L - u1 - 1 ≤ u2
          · simp [c1, c2, c3, c4] at h
          · simp only [c1, c2, c3, c4, if_false, Except.ok.injEq, Prod.mk.injEq] at h
            obtain ⟨rfl, rfl, rfl, rfl⟩ := h
            split <;> omega

theorem getIntervals_ok {m L : Nat} (k : Nat) (ds : List Nat) {ivs : List (Nat × Nat)} {hs rest : List Nat}
    (h : getIntervals m L k ds = .ok (ivs, hs, rest)) :
    ivs.length = k ∧ hs.length = 2 * k ∧ (0 < k → m < L) ∧ ∀ iv ∈ ivs, iv.1 + m ≤ iv.2 ∧ iv.2 < L := by
  induction k generalizing ds ivs hs rest with
  | zero =>
    simp only [getIntervals, Except.ok.injEq, Prod.mk.injEq] at h
    obtain ⟨rfl, rfl, _⟩ := h
    simp
  | succ k ih =>
    cases ds with
    | nil =>
      simp only [getIntervals] at h
      split at h <;> cases h
    | cons u1 ds =>
      simp only [getIntervals] at h
      cases hg : getInterval m L u1 ds.head? with
      | error e => rw [hg] at h; cases h
      | ok q =>
        obtain ⟨h1, h2, a, b⟩ := q
        rw [hg] at h
        simp only at h
        cases hr : getIntervals m L k ds.tail with
        | error e => rw [hr] at h; cases h
        | ok q2 =>
          obtain ⟨ivs', hs', rest'⟩ := q2
          rw [hr] at h
          simp only [Except.ok.injEq, Prod.mk.injEq] at h
          obtain ⟨rfl, rfl, rfl⟩ := h
          obtain ⟨e1, e2, _, e4⟩ := ih ds.tail hr
          obtain ⟨g1, g2, _, _, _, g6⟩ := getInterval_ok hg
          refine ⟨by simp [e1], by simp [e2]; omega, fun _ => g6, ?_⟩
          intro iv hiv
          rcases List.mem_cons.mp hiv with rfl | hiv
          · exact ⟨g1, g2⟩
          · exact e4 iv hiv

theorem getIntervals_short {m L : Nat} (hL : L ≤ m) (k : Nat) (ds : List Nat) :
    getIntervals m L (k + 1) ds = .error .value := by
  cases ds with
  | nil => simp [getIntervals, hL]
  | cons u1 ds => simp [getIntervals, getInterval, hL]

theorem nIntervals_pos (L : Nat) : 0 < nIntervals L := by
  unfold nIntervals; split <;> omega

theorem fitIntervals_ok {L mi : Nat} (T : Nat) (ds : List Nat) {all : List (List (Nat × Nat))} {hs : List Nat}
    (h : fitIntervals L mi T ds = .ok (all, hs)) :
    all.length = T ∧ ∀ ivs ∈ all, ivs.length = nIntervals L ∧ minIntervalFit L mi < L ∧
      ∀ iv ∈ ivs, iv.1 + minIntervalFit L mi ≤ iv.2 ∧ iv.2 < L := by
  induction T generalizing ds all hs with
  | zero =>
    simp only [fitIntervals, Except.ok.injEq, Prod.mk.injEq] at h
    obtain ⟨rfl, rfl⟩ := h
    simp
  | succ T ih =>
    simp only [fitIntervals] at h
    cases hg : getIntervals (minIntervalFit L mi) L (nIntervals L) ds with
    | error e => rw [hg] at h; cases h
    | ok q =>
      obtain ⟨ivs, hs1, rest⟩ := q
      rw [hg] at h
      simp only at h
      cases hr : fitIntervals L mi T rest with
      | error e => rw [hr] at h; cases h
      | ok q2 =>
        obtain ⟨all', hs'⟩ := q2
        rw [hr] at h
        simp only [Except.ok.injEq, Prod.mk.injEq] at h
        obtain ⟨rfl, rfl⟩ := h
        obtain ⟨e1, e2⟩ := ih rest hr
        obtain ⟨g1, _, g3, g4⟩ := getIntervals_ok _ ds hg
        refine ⟨by simp [e1], ?_⟩
        intro x hx
        rcases List.mem_cons.mp hx with rfl | hx
        · exact ⟨g1, g3 (nIntervals_pos L), g4⟩
        · exact e2 x hx

theorem fitIntervals_short {L mi : Nat} (hL : L ≤ mi) (T : Nat) (ds : List Nat) :
    fitIntervals L mi (T + 1) ds = .error .value := by
  have hm : L ≤ minIntervalFit L mi := by unfold minIntervalFit; split <;> omega
  obtain ⟨k, hk⟩ : ∃ k, nIntervals L = k + 1 := ⟨nIntervals L - 1, by have := nIntervals_pos L; omega⟩
  simp only [fitIntervals, hk, getIntervals_short hm]

end SkVerif.C17.Lem
