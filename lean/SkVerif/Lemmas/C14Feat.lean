import SkVerif.Spec.C14Feat
import SkVerif.Lemmas.C14Seg
import Mathlib.Tactic.Linarith
import Mathlib.Tactic.Ring
import Mathlib.Tactic.FieldSimp
import Mathlib.Algebra.Order.Field.Rat
namespace SkVerif.C14.Lem
open SkVerif SkVerif.C14

/-! ### RandomIntervalFeatureExtractor: column order -/

theorem flatten_uniform_getElem?' {α} (l : List (List α)) (T : Nat) (h : ∀ c ∈ l, c.length = T) (j t : Nat)
    (ht : t < T) : l.flatten[j * T + t]? = (l[j]?).bind (fun c => c[t]?) := by
  induction l generalizing j with
  | nil => simp
  | cons c l ih =>
    have hc : c.length = T := h c List.mem_cons_self
    have ih' := ih (fun d hd => h d (List.mem_cons_of_mem _ hd))
    cases j with
    | zero =>
      simp only [Nat.zero_mul, Nat.zero_add, List.flatten_cons, List.getElem?_cons_zero, Option.bind_some]
      rw [List.getElem?_append_left (by omega)]
    | succ j =>
      simp only [List.flatten_cons, List.getElem?_cons_succ]
      rw [List.getElem?_append_right (by rw [hc, Nat.succ_mul]; omega)]
      have : (j + 1) * T + t - c.length = j * T + t := by rw [hc, Nat.succ_mul]; omega
      rw [this, ih' j]

/-- column `a * n_intervals + b` is feature `a` of interval `b` -/
theorem rifeRow_getElem? {β} (fs : List (List Rat → β)) (ivs : List (Int × Int)) (row : List Rat)
    (a b : Nat) (hb : b < ivs.length) :
    (rifeRow fs ivs row)[a * ivs.length + b]? =
      (fs[a]?).bind (fun f => (ivs[b]?).map (fun iv => f (pySlice row iv.1 iv.2))) := by
  unfold rifeRow
  rw [List.flatMap_def]
  rw [flatten_uniform_getElem?' _ ivs.length (by
    intro c hc
    obtain ⟨f, _, rfl⟩ := List.mem_map.mp hc
    simp) a b hb]
  rw [List.getElem?_map]
  cases fs[a]? <;> simp [List.getElem?_map]

theorem rifeRow_length {β} (fs : List (List Rat → β)) (ivs : List (Int × Int)) (row : List Rat) :
    (rifeRow fs ivs row).length = fs.length * ivs.length := by
  unfold rifeRow
  induction fs with
  | nil => simp
  | cons f fs ih => simp [List.flatMap_cons, ih, Nat.succ_mul]; omega

theorem rifeWith_eq {β} (fs : List (List Rat → β)) (ivs : List (Int × Int)) (X : Panel) (tbl : List (List Rat))
    (ht : univariateTable X = .ok tbl) : rifeWith fs ivs X = .ok (tbl.map (rifeRow fs ivs)) := by
  simp [rifeWith, ht, bind, Except.bind, pure, Except.pure]

/-! ### row transformers -/

theorem toNumpy3d_ok (X : Panel) (hX : WellShaped X) (T : Nat) (h : ∀ inst ∈ X, ∀ c ∈ inst, c.length = T) :
    toNumpy3d X = .ok X := by
  have hr : rectangular X.flatten = true := by
    rw [rectangular_iff]
    intro a ha b hb
    obtain ⟨ia, hia, ha'⟩ := List.mem_flatten.mp ha
    obtain ⟨ib, hib, hb'⟩ := List.mem_flatten.mp hb
    rw [h ia hia a ha', h ib hib b hb']
  simp [toNumpy3d, checkX_ok hX, hr, bind, Except.bind, pure, Except.pure]

/-! ### autocorrelation -/

theorem zipWith_mul_drop_sum (d : List Rat) (k : Nat) :
    (List.zipWith (· * ·) d (d.drop k)).sum = Spec.lagProduct d k := by
  unfold Spec.lagProduct
  congr 1
  apply List.ext_getElem
  · simp
  · intro t h1 h2
    simp only [List.length_zipWith, List.length_drop] at h1
    have ht : t < d.length - k := by omega
    simp only [List.getElem_zipWith, List.getElem_drop, List.getElem_map, List.getElem_range]
    have e1 : d.getD t 0 = d[t]'(by omega) := by simp [List.getD_eq_getElem?_getD, (by omega : t < d.length)]
    have e2 : d.getD (t + k) 0 = d[t + k]'(by omega) := by
      simp [List.getD_eq_getElem?_getD, (by omega : t + k < d.length)]
    rw [e1, e2]
    congr 2; omega

theorem acovf_getElem? (adjusted : Bool) (xs : List Rat) (k : Nat) (hk : k < xs.length) :
    (acovf adjusted xs)[k]? = some (Spec.lagProduct (Spec.deviations xs) k /
      (if adjusted then ((xs.length - k : Nat) : Rat) else (xs.length : Rat))) := by
  unfold acovf
  simp only [List.getElem?_map, List.getElem?_range hk, Option.map_some]
  rw [zipWith_mul_drop_sum]
  rfl

theorem acovf_length (adjusted : Bool) (xs : List Rat) : (acovf adjusted xs).length = xs.length := by
  simp [acovf]

/-- the returned coefficients are the textbook `r_k`, for `k = 0 … min(n_lags, n-1)` -/
theorem acf_eq_spec (adjusted : Bool) (nlags : Nat) (xs : List Rat) (hx : xs ≠ [])
    (hvar : Spec.lagProduct (Spec.deviations xs) 0 ≠ 0) :
    acf adjusted (nlags : Int) xs =
      .ok ((List.range (min (nlags + 1) xs.length)).map (fun k => some (Spec.acfCoeff adjusted xs k))) := by
  have he : xs.isEmpty = false := by cases xs <;> simp_all
  have hpos : 0 < xs.length := List.length_pos_iff.mpr hx
  have hn0 : (xs.length : Rat) ≠ 0 := by exact_mod_cast (Nat.pos_iff_ne_zero.mp hpos)
  have ha0 : (acovf adjusted xs).getD 0 0 = Spec.lagProduct (Spec.deviations xs) 0 / (xs.length : Rat) := by
    rw [List.getD_eq_getElem?_getD, acovf_getElem? adjusted xs 0 hpos]
    cases adjusted <;> simp
  have hne : (acovf adjusted xs).getD 0 0 ≠ 0 := by
    rw [ha0]; exact div_ne_zero hvar hn0
  simp only [acf, he, Bool.false_eq_true, if_false]
  congr 1
  have hs : pySlice (acovf adjusted xs) 0 ((nlags : Int) + 1) =
      ((acovf adjusted xs).drop 0).take (min (nlags + 1) xs.length - 0) := by
    have := pySlice_nat (acovf adjusted xs) 0 (min (nlags + 1) xs.length) (by rw [acovf_length]; omega)
    rw [← this]
    unfold pySlice
    simp only [acovf_length]
    have e1 : ¬ ((0 : Int) < 0) := by omega
    have e2 : ¬ ((nlags : Int) + 1 < 0) := by omega
    have e3 : ¬ (((min (nlags + 1) xs.length : Nat) : Int) < 0) := by omega
    have e0 : ((0 : Nat) : Int) = 0 := rfl
    simp only [e0, e1, e2, e3, if_false]
    congr 2
    omega
  rw [hs]
  apply List.ext_getElem
  · simp [acovf_length]
  · intro k h1 h2
    have hk : k < min (nlags + 1) xs.length := by simpa using h2
    have hkx : k < xs.length := by omega
    simp only [List.getElem_map, List.getElem_range, hne, if_false, Nat.sub_zero, List.drop_zero,
      List.getElem_take]
    have hget := acovf_getElem? adjusted xs k hkx
    rw [List.getElem?_eq_getElem (by rw [acovf_length]; exact hkx)] at hget
    simp only [Option.some.injEq] at hget
    rw [hget, ha0]
    rfl

/-- lag 0 is 1 -/
theorem acfCoeff_zero (adjusted : Bool) (xs : List Rat) (hx : xs ≠ [])
    (hvar : Spec.lagProduct (Spec.deviations xs) 0 ≠ 0) : Spec.acfCoeff adjusted xs 0 = 1 := by
  have hpos : 0 < xs.length := List.length_pos_iff.mpr hx
  have hn0 : (xs.length : Rat) ≠ 0 := by exact_mod_cast (Nat.pos_iff_ne_zero.mp hpos)
  unfold Spec.acfCoeff
  cases adjusted
  · simp only [Bool.false_eq_true, if_false]
    exact div_self (div_ne_zero hvar hn0)
  · simp only [if_true, Nat.sub_zero]
    exact div_self (div_ne_zero hvar hn0)

/-! ### TabularToSeriesAdaptor, MinMaxScaler closed form -/

theorem adaptor_getElem? {P} (t : ColTransformer P) (Zfit Z : List (List Rat)) (h : Zfit.length = Z.length)
    (j : Nat) :
    ∃ r, adaptor t Zfit Z = .ok r ∧ r.length = Z.length ∧
      r[j]? = (Zfit[j]?).bind (fun cf => (Z[j]?).map (fun c => t.apply (t.fit cf) c)) := by
  refine ⟨List.zipWith (fun cf c => t.apply (t.fit cf) c) Zfit Z, by simp [adaptor, h], by simp [h], ?_⟩
  rw [List.getElem?_zipWith]
  cases Zfit[j]? <;> cases Z[j]? <;> rfl

theorem minMax_apply (col : List Rat) (lo hi : Rat) (hlo : min? col = some lo) (hhi : max? col = some hi)
    (hne : hi ≠ lo) (c : List Rat) :
    minMax.apply (minMax.fit col) c = c.map (fun x => (x - lo) / (hi - lo)) := by
  have hd : hi - lo ≠ 0 := sub_ne_zero.mpr hne
  simp only [minMax, hlo, hhi, Option.getD_some, hd, if_false]
  apply List.map_congr_left
  intro x _
  field_simp
  ring

end SkVerif.C14.Lem
