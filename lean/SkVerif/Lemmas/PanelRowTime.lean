/- C15: time labels of Series cells (from_nested_to_multi_index keeps the time order of the cells whatever the labels) and
row order of multi-index frames (from_multi_index_to_nested looks rows up by label). -/
import SkVerif.Lemmas.PanelLabels
namespace SkVerif.Panel.Lem
open SkVerif.Panel SkVerif.Panel.Spec

variable {ν α : Type}



theorem relabelTimes_vals {β} (tl : List Int) (rows : List ((Int × Int) × β)) :
    (relabelTimes tl rows).map (·.2) = rows.map (·.2) := by
  simp [relabelTimes, List.map_map, Function.comp_def]

theorem relabelTimes_inst {β} (tl : List Int) (rows : List ((Int × Int) × β)) :
    (relabelTimes tl rows).map (·.1.1) = rows.map (·.1.1) := by
  simp [relabelTimes, List.map_map, Function.comp_def]

theorem relabelTimes_time {n c t : Nat} {X : Arr3 α} (hX : Rect3 n c t X) (hn : 0 < n) (hc : 0 < c)
    (tl : List Int) (hl : tl.length = t) :
    (relabelTimes tl (miRows X)).map (·.1.2) = ((List.range n).map (fun _ => tl)).flatten := by
  have h1 : (relabelTimes tl (miRows X)).map (·.1.2)
      = ((miRows X).map (·.1.2)).map (fun q : Int => tl.getD q.toNat q) := by
    simp [relabelTimes, List.map_map, Function.comp_def]
  rw [h1, miRows_time hX hn hc, List.map_flatten, List.map_map]
  congr 1
  apply List.map_congr_left
  intro i _
  simp only [Function.comp_apply, List.map_map]
  conv => rhs; rw [← range_getD_labels tl, hl]
  apply List.map_congr_left
  intro q _
  simp

theorem timeIds_relabel {n c t : Nat} {X : Arr3 α} (hX : Rect3 n c t X) (hn : 0 < n) (hc : 0 < c)
    (tl : List Int) (hl : tl.length = t) (hnd : tl.Nodup) :
    ((relabelTimes tl (miRows X)).map (·.1.2)).eraseDups = tl := by
  rw [relabelTimes_time hX hn hc tl hl]
  obtain ⟨n', rfl⟩ : ∃ n', n = n' + 1 := ⟨n - 1, by omega⟩
  rw [List.range_succ_eq_map, List.map_cons, List.flatten_cons]
  apply eraseDups_append_subset _ _ hnd
  intro x hx
  simp only [List.map_map, List.mem_flatten, List.mem_map] at hx
  obtain ⟨l, ⟨_, _, rfl⟩, hx⟩ := hx
  exact hx

/-- `from_nested_to_multi_index` on a frame whose Series cells carry the time index `tl` -/
theorem fromNestedToMITx_ok {n c t : Nat} {X : Arr3 α} (hX : Rect3 n c t X) (hn : 0 < n)
    (hc : 0 < c) (names : List ν) (hl : names.length = c) (k : Bool) (i tm : Option String)
    (tl : List Int) :
    fromNestedToMITx none tl (nestedOf names k X) i tm =
      .ok ⟨i.getD "instance", tm.getD "timepoints", names, relabelTimes tl (miRows X)⟩ := by
  unfold fromNestedToMITx
  simp only [fromNestedToMI_ok hX hn hc names hl k i tm]
  rfl

/-- … and `from_multi_index_to_3d_numpy` of that frame is the panel, whatever the labels -/
theorem fromMITo3d_timeLabelled {n c t : Nat} {X : Arr3 α} (hX : Rect3 n c t X) (hn : 0 < n)
    (hc : 0 < c) (ht : 0 < t) (i tm : String) (hne : i ≠ tm) (names : List ν)
    (hl : names.length = c) (tl : List Int) (hll : tl.length = t) (hnd : tl.Nodup) :
    fromMITo3d (⟨i, tm, names, relabelTimes tl (miRows X)⟩ : MI ν α) (some i) (some tm) = .ok X := by
  have hX' := rect_swap hX
  have hflat : (groupRows ((miRows X).map (·.1.1))
        (((⟨i, tm, names, relabelTimes tl (miRows X)⟩ : MI ν α)).rows.map (·.2))).flatten
      = (X.map (transposeW t)).flatten.flatten := by
    show (groupRows _ ((relabelTimes tl (miRows X)).map (·.2))).flatten = _
    rw [relabelTimes_vals, miRows_vals, rect_nTime hX hn hc, miRows_inst hX hn hc,
      groupRows_canonical hX ht _ (by simp) (nodup_range_int n)]
  have hI : levelVals (⟨i, tm, names, relabelTimes tl (miRows X)⟩ : MI ν α) i
      = .ok ((miRows X).map (·.1.1)) := by
    simp [levelVals, hne, pure, Except.pure, relabelTimes_inst]
  have hT : levelVals (⟨i, tm, names, relabelTimes tl (miRows X)⟩ : MI ν α) tm
      = .ok ((relabelTimes tl (miRows X)).map (·.1.2)) := by
    simp [levelVals, hne, Ne.symm hne, pure, Except.pure]
  unfold fromMITo3d
  simp only [hI, hT, bind, Except.bind, hflat, instIds_miRows hX hn hc ht,
    timeIds_relabel hX hn hc tl hll hnd, List.length_map, List.length_range,
    length_flatten_flatten_rect hX', hll]
  simp only [hl, if_true]
  rw [reshape3_flatten hX', swap_swap hX]
  rfl




theorem zipWith_snd_eq_map {β γ δ} (F : γ → δ) (v : List β) (T : List γ) (h : v.length = T.length) :
    List.zipWith (fun _ y => F y) v T = T.map F := by
  induction v generalizing T with
  | nil => cases T <;> simp_all
  | cons a v ih =>
    cases T with
    | nil => simp at h
    | cons b T => simp at h; simp [ih T h]

/-- selecting the rows of one instance commutes with reading the frame column by column -/
theorem transposeW_xs {β} (c : Nat) (id : Int) (lv : List Int) (vals : List (List β))
    (h : RowsLen c vals) :
    (transposeW c vals).map (xsCol lv id) = transposeW c (xsCol lv id vals) := by
  induction vals generalizing lv with
  | nil => simp [transposeW, xsCol]
  | cons v vs ih =>
    have h' := rowsLen_cons.mp h
    cases lv with
    | nil =>
      simp only [transposeW, xsCol, List.zip_nil_left, List.filter_nil, List.map_nil, List.map_zipWith]
      rw [zipWith_snd_eq_map (fun _ => ([] : List β)) v _ (by rw [h'.1, length_transposeW c vs h'.2])]
      rw [List.map_const', length_transposeW c vs h'.2]
    | cons l ls =>
      by_cases hl : (l == id) = true
      · have e : xsCol (l :: ls) id (v :: vs) = v :: xsCol ls id vs := by simp [xsCol, hl]
        rw [e]
        simp only [transposeW]
        rw [← ih ls h'.2, List.map_zipWith, List.zipWith_map_right]
        congr 1
        funext x y
        simp [xsCol, hl]
      · have e : xsCol (l :: ls) id (v :: vs) = xsCol ls id vs := by simp [xsCol, hl]
        rw [e]
        simp only [transposeW]
        rw [← ih ls h'.2, List.map_zipWith]
        have : (fun (x : β) (y : List β) => xsCol (l :: ls) id (x :: y)) = (fun _ y => xsCol ls id y) := by
          funext x y
          simp [xsCol, hl]
        rw [this]
        exact zipWith_snd_eq_map _ _ _ (by rw [h'.1, length_transposeW c vs h'.2])



/-- `from_multi_index_to_nested` looks the rows of an instance up BY LABEL: two frames with the same
level / column names, the same instances in the same order of first appearance and, for every
instance, the same rows in the same order give the same nested frame, however the rows of different
instances are interleaved -/
theorem fromMIToNested_rowOrder [DecidableEq ν] (M M' : MI ν α) (k : Bool)
    (h1 : M'.inst = M.inst) (h2 : M'.time = M.time) (h3 : M'.names = M.names)
    (hne : M.inst ≠ M.time)
    (hr : RowsLen M.names.length (M.rows.map (·.2)))
    (hr' : RowsLen M.names.length (M'.rows.map (·.2)))
    (hids : (M'.rows.map (·.1.1)).eraseDups = (M.rows.map (·.1.1)).eraseDups)
    (hxs : ∀ id, xsCol (M'.rows.map (·.1.1)) id (M'.rows.map (·.2))
                = xsCol (M.rows.map (·.1.1)) id (M.rows.map (·.2))) :
    fromMIToNested M' (some M.inst) k = fromMIToNested M (some M.inst) k := by
  have hI : levelVals M M.inst = .ok (M.rows.map (·.1.1)) := by
    simp [levelVals, hne, pure, Except.pure]
  have hI' : levelVals M' M.inst = .ok (M'.rows.map (·.1.1)) := by
    simp [levelVals, h1, h2, hne, pure, Except.pure]
  have hfold : ∀ (g : List α → List (Cell α)) (cols : List (List α)),
      (M.names.zip cols).foldl (fun df p => setCol df p.1 (g p.2)) []
        = (M.names.zip (cols.map g)).foldl (fun df p => setCol df p.1 p.2) [] := by
    intro g cols
    rw [← zip_map_snd g, List.foldl_map]
  have key : (transposeW M.names.length (M'.rows.map (·.2))).map (fun col =>
        ((M.rows.map (·.1.1)).eraseDups).map (fun id => mkCell k (xsCol (M'.rows.map (·.1.1)) id col)))
      = (transposeW M.names.length (M.rows.map (·.2))).map (fun col =>
        ((M.rows.map (·.1.1)).eraseDups).map (fun id => mkCell k (xsCol (M.rows.map (·.1.1)) id col))) := by
    apply List.ext_getElem (by simp [length_transposeW _ _ hr, length_transposeW _ _ hr'])
    intro j hj hj'
    simp only [List.getElem_map]
    apply List.map_congr_left
    intro id _
    congr 1
    have e := transposeW_xs M.names.length id (M.rows.map (·.1.1)) (M.rows.map (·.2)) hr
    have e' := transposeW_xs M.names.length id (M'.rows.map (·.1.1)) (M'.rows.map (·.2)) hr'
    have := congrArg (fun l => l[j]?) (e'.trans ((congrArg (transposeW M.names.length) (hxs id)).trans e.symm))
    simp only [List.length_map] at hj hj'
    simpa [List.getElem?_map, List.getElem?_eq_getElem hj, List.getElem?_eq_getElem hj'] using this
  unfold fromMIToNested
  simp only [hI, hI', bind, Except.bind, hids, h3]
  have hf : ∀ lv : List Int, ∀ cols : List (List α),
      (M.names.zip cols).foldl (fun df p => setCol df p.1
        (((M.rows.map (·.1.1)).eraseDups).map (fun id => mkCell k (((lv.zip p.2).filter (fun q => q.1 == id)).map (·.2))))) []
      = (M.names.zip (cols.map (fun col =>
        ((M.rows.map (·.1.1)).eraseDups).map (fun id => mkCell k (xsCol lv id col))))).foldl (fun df p => setCol df p.1 p.2) [] := by
    intro lv cols
    exact hfold (fun col => ((M.rows.map (·.1.1)).eraseDups).map (fun id => mkCell k (xsCol lv id col))) cols
  rw [hf, hf, key]

/-- `from_multi_index_to_3d_numpy` (since fix 319b294) groups the rows per instance before the reshape: two
frames with the same level / column names, the same instances in the same order of first appearance, the
same number of distinct time labels and, for every instance, the same rows in the same order give the
same array, however the rows of different instances are interleaved -/
theorem fromMITo3d_rowOrder (M M' : MI ν α)
    (h1 : M'.inst = M.inst) (h2 : M'.time = M.time) (h3 : M'.names = M.names)
    (hne : M.inst ≠ M.time)
    (hids : (M'.rows.map (·.1.1)).eraseDups = (M.rows.map (·.1.1)).eraseDups)
    (hT : ((M'.rows.map (·.1.2)).eraseDups).length = ((M.rows.map (·.1.2)).eraseDups).length)
    (hxs : ∀ id, xsCol (M'.rows.map (·.1.1)) id (M'.rows.map (·.2))
                = xsCol (M.rows.map (·.1.1)) id (M.rows.map (·.2))) :
    fromMITo3d M' (some M.inst) (some M.time) = fromMITo3d M (some M.inst) (some M.time) := by
  have hI : levelVals M M.inst = .ok (M.rows.map (·.1.1)) := by
    simp [levelVals, hne, pure, Except.pure]
  have hI' : levelVals M' M.inst = .ok (M'.rows.map (·.1.1)) := by
    simp [levelVals, h1, h2, hne, pure, Except.pure]
  have hTm : levelVals M M.time = .ok (M.rows.map (·.1.2)) := by
    simp [levelVals, hne, Ne.symm hne, pure, Except.pure]
  have hTm' : levelVals M' M.time = .ok (M'.rows.map (·.1.2)) := by
    simp [levelVals, h1, h2, hne, Ne.symm hne, pure, Except.pure]
  have hG : groupRows (M'.rows.map (·.1.1)) (M'.rows.map (·.2))
      = groupRows (M.rows.map (·.1.1)) (M.rows.map (·.2)) := by
    unfold groupRows
    rw [hids]
    congr 1
    exact List.map_congr_left (fun id _ => hxs id)
  unfold fromMITo3d
  simp only [hI, hI', hTm, hTm', bind, Except.bind, hG, hids, hT, h3]

end SkVerif.Panel.Lem
