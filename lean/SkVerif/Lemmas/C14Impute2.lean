import SkVerif.Lemmas.C14Impute
import Mathlib.Tactic.Linarith
namespace SkVerif.C14.Lem
open SkVerif SkVerif.C14

/-! ### finding the neighbouring observations -/

theorem scanNext_spec (l : OSeries) (off k : Nat) (b : Rat) (hk : off ≤ k)
    (h1 : l[k - off]? = some (some b)) (h2 : ∀ t, t < k - off → l[t]? = some none) :
    scanNext l off = some (k, b) := by
  induction l generalizing off with
  | nil => simp at h1
  | cons x l ih =>
    by_cases hko : k = off
    · subst hko
      simp only [Nat.sub_self, List.getElem?_cons_zero, Option.some.injEq] at h1
      subst h1; rfl
    · have h0 := h2 0 (by omega)
      simp only [List.getElem?_cons_zero, Option.some.injEq] at h0
      subst h0
      simp only [scanNext]
      apply ih (off + 1) (by omega)
      · have : k - off = (k - (off + 1)) + 1 := by omega
        rw [this, List.getElem?_cons_succ] at h1; exact h1
      · intro t ht
        have := h2 (t + 1) (by omega)
        simpa using this

theorem scanNext_none (l : OSeries) (off : Nat) (h : ∀ t, t < l.length → l[t]? = some none) :
    scanNext l off = none := by
  induction l generalizing off with
  | nil => rfl
  | cons x l ih =>
    have h0 := h 0 (by simp)
    simp only [List.getElem?_cons_zero, Option.some.injEq] at h0
    subst h0
    simp only [scanNext]
    apply ih
    intro t ht
    have := h (t + 1) (by simp; omega)
    simpa using this

theorem nextValid_spec (z : OSeries) (i k : Nat) (b : Rat) (h : Spec.IsNextValid z i k b) :
    nextValid z i = some (k, b) := by
  obtain ⟨hik, hzk, hgap⟩ := h
  unfold nextValid
  apply scanNext_spec _ (i + 1) k b (by omega)
  · rw [List.getElem?_drop]
    have : i + 1 + (k - (i + 1)) = k := by omega
    rw [this]; exact hzk
  · intro t ht
    rw [List.getElem?_drop]
    exact hgap (i + 1 + t) (by omega) (by omega)

theorem nextValid_none (z : OSeries) (i : Nat) (h : Spec.NoneAfter z i) : nextValid z i = none := by
  unfold nextValid
  apply scanNext_none
  intro t ht
  rw [List.getElem?_drop]
  simp only [List.length_drop] at ht
  exact h (i + 1 + t) (by omega) (by omega)

theorem scanLast_append_some (l : OSeries) (off : Nat) (best : Option (Nat × Rat)) (v : Rat) (r : OSeries)
    (hr : ∀ x ∈ r, x = none) :
    scanLast (l ++ some v :: r) off best = some (off + l.length, v) := by
  induction l generalizing off best with
  | nil =>
    simp only [List.nil_append, scanLast, List.length_nil, Nat.add_zero]
    clear best
    generalize off + 1 = o
    induction r generalizing o with
    | nil => rfl
    | cons y r ih =>
      have := hr y List.mem_cons_self
      subst this
      simp only [scanLast]
      exact ih (fun x hx => hr x (List.mem_cons_of_mem _ hx)) (o + 1)
  | cons x l ih =>
    cases x with
    | none =>
      simp only [List.cons_append, scanLast, ih (off + 1) best, List.length_cons]
      congr 2; omega
    | some w =>
      simp only [List.cons_append, scanLast, ih (off + 1) (some (off, w)), List.length_cons]
      congr 2; omega

theorem scanLast_all_none (l : OSeries) (off : Nat) (best : Option (Nat × Rat)) (h : ∀ x ∈ l, x = none) :
    scanLast l off best = best := by
  induction l generalizing off with
  | nil => rfl
  | cons x l ih =>
    have := h x List.mem_cons_self
    subst this
    simp only [scanLast]
    exact ih (off + 1) (fun y hy => h y (List.mem_cons_of_mem _ hy))

theorem prevValid_spec (z : OSeries) (i j : Nat) (a : Rat) (hi : i ≤ z.length) (h : Spec.IsPrevValid z i j a) :
    prevValid z i = some (j, a) := by
  obtain ⟨hji, hzj, hgap⟩ := h
  unfold prevValid
  have hsplit : z.take i = z.take j ++ some a :: (z.take i).drop (j + 1) := by
    have hj : j < (z.take i).length := by simp; omega
    have hget : (z.take i)[j]? = some (some a) := by rw [List.getElem?_take]; simp [hji, hzj]
    have hg : (z.take i)[j] = some a := by
      have := List.getElem?_eq_getElem hj
      rw [this] at hget; simpa using hget
    calc z.take i = (z.take i).take j ++ (z.take i).drop j := (List.take_append_drop j _).symm
      _ = z.take j ++ (z.take i).drop j := by rw [List.take_take, Nat.min_eq_left (by omega)]
      _ = z.take j ++ some a :: (z.take i).drop (j + 1) := by rw [List.drop_eq_getElem_cons hj, hg]
  rw [hsplit, scanLast_append_some]
  · simp; omega
  · intro x hx
    obtain ⟨t, ht, rfl⟩ := List.mem_iff_getElem.mp hx
    simp only [List.length_drop, List.length_take] at ht
    have hmin : min i z.length = i := Nat.min_eq_left hi
    have := hgap (j + 1 + t) (by omega) (by omega)
    have hlt : j + 1 + t < z.length := by omega
    simp only [List.getElem_drop, List.getElem_take]
    rw [List.getElem?_eq_getElem hlt] at this
    simpa using this

theorem prevValid_none (z : OSeries) (i : Nat) (h : Spec.NoneBefore z i) : prevValid z i = none := by
  unfold prevValid
  apply scanLast_all_none
  intro x hx
  obtain ⟨t, ht, rfl⟩ := List.mem_iff_getElem.mp hx
  simp only [List.length_take] at ht
  have := h t (by omega) (by omega)
  have hlt : t < z.length := by omega
  rw [List.getElem?_eq_getElem hlt] at this
  simp only [List.getElem_take]
  simpa using this

end SkVerif.C14.Lem
