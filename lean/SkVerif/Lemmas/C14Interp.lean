import SkVerif.Spec.C14Interp
import SkVerif.Lemmas.C14Panel
import Mathlib.Tactic.Linarith
import Mathlib.Tactic.Ring
import Mathlib.Tactic.FieldSimp
import Mathlib.Algebra.Order.Field.Rat
import Mathlib.Algebra.Order.Floor.Ring
import Mathlib.Data.Rat.Floor
namespace SkVerif.C14.Lem
open SkVerif SkVerif.C14

/-- two segments containing `s` give the same height (they can only differ by meeting at a knot) -/
theorem isLinInterp_unique (ys : List Rat) (s v v' : Rat)
    (h : Spec.IsLinInterp ys s v) (h' : Spec.IsLinInterp ys s v') : v = v' := by
  obtain ⟨k, hk, h1, h2, rfl⟩ := h
  obtain ⟨k', hk', h1', h2', rfl⟩ := h'
  rcases Nat.lt_trichotomy k k' with hlt | rfl | hgt
  · -- k + 1 ≤ k' ≤ s ≤ k + 1  ⇒  k' = k + 1 = s
    have : (k : Rat) + 1 ≤ (k' : Rat) := by exact_mod_cast hlt
    have hs : s = (k : Rat) + 1 := by linarith
    have hk'' : k' = k + 1 := by
      have : (k' : Rat) = ((k + 1 : Nat) : Rat) := by push_cast; linarith
      exact_mod_cast this
    subst hk''
    rw [hs]; push_cast; ring
  · rfl
  · have : (k' : Rat) + 1 ≤ (k : Rat) := by exact_mod_cast hgt
    have hs : s = (k' : Rat) + 1 := by linarith
    have hk'' : k = k' + 1 := by
      have : (k : Rat) = ((k' + 1 : Nat) : Rat) := by push_cast; linarith
      exact_mod_cast this
    subst hk''
    rw [hs]; push_cast; ring

theorem linInterpAt_isLinInterp (ys : List Rat) (s : Rat) (hn : 2 ≤ ys.length) (h0 : 0 ≤ s)
    (h1 : s ≤ ((ys.length - 1 : Nat) : Rat)) : Spec.IsLinInterp ys s (Spec.linInterpAt ys s) := by
  unfold Spec.linInterpAt
  refine ⟨min s.floor.toNat (ys.length - 2), by omega, ?_, ?_, rfl⟩
  · have hfl : (0 : Int) ≤ s.floor := Int.floor_nonneg.mpr h0
    have : ((s.floor.toNat : Nat) : Rat) ≤ s := by
      have e : ((s.floor.toNat : Nat) : Int) = s.floor := Int.toNat_of_nonneg hfl
      have : ((s.floor.toNat : Nat) : Rat) = ((s.floor : Int) : Rat) := by
        rw [← e]; push_cast; rfl
      rw [this]; exact Int.floor_le s
    have h2 : ((min s.floor.toNat (ys.length - 2) : Nat) : Rat) ≤ ((s.floor.toNat : Nat) : Rat) := by
      exact_mod_cast Nat.min_le_left _ _
    linarith
  · by_cases hc : s.floor.toNat ≤ ys.length - 2
    · rw [Nat.min_eq_left hc]
      have hfl : (0 : Int) ≤ s.floor := Int.floor_nonneg.mpr h0
      have e : ((s.floor.toNat : Nat) : Int) = s.floor := Int.toNat_of_nonneg hfl
      have : ((s.floor.toNat : Nat) : Rat) = ((s.floor : Int) : Rat) := by
        rw [← e]; push_cast; rfl
      rw [this]
      exact le_of_lt (Int.lt_floor_add_one s)
    · have hc' : ys.length - 2 ≤ s.floor.toNat := by omega
      rw [Nat.min_eq_right hc']
      have : ((ys.length - 2 : Nat) : Rat) + 1 = ((ys.length - 1 : Nat) : Rat) := by
        have : ys.length - 2 + 1 = ys.length - 1 := by omega
        exact_mod_cast this
      linarith

/-! ### the grid and the search -/

theorem linspace01_length (n : Nat) : (linspace01 n).length = n := by
  unfold linspace01; split <;> simp_all

theorem linspace01_getD (n i : Nat) (hn : 2 ≤ n) (hi : i < n) :
    (linspace01 n).getD i 0 = (i : Rat) / ((n - 1 : Nat) : Rat) := by
  unfold linspace01
  have : n ≠ 1 := by omega
  simp [this, List.getD_eq_getElem?_getD, hi]

theorem length_takeWhile_le' {α} (p : α → Bool) (l : List α) : (l.takeWhile p).length ≤ l.length := by
  induction l with
  | nil => simp
  | cons a l ih =>
    simp only [List.takeWhile_cons]
    split
    · simp; omega
    · simp

theorem takeWhile_length_spec {α} (p : α → Bool) (l : List α) :
    (∀ i (h : i < (l.takeWhile p).length), p (l[i]'(Nat.lt_of_lt_of_le h (length_takeWhile_le' p l))) = true) ∧
    (∀ (h : (l.takeWhile p).length < l.length), p (l[(l.takeWhile p).length]'h) = false) := by
  induction l with
  | nil => simp
  | cons a l ih =>
    by_cases hp : p a = true
    · simp only [List.takeWhile_cons, hp, if_true, List.length_cons]
      constructor
      · intro i hi
        cases i with
        | zero => simpa using hp
        | succ i => simpa using ih.1 i (by omega)
      · intro h
        simpa using ih.2 (by omega)
    · simp only [List.takeWhile_cons, hp]
      constructor
      · intro i hi; simp at hi
      · intro _; simpa using hp

theorem searchsorted_grid (n : Nat) (hn : 2 ≤ n) (q : Rat) :
    let m := searchsortedLeft (linspace01 n) q
    m ≤ n ∧ (∀ i, i < m → (i : Rat) / ((n - 1 : Nat) : Rat) < q) ∧
      (m < n → q ≤ (m : Rat) / ((n - 1 : Nat) : Rat)) := by
  intro m
  have hspec := takeWhile_length_spec (fun x => decide (x < q)) (linspace01 n)
  have hle : m ≤ n := by
    have := length_takeWhile_le' (fun x => decide (x < q)) (linspace01 n)
    rw [linspace01_length] at this; exact this
  refine ⟨hle, ?_, ?_⟩
  · intro i hi
    have h := hspec.1 i hi
    have hin : i < n := by omega
    have hget := linspace01_getD n i hn hin
    rw [List.getD_eq_getElem?_getD, List.getElem?_eq_getElem (by rw [linspace01_length]; exact hin)] at hget
    simp only [Option.getD_some] at hget
    rw [hget] at h
    simpa using h
  · intro hm
    have h := hspec.2 (by rw [linspace01_length]; exact hm)
    have hget := linspace01_getD n m hn hm
    rw [List.getD_eq_getElem?_getD, List.getElem?_eq_getElem (by rw [linspace01_length]; exact hm)] at hget
    simp only [Option.getD_some] at hget
    have h' : decide ((linspace01 n)[m]'(by rw [linspace01_length]; exact hm) < q) = false := h
    rw [hget] at h'
    simpa using h'

/-- scipy's evaluation rule on the `linspace` grid is the polyline through `(i, y_i)` -/
theorem interp1_isLinInterp (ys : List Rat) (q : Rat) (hn : 2 ≤ ys.length) (h0 : 0 ≤ q) (h1 : q ≤ 1) :
    Spec.IsLinInterp ys (q * ((ys.length - 1 : Nat) : Rat)) (interp1 (linspace01 ys.length) ys q) := by
  obtain ⟨hmn, hbelow, habove⟩ := searchsorted_grid ys.length hn q
  set n := ys.length with hnlen
  set m := searchsortedLeft (linspace01 n) q with hm
  have hN : (0 : Rat) < ((n - 1 : Nat) : Rat) := by
    have : 0 < n - 1 := by omega
    exact_mod_cast this
  have hNne : ((n - 1 : Nat) : Rat) ≠ 0 := ne_of_gt hN
  -- m = n is impossible: the last grid point is 1 ≥ q
  have hmlt : m < n := by
    by_contra hge
    have hmeq : m = n := by omega
    have := hbelow (n - 1) (by omega)
    rw [div_self hNne] at this
    linarith
  have hq_le := habove hmlt
  unfold interp1
  simp only [linspace01_length]
  rw [← hm]
  set idx := max 1 (min m (n - 1)) with hidx
  have hidx1 : 1 ≤ idx := Nat.le_max_left _ _
  have hidxn : idx ≤ n - 1 := by omega
  have hlo : (((idx - 1 : Nat)) : Rat) ≤ q * ((n - 1 : Nat) : Rat) := by
    by_cases hm0 : m = 0
    · have : idx = 1 := by omega
      rw [this]; simp; positivity
    · have hidm : idx = m := by omega
      have := hbelow (m - 1) (by omega)
      rw [div_lt_iff₀ hN] at this
      rw [hidm]; linarith
  have hhi : q * ((n - 1 : Nat) : Rat) ≤ ((idx - 1 : Nat) : Rat) + 1 := by
    have hcast : ((idx - 1 : Nat) : Rat) + 1 = (idx : Rat) := by
      have : idx - 1 + 1 = idx := by omega
      exact_mod_cast this
    rw [hcast]
    have hmi : (m : Rat) ≤ (idx : Rat) := by
      have : m ≤ idx := by omega
      exact_mod_cast this
    rw [le_div_iff₀ hN] at hq_le
    linarith
  refine ⟨idx - 1, by omega, hlo, hhi, ?_⟩
  have e1 : idx - 1 + 1 = idx := by omega
  rw [e1, linspace01_getD n (idx - 1) hn (by omega), linspace01_getD n idx hn (by omega)]
  have hcast : (idx : Rat) = ((idx - 1 : Nat) : Rat) + 1 := by
    have : idx = idx - 1 + 1 := by omega
    exact_mod_cast this
  rw [hcast]
  field_simp
  ring

end SkVerif.C14.Lem
