import SkVerif.Spec.C14Impute
import SkVerif.Lemmas.Sort
import Mathlib.Tactic.Linarith
namespace SkVerif.C14.Lem
open SkVerif SkVerif.C14

/-! ### forward / backward fill, position by position -/

theorem lastValidUpTo_cons_succ (x : Option Rat) (l : OSeries) (i : Nat) :
    Spec.lastValidUpTo (x :: l) (i + 1) = (Spec.lastValidUpTo l i).or x := by
  simp only [Spec.lastValidUpTo, List.take_succ_cons, List.reverse_cons, List.findSome?_append]
  cases h : List.findSome? id (List.take (i + 1) l).reverse <;> cases x <;> simp [List.findSome?]

theorem lastValidUpTo_cons_zero (x : Option Rat) (l : OSeries) : Spec.lastValidUpTo (x :: l) 0 = x := by
  cases x <;> simp [Spec.lastValidUpTo, List.findSome?]

theorem ffillFrom_getElem? (last : Option Rat) (z : OSeries) (i : Nat) (hi : i < z.length) :
    (ffillFrom last z)[i]? = some ((Spec.lastValidUpTo z i).or last) := by
  induction z generalizing last i with
  | nil => simp at hi
  | cons x l ih =>
    cases i with
    | zero =>
      rw [lastValidUpTo_cons_zero]
      cases x <;> simp [ffillFrom]
    | succ i =>
      have hi' : i < l.length := by simpa using hi
      rw [lastValidUpTo_cons_succ]
      cases x with
      | none =>
        simp only [ffillFrom, List.getElem?_cons_succ, ih last i hi']
        cases Spec.lastValidUpTo l i <;> simp
      | some v =>
        simp only [ffillFrom, List.getElem?_cons_succ, ih (some v) i hi']
        cases Spec.lastValidUpTo l i <;> simp

theorem ffill_getElem? (z : OSeries) (i : Nat) (hi : i < z.length) :
    (ffill z)[i]? = some (Spec.lastValidUpTo z i) := by
  rw [ffill, ffillFrom_getElem? none z i hi]; cases Spec.lastValidUpTo z i <;> rfl

theorem ffillFrom_length (last : Option Rat) (z : OSeries) : (ffillFrom last z).length = z.length := by
  induction z generalizing last with
  | nil => rfl
  | cons x l ih => cases x <;> simp [ffillFrom, ih]

theorem ffill_length (z : OSeries) : (ffill z).length = z.length := ffillFrom_length none z

theorem bfill_length (z : OSeries) : (bfill z).length = z.length := by
  induction z with
  | nil => rfl
  | cons x l ih => cases x <;> simp [bfill, ih]

theorem bfill_head (z : OSeries) : (bfill z).head?.join = Spec.firstValidFrom z 0 := by
  induction z with
  | nil => rfl
  | cons x l ih =>
    cases x with
    | some v => simp [bfill, Spec.firstValidFrom]
    | none =>
      simp only [bfill, List.head?_cons, Option.join_some, ih]
      simp [Spec.firstValidFrom]

theorem bfill_getElem? (z : OSeries) (i : Nat) (hi : i < z.length) :
    (bfill z)[i]? = some (Spec.firstValidFrom z i) := by
  induction z generalizing i with
  | nil => simp at hi
  | cons x l ih =>
    cases i with
    | zero =>
      cases x with
      | some v => simp [bfill, Spec.firstValidFrom]
      | none =>
        simp only [bfill, List.getElem?_cons_zero, bfill_head]
        simp [Spec.firstValidFrom]
    | succ i =>
      have hi' : i < l.length := by simpa using hi
      cases x <;> simp [bfill, ih i hi', Spec.firstValidFrom]

/-- an observed value survives forward and backward filling -/
theorem ffill_keeps (z : OSeries) (i : Nat) (v : Rat) (h : z[i]? = some (some v)) :
    (ffill z)[i]? = some (some v) := by
  have hi : i < z.length := by
    by_contra hc
    rw [List.getElem?_eq_none (by omega)] at h; cases h
  rw [ffill_getElem? z i hi]
  congr 1
  unfold Spec.lastValidUpTo
  have : z.take (i + 1) = z.take i ++ [some v] := by
    rw [List.take_add_one, h]; rfl
  rw [this]; simp

theorem bfill_keeps (z : OSeries) (i : Nat) (v : Rat) (h : z[i]? = some (some v)) :
    (bfill z)[i]? = some (some v) := by
  have hi : i < z.length := by
    by_contra hc
    rw [List.getElem?_eq_none (by omega)] at h; cases h
  rw [bfill_getElem? z i hi]
  congr 1
  unfold Spec.firstValidFrom
  have : z.drop i = some v :: z.drop (i + 1) := by
    rw [List.drop_eq_getElem_cons hi]
    have : z[i] = some v := by
      have := List.getElem?_eq_getElem hi
      rw [this] at h; simpa using h
    rw [this]
  rw [this]; simp [List.findSome?]

/-- a series without missing values is a fixed point of both fills -/
theorem ffillFrom_complete (last : Option Rat) (z : OSeries) (h : ∀ x ∈ z, x ≠ none) : ffillFrom last z = z := by
  induction z generalizing last with
  | nil => rfl
  | cons x l ih =>
    cases x with
    | none => exact absurd rfl (h none List.mem_cons_self)
    | some v => simp [ffillFrom, ih (some v) (fun y hy => h y (List.mem_cons_of_mem _ hy))]

theorem bfill_complete (z : OSeries) (h : ∀ x ∈ z, x ≠ none) : bfill z = z := by
  induction z with
  | nil => rfl
  | cons x l ih =>
    cases x with
    | none => exact absurd rfl (h none List.mem_cons_self)
    | some v => simp [bfill, ih (fun y hy => h y (List.mem_cons_of_mem _ hy))]

theorem final_fill_complete (z : OSeries) (h : ∀ x ∈ z, x ≠ none) : bfill (ffill z) = z := by
  rw [ffill, ffillFrom_complete none z h, bfill_complete z h]

/-! ### fill with a value -/

theorem fillValue_some (v : Rat) (z : OSeries) : fillValue (some v) z = Spec.fillWith v z := by
  unfold fillValue Spec.fillWith
  apply List.map_congr_left
  intro x _
  cases x <;> rfl

theorem fillWith_complete (v : Rat) (z : OSeries) : ∀ x ∈ Spec.fillWith v z, x ≠ none := by
  intro x hx
  obtain ⟨y, _, rfl⟩ := List.mem_map.mp hx
  simp

theorem impute_constant (v : Rat) (z : OSeries) (hz : z ≠ []) :
    impute .constant (some v) none z = .ok (Spec.fillWith v z) := by
  have he : z.isEmpty = false := by cases z <;> simp_all
  simp [impute, stage1, stage1Err, checkMethod, he, replaceMissing, bind, Except.bind, pure, Except.pure, fillValue_some,
    final_fill_complete _ (fillWith_complete v z)]

theorem validValues_eq (z : OSeries) : validValues z = Spec.observed z := rfl

theorem impute_mean (z : OSeries) (hv : Spec.observed z ≠ []) :
    impute .mean none none z = .ok (Spec.fillWith (Spec.mean (Spec.observed z)) z) := by
  have hz : z.isEmpty = false := by
    cases z with
    | nil => simp [Spec.observed] at hv
    | cons a l => rfl
  have hm : meanValid z = some (Spec.mean (Spec.observed z)) := by
    have : (validValues z).isEmpty = false := by
      rw [validValues_eq]; cases h : Spec.observed z <;> simp_all
    simp [meanValid, Spec.mean, validValues_eq, hv]
  simp [impute, stage1, stage1Err, checkMethod, hz, replaceMissing, bind, Except.bind, pure, Except.pure, hm, fillValue_some,
    final_fill_complete _ (fillWith_complete _ z)]

theorem medianValid_eq (z : OSeries) (hv : Spec.observed z ≠ []) :
    medianValid z = some (Spec.middle (sortRats (Spec.observed z))) := by
  have hlen : (sortRats (validValues z)).length = (Spec.observed z).length := (SkVerif.Lem.isortBy_perm _ _).length_eq
  have hpos : (Spec.observed z).length ≠ 0 := by simpa using hv
  unfold medianValid Spec.middle
  simp only [validValues_eq] at hlen ⊢
  simp only [hlen, hpos, if_false]
  split <;> rfl

theorem impute_median (z : OSeries) (hv : Spec.observed z ≠ []) :
    impute .median none none z = .ok (Spec.fillWith (Spec.middle (sortRats (Spec.observed z))) z) := by
  have hz : z.isEmpty = false := by
    cases z with
    | nil => simp [Spec.observed] at hv
    | cons a l => rfl
  simp [impute, stage1, stage1Err, checkMethod, hz, replaceMissing, bind, Except.bind, pure, Except.pure, medianValid_eq z hv,
    fillValue_some, final_fill_complete _ (fillWith_complete _ z)]

end SkVerif.C14.Lem
