/- Lemmas about the `_set_params` model (component replacement, then nested parameters). -/
import SkVerif.Model.TuneSetParams
namespace SkVerif.Tune

theorem getStep_replaceStep_self (name : String) (c : Comp) :
    ∀ st : List (String × Comp), (getStep name st).isSome → getStep name (replaceStep name c st) = some c
  | [], h => by simp [getStep] at h
  | (n, d) :: t, h => by
    by_cases hn : n = name
    · simp [replaceStep, getStep, hn]
    · have ht : (getStep name t).isSome := by simpa [getStep, hn] using h
      simp [replaceStep, getStep, hn, getStep_replaceStep_self name c t ht]

theorem setArg_of_present (k : String) (v : Val) :
    ∀ args : List (String × Val), (getArg k args).isSome →
      ∃ a, setArg k v args = some a ∧ getArg k a = some v ∧ ∀ k', k' ≠ k → getArg k' a = getArg k' args
  | [], h => by simp [getArg] at h
  | (k0, w) :: t, h => by
    by_cases hk : k0 = k
    · refine ⟨(k0, v) :: t, by simp [setArg, hk], by simp [getArg, hk], ?_⟩
      intro k' hk'
      have : ¬ k0 = k' := by rw [hk]; exact fun e => hk' e.symm
      simp [getArg, this]
    · have ht : (getArg k t).isSome := by simpa [getArg, hk] using h
      obtain ⟨a, ha, hg, ho⟩ := setArg_of_present k v t ht
      refine ⟨(k0, w) :: a, by simp [setArg, hk, ha], by simp [getArg, hk, hg], ?_⟩
      intro k' hk'
      by_cases h0 : k0 = k'
      · simp [getArg, h0]
      · simp [getArg, h0, ho k' hk']

theorem applyNested_of_present (name sub : String) (v : Val) (c : Comp) (a : List (String × Val))
    (ha : setArg sub v c.args = some a) :
    ∀ st : List (String × Comp), getStep name st = some c →
      ∃ st', applyNested name sub v st = some st' ∧ getStep name st' = some { c with args := a }
  | [], h => by simp [getStep] at h
  | (n, d) :: t, h => by
    by_cases hn : n = name
    · have hd : d = c := by simpa [getStep, hn] using h
      subst hd
      exact ⟨(n, { d with args := a }) :: t, by simp [applyNested, hn, ha], by simp [getStep, hn]⟩
    · have ht : getStep name t = some c := by simpa [getStep, hn] using h
      obtain ⟨st', h1, h2⟩ := applyNested_of_present name sub v c a ha t ht
      exact ⟨(n, d) :: st', by simp [applyNested, hn, h1], by simp [getStep, hn, h2]⟩

theorem applyNested_rejected (name sub : String) (v : Val) (c : Comp) (ha : setArg sub v c.args = none) :
    ∀ st : List (String × Comp), getStep name st = some c → applyNested name sub v st = none
  | [], h => by simp [getStep] at h
  | (n, d) :: t, h => by
    by_cases hn : n = name
    · have hd : d = c := by simpa [getStep, hn] using h
      subst hd
      simp [applyNested, hn, ha]
    · have ht : getStep name t = some c := by simpa [getStep, hn] using h
      simp [applyNested, hn, applyNested_rejected name sub v c ha t ht]

end SkVerif.Tune
