/- Unfolding lemmas: each metric function succeeds iff its validation steps succeed and the shared tail `finish`
succeeds on the explicitly given per-column values. -/
import SkVerif.Model.Metrics
import SkVerif.Lemmas.MetricsMedian
namespace SkVerif.Lem.Metrics
open SkVerif SkVerif.Metrics

theorem bind_ok {α β} {x : Except Err α} {f : α → Except Err β} {b : β} :
    (x >>= f) = .ok b ↔ ∃ a, x = .ok a ∧ f a = .ok b := by
  cases x with
  | error e => simp [bind, Except.bind]
  | ok a => simp [bind, Except.bind]

theorem bindU_ok {β} {x : Except Err Unit} {f : Unit → Except Err β} {b : β} :
    (x >>= f) = .ok b ↔ x = .ok () ∧ f () = .ok b := by
  cases x with
  | error e => simp [bind, Except.bind]
  | ok a => simp [bind, Except.bind]

theorem guard'_ok {b : Bool} {e : Err} : guard' b e = .ok () ↔ b = true := by
  unfold guard'; cases b <;> simp

/-! ### the shared tail -/
theorem finish_ok {k : Nat} {mo : MO} {qs : List Rat} {out : Out} (h : finish k mo qs = .ok out) :
    out.qs = qs ∧ out.deg = k := by
  unfold finish at h
  split at h
  · cases h; exact ⟨rfl, rfl⟩
  · cases h; exact ⟨rfl, rfl⟩
  · split at h
    · cases h
    · cases h; exact ⟨rfl, rfl⟩
  · cases h

theorem finish_raw {k : Nat} {qs : List Rat} : finish k .raw qs = .ok (.raw k qs) := rfl
theorem finish_uniform {k : Nat} {qs : List Rat} : finish k .uniform qs = .ok (.avg k none qs) := rfl
theorem finish_weights {k : Nat} {w qs : List Rat} (h : w.sum ≠ 0) :
    finish k (.weights w) qs = .ok (.avg k (some w) qs) := by simp [finish, h]

/-- weights of the multioutput option are all ≥ 0 -/
def NonnegMO : MO → Prop
  | .weights w => ∀ x ∈ w, 0 ≤ x
  | _ => True

/-- exact value(s) of a result are ≥ 0 when its radicands are and the output weights are ≥ 0 -/
theorem finish_perCol_nonneg {k : Nat} {mo : MO} {qs : List Rat} {out : Out} (h : finish k mo qs = .ok out)
    (hmo : NonnegMO mo) (hq : ∀ q ∈ qs, 0 ≤ q) : ∀ v ∈ out.perCol, 0 ≤ v := by
  unfold finish at h
  split at h
  · cases h; exact hq
  · cases h
    intro v hv
    simp only [Out.perCol, List.mem_singleton] at hv
    rw [hv]; exact npAverage_nonneg none qs (by intro w hw; cases hw) hq
  · split at h
    · cases h
    · cases h
      intro v hv
      simp only [Out.perCol, List.mem_singleton] at hv
      rw [hv]
      exact npAverage_nonneg _ qs (by intro w hw; cases hw; exact hmo) hq
  · cases h

theorem finish_perCol_zero {k : Nat} {mo : MO} {qs : List Rat} {out : Out} (h : finish k mo qs = .ok out)
    (hq : ∀ q ∈ qs, q = 0) : ∀ v ∈ out.perCol, v = 0 := by
  unfold finish at h
  split at h
  · cases h; exact hq
  · cases h
    intro v hv
    simp only [Out.perCol, List.mem_singleton] at hv
    rw [hv]; exact npAverage_zero none qs hq
  · split at h
    · cases h
    · cases h
      intro v hv
      simp only [Out.perCol, List.mem_singleton] at hv
      rw [hv]; exact npAverage_zero _ qs hq
  · cases h

/-! ### validation is symmetric in (y_true, y_pred) -/
theorem checkRegTargets_ok {yt yp : Mat} {mo : MO} (h : checkRegTargets yt yp mo = .ok ()) :
    nrows yt = nrows yp ∧ nrows yt ≠ 0 ∧ yt.length = yp.length := by
  unfold checkRegTargets at h
  simp only [bindU_ok, guard'_ok] at h
  obtain ⟨h1, h2, h3, _⟩ := h
  exact ⟨by simpa using h1, by simpa using h2, by simpa using h3⟩

theorem checkRegTargets_swap (yt yp : Mat) (mo : MO) : checkRegTargets yp yt mo = checkRegTargets yt yp mo := by
  unfold checkRegTargets guard'
  by_cases h1 : nrows yt = nrows yp
  · by_cases h2 : nrows yt = 0
    · have : nrows yp = 0 := by omega
      simp [h1, this, bind, Except.bind]
    · have h2' : nrows yp ≠ 0 := by omega
      by_cases h3 : yt.length = yp.length
      · simp [h1, h3]
      · have h3' : ¬ yp.length = yt.length := fun h => h3 h.symm
        simp [h1, h2', h3, h3', bind, Except.bind]
  · have h1' : ¬ nrows yp = nrows yt := fun h => h1 h.symm
    simp [h1, h1', bind, Except.bind]

/-! ### one unfolding lemma per function -/
section
variable {eps : Rat} {yt yp yb : Mat} {hw : Option (List Rat)} {mo : MO} {out : Out} {sym sqrt : Bool}

theorem mae_iff : meanAbsoluteError yt yp hw mo = .ok out ↔
    checkRegTargets yt yp mo = .ok () ∧ checkHw (nrows yt) hw = .ok () ∧ checkSum hw = .ok () ∧
    finish 1 mo (List.zipWith (fun t p => npAverage hw (absErrs t p)) yt yp) = .ok out := by
  unfold meanAbsoluteError; simp only [bindU_ok]

theorem mse_iff : meanSquaredError yt yp hw mo sqrt = .ok out ↔
    checkRegTargets yt yp mo = .ok () ∧ checkHw (nrows yt) hw = .ok () ∧ checkSum hw = .ok () ∧
    finish (rootDeg sqrt 1) mo (List.zipWith (fun t p => npAverage hw (sqErrs t p)) yt yp) = .ok out := by
  unfold meanSquaredError; simp only [bindU_ok]

theorem mdae_iff : medianAbsoluteError yt yp hw mo = .ok out ↔
    checkRegTargets yt yp mo = .ok () ∧ checkHw (nrows yt) hw = .ok () ∧
    finish 1 mo (List.zipWith (fun t p => medianW hw (absErrs t p)) yt yp) = .ok out := by
  unfold medianAbsoluteError; simp only [bindU_ok]

theorem mdse_iff : medianSquaredError yt yp hw mo sqrt = .ok out ↔
    checkRegTargets yt yp mo = .ok () ∧ checkHw (nrows yt) hw = .ok () ∧
    finish (rootDeg sqrt 1) mo (List.zipWith (fun t p => medianW hw (sqErrs' t p)) yt yp) = .ok out := by
  unfold medianSquaredError; simp only [bindU_ok]

theorem mape_iff : meanAbsolutePercentageError eps yt yp hw mo sym = .ok out ↔
    checkRegTargets yt yp mo = .ok () ∧ checkHw (nrows yt) hw = .ok () ∧ checkSum hw = .ok () ∧
    finish 1 mo (List.zipWith (fun t p => npAverage hw ((pctCol eps sym t p).map absR)) yt yp) = .ok out := by
  unfold meanAbsolutePercentageError; simp only [bindU_ok]

theorem mdape_iff : medianAbsolutePercentageError eps yt yp hw mo sym = .ok out ↔
    checkRegTargets yt yp mo = .ok () ∧ checkHw (nrows yt) hw = .ok () ∧
    finish 1 mo (List.zipWith (fun t p => medianW hw ((pctCol eps sym t p).map absR)) yt yp) = .ok out := by
  unfold medianAbsolutePercentageError; simp only [bindU_ok]

theorem mspe_iff : meanSquaredPercentageError eps yt yp hw mo sqrt sym = .ok out ↔
    checkRegTargets yt yp mo = .ok () ∧ checkHw (nrows yt) hw = .ok () ∧ checkSum hw = .ok () ∧
    finish (rootDeg sqrt 1) mo (List.zipWith (fun t p => npAverage hw ((pctCol eps sym t p).map sqr)) yt yp)
      = .ok out := by
  unfold meanSquaredPercentageError; simp only [bindU_ok]

theorem mdspe_iff : medianSquaredPercentageError eps yt yp hw mo sqrt sym = .ok out ↔
    checkRegTargets yt yp mo = .ok () ∧ checkHw (nrows yt) hw = .ok () ∧
    finish (rootDeg sqrt 1) mo (List.zipWith (fun t p => medianW hw ((pctCol eps sym t p).map sqr)) yt yp)
      = .ok out := by
  unfold medianSquaredPercentageError; simp only [bindU_ok]

theorem mrae_iff : meanRelativeAbsoluteError eps yt yp yb hw mo = .ok out ↔
    checkRegTargets yt yp mo = .ok () ∧ checkRegTargets yt yb mo = .ok () ∧ checkHw (nrows yt) hw = .ok () ∧
    checkSum hw = .ok () ∧
    finish 1 mo (relCols eps (fun re => npAverage hw (re.map absR)) yt yp yb) = .ok out := by
  unfold meanRelativeAbsoluteError; simp only [bindU_ok]

theorem mdrae_iff : medianRelativeAbsoluteError eps yt yp yb hw mo = .ok out ↔
    checkRegTargets yt yp mo = .ok () ∧ checkRegTargets yt yb mo = .ok () ∧ checkHw (nrows yt) hw = .ok () ∧
    finish 1 mo (relCols eps (fun re => medianW hw (re.map absR)) yt yp yb) = .ok out := by
  unfold medianRelativeAbsoluteError; simp only [bindU_ok]

theorem gmrae_iff : geometricMeanRelativeAbsoluteError eps yt yp yb hw mo = .ok out ↔
    checkRegTargets yt yp mo = .ok () ∧ checkRegTargets yt yb mo = .ok () ∧ checkHw (nrows yt) hw = .ok () ∧
    checkNonneg hw = .ok () ∧ checkSum hw = .ok () ∧
    finish (gmDeg (nrows yt) hw) mo
      (relCols eps (fun re => gmFactor hw (re.map (fun e => floorEps eps (absR e)))) yt yp yb) = .ok out := by
  unfold geometricMeanRelativeAbsoluteError; simp only [bindU_ok]

theorem gmrse_iff : geometricMeanRelativeSquaredError eps yt yp yb hw mo sqrt = .ok out ↔
    checkRegTargets yt yp mo = .ok () ∧ checkRegTargets yt yb mo = .ok () ∧ checkHw (nrows yt) hw = .ok () ∧
    checkNonneg hw = .ok () ∧ checkSum hw = .ok () ∧
    finish (rootDeg sqrt (gmDeg (nrows yt) hw)) mo
      (relCols eps (fun re => gmFactor hw (re.map (fun e => floorEps eps (sqr e)))) yt yp yb) = .ok out := by
  unfold geometricMeanRelativeSquaredError; simp only [bindU_ok]

theorem masym_iff {thr : Rat} {l r : EF} : meanAsymmetricError yt yp hw mo thr (some l) (some r) = .ok out ↔
    checkRegTargets yt yp mo = .ok () ∧ checkHw (nrows yt) hw = .ok () ∧ checkSum hw = .ok () ∧
    finish 1 mo (List.zipWith (fun t p => npAverage hw (asymCol thr l r t p)) yt yp) = .ok out := by
  unfold meanAsymmetricError; simp only [bindU_ok]

theorem masym_bad {thr : Rat} {l r : Option EF} (h : l = none ∨ r = none) :
    meanAsymmetricError yt yp hw mo thr l r ≠ .ok out := by
  unfold meanAsymmetricError
  intro hh
  simp only [bindU_ok] at hh
  obtain ⟨_, _, hh⟩ := hh
  rcases h with rfl | rfl
  · simp at hh
  · cases l <;> simp at hh

def ixOk : Option (Int × Int) → Prop
  | none => True
  | some (trainMax, trueMin) => trainMax < trueMin

theorem scaledPrologue_arr_iff {tr m : Mat} {ix : Option (Int × Int)} :
    scaledPrologue yt yp (.arr tr) ix hw mo = .ok m ↔
      ixOk ix ∧ checkRegTargets yt yp mo = .ok () ∧ checkHw (nrows yt) hw = .ok () ∧ yt.length = tr.length ∧ m = tr := by
  unfold scaledPrologue
  cases ix with
  | none =>
    simp only [bindU_ok, pure, Except.pure, guard'_ok, ixOk, true_and, beq_iff_eq, Except.ok.injEq]
    constructor
    · rintro ⟨h1, h2, h3, h4⟩; exact ⟨h1, h2, h3, h4.symm⟩
    · rintro ⟨h1, h2, h3, h4⟩; exact ⟨h1, h2, h3, h4.symm⟩
  | some p =>
    obtain ⟨a, b⟩ := p
    simp only [bindU_ok, pure, Except.pure, guard'_ok, ixOk, beq_iff_eq, decide_eq_true_eq, Except.ok.injEq]
    constructor
    · rintro ⟨h0, h1, h2, h3, h4⟩; exact ⟨h0, h1, h2, h3, h4.symm⟩
    · rintro ⟨h0, h1, h2, h3, h4⟩; exact ⟨h0, h1, h2, h3, h4.symm⟩

/-- scaled errors: prologue, inner metric on the naive forecast, inner metric on the forecast, ratio -/
theorem scaled_iff {inner : Mat → Mat → Option (List Rat) → MO → Except Err Out} {ytr : Train}
    {ix : Option (Int × Int)} {sp : Int} :
    scaled eps inner sqrt yt yp ytr ix sp hw mo = .ok out ↔
    ∃ m naive pred, scaledPrologue yt yp ytr ix hw mo = .ok m ∧
      inner (m.map (naiveTrue sp)) (m.map (naivePred sp)) none mo = .ok naive ∧
      inner yt yp hw mo = .ok pred ∧ out = ratioOut eps (rootDeg sqrt 1) pred naive := by
  unfold scaled
  simp only [bind_ok, pure, Except.pure]
  constructor
  · rintro ⟨m, h1, naive, h2, pred, h3, h4⟩
    exact ⟨m, naive, pred, h1, h2, h3, by cases h4; rfl⟩
  · rintro ⟨m, naive, pred, h1, h2, h3, h4⟩
    exact ⟨m, h1, naive, h2, pred, h3, by rw [h4]⟩

theorem relativeLoss_iff {f : Base} : relativeLoss eps yt yp yb f hw mo = .ok out ↔
    checkRegTargets yt yp mo = .ok () ∧ checkHw (nrows yt) hw = .ok () ∧
    ∃ lp lb, f.call eps yt yp hw mo = .ok lp ∧ f.call eps yt yb hw mo = .ok lb ∧ out = ratioOut eps 1 lp lb := by
  unfold relativeLoss
  simp only [bindU_ok]
  simp only [bind_ok, pure, Except.pure]
  constructor
  · rintro ⟨h1, h2, lp, h3, lb, h4, h5⟩
    exact ⟨h1, h2, lp, lb, h3, h4, by cases h5; rfl⟩
  · rintro ⟨h1, h2, lp, lb, h3, h4, h5⟩
    exact ⟨h1, h2, lp, h3, lb, h4, by rw [h5]⟩
end

end SkVerif.Lem.Metrics
