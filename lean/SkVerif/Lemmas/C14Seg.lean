import SkVerif.Spec.C14Seg
import SkVerif.Lemmas.C14Panel
import Mathlib.Tactic.Linarith
import Mathlib.Tactic.Ring
namespace SkVerif.C14.Lem
open SkVerif SkVerif.C14

/-! ### Python slices with natural bounds -/

theorem pySlice_nat (xs : List Rat) (s e : Nat) (he : e ≤ xs.length) :
    pySlice xs (s : Int) (e : Int) = (xs.drop s).take (e - s) := by
  unfold pySlice
  have h1 : ¬ ((s : Int) < 0) := by omega
  have h2 : ¬ ((e : Int) < 0) := by omega
  simp only [h1, h2, if_false]
  by_cases hs : s ≤ xs.length
  · have e1 : min (s : Int) (xs.length : Int) = (s : Int) := by omega
    have e2 : min (e : Int) (xs.length : Int) = (e : Int) := by omega
    rw [e1, e2]
    have e3 : ((e : Int) - (s : Int)).toNat = e - s := by omega
    simp [e3]
  · have e1 : min (s : Int) (xs.length : Int) = (xs.length : Int) := by omega
    have e2 : min (e : Int) (xs.length : Int) = (e : Int) := by omega
    rw [e1, e2]
    have e3 : ((e : Int) - (xs.length : Int)).toNat = 0 := by omega
    have e4 : e - s = 0 := by omega
    simp [e3, e4]

/-! ### specification sanity: blocks make up the series -/

theorem blocks_flatten (sizes : List Nat) (xs : List Rat) (h : sizes.sum = xs.length) :
    (Spec.blocks sizes xs).flatten = xs := by
  induction sizes generalizing xs with
  | nil =>
    have : xs = [] := by simpa using h.symm
    simp [Spec.blocks, this]
  | cons s rest ih =>
    simp only [Spec.blocks, List.flatten_cons]
    have hs : rest.sum = (xs.drop s).length := by simp at h ⊢; omega
    rw [ih _ hs, List.take_append_drop]

theorem blocks_length (sizes : List Nat) (xs : List Rat) : (Spec.blocks sizes xs).length = sizes.length := by
  induction sizes generalizing xs with
  | nil => rfl
  | cons s rest ih => simp [Spec.blocks, ih]

theorem equalSizes_length (n k : Nat) (hk : 0 < k) : (Spec.equalSizes n k).length = k := by
  have := Nat.mod_lt n hk
  simp [Spec.equalSizes]; omega

theorem sum_replicate_nat (m a : Nat) : (List.replicate m a).sum = m * a := by
  induction m with
  | zero => simp
  | succ m ih => simp only [List.replicate_succ, List.sum_cons, ih]; ring

theorem equalSizes_sum (n k : Nat) (hk : 0 < k) : (Spec.equalSizes n k).sum = n := by
  have hr := Nat.mod_lt n hk
  have hdm := Nat.div_add_mod n k
  simp only [Spec.equalSizes, List.sum_append, sum_replicate_nat]
  generalize n / k = q at *
  generalize n % k = r at *
  obtain ⟨d, rfl⟩ : ∃ d, k = r + d := ⟨k - r, by omega⟩
  have e : r + d - r = d := by omega
  rw [e]
  have : r * (q + 1) + d * q = (r + d) * q + r := by ring
  omega

theorem equalSizes_near_equal (n k : Nat) : ∀ s ∈ Spec.equalSizes n k, s = n / k ∨ s = n / k + 1 := by
  intro s hs
  simp only [Spec.equalSizes, List.mem_append, List.mem_replicate] at hs
  rcases hs with ⟨_, rfl⟩ | ⟨_, rfl⟩
  · right; rfl
  · left; rfl

/-- the `k` near-equal consecutive blocks together are the series -/
theorem intervalSegments_flatten (k : Nat) (xs : List Rat) (hk : 0 < k) :
    (Spec.intervalSegments k xs).flatten = xs :=
  blocks_flatten _ xs (equalSizes_sum xs.length k hk)

/-! ### the code's integer-count path -/

theorem arraySplitSizes_eq (n k : Nat) : arraySplitSizes n k = Spec.equalSizes n k := rfl

/-- the `[start, end)` pairs `fit` stores for consecutive blocks of the given sizes -/
def pairsFrom (start : Nat) : List Nat → List (List Int)
  | [] => []
  | s :: rest => [(start : Int), ((start + s : Nat) : Int)] :: pairsFrom (start + s) rest

/-- `(interval[0], interval[-1])` of those pairs -/
def boundsFrom (start : Nat) : List Nat → List (Int × Int)
  | [] => []
  | s :: rest => ((start : Int), ((start + s : Nat) : Int)) :: boundsFrom (start + s) rest

theorem splitToPair_block (start s : Nat) (hs : 1 ≤ s) :
    splitToPair ((List.range s).map (fun i => ((start + i : Nat) : Int))) =
      .ok [(start : Int), ((start + s : Nat) : Int)] := by
  have hne : s ≠ 0 := by omega
  simp only [splitToPair, List.head?_map, List.getLast?_map, List.head?_range, List.getLast?_range, hne, if_false,
    Option.map_some]
  simp only [Except.ok.injEq, List.cons.injEq, and_true]
  omega

theorem blocksFrom_pairs (sizes : List Nat) (start : Nat) (h : ∀ s ∈ sizes, 1 ≤ s) :
    (blocksFrom start sizes).mapM splitToPair = .ok (pairsFrom start sizes) := by
  induction sizes generalizing start with
  | nil => rfl
  | cons s rest ih =>
    simp only [blocksFrom, List.mapM_cons, bind, Except.bind, splitToPair_block start s (h s List.mem_cons_self),
      ih (start + s) (fun t ht => h t (List.mem_cons_of_mem _ ht)), pairsFrom, pure, Except.pure]

theorem pairsFrom_bounds (sizes : List Nat) (start : Nat) :
    (pairsFrom start sizes).mapM ivBounds = .ok (boundsFrom start sizes) := by
  induction sizes generalizing start with
  | nil => rfl
  | cons s rest ih =>
    simp only [pairsFrom, List.mapM_cons, bind, Except.bind, ih (start + s), boundsFrom, pure, Except.pure]
    simp [ivBounds]

/-- the slices taken by `transform` are exactly the specification's blocks -/
theorem slices_eq_blocks (sizes : List Nat) (start : Nat) (row : List Rat)
    (h2 : start + sizes.sum ≤ row.length) :
    (boundsFrom start sizes).map (fun b => pySlice row b.1 b.2) = Spec.blocks sizes (row.drop start) := by
  induction sizes generalizing start with
  | nil => rfl
  | cons s rest ih =>
    simp only [List.sum_cons] at h2
    simp only [boundsFrom, List.map_cons, Spec.blocks]
    rw [pySlice_nat row start (start + s) (by omega)]
    have e1 : start + s - start = s := by omega
    rw [e1, List.drop_drop]
    rw [ih (start + s) (by omega)]

theorem equalSizes_pos (n k : Nat) (hk : 0 < k) (h : k ≤ n) : ∀ s ∈ Spec.equalSizes n k, 1 ≤ s := by
  intro s hs
  have : 1 ≤ n / k := (Nat.le_div_iff_mul_le hk).mpr (by omega)
  rcases equalSizes_near_equal n k s hs with rfl | rfl <;> omega

/-- fitted pairs and segments produced for an integer `intervals = k` on a row of length `n` -/
theorem count_segments (k : Nat) (row : List Rat) (hk : 0 < k) (hkn : k ≤ row.length) :
    ∃ ivs bounds, (arraySplit row.length k).mapM splitToPair = .ok ivs ∧ ivs.mapM ivBounds = .ok bounds ∧
      bounds.map (fun b => pySlice row b.1 b.2) = Spec.intervalSegments k row := by
  refine ⟨pairsFrom 0 (Spec.equalSizes row.length k), boundsFrom 0 (Spec.equalSizes row.length k), ?_, ?_, ?_⟩
  · exact blocksFrom_pairs _ 0 (equalSizes_pos _ k hk hkn)
  · exact pairsFrom_bounds _ 0
  · have := slices_eq_blocks (Spec.equalSizes row.length k) 0 row (by rw [equalSizes_sum _ k hk]; omega)
    simpa [Spec.intervalSegments] using this

/-! ### explicit intervals -/

theorem cuts_flatten (cuts : List Nat) (xs : List Rat) (hs : cuts.Pairwise (· ≤ ·))
    (hlast : ∀ c ∈ cuts, c ≤ xs.length) :
    (Spec.sliceSegments (Spec.cutsToIntervals cuts) xs).flatten =
      (xs.drop (cuts.head?.getD 0)).take (cuts.getLast?.getD 0 - cuts.head?.getD 0) := by
  induction cuts with
  | nil => simp [Spec.cutsToIntervals, Spec.sliceSegments]
  | cons a rest ih =>
    cases rest with
    | nil => simp [Spec.cutsToIntervals, Spec.sliceSegments]
    | cons b rest =>
      have hp := List.pairwise_cons.mp hs
      have hab : a ≤ b := hp.1 b List.mem_cons_self
      have ih' := ih hp.2 (fun c hc => hlast c (List.mem_cons_of_mem _ hc))
      simp only [Spec.cutsToIntervals, Spec.sliceSegments, List.map_cons, List.flatten_cons] at ih' ⊢
      rw [ih']
      simp only [List.head?_cons, Option.getD_some]
      have hbl : b ≤ (b :: rest).getLast?.getD 0 := by
        have hne : (b :: rest) ≠ [] := by simp
        have hmem : (b :: rest).getLast hne ∈ (b :: rest) := List.getLast_mem hne
        have e : (b :: rest).getLast?.getD 0 = (b :: rest).getLast hne := by
          rw [List.getLast?_eq_some_getLast hne]; rfl
        rw [e]
        rcases List.mem_cons.mp hmem with h | h
        · omega
        · exact (List.pairwise_cons.mp hp.2).1 _ h
      have hl2 : (a :: b :: rest).getLast?.getD 0 = (b :: rest).getLast?.getD 0 := by
        rw [List.getLast?_cons_of_ne_nil (by simp)]
      rw [hl2]
      set L := (b :: rest).getLast?.getD 0 with hL
      -- take (b-a) (drop a xs) ++ take (L-b) (drop b xs) = take (L-a) (drop a xs)
      have e1 : xs.drop b = (xs.drop a).drop (b - a) := by rw [List.drop_drop]; congr 1; omega
      rw [e1]
      have e2 : L - a = (b - a) + (L - b) := by omega
      rw [e2, List.take_add]

/-! ### panel level -/

theorem univariateTable_ok {X : Panel} {tbl : List (List Rat)} (h : univariateTable X = .ok tbl) :
    tbl = column X 0 ∧ tbl ≠ [] := by
  unfold univariateTable at h
  cases X with
  | nil => simp [checkX, bind, Except.bind] at h
  | cons inst X =>
    by_cases h0 : inst.length = 0
    · simp [checkX, h0, bind, Except.bind] at h
    · simp only [checkX, h0, if_false, bind, Except.bind] at h
      split at h
      · cases h
      · split at h
        · simp only [pure, Except.pure, Except.ok.injEq] at h
          subst h
          simp [column]
        · cases h

/-- `IntervalSegmenter(intervals=k)` (1 ≤ k ≤ n/2) on equal-length rows of length `n`: the `k` near-equal
consecutive blocks of every series -/
theorem iseg_count (k n : Nat) (X : Panel) (tbl : List (List Rat)) (ht : univariateTable X = .ok tbl)
    (hn : ∀ row ∈ tbl, row.length = n) (hk : 0 < k) (hkn : k ≤ n / 2) :
    iseg (.count (k : Int)) X X = .ok (tbl.map (Spec.intervalSegments k)) := by
  obtain ⟨_, hne⟩ := univariateTable_ok ht
  have hhead : (tbl.head?.getD []).length = n := by
    cases tbl with
    | nil => exact absurd rfl hne
    | cons r t => exact hn r List.mem_cons_self
  have hkn' : k ≤ n := by
    have := Nat.div_le_self n 2
    omega
  have g1 : ¬ ¬ ((k : Int) ≤ ((n / 2 : Nat) : Int)) := by omega
  have g2 : ¬ ((k : Int) ≤ 0) := by omega
  -- the fitted pairs depend on n only
  obtain ⟨row0, hrow0⟩ : ∃ row0 : List Rat, row0.length = n := ⟨List.replicate n 0, by simp⟩
  obtain ⟨ivs, bounds, hiv, hb, _⟩ := count_segments k row0 hk (by omega)
  rw [hrow0] at hiv
  simp only [iseg, isegFit, ht, bind, Except.bind, hhead, g1, g2, if_false, pure, Except.pure, isegTransform,
    Int.toNat_natCast, hiv, hb]
  congr 1
  apply List.map_congr_left
  intro row hrow
  have hlen := hn row hrow
  obtain ⟨ivs', bounds', hiv', hb', hs'⟩ := count_segments k row hk (by omega)
  rw [hlen, hiv] at hiv'
  cases hiv'
  rw [hb] at hb'
  cases hb'
  exact hs'

/-- explicit `[start, end)` rows inside the series give exactly those slices -/
theorem iseg_rows (ivs : List (Nat × Nat)) (Xfit X : Panel) (tblf tbl : List (List Rat))
    (hf : univariateTable Xfit = .ok tblf) (ht : univariateTable X = .ok tbl)
    (hin : ∀ row ∈ tbl, ∀ iv ∈ ivs, iv.2 ≤ row.length) :
    iseg (.rows (ivs.map (fun iv => [(iv.1 : Int), (iv.2 : Int)]))) Xfit X =
      .ok (tbl.map (Spec.sliceSegments ivs)) := by
  have hb : (ivs.map (fun iv => [(iv.1 : Int), (iv.2 : Int)])).mapM ivBounds =
      .ok (ivs.map (fun iv => ((iv.1 : Int), (iv.2 : Int)))) := by
    rw [List.mapM_map]
    apply mapM_except_ok
    intro iv _
    simp [ivBounds]
  simp only [iseg, isegFit, hf, ht, bind, Except.bind, pure, Except.pure, isegTransform, hb]
  congr 1
  apply List.map_congr_left
  intro row hrow
  unfold Spec.sliceSegments
  rw [List.map_map]
  apply List.map_congr_left
  intro iv hiv
  simp only [Function.comp]
  exact pySlice_nat row iv.1 iv.2 (hin row hrow iv hiv)

end SkVerif.C14.Lem
