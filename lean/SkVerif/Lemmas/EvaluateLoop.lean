/-
Helper lemmas for C07, part 2: the fold loop restated over fold data (`loopD`), and its
refinement lemmas against the honest per-fold specification.
-/
import SkVerif.Lemmas.Evaluate
namespace SkVerif.Lem.Ev
open SkVerif SkVerif.Split SkVerif.Evaluate SkVerif.Evaluate.Spec

variable {σ α ξ β : Type}

/-- the training call of fold number `i` -/
def trainCall (c : Ctx σ α ξ β) (i : Nat) (d : FoldData α ξ) : Call α ξ :=
  if callsFit c.strategy i then .fit d.yTrain d.xTrain d.fh c.fitParams else .update d.yTrain d.xTrain

/-- … and its effect on the forecaster -/
def trainOp (c : Ctx σ α ξ β) (i : Nat) (st : σ) (d : FoldData α ξ) : Except Evaluate.Err σ :=
  if callsFit c.strategy i then c.m.fit st d.yTrain d.xTrain d.fh c.fitParams else c.m.update st d.yTrain d.xTrain

def mkRow (c : Ctx σ α ξ β) (d : FoldData α ξ) (st2 : σ) (yPred : Series α) : Row α β :=
  { score := applyMetric c.μ d.yTest yPred
    lenTrain := d.yTrain.length
    cutoff := c.m.cutoff st2
    data := if c.retData then some (d.yTrain, d.yTest, yPred) else none }

/-- the loop body after slicing -/
def stepD (c : Ctx σ α ξ β) (i : Nat) (st : σ) (d : FoldData α ξ) :
    List (Call α ξ) × Except Evaluate.Err (σ × Row α β) :=
  match trainOp c i st d with
  | .error e => ([trainCall c i d], .error e)
  | .ok st1 =>
    match c.m.predict st1 d.fh d.xTest with
    | .error e => ([trainCall c i d, .predict d.fh d.xTest], .error e)
    | .ok (st2, yPred) => ([trainCall c i d, .predict d.fh d.xTest], .ok (st2, mkRow c d st2 yPred))

def loopD (c : Ctx σ α ξ β) : Nat → σ → List (FoldData α ξ) → List (Call α ξ) × Except Evaluate.Err (List (Row α β))
  | _, _, [] => ([], .ok [])
  | i, st, d :: ds =>
    match stepD c i st d with
    | (tr, .error e) => (tr, .error e)
    | (tr, .ok (st', row)) =>
      let r := loopD c (i + 1) st' ds
      (tr ++ r.1, consOk row r.2)

theorem stepD_train_err (c : Ctx σ α ξ β) (i : Nat) (st : σ) (d : FoldData α ξ) (e : Evaluate.Err)
    (h : trainOp c i st d = .error e) : stepD c i st d = ([trainCall c i d], .error e) := by
  simp only [stepD, h]

theorem stepD_pred_err (c : Ctx σ α ξ β) (i : Nat) (st st1 : σ) (d : FoldData α ξ) (e : Evaluate.Err)
    (h : trainOp c i st d = .ok st1) (h2 : c.m.predict st1 d.fh d.xTest = .error e) :
    stepD c i st d = ([trainCall c i d, .predict d.fh d.xTest], .error e) := by
  simp only [stepD, h, h2]

theorem stepD_ok (c : Ctx σ α ξ β) (i : Nat) (st st1 st2 : σ) (d : FoldData α ξ) (yPred : Series α)
    (h : trainOp c i st d = .ok st1) (h2 : c.m.predict st1 d.fh d.xTest = .ok (st2, yPred)) :
    stepD c i st d = ([trainCall c i d, .predict d.fh d.xTest], .ok (st2, mkRow c d st2 yPred)) := by
  simp only [stepD, h, h2]

theorem loopD_cons_err (c : Ctx σ α ξ β) (i : Nat) (st : σ) (d : FoldData α ξ) (ds : List (FoldData α ξ))
    (tr : List (Call α ξ)) (e : Evaluate.Err) (h : stepD c i st d = (tr, .error e)) :
    loopD c i st (d :: ds) = (tr, .error e) := by
  simp only [loopD, h]

theorem loopD_cons_ok (c : Ctx σ α ξ β) (i : Nat) (st st' : σ) (d : FoldData α ξ) (ds : List (FoldData α ξ))
    (tr : List (Call α ξ)) (row : Row α β) (h : stepD c i st d = (tr, .ok (st', row))) :
    loopD c i st (d :: ds) = (tr ++ (loopD c (i + 1) st' ds).1, consOk row (loopD c (i + 1) st' ds).2) := by
  simp only [loopD, h]

theorem foldStep_eq (c : Ctx σ α ξ β) (fh : List Int) (i : Nat) (st : σ) (f : Fold)
    (hfh : checkFh c.fhRaw = .ok fh) (hy : StrictLabels c.y)
    (hX : ∀ X', c.X = some X' → X'.length = c.y.length)
    (hf : FoldOK c.y.length (fhMin fh) f) :
    foldStep c i st f = stepD c i st (foldData c.y c.X (fhMin fh) f) := by
  unfold foldStep
  rw [splitYX_ok c.y c.X c.fhRaw fh f hfh hX hf.train_range hf.test_range hf.xrows_range hf.train_nonempty
    hf.test_nonempty]
  simp only [fhOfIndex_sorted _ (labels_sel_sorted c.y hy f.2 hf.test_sorted)]
  rfl

theorem loop_eq (c : Ctx σ α ξ β) (fh : List Int)
    (hfh : checkFh c.fhRaw = .ok fh) (hy : StrictLabels c.y)
    (hX : ∀ X', c.X = some X' → X'.length = c.y.length)
    (fs : List Fold) (hfs : ∀ f ∈ fs, FoldOK c.y.length (fhMin fh) f) (i : Nat) (st : σ) :
    loop c i st fs = loopD c i st (fs.map (foldData c.y c.X (fhMin fh))) := by
  induction fs generalizing i st with
  | nil => rfl
  | cons f fs ih =>
    have h1 := foldStep_eq c fh i st f hfh hy hX (hfs f (by simp))
    have ih' := fun i st => ih (fun g hg => hfs g (by simp [hg])) i st
    simp only [loop, List.map_cons, loopD, h1]
    cases hs : stepD c i st (foldData c.y c.X (fhMin fh) f) with
    | mk tr r =>
      cases r with
      | error e => rfl
      | ok v =>
        obtain ⟨st', row⟩ := v
        simp only [ih']
        cases (loopD c (i + 1) st' (List.map (foldData c.y c.X (fhMin fh)) fs)).2 <;> rfl

end SkVerif.Lem.Ev
