/- C15: multi-index frames whose instance identifiers are arbitrary distinct labels in any order:
the instance order of the panel is the order of the rows. -/
import SkVerif.Lemmas.PanelNM
namespace SkVerif.Panel.Lem
open SkVerif.Panel SkVerif.Panel.Spec

variable {ν α : Type}

theorem relabel_vals {β} (labels : List Int) (rows : List ((Int × Int) × β)) :
    (relabelInstances labels rows).map (·.2) = rows.map (·.2) := by
  simp [relabelInstances, List.map_map, Function.comp_def]

theorem relabel_time {β} (labels : List Int) (rows : List ((Int × Int) × β)) :
    (relabelInstances labels rows).map (·.1.2) = rows.map (·.1.2) := by
  simp [relabelInstances, List.map_map, Function.comp_def]

theorem range_getD_labels (labels : List Int) :
    (List.range labels.length).map (fun i : Nat => labels.getD ((i : Int).toNat) (i : Int)) = labels := by
  apply List.ext_getElem
  · simp
  · intro i h1 h2
    simp [List.getD_eq_getElem?_getD, List.getElem?_eq_getElem h2]

theorem relabel_inst {n c t : Nat} {X : Arr3 α} (hX : Rect3 n c t X) (hn : 0 < n) (hc : 0 < c)
    (labels : List Int) (hl : labels.length = n) :
    (relabelInstances labels (miRows X)).map (·.1.1)
      = (labels.map (fun x => List.replicate t x)).flatten := by
  have h1 : (relabelInstances labels (miRows X)).map (·.1.1)
      = ((miRows X).map (·.1.1)).map (fun i : Int => labels.getD i.toNat i) := by
    simp [relabelInstances, List.map_map, Function.comp_def]
  rw [h1, miRows_inst hX hn hc, List.map_flatten, List.map_map, List.map_map]
  congr 1
  conv => rhs; rw [← range_getD_labels labels, hl, List.map_map]
  apply List.map_congr_left
  intro i _
  simp [Function.comp_def]

theorem instIds_relabel {n c t : Nat} {X : Arr3 α} (hX : Rect3 n c t X) (hn : 0 < n) (hc : 0 < c)
    (ht : 0 < t) (labels : List Int) (hl : labels.length = n) (hnd : labels.Nodup) :
    ((relabelInstances labels (miRows X)).map (·.1.1)).eraseDups = labels := by
  rw [relabel_inst hX hn hc labels hl, eraseDups_flatMap_replicate t ht _ hnd]

/-- `from_multi_index_to_3d_numpy` keeps the instances in row order whatever their identifiers -/
theorem fromMITo3d_labelled {n c t : Nat} {X : Arr3 α} (hX : Rect3 n c t X) (hn : 0 < n)
    (hc : 0 < c) (ht : 0 < t) (i tm : String) (hne : i ≠ tm) (names : List ν)
    (hl : names.length = c) (labels : List Int) (hll : labels.length = n) (hnd : labels.Nodup) :
    fromMITo3d (miOfL i tm names labels X) (some i) (some tm) = .ok X := by
  have hX' := rect_swap hX
  have hflat : (groupRows ((relabelInstances labels (miRows X)).map (·.1.1))
        ((miOfL i tm names labels X).rows.map (·.2))).flatten
      = (X.map (transposeW t)).flatten.flatten := by
    show (groupRows _ ((relabelInstances labels (miRows X)).map (·.2))).flatten = _
    rw [relabel_vals, miRows_vals, rect_nTime hX hn hc, relabel_inst hX hn hc labels hll,
      groupRows_canonical hX ht labels hll hnd]
  have hI : levelVals (miOfL i tm names labels X) i
      = .ok ((relabelInstances labels (miRows X)).map (·.1.1)) := by
    simp [levelVals, miOfL, hne, pure, Except.pure]
  have hT : levelVals (miOfL i tm names labels X) tm = .ok ((miRows X).map (·.1.2)) := by
    simp [levelVals, miOfL, hne, Ne.symm hne, pure, Except.pure, relabel_time]
  unfold fromMITo3d
  simp only [hI, hT, bind, Except.bind, hflat, instIds_relabel hX hn hc ht labels hll hnd,
    timeIds_miRows hX hn hc, List.length_map, List.length_range, length_flatten_flatten_rect hX', hll]
  simp only [miOfL, hl, if_true]
  rw [reshape3_flatten hX', swap_swap hX]
  rfl

/-- `from_multi_index_to_nested` keeps the instances in row order whatever their identifiers
(distinct, in any order): row `p` of the nested frame is the `p`-th instance of the frame -/
theorem fromMIToNested_labelled [DecidableEq ν] {n c t : Nat} {X : Arr3 α} (hX : Rect3 n c t X)
    (hn : 0 < n) (hc : 0 < c) (ht : 0 < t) (i tm : String) (hne : i ≠ tm) (names : List ν)
    (hl : names.length = c) (hnd : names.Nodup) (k : Bool) (labels : List Int)
    (hll : labels.length = n) (hlnd : labels.Nodup) :
    fromMIToNested (miOfL i tm names labels X) (some i) k = .ok (nestedOf names k X) := by
  have hI : levelVals (miOfL i tm names labels X) i
      = .ok ((relabelInstances labels (miRows X)).map (·.1.1)) := by
    simp [levelVals, miOfL, hne, pure, Except.pure]
  have hS := length_transposeW c X (rect_rowsLen hX)
  have hcols : transposeW (miOfL i tm names labels X).names.length
      ((miOfL i tm names labels X).rows.map (·.2)) = (transposeW c X).map List.flatten := by
    show transposeW names.length ((relabelInstances labels (miRows X)).map (·.2)) = _
    rw [hl, relabel_vals, miRows_vals, rect_nTime hX hn hc, cols_miRows hX]
  have hzipnd : ((names.zip ((transposeW c X).map List.flatten)).map (·.1)).Nodup := by
    rw [List.map_fst_zip (by simp [hS, hl])]; exact hnd
  unfold fromMIToNested
  simp only [hI, bind, Except.bind, hcols, instIds_relabel hX hn hc ht labels hll hlnd]
  rw [show (miOfL i tm names labels X).names = names from rfl]
  rw [foldl_setCol_map (names.zip ((transposeW c X).map List.flatten)) (fun col =>
    labels.map (fun id => mkCell k
      (((((relabelInstances labels (miRows X)).map (·.1.1)).zip col).filter (fun q => q.1 == id)).map (·.2)))) hzipnd]
  have hfst : ((names.zip ((transposeW c X).map List.flatten)).map (fun p => (p.1,
      labels.map (fun id => mkCell k
        (((((relabelInstances labels (miRows X)).map (·.1.1)).zip p.2).filter (fun q => q.1 == id)).map (·.2)))))).map (·.1)
      = names := by
    rw [List.map_map]
    rw [show ((fun x : ν × List (Cell α) => x.1) ∘ fun p : ν × List α => (p.1,
      labels.map (fun id => mkCell k
        (((((relabelInstances labels (miRows X)).map (·.1.1)).zip p.2).filter (fun q => q.1 == id)).map (·.2))))) = Prod.fst from rfl]
    exact List.map_fst_zip (by simp [hS, hl])
  rw [hfst]
  simp only [ne_eq, not_true_eq_false, if_false, pure, Except.pure]
  congr 2
  rw [rect_nCols hX hn, ← map_transposeW]
  rw [zip_map_snd (fun col => labels.map (fun id => mkCell k
      (((((relabelInstances labels (miRows X)).map (·.1.1)).zip col).filter (fun q => q.1 == id)).map (·.2))))]
  congr 1
  rw [List.map_map]
  apply List.map_congr_left
  intro Sj hSj
  simp only [Function.comp_apply]
  have hSjlen : Sj.length = n := by rw [rowsLen_transposeW c X (rect_rowsLen hX) Sj hSj, hX.1]
  have hSjt : ∀ s ∈ Sj, s.length = t := by
    intro s hs
    obtain ⟨r, hr, hsr⟩ := mem_transposeW c X Sj hSj s hs
    exact (hX.2 r hr).2 s hsr
  rw [relabel_inst hX hn hc labels hll]
  have := map_eq_of_zip (fun id => pick ((labels.map (fun x => List.replicate t x)).flatten) Sj.flatten id)
    labels Sj (by rw [hll, hSjlen]) (pick_blocks t _ Sj (by rw [hll, hSjlen]) hSjt hlnd)
  conv => rhs; rw [← this]
  simp only [List.map_map]
  rfl

/-- `from_nested_to_multi_index` on a frame with row labels `labels` -/
theorem fromNestedToMIIx_ok {n c t : Nat} {X : Arr3 α} (hX : Rect3 n c t X) (hn : 0 < n)
    (hc : 0 < c) (names : List ν) (hl : names.length = c) (k : Bool) (i tm : Option String)
    (labels : List Int) :
    fromNestedToMIIx labels (nestedOf names k X) i tm =
      .ok (miOfL (i.getD "instance") (tm.getD "timepoints") names labels X) := by
  unfold fromNestedToMIIx
  rw [fromNestedToMI_ok hX hn hc names hl k i tm]
  rfl

end SkVerif.Panel.Lem
