/-
Lemmas about `np.roll` / `np.resize` / `_align_seasonal` as modelled in Model/SeriesTransform.lean.
-/
import SkVerif.Model.SeriesTransform
import Mathlib.Tactic.Ring
import Mathlib.Tactic.Linarith
namespace SkVerif.Lem.ST
open SkVerif SkVerif.ST

theorem repeatList_length {α} (k : Nat) (a : List α) : (repeatList k a).length = k * a.length := by
  induction k with
  | zero => simp [repeatList]
  | succ k ih => simp [repeatList, ih, Nat.succ_mul, Nat.add_comm]

theorem repeatList_getElem? {α} (k : Nat) (a : List α) (i : Nat) (h : i < k * a.length) :
    (repeatList k a)[i]? = a[i % a.length]? := by
  induction k generalizing i with
  | zero => simp at h
  | succ k ih =>
    simp only [repeatList]
    by_cases hi : i < a.length
    · rw [List.getElem?_append_left hi, Nat.mod_eq_of_lt hi]
    · have hge : a.length ≤ i := Nat.le_of_not_lt hi
      rw [List.getElem?_append_right hge]
      have hlt : i - a.length < k * a.length := by
        rw [Nat.succ_mul] at h; omega
      rw [ih _ hlt]
      congr 1
      conv_rhs => rw [← Nat.sub_add_cancel hge]
      rw [Nat.add_mod_right]

theorem ceil_mul_ge (m n : Nat) (hn : 0 < n) : m ≤ (m + n - 1) / n * n := by
  have h1 := Nat.div_add_mod (m + n - 1) n
  have h2 := Nat.mod_lt (m + n - 1) hn
  rw [Nat.mul_comm] at h1
  omega

theorem resize_length (a : List Rat) (m : Nat) (ha : a.length ≠ 0) : (resize a m).length = m := by
  unfold resize
  simp only [ha, ↓reduceIte, List.length_take, repeatList_length]
  exact Nat.min_eq_left (ceil_mul_ge m a.length (Nat.pos_of_ne_zero ha))

theorem resize_getElem? (a : List Rat) (m i : Nat) (ha : a.length ≠ 0) (hi : i < m) :
    (resize a m)[i]? = a[i % a.length]? := by
  unfold resize
  simp only [ha, ↓reduceIte]
  rw [List.getElem?_take_of_lt hi]
  apply repeatList_getElem?
  exact Nat.lt_of_lt_of_le hi (ceil_mul_ge m a.length (Nat.pos_of_ne_zero ha))

theorem roll_length (a : List Rat) (s : Nat) : (roll a s).length = a.length := by
  unfold roll
  split
  · rfl
  · rename_i h
    have := Nat.mod_lt s (Nat.pos_of_ne_zero h)
    simp only [List.length_append, List.length_drop, List.length_take]
    omega

/-- `np.roll(a, s)[j] = a[(j - s) mod n]` -/
theorem roll_getElem? (a : List Rat) (s j : Nat) (hj : j < a.length) :
    (roll a s)[j]? = a[(j + a.length - s % a.length) % a.length]? := by
  have hn : a.length ≠ 0 := by omega
  have hs := Nat.mod_lt s (Nat.pos_of_ne_zero hn)
  unfold roll
  simp only [hn, ↓reduceIte]
  generalize s % a.length = k at hs ⊢
  generalize hnn : a.length = n at hj hs hn ⊢
  by_cases h : j < k
  · have hl : j < (a.drop (n - k)).length := by
      rw [List.length_drop, hnn]; omega
    rw [List.getElem?_append_left hl, List.getElem?_drop]
    congr 1
    rw [Nat.mod_eq_of_lt (by omega)]
    omega
  · have hge : (a.drop (n - k)).length ≤ j := by
      rw [List.length_drop, hnn]; omega
    rw [List.getElem?_append_right hge, List.length_drop, hnn]
    have h1 : j - (n - (n - k)) < n - k := by omega
    rw [List.getElem?_take_of_lt h1]
    congr 1
    have e : j + n - k = (j - k) + n := by omega
    rw [e, Nat.add_mod_right, Nat.mod_eq_of_lt (by omega)]
    omega

/-- the index arithmetic behind `_align_seasonal`: rolling by `(-(t - y0)) mod n` and reading
position `i mod n` reads phase `(t + i - y0) mod n` -/
theorem phase_index (n : Nat) (hn : 0 < n) (t y0 : Int) (i : Nat) :
    ((i % n + n - ((-(t - y0)) % (n : Int)).toNat % n) % n : Nat)
      = ((t + (i : Int) - y0) % (n : Int)).toNat := by
  have hN : (0 : Int) < (n : Int) := by exact_mod_cast hn
  have hs0 := Int.emod_nonneg (-(t - y0)) (Int.ne_of_gt hN)
  have hs1 := Int.emod_lt_of_pos (-(t - y0)) hN
  -- s as a natural number below n
  obtain ⟨s, hs⟩ := Int.eq_ofNat_of_zero_le hs0
  have hsn : s < n := by
    have : (s : Int) < (n : Int) := by rw [← hs]; exact hs1
    exact_mod_cast this
  rw [hs, Int.toNat_natCast, Nat.mod_eq_of_lt hsn]
  have hr0 := Int.emod_nonneg (t + (i : Int) - y0) (Int.ne_of_gt hN)
  obtain ⟨r, hr⟩ := Int.eq_ofNat_of_zero_le hr0
  rw [hr, Int.toNat_natCast]
  -- compare as integers
  have key : (((i % n + n - s) % n : Nat) : Int) = (r : Int) := by
    have hle : s ≤ i % n + n := by omega
    rw [← hr]
    push_cast [Nat.cast_sub hle]
    rw [← hs]
    have e : ((i : Int) % (n : Int) + (n : Int) - (-(t - y0)) % (n : Int))
        = (t + (i : Int) - y0) + (n : Int) * (1 - (i : Int) / (n : Int) + (-(t - y0)) / (n : Int)) := by
      rw [Int.emod_def, Int.emod_def]; ring
    rw [e, Int.add_mul_emod_self_left]
  exact_mod_cast key

/-- **what `_align_seasonal` computes**: for a series starting at label `t`, position `i` receives
the seasonal value of phase `(t + i - y0) mod sp`. -/
theorem alignSeasonal_getElem? (sp : Nat) (seas : List Rat) (hlen : seas.length = sp) (hsp : 0 < sp)
    (y0 t : Int) (v : Val) (rest : Series) (i : Nat) (hi : i < rest.length + 1) :
    (alignSeasonal sp seas y0 ((t, v) :: rest))[i]? = seas[((t + (i : Int) - y0) % (sp : Int)).toNat]? := by
  unfold alignSeasonal
  simp only [List.length_cons]
  have hr : (roll seas ((-(t - y0)) % (sp : Int)).toNat).length ≠ 0 := by
    rw [roll_length]; omega
  rw [resize_getElem? _ _ _ hr hi, roll_length]
  have hj : i % seas.length < seas.length := Nat.mod_lt _ (by omega)
  rw [roll_getElem? _ _ _ hj, hlen]
  congr 1
  exact phase_index sp hsp t y0 i

theorem alignSeasonal_length (sp : Nat) (seas : List Rat) (hne : seas.length ≠ 0) (y0 : Int) (z : Series) :
    (alignSeasonal sp seas y0 z).length = z.length := by
  cases z with
  | nil => simp [alignSeasonal]
  | cons p rest =>
    obtain ⟨t, v⟩ := p
    unfold alignSeasonal
    simp only
    apply resize_length
    rw [roll_length]; exact hne

end SkVerif.Lem.ST
