/-
Round-trip and index lemmas for the series-transformer model (Model/SeriesTransform.lean).
-/
import SkVerif.Model.SeriesTransform
import SkVerif.Lemmas.SeriesAlign
import Mathlib.Tactic.Ring
import Mathlib.Tactic.FieldSimp
import Mathlib.Algebra.Order.Field.Rat
namespace SkVerif.Lem.ST
open SkVerif SkVerif.ST

-- element level ------------------------------------------------------------------------------
theorem vadd_vsub (v : Val) (c : Rat) : vadd (vsub v c) c = v := by
  cases v with
  | none => rfl
  | some x => simp [vadd, vsub]

theorem vsub_vadd (v : Val) (c : Rat) : vsub (vadd v c) c = v := by
  cases v with
  | none => rfl
  | some x => simp [vadd, vsub]

theorem vmul_vdiv (v : Val) (c : Rat) (hc : c ≠ 0) : vmul (vdiv v c) c = v := by
  cases v with
  | none => simp [vmul, vdiv, hc]
  | some x => simp [vmul, vdiv, hc]

theorem desOp_roundtrip (mult : Bool) (v : Val) (c : Rat) (hc : mult = true → c ≠ 0) :
    desOp mult true (desOp mult false v c) c = v := by
  cases mult with
  | false => exact vadd_vsub v c
  | true => exact vmul_vdiv v c (hc rfl)

-- desApply -------------------------------------------------------------------------------------
theorem labels_desApply (mult inv : Bool) (z : Series) (s : List Rat) (h : s.length = z.length) :
    labels (desApply mult inv z s) = labels z := by
  induction z generalizing s with
  | nil => simp [desApply, labels]
  | cons p z ih =>
    cases s with
    | nil => simp at h
    | cons c s =>
      simp only [List.length_cons, Nat.add_right_cancel_iff] at h
      have := ih s h
      simp only [desApply, labels, List.zipWith_cons_cons, List.map_cons] at this ⊢
      rw [this]

theorem length_desApply (mult inv : Bool) (z : Series) (s : List Rat) (h : s.length = z.length) :
    (desApply mult inv z s).length = z.length := by
  simp [desApply, h]

theorem desApply_roundtrip (mult : Bool) (z : Series) (s : List Rat) (h : s.length = z.length)
    (hnz : mult = true → ∀ c ∈ s, c ≠ 0) :
    desApply mult true (desApply mult false z s) s = z := by
  induction z generalizing s with
  | nil => simp [desApply]
  | cons p z ih =>
    cases s with
    | nil => simp at h
    | cons c s =>
      simp only [List.length_cons, Nat.add_right_cancel_iff] at h
      have hnz' : mult = true → ∀ c' ∈ s, c' ≠ 0 := fun hm c' hc' => hnz hm c' (List.mem_cons_of_mem _ hc')
      have := ih s h hnz'
      simp only [desApply, List.zipWith_cons_cons] at this ⊢
      rw [this, desOp_roundtrip mult p.2 c (fun hm => hnz hm c (List.mem_cons_self))]

-- membership: the aligned component values are seasonal values ---------------------------------
theorem mem_repeatList {α} (k : Nat) (a : List α) (x : α) (h : x ∈ repeatList k a) : x ∈ a := by
  induction k with
  | zero => simp [repeatList] at h
  | succ k ih =>
    simp only [repeatList, List.mem_append] at h
    rcases h with h | h
    · exact h
    · exact ih h

theorem mem_roll (a : List Rat) (s : Nat) (x : Rat) (h : x ∈ roll a s) : x ∈ a := by
  unfold roll at h
  split at h
  · exact h
  · simp only [List.mem_append] at h
    rcases h with h | h
    · exact List.mem_of_mem_drop h
    · exact List.mem_of_mem_take h

theorem mem_resize (a : List Rat) (m : Nat) (x : Rat) (h : x ∈ resize a m) : x ∈ a := by
  unfold resize at h
  split at h
  · simp at h
  · exact mem_repeatList _ _ _ (List.mem_of_mem_take h)

theorem mem_alignSeasonal (sp : Nat) (seas : List Rat) (y0 : Int) (z : Series) (x : Rat)
    (h : x ∈ alignSeasonal sp seas y0 z) : x ∈ seas := by
  cases z with
  | nil => simp [alignSeasonal] at h
  | cons p rest =>
    obtain ⟨t, v⟩ := p
    unfold alignSeasonal at h
    exact mem_roll _ _ _ (mem_resize _ _ _ h)

/-- `_align_seasonal` looks only at the first label and the length of the series -/
theorem alignSeasonal_congr (sp : Nat) (seas : List Rat) (y0 : Int) (z z' : Series)
    (hl : labels z' = labels z) : alignSeasonal sp seas y0 z' = alignSeasonal sp seas y0 z := by
  have hlen : z'.length = z.length := by
    have := congrArg List.length hl
    simpa [labels] using this
  cases z with
  | nil =>
    cases z' with
    | nil => rfl
    | cons _ _ => simp at hlen
  | cons p rest =>
    cases z' with
    | nil => simp at hlen
    | cons p' rest' =>
      obtain ⟨t, v⟩ := p
      obtain ⟨t', v'⟩ := p'
      simp only [labels, List.map_cons, List.cons.injEq] at hl
      obtain ⟨ht, _⟩ := hl
      subst ht
      unfold alignSeasonal
      simp only [hlen]

-- checkSeries ----------------------------------------------------------------------------------
theorem checkSeries_series (b : Bool) (z : Series) :
    checkSeries b (.series z) =
      if !sortedLE (labels z) then .error .value
      else if z.isEmpty && !b then .error .value else .ok z := rfl

theorem checkSeries_series_ok (b : Bool) (z z' : Series) (h : checkSeries b (.series z) = .ok z') :
    z' = z := by
  rw [checkSeries_series] at h
  split at h
  · simp at h
  · split at h
    · simp at h
    · simpa using h.symm

/-- the validation depends on the labels only -/
theorem checkSeries_labels (b : Bool) (z z' : Series) (hl : labels z' = labels z)
    (h : checkSeries b (.series z) = .ok z) : checkSeries b (.series z') = .ok z' := by
  have hlen : z'.length = z.length := by
    have := congrArg List.length hl
    simpa [labels] using this
  have he : z'.isEmpty = z.isEmpty := by
    cases z <;> cases z' <;> simp_all
  rw [checkSeries_series] at h ⊢
  rw [hl, he]
  split at h
  · simp at h
  · rename_i h1
    split at h
    · simp at h
    · rename_i h2
      simp only [h1, h2]
      simp

theorem zip_labels_map_values (z : Series) (g : Val → Val) :
    (labels z).zip ((values z).map g) = z.map (fun p => (p.1, g p.2)) := by
  induction z with
  | nil => rfl
  | cons p z ih =>
    simp only [labels, values, List.map_cons, List.zip_cons_cons, List.cons.injEq, true_and] at ih ⊢
    exact ih

theorem zip_labels_values (z : Series) : (labels z).zip (values z) = z := by
  induction z with
  | nil => rfl
  | cons p z ih =>
    simp only [labels, values, List.map_cons, List.zip_cons_cons, List.cons.injEq] at ih ⊢
    exact ⟨trivial, ih⟩

theorem labels_zip (l : List Int) (vs : List Val) (h : vs.length = l.length) : labels (l.zip vs) = l := by
  induction l generalizing vs with
  | nil => simp [labels]
  | cons a l ih =>
    cases vs with
    | nil => simp at h
    | cons v vs =>
      simp only [List.length_cons, Nat.add_right_cancel_iff] at h
      have := ih vs h
      simp only [labels, List.zip_cons_cons, List.map_cons] at this ⊢
      rw [this]

theorem values_zip (l : List Int) (vs : List Val) (h : vs.length = l.length) : values (l.zip vs) = vs := by
  induction l generalizing vs with
  | nil => cases vs <;> simp_all [values]
  | cons a l ih =>
    cases vs with
    | nil => simp at h
    | cons v vs =>
      simp only [List.length_cons, Nat.add_right_cancel_iff] at h
      have := ih vs h
      simp only [values, List.zip_cons_cons, List.map_cons] at this ⊢
      rw [this]

-- combine_first keeps the first time point when the new batch does not start earlier ----------
theorem insertObs_head (t : Int) (v : Val) (r : Series) (o : Int × Val) (h : r.head? = some o) (hle : o.1 ≤ t) :
    ∃ o', (insertObs t v r).head? = some o' ∧ o'.1 = o.1 := by
  cases r with
  | nil => simp at h
  | cons p r =>
    simp only [List.head?_cons, Option.some.injEq] at h
    subst h
    obtain ⟨t', v'⟩ := p
    simp only [insertObs]
    have h1 : ¬ t < t' := by simpa using hle
    simp only [h1, ↓reduceIte]
    split
    · exact ⟨_, rfl, rfl⟩
    · exact ⟨_, rfl, rfl⟩

theorem combineFirst_head (new old : Series) (o : Int × Val) (h : old.head? = some o)
    (hle : ∀ p ∈ new, o.1 ≤ p.1) : ∃ o', (combineFirst new old).head? = some o' ∧ o'.1 = o.1 := by
  unfold combineFirst
  induction new generalizing old o with
  | nil => exact ⟨o, h, rfl⟩
  | cons p new ih =>
    simp only [List.foldl_cons]
    obtain ⟨o1, ho1, hl1⟩ := insertObs_head p.1 p.2 old o h (hle p List.mem_cons_self)
    obtain ⟨o2, ho2, hl2⟩ := ih (insertObs p.1 p.2 old) o1 ho1
      (fun q hq => by rw [hl1]; exact hle q (List.mem_cons_of_mem _ hq))
    exact ⟨o2, ho2, by rw [hl2, hl1]⟩

end SkVerif.Lem.ST
