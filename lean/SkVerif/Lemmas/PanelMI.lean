/- C15: 3-D array <-> multi-index transport lemmas. -/
import SkVerif.Lemmas.PanelNested
namespace SkVerif.Panel.Lem
open SkVerif.Panel SkVerif.Panel.Spec

variable {ν α : Type}

theorem flatten_flatten' {β} (L : List (List (List β))) :
    L.flatten.flatten = (L.map List.flatten).flatten := by
  induction L with
  | nil => rfl
  | cons a L ih => simp [List.flatten_append, ih]

/-- `reshape(n, c, t)` of the flattened array is the array -/
theorem reshape3_flatten {n c t : Nat} {X : Arr3 α} (hX : Rect3 n c t X) :
    reshape3 n c t X.flatten.flatten = X := by
  unfold reshape3
  rw [flatten_flatten']
  have h1 : RowsLen (c * t) (X.map List.flatten) := by
    intro r hr
    obtain ⟨inst, hinst, rfl⟩ := List.mem_map.mp hr
    have := hX.2 inst hinst
    rw [length_flatten_of_rowsLen t inst this.2, this.1]
  have h2 := chunks_flatten (c * t) (X.map List.flatten) h1
  rw [List.length_map, hX.1] at h2
  rw [h2, List.map_map]
  conv => rhs; rw [← List.map_id X]
  apply List.map_congr_left
  intro inst hinst
  have := hX.2 inst hinst
  have h3 := chunks_flatten t inst this.2
  rw [this.1] at h3
  simpa using h3

/-- C3: `from_3d_numpy_to_multi_index` builds the multi-index frame holding `X` -/
theorem from3dToMI_ok (ops : NameOps ν) {n c t : Nat} {X : Arr3 α} (hX : Rect3 n c t X)
    (hn : 0 < n) (hc : 0 < c) (i tm : Option String) (names : List ν) (hl : names.length = c) :
    from3dToMI ops X i tm (some names) =
      .ok (miOf (i.getD "instances") (tm.getD "timepoints") names X) := by
  unfold from3dToMI miOf miRows
  simp only [nInst, hX.1, rect_nCols hX hn, rect_nTime hX hn hc, reshape3_flatten hX, hl, if_true,
    bind, Except.bind, pure, Except.pure]

theorem from3dToMI_default_ok (ops : NameOps ν) {n c t : Nat} {X : Arr3 α} (hX : Rect3 n c t X)
    (hn : 0 < n) (hc : 0 < c) (i tm : Option String) :
    from3dToMI ops X i tm none =
      .ok (miOf (i.getD "instances") (tm.getD "timepoints") (defaultNames ops c) X) := by
  unfold from3dToMI miOf miRows
  simp only [nInst, hX.1, rect_nCols hX hn, rect_nTime hX hn hc, reshape3_flatten hX,
    bind, Except.bind, pure, Except.pure]

/-! ### `unique()` of the level values -/

theorem eraseDups_flatMap_replicate {β} [BEq β] [LawfulBEq β] (t : Nat) (ht : 0 < t) (xs : List β)
    (hnd : xs.Nodup) : ((xs.map (fun x => List.replicate t x)).flatten).eraseDups = xs := by
  induction xs with
  | nil => simp
  | cons a xs ih =>
    obtain ⟨t', rfl⟩ : ∃ t', t = t' + 1 := ⟨t - 1, by omega⟩
    have ha : a ∉ xs := (List.nodup_cons.mp hnd).1
    have hr : List.replicate (t' + 1) a = a :: List.replicate t' a := List.replicate_succ
    rw [List.map_cons, List.flatten_cons, hr, List.cons_append]
    rw [List.eraseDups_cons, List.filter_append]
    have h1 : List.filter (fun b => !b == a) (List.replicate t' a) = [] := by
      rw [List.filter_eq_nil_iff]; intro x hx; simp [(List.mem_replicate.mp hx).2]
    have h2 : List.filter (fun b => !b == a) ((xs.map (fun x => List.replicate (t' + 1) x)).flatten)
        = (xs.map (fun x => List.replicate (t' + 1) x)).flatten := by
      rw [List.filter_eq_self]
      intro x hx
      simp only [List.mem_flatten, List.mem_map] at hx
      obtain ⟨l, ⟨y, hy, rfl⟩, hx⟩ := hx
      have := (List.mem_replicate.mp hx).2
      subst this
      simp only [Bool.not_eq_eq_eq_not, Bool.not_true, beq_eq_false_iff_ne, ne_eq]
      intro e; exact ha (e ▸ hy)
    rw [h1, h2, List.nil_append, ih (List.nodup_cons.mp hnd).2]

theorem eraseDups_append_subset {β} [BEq β] [LawfulBEq β] (B rest : List β) (hnd : B.Nodup)
    (hsub : ∀ x ∈ rest, x ∈ B) : (B ++ rest).eraseDups = B := by
  induction B generalizing rest with
  | nil =>
    cases rest with
    | nil => simp
    | cons x r => exact absurd (hsub x (by simp)) (by simp)
  | cons b B ih =>
    have hb : b ∉ B := (List.nodup_cons.mp hnd).1
    rw [List.cons_append, List.eraseDups_cons, List.filter_append]
    have h1 : List.filter (fun x => !x == b) B = B := by
      rw [List.filter_eq_self]; intro x hx
      simp only [Bool.not_eq_eq_eq_not, Bool.not_true, beq_eq_false_iff_ne, ne_eq]
      intro e; exact hb (e ▸ hx)
    rw [h1, ih _ (List.nodup_cons.mp hnd).2]
    intro x hx
    have hx' := List.mem_filter.mp hx
    rcases List.mem_cons.mp (hsub x hx'.1) with e | h
    · simp [e] at hx'
    · exact h

/-! ### the columns of `miRows` -/

theorem zipIdx_map_comp_fst {β γ} (g : β → γ) (l : List β) (k : Nat) :
    (l.zipIdx k).map (fun p => g p.1) = l.map g := by
  induction l generalizing k with
  | nil => rfl
  | cons a l ih => simp [List.zipIdx_cons, ih]

theorem zipIdx_map_comp_snd {β γ} (g : Nat → γ) (l : List β) (k : Nat) :
    (l.zipIdx k).map (fun p => g p.2) = (List.range' k l.length).map g := by
  induction l generalizing k with
  | nil => rfl
  | cons a l ih => simp [List.zipIdx_cons, ih, List.range'_succ]

theorem miRows_vals (X : Arr3 α) :
    (miRows X).map (·.2) = (X.map (transposeW (nTime X))).flatten := by
  unfold miRows
  rw [List.map_flatten, List.map_map]
  congr 1
  rw [← zipIdx_map_comp_fst (fun inst => transposeW (nTime X) inst) X 0]
  apply List.map_congr_left
  intro p _
  simp only [Function.comp_apply, List.map_map]
  exact zipIdx_map_comp_fst id _ 0 |>.trans (List.map_id _)

theorem miRows_inst {n c t : Nat} {X : Arr3 α} (hX : Rect3 n c t X) (hn : 0 < n) (hc : 0 < c) :
    (miRows X).map (·.1.1) = (((List.range n).map (fun i : Nat => (i : Int))).map
      (fun x => List.replicate t x)).flatten := by
  unfold miRows
  rw [List.map_flatten, List.map_map, rect_nTime hX hn hc]
  congr 1
  have h1 : ∀ p ∈ X.zipIdx, ((List.map (fun q : List α × Nat => (((p.2 : Int), (q.2 : Int)), q.1))
      (transposeW t p.1).zipIdx).map (·.1.1)) = List.replicate t (p.2 : Int) := by
    intro p hp
    have hp1 : p.1 ∈ X := by
      have := List.mem_map_of_mem (f := Prod.fst) hp
      rwa [List.zipIdx_map_fst] at this
    have hlen := length_transposeW t p.1 (hX.2 p.1 hp1).2
    rw [List.map_map, List.eq_replicate_iff]
    refine ⟨by simp [hlen], ?_⟩
    intro b hb
    simp only [List.mem_map, Function.comp_apply] at hb
    obtain ⟨q, _, rfl⟩ := hb
    rfl
  rw [List.map_congr_left (g := fun p => List.replicate t (p.2 : Int)) (by
    intro p hp; simpa [Function.comp_def] using h1 p hp)]
  rw [zipIdx_map_comp_snd (fun i => List.replicate t (i : Int)) X 0, hX.1, List.range_eq_range',
    List.map_map]
  rfl

theorem miRows_time {n c t : Nat} {X : Arr3 α} (hX : Rect3 n c t X) (hn : 0 < n) (hc : 0 < c) :
    (miRows X).map (·.1.2) = ((List.range n).map
      (fun _ => (List.range t).map (fun q : Nat => (q : Int)))).flatten := by
  unfold miRows
  rw [List.map_flatten, List.map_map, rect_nTime hX hn hc]
  congr 1
  have h1 : ∀ p ∈ X.zipIdx, ((List.map (fun q : List α × Nat => (((p.2 : Int), (q.2 : Int)), q.1))
      (transposeW t p.1).zipIdx).map (·.1.2)) = (List.range t).map (fun q : Nat => (q : Int)) := by
    intro p hp
    have hp1 : p.1 ∈ X := by
      have := List.mem_map_of_mem (f := Prod.fst) hp
      rwa [List.zipIdx_map_fst] at this
    have hlen := length_transposeW t p.1 (hX.2 p.1 hp1).2
    rw [List.map_map]
    have := zipIdx_map_comp_snd (fun q : Nat => (q : Int)) (transposeW t p.1) 0
    rw [hlen, ← List.range_eq_range'] at this
    exact this
  rw [List.map_congr_left (g := fun _ => (List.range t).map (fun q : Nat => (q : Int))) (by
    intro p hp; simpa [Function.comp_def] using h1 p hp)]
  rw [zipIdx_map_comp_snd (fun _ => (List.range t).map (fun q : Nat => (q : Int))) X 0, hX.1,
    ← List.range_eq_range']

theorem nodup_range_int (n : Nat) : ((List.range n).map (fun i : Nat => (i : Int))).Nodup := by
  unfold List.Nodup
  rw [List.pairwise_map]
  exact (List.nodup_range (n := n)).imp (by intro a b h e; exact h (Int.ofNat.inj e))

/-- `unique()` of the instance level of the canonical frame = `0 … n-1` -/
theorem instIds_miRows {n c t : Nat} {X : Arr3 α} (hX : Rect3 n c t X) (hn : 0 < n) (hc : 0 < c)
    (ht : 0 < t) : ((miRows X).map (·.1.1)).eraseDups = (List.range n).map (fun i : Nat => (i : Int)) := by
  rw [miRows_inst hX hn hc, eraseDups_flatMap_replicate t ht _ (nodup_range_int n)]

theorem timeIds_miRows {n c t : Nat} {X : Arr3 α} (hX : Rect3 n c t X) (hn : 0 < n) (hc : 0 < c) :
    ((miRows X).map (·.1.2)).eraseDups = (List.range t).map (fun i : Nat => (i : Int)) := by
  rw [miRows_time hX hn hc]
  obtain ⟨n', rfl⟩ : ∃ n', n = n' + 1 := ⟨n - 1, by omega⟩
  rw [List.range_succ_eq_map, List.map_cons, List.flatten_cons]
  apply eraseDups_append_subset _ _ (nodup_range_int t)
  intro x hx
  simp only [List.map_map, List.mem_flatten, List.mem_map] at hx
  obtain ⟨l, ⟨_, _, rfl⟩, hx⟩ := hx
  exact hx

/-! ### C4 -/

theorem rect_swap {n c t : Nat} {X : Arr3 α} (hX : Rect3 n c t X) :
    Rect3 n t c (X.map (transposeW t)) := by
  refine ⟨by simp [hX.1], ?_⟩
  intro r hr
  obtain ⟨inst, hinst, rfl⟩ := List.mem_map.mp hr
  have h := hX.2 inst hinst
  refine ⟨length_transposeW t inst h.2, ?_⟩
  intro s hs
  rw [rowsLen_transposeW t inst h.2 s hs, h.1]

theorem length_flatten_flatten_rect {n c t : Nat} {X : Arr3 α} (hX : Rect3 n c t X) :
    X.flatten.flatten.length = n * c * t := by
  rw [flatten_flatten']
  have h1 : RowsLen (c * t) (X.map List.flatten) := by
    intro r hr
    obtain ⟨inst, hinst, rfl⟩ := List.mem_map.mp hr
    have := hX.2 inst hinst
    rw [length_flatten_of_rowsLen t inst this.2, this.1]
  rw [length_flatten_of_rowsLen _ _ h1, List.length_map, hX.1, Nat.mul_assoc]

theorem swap_swap {n c t : Nat} {X : Arr3 α} (hX : Rect3 n c t X) :
    swap12 c (X.map (transposeW t)) = X := by
  unfold swap12
  rw [List.map_map]
  conv => rhs; rw [← List.map_id X]
  apply List.map_congr_left
  intro inst hinst
  have h := hX.2 inst hinst
  have := transposeW_transposeW t inst h.2
  rw [h.1] at this
  simpa using this

end SkVerif.Panel.Lem
