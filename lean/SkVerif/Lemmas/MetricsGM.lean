/- Geometric-mean metrics: the machine-epsilon floor at a perfect forecast, textbook form without weights. -/
import SkVerif.Lemmas.MetricsLaws
namespace SkVerif.Lem.Metrics
open SkVerif SkVerif.Metrics

/-- a matrix as numpy has it: every column has the same number of rows -/
def Rect (m : Mat) : Prop := ∀ c ∈ m, c.length = nrows m

theorem relCol_length (eps : Rat) : ∀ (t p b : Col), (relCol eps t p b).length = min t.length (min p.length b.length) := by
  intro t
  induction t with
  | nil => intro p b; simp [relCol]
  | cons t ts ih =>
    intro p b
    cases p with
    | nil => simp [relCol]
    | cons p ps =>
      cases b with
      | nil => simp [relCol]
      | cons b bs => simp only [relCol, List.length_cons, ih]; omega

theorem relCols_self_mem {eps : Rat} {P : Rat → Prop} {f : Col → Rat} :
    ∀ (yt yb : Mat), (∀ t ∈ yt, ∀ b ∈ yb, P (f (relCol eps t t b))) → ∀ q ∈ relCols eps f yt yt yb, P q := by
  intro yt
  induction yt with
  | nil => intro yb _ q hq; simp [relCols] at hq
  | cons t ts ih =>
    intro yb h q hq
    cases yb with
    | nil => simp [relCols] at hq
    | cons b bs =>
      simp only [relCols, List.mem_cons] at hq
      rcases hq with rfl | hq
      · exact h t (by simp) b (by simp)
      · exact ih bs (fun t' ht b' hb => h t' (by simp [ht]) b' (by simp [hb])) q hq

theorem prod_zipWith_pow_const (e : Rat) : ∀ (xs : List Rat) (as : List Nat), (∀ x ∈ xs, x = e) →
    as.length ≤ xs.length → prod (List.zipWith (fun x a => x ^ a) xs as) = e ^ as.sum := by
  intro xs
  induction xs with
  | nil =>
    intro as _ hl
    have : as = [] := List.length_eq_zero_iff.mp (by simpa using hl)
    subst this; simp [prod]
  | cons x xs ih =>
    intro as h hl
    cases as with
    | nil => simp [prod]
    | cons a as =>
      have := ih as (fun y hy => h y (by simp [hy])) (by simpa using hl)
      simp only [List.zipWith_cons_cons, prod, List.foldr_cons, List.sum_cons] at *
      rw [this, h x (by simp), pow_add]

theorem checkHw_some {n : Nat} {w : List Rat} (h : checkHw n (some w) = .ok ()) : w.length = n := by
  simpa [checkHw, guard'_ok] using h

/-- all factors equal to `e`: the radicand is `e ^ degree` (degree = n, or the sum of the integer exponents) -/
theorem gmFactor_const (e : Rat) (hw : Option (List Rat)) (xs : List Rat) (h : ∀ x ∈ xs, x = e)
    (hlen : checkHw xs.length hw = .ok ()) : gmFactor hw xs = e ^ gmDeg xs.length hw := by
  cases hw with
  | none => exact prod_const e xs h
  | some w =>
    simp only [gmFactor, gmDeg]
    apply prod_zipWith_pow_const e xs _ h
    simp [exps, checkHw_some hlen]

theorem gmProds_perfect {eps : Rat} {g : Rat → Rat} (hg : g 0 = 0) {yt yb : Mat} {hw : Option (List Rat)}
    (hRt : Rect yt) (hRb : Rect yb) (hn : nrows yt = nrows yb) (hh : checkHw (nrows yt) hw = .ok ()) :
    ∀ q ∈ relCols eps (fun re => gmFactor hw (re.map (fun e => floorEps eps (g e)))) yt yt yb,
      q = eps ^ gmDeg (nrows yt) hw := by
  apply relCols_self_mem
  intro t ht b hb
  have hlen : (relCol eps t t b).length = nrows yt := by
    rw [relCol_length, hRt t ht, hRb b hb, ← hn]; simp
  have hall : ∀ x ∈ (relCol eps t t b).map (fun e => floorEps eps (g e)), x = eps := by
    intro x hx
    obtain ⟨y, hy, rfl⟩ := List.mem_map.mp hx
    rw [relCol_perfect eps t b y hy, hg, floorEps_zero]
  have hl2 : ((relCol eps t t b).map (fun e => floorEps eps (g e))).length = nrows yt := by
    rw [List.length_map, hlen]
  rw [gmFactor_const eps hw _ hall (by rw [hl2]; exact hh), hl2]

section
variable {eps : Rat} {yt yb : Mat} {hw : Option (List Rat)} {mo : MO} {out : Out} {sqrt : Bool}

theorem gmrae_perfect_floor (hRt : Rect yt) (hRb : Rect yb)
    (h : geometricMeanRelativeAbsoluteError eps yt yt yb hw mo = .ok out) :
    out.deg = gmDeg (nrows yt) hw ∧ ∀ q ∈ out.qs, q = eps ^ gmDeg (nrows yt) hw := by
  obtain ⟨_, hc, hh, _, _, h2⟩ := gmrae_iff.mp h
  have := finish_ok h2
  refine ⟨this.2, ?_⟩
  rw [this.1]
  exact gmProds_perfect absR_zero hRt hRb (checkRegTargets_ok hc).1 hh

theorem gmrse_perfect_floor (hRt : Rect yt) (hRb : Rect yb)
    (h : geometricMeanRelativeSquaredError eps yt yt yb hw mo sqrt = .ok out) :
    out.deg = rootDeg sqrt (gmDeg (nrows yt) hw) ∧ ∀ q ∈ out.qs, q = eps ^ gmDeg (nrows yt) hw := by
  obtain ⟨_, hc, hh, _, _, h2⟩ := gmrse_iff.mp h
  have := finish_ok h2
  refine ⟨this.2, ?_⟩
  rw [this.1]
  exact gmProds_perfect sqr_zero hRt hRb (checkRegTargets_ok hc).1 hh
end

/-! ### the integer exponents of the weighted geometric mean -/
theorem den_dvd_commonDen : ∀ (ws : List Rat) (x : Rat), x ∈ ws → x.den ∣ commonDen ws := by
  intro ws
  induction ws with
  | nil => intro x hx; simp at hx
  | cons w ws ih =>
    intro x hx
    simp only [commonDen, List.foldr_cons]
    rcases List.mem_cons.mp hx with rfl | hx
    · exact Nat.dvd_lcm_left _ _
    · exact Nat.dvd_trans (ih x hx) (Nat.dvd_lcm_right _ _)

theorem toNat_num_mul (x : Rat) (D : Nat) (hx : 0 ≤ x) (hd : x.den ∣ D) :
    (((x * (D : Rat)).num.toNat : Nat) : Rat) = x * (D : Rat) := by
  obtain ⟨m, rfl⟩ := hd
  have hden : (x.den : Rat) ≠ 0 := by exact_mod_cast x.den_nz
  have e : x * ((x.den * m : Nat) : Rat) = ((x.num * (m : Int) : Int) : Rat) := by
    have hx' : x = (x.num : Rat) / (x.den : Rat) := (Rat.num_div_den x).symm
    push_cast
    nth_rewrite 1 [hx']
    field_simp
  rw [e, Rat.num_intCast]
  have hn : 0 ≤ x.num * (m : Int) := mul_nonneg (Rat.num_nonneg.mpr hx) (by exact_mod_cast Nat.zero_le m)
  have : ((x.num * (m : Int)).toNat : Int) = x.num * (m : Int) := Int.toNat_of_nonneg hn
  exact_mod_cast congrArg (fun z : Int => (z : Rat)) this

/-- the integer exponents are the weights times their common denominator -/
theorem exps_proportional (ws : List Rat) (hw : ∀ x ∈ ws, 0 ≤ x) :
    (exps ws).map (Nat.cast : Nat → Rat) = ws.map (fun x => x * (commonDen ws : Rat)) := by
  unfold exps
  rw [List.map_map]
  apply List.map_congr_left
  intro x hx
  exact toNat_num_mul x _ (hw x hx) (den_dvd_commonDen ws x hx)

end SkVerif.Lem.Metrics
