/- Geometric-mean metrics: the machine-epsilon floor at a perfect forecast, textbook form without weights. -/
import SkVerif.Lemmas.MetricsLaws
namespace SkVerif.Lem.Metrics
open SkVerif SkVerif.Metrics

/-- a matrix as numpy has it: every column has the same number of rows -/
def Rect (m : Mat) : Prop := ∀ c ∈ m, c.length = nrows m

theorem relCol_length (eps : Rat) : ∀ (t p b : Col), (relCol eps t p b).length = min t.length (min p.length b.length) := by
  intro t
  induction t with
  | nil => intro p b; simp [relCol]
  | cons t ts ih =>
    intro p b
    cases p with
    | nil => simp [relCol]
    | cons p ps =>
      cases b with
      | nil => simp [relCol]
      | cons b bs => simp only [relCol, List.length_cons, ih]; omega

theorem relCols_self_mem {eps : Rat} {P : Rat → Prop} {f : Col → Rat} :
    ∀ (yt yb : Mat), (∀ t ∈ yt, ∀ b ∈ yb, P (f (relCol eps t t b))) → ∀ q ∈ relCols eps f yt yt yb, P q := by
  intro yt
  induction yt with
  | nil => intro yb _ q hq; simp [relCols] at hq
  | cons t ts ih =>
    intro yb h q hq
    cases yb with
    | nil => simp [relCols] at hq
    | cons b bs =>
      simp only [relCols, List.mem_cons] at hq
      rcases hq with rfl | hq
      · exact h t (by simp) b (by simp)
      · exact ih bs (fun t' ht b' hb => h t' (by simp [ht]) b' (by simp [hb])) q hq

theorem gmProds_perfect {eps : Rat} {g : Rat → Rat} (hg : g 0 = 0) {yt yb : Mat} (hRt : Rect yt) (hRb : Rect yb)
    (hn : nrows yt = nrows yb) :
    ∀ q ∈ relCols eps (fun re => prod (re.map (fun e => floorEps eps (g e)))) yt yt yb, q = eps ^ nrows yt := by
  apply relCols_self_mem
  intro t ht b hb
  have hlen : (relCol eps t t b).length = nrows yt := by
    rw [relCol_length, hRt t ht, hRb b hb, ← hn]; simp
  have hall : ∀ x ∈ (relCol eps t t b).map (fun e => floorEps eps (g e)), x = eps := by
    intro x hx
    obtain ⟨y, hy, rfl⟩ := List.mem_map.mp hx
    rw [relCol_perfect eps t b y hy, hg, floorEps_zero]
  rw [prod_const eps _ hall, List.length_map, hlen]

section
variable {eps : Rat} {yt yb : Mat} {mo : MO} {out : Out} {sqrt : Bool}

theorem gmrae_perfect_floor (hRt : Rect yt) (hRb : Rect yb)
    (h : geometricMeanRelativeAbsoluteError eps yt yt yb none mo = .ok out) :
    out.deg = nrows yt ∧ ∀ q ∈ out.qs, q = eps ^ nrows yt := by
  obtain ⟨_, hc, _, kq, h1, h2⟩ := gmrae_iff.mp h
  rw [gmCols_none] at h1
  cases h1
  have := finish_ok h2
  refine ⟨this.2, ?_⟩
  rw [this.1]
  exact gmProds_perfect absR_zero hRt hRb (checkRegTargets_ok hc).1

theorem gmrse_perfect_floor (hRt : Rect yt) (hRb : Rect yb)
    (h : geometricMeanRelativeSquaredError eps yt yt yb none mo sqrt = .ok out) :
    out.deg = rootDeg sqrt (nrows yt) ∧ ∀ q ∈ out.qs, q = eps ^ nrows yt := by
  obtain ⟨_, hc, _, kq, h1, h2⟩ := gmrse_iff.mp h
  rw [gmCols_none] at h1
  cases h1
  have := finish_ok h2
  refine ⟨this.2, ?_⟩
  rw [this.1]
  exact gmProds_perfect sqr_zero hRt hRb (checkRegTargets_ok hc).1
end

end SkVerif.Lem.Metrics
