/-
On a 0-based integer index the label lookups of `_hampel_filter` coincide with positional reads;
the positional filter commutes with shifting the index.
-/
import SkVerif.Model.SeriesTransform
import SkVerif.Spec.HampelPos
import SkVerif.Lemmas.SeriesShift
namespace SkVerif.Lem.ST
open SkVerif SkVerif.ST

/-- labels `s, s+1, …` -/
def BasedAt (s : Nat) (z : Series) : Prop := ∀ i (h : i < z.length), (z[i]).1 = ((s + i : Nat) : Int)

theorem basedAt_tail (s : Nat) (p : Int × Val) (z : Series) (h : BasedAt s (p :: z)) : BasedAt (s + 1) z := by
  intro i hi
  have := h (i + 1) (by simp only [List.length_cons]; omega)
  simp only [List.getElem_cons_succ] at this
  rw [this]
  congr 1
  omega

theorem filter_label (s : Nat) (z : Series) (h : BasedAt s z) (k : Nat) :
    z.filter (fun p => decide (p.1 = (k : Int)))
      = if hk : s ≤ k ∧ k - s < z.length then [z[k - s]'hk.2] else [] := by
  induction z generalizing s with
  | nil => simp
  | cons p z ih =>
    have hp : p.1 = (s : Int) := by
      have := h 0 (by simp)
      simpa using this
    have ih' := ih (s + 1) (basedAt_tail s p z h)
    simp only [List.filter_cons, hp]
    by_cases hks : k = s
    · subst hks
      simp only [decide_true, ↓reduceIte, ih', Nat.le_refl, Nat.sub_self, List.length_cons,
        Nat.zero_lt_succ, and_self, ↓reduceDIte, List.getElem_cons_zero, List.cons.injEq, true_and]
      simp
    · have hne : ¬ ((s : Int) = (k : Int)) := by omega
      simp only [hne, decide_false, Bool.false_eq_true, ↓reduceIte, ih', List.length_cons]
      by_cases hk : s ≤ k ∧ k - s < z.length + 1
      · have hk' : s + 1 ≤ k ∧ k - (s + 1) < z.length := by omega
        simp only [hk, hk', and_self, ↓reduceDIte, List.cons.injEq, and_true]
        have e : k - s = (k - (s + 1)) + 1 := by omega
        simp only [e, List.getElem_cons_succ]
      · have hk' : ¬ (s + 1 ≤ k ∧ k - (s + 1) < z.length) := by omega
        simp [hk, hk']

theorem filter_label_zero (z : Series) (h : BasedAt 0 z) (k : Nat) (hk : k < z.length) :
    z.filter (fun p => decide (p.1 = (k : Int))) = [z[k]] := by
  rw [filter_label 0 z h k, dif_pos ⟨Nat.zero_le _, by simpa using hk⟩]
  simp

theorem lookupLabels_zero_based (z : Series) (h : BasedAt 0 z) (ks : List Nat) (hks : ∀ k ∈ ks, k < z.length) :
    lookupLabels z (ks.map (fun (k : Nat) => ((k : Nat) : Int))) = .ok (ks.map (fun k => (z[k]?).bind (·.2))) := by
  induction ks with
  | nil => rfl
  | cons k ks ih =>
    have hk := hks k List.mem_cons_self
    have ih' := ih (fun k' hk' => hks k' (List.mem_cons_of_mem _ hk'))
    simp only [List.map_cons, lookupLabels]
    rw [filter_label_zero z h k hk]
    simp only [ih', Except.map, List.map_cons, List.map_nil, List.singleton_append,
      List.getElem?_eq_getElem hk, Option.bind_some]

theorem windowVals_eq (z : Series) (a w : Nat) (haw : a + w ≤ z.length) :
    windowVals z a w = (List.range w).map (fun i => (z[a + i]?).bind (·.2)) := by
  unfold windowVals
  apply List.ext_getElem?
  intro i
  by_cases hi : i < w
  · simp only [List.getElem?_map, List.getElem?_take, hi, ↓reduceIte, List.getElem?_drop,
      List.getElem?_range hi, Option.map_some]
    have : a + i < z.length := by omega
    simp [List.getElem?_eq_getElem this]
  · rw [List.getElem?_eq_none (by simp; omega), List.getElem?_eq_none (by simp; omega)]

theorem lookup_window (z : Series) (h : BasedAt 0 z) (a w : Nat) (haw : a + w ≤ z.length) :
    lookupLabels z ((List.range w).map (fun i => ((a + i : Nat) : Int))) = .ok (windowVals z a w) := by
  have := lookupLabels_zero_based z h ((List.range w).map (fun i => a + i))
    (by intro k hk; simp only [List.mem_map, List.mem_range] at hk; obtain ⟨i, hi, rfl⟩ := hk; omega)
  simp only [List.map_map, Function.comp_def] at this
  rw [this, windowVals_eq z a w haw]

-- the loop body keeps labels and length -------------------------------------------------------
theorem setPos_length (z : Series) (j : Nat) (v : Val) : (setPos z j v).length = z.length := by
  induction z generalizing j with
  | nil => rfl
  | cons p z ih => cases j <;> simp [setPos, ih]

theorem setPos_labels (z : Series) (j : Nat) (v : Val) : labels (setPos z j v) = labels z := by
  induction z generalizing j with
  | nil => rfl
  | cons p z ih =>
    cases j with
    | zero => simp [setPos, labels]
    | succ j =>
      have := ih j
      simp only [labels, setPos, List.map_cons] at this ⊢
      rw [this]

theorem hampelBody_labels (cfg : HampelCfg) (z : Series) (a : Nat) (vs : List Val) :
    labels (hampelBody cfg z a vs) = labels z := by
  unfold hampelBody
  generalize hampelTargets z.length cfg.w a = ts
  induction ts generalizing z with
  | nil => rfl
  | cons t ts ih =>
    simp only [List.foldl_cons]
    rw [ih, setPos_labels]

theorem basedAt_of_labels (s : Nat) (z z' : Series) (hl : labels z' = labels z) (h : BasedAt s z) : BasedAt s z' := by
  intro i hi
  have hlen : z'.length = z.length := by
    have := congrArg List.length hl; simpa [labels] using this
  have hi' : i < z.length := by omega
  have := h i hi'
  have e : (z'[i]).1 = (z[i]).1 := by
    have h1 : (labels z')[i]? = (labels z)[i]? := by rw [hl]
    simp only [labels, List.getElem?_map, List.getElem?_eq_getElem hi, List.getElem?_eq_getElem hi',
      Option.map_some, Option.some.injEq] at h1
    exact h1
  rw [e, this]

/-- **on a 0-based index the code's label lookups are positional**: `_hampel_filter` computes exactly
the positional filter `hampelPos`. -/
theorem hampel_eq_hampelPos (cfg : HampelCfg) (z : Series) (h : BasedAt 0 z) :
    hampel cfg z = hampelPos cfg z := by
  unfold hampel hampelPos
  split
  · rfl
  · split
    · rfl
    · rename_i hw hn
      have key : ∀ (as : List Nat) (cur : Series), BasedAt 0 cur → cur.length = z.length →
          (∀ a ∈ as, a + cfg.w ≤ z.length) →
          as.foldl (fun (acc : Except Err Series) a => match acc with
            | Except.error e => Except.error e
            | Except.ok cur => hampelWindow cfg cur a) (Except.ok cur)
          = Except.ok (as.foldl (fun cur a => hampelWindowPos cfg cur a) cur) := by
        intro as
        induction as with
        | nil => intro cur _ _ _; rfl
        | cons a as ih =>
          intro cur hb hlen has
          simp only [List.foldl_cons]
          have ha := has a List.mem_cons_self
          have hstep : hampelWindow cfg cur a = .ok (hampelWindowPos cfg cur a) := by
            unfold hampelWindow hampelWindowPos
            rw [lookup_window cur hb a cfg.w (by omega)]
          rw [hstep]
          have hl := hampelBody_labels cfg cur a (windowVals cur a cfg.w)
          apply ih
          · exact basedAt_of_labels 0 cur _ hl hb
          · have := congrArg List.length hl
            simp only [labels, List.length_map] at this
            unfold hampelWindowPos; omega
          · exact fun a' ha' => has a' (List.mem_cons_of_mem _ ha')
      apply key _ z h rfl
      intro a ha
      simp only [List.mem_range] at ha
      omega

-- the positional filter commutes with shifting the index --------------------------------------
theorem setPos_shift (c : Int) (z : Series) (j : Nat) (v : Val) :
    setPos (shiftSeries c z) j v = shiftSeries c (setPos z j v) := by
  induction z generalizing j with
  | nil => rfl
  | cons p z ih =>
    cases j with
    | zero => simp [setPos, shiftSeries]
    | succ j =>
      have := ih j
      simp only [shiftSeries, setPos, List.map_cons] at this ⊢
      rw [this]

theorem getVal_shift (c : Int) (z : Series) (j : Nat) :
    ((shiftSeries c z)[j]?).bind (·.2) = (z[j]?).bind (·.2) := by
  simp only [shiftSeries, List.getElem?_map]
  cases z[j]? <;> rfl

theorem hampelBody_shift (cfg : HampelCfg) (c : Int) (z : Series) (a : Nat) (vs : List Val) :
    hampelBody cfg (shiftSeries c z) a vs = shiftSeries c (hampelBody cfg z a vs) := by
  unfold hampelBody
  rw [length_shift]
  generalize hampelTargets z.length cfg.w a = ts
  induction ts generalizing z with
  | nil => rfl
  | cons t ts ih =>
    simp only [List.foldl_cons]
    rw [getVal_shift, setPos_shift, ih]

theorem windowVals_shift (c : Int) (z : Series) (a w : Nat) : windowVals (shiftSeries c z) a w = windowVals z a w := by
  unfold windowVals shiftSeries
  rw [← List.map_drop, ← List.map_take, List.map_map]
  rfl

theorem foldl_hampelWindowPos_shift (cfg : HampelCfg) (c : Int) (as : List Nat) (z : Series) :
    as.foldl (fun cur a => hampelWindowPos cfg cur a) (shiftSeries c z)
      = shiftSeries c (as.foldl (fun cur a => hampelWindowPos cfg cur a) z) := by
  induction as generalizing z with
  | nil => rfl
  | cons a as ih =>
    simp only [List.foldl_cons]
    have : hampelWindowPos cfg (shiftSeries c z) a = shiftSeries c (hampelWindowPos cfg z a) := by
      unfold hampelWindowPos
      rw [windowVals_shift, hampelBody_shift]
    rw [this, ih]

/-- the positional Hampel filter is shift-equivariant (for every origin, every constant) -/
theorem hampelPos_shift (cfg : HampelCfg) (c : Int) (z : Series) :
    hampelPos cfg (shiftSeries c z) = (hampelPos cfg z).map (shiftSeries c) := by
  unfold hampelPos
  rw [length_shift]
  split
  · rfl
  · split
    · rfl
    · simp only [Except.map]
      congr 1
      exact foldl_hampelWindowPos_shift cfg c _ z

end SkVerif.Lem.ST
