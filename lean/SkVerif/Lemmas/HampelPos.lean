/-
The Hampel filter of the model (positional windows, repo commit bc08df8) commutes with shifting
the index; its loop keeps labels and length.
-/
import SkVerif.Model.SeriesTransform
import SkVerif.Lemmas.SeriesShift
namespace SkVerif.Lem.ST
open SkVerif SkVerif.ST

theorem setPos_length (z : Series) (j : Nat) (v : Val) : (setPos z j v).length = z.length := by
  induction z generalizing j with
  | nil => rfl
  | cons p z ih => cases j <;> simp [setPos, ih]

theorem setPos_labels (z : Series) (j : Nat) (v : Val) : labels (setPos z j v) = labels z := by
  induction z generalizing j with
  | nil => rfl
  | cons p z ih =>
    cases j with
    | zero => simp [setPos, labels]
    | succ j =>
      have := ih j
      simp only [labels, setPos, List.map_cons] at this ⊢
      rw [this]

theorem hampelBody_labels (cfg : HampelCfg) (z : Series) (a : Nat) (vs : List Val) :
    labels (hampelBody cfg z a vs) = labels z := by
  unfold hampelBody
  generalize hampelTargets z.length cfg.w a = ts
  induction ts generalizing z with
  | nil => rfl
  | cons t ts ih =>
    simp only [List.foldl_cons]
    rw [ih, setPos_labels]

theorem foldl_hampelWindow_labels (cfg : HampelCfg) (as : List Nat) (z : Series) :
    labels (as.foldl (fun cur a => hampelWindow cfg cur a) z) = labels z := by
  induction as generalizing z with
  | nil => rfl
  | cons a as ih =>
    simp only [List.foldl_cons]
    rw [ih]
    exact hampelBody_labels cfg z a _

/-- the filter returns exactly the input's index -/
theorem hampel_labels (cfg : HampelCfg) (z out : Series) (h : hampel cfg z = .ok out) : labels out = labels z := by
  unfold hampel at h
  split at h
  · simp at h
  · split at h
    · simp at h
    · simp only [Except.ok.injEq] at h
      rw [← h]
      exact foldl_hampelWindow_labels cfg _ z

-- the positional filter commutes with shifting the index --------------------------------------
theorem setPos_shift (c : Int) (z : Series) (j : Nat) (v : Val) :
    setPos (shiftSeries c z) j v = shiftSeries c (setPos z j v) := by
  induction z generalizing j with
  | nil => rfl
  | cons p z ih =>
    cases j with
    | zero => simp [setPos, shiftSeries]
    | succ j =>
      have := ih j
      simp only [shiftSeries, setPos, List.map_cons] at this ⊢
      rw [this]

theorem getVal_shift (c : Int) (z : Series) (j : Nat) :
    ((shiftSeries c z)[j]?).bind (·.2) = (z[j]?).bind (·.2) := by
  simp only [shiftSeries, List.getElem?_map]
  cases z[j]? <;> rfl

theorem hampelBody_shift (cfg : HampelCfg) (c : Int) (z : Series) (a : Nat) (vs : List Val) :
    hampelBody cfg (shiftSeries c z) a vs = shiftSeries c (hampelBody cfg z a vs) := by
  unfold hampelBody
  rw [length_shift]
  generalize hampelTargets z.length cfg.w a = ts
  induction ts generalizing z with
  | nil => rfl
  | cons t ts ih =>
    simp only [List.foldl_cons]
    rw [getVal_shift, setPos_shift, ih]

theorem windowVals_shift (c : Int) (z : Series) (a w : Nat) : windowVals (shiftSeries c z) a w = windowVals z a w := by
  unfold windowVals shiftSeries
  rw [← List.map_drop, ← List.map_take, List.map_map]
  rfl

theorem foldl_hampelWindow_shift (cfg : HampelCfg) (c : Int) (as : List Nat) (z : Series) :
    as.foldl (fun cur a => hampelWindow cfg cur a) (shiftSeries c z)
      = shiftSeries c (as.foldl (fun cur a => hampelWindow cfg cur a) z) := by
  induction as generalizing z with
  | nil => rfl
  | cons a as ih =>
    simp only [List.foldl_cons]
    have : hampelWindow cfg (shiftSeries c z) a = shiftSeries c (hampelWindow cfg z a) := by
      unfold hampelWindow
      rw [windowVals_shift, hampelBody_shift]
    rw [this, ih]

/-- the positional Hampel filter is shift-equivariant (for every origin, every constant) -/
theorem hampel_shift (cfg : HampelCfg) (c : Int) (z : Series) :
    hampel cfg (shiftSeries c z) = (hampel cfg z).map (shiftSeries c) := by
  unfold hampel
  rw [length_shift]
  split
  · rfl
  · split
    · rfl
    · simp only [Except.map]
      congr 1
      exact foldl_hampelWindow_shift cfg c _ z

-- `return_bool`: the flags stay on the time points of the filtered series ---------------------------

theorem hampelFlags_labels (z : Series) : labels (hampelFlags z) = labels z := by
  simp [labels, hampelFlags, List.map_map, Function.comp_def]

theorem hampelFlags_shift (c : Int) (z : Series) :
    hampelFlags (shiftSeries c z) = shiftSeries c (hampelFlags z) := by
  simp [hampelFlags, shiftSeries, List.map_map, Function.comp_def]

/-- the filter with either value of `return_bool` returns exactly the input's labels -/
theorem hampelOut_labels (p : HampelPar) (z out : Series) (h : hampelOut p z = .ok out) :
    labels out = labels z := by
  unfold hampelOut at h
  cases hr : hampel p.cfg z with
  | error e => rw [hr] at h; cases h
  | ok r =>
    rw [hr] at h
    have hl := hampel_labels p.cfg z r hr
    injection h with h
    subst h
    split
    · rw [hampelFlags_labels, hl]
    · exact hl

/-- the filter with either value of `return_bool` is shift-equivariant -/
theorem hampelOut_shift (p : HampelPar) (c : Int) (z : Series) :
    hampelOut p (shiftSeries c z) = (hampelOut p z).map (shiftSeries c) := by
  unfold hampelOut
  rw [hampel_shift]
  cases hampel p.cfg z with
  | error e => rfl
  | ok r =>
    simp only [Except.map]
    split
    · rw [hampelFlags_shift]
    · rfl

end SkVerif.Lem.ST
