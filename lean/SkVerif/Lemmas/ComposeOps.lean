/-
C09 helper lemmas: what one successful call of a composite did (destructuring of the model's
`do` blocks).  Used by Props/C09.lean and by the history inductions in Lemmas/ComposeRun.lean.
-/
import SkVerif.Lemmas.Compose
namespace SkVerif.Compose.Lem
open SkVerif
open W (bind_eq_ok pure_eq_ok lift_bind_eq_ok lift_eq_ok tell_bind_eq_ok fail_bind run_bind)

/-! ### EnsembleForecaster -/

/-- `fit`, from ANY earlier state: every member is a fresh clone (started from its `init`) fitted on
exactly the series and horizon handed to the ensemble; nothing else reaches a member. -/
theorem ensemble_fit_members_fresh (agg : Option Agg) (names : List String) (Fs : List Forecaster)
    (st0 : (ensemble agg names Fs).S) (y : Series) (fh : Option Horizon)
    (b : Base) (st : Option (States Fs)) (log : Log)
    (h : ((ensemble agg names Fs).fit st0 y fh).run = .ok ((b, st), log)) :
    ∃ ss, st = some ss ∧ (fitAll Fs y fh).run = .ok (ss, log) ∧ b.fh = effFh st0.1.fh fh ∧
      ∀ i, i < Fs.length →
        ∃ l, ((member Fs i).fit (member Fs i).init y fh).run = .ok (ss.get Fs i, l) := by
  obtain ⟨b0, s0⟩ := st0
  simp only [ensemble] at h
  obtain ⟨b1, hb1, h⟩ := lift_bind_eq_ok.mp h
  obtain ⟨b2, hb2, h⟩ := lift_bind_eq_ok.mp h
  obtain ⟨_, _, h⟩ := lift_bind_eq_ok.mp h
  obtain ⟨ss, l1, l2, h1, h2, rfl⟩ := bind_eq_ok.mp h
  obtain ⟨heq, rfl⟩ := pure_eq_ok.mp h2
  simp only [Prod.mk.injEq] at heq
  obtain ⟨rfl, rfl⟩ := heq
  have h1' : (fitAll Fs y fh).run = .ok (ss, l1 ++ []) := by simpa using h1
  refine ⟨ss, rfl, h1', ?_, fitAll_get Fs y fh ss _ h1'⟩
  obtain ⟨rfl, _⟩ := Base.setYX_ok hb1
  obtain ⟨rfl, _⟩ := Base.setFhOpt_ok hb2
  rfl

/-- `update`: every member is updated, on its own, with exactly the batch and flag handed to the ensemble -/
theorem ensemble_update_members (agg : Option Agg) (names : List String) (Fs : List Forecaster)
    (b : Base) (ss : States Fs) (y : Series) (up : Bool)
    (b' : Base) (st' : Option (States Fs)) (log : Log)
    (h : ((ensemble agg names Fs).update (b, some ss) y up).run = .ok ((b', st'), log)) :
    ∃ ss', st' = some ss' ∧ b' = b.updateYX y ∧ (updateAll Fs ss y up).run = .ok (ss', log) ∧
      ∀ i, i < Fs.length →
        ∃ l, ((member Fs i).update (ss.get Fs i) y up).run = .ok (ss'.get Fs i, l) := by
  simp only [ensemble] at h
  obtain ⟨_, _, h⟩ := lift_bind_eq_ok.mp h
  obtain ⟨ss', l1, l2, h1, h2, rfl⟩ := bind_eq_ok.mp h
  obtain ⟨heq, rfl⟩ := pure_eq_ok.mp h2
  simp only [Prod.mk.injEq] at heq
  obtain ⟨rfl, rfl⟩ := heq
  have h1' : (updateAll Fs ss y up).run = .ok (ss', l1 ++ []) := by simpa using h1
  exact ⟨ss', rfl, rfl, h1', updateAll_get Fs ss y up ss' _ h1'⟩

/-- `predict`: the forecast is the chosen aggregate, row by row, of the members' forecasts for the
remembered horizon; each member forecasts on its own from its own state.  Row `i` carries the first
member's i-th label and `aggVals a` of the members' i-th values (`agg_*_spec` say what that is). -/
theorem ensemble_predict_eq_aggregate (agg : Option Agg) (names : List String) (Fs : List Forecaster)
    (b : Base) (ss : States Fs) (fh : Option Horizon)
    (b' : Base) (st' : Option (States Fs)) (out : Series) (log : Log)
    (h : ((ensemble agg names Fs).predict (b, some ss) fh).run = .ok (((b', st'), out), log)) :
    ∃ a f ss' ps, agg = some a ∧ effFh b.fh fh = some f ∧ b' = { b with fh := some f } ∧ st' = some ss' ∧
      (predictAll Fs ss (some f)).run = .ok ((ss', ps), log) ∧
      ps.length = Fs.length ∧
      (∀ i, i < Fs.length → ∃ p l, ps[i]? = some p ∧
        ((member Fs i).predict (ss.get Fs i) (some f)).run = .ok ((ss'.get Fs i, p), l)) ∧
      out = aggregate a ps ∧
      (∀ i, i < nRows ps → ∃ lab, (firstLabels ps)[i]? = some lab ∧
        out[i]? = some (lab, aggVals a (column ps i))) := by
  simp only [ensemble] at h
  obtain ⟨_, _, h⟩ := lift_bind_eq_ok.mp h
  obtain ⟨b1, hb1, h⟩ := lift_bind_eq_ok.mp h
  obtain ⟨f, hf, h⟩ := lift_bind_eq_ok.mp h
  obtain ⟨⟨ss', ps⟩, l1, l2, h1, h2, rfl⟩ := bind_eq_ok.mp h
  cases agg with
  | none => simp at h2
  | some a =>
    simp only at h2
    obtain ⟨heq, rfl⟩ := pure_eq_ok.mp h2
    simp only [Prod.mk.injEq] at heq
    obtain ⟨⟨rfl, rfl⟩, rfl⟩ := heq
    obtain ⟨rfl, _⟩ := Base.setFhOpt_ok hb1
    have hfh := Base.getFh_ok hf
    simp only at hfh
    have h1' : (predictAll Fs ss (some f)).run = .ok ((ss', ps), l1 ++ []) := by simpa using h1
    obtain ⟨hlen, hget⟩ := predictAll_get Fs ss (some f) ss' ps _ h1'
    refine ⟨a, f, ss', ps, rfl, hfh, by rw [hfh], rfl, h1', hlen, hget, rfl, ?_⟩
    intro i hi
    exact aggregate_getElem a ps i hi

end SkVerif.Compose.Lem
