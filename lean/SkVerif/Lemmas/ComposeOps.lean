/-
C09 helper lemmas: what one successful call of a composite did (destructuring of the model's
`do` blocks).  Used by Props/C09.lean and by the history inductions in Lemmas/ComposeRun.lean.
-/
import SkVerif.Lemmas.Compose
namespace SkVerif.Compose.Lem
open SkVerif
open W (bind_eq_ok pure_eq_ok lift_bind_eq_ok lift_eq_ok tell_bind_eq_ok fail_bind run_bind)

/-! ### EnsembleForecaster -/

/-- `fit`, from ANY earlier state: every member is a fresh clone (started from its `init`) fitted on
exactly the series and horizon handed to the ensemble; nothing else reaches a member. -/
theorem ensemble_fit_members_fresh (agg : Option Agg) (names : List String) (Fs : List Forecaster)
    (st0 : (ensemble agg names Fs).S) (y : Series) (fh : Option Horizon)
    (b : Base) (st : Option (States Fs)) (log : Log)
    (h : ((ensemble agg names Fs).fit st0 y fh).run = .ok ((b, st), log)) :
    ∃ ss, st = some ss ∧ (fitAll Fs y fh).run = .ok (ss, log) ∧ b.fh = effFh st0.1.fh fh ∧
      ∀ i, i < Fs.length →
        ∃ l, ((member Fs i).fit (member Fs i).init y fh).run = .ok (ss.get Fs i, l) := by
  obtain ⟨b0, s0⟩ := st0
  simp only [ensemble] at h
  obtain ⟨b1, hb1, h⟩ := lift_bind_eq_ok.mp h
  obtain ⟨b2, hb2, h⟩ := lift_bind_eq_ok.mp h
  obtain ⟨_, _, h⟩ := lift_bind_eq_ok.mp h
  obtain ⟨ss, l1, l2, h1, h2, rfl⟩ := bind_eq_ok.mp h
  obtain ⟨heq, rfl⟩ := pure_eq_ok.mp h2
  simp only [Prod.mk.injEq] at heq
  obtain ⟨rfl, rfl⟩ := heq
  have h1' : (fitAll Fs y fh).run = .ok (ss, l1 ++ []) := by simpa using h1
  refine ⟨ss, rfl, h1', ?_, fitAll_get Fs y fh ss _ h1'⟩
  obtain ⟨rfl, _⟩ := Base.setYX_ok hb1
  obtain ⟨rfl, _⟩ := Base.setFhOpt_ok hb2
  rfl

/-- `update`: every member is updated, on its own, with exactly the batch and flag handed to the ensemble -/
theorem ensemble_update_members (agg : Option Agg) (names : List String) (Fs : List Forecaster)
    (b : Base) (ss : States Fs) (y : Series) (up : Bool)
    (b' : Base) (st' : Option (States Fs)) (log : Log)
    (h : ((ensemble agg names Fs).update (b, some ss) y up).run = .ok ((b', st'), log)) :
    ∃ ss', st' = some ss' ∧ b' = b.updateYX y ∧ (updateAll Fs ss y up).run = .ok (ss', log) ∧
      ∀ i, i < Fs.length →
        ∃ l, ((member Fs i).update (ss.get Fs i) y up).run = .ok (ss'.get Fs i, l) := by
  simp only [ensemble] at h
  obtain ⟨_, _, h⟩ := lift_bind_eq_ok.mp h
  obtain ⟨ss', l1, l2, h1, h2, rfl⟩ := bind_eq_ok.mp h
  obtain ⟨heq, rfl⟩ := pure_eq_ok.mp h2
  simp only [Prod.mk.injEq] at heq
  obtain ⟨rfl, rfl⟩ := heq
  have h1' : (updateAll Fs ss y up).run = .ok (ss', l1 ++ []) := by simpa using h1
  exact ⟨ss', rfl, rfl, h1', updateAll_get Fs ss y up ss' _ h1'⟩

/-- `predict`: the forecast is the chosen aggregate, row by row, of the members' forecasts for the
remembered horizon; each member forecasts on its own from its own state.  Row `i` carries the first
member's i-th label and `aggVals a` of the members' i-th values (`agg_*_spec` say what that is). -/
theorem ensemble_predict_eq_aggregate (agg : Option Agg) (names : List String) (Fs : List Forecaster)
    (b : Base) (ss : States Fs) (fh : Option Horizon)
    (b' : Base) (st' : Option (States Fs)) (out : Series) (log : Log)
    (h : ((ensemble agg names Fs).predict (b, some ss) fh).run = .ok (((b', st'), out), log)) :
    ∃ a f ss' ps, agg = some a ∧ effFh b.fh fh = some f ∧ b' = { b with fh := some f } ∧ st' = some ss' ∧
      (predictAll Fs ss (some f)).run = .ok ((ss', ps), log) ∧
      ps.length = Fs.length ∧
      (∀ i, i < Fs.length → ∃ p l, ps[i]? = some p ∧
        ((member Fs i).predict (ss.get Fs i) (some f)).run = .ok ((ss'.get Fs i, p), l)) ∧
      out = aggregate a ps ∧
      (∀ i, i < nRows ps → ∃ lab, (firstLabels ps)[i]? = some lab ∧
        out[i]? = some (lab, aggVals a (column ps i))) := by
  simp only [ensemble] at h
  obtain ⟨_, _, h⟩ := lift_bind_eq_ok.mp h
  obtain ⟨b1, hb1, h⟩ := lift_bind_eq_ok.mp h
  obtain ⟨f, hf, h⟩ := lift_bind_eq_ok.mp h
  obtain ⟨⟨ss', ps⟩, l1, l2, h1, h2, rfl⟩ := bind_eq_ok.mp h
  cases agg with
  | none => simp at h2
  | some a =>
    simp only at h2
    obtain ⟨heq, rfl⟩ := pure_eq_ok.mp h2
    simp only [Prod.mk.injEq] at heq
    obtain ⟨⟨rfl, rfl⟩, rfl⟩ := heq
    obtain ⟨rfl, _⟩ := Base.setFhOpt_ok hb1
    have hfh := Base.getFh_ok hf
    simp only at hfh
    have h1' : (predictAll Fs ss (some f)).run = .ok ((ss', ps), l1 ++ []) := by simpa using h1
    obtain ⟨hlen, hget⟩ := predictAll_get Fs ss (some f) ss' ps _ h1'
    refine ⟨a, f, ss', ps, rfl, hfh, by rw [hfh], rfl, h1', hlen, hget, rfl, ?_⟩
    intro i hi
    exact aggregate_getElem a ps i hi

/-! ### TransformedTargetForecaster -/

theorem pipeline_fit_ok (fixed : Bool) (Ts : List Transformer) (F : Forecaster)
    (st0 : (pipelineG fixed Ts F).S) (y : Series) (fh : Option Horizon)
    (b : Base) (st : Option (TStates Ts × F.S)) (log : Log)
    (h : ((pipelineG fixed Ts F).fit st0 y fh).run = .ok ((b, st), log)) :
    ∃ ts s yt l1 l2, st = some (ts, s) ∧ (fitChain Ts y).run = .ok ((ts, yt), l1) ∧
      (F.fit F.init yt fh).run = .ok (s, l2) ∧ log = l1 ++ l2 ∧ b.fh = effFh st0.1.fh fh := by
  obtain ⟨b0, s0⟩ := st0
  simp only [pipelineG] at h
  obtain ⟨b1, hb1, h⟩ := lift_bind_eq_ok.mp h
  obtain ⟨b2, hb2, h⟩ := lift_bind_eq_ok.mp h
  obtain ⟨⟨ts, yt⟩, l1, l2, h1, h2, rfl⟩ := bind_eq_ok.mp h
  obtain ⟨s, l3, l4, h3, h4, rfl⟩ := bind_eq_ok.mp h2
  obtain ⟨heq, rfl⟩ := pure_eq_ok.mp h4
  simp only [Prod.mk.injEq] at heq
  obtain ⟨rfl, rfl⟩ := heq
  refine ⟨ts, s, yt, l1, l3, rfl, h1, h3, by simp, ?_⟩
  obtain ⟨rfl, _⟩ := Base.setYX_ok hb1
  obtain ⟨rfl, _⟩ := Base.setFhOpt_ok hb2
  rfl

theorem pipeline_predict_ok (fixed : Bool) (Ts : List Transformer) (F : Forecaster)
    (b : Base) (ts : TStates Ts) (s : F.S) (fh : Option Horizon)
    (b' : Base) (st' : Option (TStates Ts × F.S)) (out : Series) (log : Log)
    (h : ((pipelineG fixed Ts F).predict (b, some (ts, s)) fh).run = .ok (((b', st'), out), log)) :
    ∃ f s' p l1 l2, effFh b.fh fh = some f ∧ b' = { b with fh := some f } ∧ st' = some (ts, s') ∧
      (F.predict s (some f)).run = .ok ((s', p), l1) ∧ (inverseChain Ts ts p).run = .ok (out, l2) ∧
      log = l1 ++ l2 := by
  simp only [pipelineG] at h
  obtain ⟨_, _, h⟩ := lift_bind_eq_ok.mp h
  obtain ⟨b1, hb1, h⟩ := lift_bind_eq_ok.mp h
  obtain ⟨f, hf, h⟩ := lift_bind_eq_ok.mp h
  obtain ⟨⟨s', p⟩, l1, l2, h1, h2, rfl⟩ := bind_eq_ok.mp h
  obtain ⟨p', l3, l4, h3, h4, rfl⟩ := bind_eq_ok.mp h2
  obtain ⟨heq, rfl⟩ := pure_eq_ok.mp h4
  simp only [Prod.mk.injEq] at heq
  obtain ⟨⟨rfl, rfl⟩, rfl⟩ := heq
  obtain ⟨rfl, _⟩ := Base.setFhOpt_ok hb1
  have hfh := Base.getFh_ok hf
  simp only at hfh
  exact ⟨f, s', p, l1, l3, hfh, by rw [hfh], rfl, h1, h3, by simp⟩

theorem pipeline_update_raw_ok (Ts : List Transformer) (F : Forecaster)
    (b : Base) (ts : TStates Ts) (s : F.S) (y : Series) (up : Bool)
    (b' : Base) (st' : Option (TStates Ts × F.S)) (log : Log)
    (h : ((pipelineG false Ts F).update (b, some (ts, s)) y up).run = .ok ((b', st'), log)) :
    ∃ ts' s' l1 l2, b' = b.updateYX y ∧ st' = some (ts', s') ∧
      (updateChainRaw Ts ts y up).run = .ok (ts', l1) ∧ (F.update s y up).run = .ok (s', l2) ∧
      log = l1 ++ l2 := by
  simp only [pipelineG] at h
  obtain ⟨_, _, h⟩ := lift_bind_eq_ok.mp h
  simp only [Bool.false_eq_true, ↓reduceIte] at h
  obtain ⟨ts', l1, l2, h1, h2, rfl⟩ := bind_eq_ok.mp h
  obtain ⟨s', l3, l4, h3, h4, rfl⟩ := bind_eq_ok.mp h2
  obtain ⟨heq, rfl⟩ := pure_eq_ok.mp h4
  simp only [Prod.mk.injEq] at heq
  obtain ⟨rfl, rfl⟩ := heq
  exact ⟨ts', s', l1, l3, rfl, rfl, h1, h3, by simp⟩

theorem pipeline_update_fixed_ok (Ts : List Transformer) (F : Forecaster)
    (b : Base) (ts : TStates Ts) (s : F.S) (y : Series) (up : Bool)
    (b' : Base) (st' : Option (TStates Ts × F.S)) (log : Log)
    (h : ((pipelineG true Ts F).update (b, some (ts, s)) y up).run = .ok ((b', st'), log)) :
    ∃ ts' yt s' l1 l2, b' = b.updateYX y ∧ st' = some (ts', s') ∧
      (updateChainT Ts ts y up).run = .ok ((ts', yt), l1) ∧ (F.update s yt up).run = .ok (s', l2) ∧
      log = l1 ++ l2 := by
  simp only [pipelineG] at h
  obtain ⟨_, _, h⟩ := lift_bind_eq_ok.mp h
  simp only [↓reduceIte] at h
  obtain ⟨⟨ts', yt⟩, l1, l2, h1, h2, rfl⟩ := bind_eq_ok.mp h
  obtain ⟨s', l3, l4, h3, h4, rfl⟩ := bind_eq_ok.mp h2
  obtain ⟨heq, rfl⟩ := pure_eq_ok.mp h4
  simp only [Prod.mk.injEq] at heq
  obtain ⟨rfl, rfl⟩ := heq
  exact ⟨ts', yt, s', l1, l3, rfl, rfl, h1, h3, by simp⟩

/-! ### MultiplexForecaster -/

theorem mux_fit_ok (chk : Except Err Unit) (F : Forecaster)
    (st0 : (muxOn chk F).S) (y : Series) (fh : Option Horizon)
    (b : Base) (st : Option F.S) (log : Log)
    (h : ((muxOn chk F).fit st0 y fh).run = .ok ((b, st), log)) :
    ∃ s, st = some s ∧ (F.fit F.init y fh).run = .ok (s, log) ∧ b.fh = effFh st0.1.fh fh ∧ chk = .ok () := by
  obtain ⟨b0, s0⟩ := st0
  simp only [muxOn] at h
  obtain ⟨b1, hb1, h⟩ := lift_bind_eq_ok.mp h
  obtain ⟨b2, hb2, h⟩ := lift_bind_eq_ok.mp h
  obtain ⟨_, hchk, h⟩ := lift_bind_eq_ok.mp h
  obtain ⟨s, l1, l2, h1, h2, rfl⟩ := bind_eq_ok.mp h
  obtain ⟨heq, rfl⟩ := pure_eq_ok.mp h2
  simp only [Prod.mk.injEq] at heq
  obtain ⟨rfl, rfl⟩ := heq
  refine ⟨s, rfl, by simpa using h1, ?_, hchk⟩
  obtain ⟨rfl, _⟩ := Base.setYX_ok hb1
  obtain ⟨rfl, _⟩ := Base.setFhOpt_ok hb2
  rfl

theorem mux_update_ok (chk : Except Err Unit) (F : Forecaster)
    (b : Base) (s : F.S) (y : Series) (up : Bool) (b' : Base) (st' : Option F.S) (log : Log)
    (h : ((muxOn chk F).update (b, some s) y up).run = .ok ((b', st'), log)) :
    ∃ s', st' = some s' ∧ b' = b.updateYX y ∧ (F.update s y up).run = .ok (s', log) := by
  simp only [muxOn] at h
  obtain ⟨_, _, h⟩ := lift_bind_eq_ok.mp h
  obtain ⟨s', l1, l2, h1, h2, rfl⟩ := bind_eq_ok.mp h
  obtain ⟨heq, rfl⟩ := pure_eq_ok.mp h2
  simp only [Prod.mk.injEq] at heq
  obtain ⟨rfl, rfl⟩ := heq
  exact ⟨s', rfl, rfl, by simpa using h1⟩

theorem mux_predict_ok (chk : Except Err Unit) (F : Forecaster)
    (b : Base) (s : F.S) (fh : Option Horizon) (b' : Base) (st' : Option F.S) (out : Series) (log : Log)
    (h : ((muxOn chk F).predict (b, some s) fh).run = .ok (((b', st'), out), log)) :
    ∃ f s', effFh b.fh fh = some f ∧ b' = { b with fh := some f } ∧ st' = some s' ∧
      (F.predict s (some f)).run = .ok ((s', out), log) := by
  simp only [muxOn] at h
  obtain ⟨_, _, h⟩ := lift_bind_eq_ok.mp h
  obtain ⟨b1, hb1, h⟩ := lift_bind_eq_ok.mp h
  obtain ⟨f, hf, h⟩ := lift_bind_eq_ok.mp h
  obtain ⟨⟨s', p⟩, l1, l2, h1, h2, rfl⟩ := bind_eq_ok.mp h
  obtain ⟨heq, rfl⟩ := pure_eq_ok.mp h2
  simp only [Prod.mk.injEq] at heq
  obtain ⟨⟨rfl, rfl⟩, rfl⟩ := heq
  obtain ⟨rfl, _⟩ := Base.setFhOpt_ok hb1
  have hfh := Base.getFh_ok hf
  simp only at hfh
  exact ⟨f, s', hfh, by rw [hfh], rfl, by simpa using h1⟩

/-! ### StackingForecaster -/

theorem stack_fit_ok (names : List String) (Fs : List Forecaster) (G : Regressor)
    (st0 : (stacking names Fs G).S) (y : Series) (fh : Option Horizon)
    (b : Base) (st : Option (States Fs × G.S)) (log : Log)
    (h : ((stacking names Fs G).fit st0 y fh).run = .ok ((b, st), log)) :
    ∃ f train test yF yM ss ss' ps g ss2 l1 l2 l3 l4,
      b.fh = some f ∧ b.y = y ∧ holdoutSplit y.length f = .ok (train, test) ∧
      iloc y train = .ok yF ∧ iloc y test = .ok yM ∧
      (fitAll Fs yF (some f)).run = .ok (ss, l1) ∧ (predictAll Fs ss none).run = .ok ((ss', ps), l2) ∧
      (G.fit G.init (rowsOf (nRows ps) ps) (values yM)).run = .ok (g, l3) ∧
      (fitAll Fs y (some f)).run = .ok (ss2, l4) ∧ st = some (ss2, g) ∧ log = l1 ++ l2 ++ l3 ++ l4 := by
  obtain ⟨b0, s0⟩ := st0
  simp only [stacking] at h
  obtain ⟨b1, hb1, h⟩ := lift_bind_eq_ok.mp h
  obtain ⟨b2, hb2, h⟩ := lift_bind_eq_ok.mp h
  obtain ⟨_, _, h⟩ := lift_bind_eq_ok.mp h
  obtain ⟨f, hf, h⟩ := lift_bind_eq_ok.mp h
  obtain ⟨⟨train, test⟩, hsp, h⟩ := lift_bind_eq_ok.mp h
  obtain ⟨yF, hyF, h⟩ := lift_bind_eq_ok.mp h
  obtain ⟨yM, hyM, h⟩ := lift_bind_eq_ok.mp h
  obtain ⟨ss, l1, l2, h1, h2, rfl⟩ := bind_eq_ok.mp h
  obtain ⟨⟨ss', ps⟩, l3, l4, h3, h4, rfl⟩ := bind_eq_ok.mp h2
  obtain ⟨g, l5, l6, h5, h6, rfl⟩ := bind_eq_ok.mp h4
  obtain ⟨ss2, l7, l8, h7, h8, rfl⟩ := bind_eq_ok.mp h6
  obtain ⟨heq, rfl⟩ := pure_eq_ok.mp h8
  simp only [Prod.mk.injEq] at heq
  obtain ⟨rfl, rfl⟩ := heq
  have hfh := Base.getFh_ok hf
  have hy : b2.y = y := by
    obtain ⟨rfl, _⟩ := Base.setYX_ok hb1
    unfold Base.setFhReq at hb2
    cases fh with
    | none =>
      simp only at hb2
      split at hb2
      · cases hb2; rfl
      · cases hb2
    | some raw =>
      simp only [bind, Except.bind] at hb2
      cases hr : checkFh raw with
      | error e => simp [hr] at hb2
      | ok f' =>
        simp only [hr] at hb2
        split at hb2
        · split at hb2
          · cases hb2; rfl
          · cases hb2
        · cases hb2; rfl
  exact ⟨f, train, test, yF, yM, ss, ss', ps, g, ss2, l1, l3, l5, l7, hfh, hy, hsp, hyF, hyM, h1, h3, h5, h7, rfl,
    by simp [List.append_assoc]⟩

theorem stack_predict_ok (names : List String) (Fs : List Forecaster) (G : Regressor)
    (b : Base) (ss : States Fs) (g : G.S) (fh : Option Horizon)
    (b' : Base) (st' : Option (States Fs × G.S)) (out : Series) (log : Log)
    (h : ((stacking names Fs G).predict (b, some (ss, g)) fh).run = .ok (((b', st'), out), log)) :
    ∃ f ss' ps v l1 l2, b'.fh = some f ∧ b'.cutoff = b.cutoff ∧ st' = some (ss', g) ∧
      (predictAll Fs ss none).run = .ok ((ss', ps), l1) ∧
      (G.predict g (rowsOf (nRows ps) ps)).run = .ok (v, l2) ∧
      out = (predIndex b.cutoff f).zip v ∧ log = l1 ++ l2 := by
  simp only [stacking] at h
  obtain ⟨_, hfit, h⟩ := lift_bind_eq_ok.mp h
  obtain ⟨b1, hb1, h⟩ := lift_bind_eq_ok.mp h
  obtain ⟨f, hf, h⟩ := lift_bind_eq_ok.mp h
  obtain ⟨⟨ss', ps⟩, l1, l2, h1, h2, rfl⟩ := bind_eq_ok.mp h
  obtain ⟨v, l3, l4, h3, h4, rfl⟩ := bind_eq_ok.mp h2
  obtain ⟨heq, rfl⟩ := pure_eq_ok.mp h4
  simp only [Prod.mk.injEq] at heq
  obtain ⟨⟨rfl, rfl⟩, rfl⟩ := heq
  have hfh := Base.getFh_ok hf
  have hb : b1 = b := by
    have hft : b.fitted = true := by
      unfold Base.checkFitted at hfit
      by_cases hc : b.fitted = true
      · exact hc
      · simp [hc] at hfit
    unfold Base.setFhReq at hb1
    cases fh with
    | none => simp only [hft, ↓reduceIte, Except.ok.injEq] at hb1; exact hb1.symm
    | some raw =>
      simp only [bind, Except.bind] at hb1
      cases hr : checkFh raw with
      | error e => simp [hr] at hb1
      | ok f' =>
        simp only [hr, hft, ↓reduceIte] at hb1
        split at hb1
        · cases hb1; rfl
        · cases hb1
  subst hb
  exact ⟨f, ss', ps, v, l1, l3, hfh, rfl, rfl, h1, h3, rfl, by simp⟩

end SkVerif.Compose.Lem
