/-
C14 lemmas: names of the tabular columns (column labels × time index) in column-then-time order.
-/
import SkVerif.Model.C14Labels
namespace SkVerif.C14.Lem
open SkVerif SkVerif.C14

/-- position `j*T + t` of the concatenation of blocks of length `T` (any element type) -/
theorem blocks_uniform_getElem? {α : Type} (l : List (List α)) (T : Nat) (h : ∀ c ∈ l, c.length = T) (j t : Nat)
    (ht : t < T) : l.flatten[j * T + t]? = (l[j]?).bind (fun c => c[t]?) := by
  induction l generalizing j with
  | nil => simp
  | cons c l ih =>
    have hc : c.length = T := h c List.mem_cons_self
    have ih' := ih (fun d hd => h d (List.mem_cons_of_mem _ hd))
    cases j with
    | zero =>
      simp only [Nat.zero_mul, Nat.zero_add, List.flatten_cons, List.getElem?_cons_zero, Option.bind_some]
      rw [List.getElem?_append_left (by omega)]
    | succ j =>
      simp only [List.flatten_cons, List.getElem?_cons_succ]
      rw [List.getElem?_append_right (by rw [hc, Nat.succ_mul]; omega)]
      have : (j + 1) * T + t - c.length = j * T + t := by rw [hc, Nat.succ_mul]; omega
      rw [this, ih' j]

theorem tabularNames_getElem? {ι : Type} (labels : List ι) (t0 : Nat) (inst0 : Inst) (rest : Panel) (T j t : Nat)
    (hT : ∀ c ∈ inst0, c.length = T) (hl : labels.length = inst0.length) (ht : t < T) :
    (tabularNames labels t0 (inst0 :: rest))[j * T + t]? = (labels[j]?).map (fun l => (l, t0 + t)) := by
  unfold tabularNames
  simp only [List.headD_cons]
  rw [blocks_uniform_getElem? _ T _ j t ht]
  · simp only [List.getElem?_map]
    by_cases hj : j < labels.length
    · have hj' : j < inst0.length := hl ▸ hj
      have hz : (labels.zip inst0)[j]? = some (labels[j], inst0[j]) := by
        rw [List.getElem?_zip_eq_some]; simp [hj, hj']
      have hc : (inst0[j]).length = T := hT _ (List.getElem_mem hj')
      simp [hz, List.getElem?_eq_getElem hj, hc, ht]
    · have hn : (labels.zip inst0)[j]? = none := by
        rw [List.getElem?_eq_none_iff, List.length_zip]; omega
      have hn' : labels[j]? = none := by rw [List.getElem?_eq_none_iff]; omega
      simp [hn, hn']
  · intro blk hblk
    simp only [List.mem_map] at hblk
    obtain ⟨lc, hlc, rfl⟩ := hblk
    have := (List.of_mem_zip (a := lc.1) (b := lc.2) hlc).2
    simp [hT _ this]

end SkVerif.C14.Lem
