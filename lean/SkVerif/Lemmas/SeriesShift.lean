/-
Shifting the integer time index of every input by a constant commutes with every call of the
series-transformer machine.
-/
import SkVerif.Model.SeriesTransform
import SkVerif.Lemmas.SeriesRound
import Mathlib.Data.List.Nodup
import Mathlib.Tactic.Ring
namespace SkVerif.Lem.ST
open SkVerif SkVerif.ST

def shiftDes (c : Int) (s : Des) : Des := { s with y0 := s.y0.map (· + c) }
def shiftFc (c : Int) (fc : Fc) : Fc := { fc with y := shiftSeries c fc.y, origin := fc.origin.map (· + c) }
def shiftDet (c : Int) (s : Det) : Det := { s with fc := s.fc.map (shiftFc c) }

/-- the state reached by the shifted history -/
def shiftState (c : Int) : TState → TState
  | .des s => .des (shiftDes c s)
  | .det s => .det (shiftDet c s)
  | .col s => .col s
  | .hampel cfg f => .hampel cfg f
  | .pass p i h f ft => .pass (shiftState c p) (shiftState c i) h f ft

-- series level ---------------------------------------------------------------------------------
theorem labels_shift (c : Int) (z : Series) : labels (shiftSeries c z) = (labels z).map (· + c) := by
  simp [labels, shiftSeries, List.map_map, Function.comp_def]

theorem values_shift (c : Int) (z : Series) : values (shiftSeries c z) = values z := by
  simp [values, shiftSeries, List.map_map, Function.comp_def]

theorem length_shift (c : Int) (z : Series) : (shiftSeries c z).length = z.length := by
  simp [shiftSeries]

theorem isEmpty_shift (c : Int) (z : Series) : (shiftSeries c z).isEmpty = z.isEmpty := by
  cases z <;> simp [shiftSeries]

theorem sortedLE_shift (c : Int) (l : List Int) : sortedLE (l.map (· + c)) = sortedLE l := by
  induction l with
  | nil => rfl
  | cons a l ih =>
    cases l with
    | nil => rfl
    | cons b l =>
      simp only [List.map_cons, sortedLE] at ih ⊢
      rw [ih]
      congr 1
      simp only [decide_eq_decide]
      omega

theorem checkSeries_shift (b : Bool) (c : Int) (inp : Input) :
    checkSeries b (shiftInput c inp) = (checkSeries b inp).map (shiftSeries c) := by
  cases inp with
  | notSeries => rfl
  | floatIndex => rfl
  | series z =>
    simp only [shiftInput, checkSeries_series, labels_shift, sortedLE_shift, isEmpty_shift]
    split
    · rfl
    · split <;> rfl

theorem head?_labels_shift (c : Int) (z : Series) :
    (labels (shiftSeries c z)).head? = (labels z).head?.map (· + c) := by
  cases z <;> simp [labels, shiftSeries]

theorem allFinite_shift (c : Int) (z : Series) : allFinite (shiftSeries c z) = allFinite z := by
  simp [allFinite, values_shift]

theorem allPositive_shift (c : Int) (z : Series) : allPositive (shiftSeries c z) = allPositive z := by
  simp [allPositive, values_shift]

theorem decompOk_shift (sp : Nat) (m : Bool) (c : Int) (z : Series) :
    decompOk sp m (shiftSeries c z) = decompOk sp m z := by
  simp [decompOk, allFinite_shift, allPositive_shift, length_shift]

-- Deseasonalizer -------------------------------------------------------------------------------
theorem alignSeasonal_shift (sp : Nat) (seas : List Rat) (y0 c : Int) (z : Series) :
    alignSeasonal sp seas (y0 + c) (shiftSeries c z) = alignSeasonal sp seas y0 z := by
  cases z with
  | nil => rfl
  | cons p rest =>
    obtain ⟨t, v⟩ := p
    simp only [shiftSeries, List.map_cons, alignSeasonal, List.length_cons, List.length_map]
    have : t + c - (y0 + c) = t - y0 := by ring
    rw [this]

theorem desApply_shift (m inv : Bool) (c : Int) (z : Series) (s : List Rat) :
    desApply m inv (shiftSeries c z) s = shiftSeries c (desApply m inv z s) := by
  induction z generalizing s with
  | nil => simp [desApply, shiftSeries]
  | cons p z ih =>
    cases s with
    | nil => simp [desApply, shiftSeries]
    | cons a s =>
      have := ih s
      simp only [desApply, shiftSeries, List.map_cons, List.zipWith_cons_cons] at this ⊢
      rw [this]

theorem desDecompose_shift (c : Int) (s : Des) (z : Series) (d : FitData) :
    desDecompose (shiftDes c s) (shiftSeries c z) d
      = (shiftDes c (desDecompose s z d).1, (desDecompose s z d).2) := by
  unfold desDecompose
  simp only [shiftDes, decompOk_shift, head?_labels_shift]
  split
  · rfl
  · cases d.seasonal <;> rfl

theorem desFit_shift (c : Int) (s : Des) (inp : Input) (d : FitData) :
    desFit (shiftDes c s) (shiftInput c inp) d
      = (shiftDes c (desFit s inp d).1, (desFit s inp d).2) := by
  unfold desFit
  rw [checkSeries_shift]
  cases checkSeries false inp with
  | error e => rfl
  | ok z =>
    simp only [Except.map]
    have hc : (shiftDes c s).cond = s.cond := rfl
    rw [hc]
    cases hcond : s.cond with
    | false =>
      simp only [Bool.false_eq_true, ↓reduceIte]
      exact desDecompose_shift c s z d
    | true =>
      simp only [↓reduceIte]
      cases d.isSeasonal with
      | none => rfl
      | some b =>
        cases b with
        | true =>
          dsimp only
          exact desDecompose_shift c s z d
        | false =>
          simp only [head?_labels_shift]
          rfl

theorem desUpdate_shift (c : Int) (s : Des) (inp : Input) :
    desUpdate (shiftDes c s) (shiftInput c inp)
      = (shiftDes c (desUpdate s inp).1, (desUpdate s inp).2) := by
  unfold desUpdate
  have hf : (shiftDes c s).fitted = s.fitted := rfl
  rw [hf]
  split
  · rfl
  · rw [checkSeries_shift]
    cases checkSeries false inp <;> rfl

theorem desTransform_shift (c : Int) (s : Des) (inv : Bool) (inp : Input) :
    desTransform (shiftDes c s) inv (shiftInput c inp)
      = (shiftDes c (desTransform s inv inp).1, shiftOut c (desTransform s inv inp).2) := by
  unfold desTransform
  have hf : (shiftDes c s).fitted = s.fitted := rfl
  rw [hf]
  split
  · rfl
  · rw [checkSeries_shift]
    cases checkSeries false inp with
    | error e => rfl
    | ok z =>
      simp only [Except.map]
      have hs : (shiftDes c s).seasonal = s.seasonal := rfl
      have hy : (shiftDes c s).y0 = s.y0.map (· + c) := rfl
      rw [hs, hy]
      cases s.seasonal with
      | none => rfl
      | some seas =>
        cases s.y0 with
        | none => rfl
        | some y0 =>
          simp only [Option.map_some, shiftOut]
          have hm : (shiftDes c s).mult = s.mult := rfl
          have hsp : (shiftDes c s).sp = s.sp := rfl
          rw [hm, hsp, alignSeasonal_shift, desApply_shift]

-- Detrender ------------------------------------------------------------------------------------
theorem regFitOk_shift (c : Int) (y : Series) : regFitOk (shiftSeries c y) = regFitOk y := by
  unfold regFitOk
  rw [allFinite_shift, length_shift]
  congr 1
  simp only [shiftSeries, List.head?_map, List.getLast?_map]
  cases y.head? with
  | none => rfl
  | some a =>
    cases y.getLast? with
    | none => rfl
    | some b =>
      simp only [Option.map_some, decide_eq_decide]
      omega

theorem someVals_shift (c : Int) (y : Series) : someVals (shiftSeries c y) = someVals y := by
  simp [someVals, values_shift]

theorem insertObs_shift (c t : Int) (v : Val) (r : Series) :
    insertObs (t + c) v (shiftSeries c r) = shiftSeries c (insertObs t v r) := by
  induction r with
  | nil => rfl
  | cons p r ih =>
    obtain ⟨t', v'⟩ := p
    simp only [shiftSeries, List.map_cons, insertObs] at ih ⊢
    by_cases h1 : t < t'
    · have h1' : t + c < t' + c := by omega
      simp [h1, h1']
    · have h1' : ¬ t + c < t' + c := by omega
      by_cases h2 : t = t'
      · have h2' : t + c = t' + c := by omega
        simp [h2]
      · have h2' : ¬ t + c = t' + c := by omega
        simp only [h1, h1', h2, h2', ↓reduceIte, List.map_cons, List.cons.injEq, true_and]
        exact ih

theorem combineFirst_shift (c : Int) (new old : Series) :
    combineFirst (shiftSeries c new) (shiftSeries c old) = shiftSeries c (combineFirst new old) := by
  unfold combineFirst
  induction new generalizing old with
  | nil => rfl
  | cons p new ih =>
    simp only [shiftSeries, List.map_cons, List.foldl_cons] at ih ⊢
    have := insertObs_shift c p.1 p.2 old
    simp only [shiftSeries] at this
    rw [this]
    exact ih _

theorem firstLabel_shift (c : Int) (y : Series) : firstLabel (shiftSeries c y) = (firstLabel y).map (· + c) :=
  head?_labels_shift c y

theorem detFit_shift (c : Int) (s : Det) (inp : Input) :
    detFit (shiftDet c s) (shiftInput c inp) = (shiftDet c (detFit s inp).1, (detFit s inp).2) := by
  unfold detFit
  rw [checkSeries_shift]
  cases checkSeries false inp with
  | error e => rfl
  | ok z =>
    simp only [Except.map, regFitOk_shift, someVals_shift, firstLabel_shift]
    split <;> rfl

theorem nodup_labels_shift (c : Int) (z : Series) :
    (labels (shiftSeries c z)).Nodup ↔ (labels z).Nodup := by
  rw [labels_shift]
  exact List.nodup_map_iff (fun a b h => by simpa using h)

theorem detApply_shift (reg : Reg) (c : Int) (s : Det) (inv : Bool) (inp : Input) :
    detApply reg (shiftDet c s) inv (shiftInput c inp)
      = (shiftDet c (detApply reg s inv inp).1, shiftOut c (detApply reg s inv inp).2) := by
  unfold detApply
  have hf : (shiftDet c s).fitted = s.fitted := rfl
  rw [hf]
  split
  · rfl
  · rw [checkSeries_shift]
    cases checkSeries false inp with
    | error e => rfl
    | ok z =>
      simp only [Except.map]
      have hfc : (shiftDet c s).fc = s.fc.map (shiftFc c) := rfl
      rw [hfc]
      cases hs : s.fc with
      | none => rfl
      | some fc =>
        simp only [Option.map_some]
        have hnd : decide (labels (shiftSeries c z)).Nodup = decide (labels z).Nodup := by
          simp only [decide_eq_decide]; exact nodup_labels_shift c z
        rw [hnd]
        split
        · rfl
        · have ht : (shiftFc c fc).train = fc.train := rfl
          have hy : (shiftFc c fc).origin = fc.origin.map (· + c) := rfl
          rw [ht, hy]
          cases fc.train with
          | none =>
            cases fc.origin <;> simp [shiftDet, shiftFc, shiftOut]
          | some tv =>
            cases fc.origin with
            | none => simp [shiftDet, shiftFc, shiftOut]
            | some o =>
              simp only [Option.map_some, shiftOut, shiftDet, shiftFc, shiftSeries, List.map_map,
                Function.comp_def, Prod.mk.injEq, true_and]
              have hd : (shiftDet c s).degree = s.degree := rfl
              congr 1
              apply List.map_congr_left
              intro p _
              have : p.1 + c - (o + c) = p.1 - o := by ring
              rw [this]

theorem detUpdate_shift (c : Int) (s : Det) (inp : Input) (up : Bool) :
    detUpdate (shiftDet c s) (shiftInput c inp) up
      = (shiftDet c (detUpdate s inp up).1, (detUpdate s inp up).2) := by
  unfold detUpdate
  have hfit : (shiftDet c s).fitted = s.fitted := rfl
  rw [hfit]
  by_cases hnf : (!s.fitted) = true
  · simp only [hnf, ↓reduceIte]
  simp only [hnf, Bool.false_eq_true, ↓reduceIte]
  rw [checkSeries_shift]
  cases checkSeries true inp with
  | error e => rfl
  | ok z =>
    simp only [Except.map]
    have hfc : (shiftDet c s).fc = s.fc.map (shiftFc c) := rfl
    rw [hfc]
    cases hs : s.fc with
    | none => rfl
    | some fc =>
      simp only [Option.map_some, isEmpty_shift]
      have hy : (if z.isEmpty = true then (shiftFc c fc).y else combineFirst (shiftSeries c z) (shiftFc c fc).y)
          = shiftSeries c (if z.isEmpty = true then fc.y else combineFirst z fc.y) := by
        split
        · rfl
        · exact combineFirst_shift c z fc.y
      rw [hy, regFitOk_shift, someVals_shift, firstLabel_shift]
      have hfh : (shiftFc c fc).fhSet = fc.fhSet := rfl
      rw [hfh]
      by_cases h1 : up = true
      · by_cases h2 : fc.fhSet = true
        · by_cases h3 : regFitOk (if z.isEmpty = true then fc.y else combineFirst z fc.y) = true
          · simp only [h1, h2, h3]; rfl
          · simp only [h1, h2, h3]; rfl
        · simp only [h1, h2]; rfl
      · simp only [h1]; rfl

end SkVerif.Lem.ST
