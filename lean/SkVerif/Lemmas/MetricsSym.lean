/- Symmetric percentage errors: swap invariance and the bounds [0, 2] (squared: [0, 4]). -/
import SkVerif.Lemmas.MetricsLaws
namespace SkVerif.Lem.Metrics
open SkVerif SkVerif.Metrics

theorem pctCol_sym_swap (eps : Rat) (t p : Col) : pctCol eps true p t = pctCol eps true t p := by
  unfold pctCol
  rw [List.zipWith_comm]
  congr 1
  funext a b
  exact pctErr_sym_swap eps b a

theorem zipWith_swap_cols {f : Col → Col → Rat} (hf : ∀ t p, f p t = f t p) (yt yp : Mat) :
    List.zipWith f yp yt = List.zipWith f yt yp := by
  rw [List.zipWith_comm]
  congr 1
  funext a b
  exact hf a b

theorem mape_swap (eps : Rat) (yt yp : Mat) (hw : Option (List Rat)) (mo : MO) :
    meanAbsolutePercentageError eps yp yt hw mo true = meanAbsolutePercentageError eps yt yp hw mo true := by
  unfold meanAbsolutePercentageError
  rw [checkRegTargets_swap]
  cases hc : checkRegTargets yt yp mo with
  | error e => rfl
  | ok u =>
    have hn := (checkRegTargets_ok hc).1
    rw [hn, zipWith_swap_cols (fun t p => by rw [pctCol_sym_swap])]

theorem mdape_swap (eps : Rat) (yt yp : Mat) (hw : Option (List Rat)) (mo : MO) :
    medianAbsolutePercentageError eps yp yt hw mo true = medianAbsolutePercentageError eps yt yp hw mo true := by
  unfold medianAbsolutePercentageError
  rw [checkRegTargets_swap]
  cases hc : checkRegTargets yt yp mo with
  | error e => rfl
  | ok u =>
    have hn := (checkRegTargets_ok hc).1
    rw [hn, zipWith_swap_cols (fun t p => by rw [pctCol_sym_swap])]

theorem mspe_swap (eps : Rat) (yt yp : Mat) (hw : Option (List Rat)) (mo : MO) (sqrt : Bool) :
    meanSquaredPercentageError eps yp yt hw mo sqrt true = meanSquaredPercentageError eps yt yp hw mo sqrt true := by
  unfold meanSquaredPercentageError
  rw [checkRegTargets_swap]
  cases hc : checkRegTargets yt yp mo with
  | error e => rfl
  | ok u =>
    have hn := (checkRegTargets_ok hc).1
    rw [hn, zipWith_swap_cols (fun t p => by rw [pctCol_sym_swap])]

theorem mdspe_swap (eps : Rat) (yt yp : Mat) (hw : Option (List Rat)) (mo : MO) (sqrt : Bool) :
    medianSquaredPercentageError eps yp yt hw mo sqrt true =
      medianSquaredPercentageError eps yt yp hw mo sqrt true := by
  unfold medianSquaredPercentageError
  rw [checkRegTargets_swap]
  cases hc : checkRegTargets yt yp mo with
  | error e => rfl
  | ok u =>
    have hn := (checkRegTargets_ok hc).1
    rw [hn, zipWith_swap_cols (fun t p => by rw [pctCol_sym_swap])]

/-! ### bounds -/
theorem pctCol_sym_abs_bounds (eps : Rat) (he : 0 < eps) (t p : Col) :
    ∀ x ∈ (pctCol eps true t p).map absR, 0 ≤ x ∧ x ≤ 2 := by
  intro x hx
  obtain ⟨y, hy, rfl⟩ := List.mem_map.mp hx
  have hb : 0 ≤ y ∧ y ≤ 2 :=
    forall_zipWith (pctErr eps true) (fun y => 0 ≤ y ∧ y ≤ 2)
      (fun a b => ⟨pctErr_sym_nonneg eps a b he, pctErr_sym_le_two eps a b he⟩) t p y hy
  rw [absR_eq_abs, abs_of_nonneg hb.1]; exact hb

theorem pctCol_sym_sqr_bounds (eps : Rat) (he : 0 < eps) (t p : Col) :
    ∀ x ∈ (pctCol eps true t p).map sqr, 0 ≤ x ∧ x ≤ 4 := by
  intro x hx
  obtain ⟨y, hy, rfl⟩ := List.mem_map.mp hx
  have hb : 0 ≤ y ∧ y ≤ 2 :=
    forall_zipWith (pctErr eps true) (fun y => 0 ≤ y ∧ y ≤ 2)
      (fun a b => ⟨pctErr_sym_nonneg eps a b he, pctErr_sym_le_two eps a b he⟩) t p y hy
  refine ⟨sqr_nonneg y, ?_⟩
  unfold sqr; nlinarith [hb.1, hb.2]

section
variable {eps : Rat} {yt yp : Mat} {hw : Option (List Rat)} {mo : MO} {out : Out} {sqrt : Bool}

theorem mape_sym_le (he : 0 < eps) (hn : NonnegW hw)
    (h : meanAbsolutePercentageError eps yt yp hw mo true = .ok out) : ∀ q ∈ out.qs, 0 ≤ q ∧ q ≤ 2 := by
  rw [(finish_ok (mape_iff.mp h).2.2.2).1]
  exact zipWith_cols (fun t p =>
    ⟨npAverage_nonneg hw _ hn (fun x hx => (pctCol_sym_abs_bounds eps he t p x hx).1),
     npAverage_le hw _ 2 (by norm_num) hn (fun x hx => (pctCol_sym_abs_bounds eps he t p x hx).2)⟩) yt yp

theorem mdape_sym_le (he : 0 < eps)
    (h : medianAbsolutePercentageError eps yt yp hw mo true = .ok out) : ∀ q ∈ out.qs, 0 ≤ q ∧ q ≤ 2 := by
  rw [(finish_ok (mdape_iff.mp h).2.2).1]
  exact zipWith_cols (fun t p =>
    medianW_bounds hw _ 0 2 (le_refl _) (by norm_num) (pctCol_sym_abs_bounds eps he t p)) yt yp

theorem mspe_sym_le (he : 0 < eps) (hn : NonnegW hw)
    (h : meanSquaredPercentageError eps yt yp hw mo sqrt true = .ok out) : ∀ q ∈ out.qs, 0 ≤ q ∧ q ≤ 4 := by
  rw [(finish_ok (mspe_iff.mp h).2.2.2).1]
  exact zipWith_cols (fun t p =>
    ⟨npAverage_nonneg hw _ hn (fun x hx => (pctCol_sym_sqr_bounds eps he t p x hx).1),
     npAverage_le hw _ 4 (by norm_num) hn (fun x hx => (pctCol_sym_sqr_bounds eps he t p x hx).2)⟩) yt yp

theorem mdspe_sym_le (he : 0 < eps)
    (h : medianSquaredPercentageError eps yt yp hw mo sqrt true = .ok out) : ∀ q ∈ out.qs, 0 ≤ q ∧ q ≤ 4 := by
  rw [(finish_ok (mdspe_iff.mp h).2.2).1]
  exact zipWith_cols (fun t p =>
    medianW_bounds hw _ 0 4 (le_refl _) (by norm_num) (pctCol_sym_sqr_bounds eps he t p)) yt yp
end

end SkVerif.Lem.Metrics
