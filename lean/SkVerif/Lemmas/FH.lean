import SkVerif.Model.FH
import SkVerif.Lemmas.Range
import SkVerif.Lemmas.Sort
namespace SkVerif.Lem
open SkVerif SkVerif.FH

theorem nodup_of_strictSorted {l : List Int} (h : l.Pairwise (· < ·)) : l.Nodup :=
  h.imp (by intro a b h; omega)

theorem mk_sorted (raw : Raw) (rel : Bool) (fh : FH) (h : mk raw rel = .ok fh) :
    fh.vals.Pairwise (· < ·) ∧ fh.rel = rel := by
  unfold mk at h
  simp only [Bool.not_true, Bool.false_eq_true, ↓reduceIte] at h
  cases raw with
  | int v => simp [checkValues, Except.map] at h; subst h; simp
  | ints vs =>
    simp only [checkValues] at h
    split at h
    · rename_i hnd
      simp [Except.map] at h; subst h
      exact ⟨sortInts_strict vs hnd, rfl⟩
    · simp [Except.map] at h
  | range a b s =>
    simp only [checkValues] at h
    split at h
    · simp [Except.map] at h
    · rename_i hs
      simp [Except.map] at h; subst h
      exact ⟨sortInts_strict _ (pyRange_nodup a b s hs), rfl⟩
  | fractional => simp [checkValues, Except.map] at h
  | unsupported => simp [checkValues, Except.map] at h
  | twoDim => simp [checkValues, Except.map] at h

theorem maskSelect_map (l : List Int) (p : Int → Bool) :
    maskSelect l (l.map p) = l.filter p := by
  induction l with
  | nil => simp [maskSelect]
  | cons a l ih =>
    simp only [List.map_cons, maskSelect, List.filter_cons, ih]

theorem maskSelect_map' (l : List Int) (f : Int → Int) (p : Int → Bool) :
    maskSelect l ((l.map f).map p) = l.filter (fun v => p (f v)) := by
  rw [List.map_map]; exact maskSelect_map l _

/-- a sorted list splits at a monotone threshold -/
theorem filter_split (l : List Int) (t : Int) (hs : l.Pairwise (· < ·)) :
    l.filter (fun v => decide (v ≤ t)) ++ l.filter (fun v => decide (v > t)) = l := by
  induction l with
  | nil => simp
  | cons a l ih =>
    have hs' := List.pairwise_cons.mp hs
    have ih' := ih hs'.2
    by_cases ha : a ≤ t
    · have h2 : ¬ (a > t) := by omega
      simp [ha, h2, ih']
    · have h2 : a > t := by omega
      have hall : ∀ b ∈ l, ¬ b ≤ t := by intro b hb; have := hs'.1 b hb; omega
      have e1 : l.filter (fun v => decide (v ≤ t)) = [] := by
        simp only [List.filter_eq_nil_iff, decide_eq_true_eq]; exact hall
      have e2 : l.filter (fun v => decide (v > t)) = l := by
        simp only [List.filter_eq_self, decide_eq_true_eq]; intro b hb; have := hall b hb; omega
      simp [ha, h2, e1, e2]

theorem inSample_abs (vals : List Int) (c : Int) :
    toInSample ⟨vals, false⟩ (some c) = .ok ⟨vals.filter (fun v => decide (v - c ≤ 0)), false⟩ := by
  simp only [toInSample, inSampleMask, toRelative, Except.map, Bool.false_eq_true, if_false]
  rw [maskSelect_map' vals (· - c) (fun v => decide (v ≤ 0))]

theorem outSample_abs (vals : List Int) (c : Int) :
    toOutOfSample ⟨vals, false⟩ (some c) = .ok ⟨vals.filter (fun v => decide (v - c > 0)), false⟩ := by
  simp only [toOutOfSample, outOfSampleMask, toRelative, Except.map, Bool.false_eq_true, if_false]
  rw [maskSelect_map' vals (· - c) (fun v => decide (v > 0))]

theorem inSample_rel (vals : List Int) (c : Option Int) :
    toInSample ⟨vals, true⟩ c = .ok ⟨vals.filter (fun v => decide (v ≤ 0)), true⟩ := by
  simp only [toInSample, inSampleMask, toRelative, Except.map, if_true]
  rw [maskSelect_map]

theorem outSample_rel (vals : List Int) (c : Option Int) :
    toOutOfSample ⟨vals, true⟩ c = .ok ⟨vals.filter (fun v => decide (v > 0)), true⟩ := by
  simp only [toOutOfSample, outOfSampleMask, toRelative, Except.map, if_true]
  rw [maskSelect_map]

theorem partition (fh : FH) (c : Int) (hs : fh.vals.Pairwise (· < ·))
    (i o : FH) (hi : toInSample fh (some c) = .ok i) (ho : toOutOfSample fh (some c) = .ok o) :
    i.vals ++ o.vals = fh.vals ∧
    i.vals = fh.vals.filter (fun v => decide ((if fh.rel then v else v - c) ≤ 0)) ∧
    o.vals = fh.vals.filter (fun v => decide ((if fh.rel then v else v - c) > 0)) := by
  obtain ⟨vals, rel⟩ := fh
  cases rel with
  | true =>
    rw [inSample_rel] at hi; rw [outSample_rel] at ho
    cases hi; cases ho
    simp only [if_true]
    exact ⟨filter_split vals 0 hs, trivial, trivial⟩
  | false =>
    rw [inSample_abs] at hi; rw [outSample_abs] at ho
    cases hi; cases ho
    simp only [Bool.false_eq_true, if_false]
    refine ⟨?_, trivial, trivial⟩
    have := filter_split vals c hs
    have e1 : (fun v : Int => decide (v ≤ c)) = (fun v => decide (v - c ≤ 0)) := by
      funext v; simp only [decide_eq_decide]; omega
    have e2 : (fun v : Int => decide (v > c)) = (fun v => decide (v - c > 0)) := by
      funext v; simp only [decide_eq_decide]; omega
    rw [e1, e2] at this; exact this

theorem count_true_eq_len (l : List Int) (p : Int → Bool) :
    (((l.map p).filter id).length == l.length) = decide (∀ v ∈ l, p v = true) := by
  induction l with
  | nil => simp
  | cons a l ih =>
    have hle : ((l.map p).filter id).length ≤ l.length := by
      have := List.length_filter_le id (l.map p); simpa using this
    cases hp : p a with
    | true =>
      simp only [List.map_cons, hp, List.filter_cons, id, if_true, List.length_cons]
      have : ((((l.map p).filter id).length + 1 == l.length + 1)) = ((((l.map p).filter id).length == l.length)) := by
        simp
      rw [this, ih]; simp [hp]
    | false =>
      simp only [List.map_cons, hp, List.filter_cons, id, Bool.false_eq_true, if_false, List.length_cons]
      have h1 : (((l.map p).filter id).length == l.length + 1) = false := by
        simp only [beq_eq_false_iff_ne, ne_eq]; omega
      rw [h1]; simp [hp]

theorem all_in_iff (fh : FH) (c : Int) :
    isAllInSample fh (some c) = .ok (decide (∀ v ∈ fh.vals, (if fh.rel then v else v - c) ≤ 0)) := by
  obtain ⟨vals, rel⟩ := fh
  cases rel with
  | true =>
    simp only [isAllInSample, inSampleMask, toRelative, Except.map, if_true]
    rw [count_true_eq_len]; simp
  | false =>
    simp only [isAllInSample, inSampleMask, toRelative, Except.map, Bool.false_eq_true, if_false, List.map_map]
    have := count_true_eq_len vals ((fun v => decide (v ≤ 0)) ∘ (· - c))
    rw [this]; simp

theorem all_out_iff (fh : FH) (c : Int) :
    isAllOutOfSample fh (some c) = .ok (decide (∀ v ∈ fh.vals, (if fh.rel then v else v - c) > 0)) := by
  obtain ⟨vals, rel⟩ := fh
  cases rel with
  | true =>
    simp only [isAllOutOfSample, outOfSampleMask, toRelative, Except.map, if_true]
    rw [count_true_eq_len]; simp
  | false =>
    simp only [isAllOutOfSample, outOfSampleMask, toRelative, Except.map, Bool.false_eq_true, if_false, List.map_map]
    have := count_true_eq_len vals ((fun v => decide (v > 0)) ∘ (· - c))
    rw [this]; simp

end SkVerif.Lem
