/-
Helper lemmas for C07, part 4: which fold a call of the trace belongs to, the time points it
carries, and the shape lemmas that turn C01's fold shapes into `FoldOK`.
-/
import SkVerif.Lemmas.EvaluateRefine
import SkVerif.Lemmas.SplitProps
import Mathlib.Data.List.Infix
namespace SkVerif.Lem.Ev
open SkVerif SkVerif.Split SkVerif.Evaluate SkVerif.Evaluate.Spec

variable {α ξ : Type}

/-- a call among the first `2(k+1)` honest calls belongs to one of the folds `0..k` -/
theorem honestTrace_take_mem (strategy : Strategy) (fp : Option Int) (ds : List (FoldData α ξ)) (i k : Nat)
    (c : Call α ξ) (h : c ∈ (honestTrace strategy fp i ds).take (2 * (k + 1))) :
    ∃ j d, j ≤ k ∧ ds[j]? = some d ∧ c ∈ honestCalls strategy fp (i + j) d := by
  induction ds generalizing i k with
  | nil => simp [honestTrace] at h
  | cons d ds ih =>
    have e : 2 * (k + 1) = (2 * k) + 1 + 1 := by omega
    simp only [honestTrace, honestCalls, List.cons_append, List.nil_append, e, List.take_succ_cons,
      List.mem_cons] at h
    rcases h with h | h | h
    · exact ⟨0, d, by omega, rfl, by simp [honestCalls, h]⟩
    · exact ⟨0, d, by omega, rfl, by simp [honestCalls, h]⟩
    · cases k with
      | zero => simp at h
      | succ k =>
        obtain ⟨j, d', hj, hd, hc⟩ := ih (i + 1) k h
        refine ⟨j + 1, d', by omega, by simpa using hd, ?_⟩
        have : i + (j + 1) = i + 1 + j := by omega
        rw [this]; exact hc

/-- a training time point of an honest call is a label of the fold's training data -/
theorem obsLabels_honestCalls (strategy : Strategy) (fp : Option Int) (i : Nat) (d : FoldData α ξ) (c : Call α ξ)
    (hc : c ∈ honestCalls strategy fp i d) (l : Int) (hl : l ∈ obsLabels c) :
    l ∈ labels d.yTrain ∨ ∃ X, d.xTrain = some X ∧ l ∈ labels X := by
  simp only [honestCalls, List.mem_cons, List.not_mem_nil, or_false] at hc
  rcases hc with rfl | rfl
  · split at hl
    · simp only [obsLabels, List.mem_append] at hl
      rcases hl with h | h
      · exact Or.inl h
      · cases hx : d.xTrain with
        | none => simp [hx] at h
        | some X => exact Or.inr ⟨X, rfl, by simpa [hx] using h⟩
    · simp only [obsLabels, List.mem_append] at hl
      rcases hl with h | h
      · exact Or.inl h
      · cases hx : d.xTrain with
        | none => simp [hx] at h
        | some X => exact Or.inr ⟨X, rfl, by simpa [hx] using h⟩
  · simp [obsLabels] at hl

theorem mem_labels_sel (s : Series α) (ps : List Int) (l : Int) (h : l ∈ labels (sel s ps)) :
    ∃ p ∈ ps, 0 ≤ p ∧ ∃ v, s[p.toNat]? = some (l, v) := by
  simp only [labels, List.mem_map] at h
  obtain ⟨e, he, rfl⟩ := h
  obtain ⟨p, hp, h0, hs⟩ := mem_sel s ps e he
  exact ⟨p, hp, h0, e.2, hs⟩

theorem label_transfer {γ δ : Type} (X : Series γ) (y : Series δ) (h : labels X = labels y) (n : Nat) (l : Int) (v : γ)
    (hx : X[n]? = some (l, v)) : ∃ w, y[n]? = some (l, w) := by
  have h1 : (labels X)[n]? = some l := by simp [labels, hx]
  rw [h] at h1
  simp only [labels, List.getElem?_map, Option.map_eq_some_iff] at h1
  obtain ⟨e, he, rfl⟩ := h1
  exact ⟨e.2, he⟩

/-- core of the no-leak theorem: any training time point carried by a call among the first
`2(k+1)` calls of (a prefix of) the honest trace lies before every test time point of fold `k` -/
theorem no_future_core (y : Series α) (X : Option (Series ξ)) (hy : StrictLabels y)
    (hXl : ∀ X', X = some X' → labels X' = labels y) (fhMin : Int) (fs : List Fold)
    (hok : FoldsOK y.length fhMin fs) (strategy : Strategy) (fp : Option Int) (tr : List (Call α ξ))
    (htr : tr <+: honestTrace strategy fp 0 (fs.map (foldData y X fhMin)))
    (k : Nat) (f : Fold) (hf : fs[k]? = some f) (c : Call α ξ) (hc : c ∈ tr.take (2 * (k + 1)))
    (l : Int) (hl : l ∈ obsLabels c) (lt : Int) (hlt : lt ∈ labels (sel y f.2)) : l < lt := by
  have hc' : c ∈ (honestTrace strategy fp 0 (fs.map (foldData y X fhMin))).take (2 * (k + 1)) :=
    (List.IsPrefix.take htr _).subset hc
  obtain ⟨j, d, hjk, hd, hcd⟩ := honestTrace_take_mem strategy fp _ 0 k c hc'
  simp only [List.getElem?_map, Option.map_eq_some_iff] at hd
  obtain ⟨g, hg, rfl⟩ := hd
  -- the position of `l` in the series is a training position of fold `j`
  have hpos : ∃ p ∈ g.1, 0 ≤ p ∧ ∃ v, y[p.toNat]? = some (l, v) := by
    rcases obsLabels_honestCalls strategy fp _ _ c hcd l hl with h | ⟨X', hX', h⟩
    · exact mem_labels_sel y g.1 l h
    · cases hX : X with
      | none => simp [foldData, hX] at hX'
      | some X0 =>
        simp only [foldData, hX, Option.map_some, Option.some.injEq] at hX'
        subst hX'
        obtain ⟨p, hp, h0, v, hv⟩ := mem_labels_sel X0 g.1 l h
        obtain ⟨w, hw⟩ := label_transfer X0 y (hXl X0 hX) _ l v hv
        exact ⟨p, hp, h0, w, hw⟩
  obtain ⟨p, hp, hp0, v, hv⟩ := hpos
  obtain ⟨q, hq, hq0, w, hw⟩ := mem_labels_sel y f.2 lt hlt
  have hgm : g ∈ fs := List.mem_of_getElem? hg
  have hfm : f ∈ fs := List.mem_of_getElem? hf
  have hpq : p < q := by
    rcases Nat.lt_or_eq_of_le hjk with hlt' | heq
    · obtain ⟨hj', hgj⟩ := List.getElem?_eq_some_iff.mp hg
      obtain ⟨hk', hfk⟩ := List.getElem?_eq_some_iff.mp hf
      have := (List.pairwise_iff_getElem.mp hok.earlier_fold) j k hj' hk' hlt'
      rw [hgj, hfk] at this
      exact this p hp q hq
    · subst heq
      rw [hg] at hf
      cases hf
      exact (hok.each f hfm).train_lt_test p hp q hq
  have := label_lt_of_pos_lt y hy p.toNat q.toNat (l, v) (lt, w) hv hw (by omega)
  exact this

/-! ### fold shapes -/

theorem xRows_shape (fh : List Int) (hne : fh ≠ []) (c a : Int) :
    xRows (fhMin fh) (arange a (c + 1), fh.map (c + ·)) = arange (c + 1) (c + fhMax fh + 1) := by
  obtain ⟨h0, hh0⟩ : ∃ h0, fh.head? = some h0 := by
    cases fh with
    | nil => exact absurd rfl hne
    | cons x l => exact ⟨x, rfl⟩
  obtain ⟨hl, hhl⟩ : ∃ hl, fh.getLast? = some hl := ⟨fh.getLast hne, List.getLast?_eq_some_getLast hne⟩
  simp only [xRows, List.head?_map, List.getLast?_map, hh0, hhl, Option.map_some, fhMin, fhMax, Option.getD_some]
  rw [Lem.arange_map_succ]
  congr 1; omega

/-- a fold `train = [a, c]`, `test = c + fh` with `0 ≤ a ≤ c`, `c + max(fh) ≤ n − 1` and a strictly
increasing positive horizon satisfies all per-fold guarantees -/
theorem foldOK_of_shape (n : Int) (fh : List Int) (hs : fh.Pairwise (· < ·)) (hne : fh ≠ []) (hpos : ∀ h ∈ fh, 0 < h)
    (c a : Int) (ha : 0 ≤ a) (hac : a ≤ c) (hc : c + fhMax fh ≤ n - 1) :
    FoldOK n (fhMin fh) (arange a (c + 1), fh.map (c + ·)) := by
  refine ⟨?_, ?_, ?_, ?_, ?_, ?_, ?_⟩
  · intro p hp
    rw [xRows_shape fh hne] at hp
    have := (Lem.arange_mem _ _ p).mp hp
    omega
  · intro p hp
    have := (Lem.arange_mem _ _ p).mp hp
    have hfm : 0 < fhMax fh := hpos _ (Lem.fhMax_mem fh hne)
    omega
  · intro q hq
    obtain ⟨h, hh, rfl⟩ := List.mem_map.mp hq
    have := hpos h hh
    have := Lem.le_fhMax fh hs h hh
    omega
  · intro hnil
    have : a ∈ arange a (c + 1) := (Lem.arange_mem _ _ a).mpr ⟨by omega, by omega⟩
    simp only at hnil
    rw [hnil] at this
    simp at this
  · simpa using hne
  · simp only
    rw [List.pairwise_map]
    exact hs.imp (by intro x y hxy; omega)
  · intro p hp q hq
    have := (Lem.arange_mem _ _ p).mp hp
    obtain ⟨h, hh, rfl⟩ := List.mem_map.mp hq
    have := hpos h hh
    omega

end SkVerif.Lem.Ev

namespace SkVerif.Lem.Ev
open SkVerif SkVerif.Split SkVerif.Evaluate SkVerif.Evaluate.Spec

variable {σ α ξ β : Type}

/-- every returned row comes from a successful training call followed by a successful predict on
the corresponding fold data -/
theorem loopD_forall₂ (c : Ctx σ α ξ β) (ds : List (FoldData α ξ)) (i : Nat) (st : σ) (rows : List (Row α β))
    (h : (loopD c i st ds).2 = .ok rows) :
    List.Forall₂ (fun d row => ∃ j s s1 s2 p, trainOp c j s d = .ok s1 ∧ c.m.predict s1 d.fh d.xTest = .ok (s2, p) ∧
      row = mkRow c d s2 p) ds rows := by
  induction ds generalizing i st rows with
  | nil => simp only [loopD] at h; cases h; exact List.Forall₂.nil
  | cons d ds ih =>
    cases hs : stepD c i st d with
    | mk tr r =>
      cases r with
      | error e => rw [loopD_cons_err c i st d ds tr e hs] at h; simp at h
      | ok v =>
        obtain ⟨st', row⟩ := v
        rw [loopD_cons_ok c i st st' d ds tr row hs] at h
        cases hr : (loopD c (i + 1) st' ds).2 with
        | error e => rw [hr] at h; simp [consOk] at h
        | ok rows' =>
          rw [hr] at h
          simp only [consOk, Except.ok.injEq] at h
          subst h
          refine List.Forall₂.cons ?_ (ih (i + 1) st' rows' hr)
          cases ht : trainOp c i st d with
          | error e' => rw [stepD_train_err c i st d e' ht] at hs; cases hs
          | ok st1 =>
            cases hp : c.m.predict st1 d.fh d.xTest with
            | error e' => rw [stepD_pred_err c i st st1 d e' ht hp] at hs; cases hs
            | ok v =>
              rw [stepD_ok c i st st1 v.1 d v.2 ht hp] at hs
              cases hs
              exact ⟨i, st, st1, v.1, v.2, ht, hp, rfl⟩

/-- a forecaster that never raises -/
structure Total (m : Machine σ α ξ) : Prop where
  fit : ∀ s y X fh p, ∃ s', m.fit s y X fh p = .ok s'
  update : ∀ s y X, ∃ s', m.update s y X = .ok s'
  predict : ∀ s fh X, ∃ r, m.predict s fh X = .ok r

theorem loopD_total (c : Ctx σ α ξ β) (ht : Total c.m) (ds : List (FoldData α ξ)) (i : Nat) (st : σ) :
    ∃ rows, (loopD c i st ds).2 = .ok rows := by
  induction ds generalizing i st with
  | nil => exact ⟨[], rfl⟩
  | cons d ds ih =>
    have h1 : ∃ s1, trainOp c i st d = .ok s1 := by
      unfold trainOp
      split
      · exact ht.fit _ _ _ _ _
      · exact ht.update _ _ _
    obtain ⟨s1, h1⟩ := h1
    obtain ⟨⟨s2, p⟩, h2⟩ := ht.predict s1 d.fh d.xTest
    obtain ⟨rows, hr⟩ := ih (i + 1) s2
    rw [loopD_cons_ok c i st s2 d ds _ _ (stepD_ok c i st s1 s2 d p h1 h2), hr]
    exact ⟨_, rfl⟩

end SkVerif.Lem.Ev
