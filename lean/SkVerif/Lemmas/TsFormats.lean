/-
The `.tsv` and `.arff` parser models invert the canonical renderings of Spec/TsFormats.lean.
Core Lean only.
-/
import SkVerif.Spec.TsFormats
import SkVerif.Lemmas.TsRoundTrip
namespace SkVerif.TsFile.Lem
open SkVerif.TsFile SkVerif.TsFile.Spec

theorem mapM_ok_of_forall {α β : Type} (f : α → Except Err β) (g : α → β) :
    ∀ (l : List α), (∀ x ∈ l, f x = .ok (g x)) → l.mapM f = .ok (l.map g)
  | [], _ => rfl
  | a :: l, h => by
    rw [List.mapM_cons, h a (by simp), mapM_ok_of_forall f g l (fun x hx => h x (by simp [hx]))]
    rfl

/-- a token / class value usable in all three formats -/
structure PlainTok (t : Str) : Prop where
  noTab : '\t' ∉ t

structure PlainLabel (l : Str) : Prop where
  noTab : '\t' ∉ l
  noComma : ',' ∉ l
  noNl : '\n' ∉ l
  noQ : '?' ∉ l

theorem exists_nonspace_of_validSeries {r : List Str} (h : ValidSeries r) :
    ∃ t ∈ r, ∃ c ∈ t, isSpace c = false := by
  obtain ⟨hne, hv⟩ := h
  cases r with
  | nil => exact absurd rfl hne
  | cons t ts =>
    have h1 := strip_ne_nil_of_float (hv t (by simp)).isNum
    refine ⟨t, by simp, ?_⟩
    apply Classical.byContradiction
    intro hno
    apply h1
    apply strip_eq_nil.mpr
    intro c hc
    cases hsp : isSpace c with
    | true => rfl
    | false => exact absurd ⟨c, hc, hsp⟩ hno

/-! ### tsv -/

theorem tsv_line (r : List Str) (v : Str) (hr : ValidSeries r) (hp : ∀ t ∈ r, PlainTok t) (hv : PlainLabel v) :
    strip (join ['\t'] (v :: r)) ≠ [] ∧ splitOn '\t' (join ['\t'] (v :: r)) = v :: r ∧
    '\n' ∉ join ['\t'] (v :: r) := by
  obtain ⟨t, ht, c, hc, hsp⟩ := exists_nonspace_of_validSeries hr
  refine ⟨strip_ne_nil_of_mem (mem_join_of_mem (List.mem_cons_of_mem _ ht) hc) hsp, ?_, ?_⟩
  · apply splitOn_join _ _ (by simp)
    intro p hp'
    rcases List.mem_cons.mp hp' with e | e
    · rw [e]; exact hv.noTab
    · exact (hp p e).noTab
  · apply not_mem_join (by decide)
    intro p hp'
    rcases List.mem_cons.mp hp' with e | e
    · rw [e]; exact hv.noNl
    · exact (hr.2 p e).noNl

theorem tsv_rows : ∀ (panel : List (List Str)) (vals : List Str), vals.length = panel.length →
    (∀ s ∈ panel, ValidSeries s ∧ ∀ t ∈ s, PlainTok t) → (∀ l ∈ vals, PlainLabel l) →
    ((tsvLines panel vals).filter (fun l => strip l ≠ [])).map (splitOn '\t')
      = List.zipWith (fun v r => v :: r) vals panel ∧ ∀ l ∈ tsvLines panel vals, '\n' ∉ l
  | [], [], _, _, _ => by simp [tsvLines]
  | [], _ :: _, h, _, _ => by simp at h
  | _ :: _, [], h, _, _ => by simp at h
  | r :: rs, v :: vs, hlen, hp, hl => by
    obtain ⟨h1, h2, h3⟩ := tsv_line r v (hp r (by simp)).1 (hp r (by simp)).2 (hl v (by simp))
    obtain ⟨ih1, ih2⟩ := tsv_rows rs vs (by simpa using hlen) (fun s hs => hp s (by simp [hs]))
      (fun l hl' => hl l (by simp [hl']))
    constructor
    · simp only [tsvLines, List.filter_cons, h1, ne_eq, not_false_eq_true, decide_true, if_true,
        List.map_cons, h2, List.zipWith_cons_cons, ih1]
    · intro l hm
      simp only [tsvLines, List.mem_cons] at hm
      rcases hm with e | e
      · rw [e]; exact h3
      · exact ih2 l e

theorem zipWith_cons_mapM : ∀ (panel : List (List Str)) (vals : List Str), vals.length = panel.length →
    (∀ s ∈ panel, ValidSeries s) →
    (List.zipWith (fun v r => v :: r) vals panel).mapM (fun r => floats (r.drop 1))
      = .ok (panel.map (·.map tokVal)) ∧
    (List.zipWith (fun v r => v :: r) vals panel).map (fun r => strip (r.headD [])) = vals.map strip
  | [], [], _, _ => ⟨rfl, rfl⟩
  | [], _ :: _, h, _ => by simp at h
  | _ :: _, [], h, _ => by simp at h
  | r :: rs, v :: vs, hlen, hp => by
    obtain ⟨ih1, ih2⟩ := zipWith_cons_mapM rs vs (by simpa using hlen) (fun s hs => hp s (by simp [hs]))
    constructor
    · rw [List.zipWith_cons_cons, List.mapM_cons, ih1]
      simp only [List.drop_succ_cons, List.drop_zero]
      rw [floats_of_valid r (fun t ht => ((hp r (by simp)).2 t ht).isNum)]
      rfl
    · rw [List.zipWith_cons_cons, List.map_cons, ih2]; rfl

/-- the `.tsv` parser inverts the `.tsv` rendering -/
theorem parseTsv_render (panel : List (List Str)) (vals : List Str) (hlen : vals.length = panel.length)
    (hp : ∀ s ∈ panel, ValidSeries s ∧ ∀ t ∈ s, PlainTok t) (hl : ∀ l ∈ vals, PlainLabel l) :
    parseTsv (renderTsv panel vals) = .ok ⟨[panel.map (·.map tokVal)], some (vals.map strip)⟩ := by
  obtain ⟨h1, h2⟩ := tsv_rows panel vals hlen hp hl
  obtain ⟨h3, h4⟩ := zipWith_cons_mapM panel vals hlen (fun s hs => (hp s hs).1)
  simp only [parseTsv, renderTsv, lines_unlines _ h2, h1, h3, h4]

/-! ### arff (non-relational) -/

/-- a line that neither opens the data section nor switches the parser to the relational grammar -/
def ArffQuiet (l : Str) : Prop :=
  contains kwData (lower l) = false ∧ contains kwRelational (lower l) = false

instance (l : Str) : Decidable (ArffQuiet l) := by unfold ArffQuiet; infer_instance

theorem arffStep_header (st : ArffSt) (l : Str) (hq : ArffQuiet l) (hs : st.started = false)
    (hm : st.multi = false) : arffStep true st l = .ok st := by
  by_cases hb : strip l = []
  · simp [arffStep, hb]
  · simp [arffStep, hb, hq.1, hq.2, hs, hm]

theorem arffStep_tag (st : ArffSt) (l : Str) (h1 : strip l ≠ []) (h2 : contains kwData (lower l) = true)
    (h3 : contains kwRelational (lower l) = false) (hm : st.multi = false) :
    arffStep true st l = .ok { st with started := true } := by
  simp [arffStep, h1, h2, h3, hm]

theorem arffStep_dataTag (st : ArffSt) (hm : st.multi = false) :
    arffStep true st "@data".toList = .ok { st with started := true } :=
  arffStep_tag st _ (by decide) (by rfl) (by rfl) hm

theorem dropLast_append_singleton (r : List Str) (v : Str) : (r ++ [v]).dropLast = r := by
  simp

theorem getLastD_append_singleton (r : List Str) (v d : Str) : (r ++ [v]).getLastD d = v := by
  simp

/-- one `v1,…,vn,label` line -/
theorem arffStep_row (st : ArffSt) (r : List Str) (v : Str) (acc : List Series)
    (hr : ValidSeries r) (hv : PlainLabel v) (hq : ArffQuiet (join [','] (r ++ [v])))
    (hs : st.started = true) (hm : st.multi = false)
    (hi : (st.first = true ∧ acc = []) ∨ (st.first = false ∧ st.inst = [acc])) :
    arffStep true st (join [','] (r ++ [v]))
      = .ok { st with first := false, inst := [acc ++ [r.map tokVal]], labels := st.labels ++ [strip v] } := by
  obtain ⟨t, ht, c, hc, hsp⟩ := exists_nonspace_of_validSeries hr
  have hb : strip (join [','] (r ++ [v])) ≠ [] :=
    strip_ne_nil_of_mem (mem_join_of_mem (List.mem_append_left _ ht) hc) hsp
  have hqm : '?' ∉ join [','] (r ++ [v]) := by
    apply not_mem_join (by decide)
    intro p hp
    rcases List.mem_append.mp hp with e | e
    · exact (hr.2 p e).noQ
    · simp only [List.mem_singleton] at e; rw [e]; exact hv.noQ
  have hsplit : splitOn ',' (join [','] (r ++ [v])) = r ++ [v] := by
    apply splitOn_join _ _ (by simp)
    intro p hp
    rcases List.mem_append.mp hp with e | e
    · exact (hr.2 p e).noComma
    · simp only [List.mem_singleton] at e; rw [e]; exact hv.noComma
  have hfl : floats r = .ok (r.map tokVal) := floats_of_valid r (fun t ht => (hr.2 t ht).isNum)
  rcases hi with ⟨h1, h2⟩ | ⟨h1, h2⟩
  · subst h2
    simp [arffStep, hb, hq.1, hq.2, hs, hm, replaceQ_of_not_mem hqm, hsplit, hfl, h1, appendRowArff,
      Except.map]
  · simp [arffStep, hb, hq.1, hq.2, hs, hm, replaceQ_of_not_mem hqm, hsplit, hfl, h1, h2, appendRowArff,
      Except.map]

theorem arffRun_cons_ok {st st' : ArffSt} {l : Str} (ls : List Str) (h : arffStep true st l = .ok st') :
    arffRun true st (l :: ls) = arffRun true st' ls := by
  simp [arffRun, h]

theorem arffRun_header : ∀ (H : List Str) (st : ArffSt), (∀ l ∈ H, ArffQuiet l) → st.started = false →
    st.multi = false → ∀ rest, arffRun true st (H ++ rest) = arffRun true st rest
  | [], _, _, _, _, _ => rfl
  | l :: H, st, hq, hs, hm, rest => by
    rw [List.cons_append, arffRun_cons_ok _ (arffStep_header st l (hq l (by simp)) hs hm)]
    exact arffRun_header H st (fun x hx => hq x (by simp [hx])) hs hm rest

/-- hypotheses on one instance for the arff rendering -/
def ArffRowOk (r : List Str) (v : Str) : Prop :=
  ValidSeries r ∧ PlainLabel v ∧ ArffQuiet (join [','] (r ++ [v]))

/-- rows after the first -/
theorem arffRun_rows : ∀ (panel : List (List Str)) (vals : List Str) (st : ArffSt) (acc : List Series),
    vals.length = panel.length → (∀ p ∈ List.zip panel vals, ArffRowOk p.1 p.2) →
    st.started = true → st.multi = false → st.first = false → st.inst = [acc] →
    ∃ st', arffRun true st (arffLines panel vals) = .ok st' ∧
      st'.inst = [acc ++ panel.map (·.map tokVal)] ∧ st'.labels = st.labels ++ vals.map strip
  | [], [], st, acc, _, _, _, _, _, hi => ⟨st, rfl, by simpa using hi, by simp⟩
  | [], _ :: _, _, _, h, _, _, _, _, _ => by simp at h
  | _ :: _, [], _, _, h, _, _, _, _, _ => by simp at h
  | r :: rs, v :: vs, st, acc, hlen, hrow, hs, hm, hf, hi => by
    obtain ⟨h1, h2, h3⟩ := hrow (r, v) (by simp)
    have hstep := arffStep_row st r v acc h1 h2 h3 hs hm (Or.inr ⟨hf, hi⟩)
    obtain ⟨st', hrun, hI, hL⟩ := arffRun_rows rs vs
      { st with first := false, inst := [acc ++ [r.map tokVal]], labels := st.labels ++ [strip v] }
      (acc ++ [r.map tokVal]) (by simpa using hlen)
      (fun p hp => hrow p (by simp [hp])) hs hm rfl rfl
    refine ⟨st', ?_, ?_, ?_⟩
    · simp only [arffLines]; rw [arffRun_cons_ok _ hstep, hrun]
    · simpa [List.append_assoc] using hI
    · simpa [List.append_assoc] using hL

theorem arffLines_no_nl : ∀ (panel : List (List Str)) (vals : List Str),
    (∀ p ∈ List.zip panel vals, ArffRowOk p.1 p.2) → ∀ l ∈ arffLines panel vals, '\n' ∉ l
  | [], _, _ => by simp [arffLines]
  | _ :: _, [], _ => by simp [arffLines]
  | r :: rs, v :: vs, hrow => by
    intro l hm
    simp only [arffLines, List.mem_cons] at hm
    obtain ⟨h1, h2, _⟩ := hrow (r, v) (by simp)
    rcases hm with e | e
    · rw [e]
      apply not_mem_join (by decide)
      intro p hp
      rcases List.mem_append.mp hp with e' | e'
      · exact (h1.2 p e').noNl
      · simp only [List.mem_singleton] at e'; rw [e']; exact h2.noNl
    · exact arffLines_no_nl rs vs (fun p hp => hrow p (by simp [hp])) l e

/-- state after the first row -/
def arffSt1 (row : Series) (lab : Str) : ArffSt :=
  { started := true, multi := false, first := false, inst := [[row]], labels := [lab] }

/-- the `.arff` parser inverts the `.arff` rendering -/
theorem parseArff_render (header : List Str) (panel : List (List Str)) (vals : List Str)
    (hne : panel ≠ []) (hlen : vals.length = panel.length)
    (hH : ∀ l ∈ header, ArffQuiet l ∧ '\n' ∉ l)
    (hrow : ∀ p ∈ List.zip panel vals, ArffRowOk p.1 p.2) :
    parseArff true (renderArff header panel vals)
      = .ok ⟨[panel.map (·.map tokVal)], some (vals.map strip)⟩ := by
  have hnl : ∀ l ∈ header ++ "@data".toList :: arffLines panel vals, '\n' ∉ l := by
    intro l hm
    rcases List.mem_append.mp hm with e | e
    · exact (hH l e).2
    · rcases List.mem_cons.mp e with e | e
      · rw [e]; decide
      · exact arffLines_no_nl panel vals hrow l e
  match panel, vals, hne, hlen, hrow with
  | r :: rs, v :: vs, _, hlen, hrow =>
    obtain ⟨h1, h2, h3⟩ := hrow (r, v) (by simp)
    have hstep0 : arffStep true { ({} : ArffSt) with started := true } (join [','] (r ++ [v]))
        = .ok (arffSt1 (r.map tokVal) (strip v)) :=
      arffStep_row { ({} : ArffSt) with started := true } r v [] h1 h2 h3 rfl rfl (Or.inl ⟨rfl, rfl⟩)
    obtain ⟨st', hrun, hI, hL⟩ := arffRun_rows rs vs (arffSt1 (r.map tokVal) (strip v)) [r.map tokVal]
      (by simpa using hlen) (fun p hp => hrow p (by simp [hp])) rfl rfl rfl rfl
    have hall : arffRun true {} (header ++ "@data".toList :: arffLines (r :: rs) (v :: vs)) = .ok st' := by
      rw [arffRun_header header {} (fun l hl => (hH l hl).1) rfl rfl,
        arffRun_cons_ok _ (arffStep_dataTag {} rfl)]
      simp only [arffLines]
      rw [arffRun_cons_ok _ hstep0, hrun]
    simp only [parseArff, renderArff, lines_unlines _ hnl, hall, hI]
    simp [hL, arffSt1]
  | _ :: _, [], _, hlen, _ => simp at hlen

end SkVerif.TsFile.Lem
