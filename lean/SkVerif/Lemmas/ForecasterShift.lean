import SkVerif.Lemmas.Forecaster
namespace SkVerif.Lem
open SkVerif SkVerif.Fc

/-! # Label-shift equivariance of the forecaster state machine -/

def shiftFH (k : Int) (f : FH.FH) : FH.FH := if f.rel then f else ⟨f.vals.map (· + k), false⟩
def shiftFhArg (k : Int) (a : FhArg) : FhArg := if a.2 then a else (a.1.map (· + k), false)

def shiftState (k : Int) (s : FState) : FState :=
  { s with y := Series.shift k s.y, cutoff := s.cutoff.map (· + k), fh := s.fh.map (shiftFH k) }

def shiftOp (k : Int) : Op → Op
  | .fit y fh => .fit (Series.shift k y) (fh.map (shiftFhArg k))
  | .predict fh => .predict (fh.map (shiftFhArg k))
  | .update y up => .update (Series.shift k y) up
  | .updatePredict y cv up => .updatePredict (Series.shift k y) cv up
  | .updatePredictSingle y fh up => .updatePredictSingle (Series.shift k y) (fh.map (shiftFhArg k)) up

def shiftOut (k : Int) : Out → Out
  | .done => .done
  | .series s => .series (Series.shift k s)
  | .frame cols rows => .frame (cols.map (· + k)) (rows.map (fun r => (r.1 + k, r.2)))
  | .err e => .err e

@[simp] theorem shift_nil (k : Int) : Series.shift k [] = [] := rfl
@[simp] theorem shift_cons (k : Int) (o : Obs) (t : Series) :
    Series.shift k (o :: t) = (o.1 + k, o.2) :: Series.shift k t := rfl
@[simp] theorem shift_length (k : Int) (y : Series) : (Series.shift k y).length = y.length := by
  simp [Series.shift]
theorem shift_append (k : Int) (a b : Series) :
    Series.shift k (a ++ b) = Series.shift k a ++ Series.shift k b := by simp [Series.shift]
theorem shift_getLast (k : Int) (y : Series) :
    (Series.shift k y).getLast? = y.getLast?.map (fun o => (o.1 + k, o.2)) := by
  simp [Series.shift, List.getLast?_map]
theorem shift_head (k : Int) (y : Series) :
    (Series.shift k y).head? = y.head?.map (fun o => (o.1 + k, o.2)) := by
  simp [Series.shift, List.head?_map]
theorem shift_values (k : Int) (y : Series) : (Series.shift k y).values = y.values := by
  simp [Series.shift, Series.values, List.map_map, Function.comp_def]
theorem shift_labels (k : Int) (y : Series) : (Series.shift k y).labels = y.labels.map (· + k) := by
  simp [Series.shift, Series.labels, List.map_map, Function.comp_def]

theorem insertBy_map_add (k a : Int) (l : List Int) :
    insertBy (fun a b => decide (a ≤ b)) (a + k) (l.map (· + k)) =
      (insertBy (fun a b => decide (a ≤ b)) a l).map (· + k) := by
  induction l with
  | nil => simp [insertBy]
  | cons b l ih =>
    simp only [List.map_cons, insertBy]
    by_cases h : a ≤ b
    · have : a + k ≤ b + k := by omega
      simp [h, this]
    · have : ¬ a + k ≤ b + k := by omega
      simp [h, this, ih]

theorem sortInts_map_add (k : Int) (l : List Int) :
    sortInts (l.map (· + k)) = (sortInts l).map (· + k) := by
  unfold sortInts
  induction l with
  | nil => simp [isortBy]
  | cons a l ih =>
    simp only [List.map_cons, isortBy]
    rw [ih, insertBy_map_add]

theorem nodup_map_add (k : Int) (l : List Int) : (l.map (· + k)).Nodup ↔ l.Nodup := by
  constructor
  · intro h; exact List.Nodup.of_map _ h
  · intro h; exact List.Nodup.map (by intro a b hab; simp at hab; exact hab) h

theorem checkFhArg_shift (k : Int) (a : FhArg) :
    checkFhArg (shiftFhArg k a) = (checkFhArg a).map (shiftFH k) := by
  obtain ⟨vals, rel⟩ := a
  cases rel with
  | true =>
    simp only [shiftFhArg, ↓reduceIte]
    simp only [checkFhArg, FH.checkFh, FH.mk, FH.checkValues, Bool.not_true, Bool.false_eq_true, ↓reduceIte]
    by_cases hnd : vals.Nodup
    · simp only [hnd, ↓reduceIte, Except.map, bind, Except.bind]
      by_cases hl : (sortInts vals).length = 0
      · simp [hl]
      · simp [hl, pure, Except.pure, shiftFH]
    · simp [hnd, Except.map, bind, Except.bind, ofFhErr]
  | false =>
    simp only [shiftFhArg, Bool.false_eq_true, ↓reduceIte]
    simp only [checkFhArg, FH.checkFh, FH.mk, FH.checkValues, Bool.not_true, Bool.false_eq_true, ↓reduceIte,
      nodup_map_add, sortInts_map_add]
    by_cases hnd : vals.Nodup
    · simp only [hnd, ↓reduceIte, Except.map, bind, Except.bind, List.length_map]
      by_cases hl : (sortInts vals).length = 0
      · simp [hl]
      · simp [hl, pure, Except.pure, shiftFH]
    · simp [hnd, Except.map, bind, Except.bind, ofFhErr]

theorem shiftFH_key_eq (k : Int) (g f : FH.FH) :
    (((shiftFH k g).vals, (shiftFH k g).rel) == ((shiftFH k f).vals, (shiftFH k f).rel)) =
      ((g.vals, g.rel) == (f.vals, f.rel)) := by
  obtain ⟨gv, gr⟩ := g
  obtain ⟨fv, fr⟩ := f
  cases gr <;> cases fr <;> simp [shiftFH]
  · constructor
    · intro h
      exact List.map_injective_iff.mpr (by intro a b hab; simpa using hab) h
    · intro h; rw [h]

theorem setFh_shift (mode : FhMode) (k : Int) (s : FState) (fo : Option FH.FH) :
    setFh mode (shiftState k s) (fo.map (shiftFH k)) =
      (setFh mode s fo).map (Option.map (shiftFH k)) := by
  obtain ⟨fitted, y, cutoff, fh, wlen⟩ := s
  cases mode with
  | optional =>
    cases fo with
    | none => cases fh <;> cases fitted <;> simp [setFh, shiftState, Except.map]
    | some f => simp [setFh, Except.map]
  | required =>
    cases fo with
    | none => cases fitted <;> simp [setFh, shiftState, Except.map]
    | some f =>
      cases fitted with
      | false => simp [setFh, shiftState, Except.map]
      | true =>
        simp only [setFh, shiftState, Option.map_some, ↓reduceIte, Option.map_map]
        cases fh with
        | none => simp [Except.map]
        | some g =>
          simp only [Option.map_some, Function.comp]
          have := shiftFH_key_eq k g f
          have e : (some ((shiftFH k g).vals, (shiftFH k g).rel) == some ((shiftFH k f).vals, (shiftFH k f).rel)) =
              (some (g.vals, g.rel) == some (f.vals, f.rel)) := by
            simpa using this
          rw [e]
          split <;> simp [Except.map]

theorem insertObs_shift (k : Int) (acc : Series) (l : Int) (v : ORat) :
    Series.insertObs (Series.shift k acc) (l + k) v = Series.shift k (Series.insertObs acc l v) := by
  induction acc with
  | nil => simp [Series.insertObs]
  | cons a t ih =>
    obtain ⟨l', v'⟩ := a
    simp only [shift_cons, Series.insertObs]
    by_cases h1 : l < l'
    · have : l + k < l' + k := by omega
      simp [h1, this]
    · have h1' : ¬ l + k < l' + k := by omega
      by_cases h2 : l = l'
      · have : l + k = l' + k := by omega
        simp [h1, h1', h2]
      · have : ¬ l + k = l' + k := by omega
        simp [h1, h1', h2, this, ih]

theorem combineFirst_shift (k : Int) (y old : Series) :
    Series.combineFirst (Series.shift k y) (Series.shift k old) =
      Series.shift k (Series.combineFirst y old) := by
  unfold Series.combineFirst
  induction y generalizing old with
  | nil => simp
  | cons a t ih =>
    simp only [shift_cons, List.foldl_cons]
    rw [insertObs_shift, ih]

theorem locSlice_shift (k : Int) (y : Series) (a b : Int) :
    Series.locSlice (Series.shift k y) (a + k) (b + k) = Series.shift k (Series.locSlice y a b) := by
  unfold Series.locSlice Series.shift
  rw [List.filter_map]
  congr 1
  apply List.filter_congr
  intro o _
  simp only [Function.comp]
  have e1 : decide (a + k ≤ o.1 + k) = decide (a ≤ o.1) := by simp only [decide_eq_decide]; omega
  have e2 : decide (o.1 + k ≤ b + k) = decide (o.1 ≤ b) := by simp only [decide_eq_decide]; omega
  rw [e1, e2]

theorem iloc_shift (k : Int) (y : Series) (ps : List Int) :
    Series.iloc (Series.shift k y) ps = Series.shift k (Series.iloc y ps) := by
  unfold Series.iloc
  induction ps with
  | nil => simp
  | cons p ps ih =>
    simp only [List.filterMap_cons]
    by_cases hp : p < 0
    · simp [hp, ih]
    · simp only [hp, ↓reduceIte]
      have : (Series.shift k y)[p.toNat]? = (y[p.toNat]?).map (fun o => (o.1 + k, o.2)) := by
        simp [Series.shift]
      rw [this]
      cases y[p.toNat]? with
      | none => simpa using ih
      | some o => simp [ih]

end SkVerif.Lem

namespace SkVerif.Lem
open SkVerif SkVerif.Fc

@[simp] theorem shiftState_wlen (k : Int) (s : FState) : (shiftState k s).wlen = s.wlen := rfl
@[simp] theorem shiftState_y (k : Int) (s : FState) : (shiftState k s).y = Series.shift k s.y := rfl
@[simp] theorem shiftState_fitted (k : Int) (s : FState) : (shiftState k s).fitted = s.fitted := rfl
@[simp] theorem shiftState_cutoff (k : Int) (s : FState) : (shiftState k s).cutoff = s.cutoff.map (· + k) := rfl
@[simp] theorem shiftState_fh (k : Int) (s : FState) : (shiftState k s).fh = s.fh.map (shiftFH k) := rfl

theorem zip_shift (k c : Int) (steps : List Int) (vals : List ORat) :
    (steps.map (fun x => c + k + x)).zip vals = Series.shift k ((steps.map (fun x => c + x)).zip vals) := by
  induction steps generalizing vals with
  | nil => simp
  | cons a t ih =>
    cases vals with
    | nil => simp
    | cons v vs =>
      simp only [List.map_cons, List.zip_cons_cons, shift_cons, ih]
      congr 2; omega

theorem fixedCutoff_shift (core : Core) (k : Int) (s : FState) (c : Int) (steps : List Int) :
    fixedCutoff core (shiftState k s) (c + k) steps = (fixedCutoff core s c steps).map (Series.shift k) := by
  unfold fixedCutoff
  have e : c + k - s.wlen + 1 = (c - s.wlen + 1) + k := by omega
  simp only [shiftState_wlen, shiftState_y, e, locSlice_shift, shift_values, bind, Except.bind]
  cases core.plw s.wlen (Series.locSlice s.y (c - s.wlen + 1) c).values steps with
  | error e => rfl
  | ok vals =>
    simp only
    by_cases hl : vals.length ≠ steps.length
    · rw [if_pos hl, if_pos hl]; rfl
    · rw [if_neg hl, if_neg hl]; simp only [pure, Except.pure, zip_shift]; rfl

@[simp] theorem emap_ok {ε α β} (f : α → β) (a : α) : Except.map f (Except.ok a : Except ε α) = .ok (f a) := rfl
@[simp] theorem emap_err {ε α β} (f : α → β) (e : ε) : Except.map f (Except.error e : Except ε α) = .error e := rfl

theorem inSample_go_shift (core : Core) (k : Int) (s : FState) (fs : List Split.Fold) (cur : Int) (acc : Series) :
    inSample.go core (shiftState k s) fs (cur + k) (Series.shift k acc) =
      (inSample.go core s fs cur acc).map (Series.shift k) := by
  induction fs generalizing cur acc with
  | nil => simp [inSample.go, pure, Except.pure]
  | cons f rest ih =>
    simp only [inSample.go, shiftState_y, iloc_shift, shift_getLast, bind, Except.bind]
    cases hl : (Series.iloc s.y f.1).getLast? with
    | none =>
      simp only [Option.map_none]
      rw [fixedCutoff_shift]
      cases fixedCutoff core s cur [1] with
      | error e => simp
      | ok p =>
        simp only [emap_ok]
        rw [← shift_append, ih]
    | some o =>
      simp only [Option.map_some]
      rw [fixedCutoff_shift]
      cases fixedCutoff core s o.1 [1] with
      | error e => simp
      | ok p =>
        simp only [emap_ok]
        rw [← shift_append, ih]

theorem inSample_shift (core : Core) (k : Int) (s : FState) (c : Int) (steps : List Int) :
    inSample core (shiftState k s) (c + k) steps = (inSample core s c steps).map (Series.shift k) := by
  unfold inSample
  simp only [shiftState_y, shift_length, shiftState_wlen, bind, Except.bind, shift_head]
  cases Split.cutoffSplit (↑s.y.length) (List.map (fun x => x + ↑s.y.length - 2) steps) [1] s.wlen with
  | error e => simp [throw, throwThe, MonadExceptOf.throw]
  | ok folds =>
    simp only [pure, Except.pure]
    cases hh : s.y.head? with
    | none =>
      simp only [Option.map_none]
      have := inSample_go_shift core k s folds c []
      simpa using this
    | some o =>
      simp only [Option.map_some]
      have := inSample_go_shift core k s folds (o.1 - 1) []
      have e : o.1 + k - 1 = o.1 - 1 + k := by omega
      rw [e]
      simpa using this

theorem relSteps_shift (k c : Int) (f : FH.FH) :
    (if (shiftFH k f).rel then (shiftFH k f).vals else (shiftFH k f).vals.map (· - (c + k))) =
      (if f.rel then f.vals else f.vals.map (· - c)) := by
  obtain ⟨vals, rel⟩ := f
  cases rel with
  | true => simp [shiftFH]
  | false =>
    simp only [shiftFH, Bool.false_eq_true, ↓reduceIte, List.map_map]
    apply List.map_congr_left; intro x _; simp only [Function.comp]; omega

theorem predictAt_shift (core : Core) (k : Int) (s : FState) (c : Int) (f : FH.FH) :
    predictAt core (shiftState k s) (c + k) (shiftFH k f) = (predictAt core s c f).map (Series.shift k) := by
  unfold predictAt
  simp only [relSteps_shift, bind, Except.bind]
  generalize (if f.rel = true then f.vals else List.map (fun x => x - c) f.vals) = rel
  by_cases h1 : (List.filter (fun v => decide (v ≤ 0)) rel).isEmpty = true
  · simp only [h1, ↓reduceIte]
    exact fixedCutoff_shift core k s c _
  · by_cases h2 : (List.filter (fun v => decide (v > 0)) rel).isEmpty = true
    · simp only [h1, h2, ↓reduceIte]
      exact inSample_shift core k s c _
    · simp only [h1, h2, ↓reduceIte]
      rw [inSample_shift, fixedCutoff_shift]
      cases inSample core s c (List.filter (fun v => decide (v ≤ 0)) rel) with
      | error e => rfl
      | ok a =>
        simp only [emap_ok]
        cases fixedCutoff core s c (List.filter (fun v => decide (v > 0)) rel) with
        | error e => rfl
        | ok b => simp [pure, Except.pure, shift_append]

end SkVerif.Lem

namespace SkVerif.Lem
open SkVerif SkVerif.Fc

def shiftPair (k : Int) (r : FState × Out) : FState × Out := (shiftState k r.1, shiftOut k r.2)

theorem fitWith_shift (core : Core) (mode : FhMode) (k : Int) (s : FState) (y : Series) (fh : Option FH.FH) :
    fitWith core mode (shiftState k s) (Series.shift k y) (fh.map (shiftFH k)) =
      shiftPair k (fitWith core mode s y fh) := by
  unfold fitWith
  rw [shift_getLast]
  cases hl : y.getLast? with
  | none => simp [shiftPair, shiftOut]
  | some o =>
    simp only [Option.map_some, shift_length]
    have hst : ({ shiftState k s with y := Series.shift k y, cutoff := some (o.1 + k) } : FState) =
        shiftState k { s with y := y, cutoff := some o.1 } := by
      simp [shiftState]
    rw [hst, setFh_shift mode]
    cases hs : setFh mode { s with y := y, cutoff := some o.1 } fh with
    | error e => simp [shiftPair, shiftOut]
    | ok fh' =>
      simp only [emap_ok]
      cases hw : core.fitWl y.length with
      | error e => simp [shiftPair, shiftOut, shiftState]
      | ok w =>
        simp only
        by_cases hgt : w > (y.length : Int)
        · simp [hgt, shiftPair, shiftOut, shiftState]
        · simp [hgt, shiftPair, shiftOut, shiftState]

theorem fit_shift (core : Core) (mode : FhMode) (k : Int) (s : FState) (y : Series) (fh : Option FhArg) :
    fit core mode (shiftState k s) (Series.shift k y) (fh.map (shiftFhArg k)) =
      shiftPair k (fit core mode s y fh) := by
  unfold fit
  cases fh with
  | none => simpa using fitWith_shift core mode k s y none
  | some a =>
    simp only [Option.map_some, shift_getLast]
    cases hl : y.getLast? with
    | none => simp [shiftPair, shiftOut]
    | some o =>
      simp only [Option.map_some, checkFhArg_shift]
      cases hc : checkFhArg a with
      | error e => simp [shiftPair, shiftOut, shiftState]
      | ok f =>
        simp only [emap_ok]
        simpa using fitWith_shift core mode k s y (some f)

theorem outOf_shift (k : Int) (r : Except Err Series) :
    outOf (r.map (Series.shift k)) = shiftOut k (outOf r) := by
  cases r <;> rfl

theorem fhObjOf_shift (k : Int) (fh : Option FhArg) :
    fhObjOf (fh.map (shiftFhArg k)) = (fhObjOf fh).map (Option.map (shiftFH k)) := by
  cases fh with
  | none => rfl
  | some a =>
    simp only [Option.map_some, fhObjOf, checkFhArg_shift]
    cases checkFhArg a <;> rfl

theorem predictStored_shift (core : Core) (k : Int) (s : FState) :
    predictStored core (shiftState k s) = shiftPair k (predictStored core s) := by
  unfold predictStored
  simp only [shiftState_fh, shiftState_cutoff]
  cases hf : s.fh with
  | none => simp [shiftPair, shiftOut]
  | some f =>
    cases hc : s.cutoff with
    | none => simp [shiftPair, shiftOut]
    | some c =>
      simp only [Option.map_some]
      rw [predictAt_shift, outOf_shift]
      simp [shiftPair]

theorem predict_shift (core : Core) (mode : FhMode) (k : Int) (s : FState) (fh : Option FhArg) :
    predict core mode (shiftState k s) (fh.map (shiftFhArg k)) =
      shiftPair k (predict core mode s fh) := by
  obtain ⟨fitted, y0, cutoff, fh0, wlen⟩ := s
  unfold predict
  cases fitted with
  | false => simp [shiftPair, shiftOut, shiftState]
  | true =>
    simp only [shiftState_fitted, Bool.not_true, Bool.false_eq_true, ↓reduceIte, fhObjOf_shift]
    cases fhObjOf fh with
    | error e => simp [shiftPair, shiftOut]
    | ok fo =>
      simp only [emap_ok, setFh_shift mode]
      cases hs : setFh mode ⟨true, y0, cutoff, fh0, wlen⟩ fo with
      | error e => simp [shiftPair, shiftOut]
      | ok fh' =>
        simp only [emap_ok]
        exact predictStored_shift core k ⟨true, y0, cutoff, fh', wlen⟩

theorem update_shift (core : Core) (mode : FhMode) (k : Int) (s : FState) (y : Series) (up : Bool) :
    update core mode (shiftState k s) (Series.shift k y) up =
      shiftPair k (update core mode s y up) := by
  obtain ⟨fitted, y0, cutoff, fh0, wlen⟩ := s
  unfold update
  cases fitted with
  | false => simp [shiftPair, shiftOut, shiftState]
  | true =>
    simp only [shiftState_fitted, Bool.not_true, Bool.false_eq_true, ↓reduceIte, shift_getLast]
    cases hl : y.getLast? with
    | none =>
      simp only [Option.map_none]
      cases up with
      | false => simp [shiftPair, shiftOut]
      | true =>
        simp only [↓reduceIte, shiftState_fh]
        cases fh0 with
        | none => simp [shiftPair, shiftOut]
        | some f =>
          simp only [Option.map_some]
          exact fitWith_shift core mode k ⟨true, y0, cutoff, some f, wlen⟩ y0 (some f)
    | some o =>
      simp only [Option.map_some, shiftState_y, combineFirst_shift]
      cases up with
      | false => simp [shiftPair, shiftOut, shiftState]
      | true =>
        simp only [↓reduceIte, shiftState_fh]
        cases fh0 with
        | none => simp [shiftPair, shiftOut, shiftState]
        | some f =>
          simp only [Option.map_some]
          exact fitWith_shift core mode k ⟨true, Series.combineFirst y y0, some o.1, some f, wlen⟩
            (Series.combineFirst y y0) (some f)

end SkVerif.Lem

namespace SkVerif.Lem
open SkVerif SkVerif.Fc

theorem updateThenPredict_shift (core : Core) (mode : FhMode) (k : Int) (s : FState) (y : Series) (f : FH.FH) (up : Bool) :
    updateThenPredict core mode (shiftState k s) (Series.shift k y) (shiftFH k f) up =
      shiftPair k (updateThenPredict core mode s y f up) := by
  unfold updateThenPredict
  rw [update_shift]
  rcases hu : update core mode s y up with ⟨s2, o⟩
  have tail : ∀ (o' : Out), (match (shiftState k s2).cutoff with
      | none => (shiftState k s2, Out.err Err.value)
      | some c => (shiftState k s2, outOf (predictAt core (shiftState k s2) c (shiftFH k f)))) =
      shiftPair k (match s2.cutoff with
      | none => (s2, Out.err Err.value)
      | some c => (s2, outOf (predictAt core s2 c f))) := by
    intro _
    simp only [shiftState_cutoff]
    cases hc : s2.cutoff with
    | none => rfl
    | some c =>
      simp only [Option.map_some]
      rw [predictAt_shift, outOf_shift]; rfl
  cases o with
  | err e => rfl
  | done => exact tail .done
  | series x => exact tail .done
  | frame a b => exact tail .done

theorem ups_shift (core : Core) (mode : FhMode) (k : Int) (s : FState) (y : Series) (fh : Option FhArg) (up : Bool) :
    updatePredictSingle core mode (shiftState k s) (Series.shift k y) (fh.map (shiftFhArg k)) up =
      shiftPair k (updatePredictSingle core mode s y fh up) := by
  obtain ⟨fitted, y0, cutoff, fh0, wlen⟩ := s
  unfold updatePredictSingle
  cases fitted with
  | false => simp [shiftPair, shiftOut, shiftState]
  | true =>
    simp only [shiftState_fitted, Bool.not_true, Bool.false_eq_true, ↓reduceIte, fhObjOf_shift]
    cases fhObjOf fh with
    | error e => simp [shiftPair, shiftOut]
    | ok fo =>
      simp only [emap_ok, setFh_shift mode]
      cases hs : setFh mode ⟨true, y0, cutoff, fh0, wlen⟩ fo with
      | error e => simp [shiftPair, shiftOut]
      | ok fh' =>
        simp only [emap_ok]
        cases fh' with
        | none => simp [shiftPair, shiftOut, shiftState]
        | some f =>
          simp only [Option.map_some]
          exact updateThenPredict_shift core mode k ⟨true, y0, cutoff, some f, wlen⟩ y f up

end SkVerif.Lem

namespace SkVerif.Lem
open SkVerif SkVerif.Fc

theorem dedupInts_map_add (k : Int) (l : List Int) :
    dedupInts (l.map (· + k)) = (dedupInts l).map (· + k) := by
  induction l with
  | nil => rfl
  | cons a l ih =>
    simp only [List.map_cons, dedupInts]
    have hc : (l.map (· + k)).contains (a + k) = l.contains a := by
      rw [Bool.eq_iff_iff]
      simp only [List.contains_iff_mem, List.mem_map]
      constructor
      · rintro ⟨b, hb, e⟩; have : b = a := by omega
        subst this; exact hb
      · intro h; exact ⟨a, h, rfl⟩
    rw [hc]
    split <;> simp [ih]

theorem lookup_shift (k : Int) (p : Series) (l : Int) :
    Series.lookup (Series.shift k p) (l + k) = Series.lookup p l := by
  induction p with
  | nil => rfl
  | cons o t ih =>
    simp only [shift_cons, Series.lookup]
    by_cases h : o.1 = l
    · have : o.1 + k = l + k := by omega
      simp [h]
    · have : ¬ o.1 + k = l + k := by omega
      simp [h, this, ih]

theorem foldl_append_shift (k : Int) (preds : List Series) (acc : Series) :
    (preds.map (Series.shift k)).foldl (· ++ ·) (Series.shift k acc) =
      Series.shift k (preds.foldl (· ++ ·) acc) := by
  induction preds generalizing acc with
  | nil => rfl
  | cons p t ih => simp only [List.map_cons, List.foldl_cons, ← shift_append, ih]

theorem foldl_labels_shift (k : Int) (preds : List Series) (acc : List Int) :
    (preds.map (Series.shift k)).foldl (fun acc p => acc ++ p.labels) (acc.map (· + k)) =
      (preds.foldl (fun acc p => acc ++ p.labels) acc).map (· + k) := by
  induction preds generalizing acc with
  | nil => rfl
  | cons p t ih =>
    simp only [List.map_cons, List.foldl_cons, shift_labels, ← List.map_append, ih]

def shiftPreds (k : Int) (preds : List Series) : List Series := preds.map (Series.shift k)

theorem formatMoving_shift (k : Int) (preds : List Series) (cuts : List Int) :
    formatMoving (shiftPreds k preds) (cuts.map (· + k)) = shiftOut k (formatMoving preds cuts) := by
  unfold formatMoving shiftPreds
  cases preds with
  | nil => rfl
  | cons p0 rest =>
    simp only [List.map_cons, shift_length]
    by_cases h1 : p0.length = 1
    · simp only [h1, ↓reduceIte, shiftOut]
      have := foldl_append_shift k (p0 :: rest) []
      simp only [List.map_cons, shift_nil] at this
      rw [this]
    · simp only [h1, ↓reduceIte]
      have hl := foldl_labels_shift k (p0 :: rest) []
      simp only [List.map_cons, List.map_nil] at hl
      rw [hl, dedupInts_map_add, sortInts_map_add]
      cases rest with
      | nil =>
        simp only [List.map_nil, shiftOut, List.map_map, Series.shift]
        congr 1
        apply List.map_congr_left
        intro l _
        simp only [Function.comp]
        have := lookup_shift k p0 l
        simp only [Series.shift] at this
        rw [this]
      | cons p1 rest' =>
        simp only [List.map_cons, shiftOut, List.map_map]
        congr 1
        apply List.map_congr_left
        intro l _
        simp only [Function.comp, List.map_cons, List.map_map, lookup_shift]
        congr 1
        congr 1
        congr 1
        apply List.map_congr_left
        intro p _
        simp only [Function.comp, lookup_shift]

end SkVerif.Lem

namespace SkVerif.Lem
open SkVerif SkVerif.Fc

def shiftAcc (k : Int) (pc : List Series × List Int) : List Series × List Int :=
  (shiftPreds k pc.1, pc.2.map (· + k))

theorem movingGo_shift (core : Core) (mode : FhMode) (k : Int) (y : Series) (fh : FH.FH) (up : Bool)
    (ws : List (List Int)) (st : FState) (preds : List Series) (cuts : List Int) :
    movingCutoff.go core mode (Series.shift k y) (shiftFH k fh) up ws (shiftState k st)
        (shiftPreds k preds) (cuts.map (· + k)) =
      (shiftState k (movingCutoff.go core mode y fh up ws st preds cuts).1,
       (movingCutoff.go core mode y fh up ws st preds cuts).2.map (shiftAcc k)) := by
  induction ws generalizing st preds cuts with
  | nil => simp [movingCutoff.go, shiftAcc]
  | cons w rest ih =>
    simp only [movingCutoff.go, iloc_shift]
    rw [update_shift]
    rcases hu : update core mode st (Series.iloc y w) up with ⟨st1, o⟩
    have tail : (match (shiftState k st1).cutoff with
        | none => (shiftState k st1, (Except.error Err.value : Except Err (List Series × List Int)))
        | some c =>
          match predictAt core (shiftState k st1) c (shiftFH k fh) with
          | .error e => (shiftState k st1, .error e)
          | .ok p => movingCutoff.go core mode (Series.shift k y) (shiftFH k fh) up rest (shiftState k st1)
              (shiftPreds k preds ++ [p]) (cuts.map (· + k) ++ [c])) =
        (shiftState k (match st1.cutoff with
          | none => (st1, (Except.error Err.value : Except Err (List Series × List Int)))
          | some c =>
            match predictAt core st1 c fh with
            | .error e => (st1, .error e)
            | .ok p => movingCutoff.go core mode y fh up rest st1 (preds ++ [p]) (cuts ++ [c])).1,
         (match st1.cutoff with
          | none => (st1, (Except.error Err.value : Except Err (List Series × List Int)))
          | some c =>
            match predictAt core st1 c fh with
            | .error e => (st1, .error e)
            | .ok p => movingCutoff.go core mode y fh up rest st1 (preds ++ [p]) (cuts ++ [c])).2.map
              (shiftAcc k)) := by
      simp only [shiftState_cutoff]
      cases hc : st1.cutoff with
      | none => rfl
      | some c =>
        simp only [Option.map_some]
        rw [predictAt_shift]
        cases hp : predictAt core st1 c fh with
        | error e => rfl
        | ok p =>
          simp only [emap_ok]
          have e1 : shiftPreds k preds ++ [Series.shift k p] = shiftPreds k (preds ++ [p]) := by
            simp [shiftPreds]
          have e2 : cuts.map (· + k) ++ [c + k] = (cuts ++ [c]).map (· + k) := by simp
          rw [e1, e2, ih]
    cases o with
    | err e => rfl
    | done => exact tail
    | series x => exact tail
    | frame a b => exact tail

theorem movingCutoff_shift (core : Core) (mode : FhMode) (k : Int) (s : FState) (y : Series) (trains : List (List Int))
    (fh : FH.FH) (up : Bool) :
    movingCutoff core mode (shiftState k s) (Series.shift k y) trains (shiftFH k fh) up =
      shiftPair k (movingCutoff core mode s y trains fh up) := by
  unfold movingCutoff
  simp only [shift_head]
  cases hh : y.head? with
  | none => rfl
  | some o =>
    simp only [Option.map_some, Option.map_map]
    have hst : ({ shiftState k s with cutoff := some (o.1 + k - 1) } : FState) =
        shiftState k { s with cutoff := some (o.1 - 1) } := by
      simp only [shiftState, Option.map_some]
      congr 2; omega
    have hgo := movingGo_shift core mode k y fh up trains { s with cutoff := some (o.1 - 1) } [] []
    simp only [shiftPreds, List.map_nil] at hgo
    rw [hst, hgo]
    rcases hr : movingCutoff.go core mode y fh up trains { s with cutoff := some (o.1 - 1) } [] [] with ⟨sEnd, r⟩
    cases r with
    | error e => simp [shiftPair, shiftOut, shiftState]
    | ok pc =>
      obtain ⟨ps, cs⟩ := pc
      simp only [emap_ok, shiftAcc, shiftPair]
      rw [formatMoving_shift]
      simp [shiftState]

end SkVerif.Lem

namespace SkVerif.Lem
open SkVerif SkVerif.Fc

theorem cvSpecOf_shift (k : Int) (s : FState) (cv : Option CvSpec) :
    cvSpecOf (shiftState k s) cv = cvSpecOf s cv := by
  unfold cvSpecOf
  cases cv with
  | some c => rfl
  | none =>
    simp only [shiftState_fh, shiftState_cutoff, shiftState_wlen]
    cases hf : s.fh with
    | none => rfl
    | some f =>
      cases hc : s.cutoff with
      | none =>
        simp only [Option.map_some, Option.map_none]
        obtain ⟨vals, rel⟩ := f
        cases rel <;> simp [shiftFH]
      | some c =>
        simp only [Option.map_some]
        rw [relSteps_shift]

theorem updatePredictWith_shift (core : Core) (mode : FhMode) (k : Int) (s : FState) (y : Series) (c : CvSpec) (up : Bool) :
    updatePredictWith core mode (shiftState k s) (Series.shift k y) c up =
      shiftPair k (updatePredictWith core mode s y c up) := by
  unfold updatePredictWith
  cases Split.checkFh c.fh with
  | error e => rfl
  | ok fhv =>
    simp only [shift_head, shift_length]
    cases hh : y.head? with
    | none => rfl
    | some o =>
      simp only [Option.map_some]
      cases Split.windowSplit c.kind (↑y.length) c.fh c.wl c.step c.iw c.sww with
      | error e => rfl
      | ok folds =>
        simp only
        have := movingCutoff_shift core mode k s y (folds.map (·.1)) ⟨fhv, true⟩ up
        simpa [shiftFH] using this

theorem updatePredict_shift (core : Core) (mode : FhMode) (k : Int) (s : FState) (y : Series) (cv : Option CvSpec) (up : Bool) :
    updatePredict core mode (shiftState k s) (Series.shift k y) cv up =
      shiftPair k (updatePredict core mode s y cv up) := by
  unfold updatePredict
  simp only [shiftState_fitted]
  by_cases hfit : s.fitted = true
  · simp only [hfit, Bool.not_true, Bool.false_eq_true, ↓reduceIte]
    rw [cvSpecOf_shift]
    cases cvSpecOf s cv with
    | error e => rfl
    | ok c => exact updatePredictWith_shift core mode k s y c up
  · simp [hfit, shiftPair, shiftOut]

theorem step_shift (core : Core) (mode : FhMode) (k : Int) (s : FState) (op : Op) :
    step core mode (shiftState k s) (shiftOp k op) =
      (shiftState k (step core mode s op).1, shiftOut k (step core mode s op).2) := by
  cases op with
  | fit y fh => exact fit_shift core mode k s y fh
  | predict fh => exact predict_shift core mode k s fh
  | update y up => exact update_shift core mode k s y up
  | updatePredict y cv up => exact updatePredict_shift core mode k s y cv up
  | updatePredictSingle y fh up => exact ups_shift core mode k s y fh up

end SkVerif.Lem
