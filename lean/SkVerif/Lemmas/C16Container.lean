/- Helper lemmas for C16: `check_X` keeps the instances; static shapes. -/
import SkVerif.Lemmas.C16Ensemble
namespace SkVerif.C16.Lem
open SkVerif SkVerif.C16

variable {β : Type}

theorem checkX_instances (cfg : CheckCfg) (X X' : XIn) (h : checkX cfg X = .ok X') : X'.instances = X.instances := by
  unfold checkX at h
  by_cases h0 : (cfg.toPandas && cfg.toNumpy) = true
  · simp [h0] at h
  · simp only [h0] at h
    cases X with
    | other => simp at h
    | arr2 => simp at h
    | flat n => simp at h
    | arr3 rows =>
      by_cases h1 : nColumns rows < cfg.minColumns
      · simp [h1] at h
      · by_cases h2 : (cfg.univariate && decide (nColumns rows > 1)) = true
        · simp [h1, h2] at h
        · by_cases h3 : rows.length < cfg.minInstances
          · simp [h1, h2, h3] at h
          · simp only [h1, h2, h3] at h
            cases hp : cfg.toPandas <;> simp [hp] at h <;> subst h <;> rfl
    | nested rows =>
      by_cases h1 : nColumns rows < cfg.minColumns
      · simp [h1] at h
      · by_cases h2 : (cfg.univariate && decide (nColumns rows > 1)) = true
        · simp [h1, h2] at h
        · by_cases h3 : rows.length < cfg.minInstances
          · simp [h1, h2, h3] at h
          · simp only [h1, h2, h3] at h
            cases hn : cfg.toNumpy
            · simp [hn] at h; subst h; rfl
            · cases hr : rectangular rows
              · simp [hn, hr] at h
              · simp [hn, hr] at h; subst h; rfl

theorem checkX_nested_arr3 (cfg : CheckCfg) (rows : List Inst) (hr : rectangular rows = true) :
    (checkX cfg (.nested rows)).map XIn.instances = (checkX cfg (.arr3 rows)).map XIn.instances := by
  unfold checkX
  by_cases h0 : (cfg.toPandas && cfg.toNumpy) = true
  · simp [h0]
  · simp only [h0]
    by_cases h1 : nColumns rows < cfg.minColumns
    · simp [h1]
    · by_cases h2 : (cfg.univariate && decide (nColumns rows > 1)) = true
      · simp [h1, h2]
      · by_cases h3 : rows.length < cfg.minInstances
        · simp [h1, h2, h3]
        · simp only [h1, h2, h3, hr]
          cases cfg.toNumpy <;> cases cfg.toPandas <;> rfl

theorem select_instances (idx : List Nat) (X : XIn) : (X.select idx).instances = select idx X.instances := by
  cases X <;> simp [XIn.select, XIn.instances, select]

/-! ### shapes -/

theorem zipWith_map_map {α V : Type} (g : V → V → V) (f1 f2 : α → V) (X : List α) :
    List.zipWith g (X.map f1) (X.map f2) = X.map (fun x => g (f1 x) (f2 x)) := by
  induction X with
  | nil => rfl
  | cons x t ih => simp [ih]

theorem shape_sound {V : Type} (env : Env V) (s : Shape) (h : s.rowWise = true) : IsRowWise (s.denote env) := by
  induction s with
  | rows k => exact ⟨env.f k, fun X => rfl⟩
  | guarded s ih => exact ih h
  | comp s t ihs iht =>
    simp only [Shape.rowWise, Bool.and_eq_true] at h
    exact isRowWise_comp (s.denote env) (t.denote env) (ihs h.1) (iht h.2)
  | agg k s t ihs iht =>
    simp only [Shape.rowWise, Bool.and_eq_true] at h
    obtain ⟨f1, h1⟩ := ihs h.1
    obtain ⟨f2, h2⟩ := iht h.2
    exact ⟨fun x => env.g k (f1 x) (f2 x), fun X => by
      show List.zipWith _ (s.denote env X) (t.denote env X) = _
      rw [h1, h2, zipWith_map_map]⟩
  | stat k => cases h
  | sortInst k => cases h
  | dictByValue k => cases h
  | unknown k => cases h

end SkVerif.C16.Lem

namespace SkVerif.C16.Lem
open SkVerif SkVerif.C16

/-! ### a sub-batch of an accepted batch is accepted -/

theorem rectangular_iff (rows : List Inst) :
    rectangular rows = true ↔ ∀ inst ∈ rows, inst.length = nColumns rows ∧
      ∀ s ∈ inst, s.length = ((rows.headD []).headD []).length := by
  unfold rectangular
  simp only [List.all_eq_true, Bool.and_eq_true, beq_iff_eq]

theorem headD_mem_of_ne_nil {α : Type} (l : List α) (d : α) (h : l ≠ []) : l.headD d ∈ l := by
  cases l with
  | nil => exact absurd rfl h
  | cons a t => simp

theorem nColumns_select (rows : List Inst) (idx : List Nat) (hu : ∀ r ∈ rows, r.length = nColumns rows)
    (hne : select idx rows ≠ []) : nColumns (select idx rows) = nColumns rows := by
  have hm := headD_mem_of_ne_nil (select idx rows) [] hne
  exact hu _ (select_mem idx rows _ hm)

theorem rectangular_select (rows : List Inst) (idx : List Nat) (hr : rectangular rows = true)
    (hne : select idx rows ≠ []) : rectangular (select idx rows) = true := by
  have h := (rectangular_iff rows).mp hr
  have hu : ∀ r ∈ rows, r.length = nColumns rows := fun r hr' => (h r hr').1
  rw [rectangular_iff]
  intro inst hinst
  have hin := select_mem idx rows inst hinst
  refine ⟨by rw [nColumns_select rows idx hu hne]; exact (h inst hin).1, ?_⟩
  intro s hs
  have hm := select_mem idx rows _ (headD_mem_of_ne_nil (select idx rows) [] hne)
  -- the first instance of the selection is an instance of the batch
  have h0 := h _ hm
  rw [(h inst hin).2 s hs]
  -- inst is non-empty (it contains s), hence so is every instance, in particular the first selected one
  have hc : 0 < nColumns rows := by
    rw [← (h inst hin).1]; exact List.length_pos_of_mem hs
  have hne0 : (select idx rows).headD [] ≠ [] := by
    intro he; rw [he] at h0; simp at h0; omega
  exact (h0.2 _ (headD_mem_of_ne_nil _ [] hne0)).symm

theorem checkX_select_ok (cfg : CheckCfg) (rows : List Inst) (idx : List Nat) (X' : XIn) (asArr : Bool)
    (h : checkX cfg (if asArr then .arr3 rows else .nested rows) = .ok X')
    (hu : ∀ r ∈ rows, r.length = nColumns rows)
    (hn : cfg.minInstances ≤ (select idx rows).length) (hne : select idx rows ≠ []) :
    ∃ X'', checkX cfg (if asArr then .arr3 (select idx rows) else .nested (select idx rows)) = .ok X'' := by
  unfold checkX at h ⊢
  have hc := nColumns_select rows idx hu hne
  by_cases h0 : (cfg.toPandas && cfg.toNumpy) = true
  · simp [h0] at h
  · simp only [h0] at h ⊢
    cases asArr
    · simp only [Bool.false_eq_true, if_false] at h ⊢
      rw [hc]
      by_cases h1 : nColumns rows < cfg.minColumns
      · simp [h1] at h
      · by_cases h2 : (cfg.univariate && decide (nColumns rows > 1)) = true
        · simp [h1, h2] at h
        · have h3 : ¬ (select idx rows).length < cfg.minInstances := by omega
          by_cases h3' : rows.length < cfg.minInstances
          · simp [h1, h2, h3'] at h
          · simp only [h1, h2, h3, h3'] at h ⊢
            cases hnp : cfg.toNumpy
            · simp
            · cases hr : rectangular rows
              · simp [hnp, hr] at h
              · simp [rectangular_select rows idx hr hne]
    · simp only [if_true] at h ⊢
      rw [hc]
      by_cases h1 : nColumns rows < cfg.minColumns
      · simp [h1] at h
      · by_cases h2 : (cfg.univariate && decide (nColumns rows > 1)) = true
        · simp [h1, h2] at h
        · have h3 : ¬ (select idx rows).length < cfg.minInstances := by omega
          simp [h1, h2, h3]

end SkVerif.C16.Lem

namespace SkVerif.C16.Lem
open SkVerif SkVerif.C16

/-! ### random tie-breaking -/

theorem getD_mod_of_length_one (t : List Nat) (d : Nat) (h : t.length = 1) : t.getD (d % t.length) 0 = t.headD 0 := by
  match t, h with
  | [a], _ => simp [Nat.mod_one]

theorem predictTie_aux (draws : Nat → Nat) (P : List (List Rat)) (k : Nat)
    (h : ∀ p ∈ P, (argmaxSet p).length = 1) :
    (P.zipIdx k).map (fun (p, i) => let t := argmaxSet p; t.getD (draws i % t.length) 0)
      = P.map (fun p => (argmaxSet p).headD 0) := by
  induction P generalizing k with
  | nil => rfl
  | cons p t ih =>
    simp only [List.zipIdx_cons, List.map_cons]
    rw [ih (k + 1) (fun q hq => h q (List.mem_cons_of_mem _ hq))]
    congr 1
    exact getD_mod_of_length_one _ _ (h p (List.mem_cons_self ..))

end SkVerif.C16.Lem

namespace SkVerif.C16.Lem
open SkVerif SkVerif.C16

/-! ### label join -/

theorem freshFrom_labels_map {α β : Type} (f : α → β) (k : Nat) (X : List α) :
    (freshFrom k (X.map f)).map (·.1) = (freshFrom k X).map (·.1) := by
  induction X generalizing k with
  | nil => rfl
  | cons x t ih => simp [freshFrom, ih]

theorem zip_freshFrom {α β : Type} (f : α → β) (k : Nat) (X : List α) :
    ((freshFrom k X).map (·.1)).zip (X.map f) = freshFrom k (X.map f) := by
  induction X generalizing k with
  | nil => rfl
  | cons x t ih => simp [freshFrom, ih]

theorem zipWith_freshFrom {α β : Type} (fa fb : α → β) (k : Nat) (X : List α) :
    List.zipWith (fun a b => (some a.2, some b.2)) (freshFrom k (X.map fa)) (freshFrom k (X.map fb))
      = X.map (fun x => (some (fa x), some (fb x))) := by
  induction X generalizing k with
  | nil => rfl
  | cons x t ih => simp [freshFrom, ih]

end SkVerif.C16.Lem

namespace SkVerif.C16.Lem
open SkVerif SkVerif.C16

/-! ### repaired feature union -/

theorem freshFrom_map_snd {β : Type} (k : Nat) (l : List β) : (freshFrom k l).map (·.2) = l := by
  induction l generalizing k with
  | nil => rfl
  | cons a t ih => simp [freshFrom, ih]

theorem zip_map_snd {α β : Type} (l : List α) (r : List β) (h : l.length = r.length) : (l.zip r).map (·.2) = r := by
  induction l generalizing r with
  | nil => cases r with
    | nil => rfl
    | cons b t => simp at h
  | cons a t ih => cases r with
    | nil => simp at h
    | cons b u => simp at h; simp [ih u h]

theorem unionHstack_ok (kinds : List OutKind) : unionHstack kinds = .ok () := by
  unfold unionHstack
  by_cases h : kinds.contains .frame = true
  · have hm : OutKind.frame ∈ kinds := by simpa using h
    simp [hm]
  · simp only [h]
    simp at h
    simp [h]

end SkVerif.C16.Lem

namespace SkVerif.C16.Lem
open SkVerif SkVerif.C16

/-! ### cells read by label -/

theorem lookupCell_labelsFrom (k : Int) (vals : List Rat) (l : Int) :
    lookupCell (labelsFrom k vals.length) vals l = cellAt vals (l - k) := by
  induction vals generalizing k with
  | nil => simp [labelsFrom, lookupCell, cellAt]
  | cons v t ih =>
    simp only [List.length_cons, labelsFrom, lookupCell]
    by_cases h : k = l
    · subst h; simp [cellAt]
    · have hb : (k == l) = false := by simpa using h
      simp only [hb, Bool.false_eq_true, if_false]
      rw [ih (k + 1)]
      unfold cellAt
      by_cases h1 : l - k < 0
      · have : l - (k + 1) < 0 := by omega
        simp [h1, this]
      · have h2 : ¬ l - (k + 1) < 0 := by omega
        have h3 : (l - k).toNat = (l - (k + 1)).toNat + 1 := by omega
        simp [h1, h2, h3]

end SkVerif.C16.Lem
