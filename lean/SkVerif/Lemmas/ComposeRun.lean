/-
C09 helper lemmas: chains of transformers, positional indexing, and the inductions over call
histories (what the members / the final forecaster of a composite have been through after a
history of calls on the composite).
-/
import SkVerif.Lemmas.ComposeOps
import SkVerif.Props.C01
namespace SkVerif.Compose.Lem
open SkVerif
open W (bind_eq_ok pure_eq_ok lift_bind_eq_ok lift_eq_ok tell_bind_eq_ok fail_bind run_bind)

/-! ### transformer chains -/

theorem applyAll_append (fs gs : List (Series → W Series)) (z : Series) :
    applyAll (fs ++ gs) z = applyAll fs z >>= applyAll gs := by
  induction fs generalizing z with
  | nil => simp [applyAll]
  | cons f fs ih =>
    simp only [List.cons_append, applyAll, bind_assoc]
    congr 1
    funext z'
    exact ih z'

/-- the inverse chain is: the inverse transforms of the non-skipped transformers, applied in
REVERSE pipeline order -/
theorem inverseChain_eq_reverse : ∀ (Ts : List Transformer) (ts : TStates Ts) (p : Series),
    inverseChain Ts ts p = applyAll (inverses Ts ts).reverse p
  | [], _, p => by simp [inverseChain, inverses, applyAll]
  | T :: Ts, (s, ss), p => by
    simp only [inverseChain, inverses]
    rw [inverseChain_eq_reverse Ts ss p]
    by_cases hk : T.skipInverse = true
    · simp [hk]
    · simp only [hk, Bool.false_eq_true, ↓reduceIte, List.reverse_cons, applyAll_append]
      congr 1
      funext p'
      simp [applyAll]

/-- the series the final forecaster is fitted on is the raw series pushed through the fitted
transformers' `transform`s in pipeline order -/
theorem fitChain_transformed : ∀ (Ts : List Transformer) (y : Series) (ts : TStates Ts) (yt : Series) (l : Log),
    (fitChain Ts y).run = .ok ((ts, yt), l) → ∃ l', (applyAll (transforms Ts ts) y).run = .ok (yt, l')
  | [], y, _, yt, l, h => by
    simp only [fitChain] at h
    obtain ⟨h1, _⟩ := pure_eq_ok.mp h
    cases h1
    exact ⟨[], rfl⟩
  | T :: Ts, y, ts, yt, l, h => by
    simp only [fitChain] at h
    obtain ⟨s, l1, l2, h1, h2, rfl⟩ := bind_eq_ok.mp h
    obtain ⟨z', l3, l4, h3, h4, rfl⟩ := bind_eq_ok.mp h2
    obtain ⟨⟨ss, zz⟩, l5, l6, h5, h6, rfl⟩ := bind_eq_ok.mp h4
    obtain ⟨h7, rfl⟩ := pure_eq_ok.mp h6
    cases h7
    obtain ⟨l', hl'⟩ := fitChain_transformed Ts z' ss zz l5 h5
    refine ⟨l3 ++ l', ?_⟩
    simp only [transforms, applyAll]
    exact bind_eq_ok.mpr ⟨z', l3, l', h3, hl', rfl⟩

/-! ### positional indexing -/

theorem iloc_spec (y : Series) : ∀ (pos : List Int) (r : Series), iloc y pos = .ok r →
    r.length = pos.length ∧ ∀ i, i < pos.length → ∃ p, pos[i]? = some p ∧ 0 ≤ p ∧ p < y.length ∧ r[i]? = y[p.toNat]?
  | [], r, h => by
    simp only [iloc] at h; cases h
    exact ⟨rfl, by intro i hi; simp at hi⟩
  | q :: pos, r, h => by
    simp only [iloc] at h
    cases hq : y[q.toNat]? with
    | none => simp [hq] at h
    | some v =>
      simp only [hq] at h
      by_cases hneg : q < 0
      · simp [hneg] at h
      · simp only [hneg, ↓reduceIte] at h
        cases hr : iloc y pos with
        | error e => simp [hr, Except.map] at h
        | ok r' =>
          simp only [hr, Except.map, Except.ok.injEq] at h
          subst h
          obtain ⟨hlen, ih⟩ := iloc_spec y pos r' hr
          refine ⟨by simp [hlen], ?_⟩
          intro i hi
          cases i with
          | zero =>
            refine ⟨q, rfl, by omega, ?_, by simp [hq]⟩
            have : q.toNat < y.length := by
              rcases List.getElem?_eq_some_iff.mp hq with ⟨hlt, _⟩; exact hlt
            omega
          | succ i =>
            obtain ⟨p, hp, h0, h1, h2⟩ := ih i (by simpa using hi)
            exact ⟨p, by simpa using hp, h0, h1, by simpa using h2⟩

/-! ### histories -/

theorem noFit_cons {op : Op} {ops : List Op} (h : noFit (op :: ops)) : isFit op = false ∧ noFit ops :=
  ⟨h op List.mem_cons_self, fun o ho => h o (List.mem_cons_of_mem _ ho)⟩

theorem noUpdate_cons {op : Op} {ops : List Op} (h : noUpdate (op :: ops)) : isUpdate op = false ∧ noUpdate ops :=
  ⟨h op List.mem_cons_self, fun o ho => h o (List.mem_cons_of_mem _ ho)⟩

/-- ensemble: after any fit-free history, member `i`'s state is what member `i` reaches ON ITS OWN
from its earlier state under the calls `memberOps` -/
theorem ensemble_run_members (agg : Option Agg) (names : List String) (Fs : List Forecaster) :
    ∀ (ops : List Op), noFit ops → ∀ (b : Base) (ss : States Fs) (st : (ensemble agg names Fs).S)
      (outs : List (Option Series)) (log : Log),
      ((ensemble agg names Fs).run (b, some ss) ops).run = .ok ((st, outs), log) →
      ∃ b' ss', st = (b', some ss') ∧ ∀ i, i < Fs.length → ∃ oi li,
        ((member Fs i).run (ss.get Fs i) (memberOps b.fh ops)).run = .ok ((ss'.get Fs i, oi), li)
  | [], _, b, ss, st, outs, log, h => by
    obtain ⟨rfl, _, _⟩ := (Forecaster.run_nil_eq_ok _).mp h
    refine ⟨b, ss, rfl, ?_⟩
    intro i _
    exact ⟨[], [], (Forecaster.run_nil_eq_ok _).mpr ⟨rfl, rfl, rfl⟩⟩
  | op :: ops, hnf, b, ss, st, outs, log, h => by
    obtain ⟨hop, hnf'⟩ := noFit_cons hnf
    obtain ⟨⟨b1, st1⟩, o, l1, os, l2, hstep, hrun, rfl, rfl⟩ := (Forecaster.run_cons_eq_ok _).mp h
    cases op with
    | fit y fh => simp [isFit] at hop
    | update y up =>
      obtain ⟨hu, rfl⟩ := (Forecaster.step_update_eq_ok _).mp hstep
      obtain ⟨ss1, rfl, rfl, _, hget⟩ := ensemble_update_members agg names Fs b ss y up b1 st1 l1 hu
      obtain ⟨b', ss', rfl, ih⟩ := ensemble_run_members agg names Fs ops hnf' _ ss1 st os l2 hrun
      refine ⟨b', ss', rfl, ?_⟩
      intro i hi
      obtain ⟨l, hl⟩ := hget i hi
      obtain ⟨oi, li, hi'⟩ := ih i hi
      have hfh : (b.updateYX y).fh = b.fh := by unfold Base.updateYX; split <;> rfl
      rw [hfh] at hi'
      refine ⟨none :: oi, l ++ li, ?_⟩
      simp only [memberOps]
      exact (Forecaster.run_cons_eq_ok _).mpr
        ⟨_, none, l, oi, li, (Forecaster.step_update_eq_ok _).mpr ⟨hl, rfl⟩, hi', rfl, rfl⟩
    | predict fh =>
      obtain ⟨p, hp, rfl⟩ := (Forecaster.step_predict_eq_ok _).mp hstep
      obtain ⟨a, f, ss1, ps, _, hf, rfl, rfl, _, _, hget, _, _⟩ :=
        ensemble_predict_eq_aggregate agg names Fs b ss fh b1 st1 p l1 hp
      obtain ⟨b', ss', rfl, ih⟩ := ensemble_run_members agg names Fs ops hnf' _ ss1 st os l2 hrun
      refine ⟨b', ss', rfl, ?_⟩
      intro i hi
      obtain ⟨q, l, _, hl⟩ := hget i hi
      obtain ⟨oi, li, hi'⟩ := ih i hi
      refine ⟨some q :: oi, l ++ li, ?_⟩
      simp only [memberOps, hf]
      exact (Forecaster.run_cons_eq_ok _).mpr
        ⟨_, some q, l, oi, li, (Forecaster.step_predict_eq_ok _).mpr ⟨q, hl, rfl⟩, hi', rfl, rfl⟩
    | setCutoff c =>
      obtain ⟨hs, rfl, rfl⟩ := (Forecaster.step_setCutoff_eq_ok _).mp hstep
      simp only [ensemble, Option.map_some, Prod.mk.injEq] at hs
      obtain ⟨rfl, rfl⟩ := hs
      obtain ⟨b', ss', rfl, ih⟩ := ensemble_run_members agg names Fs ops hnf' _ _ st os l2 hrun
      refine ⟨b', ss', rfl, ?_⟩
      intro i hi
      obtain ⟨oi, li, hi'⟩ := ih i hi
      rw [setCutoffAll_get] at hi'
      refine ⟨none :: oi, [] ++ li, ?_⟩
      simp only [memberOps]
      exact (Forecaster.run_cons_eq_ok _).mpr
        ⟨_, none, [], oi, li, (Forecaster.step_setCutoff_eq_ok _).mpr ⟨rfl, rfl, rfl⟩, hi', rfl, rfl⟩

/-- multiplexer: a fit-free history on the multiplexer is the history `memberOps` on the selected
member, with the same outputs and the same log -/
theorem mux_run (chk : Except Err Unit) (F : Forecaster) :
    ∀ (ops : List Op), noFit ops → ∀ (b : Base) (s : F.S) (st : (muxOn chk F).S)
      (outs : List (Option Series)) (log : Log),
      ((muxOn chk F).run (b, some s) ops).run = .ok ((st, outs), log) →
      ∃ b' s', st = (b', some s') ∧ (F.run s (memberOps b.fh ops)).run = .ok ((s', outs), log)
  | [], _, b, s, st, outs, log, h => by
    obtain ⟨rfl, rfl, rfl⟩ := (Forecaster.run_nil_eq_ok _).mp h
    exact ⟨b, s, rfl, (Forecaster.run_nil_eq_ok _).mpr ⟨rfl, rfl, rfl⟩⟩
  | op :: ops, hnf, b, s, st, outs, log, h => by
    obtain ⟨hop, hnf'⟩ := noFit_cons hnf
    obtain ⟨⟨b1, st1⟩, o, l1, os, l2, hstep, hrun, rfl, rfl⟩ := (Forecaster.run_cons_eq_ok _).mp h
    cases op with
    | fit y fh => simp [isFit] at hop
    | update y up =>
      obtain ⟨hu, rfl⟩ := (Forecaster.step_update_eq_ok _).mp hstep
      obtain ⟨s1, rfl, rfl, hF⟩ := mux_update_ok chk F b s y up b1 st1 l1 hu
      obtain ⟨b', s', rfl, ih⟩ := mux_run chk F ops hnf' _ s1 st os l2 hrun
      have hfh : (b.updateYX y).fh = b.fh := by unfold Base.updateYX; split <;> rfl
      rw [hfh] at ih
      refine ⟨b', s', rfl, ?_⟩
      simp only [memberOps]
      exact (Forecaster.run_cons_eq_ok _).mpr
        ⟨_, none, l1, os, l2, (Forecaster.step_update_eq_ok _).mpr ⟨hF, rfl⟩, ih, rfl, rfl⟩
    | predict fh =>
      obtain ⟨p, hp, rfl⟩ := (Forecaster.step_predict_eq_ok _).mp hstep
      obtain ⟨f, s1, hf, rfl, rfl, hF⟩ := mux_predict_ok chk F b s fh b1 st1 p l1 hp
      obtain ⟨b', s', rfl, ih⟩ := mux_run chk F ops hnf' _ s1 st os l2 hrun
      refine ⟨b', s', rfl, ?_⟩
      simp only [memberOps, hf]
      exact (Forecaster.run_cons_eq_ok _).mpr
        ⟨_, some p, l1, os, l2, (Forecaster.step_predict_eq_ok _).mpr ⟨p, hF, rfl⟩, ih, rfl, rfl⟩
    | setCutoff c =>
      obtain ⟨hs, rfl, rfl⟩ := (Forecaster.step_setCutoff_eq_ok _).mp hstep
      simp only [muxOn, Option.map_some, Prod.mk.injEq] at hs
      obtain ⟨rfl, rfl⟩ := hs
      obtain ⟨b', s', rfl, ih⟩ := mux_run chk F ops hnf' _ _ st os l2 hrun
      refine ⟨b', s', rfl, ?_⟩
      simp only [memberOps]
      exact (Forecaster.run_cons_eq_ok _).mpr
        ⟨_, none, [], os, l2, (Forecaster.step_setCutoff_eq_ok _).mpr ⟨rfl, rfl, rfl⟩, ih, rfl, rfl⟩

/-- pipeline (`fixed = true`: repaired update; `fixed = false`: update as coded, then only for
update-free histories): after a fit-free history the final forecaster has been through exactly the
history `reprOps` computes from the transformers alone -/
theorem pipeline_run (fixed : Bool) (Ts : List Transformer) (F : Forecaster) :
    ∀ (ops : List Op), noFit ops → (fixed = true ∨ noUpdate ops) →
      ∀ (b : Base) (ts : TStates Ts) (s : F.S) (st : (pipelineG fixed Ts F).S)
      (outs : List (Option Series)) (log : Log),
      ((pipelineG fixed Ts F).run (b, some (ts, s)) ops).run = .ok ((st, outs), log) →
      ∃ b' ts' s' iops lt oi li, st = (b', some (ts', s')) ∧
        (reprOps Ts ts b.fh ops).run = .ok ((ts', iops), lt) ∧ (F.run s iops).run = .ok ((s', oi), li)
  | [], _, _, b, ts, s, st, outs, log, h => by
    obtain ⟨rfl, rfl, rfl⟩ := (Forecaster.run_nil_eq_ok _).mp h
    exact ⟨b, ts, s, [], [], [], [], rfl, rfl, (Forecaster.run_nil_eq_ok _).mpr ⟨rfl, rfl, rfl⟩⟩
  | op :: ops, hnf, hfx, b, ts, s, st, outs, log, h => by
    obtain ⟨hop, hnf'⟩ := noFit_cons hnf
    obtain ⟨⟨b1, st1⟩, o, l1, os, l2, hstep, hrun, rfl, rfl⟩ := (Forecaster.run_cons_eq_ok _).mp h
    cases op with
    | fit y fh => simp [isFit] at hop
    | update y up =>
      have hfixed : fixed = true := by
        rcases hfx with h1 | h1
        · exact h1
        · have := (noUpdate_cons h1).1; simp [isUpdate] at this
      subst hfixed
      obtain ⟨hu, rfl⟩ := (Forecaster.step_update_eq_ok _).mp hstep
      obtain ⟨ts1, yt, s1, la, lb, rfl, rfl, hT, hF, rfl⟩ := pipeline_update_fixed_ok Ts F b ts s y up b1 st1 l1 hu
      obtain ⟨b', ts', s', iops, lt, oi, li, rfl, hr, hi⟩ :=
        pipeline_run true Ts F ops hnf' (Or.inl rfl) _ ts1 s1 st os l2 hrun
      have hfh : (b.updateYX y).fh = b.fh := by unfold Base.updateYX; split <;> rfl
      rw [hfh] at hr
      refine ⟨b', ts', s', .update yt up :: iops, la ++ lt, none :: oi, lb ++ li, rfl, ?_, ?_⟩
      · simp only [reprOps]
        refine bind_eq_ok.mpr ⟨(ts1, yt), la, lt, hT, ?_, rfl⟩
        exact bind_eq_ok.mpr ⟨(ts', iops), lt, [], hr, rfl, by simp⟩
      · exact (Forecaster.run_cons_eq_ok _).mpr
          ⟨_, none, lb, oi, li, (Forecaster.step_update_eq_ok _).mpr ⟨hF, rfl⟩, hi, rfl, rfl⟩
    | predict fh =>
      have hfx' : fixed = true ∨ noUpdate ops := hfx.imp id (fun h1 => (noUpdate_cons h1).2)
      obtain ⟨p, hp, rfl⟩ := (Forecaster.step_predict_eq_ok _).mp hstep
      obtain ⟨f, s1, q, la, lb, hf, rfl, rfl, hF, _, rfl⟩ := pipeline_predict_ok fixed Ts F b ts s fh b1 st1 p l1 hp
      obtain ⟨b', ts', s', iops, lt, oi, li, rfl, hr, hi⟩ :=
        pipeline_run fixed Ts F ops hnf' hfx' _ ts s1 st os l2 hrun
      refine ⟨b', ts', s', .predict (some f) :: iops, lt, some q :: oi, la ++ li, rfl, ?_, ?_⟩
      · simp only [reprOps, hf]
        exact bind_eq_ok.mpr ⟨(ts', iops), lt, [], hr, rfl, by simp⟩
      · exact (Forecaster.run_cons_eq_ok _).mpr
          ⟨_, some q, la, oi, li, (Forecaster.step_predict_eq_ok _).mpr ⟨q, hF, rfl⟩, hi, rfl, rfl⟩
    | setCutoff c =>
      have hfx' : fixed = true ∨ noUpdate ops := hfx.imp id (fun h1 => (noUpdate_cons h1).2)
      obtain ⟨hs, rfl, rfl⟩ := (Forecaster.step_setCutoff_eq_ok _).mp hstep
      simp only [pipelineG, Option.map_some, Prod.mk.injEq] at hs
      obtain ⟨rfl, rfl⟩ := hs
      obtain ⟨b', ts', s', iops, lt, oi, li, rfl, hr, hi⟩ :=
        pipeline_run fixed Ts F ops hnf' hfx' _ ts (F.setCutoff s c) st os l2 hrun
      refine ⟨b', ts', s', .setCutoff c :: iops, lt, none :: oi, [] ++ li, rfl, ?_, ?_⟩
      · simp only [reprOps]
        exact bind_eq_ok.mpr ⟨(ts', iops), lt, [], hr, rfl, by simp⟩
      · exact (Forecaster.run_cons_eq_ok _).mpr
          ⟨_, none, [], oi, li, (Forecaster.step_setCutoff_eq_ok _).mpr ⟨rfl, rfl, rfl⟩, hi, rfl, rfl⟩

/-! ### the spy, selection by name, explicit horizons, the hold-out split -/

theorem spy_run_state : ∀ (ops : List Op) (s0 s : List Op) (outs : List (Option Series)) (l : Log),
    (spy.run s0 ops).run = .ok ((s, outs), l) → s = s0 ++ ops
  | [], s0, s, outs, l, h => by
    obtain ⟨rfl, _, _⟩ := (Forecaster.run_nil_eq_ok spy).mp h
    simp
  | op :: ops, s0, s, outs, l, h => by
    obtain ⟨s1, o, l1, os, l2, hstep, hrun, _, _⟩ := (Forecaster.run_cons_eq_ok spy).mp h
    have h1 : s1 = s0 ++ [op] := by
      cases op with
      | fit y fh =>
        obtain ⟨hf, _⟩ := (Forecaster.step_fit_eq_ok spy).mp hstep
        simp only [spy] at hf
        obtain ⟨h2, _⟩ := pure_eq_ok.mp hf
        exact h2.symm
      | update y up =>
        obtain ⟨hf, _⟩ := (Forecaster.step_update_eq_ok spy).mp hstep
        simp only [spy] at hf
        obtain ⟨h2, _⟩ := pure_eq_ok.mp hf
        exact h2.symm
      | predict fh =>
        obtain ⟨p, hf, _⟩ := (Forecaster.step_predict_eq_ok spy).mp hstep
        simp only [spy] at hf
        obtain ⟨h2, _⟩ := pure_eq_ok.mp hf
        cases h2; rfl
      | setCutoff c =>
        obtain ⟨h2, _, _⟩ := (Forecaster.step_setCutoff_eq_ok spy).mp hstep
        exact h2
    have := spy_run_state ops s1 s os l2 hrun
    rw [this, h1]; simp

theorem select_spec (sel : Option String) : ∀ (names : List String) (Fs : List Forecaster) (F : Forecaster),
    select sel names Fs = some F →
    ∃ (i : Nat) (n : String), names[i]? = some n ∧ sel = some n ∧ Fs[i]? = some F ∧
      ∀ (j : Nat), j < i → ∀ m, names[j]? = some m → sel ≠ some m
  | [], _, F, h => by simp [select] at h
  | _ :: _, [], F, h => by simp [select] at h
  | n :: ns, G :: Gs, F, h => by
    simp only [select] at h
    by_cases hs : sel = some n
    · simp only [hs, ↓reduceIte, Option.some.injEq] at h
      subst h
      exact ⟨0, n, rfl, hs, rfl, by intro j hj; omega⟩
    · simp only [hs, ↓reduceIte] at h
      obtain ⟨i, m, h1, h2, h3, h4⟩ := select_spec sel ns Gs F h
      refine ⟨i + 1, m, by simpa using h1, h2, by simpa using h3, ?_⟩
      intro j hj k hk
      cases j with
      | zero => simp only [List.getElem?_cons_zero, Option.some.injEq] at hk; subst hk; exact hs
      | succ j => exact h4 j (by omega) k (by simpa using hk)

/-- a history whose `predict` calls all carry an explicit, already canonical horizon is passed on
to the member verbatim -/
theorem memberOps_explicit : ∀ (ops : List Op) (cur : Option Horizon),
    (∀ fh, Op.predict fh ∈ ops → ∃ f, fh = some f ∧ checkFh f = .ok f) → memberOps cur ops = ops
  | [], _, _ => rfl
  | .predict fh :: r, cur, h => by
    obtain ⟨f, rfl, hf⟩ := h fh List.mem_cons_self
    simp only [memberOps, effFh, hf]
    rw [memberOps_explicit r _ (fun g hg => h g (List.mem_cons_of_mem _ hg))]
  | .fit y fh :: r, cur, h => by
    simp only [memberOps]
    rw [memberOps_explicit r _ (fun g hg => h g (List.mem_cons_of_mem _ hg))]
  | .update y up :: r, cur, h => by
    simp only [memberOps]
    rw [memberOps_explicit r _ (fun g hg => h g (List.mem_cons_of_mem _ hg))]
  | .setCutoff c :: r, cur, h => by
    simp only [memberOps]
    rw [memberOps_explicit r _ (fun g hg => h g (List.mem_cons_of_mem _ hg))]

/-- for an out-of-sample horizon the hold-out split is: train = the first `n − max(fh)` positions,
test = `n − max(fh) − 1 + h` for every step `h` -/
theorem holdoutSplit_outOfSample (n : Nat) (f : Horizon) (h : OutOfSample f n) :
    holdoutSplit n f = .ok (arange 0 ((n : Int) - Split.fhMax f), f.map ((n : Int) - Split.fhMax f - 1 + ·)) := by
  obtain ⟨hs, hne, hpos, hfit⟩ := h
  have := (C01.single_window_fold (n : Int) f none hs hne hpos (by intro w hw; cases hw) hfit).1
  unfold holdoutSplit
  rw [this]

theorem holdout_window_after_train (n : Nat) (f : Horizon) (h : OutOfSample f n) :
    (∀ p ∈ f.map ((n : Int) - Split.fhMax f - 1 + ·), ∀ q ∈ arange 0 ((n : Int) - Split.fhMax f), q < p) ∧
    ((n : Int) - 1 ∈ f.map ((n : Int) - Split.fhMax f - 1 + ·)) ∧
    (∀ p ∈ f.map ((n : Int) - Split.fhMax f - 1 + ·), p ≤ (n : Int) - 1) := by
  obtain ⟨hs, hne, hpos, hfit⟩ := h
  refine ⟨?_, ?_, ?_⟩
  · intro p hp q hq
    obtain ⟨k, hk, rfl⟩ := List.mem_map.mp hp
    have := hpos k hk
    have := (SkVerif.Lem.arange_mem _ _ _).mp hq
    omega
  · exact List.mem_map.mpr ⟨Split.fhMax f, SkVerif.Lem.fhMax_mem f hne, by omega⟩
  · intro p hp
    obtain ⟨k, hk, rfl⟩ := List.mem_map.mp hp
    have := SkVerif.Lem.le_fhMax f hs k hk
    omega

end SkVerif.Compose.Lem
