/-
Phase of the seasonal component removed/restored by the (conditional) deseasonalizer model.
-/
import SkVerif.Model.SeriesTransform
import SkVerif.Lemmas.SeriesRound
namespace SkVerif.Lem.ST
open SkVerif SkVerif.ST

/-- labels `t, t+1, …` (a stretch of time) -/
def Contiguous (t : Int) (z : Series) : Prop :=
  ∀ i (h : i < z.length), (z[i]).1 = t + (i : Int)

/-- the seasonal component has one value per phase -/
def DesWF (s : Des) : Prop := 0 < s.sp ∧ ∀ seas, s.seasonal = some seas → seas.length = s.sp

/-- the value the phase map assigns to label `l` when phases are counted from `t0` -/
def phaseVal (sp : Nat) (seas : List Rat) (t0 l : Int) : Rat :=
  seas.getD ((l - t0) % (sp : Int)).toNat 0

theorem desApply_contiguous (mult inv : Bool) (sp : Nat) (seas : List Rat) (hlen : seas.length = sp)
    (hsp : 0 < sp) (y0 t : Int) (z : Series) (hz : z ≠ []) (hc : Contiguous t z) :
    desApply mult inv z (alignSeasonal sp seas y0 z)
      = z.map (fun p => (p.1, desOp mult inv p.2 (phaseVal sp seas y0 p.1))) := by
  cases z with
  | nil => exact absurd rfl hz
  | cons p rest =>
    obtain ⟨t', v⟩ := p
    have ht : t' = t := by
      have := hc 0 (by simp)
      simpa using this
    subst ht
    have hne : seas.length ≠ 0 := by omega
    have hal := alignSeasonal_length sp seas hne y0 ((t', v) :: rest)
    apply List.ext_getElem?
    intro i
    unfold desApply
    by_cases hi : i < rest.length + 1
    · have h1 : i < ((t', v) :: rest).length := by simpa using hi
      have hz' : ((t', v) :: rest)[i]? = some (((t', v) :: rest)[i]) := List.getElem?_eq_getElem h1
      have ha := alignSeasonal_getElem? sp seas hlen hsp y0 t' v rest i hi
      have hidx : ((t' + (i : Int) - y0) % (sp : Int)).toNat < seas.length := by
        have h0 := Int.emod_nonneg (t' + (i : Int) - y0) (by omega : (sp : Int) ≠ 0)
        have h2 := Int.emod_lt_of_pos (t' + (i : Int) - y0) (by omega : (0 : Int) < (sp : Int))
        omega
      rw [List.getElem?_zipWith, hz', ha, List.getElem?_eq_getElem hidx, List.getElem?_map, hz']
      simp only [Option.map_some, Option.some.injEq, Prod.mk.injEq, true_and]
      have hl := hc i h1
      simp only [phaseVal, hl, List.getD_eq_getElem?_getD, List.getElem?_eq_getElem hidx, Option.getD_some]
    · have h1 : ¬ i < ((t', v) :: rest).length := by simpa using hi
      rw [List.getElem?_eq_none (by simp only [List.length_zipWith, hal]; omega)]
      rw [List.getElem?_eq_none (by simp only [List.length_map]; omega)]

/-- **what transform / inverse_transform do on a stretch of time**: the component is the
seasonal value of the label's phase relative to the stored reference `y0`. -/
theorem desTransform_contiguous (s : Des) (hwf : DesWF s) (seas : List Rat) (y0 : Int)
    (hf : s.fitted = true) (hs : s.seasonal = some seas) (hy : s.y0 = some y0)
    (inv : Bool) (t : Int) (z : Series) (hv : checkSeries false (.series z) = .ok z) (hc : Contiguous t z) :
    desTransform s inv (.series z)
      = (s, .ser (z.map (fun p => (p.1, desOp s.mult inv p.2 (phaseVal s.sp seas y0 p.1))))) := by
  have hz : z ≠ [] := by
    intro h
    subst h
    simp [checkSeries_series, labels, sortedLE] at hv
  unfold desTransform
  simp only [hf, hv, hs, hy, Bool.not_true, Bool.false_eq_true, ↓reduceIte]
  rw [desApply_contiguous s.mult inv s.sp seas (hwf.2 seas hs) hwf.1 y0 t z hz hc]

/-- two references that differ by a multiple of the period give the same phase map -/
theorem phaseVal_congr (sp : Nat) (seas : List Rat) (y0 t0 l : Int) (h : (y0 - t0) % (sp : Int) = 0) :
    phaseVal sp seas y0 l = phaseVal sp seas t0 l := by
  unfold phaseVal
  have : (l - y0) % (sp : Int) = (l - t0) % (sp : Int) := by
    apply Int.emod_eq_emod_iff_emod_sub_eq_zero.mpr
    have e : l - y0 - (l - t0) = -(y0 - t0) := by ring
    rw [e]
    have hd : (sp : Int) ∣ (y0 - t0) := Int.dvd_of_emod_eq_zero h
    exact Int.emod_eq_zero_of_dvd (Int.dvd_neg.mpr hd)
  rw [this]

/-- the phase reference is the training start up to a multiple of the period -/
def PhaseRef (s : Des) (t0 : Int) (seas : List Rat) : Prop :=
  s.fitted = true ∧ s.seasonal = some seas ∧ DesWF s ∧ ∃ y0, s.y0 = some y0 ∧ (y0 - t0) % (s.sp : Int) = 0

theorem desTransform_state (s : Des) (inv : Bool) (inp : Input) : (desTransform s inv inp).1 = s := by
  unfold desTransform
  split
  · rfl
  · split
    · rfl
    · split <;> rfl

/-- `update` never changes the object (repo commit 1ad9b8f) -/
theorem desUpdate_state (s : Des) (inp : Input) : (desUpdate s inp).1 = s := by
  unfold desUpdate
  split
  · rfl
  · split <;> rfl

theorem desDecompose_error_state (s : Des) (z : Series) (d : FitData) (e : Err)
    (h : (desDecompose s z d).2 = .err e) : (desDecompose s z d).1 = s := by
  unfold desDecompose at h ⊢
  by_cases hdc : (!decompOk s.sp s.mult z) = true
  · simp only [hdc, ↓reduceIte]
  · simp only [hdc, Bool.false_eq_true, ↓reduceIte] at h ⊢
    cases hd : d.seasonal with
    | none => rfl
    | some seas => simp [hd] at h

/-- a `fit` that raises leaves the object exactly as it was (repo commit 1ad9b8f) -/
theorem desFit_error_state (s : Des) (inp : Input) (d : FitData) (e : Err)
    (h : (desFit s inp d).2 = .err e) : (desFit s inp d).1 = s := by
  unfold desFit at h ⊢
  cases hcs : checkSeries false inp with
  | error e' => rfl
  | ok z =>
    simp only [hcs] at h ⊢
    by_cases hc : s.cond = true
    · simp only [hc, ↓reduceIte] at h ⊢
      cases his : d.isSeasonal with
      | none => rfl
      | some b =>
        cases b with
        | true => simp only [his] at h ⊢; exact desDecompose_error_state s z d e h
        | false => simp [his] at h
    · simp only [hc, Bool.false_eq_true, ↓reduceIte] at h ⊢
      exact desDecompose_error_state s z d e h

/-- a successful `fit` on a series starting at `t0` establishes the reference -/
theorem desFit_phaseRef (s : Des) (hsp : 0 < s.sp) (inp : Input) (d : FitData)
    (hd : ∀ seas, d.seasonal = some seas → seas.length = s.sp)
    (hok : (desFit s inp d).2 = .ok) :
    ∃ z seas t0 v rest, checkSeries false inp = .ok z ∧ z = (t0, v) :: rest ∧
      PhaseRef (desFit s inp d).1 t0 seas ∧ (desFit s inp d).1.sp = s.sp ∧ (desFit s inp d).1.mult = s.mult := by
  unfold desFit at hok ⊢
  cases hcs : checkSeries false inp with
  | error e => simp [hcs] at hok
  | ok z =>
    simp only [hcs] at hok ⊢
    cases z with
    | nil =>
      cases inp with
      | notSeries => simp [checkSeries] at hcs
      | floatIndex => simp [checkSeries] at hcs
      | series z' =>
        have := checkSeries_series_ok false z' [] hcs
        subst this
        simp [checkSeries_series, labels, sortedLE] at hcs
    | cons p rest =>
      obtain ⟨t0, v⟩ := p
      have key : (desDecompose s ((t0, v) :: rest) d).2 = .ok →
          ∃ seas, PhaseRef (desDecompose s ((t0, v) :: rest) d).1 t0 seas ∧
            (desDecompose s ((t0, v) :: rest) d).1.sp = s.sp ∧ (desDecompose s ((t0, v) :: rest) d).1.mult = s.mult := by
        intro h4
        unfold desDecompose at h4 ⊢
        split at h4
        · simp at h4
        · rename_i hdc
          simp only [hdc, Bool.false_eq_true, ↓reduceIte]
          cases hds : d.seasonal with
          | none => simp [hds] at h4
          | some seas =>
            refine ⟨seas, ⟨rfl, rfl, ⟨hsp, ?_⟩, t0, by simp [labels], by simp⟩, rfl, rfl⟩
            intro seas' hs'
            simp only [Option.some.injEq] at hs'
            subst hs'
            exact hd seas hds
      by_cases hc : s.cond = true
      · simp only [hc, ↓reduceIte] at hok ⊢
        cases his : d.isSeasonal with
        | none => simp [his] at hok
        | some b =>
          cases b with
          | true =>
            simp only [his] at hok ⊢
            obtain ⟨seas, h⟩ := key hok
            exact ⟨_, seas, t0, v, rest, rfl, rfl, h⟩
          | false =>
            refine ⟨_, List.replicate s.sp (if s.mult = true then 1 else 0), t0, v, rest, rfl, rfl, ?_, rfl, rfl⟩
            refine ⟨rfl, rfl, ⟨hsp, ?_⟩, t0, by simp [labels], by simp⟩
            intro seas' hs'
            simp only [Option.some.injEq] at hs'
            subst hs'
            simp
      · simp only [hc, Bool.false_eq_true, ↓reduceIte] at hok ⊢
        obtain ⟨seas, h⟩ := key hok
        exact ⟨_, seas, t0, v, rest, rfl, rfl, h⟩

end SkVerif.Lem.ST
