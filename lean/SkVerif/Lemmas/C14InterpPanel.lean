import SkVerif.Lemmas.C14Interp
namespace SkVerif.C14.Lem
open SkVerif SkVerif.C14

theorem linspace01_eq_map (L : Nat) :
    linspace01 L = (List.range L).map (fun (j : Nat) => if L ≤ 1 then (0 : Rat) else (j : Rat) / ((L - 1 : Nat) : Rat)) := by
  unfold linspace01
  by_cases h1 : L = 1
  · subst h1; simp [List.range_succ]
  · simp only [h1, if_false]
    apply List.map_congr_left
    intro j hj
    have hj' := List.mem_range.mp hj
    have : ¬ L ≤ 1 := by omega
    simp [this]

/-- TSInterpolator on one cell with at least two points -/
theorem resizeCell_eq_spec (L : Nat) (c : Cell) (hn : 2 ≤ c.length) :
    resizeCell L c = .ok (Spec.resample L c) := by
  have h0 : c.length ≠ 0 := by omega
  have h1 : c.length ≠ 1 := by omega
  simp only [resizeCell, h0, h1, if_false]
  congr 1
  rw [linspace01_eq_map L, List.map_map]
  unfold Spec.resample
  apply List.map_congr_left
  intro j hj
  have hj' := List.mem_range.mp hj
  simp only [Function.comp]
  have hN : (0 : Rat) ≤ ((c.length - 1 : Nat) : Rat) := by positivity
  by_cases hL : L ≤ 1
  · simp only [hL, if_true]
    have hm := interp1_isLinInterp c 0 hn (le_refl _) (by norm_num)
    have hs := linInterpAt_isLinInterp c 0 hn (le_refl _) hN
    have hp : Spec.position c.length L j = 0 := by simp [Spec.position, hL]
    rw [hp]
    rw [zero_mul] at hm
    exact isLinInterp_unique c 0 _ _ hm hs
  · simp only [hL, if_false]
    have hLpos : (0 : Rat) < ((L - 1 : Nat) : Rat) := by
      have : 0 < L - 1 := by omega
      exact_mod_cast this
    have hq0 : (0 : Rat) ≤ (j : Rat) / ((L - 1 : Nat) : Rat) := by positivity
    have hq1 : (j : Rat) / ((L - 1 : Nat) : Rat) ≤ 1 := by
      rw [div_le_one hLpos]
      have : j ≤ L - 1 := by omega
      exact_mod_cast this
    have hm := interp1_isLinInterp c _ hn hq0 hq1
    have hp : Spec.position c.length L j = (j : Rat) / ((L - 1 : Nat) : Rat) * ((c.length - 1 : Nat) : Rat) := by
      simp only [Spec.position, hL, if_false]; ring
    rw [hp]
    have hs := linInterpAt_isLinInterp c ((j : Rat) / ((L - 1 : Nat) : Rat) * ((c.length - 1 : Nat) : Rat)) hn
      (by positivity) (by
        have := mul_le_mul_of_nonneg_right hq1 hN
        linarith)
    exact isLinInterp_unique c _ _ _ hm hs

theorem resample_length (L : Nat) (ys : List Rat) : (Spec.resample L ys).length = L := by
  simp [Spec.resample]

/-- the polyline passes through its own points -/
theorem linInterpAt_knot (ys : List Rat) (i : Nat) (hn : 2 ≤ ys.length) (hi : i < ys.length) :
    Spec.linInterpAt ys (i : Rat) = ys.getD i 0 := by
  have hs := linInterpAt_isLinInterp ys (i : Rat) hn (by positivity) (by
    have : i ≤ ys.length - 1 := by omega
    exact_mod_cast this)
  have hk : Spec.IsLinInterp ys (i : Rat) (ys.getD i 0) := by
    by_cases hlast : i + 1 < ys.length
    · exact ⟨i, hlast, le_refl _, by linarith, by ring⟩
    · refine ⟨i - 1, by omega, ?_, ?_, ?_⟩
      · have : i - 1 ≤ i := by omega
        exact_mod_cast this
      · have : i = i - 1 + 1 := by omega
        have h2 : (i : Rat) = ((i - 1 : Nat) : Rat) + 1 := by exact_mod_cast this
        linarith
      · have e : i - 1 + 1 = i := by omega
        have h2 : (i : Rat) = ((i - 1 : Nat) : Rat) + 1 := by exact_mod_cast e.symm
        rw [e, h2]; ring
  exact isLinInterp_unique ys _ _ _ hs hk

/-- resizing to the length the series already has returns the series -/
theorem resample_same_length (ys : List Rat) (hn : 2 ≤ ys.length) : Spec.resample ys.length ys = ys := by
  apply List.ext_getElem
  · simp [Spec.resample]
  · intro j h1 h2
    simp only [Spec.resample, List.getElem_map, List.getElem_range]
    have hL : ¬ ys.length ≤ 1 := by omega
    have hN : ((ys.length - 1 : Nat) : Rat) ≠ 0 := by
      have : 0 < ys.length - 1 := by omega
      have : (0 : Rat) < ((ys.length - 1 : Nat) : Rat) := by exact_mod_cast this
      exact ne_of_gt this
    have hp : Spec.position ys.length ys.length j = (j : Rat) := by
      simp only [Spec.position, hL, if_false]
      field_simp
    rw [hp, linInterpAt_knot ys j hn h2]
    simp [List.getD_eq_getElem?_getD, h2]

/-- the first and the last sample are the first and the last point of the series -/
theorem resample_endpoints (L : Nat) (ys : List Rat) (hn : 2 ≤ ys.length) (hL : 2 ≤ L) :
    (Spec.resample L ys).head? = ys.head? ∧ (Spec.resample L ys).getLast? = ys.getLast? := by
  have hL' : ¬ L ≤ 1 := by omega
  constructor
  · have : (Spec.resample L ys).head? = some (Spec.linInterpAt ys (Spec.position ys.length L 0)) := by
      unfold Spec.resample
      rw [List.head?_map, List.head?_range]
      have : L ≠ 0 := by omega
      simp [this]
    rw [this]
    have hp : Spec.position ys.length L 0 = ((0 : Nat) : Rat) := by simp [Spec.position, hL']
    rw [hp, linInterpAt_knot ys 0 hn (by omega)]
    cases ys with
    | nil => simp at hn
    | cons a l => simp
  · have : (Spec.resample L ys).getLast? = some (Spec.linInterpAt ys (Spec.position ys.length L (L - 1))) := by
      unfold Spec.resample
      rw [List.getLast?_map, List.getLast?_range]
      have : L ≠ 0 := by omega
      simp [this]
    rw [this]
    have hLne : ((L - 1 : Nat) : Rat) ≠ 0 := by
      have : 0 < L - 1 := by omega
      have : (0 : Rat) < ((L - 1 : Nat) : Rat) := by exact_mod_cast this
      exact ne_of_gt this
    have hp : Spec.position ys.length L (L - 1) = ((ys.length - 1 : Nat) : Rat) := by
      simp only [Spec.position, hL', if_false]
      field_simp
    rw [hp, linInterpAt_knot ys (ys.length - 1) hn (by omega)]
    rw [List.getLast?_eq_getElem?, List.getD_eq_getElem?_getD]
    have : ys.length - 1 < ys.length := by omega
    simp [this]

/-- TSInterpolator on a panel -/
theorem interpolate_eq_spec (L : Nat) (hL : 0 < L) (X : Panel)
    (hX : WellShaped X) (hlen : ∀ inst ∈ X, ∀ c ∈ inst, 2 ≤ c.length) :
    interpolate (.int L) X = .ok (Spec.interpolate L X) := by
  have h1 : ¬ ((L : Int) ≤ 0) := by omega
  have h2 : L ≠ 0 := by omega
  simp only [interpolate, interpNew, h1, if_false, bind, Except.bind, checkX_ok hX, Int.toNat_natCast]
  unfold Spec.interpolate
  apply mapM_except_ok
  intro inst hi
  apply mapM_except_ok
  intro c hc
  exact resizeCell_eq_spec L c (hlen inst hi c hc)

end SkVerif.C14.Lem
