/-
Helper lemmas for C07, part 5: `evaluate` itself — which checks it runs before the loop, and the
loop it then runs.
-/
import SkVerif.Lemmas.EvaluateLeak
namespace SkVerif.Lem.Ev
open SkVerif SkVerif.Split SkVerif.Evaluate SkVerif.Evaluate.Spec

variable {σ α ξ β : Type}

theorem evaluate_eq (m : Machine σ α ξ) (dflt : Metric α β) (st0 : σ) (cv : CV) (y : Series α) (X : Option (Series ξ))
    (strategy : Strategy) (scoring : Scoring α β) (fp : Option Int) (rd : Bool) (mt : Metric α β) (nm : String)
    (fs : List Fold)
    (hs : strategy ≠ .invalid) (hcv : checkCv cv = .ok ()) (hm : resolveScoring dflt scoring = .ok mt)
    (hyx : checkYX y X = .ok ()) (hn : mt.name = some nm) (hsp : cv.split y.length = .ok fs) :
    evaluate m dflt st0 cv y X strategy scoring fp rd =
      ((loop ⟨m, mt.fn, strategy, rd, fp, y, X, cv.fh⟩ 0 st0 fs).1,
       tableOf nm (loop ⟨m, mt.fn, strategy, rd, fp, y, X, cv.fh⟩ 0 st0 fs).2) := by
  have hs' : (strategy == Strategy.invalid) = false := by
    cases strategy <;> simp_all
  unfold evaluate
  simp only [hs', Bool.false_eq_true, ↓reduceIte, hcv, hm, hyx, hn, hsp]
  cases (loop ⟨m, mt.fn, strategy, rd, fp, y, X, cv.fh⟩ 0 st0 fs).2 <;> rfl

/-- if `evaluate` returns a table, all its checks passed and the table is the loop's rows -/
theorem evaluate_ok_inv (m : Machine σ α ξ) (dflt : Metric α β) (st0 : σ) (cv : CV) (y : Series α) (X : Option (Series ξ))
    (strategy : Strategy) (scoring : Scoring α β) (fp : Option Int) (rd : Bool) (tr : List (Call α ξ)) (t : Table α β)
    (h : evaluate m dflt st0 cv y X strategy scoring fp rd = (tr, .ok t)) :
    ∃ mt nm fs, strategy ≠ .invalid ∧ checkCv cv = .ok () ∧ resolveScoring dflt scoring = .ok mt ∧ checkYX y X = .ok () ∧
      mt.name = some nm ∧ cv.split y.length = .ok fs ∧
      loop ⟨m, mt.fn, strategy, rd, fp, y, X, cv.fh⟩ 0 st0 fs = (tr, .ok t.rows) ∧ t.scoreName = "test_" ++ nm ∧
      t.rows ≠ [] := by
  by_cases hs : strategy = .invalid
  · subst hs; simp [evaluate] at h
  cases hcv : checkCv cv with
  | error e => simp [evaluate, hs, hcv] at h
  | ok u =>
  cases hm : resolveScoring dflt scoring with
  | error e => simp [evaluate, hs, hcv, hm] at h
  | ok mt =>
  cases hyx : checkYX y X with
  | error e => simp [evaluate, hs, hcv, hm, hyx] at h
  | ok u' =>
  cases hn : mt.name with
  | none => simp [evaluate, hs, hcv, hm, hyx, hn] at h
  | some nm =>
  cases hsp : cv.split y.length with
  | error e => simp [evaluate, hs, hcv, hm, hyx, hn, hsp] at h
  | ok fs =>
    rw [evaluate_eq m dflt st0 cv y X strategy scoring fp rd mt nm fs hs hcv hm hyx hn hsp] at h
    refine ⟨mt, nm, fs, hs, rfl, rfl, rfl, hn, rfl, ?_⟩
    simp only [Prod.mk.injEq] at h
    obtain ⟨h1, h2⟩ := h
    cases hr : (loop ⟨m, mt.fn, strategy, rd, fp, y, X, cv.fh⟩ 0 st0 fs).2 with
    | error e => rw [hr] at h2; simp [tableOf] at h2
    | ok rows =>
      rw [hr] at h2
      simp only [tableOf] at h2
      split at h2
      · simp at h2
      · simp only [Except.ok.injEq] at h2
        subst h2
        refine ⟨?_, rfl, ?_⟩
        · rw [← h1, ← hr]
        · intro hnil; simp_all

theorem isMono_of_strict (l : List Int) (h : l.Pairwise (· < ·)) : isMono l = true := by
  induction l with
  | nil => rfl
  | cons a l ih =>
    cases l with
    | nil => rfl
    | cons b l =>
      have hab : a ≤ b := by
        have := (List.pairwise_cons.mp h).1 b (by simp); omega
      simp [isMono, hab, ih (List.pairwise_cons.mp h).2]

/-- ordered distinct time points, a non-empty series and exogenous data on the same time points
pass `check_y_X` -/
theorem checkYX_ok (y : Series α) (X : Option (Series ξ)) (hy : StrictLabels y) (hne : y ≠ [])
    (hXl : ∀ X', X = some X' → labels X' = labels y) : checkYX y X = .ok () := by
  have h1 := isMono_of_strict _ hy
  have h2 : y.isEmpty = false := by cases y <;> simp_all
  unfold checkYX
  cases X with
  | none => simp [h1, h2]
  | some X' =>
    have hl := hXl X' rfl
    have h3 : X'.isEmpty = false := by
      have : X'.length = y.length := by
        have := congrArg List.length hl
        simpa [labels] using this
      cases X' with
      | nil => cases y <;> simp_all
      | cons a l => rfl
    simp [h1, h2, hl, h3]

theorem loop_length (c : Ctx σ α ξ β) (fs : List Fold) (i : Nat) (st : σ) (rows : List (Row α β))
    (h : (loop c i st fs).2 = .ok rows) : rows.length = fs.length := by
  induction fs generalizing i st rows with
  | nil => simp only [loop] at h; cases h; rfl
  | cons f fs ih =>
    cases hs : foldStep c i st f with
    | mk tr r =>
      cases r with
      | error e => simp [loop, hs] at h
      | ok v =>
        obtain ⟨st', row⟩ := v
        simp only [loop, hs] at h
        cases hr : (loop c (i + 1) st' fs).2 with
        | error e => rw [hr] at h; simp at h
        | ok rows' =>
          rw [hr] at h
          simp only [Except.ok.injEq] at h
          subst h
          simp [ih (i + 1) st' rows' hr]

theorem collect_ok_getElem? {ε γ : Type} (l : List (Except ε γ)) (rows : List γ) (h : collect l = .ok rows)
    (i : Nat) (a : Except ε γ) (ha : l[i]? = some a) : ∃ r, a = .ok r ∧ rows[i]? = some r := by
  induction l generalizing rows i with
  | nil => simp at ha
  | cons b l ih =>
    cases b with
    | error e => simp [collect] at h
    | ok r0 =>
      simp only [collect] at h
      cases hc : collect l with
      | error e => rw [hc] at h; simp [consOk] at h
      | ok rs =>
        rw [hc] at h
        simp only [consOk, Except.ok.injEq] at h
        subst h
        cases i with
        | zero => simp at ha; exact ⟨r0, ha.symm, by simp⟩
        | succ i =>
          simp only [List.getElem?_cons_succ] at ha ⊢
          exact ih rs hc i ha

theorem collect_length {ε γ : Type} (l : List (Except ε γ)) (rows : List γ) (h : collect l = .ok rows) :
    rows.length = l.length := by
  induction l generalizing rows with
  | nil => simp [collect] at h; subst h; rfl
  | cons b l ih =>
    cases b with
    | error e => simp [collect] at h
    | ok r0 =>
      simp only [collect] at h
      cases hc : collect l with
      | error e => rw [hc] at h; simp [consOk] at h
      | ok rs =>
        rw [hc] at h
        simp only [consOk, Except.ok.injEq] at h
        subst h
        simp [ih rs hc]

theorem forall₂_map_eq {γ δ ε : Type} (R : γ → δ → Prop) (f : γ → ε) (g : δ → ε) (l1 : List γ) (l2 : List δ)
    (h : List.Forall₂ R l1 l2) (hfg : ∀ a b, R a b → f a = g b) : l1.map f = l2.map g := by
  induction h with
  | nil => rfl
  | cons hab _ ih => simp [hfg _ _ hab, ih]

/-- either no call reached the forecaster, or every check before the loop passed -/
theorem evaluate_trace_or (m : Machine σ α ξ) (dflt : Metric α β) (st0 : σ) (cv : CV) (y : Series α) (X : Option (Series ξ))
    (strategy : Strategy) (scoring : Scoring α β) (fp : Option Int) (rd : Bool) :
    (evaluate m dflt st0 cv y X strategy scoring fp rd).1 = [] ∨
    ∃ mt nm fs, strategy ≠ .invalid ∧ checkCv cv = .ok () ∧ resolveScoring dflt scoring = .ok mt ∧
      checkYX y X = .ok () ∧ mt.name = some nm ∧ cv.split y.length = .ok fs := by
  by_cases hs : strategy = .invalid
  · subst hs; left; simp [evaluate]
  cases hcv : checkCv cv with
  | error e => left; simp [evaluate, hs, hcv]
  | ok u =>
  cases hm : resolveScoring dflt scoring with
  | error e => left; simp [evaluate, hs, hcv, hm]
  | ok mt =>
  cases hyx : checkYX y X with
  | error e => left; simp [evaluate, hs, hcv, hm, hyx]
  | ok u' =>
  cases hn : mt.name with
  | none => left; simp [evaluate, hs, hcv, hm, hyx, hn]
  | some nm =>
  cases hsp : cv.split y.length with
  | error e => left; simp [evaluate, hs, hcv, hm, hyx, hn, hsp]
  | ok fs => right; exact ⟨mt, nm, fs, hs, rfl, rfl, rfl, hn, rfl⟩

/-- fold number 0 always calls `fit`; if `fit` forgets the earlier state, the fold does not depend
on the state the forecaster was handed in with -/
theorem foldStep_zero_indep (c : Ctx σ α ξ β) (hr : FitResets c.m) (st st' : σ) (f : Fold) :
    foldStep c 0 st f = foldStep c 0 st' f := by
  have h0 : callsFit c.strategy 0 = true := by simp [callsFit]
  have hfit : ∀ y X fh p, c.m.fit st y X fh p = c.m.fit st' y X fh p := hr st st'
  unfold foldStep
  simp only [h0, ↓reduceIte, hfit]

theorem loop_zero_indep (c : Ctx σ α ξ β) (hr : FitResets c.m) (st st' : σ) (fs : List Fold) :
    loop c 0 st fs = loop c 0 st' fs := by
  cases fs with
  | nil => rfl
  | cons f fs => simp only [loop, foldStep_zero_indep c hr st st']

end SkVerif.Lem.Ev
