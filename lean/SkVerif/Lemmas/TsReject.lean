/-
Rejection lemmas for the .ts parser model: which flags a line can set, and that a file lacking one of
the five tags is never loaded.  Core Lean only.
-/
import SkVerif.Lemmas.TsFile
namespace SkVerif.TsFile.Lem
open SkVerif.TsFile

/-- what a case line needs -/
def AllFlags (st : St) : Prop :=
  st.hasPN = true ∧ st.hasTS = true ∧ st.hasUni = true ∧ st.hasCL = true ∧ st.hasData = true

theorem dataLine_ok_flags (st st' : St) (l : Str) (h : dataLine st l = .ok st') :
    AllFlags st ∧ st'.hasPN = st.hasPN ∧ st'.hasTS = st.hasTS ∧ st'.hasUni = st.hasUni ∧ st'.hasCL = st.hasCL
      ∧ st'.hasData = st.hasData ∧ st'.dataStarted = st.dataStarted := by
  unfold dataLine at h
  dsimp only at h
  repeat' split at h
  all_goals (try cases h)
  all_goals (simp only [bind, Except.bind, pure, Except.pure] at h)
  all_goals (repeat' split at h)
  all_goals (try cases h)
  all_goals (simp_all [AllFlags])

theorem step_flags (st st' : St) (l : Str) (h : step st l = .ok st') :
    (st'.hasPN = true → st.hasPN = true ∨ startsWith kwProblemName l = true) ∧
    (st'.hasTS = true → st.hasTS = true ∨ startsWith kwTimestamps l = true) ∧
    (st'.hasUni = true → st.hasUni = true ∨ startsWith kwUnivariate l = true) ∧
    (st'.hasCL = true → st.hasCL = true ∨ startsWith kwClassLabel l = true) ∧
    (st'.hasData = true → st.hasData = true ∨ startsWith kwData l = true) ∧
    (st'.dataStarted = true → st.dataStarted = true ∨ startsWith kwData l = true) ∧
    (st'.numDims ≠ none → st.numDims ≠ none ∨ (AllFlags st ∧ st.dataStarted = true)) := by
  unfold step at h
  dsimp only at h
  repeat' split at h
  all_goals (try cases h)
  all_goals (try simp_all)
  have := dataLine_ok_flags st st' l h
  simp_all [AllFlags]

/-- a tag never seen: its flag stays false and no case line is ever accepted -/
theorem run_missing (flag : St → Bool) (kw : Str)
    (hstep : ∀ st st' l, step st l = .ok st' → flag st' = true → flag st = true ∨ startsWith kw l = true)
    (hneeded : ∀ st, AllFlags st → flag st = true) :
    ∀ (ls : List Str) (st st' : St), (∀ l ∈ ls, startsWith kw l = false) → flag st = false →
      st.numDims = none → run st ls = .ok st' → flag st' = false ∧ st'.numDims = none
  | [], st, st', _, hf, hn, hr => by
    simp only [run] at hr; cases hr; exact ⟨hf, hn⟩
  | l :: ls, st, st', hl, hf, hn, hr => by
    simp only [run] at hr
    cases hs : step st l with
    | error e => simp [hs] at hr
    | ok s1 =>
      simp only [hs] at hr
      have hfl := step_flags st s1 l hs
      have hf1 : flag s1 = false := by
        cases hv : flag s1 with
        | false => rfl
        | true =>
          rcases hstep st s1 l hs hv with h | h
          · simp [hf] at h
          · simp [hl l (by simp)] at h
      have hn1 : s1.numDims = none := by
        cases hv : s1.numDims with
        | none => rfl
        | some n =>
          have := hfl.2.2.2.2.2.2 (by simp [hv])
          rcases this with h | h
          · exact absurd hn h
          · have := hneeded st h.1; simp [hf] at this
      exact run_missing flag kw hstep hneeded ls s1 st' (fun x hx => hl x (by simp [hx])) hf1 hn1 hr

theorem finish_numDims_none (n : Nat) (st : St) (h : st.numDims = none) : ∃ e, finish n st = .error e := by
  unfold finish
  repeat' split
  all_goals first
    | exact ⟨_, rfl⟩
    | simp_all

/-- a file in which no line starts with the tag `kw` (which guards `flag`) is rejected -/
theorem parseTs_missing (flag : St → Bool) (kw : Str) (h0 : flag {} = false)
    (hstep : ∀ st st' l, step st l = .ok st' → flag st' = true → flag st = true ∨ startsWith kw l = true)
    (hneeded : ∀ st, AllFlags st → flag st = true) (text : Str)
    (h : ∀ l ∈ (lines text).map normLine, startsWith kw l = false) : ∃ e, parseTs text = .error e := by
  unfold parseTs
  dsimp only
  cases hr : run {} ((lines text).map normLine) with
  | error e => exact ⟨e, rfl⟩
  | ok st =>
    have := run_missing flag kw hstep hneeded _ {} st h h0 rfl hr
    exact finish_numDims_none _ st this.2

theorem floats_error {toks : List Str} {t : Str} (ht : t ∈ toks) (hf : floatOf t = none) :
    floats toks = .error .value := by
  induction toks with
  | nil => cases ht
  | cons a as ih =>
    rw [floats_cons]
    cases ha : floatOf a with
    | none => rfl
    | some v =>
      have : t ∈ as := by
        rcases List.mem_cons.mp ht with e | e
        · subst e; simp [hf] at ha
        · exact e
      simp [ih this]

end SkVerif.TsFile.Lem
