/- The model's column computations equal the textbook definitions of Spec/Metrics.lean. -/
import SkVerif.Spec.Metrics
import SkVerif.Lemmas.MetricsLaws
namespace SkVerif.Lem.Metrics
open SkVerif SkVerif.Metrics

theorem npAverage_eq_wmean (hw : Option (List Rat)) (xs : List Rat) : npAverage hw xs = Spec.Metrics.wmean hw xs := by
  cases hw <;> rfl

theorem zipWith_congr_mem {α β γ} (f g : α → β → γ) :
    ∀ (as : List α) (bs : List β), (∀ a ∈ as, ∀ b ∈ bs, f a b = g a b) → List.zipWith f as bs = List.zipWith g as bs := by
  intro as
  induction as with
  | nil => intro bs _; simp
  | cons a as ih =>
    intro bs h
    cases bs with
    | nil => simp
    | cons b bs =>
      simp only [List.zipWith_cons_cons]
      rw [h a (by simp) b (by simp), ih bs (fun a' ha b' hb => h a' (by simp [ha]) b' (by simp [hb]))]

theorem absErrs_eq_spec (t p : Col) : absErrs t p = Spec.Metrics.absErr t p := by
  unfold absErrs Spec.Metrics.absErr
  apply zipWith_congr_mem
  intro a _ b _
  rw [absR_eq_abs, abs_sub_comm]

theorem sqr_eq_pow (x : Rat) : sqr x = x ^ 2 := by unfold sqr; ring

theorem sqErrs_eq_spec (t p : Col) : sqErrs t p = Spec.Metrics.sqErr t p := by
  unfold sqErrs Spec.Metrics.sqErr
  apply zipWith_congr_mem
  intro a _ b _
  exact sqr_eq_pow _

theorem map_zipWith' {α β γ δ} (f : α → β → γ) (g : γ → δ) (as : List α) (bs : List β) :
    (List.zipWith f as bs).map g = List.zipWith (fun a b => g (f a b)) as bs := by
  rw [List.map_zipWith]

/-- |percentage errors| are the textbook sAPE / APE when no actual value is closer to 0 than eps -/
theorem pctCol_abs_eq_spec (eps : Rat) (he : 0 < eps) (sym : Bool) (t p : Col) (hg : ∀ a ∈ t, eps ≤ |a|) :
    (pctCol eps sym t p).map absR = Spec.Metrics.pctErrs sym t p := by
  unfold pctCol Spec.Metrics.pctErrs
  rw [map_zipWith']
  cases sym with
  | true =>
    simp only [if_true]
    unfold Spec.Metrics.sAPE
    apply zipWith_congr_mem
    intro a ha b _
    have h1 : eps ≤ |a| + |b| := by have := hg a ha; have := abs_nonneg b; linarith
    rw [pctErr_sym_eq_textbook eps a b h1, absR_eq_abs, abs_of_nonneg]
    have : 0 < |a| + |b| := lt_of_lt_of_le he h1
    positivity
  | false =>
    simp only [Bool.false_eq_true, if_false]
    unfold Spec.Metrics.APE
    apply zipWith_congr_mem
    intro a ha b _
    rw [pctErr_asym_eq_textbook eps a b (hg a ha), absR_eq_abs, abs_div, abs_abs]

theorem pctCol_sqr_eq_spec (eps : Rat) (he : 0 < eps) (sym : Bool) (t p : Col) (hg : ∀ a ∈ t, eps ≤ |a|) :
    (pctCol eps sym t p).map sqr = (Spec.Metrics.pctErrs sym t p).map (· ^ 2) := by
  rw [← pctCol_abs_eq_spec eps he sym t p hg, List.map_map]
  apply List.map_congr_left
  intro x _
  simp only [Function.comp, absR_eq_abs, sq_abs, sqr_eq_pow]

theorem asymCol_eq_spec (thr : Rat) (l r : EF) (t p : Col) :
    asymCol thr l r t p = Spec.Metrics.asymLoss thr l.app r.app t p := rfl

/-- relative errors are the textbook ones when the benchmark never comes closer to the truth than eps -/
theorem relCol_eq_spec (eps : Rat) : ∀ (t p b : Col),
    (∀ x ∈ List.zipWith (fun a g => |a - g|) t b, eps ≤ x) → relCol eps t p b = Spec.Metrics.relErr t p b := by
  intro t
  induction t with
  | nil => intro p b _; simp [relCol, Spec.Metrics.relErr]
  | cons a t ih =>
    intro p b hg
    cases p with
    | nil => simp [relCol, Spec.Metrics.relErr]
    | cons f p =>
      cases b with
      | nil => simp [relCol, Spec.Metrics.relErr]
      | cons g b =>
        simp only [List.zipWith_cons_cons, List.mem_cons, forall_eq_or_imp] at hg
        simp only [relCol, Spec.Metrics.relErr]
        rw [relErr_eq_textbook eps a f g hg.1, ih p b hg.2]

theorem map_absR_eq (xs : List Rat) : xs.map absR = xs.map (|·|) :=
  List.map_congr_left (fun x _ => absR_eq_abs x)

/-! ### `np.median` returns a median -/
theorem sorted_count_le : ∀ (s : List Rat), s.Pairwise (· ≤ ·) → ∀ (i : Nat) (hi : i < s.length) (v : Rat),
    s[i] ≤ v → i + 1 ≤ (s.filter (fun x => decide (x ≤ v))).length := by
  intro s
  induction s with
  | nil => intro _ i hi; simp at hi
  | cons a l ih =>
    intro hs i hi v hv
    have hp := List.pairwise_cons.mp hs
    cases i with
    | zero =>
      simp only [List.getElem_cons_zero] at hv
      simp [hv]
    | succ i' =>
      simp only [List.getElem_cons_succ] at hv
      have hi' : i' < l.length := by simpa using hi
      have ha : a ≤ v := le_trans (hp.1 _ (List.getElem_mem hi')) hv
      have := ih hp.2 i' hi' v hv
      simp only [List.filter_cons, ha, decide_true, if_true, List.length_cons]
      omega

theorem sorted_count_ge : ∀ (s : List Rat), s.Pairwise (· ≤ ·) → ∀ (i : Nat) (hi : i < s.length) (v : Rat),
    v ≤ s[i] → s.length - i ≤ (s.filter (fun x => decide (v ≤ x))).length := by
  intro s
  induction s with
  | nil => intro _ i hi; simp at hi
  | cons a l ih =>
    intro hs i hi v hv
    have hp := List.pairwise_cons.mp hs
    cases i with
    | zero =>
      simp only [List.getElem_cons_zero] at hv
      have hall : ∀ x ∈ a :: l, decide (v ≤ x) = true := by
        intro x hx
        rcases List.mem_cons.mp hx with rfl | hx
        · simpa using hv
        · simpa using le_trans hv (hp.1 x hx)
      rw [List.filter_eq_self.mpr hall]; simp
    | succ i' =>
      simp only [List.getElem_cons_succ] at hv
      have hi' : i' < l.length := by simpa using hi
      have := ih hp.2 i' hi' v hv
      have h2 : (l.filter (fun x => decide (v ≤ x))).length ≤ ((a :: l).filter (fun x => decide (v ≤ x))).length := by
        simp only [List.filter_cons]; split <;> simp
      simp only [List.length_cons]
      omega

theorem median_isMedian (xs : List Rat) (hne : xs ≠ []) : Spec.Metrics.IsMedian (median xs) xs := by
  have hperm := sortRats_perm xs
  have hsorted := sortRats_sorted xs
  have hlen : (sortRats xs).length = xs.length := sortRats_length xs
  have hpos : 0 < xs.length := List.length_pos_of_ne_nil hne
  have hc1 : ∀ v, (xs.filter (fun x => decide (x ≤ v))).length = ((sortRats xs).filter (fun x => decide (x ≤ v))).length :=
    fun v => ((hperm.filter _).length_eq).symm
  have hc2 : ∀ v, (xs.filter (fun x => decide (v ≤ x))).length = ((sortRats xs).filter (fun x => decide (v ≤ x))).length :=
    fun v => ((hperm.filter _).length_eq).symm
  have hget : ∀ i (hi : i < (sortRats xs).length), (sortRats xs).getD i 0 = (sortRats xs)[i] := by
    intro i hi; simp [List.getD_eq_getElem?_getD, List.getElem?_eq_getElem hi]
  by_cases hodd : xs.length % 2 = 1
  · have hi : xs.length / 2 < (sortRats xs).length := by omega
    have hm : median xs = (sortRats xs)[xs.length / 2] := by
      unfold median; simp only [hlen, hodd, if_true]; exact hget _ hi
    rw [hm]
    unfold Spec.Metrics.IsMedian
    rw [hc1, hc2]
    have h1 := sorted_count_le _ hsorted _ hi _ (le_refl _)
    have h2 := sorted_count_ge _ hsorted _ hi _ (le_refl _)
    omega
  · have hi : xs.length / 2 < (sortRats xs).length := by omega
    have hi' : xs.length / 2 - 1 < (sortRats xs).length := by omega
    have hm : median xs = ((sortRats xs)[xs.length / 2 - 1] + (sortRats xs)[xs.length / 2]) / 2 := by
      unfold median; simp only [hlen, hodd, if_false]; rw [hget _ hi, hget _ hi']
    rw [hm]
    unfold Spec.Metrics.IsMedian
    rw [hc1, hc2]
    have hle : (sortRats xs)[xs.length / 2 - 1] ≤ (sortRats xs)[xs.length / 2] := by
      rcases Nat.lt_or_ge (xs.length / 2 - 1) (xs.length / 2) with hlt | hge
      · exact (List.pairwise_iff_getElem.mp hsorted) _ _ hi' hi hlt
      · omega
    have h1 := sorted_count_le _ hsorted _ hi' (((sortRats xs)[xs.length / 2 - 1] + (sortRats xs)[xs.length / 2]) / 2)
      (by linarith)
    have h2 := sorted_count_ge _ hsorted _ hi (((sortRats xs)[xs.length / 2 - 1] + (sortRats xs)[xs.length / 2]) / 2)
      (by linarith)
    omega

end SkVerif.Lem.Metrics
